#!/venv/bin/python
"""Regenerate coq/Gen/Units.v from $VERIF_REPO/rebound/units.py (python `ast`, fail-closed).

Emitted:
  * G_SI and the three tables lengths_SI / times_SI / masses_SI as EXACT values: every decimal literal is read
    from its SOURCE TEXT (not from the rounded double) as a rational; products / quotients / integer powers are
    evaluated over Fractions; `math.sqrt(<rational expr>)` (the 'yr2pi' entry) is kept symbolic: an entry is
    (num, den, is_sqrt) and stands for num/den or sqrt(num/den).  Any other expression form -> exit 1.
  * the arithmetic of convert_mass / convert_length / convert_vel / convert_acc / convert_G as Num-polymorphic
    Gallina terms translated from the function bodies (table look-ups `tbl[unit]` become arguments `tbl_unit`).
  * which conversion units_convert_particle applies to which particle member, the table order searched by
    hash_to_unit, and the (pinned) shape of check_units.
"""
import ast, hashlib, os, re, sys
from fractions import Fraction

REPO = os.environ.get("VERIF_REPO", "/repo")
ROOT = os.path.dirname(os.path.dirname(os.path.abspath(__file__)))
PATH = os.path.join(REPO, "rebound", "units.py")
TABLES = ["lengths_SI", "times_SI", "masses_SI"]


def die(m):
    print("translate_units: " + m, file=sys.stderr)
    sys.exit(1)


src = open(PATH).read()
try:
    tree = ast.parse(src)
except SyntaxError as e:
    die("units.py does not parse: %r" % (e,))

NUMRE = re.compile(r"[0-9]+\.?[0-9]*([eE][-+]?[0-9]+)?|\.[0-9]+([eE][-+]?[0-9]+)?")


class Val:
    def __init__(self, q, sq=False):
        self.q = q; self.sq = sq


def literal(node):
    txt = ast.get_source_segment(src, node)
    if txt is None or not NUMRE.fullmatch(txt.strip()):
        die("numeric literal with unrecognised text %r (line %d)" % (txt, node.lineno))
    q = Fraction(txt.strip())
    if float(q) != float(node.value):
        die("literal %r: text and value disagree" % txt)
    return q


def ev(node, env):
    """exact evaluation of a table-entry expression"""
    if isinstance(node, ast.Constant) and isinstance(node.value, (int, float)) and not isinstance(node.value, bool):
        return Val(literal(node))
    if isinstance(node, ast.Name):
        if node.id in env:
            return env[node.id]
        die("unknown name %s in a table expression (line %d)" % (node.id, node.lineno))
    if isinstance(node, ast.UnaryOp) and isinstance(node.op, ast.USub):
        v = ev(node.operand, env)
        if v.sq: die("negated sqrt")
        return Val(-v.q)
    if isinstance(node, ast.BinOp):
        a = ev(node.left, env); b = ev(node.right, env)
        if a.sq or b.sq:
            die("arithmetic on a math.sqrt value is not supported (line %d)" % node.lineno)
        if isinstance(node.op, ast.Mult): return Val(a.q * b.q)
        if isinstance(node.op, ast.Div):
            if b.q == 0: die("division by zero in table")
            return Val(a.q / b.q)
        if isinstance(node.op, ast.Add): return Val(a.q + b.q)
        if isinstance(node.op, ast.Sub): return Val(a.q - b.q)
        if isinstance(node.op, ast.Pow):
            if b.q.denominator != 1 or abs(b.q) > 64: die("non-integer power in table")
            if a.q == 0 and b.q < 0: die("0**negative")
            return Val(a.q ** int(b.q))
        die("operator %s not supported (line %d)" % (type(node.op).__name__, node.lineno))
    if (isinstance(node, ast.Call) and isinstance(node.func, ast.Attribute) and isinstance(node.func.value, ast.Name)
            and node.func.value.id == "math" and node.func.attr == "sqrt" and len(node.args) == 1 and not node.keywords):
        a = ev(node.args[0], env)
        if a.sq or a.q < 0: die("sqrt of sqrt / negative")
        return Val(a.q, True)
    die("table expression form not understood: %s (line %d)" % (ast.dump(node)[:80], getattr(node, "lineno", 0)))


env = {}
tables = {}
funcs = {}
for node in tree.body:
    if isinstance(node, (ast.Import, ast.ImportFrom)):
        continue
    if isinstance(node, ast.Expr) and isinstance(node.value, ast.Constant) and isinstance(node.value.value, str):
        continue
    if isinstance(node, ast.Assign):
        if len(node.targets) != 1 or not isinstance(node.targets[0], ast.Name):
            die("unsupported module-level assignment (line %d)" % node.lineno)
        name = node.targets[0].id
        if isinstance(node.value, ast.Dict):
            if name not in TABLES: die("unexpected table %s" % name)
            if name in tables: die("table %s defined twice" % name)
            ent = []
            for k, v in zip(node.value.keys, node.value.values):
                if not (isinstance(k, ast.Constant) and isinstance(k.value, str)): die("non-string key in %s" % name)
                if not re.fullmatch(r"[a-z0-9_]+", k.value): die("key %r of %s is not lower-case ascii" % (k.value, name))
                if k.value in [e[0] for e in ent]: die("duplicate key %r in %s" % (k.value, name))
                ent.append((k.value, ev(v, env)))
            tables[name] = ent
        else:
            if name in TABLES: die("table %s is not a dict literal" % name)
            env[name] = ev(node.value, env)
        continue
    if isinstance(node, ast.FunctionDef):
        funcs[node.name] = node
        continue
    die("unsupported module-level statement %s (line %d)" % (type(node).__name__, node.lineno))

for t in TABLES:
    if t not in tables: die("table %s missing" % t)
if "G_SI" not in env or env["G_SI"].sq: die("G_SI missing")
# no later re-assignment / mutation of the tables anywhere (e.g. inside functions)
for n in ast.walk(tree):
    if isinstance(n, (ast.Subscript,)) and isinstance(n.ctx, (ast.Store, ast.Del)) and isinstance(n.value, ast.Name) and n.value.id in TABLES + ["G_SI"]:
        die("table mutated at line %d" % n.lineno)
    if isinstance(n, ast.Call) and isinstance(n.func, ast.Attribute) and isinstance(n.func.value, ast.Name) and n.func.value.id in TABLES \
            and n.func.attr not in ("keys",):
        die("table method %s called at line %d" % (n.func.attr, n.lineno))
    if isinstance(n, (ast.Global, ast.Nonlocal)):
        die("global statement")

# ------------------------------------------------------------------ conversion functions -> Gallina
CONV = {"convert_mass": ["mass"], "convert_length": ["length"], "convert_vel": ["vel"], "convert_acc": ["acc"], "convert_G": []}


def tr_func(fn, valparams, pw=False):
    params = [a.arg for a in fn.args.args]
    if fn.args.vararg or fn.args.kwarg or fn.args.kwonlyargs or fn.args.defaults:
        die("%s: unsupported signature" % fn.name)
    unitvars = [p for p in params if p not in valparams]
    lookups = set(); uses_G = [False]; locs = []

    def ex(n):
        if isinstance(n, ast.Name):
            if n.id in valparams or n.id in [l[0] for l in locs]: return n.id
            if n.id == "G_SI": uses_G[0] = True; return "G_SI"
            die("%s: name %s not understood" % (fn.name, n.id))
        if isinstance(n, ast.Subscript) and isinstance(n.value, ast.Name) and n.value.id in TABLES and isinstance(n.slice, ast.Name) \
                and n.slice.id in unitvars:
            lookups.add((n.value.id, n.slice.id))
            return "%s_%s" % (n.value.id, n.slice.id)
        if isinstance(n, ast.BinOp):
            if isinstance(n.op, ast.Pow):
                if not (isinstance(n.right, ast.Constant) and n.right.value in (2, 3) and isinstance(n.right.value, int)):
                    die("%s: only **2 and **3 are understood" % fn.name)
                b = ex(n.left)
                if pw:       # float ** int is libm pow(): kept abstract (pw2 / pw3) so that the binary64 instance can be given pow's values
                    return "(pw%d %s)" % (n.right.value, b)
                return "(nmul N %s %s)" % (b, b) if n.right.value == 2 else "(nmul N (nmul N %s %s) %s)" % (b, b, b)
            op = {ast.Mult: "nmul", ast.Div: "ndiv", ast.Add: "nadd", ast.Sub: "nsub"}.get(type(n.op))
            if not op: die("%s: operator %s" % (fn.name, type(n.op).__name__))
            return "(%s N %s %s)" % (op, ex(n.left), ex(n.right))
        die("%s: expression %s not understood" % (fn.name, ast.dump(n)[:80]))

    ret = None
    for st in fn.body:
        if ret is not None: die("%s: code after return" % fn.name)
        if isinstance(st, ast.Expr) and isinstance(st.value, ast.Constant) and isinstance(st.value.value, str):
            continue
        if isinstance(st, ast.Assign) and len(st.targets) == 1 and isinstance(st.targets[0], ast.Tuple) and isinstance(st.value, ast.Name) \
                and st.value.id in unitvars and all(isinstance(e, ast.Name) for e in st.targets[0].elts):
            # new_l, new_t, new_m = newunits
            names = [e.id for e in st.targets[0].elts]
            if names != ["new_l", "new_t", "new_m"]: die("%s: tuple unpack order %s" % (fn.name, names))
            unitvars = [u for u in unitvars if u != st.value.id] + names
            continue
        if isinstance(st, ast.Assign) and len(st.targets) == 1 and isinstance(st.targets[0], ast.Name):
            v = st.targets[0].id
            if v in params or v in [l[0] for l in locs]: die("%s: re-assignment of %s" % (fn.name, v))
            locs.append((v, ex(st.value)))
            continue
        if isinstance(st, ast.Return) and st.value is not None:
            ret = ex(st.value)
            continue
        die("%s: statement %s not understood" % (fn.name, type(st).__name__))
    if ret is None: die("%s: no return" % fn.name)
    args = list(valparams) + (["G_SI"] if uses_G[0] else [])
    for t in TABLES:
        for u in unitvars:
            if (t, u) in lookups: args.append("%s_%s" % (t, u))
    body = "".join("let %s := %s in\n    " % l for l in locs) + ret
    return "  Definition %s%s (%s : T) : T :=\n    %s." % (fn.name, "_pw" if pw else "", " ".join(args), body), args


defs = []
sigs = {}
for name, vp in CONV.items():
    if name not in funcs: die("function %s missing" % name)
    d, a = tr_func(funcs[name], vp)
    defs.append(d); sigs[name] = a
defs_pw = [tr_func(funcs[name], vp, pw=True)[0] for name, vp in CONV.items()]


# ------------------------------------------------------------------ the table entries as Python evaluates them (binary64 expression trees)
def flit(txt):
    t = txt.strip().lower()
    m = re.fullmatch(r"([0-9]*)\.?([0-9]*)(e[-+]?[0-9]+)?", t)
    if not m or (m.group(1) == "" and m.group(2) == ""): die("float literal %r" % txt)
    return "%s.%s%s%%float" % (m.group(1) or "0", m.group(2) or "0", m.group(3) or "")


def evf(node):
    """('i', int) or ('f', coq float term): the expression with Python's evaluation order and int/float typing"""
    if isinstance(node, ast.Constant) and isinstance(node.value, bool): die("bool in table")
    if isinstance(node, ast.Constant) and isinstance(node.value, int): return ("i", node.value)
    if isinstance(node, ast.Constant) and isinstance(node.value, float): return ("f", flit(ast.get_source_segment(src, node)))
    if isinstance(node, ast.Name):
        if node.id == "G_SI": return ("f", "G_SI_f")
        die("table expression refers to %s" % node.id)

    def tof(v):
        if v[0] == "f": return v[1]
        if abs(v[1]) >= 2 ** 53: die("integer too large for an exact float")
        return "%d.0%%float" % v[1] if v[1] >= 0 else "(-%d.0)%%float" % -v[1]
    if isinstance(node, ast.BinOp):
        a, b = evf(node.left), evf(node.right)
        if a[0] == "i" and b[0] == "i":
            if isinstance(node.op, ast.Mult): return ("i", a[1] * b[1])
            if isinstance(node.op, ast.Add): return ("i", a[1] + b[1])
            if isinstance(node.op, ast.Sub): return ("i", a[1] - b[1])
            if isinstance(node.op, ast.Pow) and 0 <= b[1] <= 64: return ("i", a[1] ** b[1])
            die("integer operator in table not understood (line %d)" % node.lineno)
        if isinstance(node.op, ast.Pow):
            if a[0] == "f" and b == ("i", 2): return ("f", "(pw2 %s)" % a[1])
            if a[0] == "f" and b == ("i", 3): return ("f", "(pw3 %s)" % a[1])
            die("float power other than **2, **3 in table (line %d)" % node.lineno)
        op = {ast.Mult: "PrimFloat.mul", ast.Div: "PrimFloat.div", ast.Add: "PrimFloat.add", ast.Sub: "PrimFloat.sub"}.get(type(node.op))
        if not op: die("operator in table (line %d)" % node.lineno)
        return ("f", "(%s %s %s)" % (op, tof(a), tof(b)))
    if (isinstance(node, ast.Call) and isinstance(node.func, ast.Attribute) and isinstance(node.func.value, ast.Name)
            and node.func.value.id == "math" and node.func.attr == "sqrt" and len(node.args) == 1):
        a = evf(node.args[0])
        return ("f", "(PrimFloat.sqrt %s)" % tof(a))
    if isinstance(node, ast.UnaryOp) and isinstance(node.op, ast.USub):
        a = evf(node.operand)
        return ("i", -a[1]) if a[0] == "i" else ("f", "(PrimFloat.opp %s)" % a[1])
    die("table expression form not understood for float evaluation (line %d)" % getattr(node, "lineno", 0))


def tof_top(v):
    if v[0] == "f": return v[1]
    return "%d.0%%float" % v[1]


tables_f = {}
G_f = None
for node in tree.body:
    if isinstance(node, ast.Assign) and isinstance(node.targets[0], ast.Name):
        nm = node.targets[0].id
        if nm == "G_SI": G_f = tof_top(evf(node.value))
        elif nm in TABLES:
            tables_f[nm] = [(k.value, tof_top(evf(v))) for k, v in zip(node.value.keys, node.value.values)]
if G_f is None: die("G_SI float")

# ------------------------------------------------------------------ units_convert_particle
if "units_convert_particle" not in funcs: die("units_convert_particle missing")
ucp = funcs["units_convert_particle"]
if [a.arg for a in ucp.args.args] != ["p", "old_l", "old_t", "old_m", "new_l", "new_t", "new_m"]:
    die("units_convert_particle: signature changed")
pconv = []
for st in ucp.body:
    if isinstance(st, ast.Return):
        if not (isinstance(st.value, ast.Name) and st.value.id == "p"): die("units_convert_particle: return")
        continue
    ok = (isinstance(st, ast.Assign) and len(st.targets) == 1 and isinstance(st.targets[0], ast.Attribute)
          and isinstance(st.targets[0].value, ast.Name) and st.targets[0].value.id == "p" and isinstance(st.value, ast.Call)
          and isinstance(st.value.func, ast.Name) and st.value.func.id in CONV and not st.value.keywords)
    if not ok: die("units_convert_particle: statement not understood (line %d)" % st.lineno)
    member = st.targets[0].attr
    a0 = st.value.args[0]
    if not (isinstance(a0, ast.Attribute) and isinstance(a0.value, ast.Name) and a0.value.id == "p" and a0.attr == member):
        die("units_convert_particle: p.%s is not converted from itself" % member)
    rest = [a.id if isinstance(a, ast.Name) else None for a in st.value.args[1:]]
    want = {"convert_mass": ["old_m", "new_m"], "convert_length": ["old_l", "new_l"],
            "convert_vel": ["old_l", "old_t", "new_l", "new_t"], "convert_acc": ["old_l", "old_t", "new_l", "new_t"]}.get(st.value.func.id)
    if rest != want: die("units_convert_particle: arguments of %s for p.%s are %s" % (st.value.func.id, member, rest))
    if [a.arg for a in funcs[st.value.func.id].args.args][1:] != want:
        die("%s: parameter order changed" % st.value.func.id)
    if member in [m for m, _ in pconv]: die("units_convert_particle: p.%s converted twice" % member)
    pconv.append((member, st.value.func.id))

# ------------------------------------------------------------------ hash_to_unit: table order; check_units: pinned shape
if "hash_to_unit" not in funcs: die("hash_to_unit missing")
h = funcs["hash_to_unit"]
order = []
shape = []
for st in h.body:
    if isinstance(st, ast.For):
        it = st.iter
        if not (isinstance(it, ast.Call) and isinstance(it.func, ast.Attribute) and it.func.attr == "keys" and isinstance(it.func.value, ast.Name)
                and it.func.value.id in TABLES):
            die("hash_to_unit: loop not over a table")
        order.append(it.func.value.id)
        it.func.value.id = "TBL"
        shape.append(ast.dump(st))
    elif isinstance(st, ast.Assign):
        if ast.dump(st.value) != "Name(id='c_uint32', ctx=Load())": die("hash_to_unit: reb_hash restype is not c_uint32")
    elif isinstance(st, ast.Return):
        if not (isinstance(st.value, ast.Constant) and st.value.value is None): die("hash_to_unit: final return")
    else:
        die("hash_to_unit: statement not understood")
LOOP = ("For(target=Name(id='u', ctx=Store()), iter=Call(func=Attribute(value=Name(id='TBL', ctx=Load()), attr='keys', ctx=Load()), args=[], keywords=[]), "
        "body=[Assign(targets=[Name(id='uhash', ctx=Store())], value=Call(func=Attribute(value=Name(id='clibrebound', ctx=Load()), attr='reb_hash', ctx=Load()), "
        "args=[Call(func=Name(id='c_char_p', ctx=Load()), args=[Call(func=Attribute(value=Name(id='u', ctx=Load()), attr='encode', ctx=Load()), "
        "args=[Constant(value='ascii')], keywords=[])], keywords=[])], keywords=[])), If(test=Compare(left=Name(id='uhash', ctx=Load()), ops=[Eq()], "
        "comparators=[Name(id='hash', ctx=Load())]), body=[Return(value=Name(id='u', ctx=Load()))], orelse=[])], orelse=[])")
if sorted(order) != sorted(TABLES) or any(s != LOOP for s in shape):
    die("hash_to_unit no longer has the transcribed shape (three first-match loops over the tables)")

if "check_units" not in funcs: die("check_units missing")
cu = funcs["check_units"]
for n in ast.walk(cu):      # error-message texts are irrelevant
    if isinstance(n, ast.Constant) and isinstance(n.value, str): n.value = "S"
cu_hash = hashlib.sha256(ast.dump(cu).encode()).hexdigest()[:16]
CHECK_UNITS_SHAPE = "52002519c36621db"   # lower(); `in lengths_SI` -> l_unit; `in times_SI` -> t_unit; `in masses_SI` -> m_unit; all three required
if os.environ.get("TRANSLATE_UNITS_PRINT_SHAPE"):
    print("check_units shape", cu_hash)
elif cu_hash != CHECK_UNITS_SHAPE:
    die("check_units no longer has the transcribed shape (hash %s)" % cu_hash)
extra = set(funcs) - set(CONV) - {"units_convert_particle", "hash_to_unit", "check_units"}
if extra: die("functions not understood: %s" % sorted(extra))


# ------------------------------------------------------------------ simulation.py: units setter / getter / convert_particle_units
SIMPATH = os.path.join(REPO, "rebound", "simulation.py")
ssrc = open(SIMPATH).read()
try:
    stree = ast.parse(ssrc)
except SyntaxError as e:
    die("simulation.py does not parse: %r" % (e,))
simcls = [n for n in stree.body if isinstance(n, ast.ClassDef) and n.name == "Simulation"]
if len(simcls) != 1: die("class Simulation not found in simulation.py")
meth = {}
for n in simcls[0].body:
    if isinstance(n, ast.FunctionDef) and n.name in ("units", "update_units", "convert_particle_units"):
        decs = [ast.dump(d) for d in n.decorator_list]
        kind = n.name
        if n.name == "units":
            if decs == ["Name(id='property', ctx=Load())"]: kind = "units_get"
            elif decs == ["Attribute(value=Name(id='units', ctx=Load()), attr='setter', ctx=Load())"]: kind = "units_set"
            else: die("Simulation.units: decorator not understood")
        if kind in meth: die("Simulation.%s defined twice" % kind)
        meth[kind] = n
for k in ("units_get", "units_set", "update_units", "convert_particle_units"):
    if k not in meth: die("Simulation.%s missing" % k)


def nodoc(body):
    return [st for st in body if not (isinstance(st, ast.Expr) and isinstance(st.value, ast.Constant) and isinstance(st.value.value, str))]


def self_field(n):
    if isinstance(n, ast.Attribute) and isinstance(n.value, ast.Name) and n.value.id == "self" and n.attr.startswith("python_unit_"):
        return n.attr
    return None


def h2u_field(n):
    """hash_to_unit(self.python_unit_X) -> 'python_unit_X'"""
    if isinstance(n, ast.Call) and isinstance(n.func, ast.Name) and n.func.id == "hash_to_unit" and len(n.args) == 1 and not n.keywords:
        return self_field(n.args[0])
    return None


# update_units(self, newunits): self.python_unit_X = reb_hash(newunits[k]) ...; self.G = convert_G(newunits)
uu = meth["update_units"]
if [a.arg for a in uu.args.args] != ["self", "newunits"]: die("update_units: signature")
setter_fields = []
sets_G = False
for st in nodoc(uu.body):
    if isinstance(st, ast.Assign) and len(st.targets) == 1:
        t = st.targets[0]
        f = self_field(t)
        if f:
            want = ("Call(func=Attribute(value=Name(id='clibrebound', ctx=Load()), attr='reb_hash', ctx=Load()), args=[Call(func=Name(id='c_char_p', ctx=Load()), "
                    "args=[Call(func=Attribute(value=Subscript(value=Name(id='newunits', ctx=Load()), slice=Constant(value=K), ctx=Load()), attr='encode', ctx=Load()), "
                    "args=[Constant(value='ascii')], keywords=[])], keywords=[])], keywords=[])")
            v = st.value
            try:
                k = v.args[0].args[0].func.value.slice.value
            except Exception:
                die("update_units: value of %s not understood" % f)
            if not isinstance(k, int) or ast.dump(v) != want.replace("K", str(k)): die("update_units: value of %s not understood" % f)
            if f in [x for x, _ in setter_fields]: die("update_units: %s assigned twice" % f)
            setter_fields.append((f, k))
            continue
        if ast.dump(t) == "Attribute(value=Name(id='self', ctx=Load()), attr='G', ctx=Store())":
            if ast.dump(st.value) != "Call(func=Name(id='convert_G', ctx=Load()), args=[Name(id='newunits', ctx=Load())], keywords=[])":
                die("update_units: self.G is not convert_G(newunits)")
            sets_G = True
            continue
        if ast.dump(t) == "Attribute(value=Attribute(value=Name(id='clibrebound', ctx=Load()), attr='reb_hash', ctx=Load()), attr='restype', ctx=Store())" \
                and ast.dump(st.value) == "Name(id='c_uint32', ctx=Load())":
            continue
    die("update_units: statement not understood (line %d)" % st.lineno)
if not sets_G or len(setter_fields) != 3: die("update_units: must set three python_unit_* fields and G")

# getter: return {'key': hash_to_unit(self.python_unit_X), ...}
ug = nodoc(meth["units_get"].body)
if len(ug) != 1 or not isinstance(ug[0], ast.Return) or not isinstance(ug[0].value, ast.Dict): die("units getter: not a single return of a dict")
getter_keys = []
for k, v in zip(ug[0].value.keys, ug[0].value.values):
    f = h2u_field(v)
    if not (isinstance(k, ast.Constant) and isinstance(k.value, str) and f): die("units getter: entry not understood")
    getter_keys.append((k.value, f))

# setter: newunits = check_units(newunits); if self.N>0: raise ...; self.update_units(newunits)
us = nodoc(meth["units_set"].body)
us_shape = [ast.dump(x) for x in us]
if len(us) != 3 or us_shape[0] != ("Assign(targets=[Name(id='newunits', ctx=Store())], value=Call(func=Name(id='check_units', ctx=Load()), "
                                   "args=[Name(id='newunits', ctx=Load())], keywords=[]))") \
        or not (isinstance(us[1], ast.If) and len(us[1].body) == 1 and isinstance(us[1].body[0], ast.Raise) and not us[1].orelse
                and ast.dump(us[1].test) == "Compare(left=Attribute(value=Name(id='self', ctx=Load()), attr='N', ctx=Load()), ops=[Gt()], comparators=[Constant(value=0)])") \
        or us_shape[2] != ("Expr(value=Call(func=Attribute(value=Name(id='self', ctx=Load()), attr='update_units', ctx=Load()), "
                           "args=[Name(id='newunits', ctx=Load())], keywords=[]))"):
    die("units setter no longer has the transcribed shape (check_units; refuse if N>0; update_units)")

# convert_particle_units: guard on zero hashes; new = check_units(args); per particle units_convert_particle(p, old..., new...); update_units(new)
cp = nodoc(meth["convert_particle_units"].body)
# between check_units and the particle loop: the integrator history is invalidated (1996431); these statements touch no unit bookkeeping
INVALIDATE = [
    "Expr(value=Call(func=Attribute(value=Name(id='clibrebound', ctx=Load()), attr='reb_simulation_synchronize', ctx=Load()), args=[Call(func=Name(id='byref', ctx=Load()), args=[Name(id='self', ctx=Load())], keywords=[])], keywords=[]))",
    "Expr(value=Call(func=Attribute(value=Name(id='clibrebound', ctx=Load()), attr='reb_integrator_ias15_reset', ctx=Load()), args=[Call(func=Name(id='byref', ctx=Load()), args=[Name(id='self', ctx=Load())], keywords=[])], keywords=[]))",
    "Assign(targets=[Attribute(value=Attribute(value=Name(id='self', ctx=Load()), attr='ri_whfast', ctx=Load()), attr='recalculate_coordinates_this_timestep', ctx=Store())], value=Constant(value=1))",
    "Assign(targets=[Attribute(value=Attribute(value=Name(id='self', ctx=Load()), attr='ri_mercurius', ctx=Load()), attr='recalculate_coordinates_this_timestep', ctx=Store())], value=Constant(value=1))",
    "Assign(targets=[Attribute(value=Attribute(value=Name(id='self', ctx=Load()), attr='ri_mercurius', ctx=Load()), attr='recalculate_r_crit_this_timestep', ctx=Store())], value=Constant(value=1))"]
if len(cp) != 4 + len(INVALIDATE) or [ast.dump(x) for x in cp[2:2 + len(INVALIDATE)]] != INVALIDATE:
    die("convert_particle_units: shape (guard; check_units; synchronize + ias15 reset + recalculate flags; particle loop; update_units)")
cp = cp[:2] + cp[2 + len(INVALIDATE):]
g = cp[0]
if not (isinstance(g, ast.If) and isinstance(g.test, ast.BoolOp) and isinstance(g.test.op, ast.Or) and len(g.body) == 1 and isinstance(g.body[0], ast.Raise)):
    die("convert_particle_units: guard")
guard_fields = []
for c in g.test.values:
    if not (isinstance(c, ast.Compare) and self_field(c.left) and len(c.ops) == 1 and isinstance(c.ops[0], ast.Eq)
            and isinstance(c.comparators[0], ast.Constant) and c.comparators[0].value == 0):
        die("convert_particle_units: guard term")
    guard_fields.append(self_field(c.left))
if ast.dump(cp[1]) != ("Assign(targets=[Tuple(elts=[Name(id='new_l', ctx=Store()), Name(id='new_t', ctx=Store()), Name(id='new_m', ctx=Store())], ctx=Store())], "
                       "value=Call(func=Name(id='check_units', ctx=Load()), args=[Name(id='args', ctx=Load())], keywords=[]))"):
    die("convert_particle_units: new units are not check_units(args)")
lp = cp[2]
if not (isinstance(lp, ast.For) and ast.dump(lp.iter) == "Attribute(value=Name(id='self', ctx=Load()), attr='particles', ctx=Load())" and len(lp.body) == 1
        and isinstance(lp.body[0], ast.Expr) and isinstance(lp.body[0].value, ast.Call) and isinstance(lp.body[0].value.func, ast.Name)
        and lp.body[0].value.func.id == "units_convert_particle" and len(lp.body[0].value.args) == 7):
    die("convert_particle_units: particle loop")
ca = lp.body[0].value.args
convert_old_fields = [h2u_field(a) for a in ca[1:4]]
if None in convert_old_fields or [ast.dump(a) for a in ca[4:]] != ["Name(id='new_%s', ctx=Load())" % x for x in "ltm"] \
        or ast.dump(ca[0]) != "Name(id='%s', ctx=Load())" % lp.target.id:
    die("convert_particle_units: arguments of units_convert_particle")
if ast.dump(cp[3]) != ("Expr(value=Call(func=Attribute(value=Name(id='self', ctx=Load()), attr='update_units', ctx=Load()), args=[Tuple(elts=[Name(id='new_l', ctx=Load()), "
                       "Name(id='new_t', ctx=Load()), Name(id='new_m', ctx=Load())], ctx=Load())], keywords=[]))"):
    die("convert_particle_units: final update_units((new_l, new_t, new_m))")

# ------------------------------------------------------------------ documented unit names (docstring of Simulation.units, Units.ipynb)
doc = ast.get_docstring(meth["units_get"]) or ""
if "Currently supported Units" not in doc: die("Simulation.units docstring: list of supported units not found")
documented = []
sect = None
for line in doc.splitlines():
    t = line.strip()
    if t in ("Times:", "Lengths:", "Masses:"):
        sect = {"Times:": "times_SI", "Lengths:": "lengths_SI", "Masses:": "masses_SI"}[t]; continue
    if t.startswith("Examples"): sect = None
    m = re.fullmatch(r"([A-Za-z0-9_]+)\s*:\s*\S.*", t)
    if sect and m:
        documented.append((sect, m.group(1)))
    elif sect and t and not set(t) <= set("-"):
        die("Simulation.units docstring: line %r in the unit list not understood" % t)
if len(documented) < 10: die("Simulation.units docstring: too few documented units (%d)" % len(documented))
nbp = os.path.join(REPO, "ipython_examples", "Units.ipynb")
notebook_units = []
if os.path.exists(nbp):
    import json as _json
    try:
        nb = _json.load(open(nbp))
    except Exception as e:
        die("Units.ipynb: %r" % (e,))
    for c in nb.get("cells", []):
        if c.get("cell_type") != "code": continue
        code = "".join(c.get("source", []))
        for mm in re.finditer(r"(?:\.units\s*=\s*\(([^)]*)\)|convert_particle_units\(([^)]*)\))", code):
            for q in re.findall(r"['\"]([^'\"]+)['\"]", mm.group(1) or mm.group(2)):
                if not q.isascii(): die("Units.ipynb: non-ascii unit name")
                notebook_units.append(q)
for _, nm in documented:
    if not nm.isascii(): die("non-ascii documented unit")

# ------------------------------------------------------------------ emit
def zv(v):
    return "(%d, %d, %s)" % (v.q.numerator, v.q.denominator, "true" if v.sq else "false")


out = ["(* GENERATED by tools/translate_units.py from rebound/units.py — do not edit *)",
       "From Coq Require Import ZArith List String PrimFloat.", "From RV Require Import Common.Num.", "Import ListNotations.",
       "Open Scope Z_scope.", "Open Scope string_scope.", "",
       "(* (num, den, is_sqrt): the exact value num/den, or sqrt(num/den), of the source expression (decimal literals read as text) *)",
       "Definition uval : Type := (Z * Z * bool)%type.",
       "Definition G_SI : uval := %s." % zv(env["G_SI"])]
for t in TABLES:
    out.append("Definition %s : list (string * uval) := [" % t)
    out.append(";\n".join('  ("%s", %s)' % (k, zv(v)) for k, v in tables[t]))
    out.append("].")
out.append("")
out.append("(* tables searched, in this order, by hash_to_unit (first match wins) *)")
out.append("Definition hash_lookup_order : list (list (string * uval)) := [%s]." % "; ".join(order))
out.append("(* units_convert_particle: particle member -> conversion applied to it *)")
out.append("Definition particle_conversion : list (string * string) := [%s]." % "; ".join('("%s", "%s")' % p for p in pconv))
out.append("(* rebound/simulation.py: update_units stores reb_hash(newunits[k]) in field f; the units getter maps key -> hash_to_unit(field);")
out.append("   convert_particle_units passes hash_to_unit of these fields as (old_l, old_t, old_m) and refuses when one of guard_fields is 0 *)")
out.append("Definition setter_fields : list (string * nat) := [%s]." % "; ".join('("%s", %d%%nat)' % x for x in setter_fields))
out.append("Definition getter_keys : list (string * string) := [%s]." % "; ".join('("%s", "%s")' % x for x in getter_keys))
out.append("Definition convert_old_fields : list string := [%s]." % "; ".join('"%s"' % x for x in convert_old_fields))
out.append("Definition guard_fields : list string := [%s]." % "; ".join('"%s"' % x for x in guard_fields))
out.append("(* unit names as WRITTEN in the documentation: docstring of Simulation.units (table, name) and the strings assigned in ipython_examples/Units.ipynb *)")
out.append("Definition documented_units : list (list (string * uval) * string) := [%s]." % "; ".join('(%s, "%s")' % x for x in documented))
out.append("Definition notebook_units : list string := [%s]." % "; ".join('"%s"' % x for x in notebook_units))
out.append("")
out.append("(* bodies of the conversion functions; `tbl[unit]` of the source is the argument tbl_unit *)")
out.append("Section Conv.\n  Context {T : Type} (N : Num T).")
out += defs
out.append("End Conv.")
out.append("")
out.append("(* the same bodies with `x**2`, `x**3` (libm pow in CPython) kept abstract *)")
out.append("Section ConvPw.\n  Context {T : Type} (N : Num T) (pw2 pw3 : T -> T).")
out += defs_pw
out.append("End ConvPw.")
out.append("")
out.append("(* the table entries as binary64 expression trees in Python's evaluation order (decimal literals rounded to nearest as by the Python parser) *)")
out.append("Section TablesF.\n  Variables (pw2 pw3 : float -> float).")
out.append("  Definition G_SI_f : float := %s." % G_f)
for t in TABLES:
    out.append("  Definition %s_f : list (string * float) := [" % t)
    out.append(";\n".join('    ("%s", %s)' % kv for kv in tables_f[t]))
    out.append("  ].")
out.append("End TablesF.")
os.makedirs(os.path.join(ROOT, "coq", "Gen"), exist_ok=True)
p = os.path.join(ROOT, "coq", "Gen", "Units.v")
new = "\n".join(out) + "\n"
if not os.path.exists(p) or open(p).read() != new:
    open(p, "w").write(new)
print("translate_units: %s; G_SI=%s; %d particle members; hash order %s" %
      (", ".join("%s:%d" % (t, len(tables[t])) for t in TABLES), env["G_SI"].q, len(pconv), order))
