"""Simulationarchive histories in which integrator-internal arrays APPEAR and DISAPPEAR between snapshots
(shared by tools/c05.py and tools/c17.py).  Library only; public Python API + the byte parser of c05_gen.

For every history: snapshot 0 is taken after >= 1 step (so it already holds the integrator's arrays); then a sequence of
user operations (reset_integrator, integrator switch and switch back, MERCURIUS particle removal, add_variation, ...),
each followed by some steps and an appended snapshot.  For every appended snapshot k:
  restored_k = Simulation(file, snapshot=k)  must  == live (both directions), copies likewise, canon streams field by field,
  and restored_k and a copy of live must co-evolve bitwise under the same continuation (switch to the continuation
  integrator, a few steps).
"""
import os, struct, tempfile, warnings


def split_archive(raw):
    """-> (snapshot0_bytes, [delta_blob_bytes, ...]); every blob = fields, END field, 12-byte trailer"""
    blobs = []
    pos = 64
    start = 0
    while pos + 16 <= len(raw):
        t, _, n = struct.unpack_from("<I4sQ", raw, pos)
        pos += 16
        if t == 9999:
            pos += 12
            blobs.append(raw[start:pos])
            start = pos
        else:
            pos += n
    return (blobs[0] if blobs else b""), blobs[1:]


def _planets(rebound, close=False):
    s = rebound.Simulation()
    s.rand_seed = 4242
    s.add(m=1.)
    s.add(m=1e-3, a=1., e=0.05)
    if close:
        s.add(m=2e-3, a=1.03, e=0.02, f=0.1)
    else:
        s.add(m=5e-4, a=1.8, e=0.1, f=1.)
    s.add(m=3e-4, a=2.9, e=0.03, f=2.)
    s.move_to_com()
    return s


def _ds_ptr(rebound, gen, sim):
    import ctypes
    off = [d["offset"] for d in gen.descriptors(rebound) if d["name"] == "display_settings"][0]
    return ctypes.c_void_p.from_address(ctypes.addressof(sim) + off)


def display_settings_on(rebound, gen, sim):
    import ctypes
    rebound.clibrebound.reb_simulation_add_display_settings(ctypes.byref(sim))


def display_settings_off(rebound, gen, sim):
    """what a C user does: free(r->display_settings); r->display_settings = NULL;"""
    import ctypes
    p = _ds_ptr(rebound, gen, sim)
    if p.value:
        libc = ctypes.CDLL(None)
        libc.free.argtypes = [ctypes.c_void_p]
        libc.free(p.value)
        p.value = None


def _set(sim, integ, opts):
    sim.integrator = integ
    for path, v in opts:
        o = sim
        parts = path.split(".")
        for q in parts[:-1]:
            o = getattr(o, q)
        setattr(o, parts[-1], v)


STARTS = [
    ("whfast", [], False), ("whfast", [("ri_whfast.safe_mode", 0)], False), ("whfast", [("ri_whfast.coordinates", "democraticheliocentric")], False),
    ("ias15", [], False), ("janus", [], False), ("mercurius", [], True), ("saba", [("ri_saba.safe_mode", 0)], False),
    ("eos", [], False), ("leapfrog", [], False), ("bs", [], False), ("trace", [], True),
]
OTHERS = ["leapfrog", "ias15", "whfast", "janus", "mercurius", "saba"]


def histories(rebound, rng, thorough=False):
    """yield dicts {label, ops:[...]} ; deterministic list, rng only picks the 'other' integrators"""
    out = []
    for integ, opts, close in STARTS:
        others = [o for o in OTHERS if o != integ]
        picks = others if thorough else [others[rng.randrange(len(others))], others[rng.randrange(len(others))]]
        for other in dict.fromkeys(picks):
            for k0 in ((1, 4) if thorough else (rng.choice((1, 2, 4)),)):
                out.append({"integrator": integ, "opts": opts, "close": close, "k0": k0, "other": other,
                            "label": "%s%s/k0=%d/via=%s" % (integ, "".join("/%s=%s" % (p.split(".")[-1], v) for p, v in opts), k0, other)})
    return out


def run_history(rebound, gen, h, want_streams=False):
    """-> (failures, cases) ; cases = [(snap0_bytes, delta_bytes, restored_save_bytes, live_save_bytes)] for the correspondence"""
    fails, cases = [], []
    with warnings.catch_warnings():
        warnings.simplefilter("ignore")
        sim = _planets(rebound, h["close"])
        _set(sim, h["integrator"], h["opts"])
        sim.dt = 0.05
        sim.steps(h["k0"])
        if h["k0"] % 2 == 0:
            display_settings_on(rebound, gen, sim)      # snapshot 0 holds the fixed-size pointer field
        fd, fn = tempfile.mkstemp(prefix="c05arch", suffix=".bin"); os.close(fd); os.remove(fn)
        try:
            sim.save_to_file(fn, delete_file=True)
            ops = [("reset+switch", lambda s: (s.reset_integrator(), _set(s, h["other"], []))),
                   ("more steps", lambda s: None),
                   ("switch back", lambda s: _set(s, h["integrator"], h["opts"])),
                   ("add_variation", lambda s: s.add_variation() if s.integrator in ("ias15", "leapfrog") else None),
                   ("remove particle", lambda s: s.remove(s.N_real - 1) if s.N_var == 0 else None),
                   ("reset only", lambda s: s.reset_integrator()),
                   ("display_settings removed", lambda s: display_settings_off(rebound, gen, s)),      # fixed-size pointer vanishes
                   ("display_settings added", lambda s: display_settings_on(rebound, gen, s))]
            for i, (name, op) in enumerate(ops):
                try:
                    op(sim)
                    sim.steps(2)
                except Exception as e:
                    break      # the library rejects this combination (e.g. variations with this integrator): end of history
                sim.save_to_file(fn)
                k = i + 1
                live_b = gen.save_bytes(rebound, sim)
                try:
                    rest = rebound.Simulation(fn, snapshot=k)
                except Exception as e:
                    fails.append({"key": "archive:restore-raises", "history": h["label"], "snapshot": k, "after": name, "detail": repr(e)})
                    break
                rest_b = gen.save_bytes(rebound, rest)
                tag = {"history": h["label"], "snapshot": k, "after": name}
                if not (rest == sim) or not (sim == rest):
                    d = gen.diff_fields(gen.canon(rebound, live_b), gen.canon(rebound, rest_b))
                    fails.append(dict(tag, key="archive:restored!=live", fields=d,
                                      how="snapshot 0 after %d steps; ops up to %r; restored snapshot %d does not compare equal to the live simulation" % (h["k0"], name, k)))
                elif not (rest.copy() == sim) or not (sim.copy() == rest):
                    fails.append(dict(tag, key="archive:copy-of-restored!=live"))
                else:
                    d = gen.diff_fields(gen.canon(rebound, live_b), gen.canon(rebound, rest_b))
                    if d:
                        fails.append(dict(tag, key="archive:streams-differ", fields=d))
                # bitwise co-evolution under the same continuation
                L = sim.copy(); R = rest
                try:
                    for s_ in (L, R):
                        _set(s_, h["integrator"], h["opts"])
                        s_.steps(5)
                    d = gen.diff_fields(gen.canon(rebound, gen.save_bytes(rebound, L), mask_unread=True),
                                        gen.canon(rebound, gen.save_bytes(rebound, R), mask_unread=True))
                    if d:
                        fails.append(dict(tag, key="archive:coevolution", fields=d,
                                          how="restored snapshot and a copy of the live simulation, both switched to %s and advanced 5 steps, differ" % h["integrator"]))
                except Exception as e:
                    pass
                if want_streams:
                    raw = open(fn, "rb").read()
                    s0, deltas = split_archive(raw)
                    if len(deltas) >= k:
                        cases.append((s0, deltas[k - 1], rest_b, live_b, dict(tag)))
        finally:
            if os.path.exists(fn):
                os.remove(fn)
    return fails, cases
