#!/venv/bin/python
"""C09 translator (Python side): $VERIF_REPO/rebound/simulationarchive.py  ->  coq/Gen/C09GetSim.v

Reads Simulationarchive.getSimulation with the `ast` module (nothing is imported or executed) and emits its
synchronisation-relevant skeleton in the statement language of coq/C09/GetSim.v: assignments to the local
keep_unsynchronized, the copies into sim.ri_whfast / sim.ri_saba, sim.synchronize(), sim.integrate(t,
exact_finish_time=...), the branches on `mode`, on `sim.integrator == "..."` and on "the archive's integrator is in safe mode", and return.
Statements that mention none of these are dropped.  Fail closed: any statement that mentions one of the relevant
names in a form that is not understood, any other write to mode / t / keep_unsynchronized, any other return, makes
the translator exit non-zero.  The theorem C09_getsim_* in coq/C09/Props.v is then re-proved on the regenerated program.
"""
import ast, os, sys

ROOT = os.path.dirname(os.path.dirname(os.path.abspath(__file__)))
REPO = os.environ.get("VERIF_REPO", "/repo")
SRC = os.path.join(REPO, "rebound", "simulationarchive.py")
OUT = os.path.join(ROOT, "coq", "Gen", "C09GetSim.v")
RELEVANT_NAMES = {"keep_unsynchronized", "exact_finish_time"}
RELEVANT_ATTRS = {"synchronize", "integrate", "keep_unsynchronized", "steps", "step", "integrate_raw"}
MODES = {"snapshot": "Snapshot", "close": "Close", "exact": "Exact"}


class Fail(Exception):
    pass


def write_if_changed(path, text):
    if os.path.exists(path) and open(path).read() == text:
        return
    with open(path, "w") as f:
        f.write(text)


def is_name(n, s): return isinstance(n, ast.Name) and n.id == s
def is_const(n, v): return isinstance(n, ast.Constant) and n.value == v and type(n.value) is type(v)


def attr_chain(n):
    out = []
    while isinstance(n, ast.Attribute):
        out.append(n.attr); n = n.value
    if isinstance(n, ast.Name):
        out.append(n.id); return list(reversed(out))
    return None


def relevant(node):
    for n in ast.walk(node):
        if isinstance(n, ast.Name) and n.id in RELEVANT_NAMES: return True
        if isinstance(n, ast.Attribute) and n.attr in RELEVANT_ATTRS: return True
        if isinstance(n, (ast.Return, ast.Yield, ast.YieldFrom)): return True
        if isinstance(n, ast.Name) and isinstance(n.ctx, (ast.Store, ast.Del)) and n.id in ("mode", "t", "sim", "self"):
            # `sim = Simulation()` is the only allowed write to sim; checked by the caller
            if n.id != "sim": return True
        if isinstance(n, (ast.Global, ast.Nonlocal, ast.Try, ast.While, ast.For, ast.With)): return True
    return False


def mode_test(t):
    if isinstance(t, ast.Compare) and len(t.ops) == 1 and isinstance(t.ops[0], ast.Eq) and is_name(t.left, "mode") \
            and isinstance(t.comparators[0], ast.Constant) and t.comparators[0].value in MODES:
        return "CModeIs " + MODES[t.comparators[0].value]
    return None


INTEGS = {"whfast": "IWhfast", "saba": "ISaba", "mercurius": "IMercurius"}


def integ_test(t):
    if isinstance(t, ast.Compare) and len(t.ops) == 1 and isinstance(t.ops[0], ast.Eq) and attr_chain(t.left) == ["sim", "integrator"] \
            and isinstance(t.comparators[0], ast.Constant) and t.comparators[0].value in INTEGS:
        return "CIntegIs " + INTEGS[t.comparators[0].value]
    return None


def safe_test(t):
    """(sim.integrator=="X" and sim.ri_X.safe_mode == 1) or ...  over X in a set containing whfast, saba, mercurius"""
    if not (isinstance(t, ast.BoolOp) and isinstance(t.op, ast.Or)): return None
    seen = set()
    for v in t.values:
        if not (isinstance(v, ast.BoolOp) and isinstance(v.op, ast.And) and len(v.values) == 2): return None
        a, b = v.values
        if not (isinstance(a, ast.Compare) and len(a.ops) == 1 and isinstance(a.ops[0], ast.Eq) and attr_chain(a.left) == ["sim", "integrator"]
                and isinstance(a.comparators[0], ast.Constant) and isinstance(a.comparators[0].value, str)): return None
        x = a.comparators[0].value
        if not (isinstance(b, ast.Compare) and len(b.ops) == 1 and isinstance(b.ops[0], ast.Eq)
                and attr_chain(b.left) == ["sim", "ri_" + x, "safe_mode"] and is_const(b.comparators[0], 1)): return None
        seen.add(x)
    if seen != {"whfast", "saba", "mercurius"}: return None
    return "CSafe"


def stmt(s):
    """-> list of Coq terms"""
    if isinstance(s, ast.Expr) and isinstance(s.value, ast.Constant) and isinstance(s.value.value, str):
        return []                                   # docstring
    if isinstance(s, ast.If):
        c = mode_test(s.test) or integ_test(s.test) or safe_test(s.test)
        if c is None:
            if relevant(s): raise Fail("line %d: branch condition not understood around a relevant statement: %s" % (s.lineno, ast.unparse(s.test)))
            return []
        return ["GIf (%s) [%s] [%s]" % (c, "; ".join(block(s.body)), "; ".join(block(s.orelse)))]
    if isinstance(s, ast.Assign) and len(s.targets) == 1:
        tg, v = s.targets[0], s.value
        if is_name(tg, "keep_unsynchronized") and is_const(v, 0): return ["GSetKeep0"]
        if attr_chain(tg) == ["sim", "ri_whfast", "keep_unsynchronized"] and is_name(v, "keep_unsynchronized"): return ["GCopyWhfast"]
        if attr_chain(tg) == ["sim", "ri_saba", "keep_unsynchronized"] and is_name(v, "keep_unsynchronized"): return ["GCopySaba"]
        if is_name(tg, "exact_finish_time") and isinstance(v, ast.IfExp) and is_const(v.body, 1) and is_const(v.orelse, 0) \
                and mode_test(v.test) == "CModeIs Exact": return ["GSetEft"]
    if isinstance(s, ast.Expr) and isinstance(s.value, ast.Call):
        c = s.value
        if attr_chain(c.func) == ["sim", "synchronize"] and not c.args and not c.keywords: return ["GSync"]
        if attr_chain(c.func) == ["sim", "integrate"] and len(c.args) == 1 and is_name(c.args[0], "t") and len(c.keywords) == 1 \
                and c.keywords[0].arg == "exact_finish_time" and is_name(c.keywords[0].value, "exact_finish_time"): return ["GIntegrate"]
    if isinstance(s, ast.Return) and is_name(s.value, "sim"): return ["GReturn"]
    if relevant(s): raise Fail("line %d: statement not understood: %s" % (s.lineno, ast.unparse(s)[:160]))
    return []


def block(stmts):
    out = []
    for s in stmts: out += stmt(s)
    return out


def main():
    tree = ast.parse(open(SRC).read())
    fn = None
    for c in tree.body:
        if isinstance(c, ast.ClassDef) and c.name == "Simulationarchive":
            for f in c.body:
                if isinstance(f, ast.FunctionDef) and f.name == "getSimulation": fn = f
    if fn is None: raise Fail("Simulationarchive.getSimulation not found")
    args = [a.arg for a in fn.args.args]
    if args != ["self", "t", "mode", "keep_unsynchronized"] or fn.args.vararg or fn.args.kwarg or fn.args.kwonlyargs:
        raise Fail("signature of getSimulation changed: %r" % args)
    d = fn.args.defaults
    if not (len(d) == 2 and is_const(d[0], "snapshot") and is_const(d[1], 1)): raise Fail("defaults of getSimulation changed")
    body = block(fn.body)
    os.makedirs(os.path.dirname(OUT), exist_ok=True)
    write_if_changed(OUT, "(* GENERATED by tools/translate_c09_getsim.py from rebound/simulationarchive.py (Simulationarchive.getSimulation). Do not edit. *)\n"
                     "From Coq Require Import List.\nFrom RV Require Import C09.GetSim.\nImport ListNotations.\n\n"
                     "Definition getsim_default_keep : bool := true.\n"
                     "Definition getsim_body : list gstmt :=\n  [%s].\n" % ";\n   ".join(body))


if __name__ == "__main__":
    try:
        main()
    except Fail as e:
        print("translate_c09_getsim: " + str(e)); sys.exit(1)
