"""C20 — changes of units and of reference frame are exact symmetries.

1. regeneration: tools/translate_units.py rebuilds coq/Gen/Units.v (exact tables + conversion formulas) from rebound/units.py;
2. proofs: coq/C20 (tables exhaustively by vm_compute; conversion algebra, quaternion algebra, frame shifts over R);
3. correspondence: the binary64 instance of the rotation / frame models vs the exported reb_vec3d_* / reb_rotation_* /
   reb_simulation_{irotate,com,move_to_com,move_to_hel,imul,iadd,isub} functions of the library built from the current tree,
   bit for bit; sim.G / table doubles / reb_hash of unit names vs the exact tables and the Murmur model inside Coq;
4. searcher (library only, always run): algebraic oracles in exact arithmetic (tools/c20_search.py).
"""
import ctypes, math, os, sys
from fractions import Fraction
import vlib
import c20_search


class V3(ctypes.Structure):
    _fields_ = [("x", ctypes.c_double), ("y", ctypes.c_double), ("z", ctypes.c_double)]


class Rot(ctypes.Structure):
    _fields_ = [("ix", ctypes.c_double), ("iy", ctypes.c_double), ("iz", ctypes.c_double), ("r", ctypes.c_double)]


def setup_clib(clib):
    D = ctypes.c_double
    sig = {"reb_vec3d_mul": (V3, [V3, D]), "reb_vec3d_add": (V3, [V3, V3]), "reb_vec3d_cross": (V3, [V3, V3]),
           "reb_vec3d_dot": (D, [V3, V3]), "reb_vec3d_length_squared": (D, [V3]), "reb_vec3d_normalize": (V3, [V3]),
           "reb_vec3d_rotate": (V3, [V3, Rot]), "reb_vec3d_irotate": (None, [ctypes.POINTER(V3), Rot]),
           "reb_rotation_mul": (Rot, [Rot, Rot]), "reb_rotation_conjugate": (Rot, [Rot]), "reb_rotation_normalize": (Rot, [Rot]),
           "reb_rotation_inverse": (Rot, [Rot]), "reb_rotation_identity": (Rot, []),
           "reb_rotation_init_from_to": (Rot, [V3, V3]), "reb_rotation_init_angle_axis": (Rot, [D, V3]),
           "reb_rotation_init_to_new_axes": (Rot, [V3, V3]), "reb_rotation_init_orbit": (Rot, [D, D, D]),
           "reb_rotation_slerp": (Rot, [Rot, Rot, D]),
           "reb_rotation_to_orbital": (None, [Rot, ctypes.POINTER(D), ctypes.POINTER(D), ctypes.POINTER(D)])}
    for n, (r, a) in sig.items():
        f = getattr(clib, n)
        f.restype = r
        f.argtypes = a


class Libm:
    def __init__(self):
        m = ctypes.CDLL("libm.so.6")
        D = ctypes.c_double
        for n in ("sin", "cos"):
            getattr(m, n).restype = D
            getattr(m, n).argtypes = [D]
        m.acos.restype = D
        m.acos.argtypes = [D]
        m.atan2.restype = D
        m.atan2.argtypes = [D, D]
        m.sincos.restype = None
        m.sincos.argtypes = [D, ctypes.POINTER(D), ctypes.POINTER(D)]
        self.m = m

    def cs(self, x):
        """(cos x, sin x) as libm gives them, or None if sin/cos and sincos disagree (the compiler may fuse the two calls)."""
        c, s = self.m.cos(x), self.m.sin(x)
        s2, c2 = ctypes.c_double(), ctypes.c_double()
        self.m.sincos(x, ctypes.byref(s2), ctypes.byref(c2))
        if not (vlib.same_bits(c, c2.value) and vlib.same_bits(s, s2.value)):
            return None
        return c, s


# ----------------------------------------------------------------------------- random inputs
def rvec(rng, scale=None):
    sc = 10 ** rng.uniform(-3, 3) if scale is None else scale
    u = rng.random()
    if u < 0.04 and scale is None:      # the ends of the double range: huge, tiny, subnormal, signed zero, inf, NaN
        big = rng.choice([1e200, 1e-200, 1e308, 5e-324, 1e-310, 1e154, 1e-154])
        v = [rng.gauss(0, 1) * big for _ in range(3)]
        if rng.random() < 0.3:
            v[rng.randrange(3)] = rng.choice([float("inf"), float("-inf"), float("nan"), -0.0, 1.0])
        return v
    if u < 0.08:
        v = [0.0, 0.0, 0.0]; v[rng.randrange(3)] = rng.choice([1.0, -1.0, 2.5, -1e-3]) * (sc if rng.random() < 0.5 else 1.0)
    elif u < 0.16:
        v = [rng.gauss(0, 1) * sc for _ in range(3)]; v[rng.randrange(3)] = rng.choice([0.0, -0.0])
    elif u < 0.2:
        v = [float(rng.randint(-4, 4)) for _ in range(3)]
    else:
        v = [rng.gauss(0, 1) * sc for _ in range(3)]
    return v


def rpair(rng):
    """(from, to) biased to the three branches of init_from_to"""
    a = rvec(rng)
    u = rng.random()
    if u < 0.25:
        k = rng.choice([1.0, 2.0, 0.5, 3.0, 10 ** rng.uniform(-2, 2)])
        b = [-x * k for x in a]                                   # antiparallel (exactly, when k is a power of two)
    elif u < 0.4:
        e = 10 ** rng.uniform(-17, -6)
        n = math.sqrt(sum(x * x for x in a)) or 1.0
        b = [-x + rng.gauss(0, 1) * e * n for x in a]             # nearly antiparallel
    elif u < 0.5:
        e = 10 ** rng.uniform(-17, -6)
        n = math.sqrt(sum(x * x for x in a)) or 1.0
        b = [x * 3 + rng.gauss(0, 1) * e * n for x in a]          # nearly parallel
    elif u < 0.55:
        b = list(a)
    elif u < 0.6:
        b = [0.0, 0.0, 0.0]                                       # zero vector: NaN by design, model must agree
    else:
        b = rvec(rng)
    if rng.random() < 0.5:
        a, b = b, a
    return a, b


def rquat(rng):
    u = rng.random()
    q = [rng.gauss(0, 1) for _ in range(4)]
    if u < 0.5:
        n = math.sqrt(sum(x * x for x in q))
        q = [x / n for x in q]
    elif u < 0.6:
        q = [x * 10 ** rng.uniform(-3, 3) for x in q]
    elif u < 0.7:
        q = [0.0, 0.0, 0.0, 1.0]; i = rng.randrange(4); q = q[i:] + q[:i]
    elif u < 0.73:
        q = [0.0, 0.0, 0.0, 0.0]
    elif u < 0.76:
        big = rng.choice([1e200, 1e-200, 5e-324, float("inf"), float("nan")])
        q = [x * big for x in q]
    return q


def Vc(v):
    return "(V %s %s %s)" % tuple(vlib.fhex(x) for x in v)


def Qc(q):
    return "(Q %s %s %s %s)" % tuple(vlib.fhex(x) for x in q)


def v3(v):
    return V3(*v)


def rot(q):
    return Rot(*q)


def lv(v):
    return [v.x, v.y, v.z]


def lq(q):
    return [q.ix, q.iy, q.iz, q.r]


# ----------------------------------------------------------------------------- rotation cases
def rotation_cases(ctx, clib, libm, n):
    rng = ctx.rng
    cases = []      # (kind, coq term, expected list, input for reporting)
    skipped = 0
    kinds = ["vmul", "vadd", "vcross", "vdot", "vlsq", "vnormalize", "vrotate", "virotate", "qmul", "qconj", "qnormalize",
             "qinverse", "qidentity", "from_to", "from_to", "from_to", "angle_axis", "to_new_axes", "to_new_axes", "orbit",
             "to_orbital", "to_orbital", "slerp", "slerp"]
    for k in range(n):
        kind = kinds[k % len(kinds)]
        if kind == "vmul":
            v, s = rvec(rng), rng.choice([2.0, -1.0, 0.0, rng.gauss(0, 1), 1 / 3])
            cases.append((kind, "(r_vmul %s %s)" % (Vc(v), vlib.fhex(s)), lv(clib.reb_vec3d_mul(v3(v), s)), (v, s)))
        elif kind in ("vadd", "vcross", "vdot"):
            v, w = rvec(rng), rvec(rng)
            r = getattr(clib, "reb_vec3d_" + kind[1:])(v3(v), v3(w))
            cases.append((kind, "(r_%s %s %s)" % (kind, Vc(v), Vc(w)), [r] if kind == "vdot" else lv(r), (v, w)))
        elif kind == "vlsq":
            v = rvec(rng)
            cases.append((kind, "(r_vlsq %s)" % Vc(v), [clib.reb_vec3d_length_squared(v3(v))], v))
        elif kind == "vnormalize":
            v = rvec(rng) if rng.random() < 0.9 else [0.0, 0.0, 0.0]
            cases.append((kind, "(r_vnormalize %s)" % Vc(v), lv(clib.reb_vec3d_normalize(v3(v))), v))
        elif kind in ("vrotate", "virotate"):
            v, q = rvec(rng), rquat(rng)
            if kind == "vrotate":
                r = clib.reb_vec3d_rotate(v3(v), rot(q))
            else:
                r = v3(v); clib.reb_vec3d_irotate(ctypes.byref(r), rot(q))
            cases.append((kind, "(r_vrotate %s %s)" % (Vc(v), Qc(q)), lv(r), (v, q)))
        elif kind == "qmul":
            p, q = rquat(rng), rquat(rng)
            cases.append((kind, "(r_qmul %s %s)" % (Qc(p), Qc(q)), lq(clib.reb_rotation_mul(rot(p), rot(q))), (p, q)))
        elif kind in ("qconj", "qnormalize", "qinverse"):
            q = rquat(rng)
            fn = {"qconj": "conjugate", "qnormalize": "normalize", "qinverse": "inverse"}[kind]
            cases.append((kind, "(r_%s %s)" % (kind, Qc(q)), lq(getattr(clib, "reb_rotation_" + fn)(rot(q))), q))
        elif kind == "qidentity":
            cases.append((kind, "r_qidentity", lq(clib.reb_rotation_identity()), None))
        elif kind == "from_to":
            a, b = rpair(rng)
            cases.append((kind, "(r_from_to %s %s)" % (Vc(a), Vc(b)), lq(clib.reb_rotation_init_from_to(v3(a), v3(b))), (a, b)))
        elif kind == "angle_axis":
            ang = rng.choice([0.0, -0.0, math.pi, 2 * math.pi, 4 * math.pi, -math.pi / 2, 1e-300, 1e300, float('inf'), float('nan'), rng.uniform(-7, 7), rng.uniform(-7, 7), rng.gauss(0, 1) * 10 ** rng.uniform(-8, 3)])
            ax = rvec(rng)
            cs = libm.cs(ang / 2.0)
            if cs is None:
                skipped += 1; continue
            cases.append((kind, "(r_angle_axis %s %s %s)" % (vlib.fhex(cs[0]), vlib.fhex(cs[1]), Vc(ax)),
                          lq(clib.reb_rotation_init_angle_axis(ang, v3(ax))), (ang, ax)))
        elif kind == "to_new_axes":
            z = rvec(rng)
            u = rng.random()
            if u < 0.5:
                x = rvec(rng)
            elif u < 0.7:
                w = rvec(rng); x = [z[1] * w[2] - z[2] * w[1], z[2] * w[0] - z[0] * w[2], z[0] * w[1] - z[1] * w[0]]   # perpendicular
            elif u < 0.85:
                x = [1.0, 0.0, 0.0]
            else:
                z = [0.0, 0.0, rng.choice([1.0, -1.0, -3.0])]; x = [rng.choice([1.0, -1.0, -2.0]), 0.0, 0.0]   # antiparallel stages
            # the argument of atan2 is obtained with the exported functions (each compared with the model on its own) and is itself
            # part of the compared output; cos/sin of the half angle are libm oracles
            nz = clib.reb_vec3d_normalize(v3(z))
            d = clib.reb_vec3d_dot(nz, v3(x))
            nx = clib.reb_vec3d_add(v3(x), clib.reb_vec3d_mul(nz, -d))
            q1 = clib.reb_rotation_init_from_to(nz, V3(0.0, 0.0, 1.0))
            r = clib.reb_vec3d_rotate(nx, q1)
            ang = -libm.m.atan2(r.y, r.x)
            cs = libm.cs(ang / 2.0)
            if cs is None:
                skipped += 1; continue
            cases.append((kind, "(r_to_new_axes %s %s %s %s)" % (vlib.fhex(cs[0]), vlib.fhex(cs[1]), Vc(z), Vc(x)),
                          lv(r) + lq(clib.reb_rotation_init_to_new_axes(v3(z), v3(x))), (z, x)))
        elif kind == "orbit":
            Om, inc, om = [rng.choice([0.0, rng.uniform(-7, 7), math.pi, 2 * math.pi, 1e-9, math.pi - 1e-9, -0.0]) for _ in range(3)]
            o = [libm.cs(om / 2.0), libm.cs(inc / 2.0), libm.cs(Om / 2.0)]
            if any(c is None for c in o):
                skipped += 1; continue
            args = " ".join("%s %s" % (vlib.fhex(c), vlib.fhex(s)) for c, s in o)
            cases.append((kind, "(r_orbit %s)" % args, lq(clib.reb_rotation_init_orbit(Om, inc, om)), (Om, inc, om)))
        elif kind == "to_orbital":
            u = rng.random()
            if u < 0.5:
                q = lq(clib.reb_rotation_init_orbit(rng.uniform(-7, 7), rng.choice([0.0, math.pi, 1e-9, math.pi - 1e-9, rng.uniform(-4, 4),
                                                                                   rng.gauss(0, 1e-7)]), rng.uniform(-7, 7)))
            else:
                q = rquat(rng)
            X = 2.0 * (q[3] * q[3] + q[2] * q[2]) - 1.0          # same expression as the C source; part of the compared output
            inc = libm.m.acos(X); hs = libm.m.atan2(q[2], q[3]); hd = libm.m.atan2(q[1], q[0])
            O, I, o = ctypes.c_double(), ctypes.c_double(), ctypes.c_double()
            clib.reb_rotation_to_orbital(rot(q), ctypes.byref(O), ctypes.byref(I), ctypes.byref(o))
            cases.append((kind, "(r_to_orbital %s %s %s %s %s)" % (vlib.fhex(math.pi), vlib.fhex(inc), vlib.fhex(hs), vlib.fhex(hd), Qc(q)),
                          [X, O.value, I.value, o.value], q))
        elif kind == "slerp":
            q1, q2 = rquat(rng), rquat(rng)
            u = rng.random()
            if u < 0.15: q2 = list(q1)
            elif u < 0.3: q2 = [-x for x in q1]
            elif u < 0.45: q2 = [x + rng.gauss(0, 1e-5) for x in q1]
            t = rng.choice([0.0, 1.0, 0.5, rng.random(), rng.uniform(-1, 2), float('nan'), 1e300])
            c = q1[3] * q2[3] + q1[0] * q2[0] + q1[1] * q2[1] + q1[2] * q2[2]
            ht = libm.m.acos(c)
            aA, aB = (1.0 - t) * ht, t * ht
            sA, sB = libm.m.sin(aA), libm.m.sin(aB)
            cases.append((kind, "(r_slerp %s %s %s %s %s %s)" % (vlib.fhex(ht), vlib.fhex(sA), vlib.fhex(sB), vlib.fhex(t), Qc(q1), Qc(q2)),
                          [c, aA, aB] + lq(clib.reb_rotation_slerp(rot(q1), rot(q2), t)), (q1, q2, t)))
        ctx.case(key=("rot", kind, k), sample={"kind": kind, "input": cases[-1][3]} if k in (13, 16) else None)
    return cases, skipped


# ----------------------------------------------------------------------------- frame cases
COMPS = ["x", "y", "z", "vx", "vy", "vz"]


def snap(sim):
    return [[getattr(sim.particles[i], c) for c in ["m"] + COMPS] for i in range(sim.N)]


def rand_sim(rebound, rng, with_var, directed=False):
    """random simulation; returns (sim, nreal, sets) with sets = list of dicts(order, index, testparticle, a, b).
    directed: N_real >= 3, moving massive star, two full first-order sets BOTH with mass variations of every particle (k >= 2 included),
    and second-order sets (a,b) = (first, second) and (second, second)."""
    if directed or rng.random() < 0.55:
        sim = rebound.Simulation()
        n = rng.choice([1, 2, 2, 3, 3, 4, 5, 7]) if not directed else rng.choice([3, 4])
        sc = 10 ** rng.uniform(-2, 2)
        for i in range(n):
            u = rng.random()
            m = rng.uniform(0.1, 10) if i == 0 else (0.0 if u < 0.15 else (10 ** rng.uniform(-10, -1) if u < 0.5 else rng.uniform(1e-3, 2)))
            if i == 0 and rng.random() < 0.05:
                m = 0.0
            sim.add(m=m, x=rng.gauss(0, 1) * sc, y=rng.gauss(0, 1) * sc, z=rng.gauss(0, 1) * sc,
                    vx=rng.gauss(0, 1), vy=rng.gauss(0, 1), vz=rng.gauss(0, 1))
    else:   # the edges of the frame operations: COM exactly zero, N = 1, only massless companions, already in the target frame
        sim = c20_search.build_real(rebound, rng, rng.choice(c20_search.SHAPES[3:]))
        n = sim.N
    sets = []
    if directed:
        f1 = sim.add_variation(order=1); f2 = sim.add_variation(order=1)
        sets += [{"order": 1, "index": f1.index, "testparticle": -1}, {"order": 1, "index": f2.index, "testparticle": -1}]
        for a, b in ((f1, f2), (f2, f2)):
            v = sim.add_variation(order=2, first_order=a, first_order_2=b)
            sets.append({"order": 2, "index": v.index, "testparticle": -1, "a": a.index, "b": b.index})
        for i in range(n, sim.N):
            p = sim.particles[i]
            p.m = rng.choice([-1, 1]) * rng.uniform(0.01, 0.3)
            for c in COMPS:
                setattr(p, c, rng.gauss(0, 1))
        return sim, n, sets
    if with_var:
        firsts = []
        for _ in range(rng.choice([1, 1, 2, 3])):
            tp = rng.randrange(n) if rng.random() < 0.25 else -1
            v = sim.add_variation(order=1, testparticle=tp)
            s = {"order": 1, "index": v.index, "testparticle": tp}
            sets.append(s)
            if tp < 0:
                firsts.append(v)
        if firsts:
            for _ in range(rng.choice([0, 1, 1, 2])):
                a = rng.choice(firsts); b = rng.choice(firsts)
                tp = rng.randrange(n) if rng.random() < 0.15 else -1
                if tp >= 0:
                    continue      # a 2nd-order test-particle set needs test-particle 1st-order sets; not exercised
                v = sim.add_variation(order=2, first_order=a, first_order_2=b, testparticle=tp)
                sets.append({"order": 2, "index": v.index, "testparticle": tp, "a": a.index, "b": b.index})
        vk = rng.choice(c20_search.VARKINDS)
        if vk == "generic":
            for i in range(n, sim.N):
                p = sim.particles[i]
                dm = 0.0 if rng.random() < 0.4 else rng.gauss(0, 1) * 0.1
                p.m = dm
                for c in COMPS:
                    setattr(p, c, rng.gauss(0, 1))
        else:   # zero variation, masses only, coordinates only, one coordinate of one body
            c20_search.fill_variations(rng, sim, vk, n)
    return sim, n, sets


def ftuple(xs):
    return "(" + ", ".join(vlib.fhex(x) for x in xs) + ")"


def frame_cases(ctx, rebound, clib, nsims):
    rng = ctx.rng
    cases = []
    pyfail = []      # direct (model = "unchanged") mismatches
    for k in range(nsims):
        op = ["com", "com", "comvar", "comvar", "comvar", "hel", "helvar", "imul", "iadd", "isub"][k % 10]
        sim, n, sets = rand_sim(rebound, rng, op in ("comvar", "helvar") or (op in ("imul", "iadd", "isub") and rng.random() < 0.4),
                                directed=(op == "comvar" and k < 40))
        before = snap(sim)
        ms = [before[i][0] for i in range(n)]
        ctx.case(key=("frame", op, n, len(sets), k), sample={"op": op, "N_real": n, "var_sets": sets, "masses": ms} if k in (2, 5) else None)
        for rep_ in ((1, 2) if op in ("com", "comvar", "hel", "helvar") else (1,)):      # second pass: the operation applied to its own result
          if rep_ == 2:
            before = snap(sim)
          if op in ("com", "comvar"):
              com = sim.com()
              clib.reb_simulation_move_to_com(ctypes.byref(sim))
              after = snap(sim)
              M = com.m
              for ci, c in enumerate(COMPS):
                  qs = [before[i][1 + ci] for i in range(n)]
                  cases.append((op, "(r_com %s %s)" % (vlib.flist(ms), vlib.flist(qs)),
                                [M, getattr(com, c)] + [after[i][1 + ci] for i in range(n)], (k, c)))
                  for s in sets:
                      idx = s["index"]
                      if s["testparticle"] >= 0:
                          if not vlib.same_bits(after[idx][1 + ci], before[idx][1 + ci]):
                              pyfail.append(("testparticle variation changed", k, c))
                          continue
                      if s["order"] == 1:
                          l = "[" + "; ".join(ftuple([before[i][0], before[i][1 + ci], before[idx + i][0], before[idx + i][1 + ci]])
                                              for i in range(n)) + "]"
                          cases.append((op + ":var1", "(r_var1 %s %s)" % (vlib.fhex(M), l), [after[idx + i][1 + ci] for i in range(n)], (k, c, idx)))
                      else:
                          a, b = s["a"], s["b"]
                          l = "[" + "; ".join("(%s, %s, %s, %s)" % (ftuple([before[i][0], before[i][1 + ci]]),
                                                                   ftuple([before[a + i][0], before[a + i][1 + ci]]),
                                                                   ftuple([before[b + i][0], before[b + i][1 + ci]]),
                                                                   ftuple([before[idx + i][0], before[idx + i][1 + ci]])) for i in range(n)) + "]"
                          cases.append((op + ":var2", "(r_var2 %s %s)" % (vlib.fhex(M), l), [after[idx + i][1 + ci] for i in range(n)], (k, c, idx)))
              for i in range(sim.N):
                  if not vlib.same_bits(after[i][0], before[i][0]):
                      pyfail.append(("mass changed", k, i))
          elif op in ("hel", "helvar"):
              clib.reb_simulation_move_to_hel(ctypes.byref(sim))
              after = snap(sim)
              for ci, c in enumerate(COMPS):
                  cases.append((op, "(r_hel %s)" % vlib.flist([before[i][1 + ci] for i in range(n)]), [after[i][1 + ci] for i in range(n)], (k, c)))
              for i in list(range(n, sim.N)):     # documented: variational particles are not affected
                  if any(not vlib.same_bits(a, b) for a, b in zip(after[i], before[i])):
                      pyfail.append(("move_to_hel changed a variational particle", k, i))
          elif op == "imul":
              sp, sv = rng.choice([2.0, -1.0, 0.5, rng.gauss(0, 3)]), rng.choice([1.0, 3.0, rng.gauss(0, 3)])
              clib.reb_simulation_imul(ctypes.byref(sim), ctypes.c_double(sp), ctypes.c_double(sv))
              after = snap(sim)
              for ci, c in enumerate(COMPS):
                  cases.append((op, "(r_imul %s %s)" % (vlib.fhex(sp if ci < 3 else sv), vlib.flist([b[1 + ci] for b in before])),
                                [a[1 + ci] for a in after], (k, c)))
          else:
              sim2 = sim.copy()
              for i in range(sim2.N):
                  for c in COMPS:
                      setattr(sim2.particles[i], c, rng.gauss(0, 1))
              b2 = snap(sim2)
              f = clib.reb_simulation_iadd if op == "iadd" else clib.reb_simulation_isub
              f.restype = ctypes.c_int
              ret = f(ctypes.byref(sim), ctypes.byref(sim2))
              after = snap(sim)
              if ret != 0:
                  pyfail.append((op + " returned %d for equal N" % ret, k, 0))
              for ci, c in enumerate(COMPS):
                  cases.append((op, "(r_%s %s %s)" % (op, vlib.flist([b[1 + ci] for b in before]), vlib.flist([b[1 + ci] for b in b2])),
                                [a[1 + ci] for a in after], (k, c)))
              if k % 3 == 0:      # different N: -1 and nothing modified (model: returns its first argument)
                  sim3 = rebound.Simulation(); sim3.add(m=1.0)
                  if sim.N != 1:
                      b4 = snap(sim)
                      if f(ctypes.byref(sim), ctypes.byref(sim3)) != -1 or any(not vlib.same_bits(x, y) for p, q in zip(snap(sim), b4) for x, y in zip(p, q)):
                          pyfail.append((op + " with different N modified the simulation or did not return -1", k, 0))
    return cases, pyfail


# ----------------------------------------------------------------------------- Coq evaluation of float cases
HEAD = ("From Coq Require Import List ZArith PrimFloat.\nFrom RV Require Import Common.Num Common.FloatNum C20.Rotation C20.Frames C20.Run.\n"
        "Import ListNotations.\nOpen Scope float_scope.\n")


def eval_float_cases(ctx, tag, cases, chunk=150):
    jobs = []
    for c0 in range(0, len(cases), chunk):
        body = HEAD + "Definition cases : list (list float * list float) := [\n"
        body += ";\n".join("(%s, %s)" % (t, vlib.flist(e)) for _, t, e, _ in cases[c0:c0 + chunk])
        body += "].\nEval vm_compute in (bad_cases cases).\n"
        jobs.append(("c20_%s_%d" % (tag, c0 // chunk), body))
    bad = []
    ok_all = True
    for (name, ok, out), c0 in zip(vlib.coq_eval_many(jobs), range(0, len(cases), chunk)):
        b = vlib.parse_coq_list_nat(out) if ok else None
        if b is None:
            ok_all = False
            ctx.obligation("correspondence:C20:" + name, False, out[-1500:])
        else:
            bad += [c0 + x for x in b]
    return ok_all, bad


# ----------------------------------------------------------------------------- units correspondence (exact tables in Coq)
def units_cases(ctx, rebound, clib):
    rng = ctx.rng
    U = rebound.units
    L, T, M = list(U.lengths_SI), list(U.times_SI), list(U.masses_SI)
    triples = [(l, t, m) for l in L for t in T for m in M]
    rng.shuffle(triples)      # all 1785 triples in both tiers
    terms = []
    info = []
    pyfail = []
    for (l, t, m) in triples:
        sim = rebound.Simulation()
        order = [l, t, m]
        rng.shuffle(order)
        if rng.random() < 0.3:
            order = [s.upper() if rng.random() < 0.5 else s.capitalize() for s in order]
        try:
            sim.units = tuple(order)
            g = sim.G
            back = sim.units
        except Exception as e:
            pyfail.append({"units_set": order, "exception": repr(e)})
            continue
        if (back["length"], back["time"], back["mass"]) != (l, t, m):
            pyfail.append({"units_set": order, "units_read_back": back})
        fn, fd = g.as_integer_ratio() if math.isfinite(g) else (0, 1)
        terms.append('G_close "%s" "%s" "%s" (%d)%%Z (%d)%%Z' % (l, t, m, fn, fd))
        info.append(("G", (l, t, m), g))
        # the three python_unit_* fields as left by the setter vs the model of update_units
        terms.append(" && ".join('N.eqb (fieldv (update_units "%s" "%s" "%s") "%s") %d%%N' % (l, t, m, f, getattr(sim, f))
                                 for f in ("python_unit_l", "python_unit_t", "python_unit_m")))
        info.append(("fields", (l, t, m), [sim.python_unit_l, sim.python_unit_t, sim.python_unit_m]))
        ctx.case(key=("G", l, t, m), sample={"units": order, "G": g} if len(info) == 1 else None)
    for tbl, name in ((U.lengths_SI, "lengths_SI"), (U.times_SI, "times_SI"), (U.masses_SI, "masses_SI")):
        for k, v in tbl.items():
            fn, fd = v.as_integer_ratio() if math.isfinite(v) else (0, 1)
            terms.append('val_close %s "%s" (%d)%%Z (%d)%%Z' % (name, k, fn, fd))
            info.append(("table", (name, k), v))
            h = clib.reb_hash(ctypes.c_char_p(k.encode("ascii")))
            terms.append('N.eqb (hash_name "%s") %d%%N' % (k, h))
            info.append(("hash", k, h))
            ctx.case(key=("name", k))
    fn, fd = U.G_SI.as_integer_ratio()
    terms.append("val_close [(\"G\", G_SI)] \"G\" (%d)%%Z (%d)%%Z" % (fn, fd))
    info.append(("table", ("G_SI", ""), U.G_SI))
    terms.append("(List.length lengths_SI =? %d)%%nat && (List.length times_SI =? %d)%%nat && (List.length masses_SI =? %d)%%nat" % (len(L), len(T), len(M)))
    info.append(("table sizes", None, None))
    head = ("From Coq Require Import List ZArith NArith String Bool.\nFrom RV Require Import Gen.Units C20.Units C20.UnitsRun C20.UnitsState.\n"
            "Import ListNotations.\nOpen Scope string_scope.\nOpen Scope bool_scope.\n")
    chunk = 450
    jobs = [("c20_units_%d" % (c0 // chunk), head + "Definition cases : list bool := [\n" + ";\n".join(terms[c0:c0 + chunk]) +
             "].\nEval vm_compute in (bad_bools cases).\n") for c0 in range(0, len(terms), chunk)]
    ok, bad, out = True, [], ""
    for (name, okj, outj), c0 in zip(vlib.coq_eval_many(jobs), range(0, len(terms), chunk)):
        b = vlib.parse_coq_list_nat(outj) if okj else None
        if b is None:
            ok = False; out = outj; bad = None; break
        bad += [c0 + x for x in b]
    return ok, bad, info, pyfail, out


# ----------------------------------------------------------------------------- unit conversion chain, binary64, every ordered pair
UHEAD = ("From Coq Require Import List ZArith String PrimFloat.\nFrom RV Require Import Common.Num Common.FloatNum Gen.Units C20.Units C20.UnitsRun.\n"
         "Import ListNotations.\nOpen Scope float_scope.\n")
MEMBERS = ["m", "x", "y", "z", "r", "vx", "vy", "vz", "ax", "ay", "az"]


def fpairs(xs):
    return "[" + "; ".join("(%s, %s)" % (vlib.fhex(a), vlib.fhex(b)) for a, b in xs) + "]"


def unit_chain_cases(ctx, rebound):
    """(name, coq list-of-float term, expected list, labels).  Python's own float evaluation of rebound/units.py is the implementation side;
    the model side is the translated bodies at binary64 with libm pow supplied as a table."""
    rng = ctx.rng
    U = rebound.units
    Lk, Tk, Mk = list(U.lengths_SI), list(U.times_SI), list(U.masses_SI)
    Lv, Tv, Mv = [U.lengths_SI[k] for k in Lk], [U.times_SI[k] for k in Tk], [U.masses_SI[k] for k in Mk]
    t2 = [(v, v ** 2) for v in sorted(set(Tv))]
    t3 = [(v, v ** 3) for v in sorted(set(Lv + [149597870700.0]))]
    T2, T3 = fpairs(t2), fpairs(t3)
    pre = "Definition t2 := %s.\nDefinition t3 := %s.\nDefinition Ls := %s.\nDefinition Ts := %s.\nDefinition Ms := %s.\n" % (
        T2, T3, vlib.flist(Lv), vlib.flist(Tv), vlib.flist(Mv))

    def rx():
        return rng.gauss(0, 1) * 10 ** rng.uniform(-6, 6) if rng.random() < 0.95 else rng.choice([0.0, 1.0, -1.0, 1e-300, 1e300])
    jobs = []
    # tables as Python evaluated them
    jobs.append(("tables", pre, "(tables_f_all t2 t3)", [U.G_SI] + Lv + Tv + Mv, ["G_SI"] + Lk + Tk + Mk))
    xs = [rx() for _ in Mk for _ in Mk]
    jobs.append(("mass", pre, "(mass_all %s Ms)" % vlib.flist(xs), [U.convert_mass(x, a, b) for x, (a, b) in zip(xs, [(a, b) for a in Mk for b in Mk])],
                 [(a, b) for a in Mk for b in Mk]))
    xs = [rx() for _ in Lk for _ in Lk]
    jobs.append(("length", pre, "(length_all %s Ls)" % vlib.flist(xs), [U.convert_length(x, a, b) for x, (a, b) in zip(xs, [(a, b) for a in Lk for b in Lk])],
                 [(a, b) for a in Lk for b in Lk]))
    quads = [(lo, ln, to, tn) for lo in Lk for ln in Lk for to in Tk for tn in Tk]
    for nm, fn in (("vel", U.convert_vel), ("acc", U.convert_acc)):
        xs = [rx() for _ in quads]
        exp = [fn(x, lo, to, ln, tn) for x, (lo, ln, to, tn) in zip(xs, quads)]
        jobs.append((nm, pre, "(%s_all %s%s Ls Ts)" % (nm, "t2 " if nm == "acc" else "", vlib.flist(xs)), exp, quads))
    trip = [(l, t, m) for l in Lk for t in Tk for m in Mk]
    jobs.append(("G", pre, "(G_all t2 t3 %s Ls Ts Ms)" % vlib.fhex(U.G_SI), [U.convert_G(x) for x in trip], trip))
    # whole particles through Simulation.convert_particle_units
    npart = ctx.scale(120, 1500)
    terms, exps, labs = [], [], []
    for k in range(npart):
        u0 = (rng.choice(Lk), rng.choice(Tk), rng.choice(Mk)); u1 = (rng.choice(Lk), rng.choice(Tk), rng.choice(Mk))
        vals = [abs(rx()) if c in ("m", "r") else rx() for c in MEMBERS]
        sim = rebound.Simulation(); sim.units = u0
        sim.add(m=vals[0], x=vals[1], y=vals[2], z=vals[3], r=vals[4], vx=vals[5], vy=vals[6], vz=vals[7])
        p = sim.particles[0]; p.ax, p.ay, p.az = vals[8], vals[9], vals[10]
        sim.convert_particle_units(*u1)
        terms.append("(conv_particle t2 %s %s %s %s %s %s %s ++ [convert_G_pw FNum (ptab t2) (ptab t3) %s %s %s %s])%%list" % (
            vlib.flist(vals), vlib.fhex(U.lengths_SI[u0[0]]), vlib.fhex(U.lengths_SI[u1[0]]), vlib.fhex(U.times_SI[u0[1]]),
            vlib.fhex(U.times_SI[u1[1]]), vlib.fhex(U.masses_SI[u0[2]]), vlib.fhex(U.masses_SI[u1[2]]),
            vlib.fhex(U.G_SI), vlib.fhex(U.lengths_SI[u1[0]]), vlib.fhex(U.times_SI[u1[1]]), vlib.fhex(U.masses_SI[u1[2]])))
        exps.append([getattr(sim.particles[0], c) for c in MEMBERS] + [sim.G])
        labs.append((u0, u1))
        ctx.case(key=("convert_particle_units", u0, u1))
    return jobs, pre, (terms, exps, labs)


def eval_unit_chain(ctx, rebound):
    jobs, pre, (pterms, pexps, plabs) = unit_chain_cases(ctx, rebound)
    cj = []
    for nm, pre_, term, exp, labels in jobs:
        body = UHEAD + pre_ + "Definition got := %s.\nDefinition want := %s.\n" % (term, vlib.flist(exp))
        body += ("Eval vm_compute in (Nat.eqb (List.length got) (List.length want), "
                 "bad_bools (map (fun p => same (fst p) (snd p)) (combine got want))).\n")
        cj.append(("c20_uchain_" + nm, body))
    body = UHEAD + pre + "Definition cases : list (list float * list float) := [\n" + ";\n".join(
        "(%s, %s)" % (t, vlib.flist(e)) for t, e in zip(pterms, pexps)) + "].\nEval vm_compute in (bad_cases cases).\n"
    cj.append(("c20_uchain_particles", body))
    res = vlib.coq_eval_many(cj)
    ok_all, fails, n = True, [], 0
    import re as _re
    for (name, ok, out), job in zip(res[:-1], jobs):
        m = _re.search(r"=\s*\((true|false),\s*(\[[^\]]*\])\)", out, _re.S) if ok else None
        if not m or m.group(1) != "true":
            ok_all = False; fails.append((name, out[-600:])); continue
        bad = [int(x) for x in _re.findall(r"\d+", m.group(2))]
        n += len(job[3])
        for b in bad[:5]:
            fails.append((name, job[4][b]))
        for lab in job[4]:
            ctx.case(key=("uchain", job[0], str(lab)))
    name, ok, out = res[-1]
    bad = vlib.parse_coq_list_nat(out) if ok else None
    if bad is None:
        ok_all = False; fails.append((name, out[-600:]))
    else:
        n += len(pterms)
        fails += [("convert_particle_units", plabs[b]) for b in bad[:5]]
    return ok_all and not fails, fails, n


def run(ctx):
    libdir = ctx.lib()
    ctx.regen("translate_units.py")
    proved = ctx.prove("C20", extra_targets=["C20/Run.vo", "C20/UnitsRun.vo", "C20/UnitsState.vo"])
    ctx.log("proofs built: %s" % proved)
    sys.path.insert(0, libdir)
    import rebound
    clib = vlib.load_clib(libdir)      # private handle: argtypes set here do not leak into rebound's python layer
    clib.reb_hash.restype = ctypes.c_uint32
    clib.reb_hash.argtypes = [ctypes.c_char_p]
    setup_clib(clib)
    libm = Libm()

    # ---- rotations
    rc, skipped = rotation_cases(ctx, clib, libm, ctx.scale(3000, 30000))
    ok1, bad1 = eval_float_cases(ctx, "rot", rc)
    ctx.obligation("correspondence:C20 rotation model(binary64) == reb_vec3d_*/reb_rotation_* bit-for-bit on %d calls (%d skipped: sin/cos vs sincos disagree)"
                   % (len(rc), skipped), ok1 and not bad1, "mismatching: %s" % [(rc[b][0], rc[b][3]) for b in bad1[:6]])
    # ---- reb_simulation_irotate (positions and velocities of all particles incl. variational)
    sc = []
    for k in range(ctx.scale(20, 300)):
        sim, n, sets = rand_sim(rebound, ctx.rng, k % 2 == 1)
        q = rquat(ctx.rng)
        before = snap(sim)
        clib.reb_simulation_irotate.argtypes = [ctypes.c_void_p, Rot]
        clib.reb_simulation_irotate.restype = None
        clib.reb_simulation_irotate(ctypes.byref(sim), rot(q))
        after = snap(sim)
        ps = "[" + "; ".join("(%s, %s)" % (Vc(b[1:4]), Vc(b[4:7])) for b in before) + "]"
        sc.append(("simrot", "(r_simrot %s %s)" % (Qc(q), ps), sum([a[1:7] for a in after], []), (k, q)))
        ctx.case(key=("simrot", k))
    ok2, bad2 = eval_float_cases(ctx, "simrot", sc, 50)
    ctx.obligation("correspondence:C20 sim_rotate(binary64) == reb_simulation_irotate on %d simulations" % len(sc), ok2 and not bad2,
                   "mismatching: %s" % [sc[b][3] for b in bad2[:4]])
    # ---- frames
    fc, pyfail = frame_cases(ctx, rebound, clib, ctx.scale(300, 3000))
    ok3, bad3 = eval_float_cases(ctx, "frames", fc)
    ctx.obligation("correspondence:C20 frame model(binary64) == reb_simulation_com/move_to_com(+1st/2nd order variations)/move_to_hel/imul/iadd/isub "
                   "bit-for-bit on %d component recurrences" % len(fc), ok3 and not bad3 and not pyfail,
                   "mismatching: %s %s" % ([(fc[b][0], fc[b][3]) for b in bad3[:6]], pyfail[:4]))
    # ---- units
    oku, badu, info, upy, out = units_cases(ctx, rebound, clib)
    ctx.obligation("correspondence:C20 sim.G (all sampled triples), table doubles and reb_hash(unit names) == exact tables / Murmur model in Coq (%d checks)"
                   % len(info), oku and badu == [] and not upy,
                   ("failing: %s %s" % ([info[b] for b in (badu or [])[:6]], upy[:3])) if oku else out[-1500:])
    okc, cfails, nchain = eval_unit_chain(ctx, rebound)
    ctx.obligation("correspondence:C20 unit conversion chain at binary64 (translated convert_mass/length/vel/acc/G with libm pow as oracle, table entries as "
                   "Python evaluates them, units_convert_particle through Simulation.convert_particle_units) == Python's results bit-for-bit: every ordered "
                   "pair of mass, length, (length,time) units, every triple for G, %d values" % nchain, okc, "mismatching: %s" % (cfails[:6],))
    allok = ok1 and ok2 and ok3 and oku and okc and not (bad1 or bad2 or bad3 or badu or pyfail or upy)
    ctx.traces = (len(rc) + len(sc) + len(fc) + len(info) + nchain) if allok else 0

    ctx.log("correspondences done")
    # ---- searcher (library only)
    c20_search.search(ctx, rebound, clib, Rot, V3)

    ctx.rule = ("rotations: random/degenerate vectors (axis-aligned, signed zeros, exactly and nearly antiparallel or parallel pairs, zero vectors) and "
                "quaternions (unit, non-unit, zero) through every exported reb_vec3d_*/reb_rotation_* constructor and operation; frames: random "
                "simulations N_real 1..7 with zero-mass bodies, with 0-3 first-order sets (incl. test-particle sets) and 0-2 second-order sets; "
                "units: all 1785 length x time x mass triples (searcher and correspondence) in random order/case. A case is distinct by (operation, index) and non-trivial when it executes arithmetic "
                "(all do; identity/zero inputs included deliberately)")
    ctx.assumptions += [
        "theorems are over Coq reals (exact arithmetic); the binary64 instance of the same Gallina terms is what is compared with the C code",
        "sin/cos of half angles are libm results passed to the model as arguments (constrained by c^2+s^2=1 in the theorems); sqrt is modelled (IEEE exact)",
        "isnormal() is modelled by classify in binary64 and by x<>0 over R",
        "unit table values are read as exact rationals from the decimal text of rebound/units.py; Python evaluates them in binary64, tied within 2^-49 relative",
        "searcher inputs keep vector magnitudes within about 1e-150..1e150 (squared lengths stay normal doubles; both ends are exercised); zero-length vectors are excluded (NaN by design); the bit-exact model comparison also runs outside this range",
        "move_to_hel leaves variational particles untouched (documented in the source comment); the model and the searcher check exactly that",
    ]
