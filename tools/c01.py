"""C01 — every integrator converges at its advertised order.

1. regeneration: tools/translate_schemes.py rewrites coq/Gen/Schemes.v (all coefficient tables as exact integers and the
   hard-wired operator sequences of EOS / WHFast correctors / leapfrog) from the CURRENT source;
2. proof obligations: coq/C01 — the order conditions of every composition scheme decided by exact computation in a
   truncated free algebra (vm_compute over the regenerated tables), with sharpness companions;
3. correspondence: the operator word the library REALLY executes (gdb trace of a -O0 -g build of the current tree:
   breakpoints on the Kepler/interaction/drift/kick functions, argument/dt = coefficient) is compared with the model
   word printed by Coq, for one step and for step,step,synchronize with safe_mode 0; the traced build is tied to the
   production -O3 build by comparing the final state of the same run;
4. searcher (library only): measured convergence order over the option lattice (tools/c01_search.py).
"""
import json, math, os, re, subprocess, sys
from fractions import Fraction as F
from concurrent.futures import ThreadPoolExecutor
import vlib

SC = 24 * 10 ** 60
DT = 0.0078125
HERE = os.path.dirname(os.path.abspath(__file__))
EOS_PLAIN = {0: "LF", 1: "LF4", 2: "LF6", 3: "LF8", 4: "LF4_2", 5: "LF8_6_4", 6: "PLF7_6_4"}
EOS_MK = {7: "PMLF4", 8: "PMLF6"}


def build_driver(libdir, tag):
    # kept outside the library directory: vlib purges stale library builds, possibly while another check is running
    d = os.path.join(vlib.BUILD, "c01drv")
    os.makedirs(d, exist_ok=True)
    exe = os.path.join(d, "c01_driver_%s_%s" % (tag, os.path.basename(libdir)))
    src = os.path.join(HERE, "c01_driver.c")
    if os.path.exists(exe) and os.path.getmtime(exe) >= os.path.getmtime(src):
        return exe
    r = subprocess.run(["gcc", "-O0", "-g", "-std=c99", "-I", os.path.join(vlib.REPO, "src"), src, "-o", exe + ".tmp%d" % os.getpid(),
                        "-L", libdir, "-l:librebound" + vlib.SUFFIX, "-Wl,-rpath," + libdir, "-lm"],
                       capture_output=True, text=True)
    if r.returncode != 0:
        raise RuntimeError("driver does not compile: " + r.stderr[-1500:])
    os.replace(exe + ".tmp%d" % os.getpid(), exe)
    return exe


def jobs_list(thorough):
    J = []   # (label, argv, coq_expr, kind, extra)
    def add(label, argv, expr, kind, extra=None, dts=(DT,)):
        for dt in dts:
            J.append((label + ("" if dt > 0 else "/dt<0"), [str(a) for a in argv] + [repr(dt)], expr, kind, extra, dt))
    both = (DT, -DT)
    for t in range(10):
        add("saba/0x%x/step" % t, ["saba", t, 0, 0, "step"], "saba_word %d" % t, "wh", dts=both if (thorough or t in (1, 6)) else (DT,))
        add("saba/0x%x/unsync" % t, ["saba", t, 0, 0, "unsync"], "saba_word_unsync %d 2" % t, "wh")
    for c in (0, 3, 5, 7, 11, 17):
        add("whfast/default/c%d/jacobi/step" % c, ["whfast", 0, c, 0, "step"], "whfast_word %d" % c, "wh", dts=both if c in (0, 7) or thorough else (DT,))
    add("whfast/default/c3/barycentric/step", ["whfast", 0, 3, 3, "step"], "whfast_word 3", "wh")
    add("whfast/default/c17/barycentric/step", ["whfast", 0, 17, 3, "step"], "whfast_word 17", "wh")
    for c in (0, 3, 11):
        add("whfast/composition/c%d/step" % c, ["whfast", 2, c, 0, "step"], "whfast_composition_word %d" % c, "wh")
    # round 2: modified-kick schemes, corrector2, DH/WHDS (three letters)
    for row in range(4):
        add("saba/0x%x/step" % (0x100 + row), ["saba", 0x100 + row, 0, 0, "step"], "saba_cm_word %d" % row, "wh")
    for row in range(4):
        add("saba/0x%x/step" % (0x200 + row), ["saba", 0x200 + row, 0, 0, "step"], "saba_cl_word_leading %d" % row, "wh_lazy")
    add("whfast/lazy/c0/step", ["whfast", 3, 0, 0, "step"], "whfast_lazy_kernel_leading", "wh")
    add("whfast/lazy/c7/step", ["whfast", 3, 7, 0, "step"], "of_scheme (corrector_word (corrector_calls 7 true)) ++ whfast_lazy_kernel_leading ++ of_scheme (corrector_word (corrector_calls 7 false))", "wh")
    for c in (0, 7):
        add("whfast/modifiedkick/c%d/step" % c, ["whfast", 1, c, 0, "step"], "whfast_mk_word %d" % c, "wh")
    add("whfast/modifiedkick/c7/corrector2/step", ["whfast", 1, 7, 100, "step"], "with_correctors 7 mk_kernel", "wh")
    add("whfast/composition/c7/corrector2/step", ["whfast", 2, 7, 100, "step"], "with_correctors 7 comp_kernel", "wh")
    for coord, nm in ((1, "dh"), (2, "whds")):
        add("whfast/default/c0/%s/step" % nm, ["whfast", 0, 0, coord, "step"], "whfast_dh_word", "wh3", dts=both)
        add("whfast/default/c0/%s/unsync" % nm, ["whfast", 0, 0, coord, "unsync"], "whfast_dh_word_unsync", "wh3")
    for c in (0, 5):
        add("whfast/default/c%d/recalc x3 while unsynchronized" % c, ["whfast", 0, c, 0, "recalc"], "whfast_recalc_word %d" % c, "wh", dts=both if c == 0 else (DT,))
    for t in (1, 6):
        add("saba/0x%x/recalc x3 while unsynchronized" % t, ["saba", t, 0, 0, "recalc"], "saba_recalc_word %d" % t, "wh", dts=both if t == 6 else (DT,))
    add("whfast/default/c0/remove a particle mid-run (safe_mode 0)", ["whfast", 0, 0, 0, "remove"], "whfast_word_unsync2 ++ whfast_word_unsync2", "wh_f", dts=both)
    add("saba/0x6/remove a particle mid-run (safe_mode 0)", ["saba", 6, 0, 0, "remove"], "saba_word_unsync 6 2 ++ saba_word_unsync 6 2", "wh_f")
    add("mercurius/step", ["mercurius", 0, 0, 0, "step"], "hybrid_word", "wh3h", dts=both)
    add("mercurius/unsync", ["mercurius", 0, 0, 0, "unsync"], "hybrid_word_unsync", "wh3h")
    for pm in (0, 1, 2):
        add("trace/peri_mode=%d/step" % pm, ["trace", pm, 0, 0, "step"], "hybrid_word", "wh3h", dts=both if pm == 0 else (DT,))
    for code, nm in EOS_PLAIN.items():
        add("eos/phi0=%s/step" % nm, ["eos", code, 0, 2, "step"], "eos_outer_%s ++ eos_sync_%s" % (nm, nm), "eos_outer",
            dts=both if thorough or code in (1, 6) else (DT,))
        add("eos/phi0=%s/unsync" % nm, ["eos", code, 0, 2, "unsync"], "eos_outer_%s ++ eos_outer_unsync_%s ++ eos_sync_%s" % (nm, nm, nm), "eos_outer")
        for n in (1, 2, 3):
            add("eos/phi1=%s,n=%d/step" % (nm, n), ["eos", 0, code, n, "step"], "eos_inner_%s_n%d" % (nm, n), "eos_inner", n)
    for code, nm in EOS_MK.items():
        add("eos/phi0=%s/step" % nm, ["eos", code, 0, 2, "step"], "eos_outer_%s_mk ++ eos_sync_%s_mk" % (nm, nm), "eos_outer")
        add("eos/phi0=%s/unsync" % nm, ["eos", code, 0, 2, "unsync"], "eos_outer_%s_mk ++ eos_outer_unsync_%s_mk ++ eos_sync_%s_mk" % (nm, nm, nm), "eos_outer")
        for n in (1, 2):
            add("eos/phi1=%s,n=%d/step" % (nm, n), ["eos", 0, code, n, "step"], "eos_inner_%s_n%d_mk" % (nm, n), "eos_inner", n)
    for o in (2, 4, 6, 8, 10):
        add("janus/%d/step" % o, ["janus", o, 0, 0, "step"], "janus_word %d" % o, "janus", dts=both if thorough or o == 4 else (DT,))
    return J


def trace_once(exe_dbg, argv):
    r = subprocess.run(["timeout", "120", "gdb", "-batch", "-nx", "-x", os.path.join(HERE, "c01_trace.gdb"), "--args", exe_dbg] + argv,
                       capture_output=True, text=True)
    ops = []
    try:
        for line in r.stdout.splitlines():
            if line.startswith("OP "):
                p = line.split()
                ops.append((p[1], [float(x) for x in p[2:]]))
        m = re.search(r"^STATE (.*)$", r.stderr, re.M)
        state = [float(x) for x in m.group(1).split()] if m else None
    except ValueError as e:
        return None, None, "unparsable trace: %r" % (e,)
    if not state or not ops:
        return None, None, (r.stdout[-400:] + r.stderr[-400:])
    return ops, state, ""


def trace(exe_dbg, argv):
    res = trace_once(exe_dbg, argv)
    if res[0] is None:          # one retry (a debugger hiccup must not become a false alarm)
        res = trace_once(exe_dbg, argv)
    return res


def canon(ops, kind, extra, dt):
    """trace -> list of (letter, coefficient, v-coefficient) as exact Fractions of the traced doubles; or (None, why)."""
    fdt = F(dt)
    out = []
    if kind == "wh_f":      # as "wh", but reb_integrator_whfast_from_inertial calls are kept as letter "F"
        last_k = None
        for op, a in ops:
            if op == "K":
                out.append((False, F(a[0]) / fdt, F(0))); last_k = a[0]
            elif op == "I":
                out.append((True, F(a[0]) / fdt, F(0)))
            elif op == "F":
                out.append(("F", F(0), F(0)))
            elif op == "C":
                if last_k is None or a[0] != last_k:
                    return None, "com step %r does not follow a kepler step with the same argument" % a
            elif op != "J":
                return None, "unexpected operator %s" % op
        return out, ""
    if kind == "wh":
        last_k = None
        for op, a in ops:
            if op == "K":
                out.append((False, F(a[0]) / fdt, F(0))); last_k = a[0]
            elif op == "I":
                out.append((True, F(a[0]) / fdt, F(0)))
            elif op == "C":
                if last_k is None or a[0] != last_k:
                    return None, "com step %r does not follow a kepler step with the same argument" % a
            elif op in ("J", "F"):
                pass      # jump step: identity in Jacobi / barycentric coordinates (the only ones traced here); F: from_inertial
            else:
                return None, "unexpected operator %s" % op
        return out, ""
    if kind == "wh3":
        last_k = None
        for op, a in ops:
            if op == "K":
                out.append((0, F(a[0]) / fdt, F(0))); last_k = a[0]
            elif op == "I":
                out.append((1, F(a[0]) / fdt, F(0)))
            elif op == "J":
                out.append((2, F(a[0]) / fdt, F(0)))
            elif op == "C":
                if last_k is None or a[0] != last_k:
                    return None, "com step %r does not follow a kepler step with the same argument" % a
            elif op != "F":
                return None, "unexpected operator %s" % op
        return out, ""
    if kind == "wh3h":      # MERCURIUS / TRACE step functions: interaction = 1, jump = 2, kepler = 0 (com step: argument checked)
        for op, a in ops:
            if op in ("HI", "HJ", "HK"):
                out.append(({"HK": 0, "HI": 1, "HJ": 2}[op], F(a[0]) / fdt, F(0)))
            elif op == "HC":
                if abs(F(a[0]) / fdt - 1) > F(1, 10 ** 12):
                    return None, "com step with argument %r" % a
            elif op not in ("K", "I", "C", "J", "F"):      # the Kepler step may use WHFast's solver internally
                return None, "unexpected operator %s" % op
        return out, ""
    if kind == "janus":
        for op, a in ops:
            if op not in ("JD", "JK"):
                return None, "unexpected operator %s" % op
            out.append((op == "JK", F(a[0]) / fdt, F(0)))
        return out, ""
    if kind == "eos_outer":
        for op, a in ops:
            if op == "D0":
                out.append((False, F(a[0]) / fdt, F(0)))
            elif op == "I0":
                out.append((True, F(a[0]) / fdt, F(a[1]) / fdt ** 3 * 24))
            elif op not in ("D1", "I1"):
                return None, "unexpected operator %s" % op
        return out, ""
    if kind == "eos_inner":
        segs, cur = [], None
        for op, a in ops:
            if op == "D0":
                cur = [a[0], []]; segs.append(cur)
            elif op in ("D1", "I1"):
                if cur is None:
                    return None, "inner operator outside drift_shell0"
                cur[1].append((op, a))
            elif op == "I0":
                cur = None
            else:
                return None, "unexpected operator %s" % op
        res = []
        for d0, lst in segs:
            sub = F(d0) / extra
            res.append([(op == "I1", F(a[0]) / sub, (F(a[1]) / sub ** 3 * 24) if op == "I1" else F(0)) for op, a in lst])
        return res, ""
    return None, "unknown kind"


def same_word(traced, model, tol=F(1, 10 ** 12)):
    if len(traced) != len(model):
        return "length %d (library) vs %d (model)" % (len(traced), len(model))
    for i, ((l1, c1, v1), (l2, c2, v2)) in enumerate(zip(traced, model)):
        if l1 != l2:
            return "operator %d: letter differs" % i
        if abs(c1 - c2) > tol * max(1, abs(c2)):
            return "operator %d: coefficient %.17g (library) vs %.17g (model)" % (i, float(c1), float(c2))
        if abs(v1 - v2) > tol * max(1, abs(v2)):
            return "operator %d: modified-kick coefficient %.17g (library) vs %.17g (model)" % (i, float(v1), float(v2))
    return ""


def model_words(exprs):
    body = ("From Coq Require Import List ZArith.\nFrom RV Require Import Gen.Schemes C01.FreeAlg C01.Model C01.FreeAlgX C01.ModelX C01.FreeAlg3.\n"
            "Import ListNotations.\nOpen Scope Z_scope.\n")
    body += "".join("Eval vm_compute in (%s).\n" % e for e in exprs)
    ok, out = vlib.coq_eval("c01_words", body, timeout=300)
    if not ok:
        return None, out[-1500:]
    blocks = re.split(r"^\s*= ", out, flags=re.M)[1:]
    if len(blocks) != len(exprs):
        return None, "expected %d results, got %d" % (len(exprs), len(blocks))
    words = []
    for b in blocks:
        b = b.split("\n     :")[0]
        w = []
        for m in re.finditer(r"\((true|false),\s*(-?\d+)(?:,\s*(-?\d+))?\)|\(([012]),\s*(-?\d+)\)|XE\s+(true|false)\s+\(?(-?\d+)\)?|XK\s+\(?(-?\d+)\)?\s+\(?(-?\d+)\)?", b):
            if m.group(1):
                w.append((m.group(1) == "true", F(int(m.group(2)), SC), F(int(m.group(3)), SC) if m.group(3) else F(0)))
            elif m.group(4):
                w.append((int(m.group(4)), F(int(m.group(5)), SC), F(0)))        # three-letter word (0 = K, 1 = I, 2 = J)
            elif m.group(6):
                w.append((m.group(6) == "true", F(int(m.group(7)), SC), F(0)))
            else:
                # modified kick exp(y B + v [B,[A,B]]): the library kicks with argument y*dt (the jerk is added to the acceleration
                # beforehand); a pure commutator kick (y = 0, SABA CM) is interaction_step(cc*dt) on dt^2*jerk with jerk = C/2
                y, vc = int(m.group(8)), int(m.group(9))
                w.append((True, F(y, SC), F(0)) if y != 0 else ("C", F(2 * vc, SC ** 3), F(0)))
        if not w and "[]" not in b:
            return None, "cannot parse a model word: " + b[:200]
        words.append(w)
    return words, ""


def correspondence(ctx, libdir):
    def builds():
        dbg = vlib.build_lib("default", extra_flags=["-O0", "-g", "-fno-inline"], tag="c01dbg")
        return build_driver(dbg, "dbg"), build_driver(ctx.lib(), "prod")
    try:
        exe_dbg, exe_prod = builds()
    except RuntimeError as e:
        ctx.obligation("correspondence:C01 debug build of the current tree", False, str(e)[-1500:])
        return False
    J = jobs_list(ctx.thorough)
    exprs = sorted(set(j[2] for j in J))
    words, why = model_words(exprs)
    if words is None:
        ctx.obligation("correspondence:C01 model words printed by Coq", False, why)
        return False
    mw = dict(zip(exprs, words))

    def prod_run(exe, argv):
        try:
            return subprocess.run([exe] + argv, capture_output=True, text=True, timeout=120)
        except (OSError, subprocess.TimeoutExpired):
            return None

    def prod_ok(pr):
        return pr is not None and pr.returncode == 0 and re.search(r"^STATE ", pr.stderr, re.M)
    with ThreadPoolExecutor(max_workers=vlib.JOBS) as ex:
        traces = list(ex.map(lambda j: trace(exe_dbg, j[1]), J))
        prods = list(ex.map(lambda j: prod_run(exe_prod, j[1]), J))
    if any(t[0] is None for t in traces) or not all(prod_ok(p) for p in prods):
        # the build directories may have been purged by a concurrent check (vlib removes stale builds): rebuild, retry once
        try:
            exe_dbg, exe_prod = builds()
            traces = [t if t[0] is not None else trace(exe_dbg, j[1]) for t, j in zip(traces, J)]
            prods = [p if prod_ok(p) else prod_run(exe_prod, j[1]) for p, j in zip(prods, J)]
        except RuntimeError:
            pass
    bad, state_bad, n_ok = [], [], 0
    for (label, argv, expr, kind, extra, dt), (ops, state, terr), pr in zip(J, traces, prods):
        ctx.case(key=("trace", label), sample={"run": label, "first_operators": [(o, a) for o, a in (ops or [])[:4]]} if len(ctx.samples) < 2 else None)
        if ops is None:
            bad.append((label, "no trace: " + terr)); continue
        traced, why = canon(ops, "wh" if kind == "wh_lazy" else kind, extra, dt)
        if traced is None:
            bad.append((label, why)); continue
        model = mw[expr]
        if kind == "wh_lazy":       # the lazy corrector updates the velocities in line: no interaction_step call to trace
            model = [e for e in model if e[0] != "C"]
        model = [((True,) + tuple(e[1:])) if e[0] == "C" else e for e in model]
        if kind == "wh_f":      # two legs of equal length; the coordinates are (re)computed at the start of each leg
            half_ = len(model) // 2
            model = [("F", F(0), F(0))] + model[:half_] + [("F", F(0), F(0))] + model[half_:]
        if kind == "eos_inner":
            whys = [same_word(seg, model) for seg in traced]
            why = next((w for w in whys if w), "") if traced else "no drift_shell0 call traced"
        else:
            why = same_word(traced, model)
        if why:
            bad.append((label, why))
        else:
            n_ok += 1
        # tie the traced -O0 build to the production build: same run, same final state
        m = re.search(r"^STATE (.*)$", pr.stderr, re.M) if pr is not None else None
        if pr is None or pr.returncode != 0 or not m:
            state_bad.append((label, "production run failed (status %s)" % (pr.returncode if pr is not None else "not started")))
        else:
            ps = [float(x) for x in m.group(1).split()]
            if any(abs(a - b) > 1e-11 * max(1.0, abs(b)) for a, b in zip(ps, state)):
                state_bad.append((label, "final state differs: -O3 %r vs -O0 %r" % (ps, state)))
    ctx.traces = n_ok
    ctx.obligation("correspondence:C01 operator word executed by the library (gdb trace, %d runs) == model word printed by Coq" % len(J),
                   not bad, "; ".join("%s: %s" % b for b in bad[:8]))
    ctx.obligation("correspondence:C01 traced -O0 build and production -O3 build end in the same state (%d runs)" % len(J),
                   not state_bad, "; ".join("%s: %s" % b for b in state_bad[:5]))
    ctx.extra["correspondence_runs"] = len(J)
    ctx.extra["correspondence_mismatches"] = [list(b) for b in bad[:20]]
    return not bad and not state_bad


def jerk_correspondence(ctx, libdir):
    """bit-exact: Gallina transcription of reb_calculate_and_apply_jerk (coq/C01/Jerk.v at binary64) vs the exported C function."""
    ncases = ctx.scale(240, 3000)
    r = vlib.run_py(libdir, os.path.join(HERE, "c01_jerk_cases.py"), [ctx.rng.randrange(1 << 30), ncases], timeout=600)
    if r.returncode > 0:
        r = vlib.run_py(ctx.lib(), os.path.join(HERE, "c01_jerk_cases.py"), [ctx.rng.randrange(1 << 30), ncases], timeout=600)
    if r.returncode != 0:
        if r.returncode < 0:
            ctx.violation("jerk-crash", {"status": r.returncode, "stderr": r.stderr[-1000:]}, True, "reb_calculate_and_apply_jerk crashed")
        else:
            ctx.obligation("correspondence:C01 jerk cases generated", False, (r.stdout + r.stderr)[-1500:])
        return
    cases = json.loads(r.stdout)
    fh = lambda h: vlib.fhex(float.fromhex(h))
    rows = lambda ll: "[" + "; ".join("[" + "; ".join(fh(x) for x in l) + "]" for l in ll) + "]"
    jobs = []
    chunk = 80
    for c0 in range(0, len(cases), chunk):
        body = ("From Coq Require Import List ZArith PrimFloat.\nFrom RV Require Import Common.FloatNum C01.JerkRun.\n"
                "Import ListNotations.\nOpen Scope float_scope.\nDefinition cases : list (list float * list float) := [\n")
        body += ";\n".join("(jerkF %s %s %s %s %d %d %d %s, [%s])" % (fh(c["v"]), fh(c["G"]), rows(c["bodies"]), rows(c["vel"]), c["nact"], c["N"],
                                                                    c["ignore"], "true" if c["tp"] else "false", "; ".join(fh(x) for x in c["result"]))
                            for c in cases[c0:c0 + chunk])
        body += "].\nEval vm_compute in (bad_cases cases).\n"
        jobs.append(("c01_jerk_%d" % (c0 // chunk), body))
    bad, ok_all = [], True
    for (name, ok, out), c0 in zip(vlib.coq_eval_many(jobs), range(0, len(cases), chunk)):
        b = vlib.parse_coq_list_nat(out) if ok else None
        if b is None:
            ok_all = False
            ctx.obligation("correspondence:C01 jerk:" + name, False, out[-1200:])
        else:
            bad += [c0 + x for x in b]
    for k, c in enumerate(cases):
        ctx.case(key=("jerk", c["N"], c["nact"], c["ignore"], c["tp"]), nontrivial=c["N"] > c["ignore"],
                 sample={"jerk_case": {q: c[q] for q in ("N", "nact", "ignore", "tp")}} if k == 0 else None)
    if ok_all and not bad:
        ctx.traces += len(cases)
    ctx.obligation("correspondence:C01 jerk model(binary64) == reb_calculate_and_apply_jerk bit-for-bit on %d random states" % len(cases),
                   ok_all and not bad, "mismatching cases: %s" % [{q: cases[b][q] for q in ("N", "nact", "ignore", "tp")} for b in bad[:6]])


def ode_loop_correspondence(ctx):
    """bit-exact: the (t, dt) sequence reb_integrator_part2 passes to reb_integrator_bs_step when advancing a user ODE
    (gdb on the -O0 build of the current tree, breakpoints located by source text) vs coq/C01/OdeLoop.v at binary64,
    driven by the observed answers (success, ri_bs.dt_proposed) of the real sub-stepper."""
    src = open(os.path.join(vlib.REPO, "src", "integrator.c")).read().splitlines()
    call = [i + 1 for i, l in enumerate(src) if "int success = reb_integrator_bs_step(r, dt);" in l]
    ret = [i + 1 for i, l in enumerate(src) if l.strip().startswith("if (success){")]
    if len(call) != 1 or len(ret) != 1 or ret[0] != call[0] + 1:
        ctx.obligation("correspondence:C01 ODE sub-step loop located in integrator.c", False, "call lines %s, return lines %s" % (call, ret))
        return
    try:
        dbg = vlib.build_lib("default", extra_flags=["-O0", "-g", "-fno-inline"], tag="c01dbg")
        exe = build_driver(dbg, "dbg")
    except RuntimeError as e:
        ctx.obligation("correspondence:C01 debug build of the current tree (ODE loop)", False, str(e)[-1000:])
        return
    gdbf = os.path.join(vlib.BUILD, "c01drv", "ode_trace_%d_%d.gdb" % (call[0], os.getpid()))
    with open(gdbf, "w") as f:
        f.write("set pagination off\nset confirm off\nset breakpoint pending on\n"
                "break integrator.c:%d\ncommands\nsilent\nprintf \"OC %%.17g %%.17g %%.17g %%.17g %%.17g\\n\", t, dt, r->t, r->dt_last_done, r->ri_bs.dt_proposed\ncontinue\nend\n"
                "break integrator.c:%d\ncommands\nsilent\nprintf \"OR %%d %%.17g\\n\", success, r->ri_bs.dt_proposed\ncontinue\nend\nrun\nquit\n" % (call[0], ret[0]))
    runs = []
    for integ, typ in (("whfast", 0), ("leapfrog", 0), ("saba", 6), ("ias15", 0), ("mercurius", 0), ("trace", 0), ("eos", 0), ("janus", 0)):
        for wdt10 in (5, 70, 500):
            for dt in ((0.05, -0.05) if wdt10 != 5 or ctx.thorough else (0.05,)):
                runs.append((integ, wdt10, typ, dt))
    def one(rn):
        integ, wdt10, typ, dt = rn
        for attempt in (0, 1):
            r = subprocess.run(["timeout", "-k", "5", "45", "gdb", "-batch", "-nx", "-x", gdbf, "--args", exe, "ode:" + integ, str(wdt10), str(typ), "4", "step", repr(dt)],
                               capture_output=True, text=True)
            if r.returncode == 124:
                return "HANG"
            rows = [l.split() for l in r.stdout.splitlines() if l.startswith("OC ") or l.startswith("OR ")]
            if rows and "STATE" in r.stderr and len(rows) % 2 == 0:
                return rows
        return None
    with ThreadPoolExecutor(max_workers=vlib.JOBS) as ex:
        traces = list(ex.map(one, runs))
    try: os.remove(gdbf)
    except OSError: pass
    cases, labels, bad = [], [], []
    H = lambda x: vlib.fhex(float(x))
    for rn, rows in zip(runs, traces):
        label = "ode:%s w*dt=%g dt=%g" % (rn[0], rn[1] / 10, rn[3])
        if rows == "HANG":
            if len([v for v in ctx.violations if str(v["key"]).startswith("hang:ode-loop")]) < 4:
              ctx.violation("hang:ode-loop " + label, {"driver": "tools/c01_driver.c", "args": ["ode:" + rn[0], rn[1], rn[2], 4, "step", rn[3]],
                                                     "what": "4 N-body steps with a harmonic-oscillator user ODE did not finish within 45 s"}, True,
                          "the library hangs advancing a user ODE (%s)" % label)
            bad.append((label, "hang")); continue
        if rows is None:
            bad.append((label, "no trace")); continue
        groups, cur = [], None
        try:
            for k in range(0, len(rows), 2):
                c, rr = rows[k], rows[k + 1]
                if c[0] != "OC" or rr[0] != "OR":
                    raise ValueError("call/return rows out of order")
                t, dt, rt, dtl, prop = [float(x) for x in c[1:6]]
                succ, prop2 = int(rr[1]) != 0, float(rr[2])
                if cur is None or cur["rt"] != rt:
                    cur = {"rt": rt, "dtl": dtl, "prop0": prop, "calls": [], "oracle": []}; groups.append(cur)
                cur["calls"].append((t, dt)); cur["oracle"].append((succ, prop2))
        except (ValueError, IndexError) as e:
            bad.append((label, "unparsable trace %r" % (e,))); continue
        for g in groups:
            t_end = g["calls"][-1][0] + g["calls"][-1][1] if g["oracle"][-1][0] else g["calls"][-1][0]
            exp = [x for c in g["calls"] for x in c] + [t_end, 1.0]
            term = "(odeF [%s] %s %s %s)" % ("; ".join("(%s, %s)" % ("true" if s_ else "false", H(p_)) for s_, p_ in g["oracle"]),
                                             H(g["rt"]), H(g["dtl"]), H(g["prop0"]))
            cases.append((term, exp)); labels.append((label, len(g["calls"])))
            ctx.case(key=("odeloop", rn[0], rn[1], rn[3] > 0, len(g["calls"])), nontrivial=len(g["calls"]) > 1,
                     sample={"ode_loop": label, "substeps": len(g["calls"])} if len(cases) == 1 else None)
    jobs = []
    chunk = 60
    for c0 in range(0, len(cases), chunk):
        body = ("From Coq Require Import List ZArith PrimFloat.\nFrom RV Require Import Common.FloatNum C01.OdeLoopRun.\n"
                "Import ListNotations.\nOpen Scope float_scope.\nDefinition cases : list (list float * list float) := [\n")
        body += ";\n".join("(%s, %s)" % (t, vlib.flist(e)) for t, e in cases[c0:c0 + chunk])
        body += "].\nEval vm_compute in (bad_cases cases).\n"
        jobs.append(("c01_odeloop_%d" % (c0 // chunk), body))
    ok_all = True
    for (name, ok, out), c0 in zip(vlib.coq_eval_many(jobs), range(0, len(cases), chunk)):
        b = vlib.parse_coq_list_nat(out) if ok else None
        if b is None:
            ok_all = False; bad.append((name, out[-600:]))
        else:
            bad += [(labels[c0 + x][0], "model (t, dt) sequence differs from the library's (%d sub-steps)" % labels[c0 + x][1]) for x in b]
    multi = len([1 for _, n in labels if n > 1])
    if not bad:
        ctx.traces += len(cases)
    ctx.obligation("correspondence:C01 ODE sub-step loop model(binary64) == (t, dt) passed to reb_integrator_bs_step, bit-for-bit, %d N-body steps (%d with several sub-steps)"
                   % (len(cases), multi), not bad and multi > 0, "; ".join("%s: %s" % b for b in bad[:6]) or "no multi-sub-step case traced")
    ctx.extra["ode_loop_steps_compared"] = len(cases)


def _lines(path, needles):
    """1-based line numbers of the given (needle, occurrence) pairs in a source file; None if not found exactly."""
    src = open(path).read().splitlines()
    out = []
    for needle, occ, total in needles:
        hits = [i + 1 for i, l in enumerate(src) if needle in l]
        if len(hits) != total:
            return None
        out.append(hits[occ])
    return out


def _gdb_run(exe, script, argv, prefixes):
    for attempt in (0, 1):
        r = subprocess.run(["timeout", "300", "gdb", "-batch", "-nx", "-x", script, "--args", exe] + argv, capture_output=True, text=True)
        rows = [l.split() for l in r.stdout.splitlines() if l.split() and l.split()[0] in prefixes]
        if rows and "STATE" in r.stderr:
            return rows
    return None


def controller_correspondence(ctx):
    """bit-exact: the IAS15 step-size controller (error estimate -> candidate -> clamp / reject / growth limit) and the BS
    optimal-step factor and accept/reject decision, coq/C01/StepCtl.v at binary64 vs values recorded from the running library."""
    isrc = os.path.join(vlib.REPO, "src", "integrator_ias15.c"); bsrc = os.path.join(vlib.REPO, "src", "integrator_bs.c")
    il = _lines(isrc, [("if  (isnormal(integrator_error)){", 0, 1), ("if (isnormal(min_timescale2)){", 0, 1),
                       ("if (fabs(dt_new)<r->ri_ias15.min_dt) dt_new = copysign(r->ri_ias15.min_dt,dt_new);", 0, 1),
                       ("r->dt = dt_new;", 0, 2), ("r->dt = dt_new;", 1, 2)])
    bl2 = _lines(bsrc, [("if ( ! tryStep(r, Ns, k, ri_bs->sequence[k], t, dt)) {", 0, 1), ("if (ri_bs->min_dt !=0.0 && dt < ri_bs->min_dt) {", 0, 1),
                        ("ri_bs->dt_proposed = dt;", 1, 2)])
    bl = _lines(bsrc, [("fac = MAX(power / stepControl4, MIN(1. / power, fac));", 0, 1), ("ri_bs->cost_per_time_unit[k] = ri_bs->cost_per_step[k] / ri_bs->optimal_step[k];", 0, 1),
                       ("switch (k - ri_bs->target_iter) {", 0, 1), ("if (! reject) {", 0, 1)])
    consts = open(bsrc).read()
    ok_consts = all(re.search(p_, consts) for p_ in (r"stepControl4\s*=\s*4\.0;", r"define MAX\(a, b\) \(\(a\) > \(b\) \? \(a\) : \(b\)\)", r"define MIN\(a, b\) \(\(a\) < \(b\) \? \(a\) : \(b\)\)")) \
        and re.search(r"static const double safety_factor\s*=\s*0\.25;", open(isrc).read())
    if il is None or bl is None or bl2 is None or not ok_consts:
        ctx.obligation("correspondence:C01 step-size controllers located in the source", False, "ias15 lines %s, bs lines %s, constants %s" % (il, bl, bool(ok_consts)))
        return
    try:
        dbg = vlib.build_lib("default", extra_flags=["-O0", "-g", "-fno-inline"], tag="c01dbg")
        exe = build_driver(dbg, "dbg")
    except RuntimeError as e:
        ctx.obligation("correspondence:C01 debug build of the current tree (controllers)", False, str(e)[-1000:])
        return
    d = os.path.join(vlib.BUILD, "c01drv")
    gi = os.path.join(d, "ias15ctl_%d.gdb" % os.getpid()); gb = os.path.join(d, "bsctl_%d.gdb" % os.getpid())
    head = "set pagination off\nset confirm off\nset breakpoint pending on\n"
    def bp(f, line, fmt, args):
        return "break %s:%d\ncommands\nsilent\nprintf \"%s\\n\", %s\ncontinue\nend\n" % (f, line, fmt, args)
    open(gi, "w").write(head + bp("integrator_ias15.c", il[0], "IE %.17g %.17g %.17g", "integrator_error, r->ri_ias15.epsilon, dt_done")
                        + bp("integrator_ias15.c", il[1], "IT %.17g %.17g %.17g", "min_timescale2, r->ri_ias15.epsilon, dt_done")
                        + bp("integrator_ias15.c", il[2], "IR %.17g %.17g", "dt_new, r->ri_ias15.min_dt")
                        + bp("integrator_ias15.c", il[3], "IJ %.17g", "dt_new") + bp("integrator_ias15.c", il[4], "IA %.17g", "dt_new") + "run\nquit\n")
    open(gb, "w").write(head + bp("integrator_bs.c", bl[0], "BF %.17g %.17g %.17g %d %.17g", "fac, power, error, k, dt")
                        + bp("integrator_bs.c", bl[1], "BO %.17g", "ri_bs->optimal_step[k]")
                        + bp("integrator_bs.c", bl[2], "BS %d %d %.17g %d %d", "k, ri_bs->target_iter, error, ri_bs->previous_rejected, ri_bs->first_or_last_step")
                        + bp("integrator_bs.c", bl[3], "BE %d %d", "reject, k")
                        + "break reb_integrator_bs_step\ncommands\nsilent\nprintf \"BA %.17g\\n\", dt\ncontinue\nend\n"
                        + bp("integrator_bs.c", bl2[0], "BT %d %.17g", "k, dt")
                        + bp("integrator_bs.c", bl2[1], "BC %.17g %.17g %.17g %d", "dt, ri_bs->min_dt, ri_bs->max_dt, forward")
                        + bp("integrator_bs.c", bl2[2], "BP %.17g", "dt") + "run\nquit\n")
    iruns = [(m, e, mn, dt) for m in (0, 1, 2, 3) for e in (9, 6) for mn, dt in (("step", 1.5), ("unsync", -1.5), ("step", -1e-4))]   # large first step: rejections; tiny first step: growth limit
    bruns = [(e, dt, md, o1) for e in (5, 8, 11) for dt in (1.0, -1.0) for md, o1 in (("step", 0), ("unsync", 5))] + [(8, 0.3, "unsync", 30), (8, -0.004, "unsync", 2)]
    # mode "unsync" for ctl:bs: min_dt = 1e-3, max_dt = o1 * 0.01 (the first requested step may be above / below the limits)
    nsteps = ctx.scale(25, 120)
    with ThreadPoolExecutor(max_workers=vlib.JOBS) as ex:
        it = list(ex.map(lambda a: _gdb_run(exe, gi, ["ctl:ias15", str(a[0]), str(a[1]), str(nsteps), a[2], repr(a[3])], ("IE", "IT", "IR", "IJ", "IA")), iruns))
        bt = list(ex.map(lambda a: _gdb_run(exe, gb, ["ctl:bs", str(a[3]), str(a[0]), str(nsteps), a[2], repr(a[1])], ("BF", "BO", "BS", "BE", "BA", "BT", "BC", "BP")), bruns))
    for f in (gi, gb):
        try: os.remove(f)
        except OSError: pass
    H = lambda x: vlib.fhex(float(x))
    cases, labels, bad, nrej = [], [], [], 0
    for a, rows in zip(iruns, it):
        lab = "ias15 mode=%d eps=1e-%d min_dt=%s dt0=%g" % (a[0], a[1], "0.02" if a[2] == "unsync" else "0", a[3])
        if rows is None:
            bad.append((lab, "no trace")); continue
        try:
            k = 0
            while k + 2 <= len(rows) - 1:
                e, rr, fin = rows[k], rows[k + 1], rows[k + 2]
                if e[0] not in ("IE", "IT") or rr[0] != "IR" or fin[0] not in ("IJ", "IA"):
                    raise ValueError("unexpected row order %s %s %s" % (e[0], rr[0], fin[0]))
                est, eps, dtd = e[1], e[2], e[3]
                fn = "ias15F01" if e[0] == "IE" else "ias15F23"
                acc = fin[0] == "IA"; nrej += (not acc)
                cases.append(("(%s %s %s %s %s)" % (fn, H(eps), H(est), H(dtd), H(rr[2])), [float(rr[1]), 1.0 if acc else 0.0, float(fin[1])]))
                labels.append(lab)
                ctx.case(key=("ias15ctl", a[0], a[1], a[2], acc, float(fin[1]) > float(dtd)), sample={"ias15_controller": lab, "estimate": est, "dt_done": dtd, "accepted": acc, "dt_next": fin[1]} if len(cases) == 1 else None)
                k += 3
        except (ValueError, IndexError) as ex_:
            bad.append((lab, "unparsable trace %r" % (ex_,)))
    n_ias = len(cases)
    seq = [4 * k + 2 for k in range(9)]
    mm = re.search(r"Definition bs_constants : list \(Z \* Z\) := \[(.*?)\]\.", open(os.path.join(vlib.COQ, "Gen", "Schemes.v")).read())
    bsc = [int(a_) / int(b_) for a_, b_ in re.findall(r"\((-?\d+), (\d+)\)", mm.group(1))] if mm else []
    if len(bsc) != 7:
        ctx.obligation("correspondence:C01 BS constants regenerated", False, "bs_constants not found in Gen/Schemes.v")
        return
    nbrej = 0
    natt = 0
    for a, rows in zip(bruns, bt):
        lab = "bs eps=1e-%d dt0=%g limits=%s/%d" % a
        if rows is None:
            bad.append((lab, "no trace")); continue
        try:
            pend_s = []
            k = 0
            last_arg = None
            while k < len(rows):
                rw = rows[k]
                if rw[0] == "BA":
                    last_arg = float(rw[1]); k += 1
                elif rw[0] == "BT":
                    # the step attempted (column 0 of this call) is the step that was requested, bit for bit
                    if int(rw[1]) == 0:
                        natt += 1
                        if last_arg is None or float(rw[2]) != last_arg:
                            bad.append((lab, "reb_integrator_bs_step was asked for dt=%r but attempts dt=%s" % (last_arg, rw[2])))
                    k += 1
                elif rw[0] == "BC":
                    if k + 1 >= len(rows) or rows[k + 1][0] != "BP":
                        raise ValueError("BC without BP")
                    cases.append(("(bsF_clamp %s %s %s %s)" % (H(rw[2]), H(rw[3]), H(rw[1]), "true" if int(rw[4]) else "false"), [float(rows[k + 1][1])])); labels.append(lab)
                    ctx.case(key=("bsclamp", a[0], float(rw[2]) != 0, float(rw[1]) < float(rw[2]), float(rw[3]) != 0 and float(rw[1]) > float(rw[3])))
                    k += 2
                elif rw[0] == "BP":
                    k += 1          # the early "in case of early fail" assignment
                elif rw[0] == "BF":
                    if k + 1 >= len(rows) or rows[k + 1][0] != "BO":
                        raise ValueError("BF without BO")
                    # the two pow() results against the regenerated constants (same libm through Python's math.pow)
                    ex_ = 1.0 / (2 * int(rw[4]) + 1)
                    f0 = bsc[1] / math.pow(float(rw[3]) / bsc[0], ex_); pw = math.pow(bsc[2], ex_)
                    if abs(f0 - float(rw[1])) > 1e-12 * abs(f0) or abs(pw - float(rw[2])) > 1e-12 * pw:
                        bad.append((lab, "fac0/power %s %s differ from stepControl formula %r %r (k=%s, error=%s)" % (rw[1], rw[2], f0, pw, rw[4], rw[3])))
                    cases.append(("(bsF_opt 4 %s %s %s)" % (H(rw[1]), H(rw[2]), H(rw[5])), [float(rows[k + 1][1])])); labels.append(lab)
                    ctx.case(key=("bsfac", a[0], int(rw[4]), float(rw[3]) > 1.0))
                    k += 2
                elif rw[0] == "BS":
                    pend_s.append(rw); k += 1
                elif rw[0] == "BE":
                    rej, kk = int(rw[1]), int(rw[2])
                    for j, srow in enumerate(pend_s):
                        ks, tg, err, pr, fl = int(srow[1]), int(srow[2]), float(srow[3]), int(srow[4]), int(srow[5])
                        dd = ks - tg
                        if dd == -1:
                            rt = (float(seq[tg]) * seq[tg + 1]) / (seq[0] * seq[0])
                        elif dd == 0:
                            rt = float(seq[ks + 1]) / seq[0]
                        else:
                            rt = 0.0
                        last = j == len(pend_s) - 1
                        if last and ks != kk:
                            continue        # the loop was left through the stability / 1e25 path after this column
                        exp_ = [0.0, float(rej)] if last else [1.0, 0.0]
                        cases.append(("(bsF_dec (%d) %s %s %s %s %s)" % (dd, H(err), H(rt * rt), "true" if tg > 1 else "false", "true" if pr else "false", "true" if fl else "false"), exp_))
                        labels.append(lab)
                        ctx.case(key=("bsdec", a[0], dd, err > 1.0, bool(pr), bool(fl), tuple(exp_)))
                    nbrej += rej
                    pend_s = []; k += 1
                else:
                    k += 1
        except (ValueError, IndexError) as ex_:
            bad.append((lab, "unparsable trace %r" % (ex_,)))
    jobs = []
    chunk = 150
    for c0 in range(0, len(cases), chunk):
        body = ("From Coq Require Import List ZArith Bool PrimFloat.\nFrom RV Require Import Common.FloatNum C01.StepCtlRun.\n"
                "Import ListNotations.\nOpen Scope float_scope.\nDefinition cases : list (list float * list float) := [\n")
        body += ";\n".join("(%s, %s)" % (t, vlib.flist(e)) for t, e in cases[c0:c0 + chunk])
        body += "].\nEval vm_compute in (bad_cases cases).\n"
        jobs.append(("c01_ctl_%d" % (c0 // chunk), body))
    for (name, ok, out), c0 in zip(vlib.coq_eval_many(jobs), range(0, len(cases), chunk)):
        b = vlib.parse_coq_list_nat(out) if ok else None
        if b is None:
            bad.append((name, out[-600:]))
        else:
            bad += [(labels[c0 + x], "model differs from the library: %s expected %s" % (cases[c0 + x][0][:120], cases[c0 + x][1])) for x in b]
    if not bad:
        ctx.traces += len(cases)
    ctx.obligation("correspondence:C01 step-size controllers model(binary64) == library, bit-for-bit: %d IAS15 decisions (%d rejections), %d BS factor/decision records (%d rejections)"
                   % (n_ias, nrej, len(cases) - n_ias, nbrej), not bad and n_ias > 50 and nrej > 0 and len(cases) - n_ias > 50, "; ".join("%s: %s" % b_ for b_ in bad[:5]) or "too few records")
    ctx.extra["bs_attempted_equals_requested_checked"] = natt
    ctx.extra["controller_records"] = {"ias15": n_ias, "ias15_rejections": nrej, "bs": len(cases) - n_ias, "bs_rejections": nbrej}


def history_probes(ctx, libdir):
    """BS with a user ODE (needs_nbody 0/1) -> every other integrator -> BS again -> the other integrator backwards, on ONE simulation
    object, each in its own child process: nothing may crash, the ODE solution must stay accurate."""
    others = ["whfast", "saba", "leapfrog", "mercurius", "ias15", "trace", "eos", "janus", "sei", "none"]
    jobs = [(nb, o) for nb in (0, 1) for o in others] + [("n0", o) for o in others + ["bs"]]
    def one(j):
        try:
            return vlib.run_py(libdir, os.path.join(HERE, "c01_history_probe.py"), list(j), timeout=60)
        except subprocess.TimeoutExpired:
            return None
    with ThreadPoolExecutor(max_workers=vlib.JOBS) as ex:
        res = list(ex.map(one, jobs))
    for (nb, o), r in zip(jobs, res):
        key = ("history:bs-user-ode(needs_nbody=%d)->%s->bs" % (nb, o)) if nb != "n0" else "corner:N=0/%s" % o
        ctx.case(key=key)
        if r is None:
            if len([v for v in ctx.violations if "probe hangs" in v["what"]]) < 4:
                ctx.violation(key, {"needs_nbody": nb, "integrator": o, "what": "no result within 60 s", "script": "tools/c01_history_probe.py %s %s" % (nb, o)}, True, "history probe hangs")
            continue
        if r.returncode < 0 or r.returncode >= 128:
            ctx.violation(key, {"needs_nbody": nb, "integrator": o, "status": r.returncode, "stderr": r.stderr[-600:],
                                "script": "tools/c01_history_probe.py %s %s" % (nb, o)}, True,
                          ("the library crashed (status %d) when a simulation with a BS user ODE was switched to %s" % (r.returncode, o)) if nb != "n0"
                          else "the library crashed (status %d) stepping an EMPTY simulation (N=0) with integrator %s" % (r.returncode, o))
            continue
        try:
            d = json.loads(r.stdout.strip().splitlines()[-1])
        except (ValueError, IndexError):
            if o in ("sei", "none") and r.returncode != 0:
                continue      # integrators that cannot run this system raise a Python exception: not a finding
            ctx.violation(key, {"needs_nbody": nb, "integrator": o, "stdout": r.stdout[-300:], "stderr": r.stderr[-600:]}, True, "history probe failed"); continue
        if not d["ok"] and o not in ("sei", "none"):
            ctx.violation(key, d, True, "user ODE inaccurate after switching integrators on one simulation object")


def search(ctx, libdir, only=None):
    """the library-only searcher, one child process per group (in parallel); every scenario writes a heartbeat line first, so that a
    hang (per-group wall-clock limit) or a crash of the library is reported with the concrete input that was running."""
    groups = ["lattice", "adaptive", "ode", "bsopt", "warn", "history", "corners"] if not only else ["lattice"]
    limit = ctx.scale(150, 1500)       # quick-tier groups normally need 5..30 s each, also on a loaded machine
    d = os.path.join(vlib.BUILD, "c01drv"); os.makedirs(d, exist_ok=True)
    def one(g):
        prog = os.path.join(d, "progress_%s_%d.jsonl" % (g, os.getpid()))
        try: os.remove(prog)
        except OSError: pass
        env = dict(vlib.pyenv(libdir), C01_GROUP=g, C01_PROGRESS=prog)
        args = [vlib.PY, os.path.join(HERE, "c01_search.py"), str(ctx.seed), ctx.tier] + ([only] if only else [])
        for attempt in (0, 1):
            try:
                r = subprocess.run(args, env=env, capture_output=True, text=True, timeout=limit)
                status, out, errt = r.returncode, r.stdout, r.stderr
            except subprocess.TimeoutExpired:
                status, out, errt = "timeout", "", ""
            if status == 0 or status == "timeout" or (isinstance(status, int) and status < 0) or attempt == 1:
                break
            env = dict(vlib.pyenv(ctx.lib()), C01_GROUP=g, C01_PROGRESS=prog)     # library directory purged by a concurrent check: retry once
        last = None
        try:
            lines = open(prog).read().strip().splitlines()
            last = json.loads(lines[-1]) if lines else None
            os.remove(prog)
        except (OSError, ValueError):
            pass
        return g, status, out, errt, last
    with ThreadPoolExecutor(max_workers=len(groups)) as ex:
        results = list(ex.map(one, groups))
    res = {"points": [], "failures": []}
    for g, status, out, errt, last in results:
        if status == 0:
            try:
                part = json.loads(out)
            except ValueError:
                ctx.obligation("searcher:C01 group %s output" % g, False, out[-500:] + errt[-500:]); continue
            res["points"] += part["points"]; res["failures"] += part["failures"]
        elif status == "timeout":
            nm = (last or {}).get("name", "?")
            ctx.violation("hang:" + nm, dict(last or {}, group=g, wall_clock_limit_s=limit), True,
                          "the library did not return within %d s while running scenario %s (group %s)" % (limit, nm, g))
        elif isinstance(status, int) and (status < 0 or status >= 128):
            nm = (last or {}).get("name", "?")
            ctx.violation("crash:" + nm, dict(last or {}, group=g, status=status, stderr=errt[-600:]), True,
                          "the library crashed (status %s) while running scenario %s" % (status, nm))
        else:
            ctx.obligation("searcher:C01 group %s completed" % g, False, (out + errt)[-1500:])
    dist = {}
    for p in res["points"]:
        fam = p["name"].split("/")[0]
        dist[fam] = dist.get(fam, 0) + 1
        ctx.case(key=("order", p["name"], p.get("sign", 1), p.get("system_seed")), nontrivial=p.get("judged") != ["floor"],
                 sample={k: p[k] for k in ("name", "errors", "slopes", "pmin") if k in p} if len(ctx.samples) < 5 else None)
    ctx.extra.setdefault("input_distribution", {}).update({"searcher:" + k: v for k, v in sorted(dist.items())})
    seen = set()
    for f in res["failures"]:
        if f["name"] in seen or len(seen) >= 12:
            continue
        seen.add(f["name"])
        ctx.violation("order:" + f["name"], dict(f, seed=ctx.seed, tier=ctx.tier), True,
                      "measured convergence order / accuracy below the advertised one at lattice point %s" % f["name"])
    return res


def run(ctx):
    libdir = ctx.lib()
    regen_ok = ctx.regen("translate_schemes.py")
    # coqchk (thorough tier) re-evaluates every vm_compute cast WITHOUT the virtual machine: for the order-condition files
    # (about 5 CPU-minutes inside the VM) it does not finish within vlib's 40 minute limit (measured: > 30 min), so the generic
    # coqchk of RV.C01.Props is switched off and replaced by a coqchk of the modules that contain the non-computational proofs.
    os.environ["VERIF_COQCHK"] = "0"
    proved = ctx.prove("C01", extra_targets=["C01/JerkRun.vo", "C01/OdeLoopRun.vo", "C01/StepCtlRun.vo"], timeout=1200)
    if ctx.thorough and proved:
        mods = ["RV.C01.JerkProofs", "RV.C01.JerkDeriv", "RV.C01.OdeLoopProofs"]
        r = subprocess.run(["timeout", "1200", "coqchk", "-silent", "-o", "-Q", ".", "RV"] + sum([["-norec", m] for m in mods], []),
                           cwd=vlib.COQ, capture_output=True, text=True)
        out = r.stdout + r.stderr
        ctx.obligation("coqchk -norec %s (independent checker on the non-computational proofs; the vm_compute files are out of its reach)" % " ".join(mods),
                       r.returncode == 0, out[-1500:])
        ctx.trusted.append("coqchk NOT run on the vm_compute order-condition files (it has no VM: > 30 min measured); run with -norec on %s" % ", ".join(mods))
    if regen_ok:
        correspondence(ctx, libdir)
    jerk_correspondence(ctx, libdir)
    ode_loop_correspondence(ctx)
    controller_correspondence(ctx)
    history_probes(ctx, libdir)
    search(ctx, libdir)
    ctx.rule = ("proof: finite, exhaustive over the schemes listed in coq/C01/Props.v. correspondence: one gdb-traced run per "
                "(integrator, type/kernel/corrector/phi0/phi1/n, step | step,step,synchronize, sign of dt); distinct by label. searcher: one "
                "lattice point x system x sign of dt x (h, h/2, h/4); a point is non-trivial when its errors are above the rounding floor "
                "(counted as distinct by (name, sign, system))")
    ctx.assumptions += [
        "order conditions are decided for the exact decimal coefficients of the source (binary64 rounding of the tables and of dt*c products is outside the theorems)",
        "the step from 'order conditions hold modulo the graded ideal' to 'global error O(h^p) for every collision-free initial condition' is the textbook theorem (Hairer-Lubich-Wanner III), not proved here",
        "that the traced functions implement exp(cA), exp(cB) for the intended Hamiltonian pieces is C02/C03/C12's business; in democratic-heliocentric/WHDS coordinates a third (jump) operator exists and is not in the two-letter algebra",
        "modified-kick / lazy / corrector variants (SABA CM/CL, WHFast MODIFIEDKICK/LAZY kernels, corrector2, EOS PMLF4/PMLF6), IAS15/BS error control, MERCURIUS/TRACE switching and user ODEs are covered by the measured-order searcher only",
    ]


def replay(ctx, rep):
    libdir = ctx.lib()
    r = rep.get("replay", rep)
    name = r.get("name")
    ctx.seed = r.get("seed", ctx.seed); ctx.tier = r.get("tier", ctx.tier)
    res = search(ctx, libdir, only=name)
    print(json.dumps(res["failures"] if res else None, indent=1))
    return 1 if (res is None or res["failures"]) else 0
