(* C09: how far WHFast's second corrector is from being inverted by its own "inverse", in the graded free algebra of
   C01 (letters A = Kepler drift, B = interaction kick; a word of length n with k letters B carries h^n eps^k, where
   h = dt and eps = planet/star mass ratio).  The word is regenerated from the C source (Gen/Schemes.v,
   C01/ModelX.corrector2_word).  In safe mode WHFast applies, between two steps, synchronize's
   reb_whfast_apply_corrector2(r,-1.) followed by part1's reb_whfast_apply_corrector2(r,1.); with safe_mode = 0 it
   applies neither. *)
From Coq Require Import List ZArith Bool.
From RV Require Import Gen.Schemes C01.FreeAlg C01.Model C01.FreeAlgX C01.ModelX.
Import ListNotations.

Definition c2_inverse_then_forward : scheme := corrector2_word false ++ corrector2_word true.
Definition c2_forward_then_inverse : scheme := corrector2_word true ++ corrector2_word false.

(* the product is the identity on all words with one B up to length 8 and on all words of length <= 3 ... *)
Lemma c2_identity_to_h3 :
  same_element (gr [8; 3; 3]%nat) c2_inverse_then_forward [] = true /\
  same_element (gr [8; 3; 3]%nat) c2_forward_then_inverse [] = true.
Proof. split; vm_compute; reflexivity. Qed.
(* ... and it is NOT the identity on the words of length 4 with two B: the defect is exactly of size eps^2 h^4 *)
Lemma c2_defect_at_eps2_h4 :
  same_element (gr [4; 4; 2]%nat) c2_inverse_then_forward [] = false /\
  same_element (gr [4; 4; 2]%nat) c2_forward_then_inverse [] = false.
Proof. split; vm_compute; reflexivity. Qed.
(* contrast: the word with the U factors inverted and reversed is the exact inverse (every grading tried) *)
Lemma c2_exact_inverse_word :
  same_element (gr [8; 6; 4]%nat) (corrector2_word true ++ inv_word (corrector2_word true)) [] = true.
Proof. vm_compute. reflexivity. Qed.
