(* C09: instances used by the correspondence check and by the _refuted witnesses.
   (1) LOGGING instance over binary64: P = J = list of operator events.  Every operator appends its own event to
       the history of the value(s) it reads (binary operators: to the longer history, the shorter one must be one of
       its subsequences, which the harness checks).  Before each API call the histories are cleared, so that after
       the call the longer of (history of particles, history of p_jh) is the sequence of operator calls the model
       performs for that API call, with the arguments computed in binary64 exactly as the C expressions.  This is
       compared with the gdb trace of the library.
   (2) a small integer instance satisfying all flow laws, for the refuted statements. *)
From Coq Require Import ZArith List Bool PrimFloat.
From RV Require Import Common.Num Common.FloatNum C09.Model.
Import ListNotations.

Inductive ev :=
| EK (t : float) | EC (t : float) | EJ (t : float) | EI (t : float) | EIMK (t : float) | EILAZY (t : float)
| EREPOS | ETI | ETIS | EFI | ECORR (fwd : bool) (order : nat) | ECORR2 (fwd : bool) | EVC (t : float) | EVTI1 | EVTI
| ESCORR (cc : float)
| EMI (t : float) | EMJ (t : float) | EMC (t : float) | EMK (t : float) | EMENC (t : float) | EMDH | EMIN | EMDCRIT
| ED0 (t : float) | EMID | EPRE | EPOST.

Definition ev_eqb (a b : ev) : bool :=
  match a, b with
  | EK x, EK y | EC x, EC y | EJ x, EJ y | EI x, EI y | EIMK x, EIMK y | EILAZY x, EILAZY y | EVC x, EVC y
  | ESCORR x, ESCORR y | EMI x, EMI y | EMJ x, EMJ y | EMC x, EMC y | EMK x, EMK y | EMENC x, EMENC y | ED0 x, ED0 y => same x y
  | EREPOS, EREPOS | ETI, ETI | ETIS, ETIS | EFI, EFI | EVTI1, EVTI1 | EVTI, EVTI | EMDH, EMDH | EMIN, EMIN
  | EMDCRIT, EMDCRIT | EMID, EMID | EPRE, EPRE | EPOST, EPOST => true
  | ECORR f n, ECORR g m => Bool.eqb f g && Nat.eqb n m
  | ECORR2 f, ECORR2 g => Bool.eqb f g
  | _, _ => false
  end.
Fixpoint evs_eqb (a b : list ev) : bool :=
  match a, b with
  | [], [] => true
  | x :: r, y :: s => ev_eqb x y && evs_eqb r s
  | _, _ => false
  end.
Fixpoint subseq (a b : list ev) : bool :=       (* a is a subsequence of b *)
  match a, b with
  | [], _ => true
  | _, [] => false
  | x :: r, y :: s => if ev_eqb x y then subseq r s else subseq a s
  end.
Definition H := list ev.
Definition longer (a b : H) : H := if Nat.leb (length a) (length b) then b else a.
(* sequential trace of one API call from the two histories; None if they are not nested *)
Definition call_trace (hp hj : H) : option H :=
  let l := longer hp hj in
  if subseq hp l && subseq hj l then Some l else None.

(* ---------------------------------------------------------------- WHFast *)
Definition WLog : @WOps float H H := {|
  kepler := fun t j => j ++ [EK t];
  com := fun t j => j ++ [EC t];
  jump := fun t j => j ++ [EJ t];
  interaction := fun t p j => longer p j ++ [EI t];
  interaction_mk := fun t p j => longer p j ++ [EIMK t];
  interaction_lazy := fun t p j => (longer p j ++ [EILAZY t], longer p j ++ [EILAZY t]);
  repos := fun j p => longer p j ++ [EREPOS];
  to_inertial := fun j => j ++ [ETI];
  var_to_inertial1 := fun j p => longer p j ++ [EVTI1];
  to_inertial_sync := fun j => j ++ [ETIS];
  from_inertial := fun p => p ++ [EFI];
  corrector := fun f n j => j ++ [ECORR f n];
  corrector2 := fun f j => j ++ [ECORR2 f];
  var_com := fun t j => j;          (* inline arithmetic in part1/part2: no function call that could be traced *)
  var_to_inertial := fun j p => longer p j ++ [EVTI]
|}.

Definition clear_w (s : @wst H H) : @wst H H :=
  {| part := []; pjh := []; is_sync := is_sync s; recalc := recalc s; alloc := alloc s |}.

(* flags as the library exposes them: is_synchronized, recalculate_coordinates_this_timestep, safe_mode, keep_unsynchronized *)
Definition w_flags (cs : wcfg * @wst H H) : list bool :=
  let '(c, s) := cs in [is_sync s; recalc s; w_safe c; w_keep c].

(* one API call = a list of atomic calls (Integrate n = n steps, then synchronize: the definition of w_api); the
   histories are cleared before each atomic call and the per-call traces concatenated *)
Definition w_atomic (k : call) : list call :=
  match k with Integrate n => repeat Step n ++ [Synchronize] | _ => [k] end.
(* API calls of the correspondence: the calls of the model, plus integrate with exact_finish_time = 1
   (n full steps, synchronize, one step of dt', synchronize with dt': Model.w_integrate_exact) *)
Inductive wx := WX (k : call) | WXExact (n : nat) (dt' : float).
Definition wx_atoms (dt : float) (k : wx) : list (float * call) :=
  match k with
  | WX k => map (pair dt) (w_atomic k)
  | WXExact n dt' => map (pair dt) (repeat Step n ++ [Synchronize]) ++ [(dt', Step); (dt', Synchronize)]
  end.
Fixpoint w_atoms (cs : wcfg * @wst H H) (l : list (float * call)) (acc : option H) : (wcfg * @wst H H) * option H :=
  match l with
  | [] => (cs, acc)
  | (dt, k) :: r =>
      let cs1 := w_api FNum WLog dt (fst cs, clear_w (snd cs)) k in
      let acc1 := match acc, call_trace (part (snd cs1)) (pjh (snd cs1)) with
                  | Some a, Some b => Some (a ++ b) | _, _ => None end in
      w_atoms cs1 r acc1
  end.
Fixpoint w_trace (dt : float) (cs : wcfg * @wst H H) (w : list wx) : list (option H * list bool) :=
  match w with
  | [] => []
  | k :: r =>
      let '(cs1, tr) := w_atoms cs (wx_atoms dt k) (Some []) in
      (tr, w_flags cs1) :: w_trace dt cs1 r
  end.

Definition w_fresh : @wst H H := {| part := []; pjh := []; is_sync := true; recalc := false; alloc := false |}.

(* expected: per call, (trace, flags); returns the indices of the calls that differ *)
Fixpoint bools_eqb (a b : list bool) : bool :=
  match a, b with [], [] => true | x :: r, y :: s => Bool.eqb x y && bools_eqb r s | _, _ => false end.
Definition drop_vc (h : H) : H := filter (fun e => match e with EVC _ => false | _ => true end) h.
(* expected entry: (trace, flags, compare_trace?) *)
Fixpoint cmp_from (n : nat) (m : list (option H * list bool)) (e : list (H * list bool * bool)) : list nat :=
  match m, e with
  | [], [] => []
  | (oh, f) :: r, (h', f', chk) :: s =>
      let tr_ok := if chk then match oh with Some h => evs_eqb (drop_vc h) h' | None => false end else true in
      if tr_ok && bools_eqb f f' then cmp_from (S n) r s else n :: cmp_from (S n) r s
  | _, _ => [n]
  end.
Definition w_bad (dt : float) (c : wcfg) (w : list wx) (expected : list (H * list bool * bool)) : list nat :=
  cmp_from 0 (w_trace dt (c, w_fresh) w) expected.

(* ---------------------------------------------------------------- SABA *)
Definition SLog : @SOps float H H := {|
  s_kepler := fun t j => j ++ [EK t];
  s_com := fun t j => j ++ [EC t];
  s_interaction := fun t p j => longer p j ++ [EI t];
  s_repos := fun j p => longer p j ++ [EREPOS];
  s_to_inertial := fun j => j ++ [ETI];
  s_to_inertial_sync := fun j => j ++ [ETIS];
  s_from_inertial := fun p => p ++ [EFI];
  s_corrector := fun cc j => j ++ [ESCORR cc]
|}.
Definition clear_s (s : @sst H H) : @sst H H :=
  {| spart := []; spjh := []; s_is_sync := s_is_sync s; s_recalc := s_recalc s; s_alloc := s_alloc s; s_crashed := s_crashed s |}.
Definition s_flags (c : @scfg float) (s : @sst H H) : list bool := [s_is_sync s; s_recalc s; s_safe c; s_keep c].
Definition s_atomic (k : scall) : list scall :=
  match k with SIntegrate n => repeat SStep n ++ [SSynchronize] | _ => [k] end.
Inductive sx := SX (k : scall) | SXExact (n : nat) (dt' : float).
Definition sx_atoms (dt : float) (k : sx) : list (float * scall) :=
  match k with
  | SX k => map (pair dt) (s_atomic k)
  | SXExact n dt' => map (pair dt) (repeat SStep n ++ [SSynchronize]) ++ [(dt', SStep); (dt', SSynchronize)]
  end.
Fixpoint s_atoms (c : @scfg float) (s : @sst H H) (l : list (float * scall)) (acc : option H) : @sst H H * option H :=
  match l with
  | [] => (s, acc)
  | (dt, k) :: r =>
      let s1 := s_api FNum SLog dt c (clear_s s) k in
      let acc1 := match acc, call_trace (spart s1) (spjh s1) with Some a, Some b => Some (a ++ b) | _, _ => None end in
      s_atoms c s1 r acc1
  end.
Fixpoint s_trace (dt : float) (c : @scfg float) (s : @sst H H) (w : list sx) : list (option H * list bool) :=
  match w with
  | [] => []
  | k :: r =>
      let '(s1, tr) := s_atoms c s (sx_atoms dt k) (Some []) in
      (tr, s_flags c s1) :: s_trace dt c s1 r
  end.
Definition s_fresh : @sst H H :=
  {| spart := []; spjh := []; s_is_sync := true; s_recalc := false; s_alloc := false; s_crashed := false |}.
Definition s_bad (dt : float) (c : @scfg float) (w : list sx) (expected : list (H * list bool * bool)) : list nat :=
  cmp_from 0 (s_trace dt c s_fresh w) expected.

(* ---------------------------------------------------------------- MERCURIUS *)
Definition MLog : @MOps float H unit := {|
  m_interaction := fun t p => p ++ [EMI t];
  m_jump := fun t p => p ++ [EMJ t];
  m_com := fun t p => p ++ [EMC t];
  m_kepler := fun t p => p ++ [EMK t];
  m_encounter := fun t _ p => p ++ [EMENC t];
  m_to_dh := fun p => p ++ [EMDH];
  m_to_inertial := fun p => p ++ [EMIN];
  m_dcrit := fun _ => tt
|}.
Inductive mcall := MStep | MSync | MNop.
Definition m_api (dt : float) (safe : bool) (s : @mst H unit) (k : mcall) : @mst H unit :=
  match k with MStep => m_step FNum MLog dt safe s | MSync => m_sync FNum MLog dt s | MNop => s end.
Definition clear_m (s : @mst H unit) : @mst H unit :=
  {| mp := []; md := tt; m_is_sync := m_is_sync s; m_recalc := m_recalc s; m_recalc_rcrit := m_recalc_rcrit s; m_alloc := m_alloc s |}.
Fixpoint m_trace (dt : float) (safe : bool) (s : @mst H unit) (w : list mcall) : list (option H * list bool) :=
  match w with
  | [] => []
  | k :: r =>
      let s1 := m_api dt safe (clear_m s) k in
      (Some (mp s1), [m_is_sync s1; m_recalc s1; safe]) :: m_trace dt safe s1 r
  end.
Definition m_fresh : @mst H unit :=
  {| mp := []; md := tt; m_is_sync := true; m_recalc := false; m_recalc_rcrit := false; m_alloc := false |}.
Definition m_bad (dt : float) (safe : bool) (w : list mcall) (expected : list (H * list bool * bool)) : list nat :=
  cmp_from 0 (m_trace dt safe m_fresh w) expected.

(* ---------------------------------------------------------------- EOS *)
Definition ELog : @EOps float H := {|
  e_drift0 := fun t p => p ++ [ED0 t];
  e_middle := fun p => p ++ [EMID];
  e_pre := fun p => p ++ [EPRE];
  e_post := fun p => p ++ [EPOST]
|}.
Definition e_api (a0dt : float) (safe : bool) (s : @est H) (k : mcall) : @est H :=
  match k with MStep => e_part2 FNum ELog a0dt safe s | MSync => e_sync ELog a0dt s | MNop => s end.
Fixpoint e_trace (a0dt : float) (safe : bool) (s : @est H) (w : list mcall) : list (option H * list bool) :=
  match w with
  | [] => []
  | k :: r =>
      let s1 := e_api a0dt safe {| ep := []; e_is_sync := e_is_sync s |} k in
      (Some (ep s1), [e_is_sync s1; safe]) :: e_trace a0dt safe s1 r
  end.
Definition e_bad (a0dt : float) (safe : bool) (w : list mcall) (expected : list (H * list bool * bool)) : list nat :=
  cmp_from 0 (e_trace a0dt safe {| ep := []; e_is_sync := true |} w) expected.

(* ---------------------------------------------------------------- a law-abiding integer instance
   J = P = (x, y): x = position of the centre of mass of the real particles (unit velocity), y = position of the
   centre of mass of the variation (unit velocity).  Kepler, jump, kicks, correctors and coordinate changes are the
   identity; com and var_com are the exact free drifts.  T = Z, dt = 2. *)
Definition ZNum : Num Z := {|
  nzero := 0%Z; none := 1%Z; nadd := Z.add; nsub := Z.sub; nmul := Z.mul; ndiv := Z.div; nneg := Z.opp;
  nsqrt := Z.sqrt; nabs := Z.abs; nltb := Z.ltb; nleb := Z.leb; neqb := Z.eqb; nofZ := fun z => z; nisnan := fun _ => false |}.
Definition ZZ := (Z * Z)%type.
Definition WToy : @WOps Z ZZ ZZ := {|
  kepler := fun _ j => j; com := fun t j => (fst j + t, snd j)%Z; jump := fun _ j => j;
  interaction := fun _ _ j => j; interaction_mk := fun _ _ j => j; interaction_lazy := fun _ p j => (p, j);
  repos := fun _ p => p; to_inertial := fun j => j; var_to_inertial1 := fun j p => (fst p, snd j);
  to_inertial_sync := fun j => j; from_inertial := fun p => p;
  corrector := fun _ _ j => j; corrector2 := fun _ j => j;
  var_com := fun t j => (fst j, snd j + t)%Z; var_to_inertial := fun j p => (fst p, snd j) |}.
Definition toy_cfg (safe keep var : bool) : wcfg :=
  {| w_safe := safe; w_keep := keep; w_kernel := KDefault; w_corr := 0; w_corr2 := false; w_coord := CJacobi; w_var := var |}.
Definition toy0 : @wst ZZ ZZ := {| part := (0, 0)%Z; pjh := (0, 0)%Z; is_sync := true; recalc := false; alloc := false |}.
Definition toy_final (safe keep var : bool) (n : nat) : ZZ :=
  let c := toy_cfg safe keep var in part (w_sync ZNum WToy 2%Z c (iter n (w_step ZNum WToy 2%Z c) toy0)).

(* exact finishing with keep_unsynchronized on the law-abiding instance: dt = 4, n = 3 full steps, last step dt' = 2 *)
Definition toy_exact (safe keep : bool) : ZZ :=
  let c := toy_cfg safe keep false in
  part (w_integrate_exact ZNum WToy 4%Z 2%Z 3 c toy0).

(* ---------------------------------------------------------------- WHFast512: flags only *)
Definition XUnit : @XOps float unit unit := {|
  x_kepler := fun _ j => j; x_com := fun _ j => j; x_jump := fun _ j => j; x_interaction := fun _ j => j;
  x_to_dh := fun _ => tt; x_to_inertial := fun _ => tt |}.
Fixpoint x_flags (keep gr : bool) (s : @xst unit unit) (w : list xcall) : list bool :=
  match w with
  | [] => []
  | k :: r => let s1 := x_api FNum XUnit 0x1p-3%float keep gr s k in x_is_sync s1 :: x_flags keep gr s1 r
  end.
Definition x_bad (keep gr : bool) (w : list xcall) (expected : list bool) : list nat :=
  let m := x_flags keep gr {| xpart := tt; xpjh := tt; x_is_sync := true |} w in
  let fix go (n : nat) (a b : list bool) : list nat :=
    match a, b with
    | [], [] => []
    | x :: r, y :: t => if Bool.eqb x y then go (S n) r t else n :: go (S n) r t
    | _, _ => [n]
    end in go 0%nat m expected.

(* ---------------------------------------------------------------- empty simulation (N = 0): Model.guarded true step = identity,
   i.e. a Step call behaves like a call that does not touch the integrator (GetParticles); N_allocated == N from the start *)
Lemma guarded_empty_is_identity {S : Type} (f : S -> S) (s : S) : guarded true f s = s.
Proof. reflexivity. Qed.
Definition w_fresh_empty : @wst H H := {| part := []; pjh := []; is_sync := true; recalc := false; alloc := true |}.
Definition w_empty_calls (w : list wx) : list wx := map (fun k => match k with WX Step => WX GetParticles | _ => k end) w.
Definition w_bad_empty (dt : float) (c : wcfg) (w : list wx) (expected : list (H * list bool * bool)) : list nat :=
  cmp_from 0 (w_trace dt (c, w_fresh_empty) (w_empty_calls w)) expected.
Definition s_fresh_empty : @sst H H :=
  {| spart := []; spjh := []; s_is_sync := true; s_recalc := false; s_alloc := true; s_crashed := false |}.
Definition s_empty_calls (w : list sx) : list sx := map (fun k => match k with SX SStep => SX SGetParticles | _ => k end) w.
Definition s_bad_empty (dt : float) (c : @scfg float) (w : list sx) (expected : list (H * list bool * bool)) : list nat :=
  cmp_from 0 (s_trace dt c s_fresh_empty (s_empty_calls w)) expected.
Definition m_fresh_empty : @mst H unit :=
  {| mp := []; md := tt; m_is_sync := true; m_recalc := false; m_recalc_rcrit := false; m_alloc := true |}.
Definition m_bad_empty (dt : float) (safe : bool) (w : list mcall) (expected : list (H * list bool * bool)) : list nat :=
  cmp_from 0 (m_trace dt safe m_fresh_empty (map (fun k => match k with MStep => MNop | _ => k end) w)) expected.
