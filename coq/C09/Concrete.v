(* C09: a concrete, fully proved instance of the refinement theorems over the reals.
   The operators are the exact-arithmetic drift and kick of src/integrator_leapfrog.c as modelled in C04/Model.v
   (C04.drift, C04.kick) with an ARBITRARY force law [acc] (accelerations as a function of the particles):
     - WHFast driver with  kepler := free drift,  interaction := kick with the forces at r->particles,
       identity coordinate maps and no correctors  =  a drift-kick-drift scheme whose two half drifts are merged
       when safe_mode is off;
     - MERCURIUS driver with  interaction := kick with a force law that reads positions only,  kepler := free drift
       =  a kick-drift-kick scheme whose two half kicks are merged.
   For these instances every flow law is PROVED, so deferred synchronisation = safe mode holds without hypotheses.
   What is still assumed for the true Wisdom-Holman operators is listed in Props.v. *)
From Coq Require Import ZArith List Reals Lra.
From RV Require C04.Model.
From RV Require Import Common.Num Common.RealNum C09.Model C09.Proofs.
Import ListNotations.
Open Scope R_scope.

Notation parts := (list (@C04.Model.part R)).
Notation vec3 := (@C04.Model.vec R).
Notation ldrift := (C04.Model.drift RNum).
Notation lkick := (C04.Model.kick RNum).
Import C04.Model(pm, px, py, pz, pvx, pvy, pvz, mkPart).

(* ---- additivity of the exact drift and of the exact kick at fixed accelerations *)
Lemma drift_add a b (ps : parts) : ldrift a (ldrift b ps) = ldrift (a + b) ps.
Proof.
  unfold C04.Model.drift. rewrite map_map. apply map_ext. intros p. cbn. f_equal; lra.
Qed.

Lemma kick_add a b : forall (ps : parts) (ac : list vec3),
  lkick a (lkick b ps ac) ac = lkick (a + b) ps ac.
Proof.
  induction ps as [|p r IH]; intros [|[[ax ay] az] ra]; cbn [C04.Model.kick]; try reflexivity.
  rewrite IH. cbn. f_equal. f_equal; lra.
Qed.

(* positions (and masses) of the particles: what a velocity-independent force law reads *)
Definition posm (ps : parts) : list (R * R * R * R) := map (fun p => (pm p, px p, py p, pz p)) ps.
Lemma kick_posm c : forall (ps : parts) ac, posm (lkick c ps ac) = posm ps.
Proof. induction ps as [|p r IH]; intros [|[[ax ay] az] ra]; cbn [C04.Model.kick posm map]; try reflexivity. f_equal. apply IH. Qed.

(* ---- WHFast driver as drift-kick-drift *)
Section DKD.
Context (acc : parts -> list vec3).       (* any force law, may depend on positions and velocities *)

Definition DKD : @WOps R parts parts := {|
  kepler := fun t j => ldrift t j;
  com := fun _ j => j;
  jump := fun _ j => j;
  interaction := fun t p j => lkick t j (acc p);
  interaction_mk := fun t p j => lkick t j (acc p);
  interaction_lazy := fun t p j => (p, lkick t j (acc p));
  repos := fun j _ => j;
  to_inertial := fun j => j;
  var_to_inertial1 := fun _ p => p;
  to_inertial_sync := fun j => j;
  from_inertial := fun p => p;
  corrector := fun _ _ j => j;
  corrector2 := fun _ j => j;
  var_com := fun _ j => j;
  var_to_inertial := fun _ p => p
|}.

Lemma dkd_from_to : forall j, from_inertial DKD (to_inertial_sync DKD j) = j. Proof. reflexivity. Qed.
Lemma dkd_corr : forall k j, corrector DKD true k (corrector DKD false k j) = j. Proof. reflexivity. Qed.
Lemma dkd_corr2 : forall j, corrector2 DKD true (corrector2 DKD false j) = j. Proof. reflexivity. Qed.
Lemma dkd_half dt : forall j, Model.drift DKD (half RNum dt) (Model.drift DKD (half RNum dt) j) = Model.drift DKD dt j.
Proof. intros j. unfold Model.drift, half, two. cbn [kepler com DKD]. rewrite drift_add. f_equal. cbn. lra. Qed.
Lemma dkd_comp dt : forall j, Model.drift DKD (dt58 RNum dt) (Model.drift DKD (dt38 RNum dt) j) = Model.drift DKD dt j.
Proof. intros j. unfold Model.drift, dt58, dt38, lit. cbn [kepler com DKD]. rewrite drift_add. f_equal. cbn. lra. Qed.

Theorem dkd_unsafe_eq_safe : forall dt (c : wcfg) (s0 : @wst parts parts) n,
  w_init_ok c = true -> w_var c = false -> coherent DKD s0 ->
  w_sync RNum DKD dt (with_mode c false false) (iter (S n) (w_step RNum DKD dt (with_mode c false false)) s0)
  = iter (S n) (w_step RNum DKD dt (with_mode c true false)) s0.
Proof.
  intros dt c s0 n h1 h2 h3.
  exact (unsafe_eq_safe_S RNum DKD dt dkd_from_to dkd_corr dkd_corr2 (dkd_half dt) (dkd_comp dt) c h1 h2 n s0 h3).
Qed.

Theorem dkd_unsafe_eq_safe_observed : forall dt (c : wcfg) (s0 : @wst parts parts) keep n,
  w_init_ok c = true -> w_var c = false -> coherent DKD s0 ->
  part (w_sync RNum DKD dt (with_mode c false keep) (iter n (w_step RNum DKD dt (with_mode c false keep)) s0))
  = part (iter n (w_step RNum DKD dt (with_mode c true false)) s0).
Proof.
  intros dt c s0 keep n h1 h2 h3.
  exact (unsafe_eq_safe_part RNum DKD dt dkd_from_to dkd_corr dkd_corr2 (dkd_half dt) (dkd_comp dt) c h1 h2 keep n s0 h3).
Qed.

(* the safe-mode step of this instance IS the leapfrog step of C04 (drift half, kick at the drifted positions, drift half) *)
Definition dkd_cfg (safe : bool) : wcfg :=
  {| w_safe := safe; w_keep := false; w_kernel := KDefault; w_corr := 0; w_corr2 := false; w_coord := CJacobi; w_var := false |}.
Lemma dkd_safe_step_is_leapfrog dt (ps : parts) :
  part (w_step RNum DKD dt (dkd_cfg true) {| part := ps; pjh := ps; is_sync := true; recalc := false; alloc := false |})
  = C04.Model.leapfrog_step RNum dt ps (acc (ldrift (C04.Model.half RNum * dt) ps)).
Proof.
  unfold C04.Model.leapfrog_step. cbn. unfold Model.half, two, C04.Model.half. cbn.
  replace (dt / (1 + 1)) with (1 / (1 + 1) * dt) by lra. reflexivity.
Qed.
End DKD.

(* ---- MERCURIUS driver as kick-drift-kick *)
Section KDK.
Context (accp : list (R * R * R * R) -> list vec3).    (* force law reading masses and positions only *)
Context (enc : R -> parts -> parts).                        (* anything in the middle of the step *)

Definition KDK : @MOps R parts unit := {|
  m_interaction := fun t p => lkick t p (accp (posm p));
  m_jump := fun _ p => p;
  m_com := fun _ p => p;
  m_kepler := fun t p => ldrift t p;
  m_encounter := fun t _ p => enc t p;
  m_to_dh := fun p => p;
  m_to_inertial := fun p => p;
  m_dcrit := fun _ => tt
|}.

Lemma kdk_dh : forall p, m_to_dh KDK (m_to_inertial KDK p) = p. Proof. reflexivity. Qed.
Lemma kdk_kick dt : forall p,
  m_interaction KDK (mhalf RNum dt) (m_interaction KDK (mhalf RNum dt) p) = m_interaction KDK dt p.
Proof.
  intros p. cbn [m_interaction KDK]. rewrite kick_posm. rewrite kick_add. f_equal. unfold mhalf. cbn. lra.
Qed.

Theorem kdk_unsafe_eq_safe : forall dt (s0 : @mst parts unit) n, m_coherent s0 ->
  m_sync RNum KDK dt (iter (S n) (m_step RNum KDK dt false) s0) = iter (S n) (m_step RNum KDK dt true) s0.
Proof. intros dt s0 n h. exact (m_unsafe_eq_safe_S RNum KDK dt kdk_dh (kdk_kick dt) n s0 h). Qed.
End KDK.
