(* C09 property theorems ONLY (each closed by an already proved lemma) + assumptions.
   Reading: [w_step]/[s_step]/[m_step]/[e_part2] are reb_simulation_step for WHFast/SABA/MERCURIUS/EOS, [*_sync] is
   reb_simulation_synchronize, [part] the inertial particles the user sees, [pjh] the cached coordinates.  The
   operator laws are hypotheses (statements about the numerics, true in exact arithmetic for the Kepler/com drift,
   the coordinate maps and the first-order correctors; NOT true for WHFast's corrector2 and for EOS, see below);
   theorems (b) and (c) use no law at all and therefore hold for the binary64 operators bit for bit. *)
From Coq Require Import ZArith List Bool Lia.
From Coq Require Import Reals.
From RV Require C04.Model.
From RV Require Import C01.FreeAlg C01.ModelX.
From RV Require Import Common.Num Common.RealNum C09.Model C09.Proofs C09.Run C09.Concrete C09.ConcreteWH C09.Corrector2 C09.GetSim Gen.C09GetSim C09.Access Gen.C09Access.
Import ListNotations.

(* ------------------------------------------------------------------ (c) synchronize twice = once *)
Theorem C09_whfast_sync_idempotent : forall T (N : Num T) P J (O : @WOps T P J) dt (c : wcfg) (s : @wst P J),
  w_sync N O dt c (w_sync N O dt c s) = w_sync N O dt c s.
Proof. intros. apply w_sync_idem. Qed.
Print Assumptions C09_whfast_sync_idempotent.

Theorem C09_saba_sync_idempotent : forall T (N : Num T) P J (O : @SOps T P J) dt (c : @scfg T) (s : @sst P J),
  s_sync N O dt c (s_sync N O dt c s) = s_sync N O dt c s.
Proof. intros. apply s_sync_idem. Qed.
Print Assumptions C09_saba_sync_idempotent.

Theorem C09_mercurius_sync_idempotent : forall T (N : Num T) P D (O : @MOps T P D) dt (s : @mst P D),
  m_sync N O dt (m_sync N O dt s) = m_sync N O dt s.
Proof. intros. apply m_sync_idem. Qed.
Print Assumptions C09_mercurius_sync_idempotent.

Theorem C09_eos_sync_idempotent : forall T P (O : @EOps T P) a0dt (s : @est P),
  e_sync O a0dt (e_sync O a0dt s) = e_sync O a0dt s.
Proof. intros. apply e_sync_idem. Qed.
Print Assumptions C09_eos_sync_idempotent.

(* ------------------------------------------------------------------ corners excluded by hypotheses of the theorems below
   - [w_init_ok c = false] (configuration rejected by reb_integrator_whfast_init: correctors or non-default kernels with
     non-Jacobi coordinates, variational particles with them, invalid corrector order): synchronize and part1 return
     at once and change nothing, and so does part2 since 1b63af9 (theorem below: the whole step is inert).  The library reports
     an error at every call; after correcting the configuration the run continues like a fresh one (searcher scenario).
   - zero steps: C09_*_unsafe_eq_safe are stated for S n steps (the full states differ in alloc/recalc before the first
     step); the _observed versions cover n = 0.
   - [coherent] / [Good] start states: any synchronized state whose coordinates will be recomputed or are current; a
     synchronized state with a stale cache and no recalculation pending is what safe_mode = 0 documents as user error.
   - an EMPTY simulation (N = 0) is outside the model (it has no notion of N): the library dereferences particles[0] in
     step() for WHFast / SABA / MERCURIUS until bc4b9bb (reb_integrator_part1/part2 now return for N = 0, only time advances;
     no operator is called: the N = 0 corner of the searcher is the regression).
   - dt = 0, dt < 0, -0.0, subnormal / huge / non-finite dt and coordinates, N = 1, 2, massless or coincident bodies,
     e -> 1 and hyperbolic orbits: nothing in theorems (b), (c) excludes them (no law is used: bitwise, NaN included;
     exercised by the searcher's corner scenarios); theorems (a) need the flow laws, which for the concrete operators
     hold on the elliptic domain only ([wj_dom]): elsewhere only the numerical evidence of the searcher exists. *)
Theorem C09_whfast_rejected_configuration_is_inert :
  forall T (N : Num T) P J (O : @WOps T P J) dt (c : wcfg) (s : @wst P J),
  w_init_ok c = false -> w_sync N O dt c s = s /\ w_part1 N O dt c s = s /\ w_step N O dt c s = s.
Proof. intros T N P J O dt c s h. exact (w_rejected_inert N O dt c s h). Qed.
Print Assumptions C09_whfast_rejected_configuration_is_inert.

(* ------------------------------------------------------------------ (b) keep_unsynchronized: inserted calls are invisible.
   WHFast, every kernel / corrector / coordinate system accepted by reb_integrator_whfast_init, with or without
   variational particles (MEGNO branch of part2 included), ANY operators (no law), any start state, any sequence of
   Step / Integrate n / Synchronize / Save / Copy / Energy / GetParticles: the cache, the flags, what a synchronize
   would show and every later state are those of the bare step sequence. *)
Theorem C09_whfast_keep_unsync_transparent :
  forall T (N : Num T) P J (O : @WOps T P J) dt (c : wcfg) (s0 : @wst P J) (w : list call),
  w_init_ok c = true -> w_safe c = false -> w_keep c = true -> no_setflag w ->
  let a := snd (w_run N O dt (c, s0) w) in
  let b := snd (w_run N O dt (c, s0) (steps_only w)) in
  pjh a = pjh b /\ is_sync a = is_sync b /\ recalc (w_init a) = recalc (w_init b) /\
  part (w_sync N O dt c a) = part (w_sync N O dt c b) /\
  forall m, iter (S m) (w_step N O dt c) a = iter (S m) (w_step N O dt c) b.
Proof. intros T N P J O dt c s0 w h1 h2 h3 h4. exact (w_keep_unsync_transparent N O dt c h1 h2 h3 s0 w h4). Qed.
Print Assumptions C09_whfast_keep_unsync_transparent.

(* SABA (every type): same, from any state that is synchronized (a fresh simulation included) or has a cache and no
   recalculation pending ([Good]; holds after any step and for a loaded snapshot).  [Good] cannot be dropped:
   reb_integrator_saba_part1 recomputes the coordinates of an unsynchronized state without synchronizing first. *)
Theorem C09_saba_keep_unsync_transparent :
  forall T (N : Num T) P J (O : @SOps T P J) dt (c : @scfg T) (s0 : @sst P J) (w : list scall),
  s_ok c = true -> s_safe c = false -> s_keep c = true -> Good s0 ->
  let a := s_run N O dt c s0 w in
  let b := s_run N O dt c s0 (s_steps_only w) in
  spjh a = spjh b /\ s_is_sync a = s_is_sync b /\ s_recalc a = s_recalc b /\ s_crashed a = s_crashed b /\
  spart (s_sync N O dt c a) = spart (s_sync N O dt c b) /\
  forall m, iter (S m) (s_step N O dt c) a = iter (S m) (s_step N O dt c) b.
Proof. intros T N P J O dt c s0 w h1 h2 h3 h4. exact (s_keep_unsync_transparent N O dt c h1 h2 h3 s0 w h4). Qed.
Print Assumptions C09_saba_keep_unsync_transparent.

(* synchronize on a synchronized SABA state (in particular before the first step, when the cache does not exist yet)
   does nothing at all, whatever keep_unsynchronized says.  (Until the fix "SABA synchronize copied the coordinate
   cache before checking that there is one" the cache was copied first: NULL dereference / leak; the library probe
   for that call is kept in the harness.) *)
Theorem C09_saba_sync_of_synchronized_is_identity :
  forall T (N : Num T) P J (O : @SOps T P J) dt (c : @scfg T) (s : @sst P J),
  s_is_sync s = true -> s_sync N O dt c s = s.
Proof. intros T N P J O dt c s h. unfold s_sync. rewrite h. reflexivity. Qed.
Print Assumptions C09_saba_sync_of_synchronized_is_identity.

(* ------------------------------------------------------------------ (a) safe mode off + synchronize at the end = safe mode *)
(* WHFast without variational particles, every kernel, first correctors of every order, second corrector, all
   coordinate systems, keep_unsynchronized 0 or 1; n >= 1 steps: the full states are equal *)
Theorem C09_whfast_unsafe_eq_safe :
  forall T (N : Num T) P J (O : @WOps T P J) dt (c : wcfg) (s0 : @wst P J) n,
  (forall j, from_inertial O (to_inertial_sync O j) = j) ->
  (forall k j, corrector O true k (corrector O false k j) = j) ->
  (forall j, corrector2 O true (corrector2 O false j) = j) ->
  (forall j, drift O (half N dt) (drift O (half N dt) j) = drift O dt j) ->
  (forall j, drift O (dt58 N dt) (drift O (dt38 N dt) j) = drift O dt j) ->
  w_init_ok c = true -> w_var c = false -> coherent O s0 ->
  w_sync N O dt (with_mode c false false) (iter (S n) (w_step N O dt (with_mode c false false)) s0)
  = iter (S n) (w_step N O dt (with_mode c true false)) s0.
Proof. intros T N P J O dt c s0 n l1 l2 l3 l4 l5 h1 h2 h3. exact (unsafe_eq_safe_S N O dt l1 l2 l3 l4 l5 c h1 h2 n s0 h3). Qed.
Print Assumptions C09_whfast_unsafe_eq_safe.

Theorem C09_whfast_unsafe_eq_safe_observed :
  forall T (N : Num T) P J (O : @WOps T P J) dt (c : wcfg) (s0 : @wst P J) keep n,
  (forall j, from_inertial O (to_inertial_sync O j) = j) ->
  (forall k j, corrector O true k (corrector O false k j) = j) ->
  (forall j, corrector2 O true (corrector2 O false j) = j) ->
  (forall j, drift O (half N dt) (drift O (half N dt) j) = drift O dt j) ->
  (forall j, drift O (dt58 N dt) (drift O (dt38 N dt) j) = drift O dt j) ->
  w_init_ok c = true -> w_var c = false -> coherent O s0 ->
  part (w_sync N O dt (with_mode c false keep) (iter n (w_step N O dt (with_mode c false keep)) s0))
  = part (iter n (w_step N O dt (with_mode c true false)) s0).
Proof. intros T N P J O dt c s0 keep n l1 l2 l3 l4 l5 h1 h2 h3. exact (unsafe_eq_safe_part N O dt l1 l2 l3 l4 l5 c h1 h2 keep n s0 h3). Qed.
Print Assumptions C09_whfast_unsafe_eq_safe_observed.

(* Variational particles are outside the general theorem (their centre-of-mass drift and the MEGNO branch need laws of
   their own).  On the law-abiding instance (free drift of the two centres of mass, everything else the identity) the
   three modes agree: 3 steps of dt = 2 give (6, 6) with safe mode, with deferred synchronisation and with
   keep_unsynchronized.  Until the fix "WHFast with keep_unsynchronized lost half of the drift of variational centres
   of mass" (aa357c1) the last value was (6, 3): the copy-back of the cache in the MEGNO branch of part2 discarded
   the half drift of the variation's centre of mass; the library probe for it is kept in the searcher. *)
Theorem C09_whfast_variational_keep_agrees_on_witness :
  (forall j, from_inertial WToy (to_inertial_sync WToy j) = j) /\
  (forall j, drift WToy (half ZNum 2%Z) (drift WToy (half ZNum 2%Z) j) = drift WToy 2%Z j) /\
  (forall j, var_com WToy (half ZNum 2%Z) (var_com WToy (half ZNum 2%Z) j) = var_com WToy 2%Z j) /\
  w_init_ok (toy_cfg false true true) = true /\ coherent WToy toy0 /\
  toy_final true false true 3 = (6, 6)%Z /\ toy_final false false true 3 = (6, 6)%Z /\
  toy_final false true true 3 = (6, 6)%Z /\ toy_final false true true 7 = toy_final true false true 7.
Proof.
  repeat split; try (intros [x y]; unfold drift, half, two; cbn; f_equal; lia); try (vm_compute; reflexivity).
  left. reflexivity.
Qed.

(* keep_unsynchronized = 1 together with safe_mode = 1 (reb_integrator_whfast_init only reports an error and
   continues): every step re-derives the coordinates from the synchronized particles and then applies the MERGED
   drift: half a step too much per step.  Same law-abiding instance: 8 instead of 6 after 3 steps. *)
Theorem C09_whfast_keep_with_safe_mode_refuted :
  toy_final true false false 3 = (6, 0)%Z /\ toy_final true true false 3 = (8, 0)%Z.
Proof. split; vm_compute; reflexivity. Qed.

(* SABA, every type (with and without correctors; 2*cc merged corrector, 2*c[0] merged drift) *)
Theorem C09_saba_unsafe_eq_safe :
  forall T (N : Num T) P J (O : @SOps T P J) dt (c : @scfg T) (s0 : @sst P J) n,
  s_ok c = true ->
  (forall j, s_from_inertial O (s_to_inertial_sync O j) = j) ->
  (forall j, sdrift O (c0dt N dt c) (sdrift O (c0dt N dt c) j) = sdrift O (c0dt2 N dt c) j) ->
  (forall j, s_corrector O (s_cc c) (s_corrector O (s_cc c) j) = s_corrector O (cc2 N c) j) ->
  s_coherent O s0 ->
  s_sync N O dt (s_with_mode c false false) (iter (S n) (s_step N O dt (s_with_mode c false false)) s0)
  = iter (S n) (s_step N O dt (s_with_mode c true false)) s0.
Proof. intros T N P J O dt c s0 n h l1 l2 l3 h3. exact (s_unsafe_eq_safe_S N O dt c h l1 l2 l3 n s0 h3). Qed.
Print Assumptions C09_saba_unsafe_eq_safe.

Theorem C09_saba_unsafe_eq_safe_observed :
  forall T (N : Num T) P J (O : @SOps T P J) dt (c : @scfg T) (s0 : @sst P J) keep n,
  s_ok c = true ->
  (forall j, s_from_inertial O (s_to_inertial_sync O j) = j) ->
  (forall j, sdrift O (c0dt N dt c) (sdrift O (c0dt N dt c) j) = sdrift O (c0dt2 N dt c) j) ->
  (forall j, s_corrector O (s_cc c) (s_corrector O (s_cc c) j) = s_corrector O (cc2 N c) j) ->
  s_coherent O s0 ->
  spart (s_sync N O dt (s_with_mode c false keep) (iter n (s_step N O dt (s_with_mode c false keep)) s0))
  = spart (iter n (s_step N O dt (s_with_mode c true false)) s0).
Proof. intros T N P J O dt c s0 keep n h l1 l2 l3 h3. exact (s_unsafe_eq_safe_part N O dt c h l1 l2 l3 keep n s0 h3). Qed.
Print Assumptions C09_saba_unsafe_eq_safe_observed.

(* MERCURIUS (kick-drift-kick; merged half kicks), any encounter operator in the middle of the step *)
Theorem C09_mercurius_unsafe_eq_safe :
  forall T (N : Num T) P D (O : @MOps T P D) dt (s0 : @mst P D) n,
  (forall p, m_to_dh O (m_to_inertial O p) = p) ->
  (forall p, m_interaction O (mhalf N dt) (m_interaction O (mhalf N dt) p) = m_interaction O dt p) ->
  m_coherent s0 ->
  m_sync N O dt (iter (S n) (m_step N O dt false) s0) = iter (S n) (m_step N O dt true) s0.
Proof. intros T N P D O dt s0 n l1 l2 h. exact (m_unsafe_eq_safe_S N O dt l1 l2 n s0 h). Qed.
Print Assumptions C09_mercurius_unsafe_eq_safe.

(* EOS: the same refinement, but its two laws hold only up to the truncation error of the embedded scheme
   (drift_shell0 is a composition; the processors are approximate inverses): "same trajectory up to the scheme's own
   truncation error" is judged numerically by the searcher, the theorem isolates exactly which two identities carry it. *)
Theorem C09_eos_unsafe_eq_safe_under_exact_drift :
  forall T (N : Num T) P (O : @EOps T P) a0dt (s0 : @est P) n,
  (forall p, e_pre O (e_post O p) = p) ->
  (forall p, e_drift0 O (nmul N a0dt (none N)) (e_drift0 O a0dt p) = e_drift0 O (nmul N a0dt (etwo N)) p) ->
  e_is_sync s0 = true ->
  e_sync O a0dt (iter n (e_part2 N O a0dt false) s0) = iter n (e_part2 N O a0dt true) s0.
Proof. intros T N P O a0dt s0 n l1 l2 h. exact (e_unsafe_eq_safe N O a0dt l1 l2 n s0 h). Qed.
Print Assumptions C09_eos_unsafe_eq_safe_under_exact_drift.

(* ------------------------------------------------------------------ a fully proved concrete instance (no hypotheses on operators)
   Operators: the exact-arithmetic drift and kick of src/integrator_leapfrog.c as modelled in C04/Model.v, ANY force law.
   The WHFast driver with kepler := free drift, interaction := kick, identity coordinate maps is a drift-kick-drift
   scheme with deferred half drifts; its safe-mode step is C04's leapfrog step.  All flow laws are proved (real
   arithmetic), so deferred synchronisation = safe mode unconditionally, for every kernel branch of the driver, every
   number of steps, keep_unsynchronized 0 or 1. *)
Theorem C09_dkd_unsafe_eq_safe :
  forall (acc : list (@C04.Model.part R) -> list (@C04.Model.vec R)) (dt : R) (c : wcfg) s0 n,
  w_init_ok c = true -> w_var c = false -> coherent (DKD acc) s0 ->
  w_sync RNum (DKD acc) dt (with_mode c false false) (iter (S n) (w_step RNum (DKD acc) dt (with_mode c false false)) s0)
  = iter (S n) (w_step RNum (DKD acc) dt (with_mode c true false)) s0.
Proof. exact dkd_unsafe_eq_safe. Qed.
Print Assumptions C09_dkd_unsafe_eq_safe.

Theorem C09_dkd_unsafe_eq_safe_observed :
  forall (acc : list (@C04.Model.part R) -> list (@C04.Model.vec R)) (dt : R) (c : wcfg) s0 keep n,
  w_init_ok c = true -> w_var c = false -> coherent (DKD acc) s0 ->
  part (w_sync RNum (DKD acc) dt (with_mode c false keep) (iter n (w_step RNum (DKD acc) dt (with_mode c false keep)) s0))
  = part (iter n (w_step RNum (DKD acc) dt (with_mode c true false)) s0).
Proof. exact dkd_unsafe_eq_safe_observed. Qed.
Print Assumptions C09_dkd_unsafe_eq_safe_observed.

Theorem C09_dkd_safe_step_is_leapfrog :
  forall (acc : list (@C04.Model.part R) -> list (@C04.Model.vec R)) (dt : R) ps,
  part (w_step RNum (DKD acc) dt (dkd_cfg true) {| part := ps; pjh := ps; is_sync := true; recalc := false; alloc := false |})
  = C04.Model.leapfrog_step RNum dt ps (acc (C04.Model.drift RNum (C04.Model.half RNum * dt)%R ps)).
Proof. exact dkd_safe_step_is_leapfrog. Qed.
Print Assumptions C09_dkd_safe_step_is_leapfrog.

(* the MERCURIUS driver with a kick whose force law reads masses and positions only: kick-drift-kick with merged half
   kicks, any operator in the middle of the step; unconditional. *)
Theorem C09_kdk_unsafe_eq_safe :
  forall accp enc (dt : R) s0 n, m_coherent s0 ->
  m_sync RNum (KDK accp enc) dt (iter (S n) (m_step RNum (KDK accp enc) dt false) s0)
  = iter (S n) (m_step RNum (KDK accp enc) dt true) s0.
Proof. exact kdk_unsafe_eq_safe. Qed.
Print Assumptions C09_kdk_unsafe_eq_safe.

(* ------------------------------------------------------------------ the refinement with laws only AT THE STATES OF THE RUN *)
Theorem C09_whfast_unsafe_eq_safe_pointwise :
  forall T (N : Num T) P J (O : @WOps T P J) dt (c : wcfg) (s0 : @wst P J) n,
  w_init_ok c = true -> w_var c = false -> coherent O s0 ->
  (forall k, (k < n)%nat -> law_at N O dt c (pjh (iter (S k) (w_step N O dt (with_mode c false false)) s0))) ->
  w_sync N O dt (with_mode c false false) (iter (S n) (w_step N O dt (with_mode c false false)) s0)
  = iter (S n) (w_step N O dt (with_mode c true false)) s0.
Proof. intros T N P J O dt c s0 n h1 h2 h3 h4. exact (unsafe_eq_safe_at N O dt c h1 h2 n s0 h3 h4). Qed.
Print Assumptions C09_whfast_unsafe_eq_safe_pointwise.

(* ------------------------------------------------------------------ CONCRETE Wisdom-Holman operators (coq/C09/ConcreteWH.v)
   Kepler drift = C03's exact Kepler flow kflow on every Jacobi body, com drift = free drift of slot 0, coordinate maps
   = C12's jac_fwd / jac_inv on each of the six components, interaction (all kernels) ARBITRARY.  The laws are
   discharged by C03_kflow_group and C12_jacobi_forward_after_inverse.  Remaining hypotheses, all about the run and the
   masses, none about the operators: [masses_ok] (partial mass sums non-zero, 1 <= N_active <= N) and [wj_dom] at
   every unsynchronized state of the run (one entry per particle, every Jacobi body on an elliptic orbit: the domain
   on which C03 proves the group law; a kick may leave it).  WHFast: every kernel, Jacobi coordinates, symplectic
   correctors off (corrector = corrector2 = 0), no variational particles. *)
Theorem C09_whfast_jacobi_concrete_unsafe_eq_safe :
  forall ms na mus I Imk Ilazy rep dt (c : wcfg) s0 n,
  masses_ok ms na -> w_init_ok c = true -> w_var c = false -> w_corr c = 0%nat -> w_corr2 c = false ->
  coherent (WJ ms na mus I Imk Ilazy rep) s0 ->
  (forall k, (k < n)%nat ->
     wj_dom ms mus (pjh (iter (S k) (w_step RNum (WJ ms na mus I Imk Ilazy rep) dt (with_mode c false false)) s0))) ->
  w_sync RNum (WJ ms na mus I Imk Ilazy rep) dt (with_mode c false false)
    (iter (S n) (w_step RNum (WJ ms na mus I Imk Ilazy rep) dt (with_mode c false false)) s0)
  = iter (S n) (w_step RNum (WJ ms na mus I Imk Ilazy rep) dt (with_mode c true false)) s0.
Proof. intros ms na mus I Imk Ilazy rep. exact (wj_unsafe_eq_safe ms na mus I Imk Ilazy rep). Qed.
Print Assumptions C09_whfast_jacobi_concrete_unsafe_eq_safe.

(* SABA, every type: same Kepler / com / Jacobi operators; the corrector is a velocity kick computed from positions
   (cc + cc = 2cc proved: vkick_add), merged drift 2*c[0] by the Kepler group law *)
Theorem C09_saba_jacobi_concrete_unsafe_eq_safe :
  forall ms na mus SI Srep F dt (c : @scfg R) s0 n,
  masses_ok ms na -> s_ok c = true -> s_coherent (SJ ms na mus SI Srep F) s0 ->
  (forall k, (k < n)%nat ->
     wj_dom ms mus (spjh (iter (S k) (s_step RNum (SJ ms na mus SI Srep F) dt (s_with_mode c false false)) s0))) ->
  s_sync RNum (SJ ms na mus SI Srep F) dt (s_with_mode c false false)
    (iter (S n) (s_step RNum (SJ ms na mus SI Srep F) dt (s_with_mode c false false)) s0)
  = iter (S n) (s_step RNum (SJ ms na mus SI Srep F) dt (s_with_mode c true false)) s0.
Proof. intros ms na mus SI Srep F. exact (sj_unsafe_eq_safe ms na mus SI Srep F). Qed.
Print Assumptions C09_saba_jacobi_concrete_unsafe_eq_safe.

Example C09_concrete_hypotheses_inhabited :
  masses_ok [1; 1/1000; 0]%R 3 /\ C03.Solve.ell_dom 1 (1, 0, 0, 0, 1, 0)%R.
Proof. split; [exact masses_ok_inhabited|exact ell_dom_inhabited]. Qed.

(* STILL ASSUMED / NOT COVERED for the true operators:
   - WHFast with symplectic correctors: corrector forward after inverse = id ON STATES.  The corrector words cancel
     letter by letter (Z(a,b)^-1 = Z(-a,b), C01) given the Kepler group law at every intermediate state of the word
     (elliptic domain there) and kick additivity; not mechanised.  corrector2: false, see the finding below.
   - democratic heliocentric / WHDS / barycentric coordinates: C12 proves inverse after forward; the composition
     needed here (forward after inverse) is mechanised for Jacobi only.  Same for MERCURIUS's in-place shifts
     (the C12_mercurius_trace inverse theorems are the other composition): the MERCURIUS instance proved here, C09_kdk_unsafe_eq_safe, uses
     identity coordinate maps.
   - hyperbolic / parabolic Jacobi orbits at a merge point: outside C03_kflow_group's domain.
   - EOS: its two laws are false by design (truncation error). *)

(* ------------------------------------------------------------------ corrector2: how inexact its inverse is (open finding)
   In the graded free algebra of C01 (A = Kepler drift, B = kick; a word of length n with k letters B is a term of
   size h^n eps^k) the product  apply_corrector2(-1) ; apply_corrector2(+1)  that safe mode inserts between two steps
   (and the product in the other order) is the identity on every word with at most one B up to length 8 and on every
   word of length <= 3, and is NOT the identity on the words of length 4 with two B: safe mode and deferred
   synchronisation differ by a term of size exactly eps^2 h^4 per step boundary (measured on the library: eps^2
   scaling exact, h-exponent 4 .. 5.4).  The reversed word with inverted factors is the exact inverse. *)
Theorem C09_corrector2_inverse_defect_is_eps2_h4 :
  same_element (gr [8; 3; 3]%nat) c2_inverse_then_forward [] = true /\
  same_element (gr [8; 3; 3]%nat) c2_forward_then_inverse [] = true /\
  same_element (gr [4; 4; 2]%nat) c2_inverse_then_forward [] = false /\
  same_element (gr [4; 4; 2]%nat) c2_forward_then_inverse [] = false /\
  same_element (gr [8; 6; 4]%nat) (corrector2_word true ++ inv_word (corrector2_word true)) [] = true.
Proof.
  exact (conj (proj1 c2_identity_to_h3) (conj (proj2 c2_identity_to_h3) (conj (proj1 c2_defect_at_eps2_h4)
           (conj (proj2 c2_defect_at_eps2_h4) c2_exact_inverse_word)))).
Qed.
Print Assumptions C09_corrector2_inverse_defect_is_eps2_h4.

(* ------------------------------------------------------------------ exact_finish_time = 1 (reb_check_exit synchronizes, then shortens dt) *)
Theorem C09_whfast_exact_finish_eq_safe :
  forall T (N : Num T) P J (O : @WOps T P J) dt dt' (c : wcfg) (s0 : @wst P J) n,
  (forall j, from_inertial O (to_inertial_sync O j) = j) ->
  (forall k j, corrector O true k (corrector O false k j) = j) ->
  (forall j, corrector2 O true (corrector2 O false j) = j) ->
  (forall j, drift O (half N dt) (drift O (half N dt) j) = drift O dt j) ->
  (forall j, drift O (dt58 N dt) (drift O (dt38 N dt) j) = drift O dt j) ->
  w_init_ok c = true -> w_var c = false -> coherent O s0 ->
  w_integrate_exact N O dt dt' (S n) (with_mode c false false) s0
  = w_step N O dt' (with_mode c true false) (iter (S n) (w_step N O dt (with_mode c true false)) s0).
Proof. intros T N P J O dt dt' c s0 n. apply w_exact_finish. Qed.
Print Assumptions C09_whfast_exact_finish_eq_safe.

(* with keep_unsynchronized = 1 the synchronize before the shortened step leaves the cache half a step (of the OLD dt)
   behind and the shortened step then applies a merged drift of the NEW dt: law-abiding instance, dt = 4, three full
   steps, last step dt' = 2: 13 instead of 14.  (The Python layer documents exact finishing as incompatible with
   keep_unsynchronized; the C library does not reject it.) *)
Theorem C09_exact_finish_with_keep_unsynchronized_refuted :
  toy_exact true false = (14, 0)%Z /\ toy_exact false false = (14, 0)%Z /\ toy_exact false true = (13, 0)%Z.
Proof. repeat split; vm_compute; reflexivity. Qed.

(* ------------------------------------------------------------------ the archive path: Simulationarchive.getSimulation (Python)
   [getsim_body] is regenerated from the current rebound/simulationarchive.py.  integrate with exact_finish_time = 1 from
   an unsynchronized state (a snapshot of a safe_mode = 0 run) first synchronizes and continues from the synchronized
   coordinates UNLESS keep_unsynchronized is set (C09_whfast_exact_finish_eq_safe versus
   C09_exact_finish_with_keep_unsynchronized_refuted).  Therefore mode 'exact' must reach the library with
   keep_unsynchronized = 0 in ri_whfast and ri_saba whatever the caller passed (the default is 1): the assignment
   keep_unsynchronized = 0 for mode 'exact' must dominate the copies into the integrator structures. *)
Definition flag_for (i target : ginteg) (v : bool) : option bool := if ginteg_eqb i target then Some v else None.

(* for the integrator in use, mode 'exact' reaches integrate with keep_unsynchronized = 0 and exact_finish_time = 1 *)
Theorem C09_getsim_exact_mode_integrates_with_keep_unsynchronized_0 : forall integ safe keep_arg,
  getsim_events getsim_body Exact integ safe keep_arg
  = ([EvIntegrate (flag_for integ IWhfast false) (flag_for integ ISaba false) (Some true)], true).
Proof. intros [| | |] [|] [|]; vm_compute; reflexivity. Qed.

(* the other two modes pass the caller's choice on to the integrator in use (forced to 0 for an archive written in safe
   mode) and do exactly one synchronize / one integrate without exact finishing *)
Theorem C09_getsim_close_and_snapshot_modes : forall integ safe keep_arg,
  let k := keep_arg && negb (match integ with IOther => false | _ => safe end) in
  getsim_events getsim_body Close integ safe keep_arg
    = ([EvIntegrate (flag_for integ IWhfast k) (flag_for integ ISaba k) (Some false)], true) /\
  getsim_events getsim_body Snapshot integ safe keep_arg
    = ([EvSync (flag_for integ IWhfast k) (flag_for integ ISaba k)], true).
Proof. intros [| | |] [|] [|]; split; vm_compute; reflexivity. Qed.

(* ri_whfast.keep_unsynchronized is never written for an archive of another integrator (SABA drives WHFast's operators
   and reb_integrator_whfast_init rejects keep_unsynchronized together with ri_whfast.safe_mode, which stays 1), and
   ri_saba.keep_unsynchronized never for a non-SABA archive *)
Theorem C09_getsim_flags_only_for_the_integrator_in_use : forall mode integ safe keep_arg,
  Forall (fun e => match e with
                   | EvSync kw ks | EvIntegrate kw ks _ =>
                       (integ <> IWhfast -> kw = None) /\ (integ <> ISaba -> ks = None)
                   end) (fst (getsim_events getsim_body mode integ safe keep_arg)).
Proof.
  intros [| |] [| | |] [|] [|]; vm_compute; repeat constructor; intros h; try reflexivity; exfalso; apply h; reflexivity.
Qed.

(* ------------------------------------------------------------------ the typing of the operators is checked on the C source
   [access_table] is regenerated by tools/translate_c09_access.py (clang AST of integrator_whfast.c / integrator_saba.c):
   per operator function the ordered reads / writes of r->particles, of the cache p_jh, of p_temp, and its calls.
   Checked (definitions in C09/Access.v): the Kepler, com and jump steps read only masses of r->particles and write only
   the cache (typed J -> J); the interaction step reads accelerations and masses of r->particles, never writes them,
   and changes only cache velocities (typed T -> P -> J -> J); symplectic correctors, operator C/Y/U and the SABA
   corrector recompute the inertial positions from the cache (jacobi/barycentric_to_inertial_pos) before every force
   evaluation, read no position or velocity of r->particles themselves and write only scratch accelerations there (typed
   J -> J); to_inertial / from_inertial only copy in the stated direction; both synchronize routines copy the cache
   aside before moving it and copy it back after its last use. *)
Theorem C09_operator_typing : typing_ok access_table = true.
Proof. vm_compute. reflexivity. Qed.

(* ------------------------------------------------------------------ WHFast512 (flag level; kernels opaque) *)
Theorem C09_whfast512_sync_idempotent : forall T (N : Num T) P J (O : @XOps T P J) dt keep (s : @xst P J),
  x_sync N O dt keep (x_sync N O dt keep s) = x_sync N O dt keep s.
Proof. intros. apply x_sync_idem. Qed.
Print Assumptions C09_whfast512_sync_idempotent.

Theorem C09_whfast512_keep_unsync_transparent :
  forall T (N : Num T) P J (O : @XOps T P J) dt gr (s0 : @xst P J) (w : list xcall),
  let a := x_run N O dt true gr s0 w in
  let b := x_run N O dt true gr s0 (x_steps_only w) in
  xpjh a = xpjh b /\ x_is_sync a = x_is_sync b /\ xpart (x_sync N O dt true a) = xpart (x_sync N O dt true b).
Proof.
  intros T N P J O dt gr s0 w a b. pose proof (x_transparent N O dt gr w s0 s0 (Rx_refl s0)) as h. fold a b in h.
  pose proof h as (h1 & h2 & _). repeat split; auto. apply (x_sync_part_Rx N O dt). exact h.
Qed.
Print Assumptions C09_whfast512_keep_unsync_transparent.

Theorem C09_whfast512_sync_every_step_eq_deferred :
  forall T (N : Num T) P J (O : @XOps T P J) dt gr (s0 : @xst P J) n,
  (forall j, x_to_dh O (x_to_inertial O j) = j) ->
  (forall j, xdrift O (xhalf N dt) (xdrift O (xhalf N dt) j) = xdrift O dt j) ->
  x_sync N O dt false (iter n (x_step N O dt gr) s0)
  = iter n (fun y => x_sync N O dt false (x_step N O dt gr y)) (x_sync N O dt false s0).
Proof. intros T N P J O dt gr s0 n l1 l2. exact (x_unsafe_eq_safe N O dt gr l1 l2 n s0). Qed.
Print Assumptions C09_whfast512_sync_every_step_eq_deferred.

(* non-vacuity: the law-abiding instance meets every hypothesis of C09_whfast_unsafe_eq_safe with dt = 8
   (half = 4, 5dt/8 = 5, 3dt/8 = 3) on a state that is not a fixed point of the step *)
Example C09_hypotheses_inhabited :
  (forall j, from_inertial WToy (to_inertial_sync WToy j) = j) /\
  (forall k j, corrector WToy true k (corrector WToy false k j) = j) /\
  (forall j, corrector2 WToy true (corrector2 WToy false j) = j) /\
  (forall j, drift WToy (half ZNum 8%Z) (drift WToy (half ZNum 8%Z) j) = drift WToy 8%Z j) /\
  (forall j, drift WToy (dt58 ZNum 8%Z) (drift WToy (dt38 ZNum 8%Z) j) = drift WToy 8%Z j) /\
  w_init_ok (toy_cfg false false false) = true /\ coherent WToy toy0 /\
  part (w_step ZNum WToy 8%Z (toy_cfg true false false) toy0) = (8, 0)%Z.
Proof.
  repeat split; try (intros [x y]; unfold drift, half, dt58, dt38, two, lit; cbn; f_equal; lia);
    try (intros k [x y]; reflexivity); try (vm_compute; reflexivity).
  left. reflexivity.
Qed.
