(* C09 lemmas.  The operator laws are hypotheses of Sections (they are statements about the NUMERICS, discharged for
   exact arithmetic by C03 / C12 / C01); the content here is the induction over the number of steps / the call
   sequence and the case analysis over the flags. *)
From Coq Require Import ZArith List Bool Lia.
From RV Require Import Common.Num C09.Model.
Import ListNotations.

Lemma iter_S_out {A} (f : A -> A) n x : iter (S n) f x = f (iter n f x).
Proof. revert x. induction n; intros x; [reflexivity|]. change (iter (S (S n)) f x) with (iter (S n) f (f x)). rewrite IHn. reflexivity. Qed.

Lemma iter_plus {A} (f : A -> A) n m x : iter (n + m) f x = iter m f (iter n f x).
Proof. revert x. induction n; intros x; [reflexivity|]. simpl. apply IHn. Qed.

(* ================================================================== WHFast *)
Section WHFastP.
Context {T : Type} (N : Num T) {P J : Type} (O : @WOps T P J) (dt : T).
Notation wst := (@wst P J).
Notation w_sync := (w_sync N O dt).
Notation w_part1 := (w_part1 N O dt).
Notation w_part2 := (w_part2 N O dt).
Notation w_step := (w_step N O dt).
Notation w_run := (w_run N O dt).

Ltac dst x := let p := fresh "p" in let j := fresh "j" in let s := fresh "sy" in let r := fresh "rc" in let a := fresh "al" in
  destruct x as [p j s r a].

(* ---- (c) synchronize twice = once, every configuration *)
Lemma w_sync_idem : forall c s, w_sync c (w_sync c s) = w_sync c s.
Proof.
  intros c s. unfold Model.w_sync. destruct (w_init_ok c); simpl; [|reflexivity].
  dst s. unfold w_init; simpl. destruct al, sy; simpl; try reflexivity; destruct (w_keep c); simpl; reflexivity.
Qed.

(* ---- corner: a configuration rejected by reb_integrator_whfast_init: synchronize and part1 return at once *)
Lemma w_rejected_inert : forall c s, w_init_ok c = false -> w_sync c s = s /\ w_part1 c s = s /\ w_step c s = s.
Proof.
  intros c s h. unfold Model.w_step, Model.w_sync, Model.w_part1, Model.w_part2. rewrite h. cbn.
  repeat split; try reflexivity. destruct (alloc s); reflexivity.
Qed.

(* ---- (b) keep_unsynchronized: inserted calls are invisible *)
Definition Rk (x y : wst) : Prop :=
  pjh x = pjh y /\ is_sync x = is_sync y /\ recalc (w_init x) = recalc (w_init y) /\
  (is_sync x = true -> part x = part y).

Lemma Rk_refl x : Rk x x. Proof. repeat split; auto. Qed.
Lemma Rk_sym x y : Rk x y -> Rk y x.
Proof. intros (a & b & c & d). repeat split; auto. intros h. symmetry. apply d. congruence. Qed.
Lemma Rk_trans x y z : Rk x y -> Rk y z -> Rk x z.
Proof. intros (a & b & c & d) (a' & b' & c' & d'). repeat split; try congruence. intros h. rewrite d by auto. apply d'. congruence. Qed.

Section Keep.
Context (c : wcfg) (Hok : w_init_ok c = true) (Hsafe : w_safe c = false) (Hkeep : w_keep c = true).

Lemma w_sync_Rk x : Rk (w_sync c x) x.
Proof.
  unfold Model.w_sync, Rk. rewrite Hok, Hkeep. simpl. dst x. unfold w_init; simpl.
  destruct al, sy; simpl; repeat split; auto; discriminate.
Qed.

Lemma w_part1_Rk x y : Rk x y -> w_part1 c x = w_part1 c y.
Proof.
  intros (a & b & d & e). unfold Model.w_part1. rewrite Hok, Hsafe. simpl.
  dst x. dst y. simpl in *. subst.
  unfold Model.w_sync. rewrite Hok, Hkeep. simpl. unfold w_init in *; simpl in *.
  destruct al, al0; simpl in *; subst;
    destruct sy0; simpl in *; try (rewrite e by reflexivity);
    try destruct rc; try destruct rc0; simpl in *; try discriminate; try reflexivity;
    try (rewrite e by reflexivity; reflexivity).
Qed.

Lemma w_step_Rk x y : Rk x y -> w_step c x = w_step c y.
Proof. intros h. unfold Model.w_step. rewrite (w_part1_Rk x y h). reflexivity. Qed.

Lemma w_iter_Rk n x y : Rk x y -> Rk (iter n (w_step c) x) (iter n (w_step c) y).
Proof.
  destruct n; intros h; [exact h|]. simpl. rewrite (w_step_Rk x y h). apply Rk_refl.
Qed.

Lemma w_sync_part_Rk x y : Rk x y -> part (w_sync c x) = part (w_sync c y).
Proof.
  intros (a & b & d & e). unfold Model.w_sync. rewrite Hok, Hkeep. simpl. dst x. dst y. simpl in *. subst.
  unfold w_init; simpl. destruct al, al0, sy0; simpl; auto.
Qed.

Lemma w_run_steps n y : w_run (c, y) (repeat Step n) = (c, iter n (w_step c) y).
Proof. revert y. induction n; intros y; [reflexivity|]. simpl. unfold Model.w_run in *. simpl. apply IHn. Qed.

Lemma w_transparent : forall w, no_setflag w -> forall x y, Rk x y ->
  fst (w_run (c, x) w) = c /\ fst (w_run (c, y) (steps_only w)) = c /\
  Rk (snd (w_run (c, x) w)) (snd (w_run (c, y) (steps_only w))).
Proof.
  induction w as [|k w IH]; intros Hns x y h.
  - simpl. auto.
  - assert (Hns' : no_setflag w) by (intros f hf; apply (Hns f); right; exact hf).
    destruct k; unfold Model.w_run in *; simpl.
    + rewrite (w_step_Rk x y h). apply IH; auto. apply Rk_refl.
    + rewrite fold_left_app. fold (w_run (c, y) (repeat Step n)). rewrite w_run_steps.
      apply IH; auto. eapply Rk_trans; [apply w_sync_Rk|]. apply w_iter_Rk; exact h.
    + apply IH; auto. eapply Rk_trans; [apply w_sync_Rk|exact h].
    + apply IH; auto.
    + apply IH; auto.
    + apply IH; auto.
    + apply IH; auto.
    + exfalso. apply (Hns f). left. reflexivity.
Qed.

Theorem w_keep_unsync_transparent : forall s0 w, no_setflag w ->
  let a := snd (w_run (c, s0) w) in
  let b := snd (w_run (c, s0) (steps_only w)) in
  pjh a = pjh b /\ is_sync a = is_sync b /\ recalc (w_init a) = recalc (w_init b) /\
  part (w_sync c a) = part (w_sync c b) /\
  forall m, iter (S m) (w_step c) a = iter (S m) (w_step c) b.
Proof.
  intros s0 w Hns a b. destruct (w_transparent w Hns s0 s0 (Rk_refl s0)) as (_ & _ & h).
  fold a b in h. pose proof h as (h1 & h2 & h3 & h4). repeat split; auto.
  - apply w_sync_part_Rk. exact h.
  - intros m. simpl. rewrite (w_step_Rk a b h). reflexivity.
Qed.
End Keep.

(* ---- (a) deferred synchronisation = safe mode, under the flow laws *)
Definition with_mode (c : wcfg) (safe keep : bool) : wcfg :=
  {| w_safe := safe; w_keep := keep; w_kernel := w_kernel c; w_corr := w_corr c; w_corr2 := w_corr2 c;
     w_coord := w_coord c; w_var := w_var c |}.

Section Laws.
Hypothesis L_from_to : forall j, from_inertial O (to_inertial_sync O j) = j.
Hypothesis L_corr : forall n j, corrector O true n (corrector O false n j) = j.
Hypothesis L_corr2 : forall j, corrector2 O true (corrector2 O false j) = j.
Hypothesis L_drift_half : forall j, drift O (half N dt) (drift O (half N dt) j) = drift O dt j.
Hypothesis L_drift_comp : forall j, drift O (dt58 N dt) (drift O (dt38 N dt) j) = drift O dt j.

Context (c : wcfg) (Hok : w_init_ok c = true) (Hvar : w_var c = false).
Local Notation cu := (with_mode c false false).
Local Notation cuk := (with_mode c false true).
Local Notation cs := (with_mode c true false).

Definition Inv (x : wst) : Prop := is_sync x = false /\ recalc x = false /\ alloc x = true.
Definition coherent (s : wst) : Prop :=
  is_sync s = true /\ (alloc s = false \/ recalc s = true \/ pjh s = from_inertial O (part s)).

Lemma ok_cu : w_init_ok cu = true. Proof. exact Hok. Qed.
Lemma ok_cs : w_init_ok cs = true. Proof. exact Hok. Qed.
Lemma ok_cuk : w_init_ok cuk = true. Proof. exact Hok. Qed.

Lemma resync_drift j :
  w_part1_drift N O dt cs true (w_sync_coords N O dt cu j) = drift O dt j.
Proof.
  unfold w_part1_drift, w_sync_coords, w_sync_drift. simpl.
  destruct (Nat.eqb (w_corr c) 0) eqn:E; destruct (w_corr2 c) eqn:E2; destruct (w_kernel c) eqn:K;
    rewrite ?L_corr, ?L_corr2; auto.
Qed.

Definition after_kernel (c' : wcfg) (s : wst) : wst :=
  let '(p, j) := w_kernel_step N O dt c' (part s) (pjh s) in
  {| part := p; pjh := j; is_sync := false; recalc := recalc s; alloc := alloc s |}.

Lemma part2_eq c' s : alloc s = true -> w_var c' = false -> w_init_ok c' = true ->
  w_part2 c' s = if w_safe c' then w_sync c' (after_kernel c' s) else after_kernel c' s.
Proof.
  intros a v ok. unfold Model.w_part2, after_kernel. rewrite a, v, ok. simpl.
  destruct (w_kernel_step N O dt c' (part s) (pjh s)). destruct (w_safe c'); reflexivity.
Qed.

Lemma after_kernel_mode s m1 k1 m2 k2 : after_kernel (with_mode c m1 k1) s = after_kernel (with_mode c m2 k2) s.
Proof. reflexivity. Qed.

Lemma after_kernel_flags c' s : is_sync (after_kernel c' s) = false /\ recalc (after_kernel c' s) = recalc s /\
  alloc (after_kernel c' s) = alloc s.
Proof. unfold after_kernel. destruct (w_kernel_step N O dt c' (part s) (pjh s)). auto. Qed.

Definition mid (j : J) : wst :=    (* the state between part1 and part2 *)
  let j' := jump O (half N dt) j in
  {| part := to_inertial O j'; pjh := j'; is_sync := false; recalc := false; alloc := true |}.
Definition mid_s (j : J) : wst :=
  let j' := jump O (half N dt) j in
  {| part := to_inertial O j'; pjh := j'; is_sync := true; recalc := false; alloc := true |}.

Lemma part1_unsynced keep x : Inv x -> w_part1 (with_mode c false keep) x = mid (drift O dt (pjh x)).
Proof.
  intros (a & b & d). dst x. simpl in *. subst. unfold Model.w_part1.
  change (w_init_ok (with_mode c false keep)) with (w_init_ok c). rewrite Hok. simpl. rewrite Hvar. reflexivity.
Qed.

Lemma part1_synced m keep x : is_sync x = true -> alloc x = true -> (m || recalc x = true) ->
  w_part1 (with_mode c m keep) x = mid_s (w_part1_drift N O dt c true (from_inertial O (part x))).
Proof.
  intros a b d. dst x. simpl in *. subst. unfold Model.w_part1.
  change (w_init_ok (with_mode c m keep)) with (w_init_ok c). rewrite Hok. simpl. rewrite d. simpl. rewrite Hvar. reflexivity.
Qed.

Lemma part1_synced_cached keep x : is_sync x = true -> alloc x = true -> recalc x = false ->
  w_part1 (with_mode c false keep) x = mid_s (w_part1_drift N O dt c true (pjh x)).
Proof.
  intros a b d. dst x. simpl in *. subst. unfold Model.w_part1.
  change (w_init_ok (with_mode c false keep)) with (w_init_ok c). rewrite Hok. simpl. rewrite Hvar. reflexivity.
Qed.

Lemma part1_fresh m keep x : is_sync x = true -> alloc x = false ->
  w_part1 (with_mode c m keep) x = mid_s (w_part1_drift N O dt c true (from_inertial O (part x))).
Proof.
  intros a b. dst x. simpl in *. subst. unfold Model.w_part1.
  change (w_init_ok (with_mode c m keep)) with (w_init_ok c). rewrite Hok. simpl. rewrite orb_true_r. simpl. rewrite Hvar. reflexivity.
Qed.

Lemma sync_unsynced x : is_sync x = false -> alloc x = true ->
  w_sync cu x = {| part := to_inertial_sync O (w_sync_coords N O dt cu (pjh x)); pjh := w_sync_coords N O dt cu (pjh x);
                   is_sync := true; recalc := recalc x; alloc := true |}.
Proof.
  intros a b. dst x. simpl in *. subst. unfold Model.w_sync. change (w_init_ok cu) with (w_init_ok c). rewrite Hok. reflexivity.
Qed.

Lemma mid_s_part2_safe j : w_part2 cs (mid_s j) = w_sync cu (after_kernel cu (mid j)).
Proof. rewrite part2_eq by (reflexivity || exact Hvar || exact Hok). reflexivity. Qed.

Lemma mid_part2_unsafe keep j : w_part2 (with_mode c false keep) (mid j) = after_kernel cu (mid j).
Proof. rewrite part2_eq by (reflexivity || exact Hvar || exact Hok). reflexivity. Qed.

Lemma mid_s_part2_unsafe keep j : w_part2 (with_mode c false keep) (mid_s j) = after_kernel cu (mid j).
Proof. rewrite part2_eq by (reflexivity || exact Hvar || exact Hok). reflexivity. Qed.

Lemma Inv_after_kernel j : Inv (after_kernel cu (mid j)).
Proof. destruct (after_kernel_flags cu (mid j)) as (a & b & d). unfold Inv. rewrite a, b, d. auto. Qed.

Local Opaque w_part1_drift w_sync_coords w_kernel_step.

Lemma commute_step x : Inv x -> w_step cs (w_sync cu x) = w_sync cu (w_step cu x) /\ Inv (w_step cu x).
Proof.
  intros h. pose proof h as (a & b & d). unfold Model.w_step.
  change cu with (with_mode c false false) at 3 4. rewrite (part1_unsynced false x h).
  rewrite (sync_unsynced x a d). change cs with (with_mode c true false) at 1.
  rewrite part1_synced by reflexivity. simpl part. rewrite L_from_to.
  change (w_part1_drift N O dt c true) with (w_part1_drift N O dt cs true). rewrite resync_drift.
  rewrite mid_s_part2_safe. rewrite mid_part2_unsafe. split; [reflexivity|apply Inv_after_kernel].
Qed.

Lemma first_step s : coherent s -> w_step cs s = w_sync cu (w_step cu s) /\ Inv (w_step cu s).
Proof.
  intros (a & b). unfold Model.w_step.
  assert (E : w_part1 cu s = mid_s (w_part1_drift N O dt c true (from_inertial O (part s))) /\
              w_part1 cs s = mid_s (w_part1_drift N O dt c true (from_inertial O (part s)))).
  { destruct (alloc s) eqn:al.
    - destruct (recalc s) eqn:rc.
      + split; [apply (part1_synced false false)|apply (part1_synced true false)]; auto.
      + destruct b as [b|[b|b]]; try discriminate. split.
        * change cu with (with_mode c false false). rewrite part1_synced_cached by auto. rewrite b. reflexivity.
        * apply (part1_synced true false); auto.
    - split; [apply (part1_fresh false false)|apply (part1_fresh true false)]; auto. }
  destruct E as (E1 & E2). rewrite E1, E2. rewrite mid_s_part2_safe.
  change cu with (with_mode c false false) at 2 3. rewrite mid_s_part2_unsafe.
  split; [reflexivity|apply Inv_after_kernel].
Qed.

Lemma unsafe_iter n x : Inv x -> w_sync cu (iter n (w_step cu) x) = iter n (w_step cs) (w_sync cu x).
Proof.
  revert x. induction n; intros x h; [reflexivity|]. simpl.
  destruct (commute_step x h) as (e & h'). rewrite IHn by exact h'. rewrite e. reflexivity.
Qed.

Lemma unsafe_eq_safe_S n s : coherent s -> w_sync cu (iter (S n) (w_step cu) s) = iter (S n) (w_step cs) s.
Proof.
  intros h. simpl. destruct (first_step s h) as (e & h'). rewrite unsafe_iter by exact h'. rewrite e. reflexivity.
Qed.

(* keep_unsynchronized = 1, no variational particles: the steps are the same function, the final synchronize shows the
   same particles (and leaves the cache unsynchronized) *)
Lemma step_unsafe_any keep x : (coherent x \/ Inv x) ->
  w_step (with_mode c false keep) x = w_step cu x /\ Inv (w_step cu x).
Proof.
  intros [h|h]; unfold Model.w_step.
  - destruct h as (a & b).
    assert (E : forall k, w_part1 (with_mode c false k) x = mid_s (w_part1_drift N O dt c true (from_inertial O (part x)))).
    { intros k. destruct (alloc x) eqn:al.
      - destruct (recalc x) eqn:rc.
        + apply (part1_synced false k); auto.
        + destruct b as [b|[b|b]]; try discriminate. rewrite part1_synced_cached by auto. rewrite b. reflexivity.
      - apply (part1_fresh false k); auto. }
    change cu with (with_mode c false false). rewrite !E. rewrite !mid_s_part2_unsafe. split; [reflexivity|apply Inv_after_kernel].
  - change cu with (with_mode c false false). rewrite !(part1_unsynced _ x h). rewrite !mid_part2_unsafe.
    split; [reflexivity|apply Inv_after_kernel].
Qed.

Lemma keep_iter_same n x : (coherent x \/ Inv x) -> iter n (w_step cuk) x = iter n (w_step cu) x.
Proof.
  revert x. induction n; intros x h; [reflexivity|]. simpl. destruct (step_unsafe_any true x h) as (e & i).
  change (with_mode c false true) with cuk in e. rewrite e. apply IHn. right. exact i.
Qed.

Lemma keep_sync_part x : part (w_sync cuk x) = part (w_sync cu x).
Proof.
  dst x. unfold Model.w_sync. rewrite ok_cu, ok_cuk. simpl. unfold w_init; simpl. destruct al, sy; reflexivity.
Qed.

Lemma sync_of_synced_part s : is_sync s = true -> part (w_sync cu s) = part s.
Proof. intros h. dst s. simpl in h. subst. unfold Model.w_sync. rewrite ok_cu. simpl. unfold w_init; simpl. destruct al; reflexivity. Qed.

Lemma unsafe_eq_safe_part keep n s : coherent s ->
  part (w_sync (with_mode c false keep) (iter n (w_step (with_mode c false keep)) s)) = part (iter n (w_step cs) s).
Proof.
  intros h. destruct keep.
  - change (with_mode c false true) with cuk. rewrite keep_iter_same by (left; exact h). rewrite keep_sync_part.
    destruct n; [apply sync_of_synced_part; apply h|]. rewrite unsafe_eq_safe_S by exact h. reflexivity.
  - change (with_mode c false false) with cu.
    destruct n; [apply sync_of_synced_part; apply h|]. rewrite unsafe_eq_safe_S by exact h. reflexivity.
Qed.
(* ---- the same refinement with the laws required only AT THE STATES OF THE RUN (what a concrete instance can give:
   e.g. the Kepler group law holds on the elliptic domain only).  [law_at j]: at the cached coordinates j of an
   unsynchronized state, synchronizing, recomputing the coordinates from the synchronized particles and redoing the
   first half drift amounts to one merged drift. *)
Definition law_at (j : J) : Prop :=
  from_inertial O (to_inertial_sync O (w_sync_coords N O dt cu j)) = w_sync_coords N O dt cu j /\
  w_part1_drift N O dt cs true (w_sync_coords N O dt cu j) = drift O dt j.

Lemma commute_step_at x : Inv x -> law_at (pjh x) ->
  w_step cs (w_sync cu x) = w_sync cu (w_step cu x) /\ Inv (w_step cu x).
Proof.
  intros h (l1 & l2). pose proof h as (a & b & d). unfold Model.w_step.
  change cu with (with_mode c false false) at 3 4. rewrite (part1_unsynced false x h).
  rewrite (sync_unsynced x a d). change cs with (with_mode c true false) at 1.
  rewrite part1_synced by reflexivity. simpl part. rewrite l1.
  change (w_part1_drift N O dt c true) with (w_part1_drift N O dt cs true). rewrite l2.
  rewrite mid_s_part2_safe. rewrite mid_part2_unsafe. split; [reflexivity|apply Inv_after_kernel].
Qed.

Lemma unsafe_iter_at n : forall x, Inv x -> (forall k, (k < n)%nat -> law_at (pjh (iter k (w_step cu) x))) ->
  w_sync cu (iter n (w_step cu) x) = iter n (w_step cs) (w_sync cu x).
Proof.
  induction n; intros x h L; [reflexivity|]. cbn [iter].
  destruct (commute_step_at x h (L 0%nat (Nat.lt_0_succ n))) as (e & h').
  rewrite IHn; [rewrite e; reflexivity|exact h'|].
  intros k hk. apply (L (S k)). lia.
Qed.

Lemma unsafe_eq_safe_at n s : coherent s ->
  (forall k, (k < n)%nat -> law_at (pjh (iter (S k) (w_step cu) s))) ->
  w_sync cu (iter (S n) (w_step cu) s) = iter (S n) (w_step cs) s.
Proof.
  intros h L. cbn [iter]. destruct (first_step s h) as (e & h'). rewrite unsafe_iter_at; [rewrite e; reflexivity|exact h'|exact L].
Qed.
End Laws.
End WHFastP.


(* ================================================================== SABA *)
Section SABAP.
Context {T : Type} (N : Num T) {P J : Type} (O : @SOps T P J) (dt : T).
Notation sst := (@sst P J).
Notation scfg := (@scfg T).
Notation s_sync := (s_sync N O dt).
Notation s_part1 := (s_part1 N O dt).
Notation s_part2 := (s_part2 N O dt).
Notation s_step := (s_step N O dt).
Notation s_run := (s_run N O dt).

Ltac dss x := let p := fresh "p" in let j := fresh "j" in let s := fresh "sy" in let r := fresh "rc" in
  let a := fresh "al" in let k := fresh "cr" in destruct x as [p j s r a k].

(* ---- (c) *)
Lemma s_sync_idem : forall (c : scfg) s, s_sync c (s_sync c s) = s_sync c s.
Proof.
  intros c s. dss s. unfold Model.s_sync. simpl.
  destruct sy; simpl; [reflexivity|].
  destruct (s_keep c); simpl; destruct cr, al; simpl; reflexivity.
Qed.

(* ---- (b) *)
Definition Rs (x y : sst) : Prop :=
  spjh x = spjh y /\ s_is_sync x = s_is_sync y /\ s_recalc x = s_recalc y /\ s_alloc x = s_alloc y /\
  s_crashed x = s_crashed y /\ (s_is_sync x = true -> spart x = spart y).
(* synchronized (e.g. a fresh simulation), or unsynchronized with an existing cache and no recalculation pending
   (reb_integrator_saba_part1 would recompute the coordinates from unsynchronized particles WITHOUT synchronizing first) *)
Definition Good (x : sst) : Prop := s_is_sync x = true \/ (s_recalc x = false /\ s_alloc x = true).

Lemma Rs_refl x : Rs x x. Proof. repeat split; auto. Qed.
Lemma Rs_trans x y z : Rs x y -> Rs y z -> Rs x z.
Proof. intros (a & b & d & e & f & g) (a' & b' & d' & e' & f' & g'). repeat split; try congruence.
  intros h. rewrite g by auto. apply g'. congruence. Qed.

Section SKeep.
Context (c : scfg) (Hok : s_ok c = true) (Hsafe : s_safe c = false) (Hkeep : s_keep c = true).

Lemma s_sync_Rs x : Good x -> Rs (s_sync c x) x /\ Good (s_sync c x).
Proof.
  intros g. dss x. unfold Good in *. simpl in *. unfold Model.s_sync, Rs. rewrite Hkeep. simpl.
  destruct sy; simpl.
  - repeat split; auto.
  - destruct g as [g|(g1 & g2)]; [discriminate|]. subst. simpl. rewrite orb_false_r. repeat split; auto; discriminate.
Qed.

Lemma s_part1_Rs x y : Rs x y -> Good x -> s_part1 c x = s_part1 c y.
Proof.
  intros (a & b & d & e & f & g) h. dss x. dss y. unfold Good in h. simpl in *. subst.
  unfold Model.s_part1. rewrite Hok, Hsafe. simpl.
  destruct h as [h|(h1 & h2)].
  - subst. rewrite g by reflexivity. reflexivity.
  - subst. reflexivity.
Qed.

Lemma s_step_Rs x y : Rs x y -> Good x -> s_step c x = s_step c y.
Proof. intros h a. unfold Model.s_step. rewrite (s_part1_Rs x y h a). reflexivity. Qed.

Lemma s_step_Good x : Good (s_step c x).
Proof.
  dss x. unfold Model.s_step, Model.s_part1, Model.s_part2, Good. rewrite Hok, Hsafe. simpl.
  match goal with |- context [s_loop N O dt ?a ?b ?d ?k ?jj ?p ?j] => destruct (s_loop N O dt a b d k jj p j) end.
  simpl. right. auto.
Qed.

Lemma s_iter_Good n x : Good x -> Good (iter n (s_step c) x).
Proof. revert x. induction n; intros x g; [exact g|]. simpl. apply IHn. apply s_step_Good. Qed.

Lemma s_iter_Rs n x y : Rs x y -> Good x -> Rs (iter n (s_step c) x) (iter n (s_step c) y).
Proof. destruct n; intros h g; [auto|]. simpl. rewrite (s_step_Rs x y h g). apply Rs_refl. Qed.

Lemma s_run_steps n y : s_run c y (repeat SStep n) = iter n (s_step c) y.
Proof. revert y. induction n; intros y; [reflexivity|]. simpl. unfold Model.s_run in *. simpl. apply IHn. Qed.

Lemma s_transparent : forall w x y, Rs x y -> Good x ->
  Rs (s_run c x w) (s_run c y (s_steps_only w)) /\ Good (s_run c x w).
Proof.
  induction w as [|k w IH]; intros x y h g; [simpl; auto|].
  destruct k; unfold Model.s_run in *; simpl.
  - rewrite (s_step_Rs x y h g). apply IH; [apply Rs_refl|].
    rewrite <- (s_step_Rs x y h g). apply s_step_Good.
  - rewrite fold_left_app. fold (s_run c y (repeat SStep n)). rewrite s_run_steps.
    pose proof (s_iter_Rs n x y h g) as h1. pose proof (s_iter_Good n x g) as g1.
    destruct (s_sync_Rs _ g1) as (h2 & g2). apply IH; [eapply Rs_trans; eauto|exact g2].
  - destruct (s_sync_Rs _ g) as (h2 & g2). apply IH; [eapply Rs_trans; eauto|exact g2].
  - apply IH; auto.
  - apply IH; auto.
  - apply IH; auto.
  - apply IH; auto.
Qed.

Lemma s_sync_part_Rs x y : Rs x y -> spart (s_sync c x) = spart (s_sync c y).
Proof.
  intros (a & b & d & e & f & g). dss x. dss y. simpl in *. subst.
  unfold Model.s_sync. rewrite Hkeep. simpl. destruct sy0; simpl; auto.
Qed.

Theorem s_keep_unsync_transparent : forall s0 w, Good s0 ->
  let a := s_run c s0 w in
  let b := s_run c s0 (s_steps_only w) in
  spjh a = spjh b /\ s_is_sync a = s_is_sync b /\ s_recalc a = s_recalc b /\ s_crashed a = s_crashed b /\
  spart (s_sync c a) = spart (s_sync c b) /\
  forall m, iter (S m) (s_step c) a = iter (S m) (s_step c) b.
Proof.
  intros s0 w g a b. destruct (s_transparent w s0 s0 (Rs_refl s0) g) as (h & ga).
  fold a b in h, ga. pose proof h as (h1 & h2 & h3 & h4 & h5 & h6). repeat split; auto.
  - apply s_sync_part_Rs. exact h.
  - intros m. simpl. rewrite (s_step_Rs a b h ga). reflexivity.
Qed.
End SKeep.

(* ---- (a) *)
Definition s_with_mode (c : scfg) (safe keep : bool) : scfg :=
  {| s_safe := safe; s_keep := keep; s_corr_on := s_corr_on c; s_stages := s_stages c; s_c := s_c c; s_d := s_d c;
     s_cc := s_cc c; s_ok := s_ok c |}.

Section SLaws.
Context (c : scfg) (Hok : s_ok c = true).
Hypothesis L_from_to : forall j, s_from_inertial O (s_to_inertial_sync O j) = j.
Hypothesis L_drift : forall j, sdrift O (c0dt N dt c) (sdrift O (c0dt N dt c) j) = sdrift O (c0dt2 N dt c) j.
Hypothesis L_corr : forall j, s_corrector O (s_cc c) (s_corrector O (s_cc c) j) = s_corrector O (cc2 N c) j.
Local Notation cu := (s_with_mode c false false).
Local Notation cuk := (s_with_mode c false true).
Local Notation cs := (s_with_mode c true false).

Definition SInv (x : sst) : Prop := s_is_sync x = false /\ s_recalc x = false /\ s_alloc x = true.
Definition s_coherent (s : sst) : Prop :=
  s_is_sync s = true /\ (s_alloc s = false \/ s_recalc s = true \/ spjh s = s_from_inertial O (spart s)).

Lemma s_commute_step x : SInv x -> s_step cs (s_sync cu x) = s_sync cu (s_step cu x) /\ SInv (s_step cu x).
Proof.
  intros (a & b & d). dss x. simpl in *. subst.
  unfold Model.s_step, Model.s_part1, Model.s_sync. simpl. rewrite Hok. simpl.
  rewrite L_from_to.
  unfold Model.s_part2. simpl.
  change (c0dt N dt cs) with (c0dt N dt c). change (c0dt N dt cu) with (c0dt N dt c).
  change (c0dt2 N dt cu) with (c0dt2 N dt c). change (cc2 N cu) with (cc2 N c).
  destruct (s_corr_on c) eqn:E; simpl.
  - rewrite L_corr.
    match goal with |- context [s_loop N O dt ?a ?b ?d ?k ?jj ?p ?j] => destruct (s_loop N O dt a b d k jj p j) end.
    unfold Model.s_sync. simpl. rewrite ?E. simpl. rewrite ?orb_false_r. split; [reflexivity|repeat split].
  - rewrite L_drift.
    match goal with |- context [s_loop N O dt ?a ?b ?d ?k ?jj ?p ?j] => destruct (s_loop N O dt a b d k jj p j) end.
    unfold Model.s_sync. simpl. rewrite ?E. simpl. rewrite ?orb_false_r. split; [reflexivity|repeat split].
Qed.

Lemma s_first_step s : s_coherent s -> s_step cs s = s_sync cu (s_step cu s) /\ SInv (s_step cu s).
Proof.
  intros (a & b). dss s. simpl in *. subst.
  unfold Model.s_step, Model.s_part1. simpl. rewrite Hok. simpl.
  assert (E : (if rc || negb al then s_from_inertial O p else j) = s_from_inertial O p).
  { destruct al; simpl; [|rewrite orb_true_r; reflexivity]. destruct rc; [reflexivity|].
    destruct b as [b|[b|b]]; try discriminate. exact b. }
  rewrite E. unfold Model.s_part2. simpl.
  change (c0dt N dt cs) with (c0dt N dt c). change (c0dt N dt cu) with (c0dt N dt c).
  match goal with |- context [s_loop N O dt ?a ?b ?d ?k ?jj ?p ?j] => destruct (s_loop N O dt a b d k jj p j) end.
  unfold Model.s_sync. simpl. rewrite ?orb_false_r. split; [reflexivity|repeat split].
Qed.

Lemma s_unsafe_iter n x : SInv x -> s_sync cu (iter n (s_step cu) x) = iter n (s_step cs) (s_sync cu x).
Proof.
  revert x. induction n; intros x h; [reflexivity|]. simpl.
  destruct (s_commute_step x h) as (e & h'). rewrite IHn by exact h'. rewrite e. reflexivity.
Qed.

Lemma s_unsafe_eq_safe_S n s : s_coherent s -> s_sync cu (iter (S n) (s_step cu) s) = iter (S n) (s_step cs) s.
Proof.
  intros h. simpl. destruct (s_first_step s h) as (e & h'). rewrite s_unsafe_iter by exact h'. rewrite e. reflexivity.
Qed.

(* keep_unsynchronized = 1: in unsafe mode no step calls synchronize, so the steps are the same function *)
Lemma s_keep_step_same x : s_step cuk x = s_step cu x.
Proof.
  dss x. unfold Model.s_step, Model.s_part1, Model.s_part2. simpl. destruct (s_ok c); simpl; [|destruct al; reflexivity].
  change (c0dt N dt cuk) with (c0dt N dt c). change (c0dt N dt cu) with (c0dt N dt c).
  change (c0dt2 N dt cuk) with (c0dt2 N dt c). change (c0dt2 N dt cu) with (c0dt2 N dt c).
  change (cc2 N cuk) with (cc2 N c). change (cc2 N cu) with (cc2 N c).
  match goal with |- context [s_loop N O dt ?a ?b ?d ?k ?jj ?p ?j] => destruct (s_loop N O dt a b d k jj p j) end.
  reflexivity.
Qed.
Lemma s_keep_iter_same n x : iter n (s_step cuk) x = iter n (s_step cu) x.
Proof. revert x. induction n; intros x; [reflexivity|]. simpl. rewrite s_keep_step_same. apply IHn. Qed.
Lemma s_keep_sync_part x : spart (s_sync cuk x) = spart (s_sync cu x).
Proof. dss x. unfold Model.s_sync. simpl. destruct sy; reflexivity. Qed.
Lemma s_sync_of_synced_part s : s_is_sync s = true -> spart (s_sync cu s) = spart s.
Proof. intros h. dss s. simpl in h. subst. reflexivity. Qed.

Lemma s_unsafe_eq_safe_part keep n s : s_coherent s ->
  spart (s_sync (s_with_mode c false keep) (iter n (s_step (s_with_mode c false keep)) s)) = spart (iter n (s_step cs) s).
Proof.
  intros h. destruct keep.
  - rewrite s_keep_iter_same, s_keep_sync_part.
    destruct n; [apply s_sync_of_synced_part; apply h|]. rewrite s_unsafe_eq_safe_S by exact h. reflexivity.
  - destruct n; [apply s_sync_of_synced_part; apply h|]. rewrite s_unsafe_eq_safe_S by exact h. reflexivity.
Qed.
(* ---- laws only at the states of the run *)
Definition s_law_at (j : J) : Prop :=
  let y := if s_corr_on c then s_corrector O (s_cc c) j else sdrift O (c0dt N dt c) j in
  s_from_inertial O (s_to_inertial_sync O y) = y /\
  (if s_corr_on c then s_corrector O (s_cc c) y = s_corrector O (cc2 N c) j
   else sdrift O (c0dt N dt c) y = sdrift O (c0dt2 N dt c) j).

Lemma s_commute_step_at x : SInv x -> s_law_at (spjh x) ->
  s_step cs (s_sync cu x) = s_sync cu (s_step cu x) /\ SInv (s_step cu x).
Proof.
  intros (a & b & d) L. dss x. simpl in *. subst. unfold s_law_at in L.
  unfold Model.s_step, Model.s_part1, Model.s_sync. simpl. rewrite Hok. simpl.
  unfold Model.s_part2. simpl.
  change (c0dt N dt cs) with (c0dt N dt c). change (c0dt N dt cu) with (c0dt N dt c).
  change (c0dt2 N dt cu) with (c0dt2 N dt c). change (cc2 N cu) with (cc2 N c).
  destruct (s_corr_on c) eqn:E; simpl; destruct L as (l1 & l2); rewrite l1, l2;
    match goal with |- context [s_loop N O dt ?a ?b ?d ?k ?jj ?p ?j] => destruct (s_loop N O dt a b d k jj p j) end;
    unfold Model.s_sync; simpl; rewrite ?E; simpl; rewrite ?orb_false_r; (split; [reflexivity|repeat split]).
Qed.

Lemma s_unsafe_iter_at n : forall x, SInv x -> (forall k, (k < n)%nat -> s_law_at (spjh (iter k (s_step cu) x))) ->
  s_sync cu (iter n (s_step cu) x) = iter n (s_step cs) (s_sync cu x).
Proof.
  induction n; intros x h L; [reflexivity|]. cbn [iter].
  destruct (s_commute_step_at x h (L 0%nat (Nat.lt_0_succ n))) as (e & h').
  rewrite IHn; [rewrite e; reflexivity|exact h'|].
  intros k hk. apply (L (S k)). lia.
Qed.

Lemma s_unsafe_eq_safe_at n s : s_coherent s ->
  (forall k, (k < n)%nat -> s_law_at (spjh (iter (S k) (s_step cu) s))) ->
  s_sync cu (iter (S n) (s_step cu) s) = iter (S n) (s_step cs) s.
Proof.
  intros h L. cbn [iter]. destruct (s_first_step s h) as (e & h'). rewrite s_unsafe_iter_at; [rewrite e; reflexivity|exact h'|exact L].
Qed.
End SLaws.
End SABAP.

(* ================================================================== MERCURIUS *)
Section MERCP.
Context {T : Type} (N : Num T) {P D : Type} (O : @MOps T P D) (dt : T).
Notation mst := (@mst P D).
Notation m_sync := (m_sync N O dt).
Notation m_step := (m_step N O dt).

Ltac dsm x := let p := fresh "p" in let d := fresh "dc" in let s := fresh "sy" in let r := fresh "rc" in
  let q := fresh "rr" in let a := fresh "al" in destruct x as [p d s r q a].

Lemma m_sync_idem : forall s, m_sync (m_sync s) = m_sync s.
Proof. intros s. dsm s. unfold Model.m_sync. simpl. destruct sy; reflexivity. Qed.

Section MLaws.
Hypothesis L_dh : forall p, m_to_dh O (m_to_inertial O p) = p.
Hypothesis L_kick : forall p, m_interaction O (mhalf N dt) (m_interaction O (mhalf N dt) p) = m_interaction O dt p.

Definition MInv (x : mst) : Prop :=
  m_is_sync x = false /\ m_recalc x = false /\ m_recalc_rcrit x = false /\ m_alloc x = true.
(* a synchronized state whose coordinates will be recomputed by the next part1: a fresh simulation, or one that was
   just synchronized (reb_integrator_mercurius_synchronize sets recalculate_coordinates_this_timestep) *)
Definition m_coherent (s : mst) : Prop := m_is_sync s = true /\ (m_alloc s = false \/ m_recalc s = true).

Lemma m_commute_step x : MInv x ->
  m_step true (m_sync x) = m_sync (m_step false x) /\ MInv (m_step false x).
Proof.
  intros (a & b & d & e). dsm x. simpl in *. subst.
  cbv [Model.m_step Model.m_part1 Model.m_part2 Model.m_sync mp md m_is_sync m_recalc m_recalc_rcrit m_alloc orb MInv].
  rewrite L_dh, L_kick. split; [reflexivity|repeat split].
Qed.

Lemma m_first_step s : m_coherent s -> m_step true s = m_sync (m_step false s) /\ MInv (m_step false s).
Proof.
  intros (a & b). dsm s. simpl in *. subst.
  destruct al.
  - destruct b as [b|b]; [discriminate|]. subst.
    destruct rr; cbv [Model.m_step Model.m_part1 Model.m_part2 Model.m_sync mp md m_is_sync m_recalc m_recalc_rcrit m_alloc orb MInv];
      (split; [reflexivity|repeat split]).
  - cbv [Model.m_step Model.m_part1 Model.m_part2 Model.m_sync mp md m_is_sync m_recalc m_recalc_rcrit m_alloc orb MInv].
    split; [reflexivity|repeat split].
Qed.

Lemma m_unsafe_iter n x : MInv x -> m_sync (iter n (m_step false) x) = iter n (m_step true) (m_sync x).
Proof.
  revert x. induction n; intros x h; [reflexivity|]. cbn [iter].
  destruct (m_commute_step x h) as (e & h'). rewrite IHn by exact h'. rewrite e. reflexivity.
Qed.

Lemma m_unsafe_eq_safe_S n s : m_coherent s -> m_sync (iter (S n) (m_step false) s) = iter (S n) (m_step true) s.
Proof.
  intros h. cbn [iter]. destruct (m_first_step s h) as (e & h'). rewrite m_unsafe_iter by exact h'. rewrite e. reflexivity.
Qed.
End MLaws.
End MERCP.

(* ================================================================== EOS *)
Section EOSP.
Context {T : Type} (N : Num T) {P : Type} (O : @EOps T P) (a0dt : T).
Notation e_sync := (e_sync O a0dt).
Notation e_part2 := (e_part2 N O a0dt).

Lemma e_sync_idem : forall s, e_sync (e_sync s) = e_sync s.
Proof. intros [p sy]. unfold Model.e_sync. simpl. destruct sy; reflexivity. Qed.

Section ELaws.
(* NOT satisfied exactly by the real operators: drift_shell0 is itself a splitting scheme (phi1, n substeps), so the
   merged drift differs from the two half drifts by that scheme's truncation error; the processors are inverse to
   each other only to the order of the scheme.  This is the clause "up to the scheme's own truncation error". *)
Hypothesis L_prepost : forall p, e_pre O (e_post O p) = p.
Hypothesis L_drift : forall p, e_drift0 O (nmul N a0dt (none N)) (e_drift0 O a0dt p) = e_drift0 O (nmul N a0dt (etwo N)) p.

Lemma e_commute_step x : e_is_sync x = false -> e_part2 true (e_sync x) = e_sync (e_part2 false x).
Proof.
  intros a. destruct x as [p sy]. simpl in a. subst. unfold Model.e_part2, Model.e_sync. simpl.
  rewrite L_prepost, L_drift. reflexivity.
Qed.
Lemma e_unsync_after x : e_is_sync (e_part2 false x) = false.
Proof. destruct x as [p sy]. reflexivity. Qed.
Lemma e_first_step s : e_is_sync s = true -> e_part2 true s = e_sync (e_part2 false s).
Proof. intros a. destruct s as [p sy]. simpl in a. subst. reflexivity. Qed.

Lemma e_unsafe_iter n x : e_is_sync x = false -> e_sync (iter n (e_part2 false) x) = iter n (e_part2 true) (e_sync x).
Proof.
  revert x. induction n; intros x h; [reflexivity|]. cbn [iter].
  rewrite IHn by apply e_unsync_after. rewrite e_commute_step by exact h. reflexivity.
Qed.
Lemma e_unsafe_eq_safe n s : e_is_sync s = true -> e_sync (iter n (e_part2 false) s) = iter n (e_part2 true) s.
Proof.
  intros h. destruct n.
  - destruct s as [p sy]. simpl in h. subst. reflexivity.
  - cbn [iter]. rewrite e_unsafe_iter by apply e_unsync_after. rewrite <- e_first_step by exact h. reflexivity.
Qed.
End ELaws.
End EOSP.

(* ================================================================== exact_finish_time *)
Section ExactP.
Context {T : Type} (N : Num T) {P J : Type}.

(* WHFast, safe_mode = 0 and keep_unsynchronized = 0: integrate with exact finishing (n+1 full steps of dt, one of dt')
   = the same steps in safe mode.  The laws are needed for dt (the merged drifts of the full steps); the shortened
   step starts from a synchronized state and needs none. *)
Lemma w_exact_finish (O : @WOps T P J) dt dt' (c : wcfg) n s0 :
  (forall j, from_inertial O (to_inertial_sync O j) = j) ->
  (forall k j, corrector O true k (corrector O false k j) = j) ->
  (forall j, corrector2 O true (corrector2 O false j) = j) ->
  (forall j, drift O (half N dt) (drift O (half N dt) j) = drift O dt j) ->
  (forall j, drift O (dt58 N dt) (drift O (dt38 N dt) j) = drift O dt j) ->
  w_init_ok c = true -> w_var c = false -> coherent O s0 ->
  w_integrate_exact N O dt dt' (S n) (with_mode c false false) s0
  = w_step N O dt' (with_mode c true false) (iter (S n) (w_step N O dt (with_mode c true false)) s0).
Proof.
  intros l1 l2 l3 l4 l5 hok hvar hco. unfold w_integrate_exact.
  rewrite (unsafe_eq_safe_S N O dt l1 l2 l3 l4 l5 c hok hvar n s0 hco).
  rewrite <- (unsafe_eq_safe_S N O dt l1 l2 l3 l4 l5 c hok hvar n s0 hco).
  set (x := iter (S n) (w_step N O dt (with_mode c false false)) s0).
  assert (hx : Inv x).
  { unfold x. cbn [iter]. destruct (first_step N O dt c hok hvar s0 hco) as (_ & i0).
    assert (G : forall m y, Inv y -> Inv (iter m (w_step N O dt (with_mode c false false)) y)).
    { induction m; intros y iy; [exact iy|]. cbn [iter]. apply IHm. apply (commute_step N O dt l1 l2 l3 l4 l5 c hok hvar y iy). }
    apply G. exact i0. }
  destruct hx as (a & b & d).
  assert (hc : coherent O (w_sync N O dt (with_mode c false false) x)).
  { rewrite (sync_unsynced N O dt c hok x a d). split; [reflexivity|]. right. right. cbn. rewrite l1. reflexivity. }
  destruct (first_step N O dt' c hok hvar _ hc) as (e & _). rewrite e. reflexivity.
Qed.
End ExactP.

(* ================================================================== WHFast512 *)
Section W512P.
Context {T : Type} (N : Num T) {P J : Type} (O : @XOps T P J) (dt : T) (gr : bool).
Notation xst := (@xst P J).

Lemma x_sync_idem keep (s : xst) : x_sync N O dt keep (x_sync N O dt keep s) = x_sync N O dt keep s.
Proof. destruct s as [p j sy]. unfold x_sync. cbn. destruct sy; [reflexivity|]. destruct keep; reflexivity. Qed.

(* keep_unsynchronized: no law *)
Definition Rx (x y : xst) : Prop :=
  xpjh x = xpjh y /\ x_is_sync x = x_is_sync y /\ (x_is_sync x = true -> xpart x = xpart y).
Lemma Rx_refl x : Rx x x. Proof. repeat split; auto. Qed.
Lemma Rx_trans x y z : Rx x y -> Rx y z -> Rx x z.
Proof. intros (a & b & d) (a' & b' & d'). repeat split; try congruence. intros h. rewrite d by auto. apply d'. congruence. Qed.
Lemma x_sync_Rx x : Rx (x_sync N O dt true x) x.
Proof. destruct x as [p j sy]. unfold x_sync, Rx. cbn. destruct sy; cbn; repeat split; auto; discriminate. Qed.
Lemma x_step_Rx x y : Rx x y -> x_step N O dt gr x = x_step N O dt gr y /\ (x_is_sync x = true -> False) \/
                                 Rx (x_step N O dt gr x) (x_step N O dt gr y).
Proof.
  intros (a & b & d). right. destruct x as [p j sy]. destruct y as [p' j' sy']. cbn in *. subst.
  unfold x_step, Rx. cbn. destruct sy'; cbn.
  - rewrite d by reflexivity. repeat split; auto.
  - repeat split; auto; discriminate.
Qed.
Lemma x_step_Rx' x y : Rx x y -> Rx (x_step N O dt gr x) (x_step N O dt gr y).
Proof. intros h. destruct (x_step_Rx x y h) as [(_ & _)|r]; [|exact r]. destruct (x_step_Rx x y h) as [(e & _)|r]; [rewrite e; apply Rx_refl|exact r]. Qed.
Lemma x_iter_Rx n x y : Rx x y -> Rx (iter n (x_step N O dt gr) x) (iter n (x_step N O dt gr) y).
Proof. revert x y. induction n; intros x y h; [exact h|]. cbn [iter]. apply IHn. apply x_step_Rx'. exact h. Qed.
Lemma x_run_steps n y : x_run N O dt true gr y (repeat XStep n) = iter n (x_step N O dt gr) y.
Proof. revert y. induction n; intros y; [reflexivity|]. simpl. unfold x_run in *. simpl. apply IHn. Qed.

Lemma x_transparent : forall w x y, Rx x y ->
  Rx (x_run N O dt true gr x w) (x_run N O dt true gr y (x_steps_only w)).
Proof.
  induction w as [|k w IH]; intros x y h; [exact h|].
  destruct k; unfold x_run in *; simpl.
  - apply IH. apply x_step_Rx'. exact h.
  - rewrite fold_left_app. fold (x_run N O dt true gr y (repeat XStep n)). rewrite x_run_steps.
    apply IH. eapply Rx_trans; [apply x_sync_Rx|]. apply x_iter_Rx. exact h.
  - apply IH. eapply Rx_trans; [apply x_sync_Rx|exact h].
  - apply IH. exact h.
Qed.
Lemma x_sync_part_Rx x y : Rx x y -> xpart (x_sync N O dt true x) = xpart (x_sync N O dt true y).
Proof. intros (a & b & d). destruct x as [p j sy]. destruct y as [p' j' sy']. cbn in *. subst. unfold x_sync. cbn. destruct sy'; cbn; auto. Qed.

(* synchronize after every step = synchronize once at the end, under the two laws *)
Section XLaws.
Hypothesis L_dh : forall j, x_to_dh O (x_to_inertial O j) = j.
Hypothesis L_drift : forall j, xdrift O (xhalf N dt) (xdrift O (xhalf N dt) j) = xdrift O dt j.
Lemma x_commute x : x_is_sync x = false ->
  x_sync N O dt false (x_step N O dt gr (x_sync N O dt false x)) = x_sync N O dt false (x_step N O dt gr x).
Proof. intros a. destruct x as [p j sy]. cbn in a. subst. unfold x_step, x_sync. cbn. rewrite L_dh, L_drift. reflexivity. Qed.
Lemma x_unsafe_eq_safe n s :
  x_sync N O dt false (iter n (x_step N O dt gr) s) = iter n (fun y => x_sync N O dt false (x_step N O dt gr y)) (x_sync N O dt false s).
Proof.
  revert s. induction n; intros s; [reflexivity|]. cbn [iter]. rewrite IHn. f_equal.
  destruct (x_is_sync s) eqn:E.
  - assert (u : x_sync N O dt false s = s) by (unfold x_sync; rewrite E; reflexivity). rewrite u. reflexivity.
  - symmetry. apply x_commute. exact E.
Qed.
End XLaws.
End W512P.
