(* C09 model: the DRIVERS (flag logic + operator sequencing, not the numerics) of
     reb_integrator_whfast_{init,part1,part2,synchronize}      (src/integrator_whfast.c)
     reb_integrator_saba_{part1,part2,synchronize}             (src/integrator_saba.c)
     reb_integrator_mercurius_{part1,part2,synchronize}        (src/integrator_mercurius.c)
     reb_integrator_eos_{part2,synchronize}                    (src/integrator_eos.c)
   and of the API calls that may or may not synchronize (reb_simulation_step / _synchronize / _integrate,
   save, copy, energy, particle access: src/rebound.c, src/integrator.c).

   Typing.  [P] is the content of r->particles that the force evaluation reads (positions; velocities only when
   forces depend on them, in which case part1 rewrites them too); masses and all other per-simulation constants are
   closed over by the operators.  [J] is the content of the cache ri_whfast.p_jh.  An operator is typed by what it
   READS: [interaction t p j] is reb_whfast_interaction_step after reb_simulation_update_acceleration on the
   particles [p]; operators that recompute the inertial positions from p_jh before they use them (symplectic
   correctors, SABA correctors) are typed J -> J, their scratch writes to r->particles are overwritten by the next
   to_inertial before anything reads them; [repos j p] is reb_particles_transform_jacobi_to_inertial_pos.
   (This typing is a checked obligation: C09_operator_typing on the access table regenerated from the C source.)
   [to_inertial] is reb_integrator_whfast_to_inertial (end of part1), [to_inertial_sync] the posvel transformation at
   the end of synchronize (the same C routine for real particles, kept apart because variational particles are
   treated differently).  Time arguments are computed in the arithmetic [Num T] exactly as the C expressions
   (r->dt/2., 5.*r->dt/8., 2.*c[0]*r->dt ...), so that the binary64 instance reproduces the traced arguments bit
   for bit.  Definitions only.

   Not modelled: messages (warnings/errors are paths that continue; the error paths that RETURN are modelled by
   [w_init_ok]), kernel numbers > 3, MEGNO accumulators (Ys, var of t), timestep warning, t and dt_last_done (C08). *)
From Coq Require Import ZArith List Bool.
From RV Require Import Common.Num.
Import ListNotations.

Fixpoint iter {A} (n : nat) (f : A -> A) (x : A) : A :=
  match n with O => x | S k => iter k f (f x) end.

Inductive kernel_t := KDefault | KModifiedKick | KComposition | KLazy.
Inductive coord_t := CJacobi | CDemocraticHeliocentric | CWHDS | CBarycentric.

Definition is_jacobi (c : coord_t) : bool := match c with CJacobi => true | _ => false end.
Definition is_default (k : kernel_t) : bool := match k with KDefault => true | _ => false end.
Definition corr_order_valid (n : nat) : bool :=
  match n with 0 | 3 | 5 | 7 | 11 | 17 => true | _ => false end.

(* ================================================================== WHFast *)
Section WHFast.
Context {T : Type} (N : Num T).
Context {P J : Type}.

Record WOps := {
  kepler : T -> J -> J;                 (* reb_whfast_kepler_step *)
  com : T -> J -> J;                    (* reb_whfast_com_step *)
  jump : T -> J -> J;                   (* reb_whfast_jump_step *)
  interaction : T -> P -> J -> J;       (* gravity at p, then reb_whfast_interaction_step *)
  interaction_mk : T -> P -> J -> J;    (* MODIFIEDKICK: jerk + interaction *)
  interaction_lazy : T -> P -> J -> P * J;   (* LAZY: displaced positions, re-evaluated kick, positions reset *)
  repos : J -> P -> P;                  (* jacobi_to_inertial_pos *)
  to_inertial : J -> P;                 (* reb_integrator_whfast_to_inertial (real particles) *)
  var_to_inertial1 : J -> P -> P;       (* part1: variational particles to inertial (pos, or posvel) *)
  to_inertial_sync : J -> P;            (* posvel transformation in synchronize (+ variational) *)
  from_inertial : P -> J;               (* reb_integrator_whfast_from_inertial *)
  corrector : bool -> nat -> J -> J;    (* reb_whfast_apply_corrector; true = forward (inv = 1.), false = inverse (inv = -1.) *)
  corrector2 : bool -> J -> J;          (* reb_whfast_apply_corrector2 *)
  var_com : T -> J -> J;                (* p_jh[vc.index].xyz += t * p_jh[vc.index].v  for every variational configuration *)
  var_to_inertial : J -> P -> P         (* variational particles to inertial, MEGNO acceleration terms *)
}.

Record wcfg := {
  w_safe : bool; w_keep : bool; w_kernel : kernel_t; w_corr : nat; w_corr2 : bool;
  w_coord : coord_t; w_var : bool       (* N_var_config > 0 *)
}.

Record wst := {
  part : P; pjh : J;
  is_sync : bool;          (* ri_whfast.is_synchronized *)
  recalc : bool;           (* ri_whfast.recalculate_coordinates_this_timestep *)
  alloc : bool             (* ri_whfast.N_allocated == N, i.e. p_jh exists *)
}.

Context (O : WOps) (dt : T).

Definition two := nadd N (none N) (none N).
Definition lit (z : BinNums.Z) : T := nofZ N z.
Definition half := ndiv N dt two.                                        (* r->dt/2. *)
Definition dt58 := ndiv N (nmul N (lit 5%Z) dt) (lit 8%Z).                   (* 5.*r->dt/8. *)
Definition dt38 := ndiv N (nmul N (lit 3%Z) dt) (lit 8%Z).                   (* 3.*r->dt/8. *)
Definition drift (t : T) (j : J) : J := com O t (kepler O t j).          (* kepler step, then com step *)

(* the error checks of reb_integrator_whfast_init that make part1 / synchronize RETURN early *)
Definition w_init_ok (c : wcfg) : bool :=
  negb (w_var c && negb (is_jacobi (w_coord c))) &&
  negb (negb (is_default (w_kernel c)) && negb (is_jacobi (w_coord c))) &&
  negb (w_var c && negb (is_default (w_kernel c))) &&
  negb (negb (Nat.eqb (w_corr c) 0) &&
        negb (match w_coord c with CJacobi | CBarycentric => true | _ => false end)) &&
  corr_order_valid (w_corr c).
(* keep_unsynchronized==1 && safe_mode==1 only raises an error message and CONTINUES: no branch here. *)

(* the tail of reb_integrator_whfast_init: (re)allocation of p_jh forces a recalculation *)
Definition w_init (s : wst) : wst :=
  if alloc s then s else {| part := part s; pjh := pjh s; is_sync := is_sync s; recalc := true; alloc := true |}.

Definition w_sync_drift (c : wcfg) (j : J) : J :=
  match w_kernel c with
  | KComposition => drift dt38 j
  | _ => drift half j
  end.

Definition w_sync_coords (c : wcfg) (j : J) : J :=
  let j1 := w_sync_drift c j in
  let j2 := if w_corr2 c then corrector2 O false j1 else j1 in
  if Nat.eqb (w_corr c) 0 then j2 else corrector O false (w_corr c) j2.

(* reb_integrator_whfast_synchronize *)
Definition w_sync (c : wcfg) (s : wst) : wst :=
  if negb (w_init_ok c) then s else
  let s := w_init s in
  if is_sync s then s else
  let j := w_sync_coords c (pjh s) in
  if w_keep c
  then {| part := to_inertial_sync O j; pjh := pjh s; is_sync := false; recalc := recalc s; alloc := alloc s |}
  else {| part := to_inertial_sync O j; pjh := j; is_sync := true; recalc := recalc s; alloc := alloc s |}.

Definition w_part1_drift (c : wcfg) (synced : bool) (j : J) : J :=
  if synced then
    let j1 := if Nat.eqb (w_corr c) 0 then j else corrector O true (w_corr c) j in
    let j2 := if w_corr2 c then corrector2 O true j1 else j1 in
    match w_kernel c with
    | KComposition => drift dt58 j2
    | _ => drift half j2
    end
  else drift dt j.

(* reb_integrator_whfast_part1 *)
Definition w_part1 (c : wcfg) (s : wst) : wst :=
  if negb (w_init_ok c) then s else
  let s := w_init s in
  let s := if w_safe c || recalc s then
             let s := if is_sync s then s else w_sync c s in   (* + warning *)
             {| part := part s; pjh := from_inertial O (part s); is_sync := is_sync s; recalc := false; alloc := alloc s |}
           else s in
  let j := jump O half (w_part1_drift c (is_sync s) (pjh s)) in
  let p := to_inertial O j in
  let j := if w_var c then var_com O half j else j in
  let p := if w_var c then var_to_inertial1 O j p else p in
  {| part := p; pjh := j; is_sync := is_sync s; recalc := recalc s; alloc := alloc s |}.

Definition dtq (z : BinNums.Z) (neg : bool) : T :=
  let x := if neg then nneg N dt else dt in ndiv N x (lit z).            (* -dt/6. , dt/4. ... *)

(* the kernel switch of reb_integrator_whfast_part2 *)
Definition w_kernel_step (c : wcfg) (p : P) (j : J) : P * J :=
  match w_kernel c with
  | KDefault => (p, jump O half (interaction O dt p j))
  | KModifiedKick => (p, interaction_mk O dt p j)
  | KComposition =>
      let j := interaction O (dtq 6%Z true) p j in
      let j := drift (dtq 4%Z true) j in
      let p := repos O j p in let j := interaction O (dtq 6%Z false) p j in
      let j := drift (dtq 8%Z false) j in
      let p := repos O j p in let j := interaction O dt p j in
      let j := drift (dtq 8%Z true) j in
      let p := repos O j p in let j := interaction O (dtq 6%Z true) p j in
      let j := drift (dtq 4%Z false) j in
      let p := repos O j p in let j := interaction O (dtq 6%Z false) p j in
      (p, j)
  | KLazy => interaction_lazy O dt p j
  end.

(* reb_integrator_whfast_part2 *)
Definition w_part2 (c : wcfg) (s : wst) : wst :=
  if negb (alloc s) then s else            (* p_j == NULL *)
  if negb (w_init_ok c) then s else        (* reb_integrator_whfast_init refuses the step (again): nothing is touched *)
  let '(p, j) := w_kernel_step c (part s) (pjh s) in
  let s := {| part := p; pjh := j; is_sync := false; recalc := recalc s; alloc := alloc s |} in
  let s := if w_safe c then w_sync c s else s in
  if w_var c then
    (* MEGNO / variational branch: needs synchronized x, v, a *)
    let saved := pjh s in
    let s1 := w_sync {| w_safe := w_safe c; w_keep := false; w_kernel := w_kernel c; w_corr := w_corr c;
                        w_corr2 := w_corr2 c; w_coord := w_coord c; w_var := w_var c |} s in
    let j1 := var_com O half (pjh s1) in
    let p1 := var_to_inertial O j1 (part s1) in
    if w_keep c
    then (* cache restored, then the half drift of the variational centres of mass redone on it *)
         {| part := p1; pjh := var_com O half saved; is_sync := false; recalc := recalc s1; alloc := alloc s1 |}
    else {| part := p1; pjh := j1; is_sync := is_sync s1; recalc := recalc s1; alloc := alloc s1 |}
  else s.

(* reb_simulation_step without pre/post timestep modifications: part1, gravity (inside interaction), part2 *)
Definition w_step (c : wcfg) (s : wst) : wst := w_part2 c (w_part1 c s).

(* ---- API level.  By inspection of src/rebound.c, src/output.c, src/tools.c, src/simulationarchive.c:
   reb_simulation_synchronize is called by reb_simulation_integrate (at the end; and by the exact_finish_time logic,
   which is incompatible with keep_unsynchronized and not modelled), by reb_simulation_step around pre/post timestep
   modifications (not modelled) and by the visualisation server on a COPY.  save_to_file, copy, energy and particle
   access do not synchronize and do not write the integrator state: they are the identity here.  This claim is what
   the trace/flag correspondence checks on the library. *)
Inductive wflag := FSafe (b : bool) | FKeep (b : bool) | FRecalc.
Inductive call := Step | Integrate (n : nat) | Synchronize | Save | Copy | Energy | GetParticles | SetFlag (f : wflag).

Definition set_cfg (c : wcfg) (f : wflag) : wcfg :=
  match f with
  | FSafe b => {| w_safe := b; w_keep := w_keep c; w_kernel := w_kernel c; w_corr := w_corr c; w_corr2 := w_corr2 c;
                  w_coord := w_coord c; w_var := w_var c |}
  | FKeep b => {| w_safe := w_safe c; w_keep := b; w_kernel := w_kernel c; w_corr := w_corr c; w_corr2 := w_corr2 c;
                  w_coord := w_coord c; w_var := w_var c |}
  | FRecalc => c
  end.
Definition set_st (s : wst) (f : wflag) : wst :=
  match f with
  | FRecalc => {| part := part s; pjh := pjh s; is_sync := is_sync s; recalc := true; alloc := alloc s |}
  | _ => s
  end.

Definition w_api (cs : wcfg * wst) (k : call) : wcfg * wst :=
  let '(c, s) := cs in
  match k with
  | Step => (c, w_step c s)
  | Integrate n => (c, w_sync c (iter n (w_step c) s))
  | Synchronize => (c, w_sync c s)
  | Save | Copy | Energy | GetParticles => (c, s)
  | SetFlag f => (set_cfg c f, set_st s f)
  end.

Definition w_run (cs : wcfg * wst) (w : list call) : wcfg * wst := fold_left w_api w cs.

(* the pure step sequence underlying a call sequence: inserted calls dropped, Integrate n -> n steps *)
Fixpoint steps_only (w : list call) : list call :=
  match w with
  | [] => []
  | Step :: r => Step :: steps_only r
  | Integrate n :: r => repeat Step n ++ steps_only r
  | _ :: r => steps_only r
  end.
Definition no_setflag (w : list call) : Prop := forall f, ~ In (SetFlag f) w.

End WHFast.

Arguments part {P J} _. Arguments pjh {P J} _. Arguments is_sync {P J} _. Arguments recalc {P J} _. Arguments alloc {P J} _.
Arguments Build_wst {P J} _ _ _ _ _.

(* reb_integrator_part1 / reb_integrator_part2 (src/integrator.c): with no particles (r->N == 0) the WHFast, SABA, MERCURIUS
   (and WHFast512, TRACE) code is not entered at all; part2 only advances t and dt_last_done.  On the integrator state a
   step of an empty simulation is the identity; N_allocated == N == 0 holds from the start (no cache is ever allocated). *)
Definition guarded {S : Type} (empty : bool) (step : S -> S) (s : S) : S := if empty then s else step s.

(* ================================================================== SABA *)
Section SABA.
Context {T : Type} (N : Num T).
Context {P J : Type}.

Record SOps := {
  s_kepler : T -> J -> J; s_com : T -> J -> J;
  s_interaction : T -> P -> J -> J;
  s_repos : J -> P -> P;
  s_to_inertial : J -> P;               (* reb_integrator_whfast_to_inertial, end of part1 *)
  s_to_inertial_sync : J -> P;          (* jacobi_to_inertial_posvel in synchronize *)
  s_from_inertial : P -> J;
  s_corrector : T -> J -> J             (* reb_saba_corrector_step(r, cc): argument is the unit-free coefficient *)
}.

Record scfg := {
  s_safe : bool; s_keep : bool;
  s_corr_on : bool;                     (* type >= 0x100 *)
  s_stages : nat;                       (* reb_saba_stages(type) *)
  s_c : list T; s_d : list T;           (* rows reb_saba_c[type%0x100], reb_saba_d[type%0x100] *)
  s_cc : T;                             (* reb_saba_cc[type%0x100] *)
  s_ok : bool                           (* no variational particles, Jacobi coordinates, valid type, whfast_init ok *)
}.

Record sst := {
  spart : P; spjh : J; s_is_sync : bool;
  s_recalc : bool;                      (* ri_whfast.recalculate_coordinates_this_timestep (shared with WHFast) *)
  s_alloc : bool;                       (* ri_whfast.p_jh != NULL *)
  s_crashed : bool                      (* memcpy from a NULL p_jh (synchronize of an unsynchronized state without cache) *)
}.

Context (O : SOps) (dt : T).
Definition stwo := nadd N (none N) (none N).
Definition sdrift (t : T) (j : J) : J := s_com O t (s_kepler O t j).
Definition cf (l : list T) (i : nat) : T := nth_d (nzero N) l i.
Definition c0dt (c : scfg) : T := nmul N (cf (s_c c) 0) dt.                       (* reb_saba_c[..][0]*r->dt *)
Definition c0dt2 (c : scfg) : T := nmul N (nmul N stwo (cf (s_c c) 0)) dt.       (* 2.*reb_saba_c[..][0]*r->dt *)
Definition cc2 (c : scfg) : T := nmul N stwo (s_cc c).                          (* 2.*reb_saba_cc[..] *)

(* reb_integrator_saba_synchronize: nothing happens on a synchronized state; otherwise, with keep_unsynchronized, the
   cache is copied aside first (a NULL cache on an unsynchronized state would be dereferenced: unreachable by stepping) *)
Definition s_sync (c : scfg) (s : sst) : sst :=
  if s_is_sync s then s else
    let crash := s_crashed s || (s_keep c && negb (s_alloc s)) in
    let j := if s_corr_on c then s_corrector O (s_cc c) (spjh s) else sdrift (c0dt c) (spjh s) in
    if s_keep c
    then {| spart := s_to_inertial_sync O j; spjh := spjh s; s_is_sync := false; s_recalc := s_recalc s; s_alloc := s_alloc s; s_crashed := crash |}
    else {| spart := s_to_inertial_sync O j; spjh := j; s_is_sync := true; s_recalc := s_recalc s; s_alloc := s_alloc s; s_crashed := crash |}.

(* reb_integrator_saba_part1 *)
Definition s_part1 (c : scfg) (s : sst) : sst :=
  if negb (s_ok c) then s else
  let rc := s_recalc s || negb (s_alloc s) in          (* reb_integrator_whfast_init *)
  let j := if s_safe c || rc then s_from_inertial O (spart s) else spjh s in   (* NB: no synchronize first *)
  let j := if s_corr_on c then
             sdrift (c0dt c) (s_corrector O (if s_is_sync s then s_cc c else cc2 c) j)
           else if s_is_sync s then sdrift (c0dt c) j else sdrift (c0dt2 c) j in
  {| spart := s_to_inertial O j; spjh := j; s_is_sync := s_is_sync s;
     s_recalc := false;    (* cleared if it was set; otherwise it was 0 already *)
     s_alloc := true; s_crashed := s_crashed s |}.

(* the loop of reb_integrator_saba_part2: for (j = 1; j < stages; j++) *)
Fixpoint s_loop (st : nat) (cl dl : list T) (k : nat) (jj : nat) (p : P) (j : J) : P * J :=
  match k with
  | 0%nat => (p, j)
  | S k' =>
      let i1 := if Nat.ltb (Nat.div st 2) jj then st - jj else jj in
      let j := sdrift (nmul N (cf cl i1) dt) j in
      let i2 := if Nat.ltb (Nat.div (st - 1) 2) jj then st - jj - 1 else jj in
      let p := s_repos O j p in
      let j := s_interaction O (nmul N (cf dl i2) dt) p j in
      s_loop st cl dl k' (S jj) p j
  end.

(* reb_integrator_saba_part2 *)
Definition s_part2 (c : scfg) (s : sst) : sst :=
  if negb (s_alloc s) then s else
  let j := s_interaction O (nmul N (cf (s_d c) 0) dt) (spart s) (spjh s) in
  let '(p, j) := s_loop (s_stages c) (s_c c) (s_d c) (s_stages c - 1) 1 (spart s) j in
  let j := if s_corr_on c then sdrift (c0dt c) j else j in
  let s := {| spart := p; spjh := j; s_is_sync := false; s_recalc := s_recalc s; s_alloc := s_alloc s; s_crashed := s_crashed s |} in
  if s_safe c then s_sync c s else s.

Definition s_step (c : scfg) (s : sst) : sst := s_part2 c (s_part1 c s).

Inductive scall := SStep | SIntegrate (n : nat) | SSynchronize | SSave | SCopy | SEnergy | SGetParticles.
Definition s_api (c : scfg) (s : sst) (k : scall) : sst :=
  match k with
  | SStep => s_step c s
  | SIntegrate n => s_sync c (iter n (s_step c) s)
  | SSynchronize => s_sync c s
  | _ => s
  end.
Definition s_run (c : scfg) (s : sst) (w : list scall) : sst := fold_left (s_api c) w s.
Fixpoint s_steps_only (w : list scall) : list scall :=
  match w with
  | [] => []
  | SStep :: r => SStep :: s_steps_only r
  | SIntegrate n :: r => repeat SStep n ++ s_steps_only r
  | _ :: r => s_steps_only r
  end.
End SABA.

Arguments spart {P J} _. Arguments spjh {P J} _. Arguments s_is_sync {P J} _. Arguments s_recalc {P J} _.
Arguments s_alloc {P J} _. Arguments s_crashed {P J} _.

(* ================================================================== MERCURIUS (Wisdom-Holman part; the encounter
   prediction + encounter step is one opaque operator that sits in the middle of the step) *)
Section MERCURIUS.
Context {T : Type} (N : Num T).
Context {P D : Type}.        (* P: r->particles (democratic heliocentric between part1 and synchronize); D: dcrit *)

Record MOps := {
  m_interaction : T -> P -> P;          (* gravity (MERCURIUS mode 0) at the current positions, then kick *)
  m_jump : T -> P -> P; m_com : T -> P -> P; m_kepler : T -> P -> P;
  m_encounter : T -> D -> P -> P;       (* backup, encounter_predict, encounter_step *)
  m_to_dh : P -> P;                     (* reb_integrator_mercurius_inertial_to_dh *)
  m_to_inertial : P -> P;               (* reb_integrator_mercurius_dh_to_inertial *)
  m_dcrit : P -> D
}.
Record mst := { mp : P; md : D; m_is_sync : bool; m_recalc : bool; m_recalc_rcrit : bool; m_alloc : bool }.

Context (O : MOps) (dt : T) (safe : bool).
Definition mhalf := ndiv N dt (nadd N (none N) (none N)).

Definition m_sync (s : mst) : mst :=
  if m_is_sync s then s else
  {| mp := m_to_inertial O (m_interaction O mhalf (mp s)); md := md s; m_is_sync := true; m_recalc := true;
     m_recalc_rcrit := m_recalc_rcrit s; m_alloc := m_alloc s |}.

Definition m_part1 (s : mst) : mst :=
  let s := if m_alloc s then s else
           {| mp := mp s; md := md s; m_is_sync := m_is_sync s; m_recalc := true; m_recalc_rcrit := true; m_alloc := true |} in
  let s := if safe || m_recalc s then
             let s := m_sync s in         (* only acts when unsynchronized (+ warning) *)
             {| mp := m_to_dh O (mp s); md := md s; m_is_sync := m_is_sync s; m_recalc := false;
                m_recalc_rcrit := m_recalc_rcrit s; m_alloc := m_alloc s |}
           else s in
  if m_recalc_rcrit s then
    let s := if m_is_sync s then s else
               let s1 := m_sync s in
               {| mp := m_to_dh O (mp s1); md := md s1; m_is_sync := m_is_sync s1; m_recalc := false;
                  m_recalc_rcrit := m_recalc_rcrit s1; m_alloc := m_alloc s1 |} in
    {| mp := mp s; md := m_dcrit O (mp s); m_is_sync := m_is_sync s; m_recalc := m_recalc s;
       m_recalc_rcrit := false; m_alloc := m_alloc s |}
  else s.

Definition m_part2 (s : mst) : mst :=
  let p := m_interaction O (if m_is_sync s then mhalf else dt) (mp s) in
  let p := m_jump O mhalf p in
  let p := m_com O dt p in
  let p := m_kepler O dt p in
  let p := m_encounter O dt (md s) p in
  let p := m_jump O mhalf p in
  let s := {| mp := p; md := md s; m_is_sync := false; m_recalc := m_recalc s; m_recalc_rcrit := m_recalc_rcrit s;
              m_alloc := m_alloc s |} in
  if safe then m_sync s else s.

Definition m_step (s : mst) : mst := m_part2 (m_part1 s).
End MERCURIUS.
Arguments mp {P D} _. Arguments md {P D} _. Arguments m_is_sync {P D} _. Arguments m_recalc {P D} _.
Arguments m_recalc_rcrit {P D} _. Arguments m_alloc {P D} _.

(* ================================================================== EOS (outer scheme phi0) *)
Section EOS.
Context {T : Type} (N : Num T).
Context {P : Type}.
Record EOps := {
  e_drift0 : T -> P -> P;               (* reb_integrator_eos_drift_shell0: itself a composition (phi1, n) *)
  e_middle : P -> P;                    (* everything in the phi0 arm of part2 after its first drift *)
  e_pre : P -> P; e_post : P -> P       (* pre/post processor of phi0 (identity unless PMLF4 / PLF7_6_4) *)
}.
Record est := { ep : P; e_is_sync : bool }.
Context (O : EOps) (a0dt : T) (safe : bool).   (* a0dt: the first-drift argument as synchronize computes it, e.g. dt*lf4_a *)
Definition etwo := nadd N (none N) (none N).

Definition e_sync (s : est) : est :=
  if e_is_sync s then s else {| ep := e_post O (e_drift0 O a0dt (ep s)); e_is_sync := true |}.

Definition e_part2 (s : est) : est :=
  let p := if e_is_sync s then e_pre O (ep s) else ep s in
  let dtfac := if e_is_sync s then none N else etwo in
  let p := e_middle O (e_drift0 O (nmul N a0dt dtfac) p) in
  let s := {| ep := p; e_is_sync := false |} in
  if safe then e_sync s else s.
End EOS.
Arguments ep {P} _. Arguments e_is_sync {P} _.

(* ================================================================== exact_finish_time = 1 (reb_check_exit, src/rebound.c)
   reb_simulation_integrate with exact_finish_time: full steps while the next one would not overshoot; then
   status = LAST_STEP, reb_simulation_synchronize (with the OLD dt), r->dt = tmax - t, one shortened step, and at the
   end of integrate reb_simulation_synchronize again (still with the shortened dt) before r->dt is restored.
   [n] = number of full steps, [dt'] = the shortened step (both determined by the time bookkeeping of C08; here they
   are inputs).  Only the interaction with synchronisation is modelled. *)
Section ExactFinish.
Context {T : Type} (N : Num T) {P J : Type}.
Definition w_integrate_exact (O : @WOps T P J) (dt dt' : T) (n : nat) (c : wcfg) (s : @wst P J) : @wst P J :=
  let s1 := w_sync N O dt c (iter n (w_step N O dt c) s) in
  w_sync N O dt' c (w_step N O dt' c s1).
Definition s_integrate_exact (O : @SOps T P J) (dt dt' : T) (n : nat) (c : @scfg T) (s : @sst P J) : @sst P J :=
  let s1 := s_sync N O dt c (iter n (s_step N O dt c) s) in
  s_sync N O dt' c (s_step N O dt' c s1).
End ExactFinish.

(* ================================================================== WHFast512 (src/integrator_whfast512.c), flag level
   No safe_mode: every step leaves the state unsynchronized.  The AVX512 kernels are opaque operators. *)
Section WHFast512.
Context {T : Type} (N : Num T) {P J : Type}.
Record XOps := {
  x_kepler : T -> J -> J; x_com : T -> J -> J; x_jump : T -> J -> J;
  x_interaction : T -> J -> J;          (* reb_whfast512_interaction_step_{8,4,2}planets: own gravity, on p_jh *)
  x_to_dh : P -> J;                     (* inertial_to_democraticheliocentric_posvel *)
  x_to_inertial : J -> P                (* democraticheliocentric_to_inertial_posvel *)
}.
Record xst := { xpart : P; xpjh : J; x_is_sync : bool }.
Context (O : XOps) (dt : T) (keep gr : bool).
Definition xhalf := ndiv N dt (nadd N (none N) (none N)).
Definition xdrift (t : T) (j : J) : J := x_com O t (x_kepler O t j).

(* reb_integrator_whfast512_part1 (the whole step; part2 does nothing) *)
Definition x_step (s : xst) : xst :=
  let j := if x_is_sync s then xdrift xhalf (x_to_dh O (xpart s)) else xdrift dt (xpjh s) in
  let j := x_jump O (if gr then xhalf else dt) j in
  let j := x_interaction O dt j in
  let j := if gr then x_jump O xhalf j else j in
  {| xpart := xpart s; xpjh := j; x_is_sync := false |}.

(* reb_integrator_whfast512_synchronize *)
Definition x_sync (s : xst) : xst :=
  if x_is_sync s then s else
  let j := xdrift xhalf (xpjh s) in
  if keep then {| xpart := x_to_inertial O j; xpjh := xpjh s; x_is_sync := false |}
  else {| xpart := x_to_inertial O j; xpjh := j; x_is_sync := true |}.

Inductive xcall := XStep | XIntegrate (n : nat) | XSync | XNop.
Definition x_api (s : xst) (k : xcall) : xst :=
  match k with
  | XStep => x_step s
  | XIntegrate n => x_sync (iter n x_step s)
  | XSync => x_sync s
  | XNop => s
  end.
Definition x_run (s : xst) (w : list xcall) : xst := fold_left x_api w s.
Fixpoint x_steps_only (w : list xcall) : list xcall :=
  match w with
  | [] => []
  | XStep :: r => XStep :: x_steps_only r
  | XIntegrate n :: r => repeat XStep n ++ x_steps_only r
  | _ :: r => x_steps_only r
  end.
End WHFast512.
Arguments xpart {P J} _. Arguments xpjh {P J} _. Arguments x_is_sync {P J} _.
