(* C09: the part of Simulationarchive.getSimulation (rebound/simulationarchive.py) that decides how the restored
   simulation is synchronised, as a tiny statement language.  The program itself is REGENERATED from the current
   Python source by tools/translate_c09_getsim.py (coq/Gen/C09GetSim.v); this file gives the language and its
   evaluator.  Statements that do not mention keep_unsynchronized / synchronize / integrate / exact_finish_time /
   return are dropped by the translator (it fails on anything else it does not understand).  Definitions only. *)
From Coq Require Import List Bool.
Import ListNotations.

Inductive gmode := Snapshot | Close | Exact.
Definition gmode_eqb (a b : gmode) : bool :=
  match a, b with Snapshot, Snapshot | Close, Close | Exact, Exact => true | _, _ => false end.

Inductive ginteg := IWhfast | ISaba | IMercurius | IOther.
Definition ginteg_eqb (a b : ginteg) : bool :=
  match a, b with IWhfast, IWhfast | ISaba, ISaba | IMercurius, IMercurius | IOther, IOther => true | _, _ => false end.

Inductive gcond :=
| CModeIs (m : gmode)          (* mode == '<m>' *)
| CIntegIs (i : ginteg)        (* sim.integrator == "<i>" *)
| CSafe.                       (* the archive's integrator is whfast / saba / mercurius AND its safe_mode == 1 *)

Inductive gstmt :=
| GSetKeep0                    (* keep_unsynchronized = 0 *)
| GCopyWhfast                  (* sim.ri_whfast.keep_unsynchronized = keep_unsynchronized *)
| GCopySaba                    (* sim.ri_saba.keep_unsynchronized = keep_unsynchronized *)
| GSetEft                      (* exact_finish_time = 1 if mode=='exact' else 0 *)
| GSync                        (* sim.synchronize() *)
| GIntegrate                   (* sim.integrate(t, exact_finish_time=exact_finish_time) *)
| GReturn                      (* return sim *)
| GIf (c : gcond) (a b : list gstmt).

(* what reaches the C library: the flags copied so far (None = left as restored from the archive) *)
Inductive gevent :=
| EvSync (kw ks : option bool)
| EvIntegrate (kw ks : option bool) (eft : option bool).

Record gstate := { g_keep : bool; g_kw : option bool; g_ks : option bool; g_eft : option bool;
                   g_events : list gevent; g_done : bool }.

Section Exec.
Context (mode : gmode) (integ : ginteg) (safe : bool).     (* safe: safe_mode of the integrator in use *)
Definition gtest (c : gcond) : bool :=
  match c with
  | CModeIs m => gmode_eqb mode m
  | CIntegIs i => ginteg_eqb integ i
  | CSafe => match integ with IOther => false | _ => safe end
  end.

Fixpoint gexec (s : gstmt) (st : gstate) : gstate :=
  if g_done st then st else
  match s with
  | GSetKeep0 => {| g_keep := false; g_kw := g_kw st; g_ks := g_ks st; g_eft := g_eft st; g_events := g_events st; g_done := false |}
  | GCopyWhfast => {| g_keep := g_keep st; g_kw := Some (g_keep st); g_ks := g_ks st; g_eft := g_eft st; g_events := g_events st; g_done := false |}
  | GCopySaba => {| g_keep := g_keep st; g_kw := g_kw st; g_ks := Some (g_keep st); g_eft := g_eft st; g_events := g_events st; g_done := false |}
  | GSetEft => {| g_keep := g_keep st; g_kw := g_kw st; g_ks := g_ks st; g_eft := Some (gmode_eqb mode Exact); g_events := g_events st; g_done := false |}
  | GSync => {| g_keep := g_keep st; g_kw := g_kw st; g_ks := g_ks st; g_eft := g_eft st;
                g_events := g_events st ++ [EvSync (g_kw st) (g_ks st)]; g_done := false |}
  | GIntegrate => {| g_keep := g_keep st; g_kw := g_kw st; g_ks := g_ks st; g_eft := g_eft st;
                     g_events := g_events st ++ [EvIntegrate (g_kw st) (g_ks st) (g_eft st)]; g_done := false |}
  | GReturn => {| g_keep := g_keep st; g_kw := g_kw st; g_ks := g_ks st; g_eft := g_eft st; g_events := g_events st; g_done := true |}
  | GIf c a b =>
      (fix run (l : list gstmt) (st : gstate) : gstate :=
         match l with [] => st | x :: r => run r (gexec x st) end) (if gtest c then a else b) st
  end.
Definition gexec_list (l : list gstmt) (st : gstate) : gstate := fold_left (fun st s => gexec s st) l st.
End Exec.

(* getSimulation(t, mode, keep_unsynchronized = keep_arg) on an archive written by integrator integ with safe_mode = safe *)
Definition getsim_events (body : list gstmt) (mode : gmode) (integ : ginteg) (safe keep_arg : bool) : list gevent * bool :=
  let st := gexec_list mode integ safe body
              {| g_keep := keep_arg; g_kw := None; g_ks := None; g_eft := None; g_events := []; g_done := false |} in
  (g_events st, g_done st).
