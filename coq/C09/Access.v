(* C09: the access language of tools/translate_c09_access.py and the checks that justify the TYPING of the operators
   in C09/Model.v (what each operator function of the C source reads and writes: r->particles = RPart, the cache
   ri_whfast.p_jh = RPjh, ri_whfast.p_temp = RTmp, synchronize's malloc'ed copy = RSave).  The table itself is
   regenerated from the current source (coq/Gen/C09Access.v); C09_operator_typing re-runs these checks on it. *)
From Coq Require Import List String Bool.
Import ListNotations.
Open Scope string_scope.

Inductive root := RPart | RPjh | RPartV | RPjhV | RTmp | RSave | ROther.   (* ..V: a slice array+offset (variational particles) *)
Inductive acc := Rd (r : root) (f : string) | Wr (r : root) (f : string) | Call (name : string) (args : list root).

Definition root_eqb (a b : root) : bool :=
  match a, b with RPart, RPart | RPjh, RPjh | RPartV, RPartV | RPjhV, RPjhV | RTmp, RTmp | RSave, RSave | ROther, ROther => true | _, _ => false end.
Fixpoint roots_eqb (a b : list root) : bool :=
  match a, b with [] , [] => true | x :: r, y :: s => root_eqb x y && roots_eqb r s | _, _ => false end.
Definition mem (s : string) (l : list string) : bool := existsb (String.eqb s) l.
Fixpoint contains (sub s : string) : bool :=
  if String.prefix sub s then true else match s with EmptyString => false | String _ r => contains sub r end.
Definition get (t : list (string * list acc)) (n : string) : option (list acc) :=
  match find (fun e => String.eqb (fst e) n) t with Some e => Some (snd e) | None => None end.
Definition starts (args pre : list root) : bool := roots_eqb (firstn (List.length pre) args) pre.

(* callees that advance / change the positions held in the cache *)
Definition moves_cache : list string :=
  ["reb_whfast_kepler_step"; "reb_whfast_com_step"; "reb_whfast_jump_step"; "reb_whfast_corrector_Z"; "reb_whfast_apply_corrector";
   "reb_whfast_operator_C"; "reb_whfast_operator_Y"; "reb_whfast_operator_U"; "reb_whfast_apply_corrector2"; "reb_saba_corrector_step"].
Definition pos_fields := ["x"; "y"; "z"].
Definition acc_fields := ["ax"; "ay"; "az"].

(* T1: Kepler, com and jump steps are J -> J: of r->particles they read the masses only, they write the cache only *)
Definition j_only (evs : list acc) : bool :=
  forallb (fun e => match e with
                    | Wr RPart _ | Wr RPartV _ => false
                    | Rd RPart f | Rd RPartV f => String.eqb f "m"
                    | Call n args => forallb (fun r => match r with RPart | RPartV => false | _ => true end) args &&
                                     (String.eqb n "reb_whfast_kepler_solver" || negb (contains "reb_" n))
                    | _ => true
                    end) evs.
Definition solver_local (evs : list acc) : bool :=       (* the solver touches only the array it is handed *)
  forallb (fun e => match e with Rd r _ | Wr r _ => root_eqb r ROther | Call n _ => negb (contains "reb_particles" n) end) evs.

(* T2: the interaction step reads accelerations and masses of r->particles, never writes r->particles, and changes only
   the velocities of the cache (plus the scratch accelerations written by inertial_to_jacobi_acc) *)
Definition interaction_typed (evs : list acc) : bool :=
  forallb (fun e => match e with
                    | Wr RPart _ | Wr RPartV _ => false
                    | Rd RPart f | Rd RPartV f => mem f ("m" :: acc_fields)
                    | Wr RPjh f | Wr RPjhV f => mem f ["vx"; "vy"; "vz"]
                    | Call n args => if contains "reb_particles_transform" n
                                     then contains "inertial_to_jacobi_acc" n && (starts args [RPart; RPjh] || starts args [RPartV; RPjhV])
                                     else negb (contains "reb_" n)
                    | _ => true
                    end) evs.

(* T3: correctors recompute the inertial positions from the cache before every force evaluation, read no position or
   velocity of r->particles themselves, and write only scratch accelerations there: typed J -> J *)
Fixpoint recompute_before_use (evs : list acc) (fresh : bool) : bool :=
  match evs with
  | [] => true
  | e :: r =>
      match e with
      | Call n args =>
          if contains "_to_inertial_pos" n then
            if starts args [RPart; RPjh] then recompute_before_use r true          (* the whole array, real particles *)
            else starts args [RPartV; RPjhV] && recompute_before_use r fresh         (* a variational slice: does not refresh the real ones *)
          else if String.eqb n "reb_simulation_update_acceleration" then fresh && recompute_before_use r fresh
          else if String.eqb n "reb_whfast_calculate_jerk" then fresh && recompute_before_use r fresh
          else if mem n moves_cache then recompute_before_use r false
          else recompute_before_use r fresh
      | Wr RPjh f => if mem f pos_fields then recompute_before_use r false else recompute_before_use r fresh
      | Rd RPart f | Rd RPartV f => negb (mem f ["x"; "y"; "z"; "vx"; "vy"; "vz"; "*"]) && recompute_before_use r fresh
      | Wr RPart f | Wr RPartV f => mem f acc_fields && recompute_before_use r fresh
      | _ => recompute_before_use r fresh
      end
  end.
Definition only_calls (allowed : list string) (evs : list acc) : bool :=
  forallb (fun e => match e with Call n _ => mem n allowed | _ => false end) evs.

(* T4: to_inertial writes r->particles from the cache, from_inertial writes the cache from r->particles, nothing else *)
Definition to_inertial_typed (evs : list acc) : bool :=
  forallb (fun e => match e with Call n args => contains "_to_inertial_posvel" n && starts args [RPart; RPjh] | _ => false end) evs.
(* from_inertial additionally converts each variational slice with the same routine *)
Definition from_inertial_typed (evs : list acc) : bool :=
  forallb (fun e => match e with Call n args => contains "reb_particles_transform_inertial_to_" n && contains "_posvel" n && (starts args [RPart; RPjh] || starts args [RPartV; RPjhV]) | _ => false end) evs.

(* T5: synchronize saves the cache before it moves it and puts it back after the last use (keep_unsynchronized) *)
Fixpoint index_of (p : acc -> bool) (evs : list acc) (i : nat) : option nat :=
  match evs with [] => None | e :: r => if p e then Some i else index_of p r (S i) end.
Fixpoint last_index_of (p : acc -> bool) (evs : list acc) (i : nat) (best : option nat) : option nat :=
  match evs with [] => best | e :: r => last_index_of p r (S i) (if p e then Some i else best) end.
Definition is_call (pred : string -> list root -> bool) (e : acc) : bool := match e with Call n a => pred n a | _ => false end.
Definition sync_saves_and_restores (evs : list acc) : bool :=
  let save := index_of (is_call (fun n a => String.eqb n "memcpy" && roots_eqb a [RSave; RPjh])) evs 0 in
  let restore := last_index_of (is_call (fun n a => String.eqb n "memcpy" && roots_eqb a [RPjh; RSave])) evs 0 None in
  let first_move := index_of (is_call (fun n _ => mem n moves_cache)) evs 0 in
  let last_use := last_index_of (is_call (fun n _ => mem n moves_cache || contains "_to_inertial_posvel" n)) evs 0 None in
  match save, restore, first_move, last_use with
  | Some s, Some r, Some m, Some u => Nat.ltb s m && Nat.ltb u r
  | _, _, _, _ => false
  end &&
  forallb (fun e => match e with Wr RPjh _ | Wr RPart _ | Wr RPjhV _ | Wr RPartV _ => false | _ => true end) evs.

Definition chk (t : list (string * list acc)) (n : string) (p : list acc -> bool) : bool :=
  match get t n with Some evs => p evs | None => false end.

Definition typing_ok (t : list (string * list acc)) : bool :=
  chk t "reb_whfast_kepler_step" j_only && chk t "reb_whfast_com_step" j_only && chk t "reb_whfast_jump_step" j_only &&
  chk t "reb_whfast_kepler_solver" solver_local &&
  chk t "reb_whfast_interaction_step" interaction_typed &&
  chk t "reb_whfast_corrector_Z" (fun e => recompute_before_use e false) &&
  chk t "reb_whfast_operator_C" (fun e => recompute_before_use e false) &&
  chk t "reb_saba_corrector_step" (fun e => recompute_before_use e false) &&
  chk t "reb_whfast_apply_corrector" (only_calls ["reb_whfast_corrector_Z"]) &&
  chk t "reb_whfast_operator_Y" (only_calls ["reb_whfast_operator_C"]) &&
  chk t "reb_whfast_operator_U" (only_calls ["reb_whfast_kepler_step"; "reb_whfast_operator_Y"]) &&
  chk t "reb_whfast_apply_corrector2" (only_calls ["reb_whfast_operator_U"]) &&
  chk t "reb_integrator_whfast_to_inertial" to_inertial_typed &&
  chk t "reb_integrator_whfast_from_inertial" from_inertial_typed &&
  chk t "reb_integrator_whfast_synchronize" sync_saves_and_restores &&
  chk t "reb_integrator_saba_synchronize" sync_saves_and_restores.
