(* C09: the WHFast and SABA drivers instantiated with CONCRETE exact-arithmetic operators of other properties:
     Kepler drift   = C03's exact Kepler flow [kflow] applied to every Jacobi body (mass parameters [mus]);
     com drift      = free drift of the Jacobi centre of mass (slot 0);
     coordinates    = C12's Jacobi maps jac_fwd / jac_inv applied to each of the six components;
     interaction    = ARBITRARY (no law about it is needed for WHFast / SABA without correctors; the SABA corrector is
                      a velocity kick computed from positions only).
   The flow laws are DISCHARGED: merge of two half drifts by C03_kflow_group, from_inertial after to_inertial by
   C12_jacobi_forward_after_inverse.  What remains is a condition on the RUN, not on the operators: at every state in
   which two drifts are merged each Jacobi body is on an elliptic orbit (domain of C03's group law), and the masses
   are non-degenerate (partial sums non-zero: domain of C12's theorem). *)
From Coq Require Import ZArith List Reals Lra Lia.
From RV Require C03.Proofs C03.Solve C12.Model C12.Proofs C12.ProofsR.
From RV Require Import Common.Num Common.RealNum C09.Model C09.Proofs.
Import ListNotations.
Open Scope R_scope.

Notation P6 := C03.Proofs.P6.
Notation kflow := C03.Solve.kflow.
Notation ell_dom := C03.Solve.ell_dom.

Definition comp (k : nat) (p : P6) : R :=
  let '(x, y, z, vx, vy, vz) := p in
  match k with 0%nat => x | 1%nat => y | 2%nat => z | 3%nat => vx | 4%nat => vy | _ => vz end.

Fixpoint build6 (a b c d e f : list R) : list P6 :=
  match a, b, c, d, e, f with
  | x :: a', y :: b', z :: c', vx :: d', vy :: e', vz :: f' => (x, y, z, vx, vy, vz) :: build6 a' b' c' d' e' f'
  | _, _, _, _, _, _ => []
  end.

(* a routine of transformations.c acts on each of the six components separately *)
Definition lift6 (g : list R -> list R) (l : list P6) : list P6 :=
  build6 (g (map (comp 0) l)) (g (map (comp 1) l)) (g (map (comp 2) l))
         (g (map (comp 3) l)) (g (map (comp 4) l)) (g (map (comp 5) l)).

Lemma build6_comp : forall l : list P6,
  build6 (map (comp 0) l) (map (comp 1) l) (map (comp 2) l) (map (comp 3) l) (map (comp 4) l) (map (comp 5) l) = l.
Proof. induction l as [|[[[[[x y] z] vx] vy] vz] r IH]; [reflexivity|]. cbn [map build6 comp]. rewrite IH. reflexivity. Qed.

Lemma comp_build6 : forall n a b c d e f,
  length a = n -> length b = n -> length c = n -> length d = n -> length e = n -> length f = n ->
  map (comp 0) (build6 a b c d e f) = a /\ map (comp 1) (build6 a b c d e f) = b /\
  map (comp 2) (build6 a b c d e f) = c /\ map (comp 3) (build6 a b c d e f) = d /\
  map (comp 4) (build6 a b c d e f) = e /\ map (comp 5) (build6 a b c d e f) = f.
Proof.
  induction n; intros [|x a] [|y b] [|z c] [|vx d] [|vy e] [|vz f] ha hb hc hd he hf; cbn in *; try discriminate.
  - repeat split.
  - injection ha as ha. injection hb as hb. injection hc as hc. injection hd as hd. injection he as he. injection hf as hf.
    destruct (IHn a b c d e f ha hb hc hd he hf) as (i0 & i1 & i2 & i3 & i4 & i5).
    rewrite i0, i1, i2, i3, i4, i5. repeat split.
Qed.

Lemma lift6_id g (l : list P6) : (forall k, g (map (comp k) l) = map (comp k) l) -> lift6 g l = l.
Proof. intros h. unfold lift6. rewrite !h. apply build6_comp. Qed.

Lemma lift6_lift6 f g (l : list P6) : (forall k, length (g (map (comp k) l)) = length l) ->
  lift6 f (lift6 g l) = lift6 (fun c => f (g c)) l.
Proof.
  intros h. unfold lift6 at 1.
  destruct (comp_build6 (length l) _ _ _ _ _ _ (h 0%nat) (h 1%nat) (h 2%nat) (h 3%nat) (h 4%nat) (h 5%nat)) as (i0 & i1 & i2 & i3 & i4 & i5).
  unfold lift6 at 1 2 3 4 5 6. rewrite i0, i1, i2, i3, i4, i5. reflexivity.
Qed.

(* ------------------------------------------------------------------ the operators *)
Section WJ.
Context (ms : list R) (na : nat) (mus : list R).     (* masses, N_active, Kepler mass parameters G*eta_i of bodies 1.. *)
Let mtot := C12.Proofs.Msum (firstn na ms).

Definition wj_to_inertial (j : list P6) : list P6 := lift6 (fun c => C12.Model.jac_inv RNum ms c mtot na) j.
Definition wj_from_inertial (p : list P6) : list P6 := lift6 (fun c => fst (C12.Model.jac_fwd RNum ms c na)) p.

Fixpoint kmap (t : R) (mu : list R) (l : list P6) : list P6 :=
  match mu, l with
  | m :: mu', p :: l' => kflow m t p :: kmap t mu' l'
  | _, _ => l
  end.
Definition wj_kepler (t : R) (j : list P6) : list P6 :=
  match j with [] => [] | j0 :: r => j0 :: kmap t mus r end.
Definition drift1 (t : R) (p : P6) : P6 :=
  let '(x, y, z, vx, vy, vz) := p in (x + t * vx, y + t * vy, z + t * vz, vx, vy, vz).
Definition wj_com (t : R) (j : list P6) : list P6 :=
  match j with [] => [] | j0 :: r => drift1 t j0 :: r end.

(* domain: one entry per particle, every Jacobi body on an elliptic orbit *)
Fixpoint all_ell (mu : list R) (l : list P6) : Prop :=
  match mu, l with
  | m :: mu', p :: l' => ell_dom m p /\ all_ell mu' l'
  | _, _ => True
  end.
Definition wj_dom (j : list P6) : Prop := length j = length ms /\ all_ell mus (tl j).
(* the masses are non-degenerate: C12's side condition holds for every coordinate vector of the right length *)
Definition masses_ok : Prop :=
  (1 <= na <= length ms)%nat /\ forall js, length js = length ms -> C12.ProofsR.jac_ok_r ms js mtot na.

Lemma kmap_length t mu : forall l, length (kmap t mu l) = length l.
Proof. revert mu. induction mu as [|m mu IH]; intros [|p l]; cbn; auto. Qed.
Lemma wj_kepler_length t j : length (wj_kepler t j) = length j.
Proof. destruct j; cbn; [reflexivity|]. rewrite kmap_length. reflexivity. Qed.
Lemma wj_com_length t j : length (wj_com t j) = length j.
Proof. destruct j; reflexivity. Qed.

Lemma kmap_group a b : forall mu l, all_ell mu l -> kmap b mu (kmap a mu l) = kmap (a + b) mu l.
Proof.
  induction mu as [|m mu IH]; intros [|p l] h; cbn [kmap all_ell] in *; try reflexivity.
  destruct h as (h1 & h2). rewrite (C03.Solve.kflow_group m a b p h1). rewrite IH by exact h2. reflexivity.
Qed.
Lemma drift1_add a b p : drift1 b (drift1 a p) = drift1 (a + b) p.
Proof. destruct p as [[[[[x y] z] vx] vy] vz]. cbn. rewrite !Rmult_plus_distr_r, <- !Rplus_assoc. reflexivity. Qed.

Definition wj_drift (t : R) (j : list P6) := wj_com t (wj_kepler t j).
Lemma wj_drift_group a b j : all_ell mus (tl j) -> wj_drift b (wj_drift a j) = wj_drift (a + b) j.
Proof.
  intros h. destruct j as [|j0 r]; [reflexivity|]. cbn [tl] in h. unfold wj_drift. cbn [wj_kepler wj_com].
  rewrite drift1_add. rewrite kmap_group by exact h. reflexivity.
Qed.

Lemma jac_inv_length js : masses_ok -> length js = length ms ->
  length (C12.Model.jac_inv RNum ms js mtot na) = length js.
Proof.
  intros (hna & hok) hl.
  pose proof (C12.ProofsR.jacobi_roundtrip_r ms js mtot na (hok js hl)) as E.
  (* the forward map preserves the length of its input *)
  assert (F : forall qs, length ms = length qs -> length (fst (C12.Model.jac_fwd RNum ms qs na)) = length qs).
  { intros qs hq. unfold C12.Model.jac_fwd. destruct ms as [|m0 mr]; destruct qs as [|q0 qr]; cbn in hq; try discriminate; [reflexivity|].
    destruct (C12.Model.jac_fwd_act RNum (combine (firstn (na - 1) mr) (firstn (na - 1) qr)) m0 (nmul RNum m0 q0)) as [act [e s]] eqn:A.
    cbn. pose proof (C12.Proofs.jac_fwd_act_length _ _ _ _ _ A) as La.
    rewrite app_length, La. unfold C12.Model.jac_fwd_tp. rewrite map_length, combine_length, !firstn_length, skipn_length.
    injection hq as hq. lia. }
  destruct (Nat.eq_dec (length (C12.Model.jac_inv RNum ms js mtot na)) (length ms)) as [e|ne]; [congruence|].
  (* if the lengths differed, the forward map could not return js *)
  exfalso. unfold C12.Model.jac_inv in *. destruct ms as [|m0 mr]; destruct js as [|j0 jr]; cbn in hl; try discriminate.
  - cbn in hna. lia.
  - destruct (C12.Model.jac_inv_act RNum (combine (firstn (na - 1) mr) (firstn (na - 1) jr)) mtot (nmul RNum j0 mtot)) as [act [e s]] eqn:A.
    destruct (C12.ProofsR.jac_inv_act_eta _ _ _ _ _ _ A) as (_ & La).
    apply ne. cbn. rewrite app_length, La. unfold C12.Model.jac_inv_tp.
    rewrite map_length, combine_length, !firstn_length, skipn_length. injection hl as hl. lia.
Qed.

Lemma wj_from_to j : masses_ok -> length j = length ms -> wj_from_inertial (wj_to_inertial j) = j.
Proof.
  intros hm hl. unfold wj_from_inertial, wj_to_inertial.
  rewrite lift6_lift6.
  - apply lift6_id. intros k. destruct hm as (hna & hok).
    rewrite (C12.ProofsR.jacobi_roundtrip_r ms (map (comp k) j) mtot na); [reflexivity|].
    apply hok. rewrite map_length. exact hl.
  - intros k. rewrite jac_inv_length; rewrite ?map_length; auto.
Qed.

(* ------------------------------------------------------------------ WHFast *)
Context (I : R -> list P6 -> list P6 -> list P6) (Imk : R -> list P6 -> list P6 -> list P6)
        (Ilazy : R -> list P6 -> list P6 -> list P6 * list P6) (rep : list P6 -> list P6 -> list P6).

Definition WJ : @WOps R (list P6) (list P6) := {|
  kepler := wj_kepler; com := wj_com; jump := fun _ j => j;      (* jump step: nothing to do in Jacobi coordinates *)
  interaction := I; interaction_mk := Imk; interaction_lazy := Ilazy; repos := rep;
  to_inertial := wj_to_inertial; var_to_inertial1 := fun _ p => p;
  to_inertial_sync := wj_to_inertial; from_inertial := wj_from_inertial;
  corrector := fun _ _ j => j; corrector2 := fun _ j => j;        (* only used with corrector = corrector2 = 0 below *)
  var_com := fun _ j => j; var_to_inertial := fun _ p => p
|}.

Lemma wj_law_at dt (c : wcfg) j : masses_ok -> w_corr c = 0%nat -> w_corr2 c = false -> wj_dom j ->
  law_at RNum WJ dt c j.
Proof.
  intros hm hc hc2 (hl & he). unfold law_at, w_sync_coords, w_part1_drift, w_sync_drift. cbn [w_corr w_corr2 w_kernel with_mode].
  rewrite hc, hc2. cbn [Nat.eqb].
  change (Model.drift WJ) with wj_drift.
  assert (L : forall t, length (wj_drift t j) = length ms).
  { intros t. unfold wj_drift. rewrite wj_com_length, wj_kepler_length. exact hl. }
  destruct (w_kernel c); cbn [from_inertial to_inertial_sync WJ]; (split; [apply wj_from_to; auto|]);
    rewrite wj_drift_group by exact he; f_equal; unfold half, two, dt58, dt38, lit; cbn; lra.
Qed.

Theorem wj_unsafe_eq_safe : forall dt (c : wcfg) (s0 : @wst (list P6) (list P6)) n,
  masses_ok -> w_init_ok c = true -> w_var c = false -> w_corr c = 0%nat -> w_corr2 c = false ->
  coherent WJ s0 ->
  (forall k, (k < n)%nat -> wj_dom (pjh (iter (S k) (w_step RNum WJ dt (with_mode c false false)) s0))) ->
  w_sync RNum WJ dt (with_mode c false false) (iter (S n) (w_step RNum WJ dt (with_mode c false false)) s0)
  = iter (S n) (w_step RNum WJ dt (with_mode c true false)) s0.
Proof.
  intros dt c s0 n hm hok hvar hc hc2 hco hd.
  apply (unsafe_eq_safe_at RNum WJ dt c hok hvar n s0 hco).
  intros k hk. apply wj_law_at; auto.
Qed.
(* ------------------------------------------------------------------ SABA (same Kepler / com / Jacobi operators) *)
(* corrector: a velocity kick whose accelerations are computed from the POSITIONS (modified-kick and lazy correctors
   both are: jerk / commutator evaluated at the current positions, scaled by the coefficient) *)
Definition posof (j : list P6) : list (R * R * R) := map (fun p => (comp 0 p, comp 1 p, comp 2 p)) j.
Fixpoint vkick (c : R) (a : list (R * R * R)) (j : list P6) : list P6 :=
  match a, j with
  | (ax, ay, az) :: a', (x, y, z, vx, vy, vz) :: j' => (x, y, z, vx + c * ax, vy + c * ay, vz + c * az) :: vkick c a' j'
  | _, _ => j
  end.
Lemma vkick_pos c : forall a j, posof (vkick c a j) = posof j.
Proof. induction a as [|[[ax ay] az] a IH]; intros [|[[[[[x y] z] vx] vy] vz] j]; cbn [vkick posof map comp]; try reflexivity. f_equal. apply IH. Qed.
Lemma vkick_length c : forall a j, length (vkick c a j) = length j.
Proof. induction a as [|[[ax ay] az] a IH]; intros [|[[[[[x y] z] vx] vy] vz] j]; cbn [vkick length]; auto. Qed.
Lemma vkick_add c d : forall a j, vkick d a (vkick c a j) = vkick (c + d) a j.
Proof.
  induction a as [|[[ax ay] az] a IH]; intros [|[[[[[x y] z] vx] vy] vz] j]; cbn [vkick]; try reflexivity.
  rewrite IH. rewrite !Rmult_plus_distr_r, <- !Rplus_assoc. reflexivity.
Qed.

Context (SI : R -> list P6 -> list P6 -> list P6) (Srep : list P6 -> list P6 -> list P6)
        (F : list (R * R * R) -> list (R * R * R)).
Definition SJ : @SOps R (list P6) (list P6) := {|
  s_kepler := wj_kepler; s_com := wj_com; s_interaction := SI; s_repos := Srep;
  s_to_inertial := wj_to_inertial; s_to_inertial_sync := wj_to_inertial; s_from_inertial := wj_from_inertial;
  s_corrector := fun cc j => vkick cc (F (posof j)) j
|}.

Lemma sj_law_at dt (c : @scfg R) j : masses_ok -> wj_dom j -> s_law_at RNum SJ dt c j.
Proof.
  intros hm (hl & he). unfold s_law_at. destruct (s_corr_on c); cbn [s_corrector s_from_inertial s_to_inertial_sync SJ].
  - split; [apply wj_from_to; auto; rewrite vkick_length; exact hl|].
    rewrite vkick_pos. rewrite vkick_add. f_equal. unfold cc2, stwo. cbn. lra.
  - change (sdrift SJ) with wj_drift. split.
    + apply wj_from_to; auto. unfold wj_drift. rewrite wj_com_length, wj_kepler_length. exact hl.
    + rewrite wj_drift_group by exact he. f_equal. unfold c0dt, c0dt2, stwo. cbn. lra.
Qed.

Theorem sj_unsafe_eq_safe : forall dt (c : @scfg R) (s0 : @sst (list P6) (list P6)) n,
  masses_ok -> s_ok c = true -> s_coherent SJ s0 ->
  (forall k, (k < n)%nat -> wj_dom (spjh (iter (S k) (s_step RNum SJ dt (s_with_mode c false false)) s0))) ->
  s_sync RNum SJ dt (s_with_mode c false false) (iter (S n) (s_step RNum SJ dt (s_with_mode c false false)) s0)
  = iter (S n) (s_step RNum SJ dt (s_with_mode c true false)) s0.
Proof.
  intros dt c s0 n hm hok hco hd.
  apply (s_unsafe_eq_safe_at RNum SJ dt c hok n s0 hco).
  intros k hk. apply sj_law_at; auto.
Qed.
End WJ.

(* non-vacuity of [masses_ok]: Sun + two planets (one of them massless), all three active *)
Example masses_ok_inhabited : masses_ok [1; 1/1000; 0] 3.
Proof.
  split; [cbn; lia|]. intros [|a [|b [|c [|d r]]]] h; cbn in h; try discriminate.
  unfold C12.ProofsR.jac_ok_r. cbn. repeat split; try lia; try lra.
Qed.

(* non-vacuity of the elliptic-domain condition: a circular orbit of radius 1 around unit mass *)
Example ell_dom_inhabited : ell_dom 1 (1, 0, 0, 0, 1, 0).
Proof.
  unfold C03.Solve.ell_dom, C03.Solve.h2of, C03.Proofs.radius, C03.Proofs.pos2, C03.Proofs.vel2, C03.Proofs.xdotv. cbn.
  replace (1 * 1 + 0 * 0 + 0 * 0) with 1 by lra. rewrite sqrt_1. repeat split; lra.
Qed.
