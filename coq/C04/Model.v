(* C04 model: the diagnostics of src/tools.c (energy, angular momentum, centre of mass), the
   drift and kick of src/integrator_leapfrog.c, and the generic pair-force accumulation with
   back-reaction used by every direct gravity loop; Num-polymorphic, loop for loop.  Definitions only. *)
From Coq Require Import List ZArith.
From RV Require Import Common.Num.
Import ListNotations.

Section M.
Context {T : Type} (N : Num T).
Local Notation "a + b" := (nadd N a b).
Local Notation "a - b" := (nsub N a b).
Local Notation "a * b" := (nmul N a b).
Local Notation "a / b" := (ndiv N a b).
Local Notation "0" := (nzero N).
Local Notation "1" := (none N).

Record part := mkPart { pm : T; px : T; py : T; pz : T; pvx : T; pvy : T; pvz : T }.
Definition p0 : part := mkPart 0 0 0 0 0 0 0.
Definition vec := (T * T * T)%type.

Definition half : T := 1 / (1 + 1).   (* the literal 0.5 *)

(* ---- reb_simulation_energy ---- *)
(* e_kin += 0.5 * m * (vx*vx + vy*vy + vz*vz)  for i < N_interact *)
Fixpoint ekin_loop (l : list part) (acc : T) : T :=
  match l with
  | [] => acc
  | p :: r => ekin_loop r (acc + half * pm p * (pvx p * pvx p + pvy p * pvy p + pvz p * pvz p))
  end.
(* inner loop j = i+1 .. N_interact-1:  e_pot -= G*mj*mi/sqrt(dx*dx+dy*dy+dz*dz) *)
Fixpoint epot_inner (G : T) (pi : part) (l : list part) (acc : T) : T :=
  match l with
  | [] => acc
  | pj :: r =>
      let dx := px pi - px pj in let dy := py pi - py pj in let dz := pz pi - pz pj in
      epot_inner G pi r (acc - G * pm pj * pm pi / nsqrt N (dx*dx + dy*dy + dz*dz))
  end.
(* outer loop i = 0 .. N_active-1 over the first N_interact particles; [l] = particles i.. of the
   first N_interact, [k] = how many outer iterations remain (N_active - i) *)
Fixpoint epot_outer (G : T) (l : list part) (k : nat) (acc : T) : T :=
  match k, l with
  | S k', pi :: r => epot_outer G r k' (epot_inner G pi r acc)
  | _, _ => acc
  end.
(* N_interact = testparticle_type==0 ? N_active : N-N_var ; ps = the N-N_var real particles *)
Definition energy (G : T) (ps : list part) (nactive ninteract : nat) (offset : T) : T :=
  let l := firstn ninteract ps in
  ekin_loop l 0 + epot_outer G l nactive 0 + offset.

(* ---- reb_simulation_angular_momentum ---- *)
Fixpoint angmom_loop (l : list part) (L : vec) : vec :=
  match l with
  | [] => L
  | p :: r =>
      let '(Lx, Ly, Lz) := L in
      angmom_loop r (Lx + pm p * (py p * pvz p - pz p * pvy p),
                     Ly + pm p * (pz p * pvx p - px p * pvz p),
                     Lz + pm p * (px p * pvy p - py p * pvx p))
  end.
Definition angmom (ps : list part) : vec := angmom_loop ps (0, 0, 0).

(* ---- reb_particle_com_of_pair / reb_simulation_com_range (positions and velocities) ---- *)
Definition com_of_pair (a b : part) : part :=
  let x := px a * pm a + px b * pm b in let y := py a * pm a + py b * pm b in
  let z := pz a * pm a + pz b * pm b in
  let vx := pvx a * pm a + pvx b * pm b in let vy := pvy a * pm a + pvy b * pm b in
  let vz := pvz a * pm a + pvz b * pm b in
  let m := pm a + pm b in
  if nltb N 0 m then mkPart m (x / m) (y / m) (z / m) (vx / m) (vy / m) (vz / m)
  else mkPart m x y z vx vy vz.
Definition com_range (ps : list part) : part := fold_left com_of_pair ps p0.

(* ---- leapfrog drift and kick ---- *)
(* x += 0.5*dt*vx  is  drift (0.5*dt) ; the product is evaluated as (0.5*dt)*vx *)
Definition drift (c : T) (ps : list part) : list part :=
  map (fun p => mkPart (pm p) (px p + c * pvx p) (py p + c * pvy p) (pz p + c * pvz p) (pvx p) (pvy p) (pvz p)) ps.
Fixpoint kick (c : T) (ps : list part) (acc : list vec) : list part :=
  match ps, acc with
  | p :: r, (ax, ay, az) :: ra =>
      mkPart (pm p) (px p) (py p) (pz p) (pvx p + c * ax) (pvy p + c * ay) (pvz p + c * az) :: kick c r ra
  | _, _ => ps
  end.
(* part1 ; [accelerations acc computed by the gravity module at the drifted positions] ; part2 *)
Definition leapfrog_step (dt : T) (ps : list part) (acc : list vec) : list part :=
  let d1 := drift (half * dt) ps in
  drift (half * dt) (kick dt d1 acc).

(* ---- pair force accumulation with back-reaction (body of every direct gravity pair loop) ----
   for a pair (i,j) with scalar prefactor pf:  a_i += (-pf*m_j) * d ;  a_j += (pf*m_i) * d ;  d = x_i - x_j *)
Definition pair_acc (ps : list part) (acc : list vec) (e : nat * nat * T) : list vec :=
  let '(i, j, pf) := e in
  let pi := nth_d p0 ps i in let pj := nth_d p0 ps j in
  let dx := px pi - px pj in let dy := py pi - py pj in let dz := pz pi - pz pj in
  let pfj := nneg N pf * pm pj in let pfi := pf * pm pi in
  let '(aix, aiy, aiz) := nth_d (0, 0, 0) acc i in
  let acc := upd acc i (aix + pfj * dx, aiy + pfj * dy, aiz + pfj * dz) in
  let '(ajx, ajy, ajz) := nth_d (0, 0, 0) acc j in
  upd acc j (ajx + pfi * dx, ajy + pfi * dy, ajz + pfi * dz).
Definition pair_force (ps : list part) (pairs : list (nat * nat * T)) : list vec :=
  fold_left (pair_acc ps) pairs (map (fun _ => (0, 0, 0)) ps).
End M.

Arguments pm {T} _. Arguments px {T} _. Arguments py {T} _. Arguments pz {T} _.
Arguments pvx {T} _. Arguments pvy {T} _. Arguments pvz {T} _. Arguments mkPart {T} _ _ _ _ _ _ _.
