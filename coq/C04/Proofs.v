(* C04 proofs over the Coq reals. *)
From Coq Require Import List ZArith Reals Lra Lia.
From RV Require Import Common.Num Common.RealNum C04.Model.
Import ListNotations.
Open Scope R_scope.

Notation part := (@part R).
Notation vec := (@vec R).

(* mathematical sums *)
Fixpoint Sm (f : part -> R) (l : list part) : R :=
  match l with [] => 0 | p :: r => f p + Sm f r end.

(* ---------------- energy ---------------- *)
Definition kin (p : part) : R := / 2 * pm p * (pvx p * pvx p + pvy p * pvy p + pvz p * pvz p).
Definition dist (a b : part) : R :=
  sqrt ((px a - px b) * (px a - px b) + (py a - py b) * (py a - py b) + (pz a - pz b) * (pz a - pz b)).
Definition pot (G : R) (ab : part * part) : R := G * pm (fst ab) * pm (snd ab) / dist (fst ab) (snd ab).

(* the interacting pairs: (p_i, p_j) with i < j, i < k (k = N_active), both among the list (the first N_interact) *)
Fixpoint pairs_of (l : list part) (k : nat) : list (part * part) :=
  match k, l with
  | S k', pi :: r => map (fun pj => (pi, pj)) r ++ pairs_of r k'
  | _, _ => []
  end.
Fixpoint Sp (f : part * part -> R) (l : list (part * part)) : R :=
  match l with [] => 0 | x :: r => f x + Sp f r end.
Lemma Sp_app f a b : Sp f (a ++ b) = Sp f a + Sp f b.
Proof. induction a; cbn; lra. Qed.

Lemma half_R : half RNum = / 2.
Proof. unfold half. cbn. field. Qed.

Lemma ekin_loop_spec l : forall acc, ekin_loop RNum l acc = acc + Sm kin l.
Proof.
  induction l as [|p r IH]; intros acc; cbn [ekin_loop Sm]; [lra|].
  rewrite IH. rewrite half_R. unfold kin. cbn [nadd nmul RNum]. lra.
Qed.

Lemma epot_inner_spec G pi l : forall acc,
  epot_inner RNum G pi l acc = acc - Sp (pot G) (map (fun pj => (pi, pj)) l).
Proof.
  induction l as [|pj r IH]; intros acc; cbn [epot_inner map Sp]; [lra|].
  rewrite IH. unfold pot, dist. cbn [fst snd nadd nsub nmul ndiv nsqrt RNum]. unfold Rdiv. lra.
Qed.

Lemma epot_outer_spec G : forall k l acc,
  epot_outer RNum G l k acc = acc - Sp (pot G) (pairs_of l k).
Proof.
  induction k as [|k IH]; intros l acc.
  - destruct l; cbn [epot_outer pairs_of Sp]; lra.
  - destruct l as [|pi r]; cbn [epot_outer pairs_of Sp]; [lra|].
    rewrite IH, epot_inner_spec, Sp_app. lra.
Qed.

(* the energy diagnostic returns the mathematically defined quantity *)
Theorem energy_def G ps nactive ninteract offset :
  energy RNum G ps nactive ninteract offset
  = Sm kin (firstn ninteract ps) - Sp (pot G) (pairs_of (firstn ninteract ps) nactive) + offset.
Proof.
  unfold energy. rewrite ekin_loop_spec, epot_outer_spec. cbn [nadd nzero RNum]. lra.
Qed.

(* which pairs these are: exactly the index pairs i<j with i<k *)
Lemma pairs_of_spec : forall k l a b,
  In (a, b) (pairs_of l k) <->
  exists i j, (i < j)%nat /\ (i < k)%nat /\ nth_error l i = Some a /\ nth_error l j = Some b.
Proof.
  induction k as [|k IH]; intros l a b.
  - destruct l; cbn [pairs_of In]; (split; [intros []|]); intros (i & j & _ & Hk & _); lia.
  - destruct l as [|pi r]; cbn [pairs_of].
    + split; [intros []|]. intros (i & j & _ & _ & Hi & _). destruct i; discriminate.
    + rewrite in_app_iff, in_map_iff, IH. split.
      * intros [(pj & Heq & Hin)|(i & j & Hij & Hik & Hi & Hj)].
        -- inversion Heq; subst. apply In_nth_error in Hin. destruct Hin as [n Hn].
           exists 0%nat, (S n). cbn. repeat split; auto; lia.
        -- exists (S i), (S j). cbn. repeat split; auto; lia.
      * intros (i & j & Hij & Hik & Hi & Hj). destruct i as [|i].
        -- left. cbn in Hi. inversion Hi; subst. destruct j as [|j]; [lia|]. cbn in Hj.
           exists b. split; [reflexivity|]. eapply nth_error_In; eauto.
        -- right. destruct j as [|j]; [lia|]. exists i, j. cbn in Hi, Hj. repeat split; auto; lia.
Qed.

(* ---------------- angular momentum ---------------- *)
Definition Lx (p : part) := pm p * (py p * pvz p - pz p * pvy p).
Definition Ly (p : part) := pm p * (pz p * pvx p - px p * pvz p).
Definition Lz (p : part) := pm p * (px p * pvy p - py p * pvx p).

Lemma angmom_loop_spec l : forall a b c,
  angmom_loop RNum l (a, b, c) = (a + Sm Lx l, b + Sm Ly l, c + Sm Lz l).
Proof.
  induction l as [|p r IH]; intros a b c; cbn [angmom_loop Sm].
  - f_equal; [f_equal|]; lra.
  - rewrite IH. unfold Lx, Ly, Lz. cbn [nadd nsub nmul RNum]. f_equal; [f_equal|]; lra.
Qed.
Theorem angmom_def ps : angmom RNum ps = (Sm Lx ps, Sm Ly ps, Sm Lz ps).
Proof. unfold angmom. rewrite angmom_loop_spec. cbn [nzero RNum]. f_equal; [f_equal|]; lra. Qed.

(* ---------------- centre of mass ---------------- *)
Definition Px (p : part) := pm p * pvx p.  Definition Py (p : part) := pm p * pvy p.
Definition Pz (p : part) := pm p * pvz p.
Definition Mx (p : part) := pm p * px p.   Definition My (p : part) := pm p * py p.
Definition Mz (p : part) := pm p * pz p.

Definition com_inv (c : part) (l : list part) : Prop :=
  pm c = Sm pm l /\ pm c * px c = Sm Mx l /\ pm c * py c = Sm My l /\ pm c * pz c = Sm Mz l /\
  pm c * pvx c = Sm Px l /\ pm c * pvy c = Sm Py l /\ pm c * pvz c = Sm Pz l.

Lemma Sm_app f a b : Sm f (a ++ b) = Sm f a + Sm f b.
Proof. induction a; cbn; lra. Qed.

Lemma com_of_pair_inv c l p :
  com_inv c l -> 0 <= pm c -> 0 < pm p -> com_inv (com_of_pair RNum c p) (l ++ [p]) /\ 0 < pm (com_of_pair RNum c p).
Proof.
  intros (Hm & Hx & Hy & Hz & Hvx & Hvy & Hvz) Hc Hp.
  unfold com_of_pair. cbn [nltb nadd nmul ndiv nzero RNum].
  unfold Rltb. destruct (Rlt_dec 0 (pm c + pm p)) as [Hpos|Hn]; [|lra].
  unfold com_inv. cbn [pm px py pz pvx pvy pvz]. rewrite !Sm_app. cbn [Sm].
  unfold Mx, My, Mz, Px, Py, Pz in *.
  repeat split; try lra; field_simplify; try lra; nra.
Qed.

Lemma com_fold : forall l c pre,
  com_inv c pre -> 0 <= pm c -> Forall (fun p => 0 < pm p) l ->
  com_inv (fold_left (com_of_pair RNum) l c) (pre ++ l) /\ 0 <= pm (fold_left (com_of_pair RNum) l c).
Proof.
  induction l as [|p r IH]; intros c pre Hinv Hc Hl; cbn [fold_left].
  - rewrite app_nil_r. auto.
  - inversion Hl as [|? ? Hp Hr]; subst.
    destruct (com_of_pair_inv c pre p Hinv Hc Hp) as [Hinv' Hpos].
    replace (pre ++ p :: r) with ((pre ++ [p]) ++ r) by (rewrite <- app_assoc; reflexivity).
    apply IH; auto; lra.
Qed.

(* for positive masses the centre-of-mass diagnostic carries the total mass and the mass-weighted means *)
Theorem com_def ps :
  Forall (fun p => 0 < pm p) ps ->
  com_inv (com_range RNum ps) ps.
Proof.
  intros H. unfold com_range.
  assert (H0 : com_inv (p0 RNum) []).
  { unfold com_inv, p0. cbn. repeat split; lra. }
  destruct (com_fold ps (p0 RNum) [] H0) as [Hi _]; auto. unfold p0; cbn; lra.
Qed.

(* ---------------- drift and kick: linear and angular momentum ---------------- *)
Lemma drift_P c ps : Sm Px (drift RNum c ps) = Sm Px ps /\ Sm Py (drift RNum c ps) = Sm Py ps /\ Sm Pz (drift RNum c ps) = Sm Pz ps.
Proof. induction ps as [|p r (I1 & I2 & I3)]; cbn [drift map Sm]; [lra|]. unfold drift in *. rewrite I1, I2, I3. unfold Px, Py, Pz; cbn. lra. Qed.

Lemma drift_M c ps :
  Sm Mx (drift RNum c ps) = Sm Mx ps + c * Sm Px ps /\ Sm My (drift RNum c ps) = Sm My ps + c * Sm Py ps /\
  Sm Mz (drift RNum c ps) = Sm Mz ps + c * Sm Pz ps /\ Sm pm (drift RNum c ps) = Sm pm ps.
Proof.
  induction ps as [|p r (I1 & I2 & I3 & I4)]; cbn [drift map Sm]; [lra|]. unfold drift in *. rewrite I1, I2, I3, I4.
  unfold Mx, My, Mz, Px, Py, Pz; cbn. lra.
Qed.

Lemma drift_L c ps : Sm Lx (drift RNum c ps) = Sm Lx ps /\ Sm Ly (drift RNum c ps) = Sm Ly ps /\ Sm Lz (drift RNum c ps) = Sm Lz ps.
Proof.
  induction ps as [|p r (I1 & I2 & I3)]; cbn [drift map Sm]; [lra|]. unfold drift in *. rewrite I1, I2, I3.
  unfold Lx, Ly, Lz; cbn. lra.
Qed.

(* weighted sums of an acceleration list against the particle list *)
Fixpoint Sa (w : part -> vec -> R) (ps : list part) (acc : list vec) : R :=
  match ps, acc with
  | p :: r, a :: ra => w p a + Sa w r ra
  | _, _ => 0
  end.
Definition Fx (p : part) (a : vec) := let '(ax, _, _) := a in pm p * ax.
Definition Fy (p : part) (a : vec) := let '(_, ay, _) := a in pm p * ay.
Definition Fz (p : part) (a : vec) := let '(_, _, az) := a in pm p * az.
Definition Tx (p : part) (a : vec) := let '(_, ay, az) := a in pm p * (py p * az - pz p * ay).
Definition Ty (p : part) (a : vec) := let '(ax, _, az) := a in pm p * (pz p * ax - px p * az).
Definition Tz (p : part) (a : vec) := let '(ax, ay, _) := a in pm p * (px p * ay - py p * ax).

Lemma kick_PL c : forall ps acc, length acc = length ps ->
  Sm Px (kick RNum c ps acc) = Sm Px ps + c * Sa Fx ps acc /\
  Sm Py (kick RNum c ps acc) = Sm Py ps + c * Sa Fy ps acc /\
  Sm Pz (kick RNum c ps acc) = Sm Pz ps + c * Sa Fz ps acc /\
  Sm Lx (kick RNum c ps acc) = Sm Lx ps + c * Sa Tx ps acc /\
  Sm Ly (kick RNum c ps acc) = Sm Ly ps + c * Sa Ty ps acc /\
  Sm Lz (kick RNum c ps acc) = Sm Lz ps + c * Sa Tz ps acc /\
  Sm Mx (kick RNum c ps acc) = Sm Mx ps /\ Sm My (kick RNum c ps acc) = Sm My ps /\ Sm Mz (kick RNum c ps acc) = Sm Mz ps.
Proof.
  induction ps as [|p r IH]; intros [|[[ax ay] az] ra] Hlen; cbn in Hlen; try discriminate; cbn [kick Sm Sa].
  - repeat split; lra.
  - destruct (IH ra ltac:(lia)) as (I1 & I2 & I3 & I4 & I5 & I6 & I7 & I8 & I9).
    rewrite I1, I2, I3, I4, I5, I6, I7, I8, I9.
    unfold Px, Py, Pz, Lx, Ly, Lz, Mx, My, Mz, Fx, Fy, Fz, Tx, Ty, Tz; cbn. repeat split; lra.
Qed.

(* ---------------- pair forces with back-reaction: zero net force and zero net torque ---------------- *)
Lemma nth_d_upd_same {A} (d : A) l i v : (i < length l)%nat -> nth_d d (upd l i v) i = v.
Proof. revert i; induction l as [|x l IH]; intros [|i] H; cbn in *; try lia; auto. apply IH. lia. Qed.
Lemma nth_d_upd_other {A} (d : A) l i j v : i <> j -> nth_d d (upd l i v) j = nth_d d l j.
Proof. revert i j; induction l as [|x l IH]; intros [|i] [|j] H; cbn; try lia; auto. Qed.
Lemma upd_length {A} (l : list A) i v : length (upd l i v) = length l.
Proof. revert i; induction l as [|x l IH]; intros [|i]; cbn; auto. Qed.

(* replacing entry i changes a weighted sum by w p_i v - w p_i a_i *)
Lemma Sa_upd w : forall ps acc i v, length acc = length ps -> (i < length ps)%nat ->
  Sa w ps (upd acc i v) = Sa w ps acc - w (nth_d (p0 RNum) ps i) (nth_d (0, 0, 0) acc i) + w (nth_d (p0 RNum) ps i) v.
Proof.
  induction ps as [|p r IH]; intros [|a ra] i v Hl Hi; cbn in *; try lia.
  destruct i as [|i]; cbn [upd Sa nth_d].
  - lra.
  - rewrite IH by lia. lra.
Qed.

Definition valid_pair (n : nat) (e : nat * nat * R) : Prop :=
  let '(i, j, _) := e in (i < n)%nat /\ (j < n)%nat /\ i <> j.

Lemma pair_acc_sums ps acc e :
  length acc = length ps -> valid_pair (length ps) e ->
  length (pair_acc RNum ps acc e) = length ps /\
  Sa Fx ps (pair_acc RNum ps acc e) = Sa Fx ps acc /\ Sa Fy ps (pair_acc RNum ps acc e) = Sa Fy ps acc /\
  Sa Fz ps (pair_acc RNum ps acc e) = Sa Fz ps acc /\
  Sa Tx ps (pair_acc RNum ps acc e) = Sa Tx ps acc /\ Sa Ty ps (pair_acc RNum ps acc e) = Sa Ty ps acc /\
  Sa Tz ps (pair_acc RNum ps acc e) = Sa Tz ps acc.
Proof.
  destruct e as [[i j] pf]. intros Hl (Hi & Hj & Hij). unfold pair_acc. cbn [nzero RNum].
  set (pi := nth_d (p0 RNum) ps i). set (pj := nth_d (p0 RNum) ps j).
  destruct (nth_d (0, 0, 0) acc i) as [[aix aiy] aiz] eqn:Ei.
  set (vi := (nadd RNum aix (nmul RNum (nmul RNum (nneg RNum pf) (pm pj)) (nsub RNum (px pi) (px pj))),
              nadd RNum aiy (nmul RNum (nmul RNum (nneg RNum pf) (pm pj)) (nsub RNum (py pi) (py pj))),
              nadd RNum aiz (nmul RNum (nmul RNum (nneg RNum pf) (pm pj)) (nsub RNum (pz pi) (pz pj))))).
  assert (Hl1 : length (upd acc i vi) = length ps) by (rewrite upd_length; exact Hl).
  rewrite nth_d_upd_other by exact Hij.
  destruct (nth_d (0, 0, 0) acc j) as [[ajx ajy] ajz] eqn:Ej.
  split; [rewrite upd_length; exact Hl1|].
  rewrite !(Sa_upd _ ps (upd acc i vi) j) by (auto; lia).
  rewrite !(Sa_upd _ ps acc i) by (auto; lia).
  rewrite nth_d_upd_other by exact Hij. rewrite Ei, Ej. fold pi pj.
  unfold vi, Fx, Fy, Fz, Tx, Ty, Tz. cbn [nadd nsub nmul nneg RNum].
  repeat split; ring.
Qed.

Lemma Sa_zero w ps : (forall p, w p (0, 0, 0) = 0) -> Sa w ps (map (fun _ => (0, 0, 0)) ps) = 0.
Proof. intros Hw. induction ps as [|p r IH]; cbn; [reflexivity|]. rewrite Hw, IH. lra. Qed.

(* Newton's third law for the accumulated accelerations: for ANY list of pairs and ANY scalar
   prefactors (softening, switching functions, G ... all live in the prefactor) *)
Theorem pair_force_zero ps pairs :
  Forall (valid_pair (length ps)) pairs ->
  let a := pair_force RNum ps pairs in
  length a = length ps /\
  Sa Fx ps a = 0 /\ Sa Fy ps a = 0 /\ Sa Fz ps a = 0 /\ Sa Tx ps a = 0 /\ Sa Ty ps a = 0 /\ Sa Tz ps a = 0.
Proof.
  intros Hv. unfold pair_force. cbn [nzero RNum].
  set (a0 := map (fun _ : part => (0, 0, 0)) ps).
  assert (H0 : length a0 = length ps /\ Sa Fx ps a0 = 0 /\ Sa Fy ps a0 = 0 /\ Sa Fz ps a0 = 0 /\
               Sa Tx ps a0 = 0 /\ Sa Ty ps a0 = 0 /\ Sa Tz ps a0 = 0).
  { unfold a0. rewrite map_length. split; [reflexivity|].
    repeat split; apply Sa_zero; intros p; unfold Fx, Fy, Fz, Tx, Ty, Tz; ring. }
  clearbody a0. revert a0 H0. induction Hv as [|e r He Hr IH]; intros a0 H0; cbn [fold_left]; [exact H0|].
  apply IH. destruct H0 as (Hl & H1 & H2 & H3 & H4 & H5 & H6).
  destruct (pair_acc_sums ps a0 e Hl He) as (Kl & K1 & K2 & K3 & K4 & K5 & K6).
  rewrite K1, K2, K3, K4, K5, K6. auto 10.
Qed.

(* ---------------- drift-kick words conserve P and L exactly ---------------- *)
Definition PL (ps : list part) : R * R * R * R * R * R :=
  (Sm Px ps, Sm Py ps, Sm Pz ps, Sm Lx ps, Sm Ly ps, Sm Lz ps).

Inductive dk := D (c : R) | K (c : R).
(* a force law: accelerations from the particle list, built from pair interactions with back-reaction *)
Definition force_law := list part -> list (nat * nat * R).
Definition apply_dk (F : force_law) (o : dk) (ps : list part) : list part :=
  match o with
  | D c => drift RNum c ps
  | K c => kick RNum c ps (pair_force RNum ps (F ps))
  end.
Definition run_dk (F : force_law) (w : list dk) (ps : list part) : list part :=
  fold_left (fun s o => apply_dk F o s) w ps.
Definition law_valid (F : force_law) : Prop := forall ps, Forall (valid_pair (length ps)) (F ps).

Lemma drift_length c (ps : list part) : length (drift RNum c ps) = length ps.
Proof. unfold drift. apply map_length. Qed.

Lemma apply_dk_PL F o ps : law_valid F -> PL (apply_dk F o ps) = PL ps.
Proof.
  intros HF. destruct o as [c|c]; unfold PL, apply_dk.
  - destruct (drift_P c ps) as (A1 & A2 & A3). destruct (drift_L c ps) as (B1 & B2 & B3).
    rewrite A1, A2, A3, B1, B2, B3. reflexivity.
  - destruct (pair_force_zero ps (F ps) (HF ps)) as (Hl & Z1 & Z2 & Z3 & Z4 & Z5 & Z6).
    destruct (kick_PL c ps _ Hl) as (A1 & A2 & A3 & A4 & A5 & A6 & _).
    rewrite A1, A2, A3, A4, A5, A6, Z1, Z2, Z3, Z4, Z5, Z6.
    repeat f_equal; lra.
Qed.

(* every scheme that is a word in drifts and kicks (leapfrog, EOS incl. its composition drifts, JANUS in
   exact arithmetic, ...) conserves total linear and angular momentum exactly, for any pair force *)
Theorem dk_word_conserves_PL F w : law_valid F -> forall ps, PL (run_dk F w ps) = PL ps.
Proof.
  intros HF. induction w as [|o w IH]; intros ps; cbn [run_dk fold_left]; [reflexivity|].
  unfold run_dk in IH. rewrite IH. apply apply_dk_PL. exact HF.
Qed.

(* the centre of mass moves uniformly: sum m x advances by c * P under a drift and is untouched by a kick *)
Theorem drift_com_uniform c ps :
  Sm Mx (drift RNum c ps) = Sm Mx ps + c * Sm Px ps /\ Sm My (drift RNum c ps) = Sm My ps + c * Sm Py ps /\
  Sm Mz (drift RNum c ps) = Sm Mz ps + c * Sm Pz ps.
Proof. destruct (drift_M c ps) as (A & B & C & _). auto. Qed.

(* leapfrog as implemented (part1; forces; part2) is such a word *)
Theorem leapfrog_is_word F dt ps :
  leapfrog_step RNum dt ps (pair_force RNum (drift RNum (half RNum * dt) ps) (F (drift RNum (half RNum * dt) ps)))
  = run_dk F [D (half RNum * dt); K dt; D (half RNum * dt)] ps.
Proof. reflexivity. Qed.
