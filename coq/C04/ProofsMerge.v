(* C04: "these invariants hold, for mass and momentum, across merging collisions".
   C13 models reb_collision_resolve_merge and the removal the collision loop performs afterwards, and proves that the
   seven sums  sum m, sum m v, sum m x  over the WHOLE particle array are unchanged (C13.MergeSum.merge_total_model).
   This file carries that result over to C04's own diagnostics: the centre-of-mass routine of C04.Model
   (reb_simulation_com), run on the array AFTER the merge and removal, satisfies the defining equations of the
   centre of mass of the array BEFORE it, and C04's total linear momentum is unchanged.  (Angular momentum and energy
   are not conserved by a merger and the property does not claim them.) *)
From Coq Require Import List ZArith Reals Lra.
From RV Require Import Common.Num Common.RealNum C04.Model C04.Proofs.
From RV Require C13.Model C13.LoopNA C13.Fixup C13.Resolve C13.MergeSum.
Import ListNotations.
Open Scope R_scope.

Module M13 := C13.Model.
Module S13 := C13.MergeSum.

(* forget radius, last_collision and hash *)
Definition to04 (p : M13.particle R) : part :=
  mkPart (M13.pm p) (M13.px p) (M13.py p) (M13.pz p) (M13.pvx p) (M13.pvy p) (M13.pvz p).

Lemma tot_Sm (f : M13.particle R -> R) (g : part -> R) :
  (forall p, f p = g (to04 p)) -> forall l, S13.tot f l = Sm g (map to04 l).
Proof.
  intros H l. unfold S13.tot. induction l as [|p l IH]; cbn; [reflexivity|].
  rewrite H. f_equal. exact IH.
Qed.

Lemma conserved_to04 (a b : list (M13.particle R)) :
  Forall (fun f => S13.tot f a = S13.tot f b) S13.conserved ->
  Sm pm (map to04 a) = Sm pm (map to04 b) /\
  Sm Px (map to04 a) = Sm Px (map to04 b) /\ Sm Py (map to04 a) = Sm Py (map to04 b) /\
  Sm Pz (map to04 a) = Sm Pz (map to04 b) /\
  Sm Mx (map to04 a) = Sm Mx (map to04 b) /\ Sm My (map to04 a) = Sm My (map to04 b) /\
  Sm Mz (map to04 a) = Sm Mz (map to04 b).
Proof.
  unfold S13.conserved. intros H.
  repeat match goal with H : Forall _ (_ :: _) |- _ => inversion H; subst; clear H end.
  repeat match goal with H : Forall _ [] |- _ => clear H end.
  repeat split.
  - rewrite <- !(tot_Sm (fun p => M13.pm p) pm) by reflexivity. assumption.
  - rewrite <- !(tot_Sm (fun p => M13.pm p * M13.pvx p) Px) by reflexivity. assumption.
  - rewrite <- !(tot_Sm (fun p => M13.pm p * M13.pvy p) Py) by reflexivity. assumption.
  - rewrite <- !(tot_Sm (fun p => M13.pm p * M13.pvz p) Pz) by reflexivity. assumption.
  - rewrite <- !(tot_Sm (fun p => M13.pm p * M13.px p) Mx) by reflexivity. assumption.
  - rewrite <- !(tot_Sm (fun p => M13.pm p * M13.py p) My) by reflexivity. assumption.
  - rewrite <- !(tot_Sm (fun p => M13.pm p * M13.pz p) Mz) by reflexivity. assumption.
Qed.

(* same sums => the COM routine's result on one array satisfies the defining equations for the other *)
Lemma com_inv_transfer (c : part) (a b : list part) :
  Sm pm a = Sm pm b -> Sm Px a = Sm Px b -> Sm Py a = Sm Py b -> Sm Pz a = Sm Pz b ->
  Sm Mx a = Sm Mx b -> Sm My a = Sm My b -> Sm Mz a = Sm Mz b ->
  com_inv c a -> com_inv c b.
Proof.
  unfold com_inv. intros E0 E1 E2 E3 E4 E5 E6 (H0 & H1 & H2 & H3 & H4 & H5 & H6).
  rewrite <- E0, <- E1, <- E2, <- E3, <- E4, <- E5, <- E6. auto 10.
Qed.

Theorem merge_keeps_com_and_momentum
  (flag : M13.particle R -> M13.particle R) t cb ps p1 p2 a b keep nact :
  M13.zth ps p1 = Some a -> M13.zth ps p2 = Some b -> p1 <> p2 ->
  M13.plc a <> t -> M13.plc b <> t -> C13.Resolve.mass_ok a b ->
  exists ps' ps'' nact',
    fst (M13.merge RNum t cb ps p1 p2) = ps' /\
    M13.remove_particle flag false keep nact ps' (C13.Resolve.gone_ix p1 p2) = (ps'', nact', true) /\
    S (length ps'') = length ps /\
    (* total mass and total linear momentum as C04 defines them *)
    Sm pm (map to04 ps'') = Sm pm (map to04 ps) /\
    Sm Px (map to04 ps'') = Sm Px (map to04 ps) /\
    Sm Py (map to04 ps'') = Sm Py (map to04 ps) /\
    Sm Pz (map to04 ps'') = Sm Pz (map to04 ps) /\
    (* the centre-of-mass diagnostic evaluated after the merger is the centre of mass of the set before it *)
    (Forall (fun p => 0 < pm p) (map to04 ps'') ->
       com_inv (com_range RNum (map to04 ps'')) (map to04 ps)).
Proof.
  intros Z1 Z2 Hne La Lb Hm.
  destruct (S13.merge_total_model_gen flag t cb ps p1 p2 a b keep nact Z1 Z2 Hne La Lb Hm)
    as (ps' & ps'' & nact' & E1 & E2 & E3 & E4).
  exists ps', ps'', nact'.
  destruct (conserved_to04 _ _ E4) as (C0 & C1 & C2 & C3 & C4 & C5 & C6).
  repeat (split; [assumption|]).
  intros Hpos. apply (com_inv_transfer _ (map to04 ps'')); try assumption.
  apply com_def. exact Hpos.
Qed.
