(* C04: binary64 instances evaluated by the correspondence check. *)
From Coq Require Import List ZArith PrimFloat.
From RV Require Import Common.Num Common.FloatNum C04.Model.
Import ListNotations.
Open Scope float_scope.

Definition mk (l : list float) : @part float :=
  match l with [m; x; y; z; vx; vy; vz] => mkPart m x y z vx vy vz | _ => p0 FNum end.
Definition unmk (p : @part float) : list float := [pm p; px p; py p; pz p; pvx p; pvy p; pvz p].

Definition energyF (G : float) (ps : list (list float)) (nact ninter : nat) (off : float) : list float :=
  [energy FNum G (map mk ps) nact ninter off].
Definition angmomF (ps : list (list float)) : list float :=
  let '(a, b, c) := angmom FNum (map mk ps) in [a; b; c].
Definition comF (ps : list (list float)) : list float := unmk (com_range FNum (map mk ps)).
Definition mk3 (l : list float) : float * float * float :=
  match l with [a; b; c] => (a, b, c) | _ => (0, 0, 0) end.
Definition leapfrogF (dt : float) (ps acc : list (list float)) : list float :=
  flat_map unmk (leapfrog_step FNum dt (map mk ps) (map mk3 acc)).
