(* C04 property theorems ONLY. *)
From Coq Require Import List ZArith Reals Lra Lia.
From RV Require Import Common.Num Common.RealNum C04.Model C04.Proofs C04.ProofsWH C04.ProofsMerge.
Import ListNotations.
Open Scope R_scope.

(* the diagnostics return the mathematically defined quantities *)
Theorem C04_energy_is_defined_quantity : forall G ps nactive ninteract offset,
  energy RNum G ps nactive ninteract offset
  = Sm kin (firstn ninteract ps) - Sp (pot G) (pairs_of (firstn ninteract ps) nactive) + offset.
Proof. exact energy_def. Qed.
Print Assumptions C04_energy_is_defined_quantity.

Theorem C04_energy_pairs_are_the_interacting_pairs : forall k l a b,
  In (a, b) (pairs_of l k) <->
  exists i j, (i < j)%nat /\ (i < k)%nat /\ nth_error l i = Some a /\ nth_error l j = Some b.
Proof. exact pairs_of_spec. Qed.
Print Assumptions C04_energy_pairs_are_the_interacting_pairs.

Theorem C04_angular_momentum_is_defined_quantity : forall ps,
  angmom RNum ps = (Sm Lx ps, Sm Ly ps, Sm Lz ps).
Proof. exact angmom_def. Qed.
Print Assumptions C04_angular_momentum_is_defined_quantity.

Theorem C04_com_is_defined_quantity : forall ps,
  Forall (fun p => 0 < pm p) ps -> com_inv (com_range RNum ps) ps.
Proof. exact com_def. Qed.
Print Assumptions C04_com_is_defined_quantity.

(* Newton's third law for every pair loop with back-reaction: zero net force and zero net torque,
   for any pair list and any scalar prefactors *)
Theorem C04_pair_forces_sum_to_zero : forall ps pairs,
  Forall (valid_pair (length ps)) pairs ->
  let a := pair_force RNum ps pairs in
  length a = length ps /\
  Sa Fx ps a = 0 /\ Sa Fy ps a = 0 /\ Sa Fz ps a = 0 /\ Sa Tx ps a = 0 /\ Sa Ty ps a = 0 /\ Sa Tz ps a = 0.
Proof. exact pair_force_zero. Qed.
Print Assumptions C04_pair_forces_sum_to_zero.

(* every drift/kick word conserves total linear and angular momentum exactly; the COM moves uniformly *)
Theorem C04_drift_kick_words_conserve_P_and_L : forall F w, law_valid F -> forall ps, PL (run_dk F w ps) = PL ps.
Proof. exact dk_word_conserves_PL. Qed.
Print Assumptions C04_drift_kick_words_conserve_P_and_L.

Theorem C04_com_moves_uniformly : forall c ps,
  Sm Mx (drift RNum c ps) = Sm Mx ps + c * Sm Px ps /\ Sm My (drift RNum c ps) = Sm My ps + c * Sm Py ps /\
  Sm Mz (drift RNum c ps) = Sm Mz ps + c * Sm Pz ps.
Proof. exact drift_com_uniform. Qed.

Theorem C04_leapfrog_is_a_drift_kick_word : forall F dt ps,
  leapfrog_step RNum dt ps (pair_force RNum (drift RNum (half RNum * dt) ps) (F (drift RNum (half RNum * dt) ps)))
  = run_dk F [D (half RNum * dt); K dt; D (half RNum * dt)] ps.
Proof. exact leapfrog_is_word. Qed.
Print Assumptions C04_leapfrog_is_a_drift_kick_word.

(* Wisdom-Holman Kepler drift: the total angular momentum has no cross terms in Jacobi coordinates (C12), so two
   inertial states with the same masses whose Jacobi images agree in the centre-of-mass term and in every Jacobi
   body's own angular momentum have the same total angular momentum; the f-g step (f g' - f' g = 1, C03) and the
   uniform motion of the centre of mass preserve exactly those terms *)
Theorem C04_wh_drift_conserves_Lz : forall m0 ms, m0 <> 0 -> C12.ProofsL.etas_ok ms m0 ->
  forall s s' j j', wf ms s -> wf ms s' -> image_of m0 ms s j -> image_of m0 ms s' j' ->
  JM j' = JM j -> com_lz j' = com_lz j -> body_lz j' = body_lz j -> totLz m0 ms s' = totLz m0 ms s.
Proof. exact wh_drift_conserves_Lz. Qed.
Print Assumptions C04_wh_drift_conserves_Lz.
(* ... and the library's own Kepler step (C03's model, bit-exact with reb_whfast_kepler_solver) is such an f-g step
   whenever X solves the universal Kepler equation *)
Theorem C04_kepler_step_conserves_lz : forall (p : C03.Proofs.P6) (M dt r0 beta X G0 G1 G2 G3 : R),
  C03.Proofs.kepler_hyp p M dt r0 beta X G0 G1 G2 G3 ->
  forall x y z vx vy vz,
  let '(x', y', _, vx', vy', _) :=
    C03.Model.fg_apply RNum (C03.Model.fg_coeffs RNum M dt (1 / r0) (1 / C03.Proofs.new_radius p M r0 beta G1 G2) G1 G2 G3)
                       (x, y, z, vx, vy, vz) in
  x' * vy' - y' * vx' = x * vy - y * vx.
Proof. exact kepler_step_conserves_lz. Qed.
Print Assumptions C04_kepler_step_conserves_lz.
Theorem C04_fg_step_and_com_drift_conserve_lz :
  (forall f g fd gd x y vx vy, f * gd - fd * g = 1 ->
     (f * x + g * vx) * (fd * y + gd * vy) - (f * y + g * vy) * (fd * x + gd * vx) = x * vy - y * vx) /\
  (forall dt x y vx vy, (x + dt * vx) * vy - (y + dt * vy) * vx = x * vy - y * vx).
Proof. exact (conj fg_conserves_lz com_drift_conserves_lz). Qed.
Print Assumptions C04_fg_step_and_com_drift_conserve_lz.

(* "... and, for mass and momentum, across merging collisions": C13's model of reb_collision_resolve_merge followed by
   the removal the collision loop performs (bit-exact with the library there) leaves C04's total mass and total linear
   momentum unchanged, and the centre-of-mass diagnostic evaluated AFTER the merger satisfies the defining equations
   of the centre of mass of the set BEFORE it; for every array, pair, removal discipline and N_active, for pairs of
   non-zero total mass and for two massless particles (mass_ok; /repo 3e11a58 made the latter finite) *)
Theorem C04_merge_conserves_mass_momentum_com :
  forall (flag : M13.particle R -> M13.particle R) t cb ps p1 p2 a b keep nact,
  M13.zth ps p1 = Some a -> M13.zth ps p2 = Some b -> p1 <> p2 ->
  M13.plc a <> t -> M13.plc b <> t -> C13.Resolve.mass_ok a b ->
  exists ps' ps'' nact',
    fst (M13.merge RNum t cb ps p1 p2) = ps' /\
    M13.remove_particle flag false keep nact ps' (C13.Resolve.gone_ix p1 p2) = (ps'', nact', true) /\
    S (length ps'') = length ps /\
    Sm pm (map to04 ps'') = Sm pm (map to04 ps) /\
    Sm Px (map to04 ps'') = Sm Px (map to04 ps) /\
    Sm Py (map to04 ps'') = Sm Py (map to04 ps) /\
    Sm Pz (map to04 ps'') = Sm Pz (map to04 ps) /\
    (Forall (fun p => 0 < pm p) (map to04 ps'') ->
       com_inv (com_range RNum (map to04 ps'')) (map to04 ps)).
Proof. exact merge_keeps_com_and_momentum. Qed.
Print Assumptions C04_merge_conserves_mass_momentum_com.

(* non-vacuity *)
Example C04_hypotheses_inhabited :
  Forall (fun p => 0 < pm p) [mkPart 1 0 0 0 0 0 0; mkPart (1/1000) 1 0 0 0 1 0] /\
  Forall (valid_pair 3) [(1%nat, 0%nat, 2); (2%nat, 0%nat, 1/3); (2%nat, 1%nat, 5)].
Proof. split; repeat constructor; cbn; try lra; try lia; discriminate. Qed.
