(* C04: the Wisdom-Holman Kepler drift conserves the total angular momentum exactly (exact arithmetic).
   In Jacobi coordinates the total angular momentum has no cross terms (C12.ProofsL: jacobi_angular_momentum_z):
       L_z = M (X_0 VY_0 - Y_0 VX_0) + sum_{i>=1} mu_i (X_i VY_i - Y_i VX_i).
   The drift replaces every Jacobi body's (X_i, V_i) by the result of a two-body Kepler step, which conserves
   X_i x V_i (C03: the f-g step has f g' - f' g = 1), and moves the centre of mass uniformly, which conserves
   X_0 x V_0.  Hence ANY two inertial states with the same masses whose Jacobi images agree in these per-body
   quantities have the same total angular momentum. (z component; the others are the same statement.) *)
From Coq Require Import List Reals Lra Lia.
From RV Require Import Common.Num Common.RealNum C12.Model C12.ProofsL.
Import ListNotations.
Open Scope R_scope.

(* per-body z angular momenta of a Jacobi image *)
Fixpoint lz_list (X Y VX VY : list R) : list R :=
  match X, Y, VX, VY with
  | x :: X', y :: Y', vx :: VX', vy :: VY' => (x * vy - y * vx) :: lz_list X' Y' VX' VY'
  | _, _, _, _ => []
  end.
Fixpoint wsum_mu1 (ms l : list R) (eta : R) : R :=
  match ms, l with
  | m :: r, a :: ra => mu m eta * a + wsum_mu1 r ra (eta + m)
  | _, _ => 0
  end.

Lemma wsum_mu_lz : forall ms X Y VX VY eta,
  length X = length ms -> length Y = length ms -> length VX = length ms -> length VY = length ms ->
  wsum_mu ms X VY eta - wsum_mu ms Y VX eta = wsum_mu1 ms (lz_list X Y VX VY) eta.
Proof.
  induction ms as [|m ms IH]; intros X Y VX VY eta LX LY LVX LVY.
  - destruct X; [|discriminate]. cbn. lra.
  - destruct X as [|x X]; [discriminate|]. destruct Y as [|y Y]; [discriminate|].
    destruct VX as [|vx VX]; [discriminate|]. destruct VY as [|vy VY]; [discriminate|].
    cbn [length] in *. injection LX as LX. injection LY as LY. injection LVX as LVX. injection LVY as LVY.
    cbn [wsum_mu lz_list wsum_mu1]. rewrite <- (IH X Y VX VY (eta + m) LX LY LVX LVY). ring.
Qed.

Lemma jac_fwd_act_length : forall l eta s A st, jac_fwd_act RNum l eta s = (A, st) -> length A = length l.
Proof.
  induction l as [|[m q] l IH]; intros eta s A st E.
  - cbn in E. inversion E. reflexivity.
  - rewrite jac_act_cons in E.
    destruct (jac_fwd_act RNum l (eta + m) (s * ((eta + m) * (1 / eta)) + m * (q - s * (1 / eta)))) as [A' st'] eqn:E'.
    inversion E. cbn [length]. f_equal. exact (IH _ _ _ _ E').
Qed.

Section Drift.
Variables (m0 : R) (ms : list R).
Hypothesis Hm0 : m0 <> 0.
Hypothesis Hok : etas_ok ms m0.

(* an inertial state (one record per coordinate used by L_z) and its Jacobi image *)
Record state := mkS { x0 : R; y0 : R; vx0 : R; vy0 : R; xs : list R; ys : list R; vxs : list R; vys : list R }.
Definition totLz (s : state) : R :=
  (m0 * x0 s * vy0 s + sum_mab ms (xs s) (vys s)) - (m0 * y0 s * vx0 s + sum_mab ms (ys s) (vxs s)).
Definition wf (s : state) : Prop :=
  length (xs s) = length ms /\ length (ys s) = length ms /\ length (vxs s) = length ms /\ length (vys s) = length ms.
Record jimage := mkJ { JX : list R; JY : list R; JVX : list R; JVY : list R; JM : R; sx : R; sy : R; svx : R; svy : R }.
Definition image_of (s : state) (j : jimage) : Prop :=
  jac_fwd_act RNum (combine ms (xs s)) m0 (m0 * x0 s) = (JX j, (JM j, sx j)) /\
  jac_fwd_act RNum (combine ms (ys s)) m0 (m0 * y0 s) = (JY j, (JM j, sy j)) /\
  jac_fwd_act RNum (combine ms (vxs s)) m0 (m0 * vx0 s) = (JVX j, (JM j, svx j)) /\
  jac_fwd_act RNum (combine ms (vys s)) m0 (m0 * vy0 s) = (JVY j, (JM j, svy j)).
(* centre-of-mass term and per-body terms of L_z in Jacobi coordinates *)
Definition com_lz (j : jimage) : R := (sx j / JM j) * (svy j / JM j) - (sy j / JM j) * (svx j / JM j).
Definition body_lz (j : jimage) : list R := lz_list (JX j) (JY j) (JVX j) (JVY j).

Lemma totLz_in_jacobi s j : wf s -> image_of s j ->
  totLz s = JM j * com_lz j + wsum_mu1 ms (body_lz j) m0.
Proof.
  intros (Lx & Ly & Lvx & Lvy) (EX & EY & EVX & EVY). unfold totLz.
  rewrite (jacobi_angular_momentum_z m0 (x0 s) (y0 s) (vx0 s) (vy0 s) ms (xs s) (ys s) (vxs s) (vys s)
             (JX j) (JY j) (JVX j) (JVY j) (JM j) (sx j) (sy j) (svx j) (svy j) Lx Ly Lvx Lvy Hm0 Hok EX EY EVX EVY).
  unfold body_lz, com_lz.
  rewrite <- (wsum_mu_lz ms (JX j) (JY j) (JVX j) (JVY j) m0).
  - ring.
  - rewrite (jac_fwd_act_length _ _ _ _ _ EX), combine_length, Lx. apply Nat.min_id.
  - rewrite (jac_fwd_act_length _ _ _ _ _ EY), combine_length, Ly. apply Nat.min_id.
  - rewrite (jac_fwd_act_length _ _ _ _ _ EVX), combine_length, Lvx. apply Nat.min_id.
  - rewrite (jac_fwd_act_length _ _ _ _ _ EVY), combine_length, Lvy. apply Nat.min_id.
Qed.

(* the drift theorem: same masses, every Jacobi body keeps its own angular momentum, the centre of mass keeps
   X_0 x V_0 (uniform motion does) => the total angular momentum of the inertial states is the same *)
Theorem wh_drift_conserves_Lz s s' j j' :
  wf s -> wf s' -> image_of s j -> image_of s' j' ->
  JM j' = JM j -> com_lz j' = com_lz j -> body_lz j' = body_lz j ->
  totLz s' = totLz s.
Proof.
  intros W W' I I' EM EC EB. rewrite (totLz_in_jacobi s j W I), (totLz_in_jacobi s' j' W' I'). rewrite EM, EC, EB. reflexivity.
Qed.
End Drift.

(* the two per-body facts used above, for the operators the drift applies *)
(* a two-body f-g step with f g' - f' g = 1 conserves x vy - y vx *)
Lemma fg_conserves_lz f g fd gd x y vx vy : f * gd - fd * g = 1 ->
  (f * x + g * vx) * (fd * y + gd * vy) - (f * y + g * vy) * (fd * x + gd * vx) = x * vy - y * vx.
Proof. intros H. replace ((f * x + g * vx) * (fd * y + gd * vy) - (f * y + g * vy) * (fd * x + gd * vx))
  with ((f * gd - fd * g) * (x * vy - y * vx)) by ring. rewrite H. ring. Qed.
(* uniform motion of the centre of mass conserves X0 VY0 - Y0 VX0 *)
Lemma com_drift_conserves_lz dt x y vx vy : (x + dt * vx) * vy - (y + dt * vy) * vx = x * vy - y * vx.
Proof. ring. Qed.

(* composition with C03: the Kepler step of the library's model (fg_coeffs / fg_apply, compared bit for bit with
   reb_whfast_kepler_solver there), whenever X solves the universal Kepler equation (kepler_hyp), conserves the
   z angular momentum of the two-body state it is applied to *)
From RV Require Import C03.Model C03.Proofs C03.Extra.
Theorem kepler_step_conserves_lz (p : P6) (M dt r0 beta X G0 G1 G2 G3 : R) :
  kepler_hyp p M dt r0 beta X G0 G1 G2 G3 ->
  forall x y z vx vy vz,
  let '(x', y', _, vx', vy', _) :=
    fg_apply RNum (fg_coeffs RNum M dt (1 / r0) (1 / new_radius p M r0 beta G1 G2) G1 G2 G3) (x, y, z, vx, vy, vz) in
  x' * vy' - y' * vx' = x * vy - y * vx.
Proof.
  intros H x y z vx vy vz. pose proof (fg_determinant p M dt r0 beta X G0 G1 G2 G3 H) as D.
  destruct (fg_coeffs RNum M dt (1 / r0) (1 / new_radius p M r0 beta G1 G2) G1 G2 G3) as [[[fc g] fd] gdc].
  cbv zeta in D. destruct D as [Hdet Happ]. rewrite Happ.
  apply fg_conserves_lz. exact Hdet.
Qed.
