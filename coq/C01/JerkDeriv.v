(* C01 round 2 — what the jerk kick IS: for one pair (i, j), the velocity increment of particle i computed by
   reb_calculate_and_apply_jerk equals 2 v times the directional derivative of the pair acceleration
   a_i<-j (d) = - G m_j d / |d|^3   (d = x_i - x_j)   along the relative acceleration  (a_i - a_j), i.e.
   2 v (d/d eps) a_i<-j (d + eps (a_i - a_j)) at eps = 0 -- the x component is proved, y and z are the same by symmetry
   of the formula.  (Summed over pairs this is 2 v (grad a).a = - v grad |a|^2 for the pair potential.) *)
From Coq Require Import Reals Lra List.
From Coquelicot Require Import Coquelicot.
From RV Require Import Common.Num Common.RealNum C01.Jerk.
Open Scope R_scope.

Definition pair_acc_x (G mj dx dy dz : R) : R := - G * mj * dx / (sqrt (dx * dx + dy * dy + dz * dz)) ^ 3.

Definition jerk_directional_derivative_statement : Prop := forall v G (bi bj : @body R),
  let dx := bx bi - bx bj in let dy := by_ bi - by_ bj in let dz := bz bi - bz bj in
  let ex := bax bi - bax bj in let ey := bay bi - bay bj in let ez := baz bi - baz bj in
  0 < dx * dx + dy * dy + dz * dz ->
  is_derive (fun eps => 2 * v * pair_acc_x G (bm bj) (dx + eps * ex) (dy + eps * ey) (dz + eps * ez)) 0
            (fst (fst (fst (pair_terms RNum v G bi bj)))).

Lemma jerk_is_directional_derivative_x : jerk_directional_derivative_statement.
Proof.
  unfold jerk_directional_derivative_statement.
  intros v G bi bj. cbv zeta. intros Hr.
  set (dx := bx bi - bx bj) in *. set (dy := by_ bi - by_ bj) in *. set (dz := bz bi - bz bj) in *.
  set (ex := bax bi - bax bj) in *. set (ey := bay bi - bay bj) in *. set (ez := baz bi - baz bj) in *.
  unfold pair_acc_x.
  assert (Hs0 : 0 < sqrt (dx * dx + dy * dy + dz * dz)) by (apply sqrt_lt_R0; exact Hr).
  auto_derive.
  all: rewrite ?Rmult_0_l, ?Rplus_0_r.
  - split; [exact Hr|]. split; [|exact I].
    apply Rgt_not_eq. repeat apply Rmult_lt_0_compat; try exact Hs0; lra.
  - unfold pair_terms. cbn. fold dx dy dz ex ey ez.
    set (s := sqrt (dx * dx + dy * dy + dz * dz)) in *.
    field. lra.
Qed.
