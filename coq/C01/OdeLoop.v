(* C01 — the loop of reb_integrator_part2 (src/integrator.c) that advances user-defined ODEs from t - dt_last_done to t
   after a step of a non-BS integrator, over an ABSTRACT Bulirsch-Stoer sub-stepper: each call reb_integrator_bs_step(r, dt)
   is represented by its observable answer (success, new ri_bs.dt_proposed).  Num-polymorphic: the binary64 instance is
   compared bit for bit with the (t, dt) sequence the library really passes (tools/c01.py, gdb), the R instance carries
   the theorem.  Definitions only.

        double dt = r->dt_last_done;  double t = r->t - r->dt_last_done;  double forward = (dt>0.) ? 1. : -1.;
        while (t*forward < r->t*forward && fabs((r->t - t)/(fabs(r->t)+1e-16)) > 1e-15){
            if (r->ri_bs.dt_proposed != 0.){
                double max_dt = fabs(r->t - t);  dt = fabs(r->ri_bs.dt_proposed);
                if (dt > max_dt){ dt = max_dt; ... }   dt *= forward; }
            int success = reb_integrator_bs_step(r, dt);   if (success){ t += dt; } }                                  *)
From Coq Require Import List ZArith Bool.
From RV Require Import Common.Num.
Import ListNotations.

Section OdeLoop.
Context {T : Type} (N : Num T).

Definition loop_cond (rt t fwd : T) : bool :=
  nltb N (nmul N t fwd) (nmul N rt fwd) &&
  nltb N (ndec N 1 (10 ^ 15)) (nabs N (ndiv N (nsub N rt t) (nadd N (nabs N rt) (ndec N 1 (10 ^ 16))))).

Definition choose_dt (rt t fwd dt prop : T) : T :=
  if neqb N prop (nzero N) then dt
  else let max_dt := nabs N (nsub N rt t) in
       let d := nabs N prop in
       nmul N (if nltb N max_dt d then max_dt else d) fwd.

(* returns: the (t, dt) of every call, the final t, and whether the loop condition became false (true) or the list of
   sub-stepper answers ran out first (false) *)
Fixpoint ode_loop (oracle : list (bool * T)) (rt fwd t dt prop : T) : list (T * T) * T * bool :=
  match oracle with
  | [] => ([], t, negb (loop_cond rt t fwd))
  | (succ, prop') :: o =>
      if loop_cond rt t fwd then
        let dt' := choose_dt rt t fwd dt prop in
        let t' := if succ then nadd N t dt' else t in
        match ode_loop o rt fwd t' dt' prop' with (tr, te, fin) => ((t, dt') :: tr, te, fin) end
      else ([], t, true)
  end.

Definition ode_run (oracle : list (bool * T)) (rt dt_last_done prop0 : T) : list (T * T) * T * bool :=
  let fwd := if nltb N (nzero N) dt_last_done then none N else nneg N (none N) in
  ode_loop oracle rt fwd (nsub N rt dt_last_done) dt_last_done prop0.
End OdeLoop.
