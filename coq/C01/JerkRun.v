(* C01 — binary64 instance of the jerk model, as evaluated by the correspondence check. *)
From Coq Require Import List ZArith PrimFloat.
From RV Require Import Common.Num Common.FloatNum C01.Jerk.
Import ListNotations.

(* bodies as rows [m; x; y; z; ax; ay; az], velocities as rows [vx; vy; vz]; result flattened *)
Definition mk_body (r : list float) : body :=
  match r with [m; x; y; z; ax; ay; az] => mkB m x y z ax ay az | _ => d0 FNum end.
Definition mk_vec (r : list float) : vec :=
  match r with [a; b; c] => (a, b, c) | _ => z3 FNum end.
Definition jerkF (v G : float) (bs vs : list (list float)) (nact nreal ignore : nat) (tp : bool) : list float :=
  let starti := match ignore with O => 1 | _ => 2 end in
  let startj := match ignore with 2 => 1 | _ => 0 end in
  flat_map (fun w => match w with (a, b, c) => [a; b; c] end)
    (jerk FNum v G (map mk_body bs) (map mk_vec vs) nact nreal starti startj tp).
