(* C01 — Num-polymorphic transcription of reb_calculate_and_apply_jerk (src/gravity.c, REB_GRAVITY_BASIC branch):
   the modified-kick ("jerk") term used by EOS PMLF4/PMLF6.  Loop for loop, same operation order; the binary64
   instance is compared bit for bit with the exported C function (tools/c01.py), the R instance carries the
   theorem (Newton's third law for the modified kick).  Definitions only. *)
From Coq Require Import List ZArith.
From RV Require Import Common.Num.
Import ListNotations.

Section Jerk.
Context {T : Type} (N : Num T).
Let add := nadd N. Let sub := nsub N. Let mul := nmul N. Let div := ndiv N.

Record body := mkB { bm : T; bx : T; by_ : T; bz : T; bax : T; bay : T; baz : T }.
Definition vec : Type := (T * T * T)%type.
Definition d0 : body := mkB (nzero N) (nzero N) (nzero N) (nzero N) (nzero N) (nzero N) (nzero N).
Definition z3 : vec := (nzero N, nzero N, nzero N).

(* body of the inner loops: contribution to particle i (first) and, when applied, to particle j (second) *)
Definition pair_terms (v G : T) (bi bj : body) : vec * vec :=
  let dx := sub (bx bi) (bx bj) in let dy := sub (by_ bi) (by_ bj) in let dz := sub (bz bi) (bz bj) in
  let dax := sub (bax bi) (bax bj) in let day := sub (bay bi) (bay bj) in let daz := sub (baz bi) (baz bj) in
  let dr := nsqrt N (add (add (mul dx dx) (mul dy dy)) (mul dz dz)) in
  let alphasum := add (add (mul dax dx) (mul day dy)) (mul daz dz) in
  let prefact2 := div (mul (mul (nofZ N 2) v) G) (mul (mul dr dr) dr) in
  let prefact2i := mul prefact2 (bm bj) in
  let prefact2j := mul prefact2 (bm bi) in
  let prefact1 := div (mul (div (mul alphasum prefact2) dr) (nofZ N 3)) dr in
  let prefact1i := mul prefact1 (bm bj) in
  let prefact1j := mul prefact1 (bm bi) in
  ((sub (mul dx prefact1i) (mul dax prefact2i), sub (mul dy prefact1i) (mul day prefact2i), sub (mul dz prefact1i) (mul daz prefact2i)),
   (sub (mul dax prefact2j) (mul dx prefact1j), sub (mul day prefact2j) (mul dy prefact1j), sub (mul daz prefact2j) (mul dz prefact1j))).

Definition vadd (a b : vec) : vec :=
  match a, b with (a1, a2, a3), (b1, b2, b3) => (add a1 b1, add a2 b2, add a3 b3) end.
(* particles[k].v += d *)
Definition bump (vs : list vec) (k : nat) (d : vec) : list vec := upd vs k (vadd (nth_d z3 vs k) d).

(* for (i = lo; i < hi; i++) for (j = startj; j < i; j++) *)
Definition pairs (lo hi startj : nat) : list (nat * nat) :=
  flat_map (fun i => map (fun j => (i, j)) (seq startj (i - startj))) (seq lo (hi - lo)).

(* for (i = lo; i < hi; i++) for (j = startj; j < jhi; j++): second loop, test particle i against ACTIVE j only *)
Definition pairs2 (lo hi startj jhi : nat) : list (nat * nat) :=
  flat_map (fun i => map (fun j => (i, j)) (seq startj (jhi - startj))) (seq lo (hi - lo)).

Definition incs_pair (both : bool) (v G : T) (bs : list body) (ij : nat * nat) : list (nat * vec) :=
  let t := pair_terms v G (nth_d d0 bs (fst ij)) (nth_d d0 bs (snd ij)) in
  (fst ij, fst t) :: (if both then [(snd ij, snd t)] else []).

(* the velocity increments in the order the C code applies them.
   nact = _N_active, nreal = _N_real, starti/startj from gravity_ignore_terms, tp = (testparticle_type != 0) *)
Definition jerk_incs (v G : T) (bs : list body) (nact nreal starti startj : nat) (tp : bool) : list (nat * vec) :=
  flat_map (incs_pair true v G bs) (pairs starti nact startj) ++
  flat_map (incs_pair tp v G bs) (pairs2 nact nreal startj nact).

Definition apply_incs (vs : list vec) (l : list (nat * vec)) : list vec :=
  fold_left (fun vs kd => bump vs (fst kd) (snd kd)) l vs.

Definition jerk (v G : T) (bs : list body) (vs : list vec) (nact nreal starti startj : nat) (tp : bool) : list vec :=
  apply_incs vs (jerk_incs v G bs nact nreal starti startj tp).
End Jerk.

Arguments mkB {T} _ _ _ _ _ _ _.
Arguments bm {T} _.
