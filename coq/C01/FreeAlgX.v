(* C01 — extension of the truncated free algebra (C01/FreeAlg.v): right multiplication by the exponential of a
   LIE ELEMENT  X = y B + v [B,[A,B]]   (the "modified kick"), computed inside the free algebra on {A,B}:
        [B,[A,B]] = 2 BAB - BBA - ABB ,     t . exp(X) = sum_k  t X^k / k! .
   Scaling as in FreeAlg.v (z_w = coeff_w * SC^|w| * |w|!): appending the monomial c.s (|s| = m) to u gives
        z'_{us} += z_u * (c SC^m) * (|u|+m)!/|u|! ,
   and T_k = t X^k / k! has integer scaled coefficients (|w|!/(|u|! k!) is an integer for |w| >= |u|+k), so the
   recurrence T_{k+1} = (T_k X)/(k+1) is an exact integer division; exactness is nevertheless CHECKED (flag).
   Definitions only. *)
From Coq Require Import List ZArith Bool.
From Bignums Require Import BigZ.
From RV Require Import C01.FreeAlg.
Import ListNotations.

(* monomial: (word REVERSED, last letter first;  coefficient * SC^|word|) *)
Definition mono : Type := (list bool * bz)%type.

Fixpoint prefix_eq (s path : list bool) : bool :=
  match s, path with
  | [], _ => true
  | a :: s', b :: p' => Bool.eqb a b && prefix_eq s' p'
  | _ :: _, [] => false
  end.
Fixpoint ffact (n : bz) (m : nat) : bz :=          (* n (n-1) ... (n-m+1) *)
  match m with O => 1%bigZ | S m' => (n * ffact (n - 1) m')%bigZ end.

Definition mono_contrib (n : bz) (path : list bool) (anc : list bz) (mo : mono) : bz :=
  let (s, c) := mo in
  if prefix_eq s path then
    match nth_error anc (length s - 1) with
    | Some zu => (zu * c * ffact n (length s))%bigZ
    | None => 0%bigZ
    end
  else 0%bigZ.

(* t . X  for a polynomial X without constant term (all monomials of length >= 1) *)
Fixpoint mulP (X : list mono) (n : bz) (path : list bool) (anc : list bz) (t : trie) : trie :=
  match t with
  | Leaf => Leaf
  | Node z ta tb =>
      let z' := fold_left (fun acc mo => (acc + mono_contrib n path anc mo)%bigZ) X 0%bigZ in
      Node z' (mulP X (n + 1)%bigZ (false :: path) (z :: anc) ta)
              (mulP X (n + 1)%bigZ (true :: path) (z :: anc) tb)
  end.

Fixpoint tadd (a b : trie) : trie :=
  match a, b with
  | Node x a1 a2, Node y b1 b2 => Node (x + y)%bigZ (tadd a1 b1) (tadd a2 b2)
  | _, _ => Leaf
  end.
Fixpoint tdiv (k : bz) (t : trie) : trie :=
  match t with Leaf => Leaf | Node z a b => Node (z / k)%bigZ (tdiv k a) (tdiv k b) end.
Fixpoint tdivisible (k : bz) (t : trie) : bool :=
  match t with Leaf => true | Node z a b => BigZ.eqb (z mod k)%bigZ 0%bigZ && tdivisible k a && tdivisible k b end.

(* sum_k t X^k / k!  (fuel > maximal kept length: every X raises the length by >= 1) *)
Fixpoint texp_loop (fuel : nat) (X : list mono) (k : bz) (Tk acc : trie) (ok : bool) : trie * bool :=
  match fuel with
  | O => (acc, ok)
  | S f =>
      let P := mulP X 0%bigZ [] [] Tk in
      let T' := tdiv k P in
      texp_loop f X (k + 1)%bigZ T' (tadd acc T') (ok && tdivisible k P)
  end.
Definition mul_expX (g : grading) (X : list mono) (t : trie) : trie * bool :=
  texp_loop (S (gmax g)) X 1%bigZ t t true.

(* operators of an extended scheme *)
Inductive xop :=
  | XE (x : bool) (c : Z)          (* exp(c X), c scaled by SC: as in FreeAlg.scheme *)
  | XK (y : Z) (vc : Z).           (* exp(y B + v [B,[A,B]]):  y scaled by SC, vc = v * SC^3 *)
Definition xscheme := list xop.

Definition kick_poly (y vc : Z) : list mono :=
  let Y := BigZ.of_Z y in let V := BigZ.of_Z vc in
  [ ([true], Y);                                   (* y B *)
    ([true; false; true], (2 * V)%bigZ);           (* 2v BAB *)
    ([false; true; true], (- V)%bigZ);             (* -v BBA   (reversed: A,B,B) *)
    ([true; true; false], (- V)%bigZ) ].           (* -v ABB   (reversed: B,B,A) *)

Definition xmul (g : grading) (st : trie * bool) (o : xop) : trie * bool :=
  match o with
  | XE x c => (mul_exp (fst st) (x, c), snd st)
  | XK y vc => let r := mul_expX g (kick_poly y vc) (fst st) in (fst r, snd st && snd r)
  end.
Definition xproduct (g : grading) (s : xscheme) : trie * bool := fold_left (xmul g) s (one g, true).

Definition xnegate (s : xscheme) : xscheme :=
  map (fun o => match o with XE x c => XE x (- c) | XK y vc => XK (- y) (- vc) end) s.   (* h -> -h: v ~ h^3 *)

Definition xorder_ok (g : grading) (T : Z) (s : xscheme) : bool :=
  let p := xproduct g s in let q := xproduct g (xnegate s) in
  snd p && snd q &&
  all_below T (resid 1%bigZ (fst p) 0 0 1%bigZ 1%bigZ []) &&
  all_below T (resid (-1)%bigZ (fst q) 0 0 1%bigZ 1%bigZ []).
Definition xsharp_at (g' : grading) (T' : Z) (len nb : nat) (s : xscheme) : bool :=
  let p := xproduct g' s in snd p && some_above_at T' len nb (resid 1%bigZ (fst p) 0 0 1%bigZ 1%bigZ []).
Definition xsame_element (g : grading) (s1 s2 : xscheme) : bool :=
  let p := xproduct g s1 in let q := xproduct g s2 in snd p && snd q && trie_eqb (fst p) (fst q).

Definition of_scheme (s : scheme) : xscheme := map (fun o => XE (fst o) (snd o)) s.
