(* C01 round 3 — binary64 instances of the step-size controllers for the correspondence cases. *)
From Coq Require Import List ZArith Bool PrimFloat FloatClass.
From RV Require Import Common.Num Common.FloatNum Gen.Schemes C01.StepCtl.
Import ListNotations.
Definition isnF (x : float) : bool :=
  match PrimFloat.classify x with PNormal | NNormal => true | _ => false end.
Definition negF (x : float) : bool :=
  match PrimFloat.classify x with NNormal | NSubn | NZero | NInf => true | _ => false end.
Definition csF (m s : float) : float := if negF s then PrimFloat.opp (PrimFloat.abs m) else PrimFloat.abs m.
Definition b2f (b : bool) : float := if b then 1%float else 0%float.
Definition SFp : Z * Z := ias15_safety_factor.
(* [candidate; accepted; next dt] *)
Definition ias15F01 (eps err dt_done min_dt : float) : list float :=
  let raw := ias15_raw01 FNum isnF (sqrt7 FNum isnF) SFp eps err dt_done in
  let r := ias15_tail FNum csF SFp raw dt_done min_dt in [raw; b2f (fst r); snd r].
Definition ias15F23 (eps ts2 dt_done min_dt : float) : list float :=
  let raw := ias15_raw23 FNum isnF (sqrt7 FNum isnF) SFp eps ts2 dt_done in
  let r := ias15_tail FNum csF SFp raw dt_done min_dt in [raw; b2f (fst r); snd r].
(* BS: [optimal_step[k]] from the recorded fac0 and pow(stepControl3, exp);  decision as [continue; reject] *)
Definition bsF_opt (sc4 fac0 power dt : float) : list float := [PrimFloat.abs (PrimFloat.mul dt (bs_fac_core FNum sc4 fac0 power))].
Definition bsF_dec (d : Z) (error ratio2 : float) (tg pr fl : bool) : list float :=
  let r := bs_decide FNum d error ratio2 tg pr fl in [b2f (fst r); b2f (snd r)].
Definition bsF_clamp (min_dt max_dt dtabs : float) (forward : bool) : list float := [bs_clamp FNum min_dt max_dt dtabs forward].
