(* C01 round 2 — IAS15 Gauss-Radau table relations and BS extrapolation, by vm_compute over the regenerated tables. *)
From Coq Require Import List ZArith Bool QArith.
From RV Require Import Gen.Schemes C01.Tables.
Lemma ias15_h_radau : ias15_h_ok = true.
Proof. vm_cast_no_check (eq_refl true). Qed.
Lemma ias15_rr_differences : ias15_rr_ok = true.
Proof. vm_cast_no_check (eq_refl true). Qed.
Lemma ias15_c_products : ias15_c_ok = true.
Proof. vm_cast_no_check (eq_refl true). Qed.
Lemma ias15_c_d_inverse : ias15_cd_ok = true.
Proof. vm_cast_no_check (eq_refl true). Qed.
Lemma ias15_w_moments : ias15_w_ok = true /\ ias15_w_sharp = true.
Proof. split; vm_cast_no_check (eq_refl true). Qed.
Lemma bs_tables : bs_sequence_ok = true /\ bs_extrapolation_ok = true.
Proof. split; vm_cast_no_check (eq_refl true). Qed.
