(* C01 — words of the modified-kick schemes (letter C = [B,[A,B]] realised inside the free algebra, C01/FreeAlgX.v).
   Normalisation conventions (TRUSTED, decided by computation and then frozen: with any other of the candidate
   factors +-1/4, +-1/2, +-1, +-2 the theorems below fail):
     reb_calculate_and_apply_jerk(r, v)  (gravity.c, used by EOS)            acts as   exp( v   [B,[A,B]] )
     reb_whfast_calculate_jerk (integrator_whfast.c, used by WHFast and SABA) yields    jerk = [B,[A,B]] / 2
   so  WHFast MODIFIEDKICK  (a += dt^2/12 jerk; kick dt)   = exp(dt B + dt^3/24 [B,[A,B]])      (Wisdom-Holman-Touma 96)
       SABA CM corrector    (a = dt^2 jerk;  kick cc dt)   = exp(cc dt^3 / 2 [B,[A,B]])         (Laskar-Robutel 01: c/2)
   Definitions only. *)
From Coq Require Import List ZArith Bool.
From RV Require Import Gen.Schemes C01.FreeAlg C01.Model C01.FreeAlgX.
Import ListNotations.
Open Scope Z_scope.

Definition SC2 : Z := gen_SC * gen_SC.
Definition SC3 : Z := gen_SC * gen_SC * gen_SC.

(* ---- SABA CM types 0x100 + row: part1: corrector(cc), kepler(c0); part2: as plain, then kepler(c0); synchronize: corrector(cc) *)
Definition saba_cm_kick (row : nat) : xop := XK 0 (nthZ saba_cc row * SC2 / 2).
Definition saba_cm_word (row : nat) : xscheme :=
  saba_cm_kick row :: of_scheme (saba_word (Z.of_nat row)) ++ [saba_cm_kick row].
Definition saba_cm_halves_exact (row : nat) : bool := Z.eqb ((nthZ saba_cc row * SC2) mod 2) 0.

(* ---- WHFast MODIFIEDKICK kernel with corrector k (Jacobi): Cor . K(1/2) . MK(1, 1/24) . K(1/2) . Cor^-1 *)
Definition whfast_mk_word (k : nat) : xscheme :=
  of_scheme (corrector_word (corrector_calls k true)) ++ [XE false half; XK gen_SC (SC3 / 24); XE false half]
  ++ of_scheme (corrector_word (corrector_calls k false)).

(* ---- corrector2 (integrator_whfast.c): pure word in A, B.
   operator_C(a,b) = K(a) I(b) K(-a);  Y(a,b) = C(a,b) C(-a,-b);  U(a,b) = K(a) Y(a,b) Y(a,-b) K(-a);
   apply_corrector2(inv): a = inv/2, b = corrector2_b * inv;  U(a,b) U(-a,b) *)
Definition op_C (a b : Z) : scheme := [A a; B b; A (- a)].
Definition op_Y (a b : Z) : scheme := op_C a b ++ op_C (- a) (- b).
Definition op_U (a b : Z) : scheme := [A a] ++ op_Y a b ++ op_Y a (- b) ++ [A (- a)].
Definition corrector2_word (fwd : bool) : scheme :=
  let s : Z := if fwd then 1 else (-1) in
  let a := s * half in let b := s * whfast_corrector2_b in
  op_U a b ++ op_U (- a) b.
(* kernel word (two letters or with modified kick) wrapped as in part1 / synchronize:
   apply_corrector(+1); apply_corrector2(+1); kernel; apply_corrector2(-1); apply_corrector(-1) *)
Definition with_correctors (k : nat) (kernel : xscheme) : xscheme :=
  of_scheme (corrector_word (corrector_calls k true) ++ corrector2_word true) ++ kernel ++
  of_scheme (corrector2_word false ++ corrector_word (corrector_calls k false)).
Definition mk_kernel : xscheme := [XE false half; XK gen_SC (SC3 / 24); XE false half].
Definition comp_kernel : xscheme :=
  of_scheme [A (5 * gen_SC / 8); B (- gen_SC / 6); A (- gen_SC / 4); B (gen_SC / 6); A (gen_SC / 8); B gen_SC; A (- gen_SC / 8);
             B (- gen_SC / 6); A (gen_SC / 4); B (gen_SC / 6); A (3 * gen_SC / 8)].

(* ---- EOS PMLF4 / PMLF6: translator triples (letter, y*SC, 24*v*SC) -> xop, v acting as v [B,[A,B]] *)
Definition of_mk (w : list (bool * Z * Z)) : xscheme :=
  map (fun o : bool * Z * Z => match o with (x, y, v24) =>
         if x then (if Z.eqb v24 0 then XE true y else XK y (v24 * SC2 / 24)) else XE false y end) w.
Definition mk_no_jerk_on_drift (w : list (bool * Z * Z)) : bool :=
  forallb (fun o : bool * Z * Z => match o with (x, _, v24) => x || Z.eqb v24 0 end) w.

(* ------------------------------------------------------------------ decision predicates (round 2) *)
Definition g_no_eps2h2 : grading := mkG 2 [2; 3; 3]%nat.   (* all words of length <= 2, and the words of length 3 with >= 2 letters B:
   given that the length-<=2 residual vanishes, the length-3 residual IS the degree-3 Lie term a[A,[A,B]] + b[B,[A,B]];
   vanishing on the two-B words means b = 0: "no eps^2 h^2 term" although the eps h^2 term a is present *)
Definition saba_cm1_ok : bool :=
  saba_cm_halves_exact 0 && xorder_ok g_no_eps2h2 T25 (saba_cm_word 0) && negb (xorder_ok g_no_eps2h2 T25 (of_scheme (saba_word 0))).
(* SABAC n = 2,3,4: (2n, 4) [three-B terms also vanish up to length 4] *)
Definition saba_cm_grading (row : nat) : grading := gr [2 * (row + 1); 4; 4]%nat.
Definition saba_cm_ok (row : nat) : bool := saba_cm_halves_exact row && xorder_ok (saba_cm_grading row) T25 (saba_cm_word row).
Definition saba_cm_sharp (row : nat) : bool :=
  let n := (2 * (row + 1))%nat in
  xsharp_at (gr [S n; 4; 4]%nat) T4 (S n) 1 (saba_cm_word row) && xsharp_at (gr [Nat.max n 5; 5; 4]%nat) T4 5 2 (saba_cm_word row)
  && negb (xorder_ok (gr [n; 3; 3]%nat) T25 (of_scheme (saba_word (Z.of_nat row)))).   (* without corrector: eps^2 h^2 present *)
Definition whfast_mk_ok (k : nat) : bool := xorder_ok (gr [S k; 4; 4]%nat) T25 (whfast_mk_word k).
Definition whfast_mk_sharp (k : nat) : bool := xsharp_at (gr [Nat.max (S k) 5; 5; 4]%nat) T4 5 2 (whfast_mk_word k).

Definition pmlf4_step : xscheme := of_mk (eos_outer_PMLF4_mk ++ eos_sync_PMLF4_mk).
Definition pmlf6_step : xscheme := of_mk (eos_outer_PMLF6_mk ++ eos_sync_PMLF6_mk).
Definition T12 : Z := 10 ^ 12.
Definition pmlf_ok : bool :=
  mk_no_jerk_on_drift (eos_outer_PMLF4_mk ++ eos_sync_PMLF4_mk ++ eos_outer_PMLF6_mk ++ eos_sync_PMLF6_mk) &&
  xorder_ok (full 4) T12 pmlf4_step && xorder_ok (gr [6; 6; 4]%nat) T12 pmlf6_step &&
  xorder_ok (full 4) T12 (of_mk eos_inner_PMLF4_n1_mk) && xorder_ok (gr [6; 6; 4]%nat) T12 (of_mk eos_inner_PMLF6_n1_mk).
Definition pmlf_sharp : bool :=
  xsharp_at (gr [5; 4; 4]%nat) T4 5 1 pmlf4_step && xsharp_at (gr [7; 6; 4]%nat) T4 7 1 pmlf6_step &&
  negb (xorder_ok (full 6) T4 pmlf6_step).     (* in the FREE algebra PMLF6 is not of full order 6: three-B words of length 5,6 *)

(* corrector2 *)
Definition inv_word (s : scheme) : scheme := rev (negate s).
Definition corr2_facts : bool :=
  (* (i) the code's apply_corrector2(-1) inverts apply_corrector2(+1) only up to two-B words of length 3 ... *)
  same_element (gr [8; 3; 2]%nat) (corrector2_word true ++ corrector2_word false) [] &&
  negb (same_element (gr [8; 4; 2]%nat) (corrector2_word true ++ corrector2_word false) []) &&
  (* (ii) ... so one synchronised step with corrector2 has an eps^2 h^3 term with every kernel *)
  xorder_ok (gr [8; 3; 2]%nat) T25 (with_correctors 7 mk_kernel) && negb (xorder_ok (gr [8; 4; 2]%nat) T25 (with_correctors 7 mk_kernel)) &&
  xorder_ok (gr [8; 3; 2]%nat) T25 (with_correctors 7 comp_kernel) && negb (xorder_ok (gr [8; 4; 2]%nat) T25 (with_correctors 7 comp_kernel)) &&
  (* (iii) conjugating with the EXACT inverse word keeps (8,4,.) *)
  xorder_ok (gr [8; 4; 4]%nat) T25 (of_scheme (corrector_word (corrector_calls 7 true) ++ corrector2_word true) ++ mk_kernel ++
                                   of_scheme (inv_word (corrector2_word true) ++ corrector_word (corrector_calls 7 false))).

(* ------------------------------------------------------------------ round 3: the "lazy implementer's" kicks
   WHFast LAZY kernel:  p += tau F(q + sigma F(q)),            tau = lazy_wh_kick dt,  sigma = lazy_wh_disp dt^2
   SABA CL corrector:   p += lambda (F(q + sigma F(q)) - F(q)), lambda = cc lazy_saba_factor dt, sigma = lazy_saba_disp dt^2
   (F = -grad V the kick direction).  By Taylor,  F(q + sigma F) = F + sigma (F.grad)F + O(sigma^2),  and
   (F.grad)F = grad(|F|^2/2) is the gradient belonging to [B,[A,B]]/2: the kick is
        exp( tau B + (tau sigma / 2) [B,[A,B]] )  composed with a remainder of size tau sigma^2 |F|^2 |d^2F| ~ eps^3 dt^5,
   which is NOT a Hamiltonian flow in general (the lazy kick is only approximately symplectic) and therefore has no
   representative in the algebra; it has three factors of the perturbation and degree 5, i.e. it lies beyond every grading
   (.., .., 4) proved for the modified-kick schemes.  What is decided here: the LEADING (symplectic) part of each lazy scheme,
   built from the regenerated constants, IS the corresponding modified-kick word, exactly.  The first-order Taylor term is
   the theorem C01_jerk_is_directional_derivative (for the N-body pair force); the O(sigma^2) bound is not proved. *)
Definition lazy_v (kick disp : Z) : Z := kick * disp * gen_SC / 2.       (* (tau sigma / 2) * SC^3 *)
Definition whfast_lazy_kernel_leading : xscheme :=
  [XE false half; XK lazy_wh_kick (lazy_v lazy_wh_kick lazy_wh_disp); XE false half].
Definition saba_cl_kick_leading (row : nat) : xop :=
  XK 0 (lazy_v (nthZ saba_cc row * lazy_saba_factor / gen_SC) lazy_saba_disp).
Definition saba_cl_word_leading (row : nat) : xscheme :=
  saba_cl_kick_leading row :: of_scheme (saba_word (Z.of_nat row)) ++ [saba_cl_kick_leading row].
Definition lazy_divisions_exact : bool :=
  Z.eqb ((lazy_wh_kick * lazy_wh_disp * gen_SC) mod 2) 0 &&
  forallb (fun row => Z.eqb ((nthZ saba_cc row * lazy_saba_factor) mod gen_SC) 0 &&
                      Z.eqb ((nthZ saba_cc row * lazy_saba_factor / gen_SC * lazy_saba_disp * gen_SC) mod 2) 0) [0; 1; 2; 3]%nat.

(* round 4: WHFast safe_mode = 0, five steps, the recalculate_coordinates_this_timestep flag raised before steps 3, 4, 5 while
   unsynchronized: part1 must call reb_integrator_whfast_synchronize EVERY time (not only when the warning is first issued):
   K(1/2) I K(1) I K(1/2) | K(1/2) I K(1/2) | K(1/2) I K(1/2) | K(1/2) I K(1/2)   (last half drift from the final synchronize) *)
Definition whfast_recalc_word (corrector : nat) : scheme :=
  let c := corrector_word (corrector_calls corrector true) in let ci := corrector_word (corrector_calls corrector false) in
  c ++ [A half; B gen_SC; A gen_SC; B gen_SC; A half] ++ ci ++
  c ++ wh_kernel ++ ci ++ c ++ wh_kernel ++ ci ++ c ++ wh_kernel ++ ci.
Definition whfast_recalc_ok : bool :=
  same_element (full 4) (whfast_recalc_word 0) (repeat_word 5 wh_kernel).

(* the same for SABA (since /repo 014ae4c part1 synchronizes before recomputing the coordinates): two unsynchronized steps,
   then three steps each preceded by the flag = each starting from a synchronised state *)
Definition saba_recalc_word (type : Z) : scheme :=
  saba_word_unsync type 2 ++ saba_word type ++ saba_word type ++ saba_word type.
Definition saba_recalc_ok : bool :=
  forallb (fun t => same_element (saba_grading t) (saba_recalc_word t) (repeat_word 5 (saba_word t))) saba_plain_types.

Definition whfast_word_unsync2 : scheme := [A half; B gen_SC; A gen_SC; B gen_SC; A half].   (* two WHFast steps with safe_mode 0 + synchronize *)
