(* C01 — EOS (embedded operator splitting) and leapfrog: the words come from the translator, which interprets the
   switch arms of reb_integrator_eos_part2 / _drift_shell0 / _synchronize and the pre/post-processors. *)
From Coq Require Import List ZArith Bool.
From Bignums Require Import BigZ.
From RV Require Import Gen.Schemes C01.FreeAlg C01.Model.
Import ListNotations.
Open Scope Z_scope.

(* (grading, 1/tolerance, full outer step = part2 ++ synchronize, inner word for n = 1, 2, 3).
   Tolerances follow the number of decimals the source gives: lf6_a, lf8_a, plf7_6_4_* have 16 digits. *)
Definition eos_cases : list (grading * Z * scheme * (scheme * scheme * scheme)) :=
  [ (full 2, 10 ^ 25, eos_step eos_outer_LF eos_sync_LF, (eos_inner_LF_n1, eos_inner_LF_n2, eos_inner_LF_n3));
    (full 4, 10 ^ 25, eos_step eos_outer_LF4 eos_sync_LF4, (eos_inner_LF4_n1, eos_inner_LF4_n2, eos_inner_LF4_n3));
    (full 6, 10 ^ 13, eos_step eos_outer_LF6 eos_sync_LF6, (eos_inner_LF6_n1, eos_inner_LF6_n2, eos_inner_LF6_n3));
    (full 8, 10 ^ 12, eos_step eos_outer_LF8 eos_sync_LF8, (eos_inner_LF8_n1, eos_inner_LF8_n2, eos_inner_LF8_n3));
    (gr [4; 2]%nat, 10 ^ 25, eos_step eos_outer_LF4_2 eos_sync_LF4_2, (eos_inner_LF4_2_n1, eos_inner_LF4_2_n2, eos_inner_LF4_2_n3));
    (gr [8; 6; 4]%nat, 10 ^ 25, eos_step eos_outer_LF8_6_4 eos_sync_LF8_6_4, (eos_inner_LF8_6_4_n1, eos_inner_LF8_6_4_n2, eos_inner_LF8_6_4_n3));
    (gr [7; 6; 4]%nat, 10 ^ 12, eos_step eos_outer_PLF7_6_4 eos_sync_PLF7_6_4, (eos_inner_PLF7_6_4_n1, eos_inner_PLF7_6_4_n2, eos_inner_PLF7_6_4_n3)) ].

Definition eos_outer_ok (c : grading * Z * scheme * (scheme * scheme * scheme)) : bool :=
  match c with (g, T, w, _) => order_ok g T w end.
(* one degree beyond in the one-B class the residual is >= 1e-4 *)
Definition eos_outer_sharp (c : grading * Z * scheme * (scheme * scheme * scheme)) : bool :=
  match c with (g, T, w, _) => sharp_at (gr [S (Lof g 1); 2]%nat) T4 (S (Lof g 1)) 1 w end.
(* inner scheme: for n = 1 it is the same element as the outer full step (same tables, same arm);
   n sub-steps (with merged drifts) are exactly the n-th power of the n = 1 word *)
Definition eos_inner_ok (c : grading * Z * scheme * (scheme * scheme * scheme)) : bool :=
  match c with (g, T, w, (i1, i2, i3)) =>
    order_ok g T i1 && same_element g i1 w &&
    same_element g i2 (repeat_word 2 i1) && same_element g i3 (repeat_word 3 i1) end.

Lemma eos_outer_all : forallb eos_outer_ok eos_cases = true.
Proof. vm_cast_no_check (eq_refl true). Qed.
Lemma eos_sharp_all : forallb eos_outer_sharp eos_cases = true.
Proof. vm_cast_no_check (eq_refl true). Qed.
Lemma eos_inner_all : forallb eos_inner_ok eos_cases = true.
Proof. vm_cast_no_check (eq_refl true). Qed.

(* safe_mode = 0: step, step (dtfac = 2 arm), synchronize  ==  two synchronised steps, for every type without modified kick *)
Definition eos_unsync_cases : list (grading * scheme * scheme * scheme) :=
  [ (full 2, eos_outer_LF, eos_outer_unsync_LF, eos_sync_LF); (full 4, eos_outer_LF4, eos_outer_unsync_LF4, eos_sync_LF4);
    (full 6, eos_outer_LF6, eos_outer_unsync_LF6, eos_sync_LF6); (full 6, eos_outer_LF8, eos_outer_unsync_LF8, eos_sync_LF8);
    (gr [4; 2]%nat, eos_outer_LF4_2, eos_outer_unsync_LF4_2, eos_sync_LF4_2);
    (gr [8; 6; 4]%nat, eos_outer_LF8_6_4, eos_outer_unsync_LF8_6_4, eos_sync_LF8_6_4);
    (gr [7; 6; 4]%nat, eos_outer_PLF7_6_4, eos_outer_unsync_PLF7_6_4, eos_sync_PLF7_6_4) ].
Definition eos_unsync_ok (c : grading * scheme * scheme * scheme) : bool :=
  match c with (g, o, u, s) => same_element g (o ++ u ++ s) (repeat_word 2 (o ++ s)) end.
Lemma eos_unsync_all : forallb eos_unsync_ok eos_unsync_cases = true.
Proof. vm_cast_no_check (eq_refl true). Qed.

(* PLF7_6_4: postprocessor after preprocessor is the identity (as elements, all words of length <= 6),
   preprocessor = the first 12 operators of part2, postprocessor = synchronize without its leading drift *)
Definition eos_pre_post_identity : bool :=
  same_element (full 6) (firstn 12 eos_outer_PLF7_6_4 ++ skipn 1 eos_sync_PLF7_6_4) [].
Definition eos_bare_kernel_ok : bool :=
  order_ok (gr [7; 6; 4]%nat) T4 (skipn 12 eos_outer_PLF7_6_4 ++ firstn 1 eos_sync_PLF7_6_4).
Lemma eos_processor_inverse : eos_pre_post_identity = true.
Proof. vm_cast_no_check (eq_refl true). Qed.
(* and without its processor the PLF7_6_4 kernel alone is NOT of grading (7,6,4): the processor is needed *)
Lemma eos_kernel_needs_processor : eos_bare_kernel_ok = false.
Proof. vm_cast_no_check (eq_refl false). Qed.

Lemma leapfrog_order2 : order2_sharp leapfrog_word = true.
Proof. vm_cast_no_check (eq_refl true). Qed.
