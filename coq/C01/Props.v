(* C01 property theorems ONLY (each closed by an already proved lemma) + assumptions.
   Reading guide (definitions in C01/FreeAlg.v, C01/Model.v):
   order_ok g T w = true  means: for every word u over {A,B} kept by the grading g (|u| <= L_g(#B(u))), the
   coefficient of u in the product of exponentials described by w (the operator sequence the integrator executes
   for dt = 1, coefficients = exact decimals of the C source) differs from the coefficient 1/|u|! of exp(A+B) by at
   most 1/(T |u|!), for dt = +1 and for dt = -1.  gr [n1;n2;n3] is the grading (eps h^n1 + eps^2 h^n2 + eps^3 h^n3),
   full p the classical order p.  sharp_at g' T' len nb w = true: on the grading g' (one degree beyond) some word of
   length len with nb letters B has residual >= 1/(T' len!), so the tolerance is not what makes order_ok pass.
   same_element g w1 w2: the two products agree exactly on all kept words.   T25 = 10^25, T4 = 10^4. *)
From Coq Require Import List ZArith Bool.
From Coq Require Import Reals.
From RV Require Import Gen.Schemes C01.FreeAlg C01.Model C01.ProofsSaba C01.ProofsEos C01.ProofsJanus
  C01.ProofsWhfast C01.ProofsWhfast17 C01.FreeAlgX C01.ModelX C01.FreeAlg3 C01.Tables C01.ProofsX C01.ProofsX17 C01.ProofsTables C01.JerkDeriv C01.OdeLoop C01.OdeLoopProofs C01.StepCtl C01.StepCtlProofs C01.Switch Common.Num Common.RealNum C01.Jerk C01.JerkProofs.
Import ListNotations.
Open Scope Z_scope.

(* SABA types 0x0..0x9 (no corrector), gradings SABAn:(2n,2), (10,4), (8,6,4), (10,6,4), H(8,4,4), H(8,6,4), H(10,6,4),
   in the FREE algebra (no relation such as [B,[B,[B,A]]] = 0 is needed by any of them), tolerance 1e-25:
   saba_ok t := order_ok (saba_grading t) T25 (saba_word t) *)
Theorem C01_saba_order : forall t, In t saba_plain_types -> saba_ok t = true.
Proof. exact saba_order. Qed.
Print Assumptions C01_saba_order.

(* one degree beyond, in every class of the grading, the residual is >= 1e-4 *)
Theorem C01_saba_sharp : forall t, In t saba_plain_types -> saba_sharp t = true.
Proof. exact saba_sharpness. Qed.
Print Assumptions C01_saba_sharp.

(* palindromic word with 2*stages+1 operators *)
Theorem C01_saba_symmetric_and_stage_count : forall t, In t saba_plain_types -> saba_shape t = true.
Proof. exact saba_symmetric. Qed.
Print Assumptions C01_saba_symmetric_and_stage_count.

(* safe_mode = 0: three steps with combined drifts + synchronize = three synchronised steps (exactly) *)
Theorem C01_saba_unsynchronized_steps : forall t, In t saba_plain_types -> saba_unsync_ok t = true.
Proof. exact saba_unsync. Qed.
Print Assumptions C01_saba_unsynchronized_steps.

(* EOS outer schemes LF(2), LF4(4), LF6(6), LF8(8), LF4_2(4,2), LF8_6_4(8,6,4), processed PLF7_6_4(7,6,4):
   eos_outer_ok (g, T, part2 ++ synchronize, _) := order_ok g T (part2 ++ synchronize) *)
Theorem C01_eos_order : forall c, In c eos_cases -> eos_outer_ok c = true.
Proof. exact (proj1 (forallb_forall eos_outer_ok eos_cases) eos_outer_all). Qed.
Print Assumptions C01_eos_order.

Theorem C01_eos_sharp : forall c, In c eos_cases -> eos_outer_sharp c = true.
Proof. exact (proj1 (forallb_forall eos_outer_sharp eos_cases) eos_sharp_all). Qed.
Print Assumptions C01_eos_sharp.

(* EOS inner schemes (drift_shell0): n = 1 has the advertised grading and equals the outer step as an element;
   n = 2, 3 sub-steps with merged drifts are exactly the n-th power *)
Theorem C01_eos_inner : forall c, In c eos_cases -> eos_inner_ok c = true.
Proof. exact (proj1 (forallb_forall eos_inner_ok eos_cases) eos_inner_all). Qed.
Print Assumptions C01_eos_inner.

(* safe_mode = 0: step, step (dtfac = 2 arm), synchronize = two synchronised steps *)
Theorem C01_eos_unsynchronized_steps : forall c, In c eos_unsync_cases -> eos_unsync_ok c = true.
Proof. exact (proj1 (forallb_forall eos_unsync_ok eos_unsync_cases) eos_unsync_all). Qed.
Print Assumptions C01_eos_unsynchronized_steps.

(* PLF7_6_4: postprocessor . preprocessor = identity; the bare kernel without processor is not (7,6,4) even to 1e-4 *)
Theorem C01_eos_processor_inverse : eos_pre_post_identity = true /\ eos_bare_kernel_ok = false.
Proof. exact (conj eos_processor_inverse eos_kernel_needs_processor). Qed.
Print Assumptions C01_eos_processor_inverse.

(* leapfrog DKD: order 2, palindromic, not order 3 *)
Theorem C01_leapfrog_order : order2_sharp leapfrog_word = true.
Proof. exact leapfrog_order2. Qed.
Print Assumptions C01_leapfrog_order.

(* JANUS orders 2..10: exact halvings, palindromic, classical order o (all words of length <= o), tolerance 1e-15 *)
Theorem C01_janus_order : forall o, In o janus_orders -> janus_ok o = true.
Proof. exact (proj1 (forallb_forall janus_ok janus_orders) janus_order_all). Qed.
Print Assumptions C01_janus_order.

Theorem C01_janus_sharp : forall o, In o janus_orders -> janus_sharp o = true /\ janus_stage_count o = true.
Proof. intros o H. split. exact (proj1 (forallb_forall janus_sharp janus_orders) janus_sharp_all o H).
  exact (proj1 (forallb_forall janus_stage_count janus_orders) janus_count_all o H). Qed.
Print Assumptions C01_janus_sharp.

(* WHFast DEFAULT kernel (two letters: Jacobi / barycentric): order 2, sharp *)
Theorem C01_whfast_kernel_order : order2_sharp wh_kernel = true.
Proof. exact wh_kernel_order2. Qed.
Print Assumptions C01_whfast_kernel_order.

(* with corrector k in {3,5,7,11,17}: Cor . WH . Cor^-1 has error eps h^(k+1) + eps^2 h^2
   (wh_corr_ok k := order_ok (gr2 (k+1) 2) T25 (whfast_word k)) *)
Theorem C01_whfast_corrector_order : (forall k, In k corr_small -> wh_corr_ok k = true) /\ wh_corr_ok 17 = true.
Proof. exact (conj (proj1 (forallb_forall wh_corr_ok corr_small) wh_corr_all) wh_corr17). Qed.
Print Assumptions C01_whfast_corrector_order.

Theorem C01_whfast_corrector_sharp :
  (forall k, In k corr_small -> wh_corr_sharp k = true) /\ sharp_at (gr2 19 2) T4 19 1 (whfast_word 17) = true.
Proof. exact (conj (proj1 (forallb_forall wh_corr_sharp corr_small) wh_corr_sharp_all) wh_corr17_sharp). Qed.
Print Assumptions C01_whfast_corrector_sharp.

(* apply_corrector(-1) after apply_corrector(+1) = identity *)
Theorem C01_whfast_corrector_inverse : (forall k, In k corr_small -> corr_inverse_ok k = true) /\ corr_inverse_ok 17 = true.
Proof. exact (conj (proj1 (forallb_forall corr_inverse_ok corr_small) corr_inverse_all) corr17_inverse). Qed.
Print Assumptions C01_whfast_corrector_inverse.

(* COMPOSITION kernel with corrector k in {3,5,7,11}: eps h^(k+1) + eps^2 h^4 + eps^3 h^3, sharp at (length 5, two B);
   without corrector the eps^2 h^2 term is present *)
Theorem C01_whfast_composition_kernel :
  (forall k, In k corr_small -> wh_comp_ok k = true) /\ (forall k, In k corr_small -> wh_comp_sharp k = true) /\
  order_ok (gr [2; 3; 3]%nat) T25 (whfast_composition_word 0) = false.
Proof. exact (conj (proj1 (forallb_forall wh_comp_ok corr_small) wh_comp_all)
              (conj (proj1 (forallb_forall wh_comp_sharp corr_small) wh_comp_sharp_all) wh_comp_needs_corrector)). Qed.
Print Assumptions C01_whfast_composition_kernel.

(* Modified kick (reb_calculate_and_apply_jerk, used by EOS PMLF4/PMLF6), transcribed in C01/Jerk.v and compared bit for bit
   with the C function: Newton's third law -- if test particles act back (testparticle_type != 0) or there are none
   (N_active = N) the jerk kick leaves each component c of the total momentum sum_k m_k v_k unchanged, for all states,
   all loop bounds and both values of gravity_ignore_terms' start indices.  (A flipped sign in either half breaks it.) *)
Theorem C01_jerk_third_law : forall (c : nat) (v G : R) bs vs nact nreal starti startj tp,
  length bs = length vs -> (tp = true \/ nact = nreal) ->
  mom c bs (jerk RNum v G bs vs nact nreal starti startj tp) = mom c bs vs.
Proof. exact jerk_momentum. Qed.
Print Assumptions C01_jerk_third_law.

(* ---------------- round 2: modified-kick schemes; the commutator [B,[A,B]] = 2BAB - BBA - ABB lives in the free algebra
   (C01/FreeAlgX.v); normalisation conventions of the two jerk routines are stated in C01/ModelX.v (trusted, frozen). *)

(* SABA CM (modified-kick corrector) 0x100: no eps^2 h^2 term (and plain SABA1 has one);
   0x101..0x103: gradings (4,4,4), (6,4,4), (8,4,4) at 1e-25, sharp one degree beyond in the one-B and two-B classes,
   and the same schemes without corrector do have the eps^2 h^2 term *)
Theorem C01_saba_cm_order :
  saba_cm1_ok = true /\ (forall r, In r [1; 2; 3]%nat -> saba_cm_ok r = true) /\ (forall r, In r [1; 2; 3]%nat -> saba_cm_sharp r = true).
Proof. exact (conj saba_cm1 (conj (proj1 (forallb_forall saba_cm_ok [1; 2; 3]%nat) saba_cm_all)
                                  (proj1 (forallb_forall saba_cm_sharp [1; 2; 3]%nat) saba_cm_sharp_all))). Qed.
Print Assumptions C01_saba_cm_order.

(* WHFast MODIFIEDKICK kernel exp(dt B + dt^3/24 [B,[A,B]]) with corrector k in {3,5,7,11,17}: eps h^(k+1) + eps^2 h^4 (+ eps^3 h^4),
   sharp at (length 5, two B) *)
Theorem C01_whfast_modifiedkick_order :
  (forall k, In k corr_small -> whfast_mk_ok k = true) /\ (forall k, In k corr_small -> whfast_mk_sharp k = true) /\ whfast_mk_ok 17 = true.
Proof. exact (conj (proj1 (forallb_forall whfast_mk_ok corr_small) whfast_mk_all)
              (conj (proj1 (forallb_forall whfast_mk_sharp corr_small) whfast_mk_sharp_all) whfast_mk17)). Qed.
Print Assumptions C01_whfast_modifiedkick_order.

(* COMPOSITION kernel with the 17th order corrector: eps h^18 + eps^2 h^4 + eps^3 h^3, sharp *)
Theorem C01_whfast_composition_kernel_17 : wh_comp_ok 17 = true /\ wh_comp_sharp 17 = true.
Proof. exact (conj wh_comp17 wh_comp17_sharp). Qed.
Print Assumptions C01_whfast_composition_kernel_17.

(* EOS PMLF4: order 4 (all words of length <= 4); PMLF6: grading (6,6,4) in the FREE algebra (full order 6 is refuted there:
   it needs the RKN relation [B,[B,[A,B]]] = 0, true for N-body problems, which is not imposed); outer and inner (n=1) words,
   tolerance 1e-12 (16-digit tables); sharp *)
Theorem C01_eos_pmlf_order : pmlf_ok = true /\ pmlf_sharp = true.
Proof. exact (conj pmlf_order pmlf_sharpness). Qed.
Print Assumptions C01_eos_pmlf_order.

(* corrector2 (a pure word in A, B): apply_corrector2(-1) inverts apply_corrector2(+1) only up to two-B words of length 3
   (REFUTED at length 4), so a synchronised step with corrector2 carries an eps^2 h^3 term with the MODIFIEDKICK and
   COMPOSITION kernels ((8,3,2) holds, (8,4,2) refuted, corrector 7), whereas with the exact inverse word (8,4,4) holds *)
Theorem C01_whfast_corrector2 : corr2_facts = true.
Proof. exact corr2. Qed.
Print Assumptions C01_whfast_corrector2.

(* WHFast DEFAULT kernel in democratic-heliocentric / WHDS coordinates (three letters A, B, J): palindromic, order 2
   against exp(A+B+J), not order 3; step,step,synchronize with safe_mode 0 = two synchronised steps (words up to length 6) *)
Theorem C01_whfast_dh_kernel : whfast_dh_ok = true.
Proof. exact whfast_dh. Qed.
Print Assumptions C01_whfast_dh_kernel.

(* IAS15 tables: h[0] = 0 and each h[i], i=1..7, has a root of the degree-7 left Gauss-Radau polynomial
   ((P_7+P_8)(2x-1)/x, built from the Legendre recurrence) within 1e-24, nodes separated and < 1;
   rr[n(n-1)/2+i] = h[n]-h[i] to 1e-24; c rows = coefficients of prod (x-h[m]) to 1e-24; C.D = identity to 1e-22;
   w = quadrature weights exact for degree <= 14 (to 1e-15 only: the w literals are that inaccurate) and not for 15 *)
Theorem C01_ias15_tables :
  ias15_h_ok = true /\ ias15_rr_ok = true /\ ias15_c_ok = true /\ ias15_cd_ok = true /\ ias15_w_ok = true /\ ias15_w_sharp = true.
Proof. exact (conj ias15_h_radau (conj ias15_rr_differences (conj ias15_c_products (conj ias15_c_d_inverse ias15_w_moments)))). Qed.
Print Assumptions C01_ias15_tables.

(* BS: sequence n_k = 4k+2 (k < 9); the C/D recursion of extrapolate() with x_k = 1/n_k^2, run over columns 0..K (K = 1..8),
   returns p(0) exactly for p = x^m, m <= K, and not for m = K+1 (polynomial extrapolation of degree K in h^2) *)
Theorem C01_bs_extrapolation : bs_sequence_ok = true /\ bs_extrapolation_ok = true.
Proof. exact bs_tables. Qed.
Print Assumptions C01_bs_extrapolation.

(* What the jerk kick of the bit-exactly validated model computes: for one pair (i,j) the x-increment of particle i is
   2 v (d/d eps) [ - G m_j (d + eps e)_x / |d + eps e|^3 ] at eps = 0 with d = x_i - x_j, e = a_i - a_j: the directional derivative
   of the pair acceleration along the relative acceleration (x component; y, z are the same formula with the roles permuted). *)
Theorem C01_jerk_is_directional_derivative : jerk_directional_derivative_statement.   (* spelled out in C01/JerkDeriv.v *)
Proof. exact jerk_is_directional_derivative_x. Qed.
Print Assumptions C01_jerk_is_directional_derivative.

(* User-defined ODEs advanced together with the N-body system (non-BS integrators): the sub-step loop of reb_integrator_part2,
   over an abstract BS sub-stepper (any sequence of answers (success, new dt_proposed <> 0)), in exact arithmetic:
   on normal exit the ODE time has not passed r->t and the loop condition is false there, i.e. t_end = r->t or
   |r->t - t_end| <= 1e-15 (|r->t| + 1e-16); every requested sub-step points forward and is at most the remaining time
   (so the accepted sub-steps sum to the N-body step), in both directions of time. *)
Theorem C01_ode_substeps_end_at_nbody_time : forall oracle (rt dtl prop0 : R) tr tend,
  Forall (fun o : bool * R => snd o <> 0%R) oracle ->
  ode_run RNum oracle rt dtl prop0 = (tr, tend, true) ->
  let fwd := if Rlt_dec 0 dtl then 1%R else (-1)%R in
  (fwd * tend <= fwd * rt)%R /\
  (tend = rt \/ (Rabs ((rt - tend) / (Rabs rt + ndec RNum 1 (10 ^ 16))) <= ndec RNum 1 (10 ^ 15))%R) /\
  Forall (good_call rt fwd) tr.
Proof. exact ode_run_ends_at_nbody_time. Qed.
Print Assumptions C01_ode_substeps_end_at_nbody_time.

(* ---------------- round 3 *)
(* LAZY variants (WHFast LAZY kernel, SABA CL 0x200..0x203): p += tau F(q + sigma F(q)) [- tau F(q)], constants regenerated.
   The leading, symplectic part exp(tau B + (tau sigma/2) [B,[A,B]]) of each lazy scheme IS the corresponding modified-kick
   word (exact equality of words), so C01_saba_cm_order / C01_whfast_modifiedkick_order apply to it verbatim; the remainder
   ~ tau sigma^2 (eps^3 dt^5) is not a Hamiltonian flow, has no representative in the algebra, and lies beyond the gradings
   (..,..,4); its first-order Taylor term is C01_jerk_is_directional_derivative, the O(sigma^2) bound is NOT proved. *)
Theorem C01_lazy_leading_part_is_modified_kick :
  lazy_divisions_exact = true /\ whfast_lazy_kernel_leading = mk_kernel /\
  saba_cl_word_leading 0 = saba_cm_word 0 /\ saba_cl_word_leading 1 = saba_cm_word 1 /\
  saba_cl_word_leading 2 = saba_cm_word 2 /\ saba_cl_word_leading 3 = saba_cm_word 3.
Proof. exact lazy_leading. Qed.
Print Assumptions C01_lazy_leading_part_is_modified_kick.

(* IAS15 step-size controller (model bit-exact with the library on recorded decisions), forward direction, min_dt >= 0:
   accepted => dt/4 <= dt_next <= 4 dt;  rejected => 0 < dt_retry < dt/4;  accepted iff max(candidate, min_dt) >= dt/4;
   the next step is monotone in the candidate;  with an exact 7th root the candidate is non-increasing in the error estimate,
   an accepted step has estimate <= 16384 epsilon, and an estimate of 2 epsilon IS accepted (no "estimate <= epsilon" rule). *)
Theorem C01_ias15_controller_contract :
  (forall raw done_ mn d, 0 < done_ -> 0 < raw -> 0 <= mn -> tailR raw done_ mn = (true, d) -> done_ / 4 <= d <= 4 * done_)%R /\
  (forall raw done_ mn d, 0 < done_ -> 0 < raw -> 0 <= mn -> tailR raw done_ mn = (false, d) -> 0 < d < done_ / 4)%R /\
  (forall raw done_ mn, 0 < done_ -> 0 < raw -> 0 <= mn -> (fst (tailR raw done_ mn) = true <-> done_ / 4 <= Rmax raw mn))%R /\
  (forall raw1 raw2 done_ mn, 0 < done_ -> 0 < raw1 <= raw2 -> 0 <= mn ->
     snd (tailR raw1 done_ mn) <= snd (tailR raw2 done_ mn) /\ (fst (tailR raw1 done_ mn) = true -> fst (tailR raw2 done_ mn) = true))%R.
Proof.
  split; [intros raw done_ mn d H1 H2 H3; exact (ias15_accept_ratio raw done_ mn H1 H2 H3 d)|].
  split; [intros raw done_ mn d H1 H2 H3; exact (ias15_reject_smaller raw done_ mn H1 H2 H3 d)|].
  split; [exact ias15_accept_iff | exact ias15_tail_monotone].
Qed.
Print Assumptions C01_ias15_controller_contract.

Theorem C01_ias15_error_rule : forall rt7 : R -> R,
  (forall x, 0 < x -> 0 < rt7 x)%R -> (forall x, 0 < x -> rt7 x ^ 7 = x)%R ->
  (forall eps err1 err2 done_, 0 < eps -> 0 < done_ -> 0 < err1 <= err2 -> raw01 rt7 eps err2 done_ <= raw01 rt7 eps err1 done_)%R /\
  (forall eps err done_, 0 < eps -> 0 < done_ -> 0 < err -> fst (tailR (raw01 rt7 eps err done_) done_ 0) = true -> err <= 16384 * eps)%R /\
  (forall eps done_, 0 < eps -> 0 < done_ -> fst (tailR (raw01 rt7 eps (2 * eps) done_) done_ 0) = true)%R.
Proof.
  intros rt7 Hp Hw. split; [exact (ias15_candidate_antitone rt7 Hp Hw)|].
  split; [exact (ias15_accept_error_bound rt7 Hp Hw) | exact (ias15_accepts_above_epsilon rt7 Hp Hw)].
Qed.
Print Assumptions C01_ias15_error_rule.

(* BS controller: the optimal-step factor lies in [power/4, 1/power], is non-increasing in pow(error/0.65, exp), is < 0.94 when
   that power exceeds 1 (scaled error > 1), and every accepting branch of the order-control switch requires scaled error <= 1 *)
Theorem C01_bs_controller_contract :
  (forall pe p3, 0 < p3 <= 1 -> 0 < pe -> p3 / 4 <= facR pe p3 <= 1 / p3)%R /\
  (forall pe1 pe2 p3, 0 < p3 -> 0 < pe1 <= pe2 -> facR pe2 p3 <= facR pe1 p3)%R /\
  (forall pe p3, 0 < p3 <= 1 -> 1 < pe -> facR pe p3 < 94 / 100)%R /\
  (forall d error ratio2 tg pr fl, bs_decide RNum d error ratio2 tg pr fl = (false, false) -> error <= 1)%R.
Proof. exact (conj bs_fac_bounds (conj bs_fac_antitone (conj bs_fac_reduces bs_accept_only_below_tolerance))). Qed.
Print Assumptions C01_bs_controller_contract.

(* BS min_dt / max_dt: the clamp is applied to the step PROPOSED for the next call only (model bs_clamp, bit-exact with the library);
   the step a call ATTEMPTS is its argument, unclamped -- the callers (BS part2, the user-ODE loop, TRACE's BS modes) advance time by
   exactly that amount; that "attempted = requested" is tied by the gdb trace (BA/BT records), not a theorem *)
Theorem C01_bs_step_limits :
  (forall mn mx d fw, 0 < mn <= mx -> 0 <= d -> mn <= Rabs (bs_clamp RNum mn mx d fw) <= mx)%R /\
  (forall d fw, 0 <= d -> Rabs (bs_clamp RNum 0 0 d fw) = d)%R.
Proof. exact (conj bs_clamp_range bs_clamp_off). Qed.
Print Assumptions C01_bs_step_limits.

(* the controller constants these contracts are stated for are those of the current source *)
Theorem C01_controller_constants :
  ias15_safety_factor = (1, 4) /\ bs_constants = [(13, 20); (47, 50); (1, 50); (4, 1); (4, 5); (9, 10); (1, 2)].
Proof. exact controller_constants_pinned. Qed.
Print Assumptions C01_controller_constants.

(* MERCURIUS changeover / TRACE switching: for every changeover value the kick part and the encounter part of each pair force
   add up to the Newtonian one (weights regenerated from gravity.c); the kick-first hybrid word I(1/2) J(1/2) K(1) J(1/2) I(1/2)
   is palindromic, of order 2 against exp(A'+B'+J), not 3, and deferred synchronisation is exact *)
Theorem C01_hybrid_switching :
  (forall G L r : R, r <> 0%R -> (pair_prefactor RNum mercurius_w_kick G L r + pair_prefactor RNum mercurius_w_encounter G L r = G / (r * r * r))%R) /\
  (forall G K r : R, r <> 0%R -> (pair_prefactor RNum trace_w_interaction G K r + pair_prefactor RNum trace_w_kepler G K r = G / (r * r * r))%R) /\
  hybrid_ok = true.
Proof. exact (conj mercurius_split_is_exact (conj trace_split_is_exact hybrid)). Qed.
Print Assumptions C01_hybrid_switching.

(* WHFast, safe_mode 0, coordinates recomputed three times while unsynchronized (word traced from the library): the word with a
   synchronize at every occurrence equals five synchronised steps (all words up to length 4) *)
Theorem C01_whfast_recalculate_unsynchronized : whfast_recalc_ok = true /\ saba_recalc_ok = true.   (* and for all ten plain SABA types *)
Proof. exact (conj whfast_recalc saba_recalc). Qed.
Print Assumptions C01_whfast_recalculate_unsynchronized.

(* Corners of the theorems above (what the code does where a hypothesis excludes a case):
   - C01_ode_substeps_end_at_nbody_time assumes every stepper answer has dt_proposed <> 0 (reb_integrator_bs_step always sets it to the
     non-zero dt it was called with); the corner dt_last_done = 0 is proved separately here: no sub-step is requested, the ODE time stays;
   - C01_ias15_controller_contract is stated for the forward direction (dt_done > 0, candidate > 0, min_dt >= 0); backward runs are the
     mirror image in the code (fabs / copysign) and are covered by the bit-exact controller correspondence (dt0 < 0 runs), not by a theorem;
     dt_done = 0 is outside it and outside C01's domain (a zero step advances nothing; integrate() refuses dt = 0): the library divides by dt_done there (IAS15 step() with dt = 0 gives NaN);
   - C01_jerk_is_directional_derivative and C01_hybrid_switching assume r <> 0 (distinct positions): at coincident positions the code
     divides by zero (inf/NaN accelerations), which is outside the collision-free regime C01 quantifies over;
   - the order theorems are statements about words and do not depend on N; N = 0, 1, 2, zero masses, e = 0, inc = pi, e = 0.9, extreme
     units, t0 = 1e6, dt = 0 / -0.0 / NaN are exercised by the searcher's corner group and the child-process probes. *)
Theorem C01_ode_zero_length_step : forall oracle (rt prop0 : R), ode_run RNum oracle rt 0%R prop0 = ([], (rt - 0)%R, true).
Proof. exact ode_run_zero_step. Qed.
Print Assumptions C01_ode_zero_length_step.

(* Non-vacuity: the decision procedure rejects wrong claims (leapfrog of order 4; SABA2 of grading (6,2)),
   and the lists quantified over are the concrete non-empty lists of types. *)
Example C01_checker_rejects_wrong_orders :
  wrong_claim_1 = false /\ wrong_claim_2 = false
  /\ length saba_plain_types = 10%nat /\ length eos_cases = 7%nat /\ length janus_orders = 5%nat /\ length corr_small = 4%nat.
Proof. split. exact checker_rejects_1. split. exact checker_rejects_2. repeat split. Qed.
