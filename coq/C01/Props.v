(* C01 property theorems ONLY (each closed by an already proved lemma) + assumptions.
   Reading guide (definitions in C01/FreeAlg.v, C01/Model.v):
   order_ok g T w = true  means: for every word u over {A,B} kept by the grading g (|u| <= L_g(#B(u))), the
   coefficient of u in the product of exponentials described by w (the operator sequence the integrator executes
   for dt = 1, coefficients = exact decimals of the C source) differs from the coefficient 1/|u|! of exp(A+B) by at
   most 1/(T |u|!), for dt = +1 and for dt = -1.  gr [n1;n2;n3] is the grading (eps h^n1 + eps^2 h^n2 + eps^3 h^n3),
   full p the classical order p.  sharp_at g' T' len nb w = true: on the grading g' (one degree beyond) some word of
   length len with nb letters B has residual >= 1/(T' len!), so the tolerance is not what makes order_ok pass.
   same_element g w1 w2: the two products agree exactly on all kept words.   T25 = 10^25, T4 = 10^4. *)
From Coq Require Import List ZArith Bool.
From Coq Require Import Reals.
From RV Require Import Gen.Schemes C01.FreeAlg C01.Model C01.ProofsSaba C01.ProofsEos C01.ProofsJanus
  C01.ProofsWhfast C01.ProofsWhfast17 Common.Num Common.RealNum C01.Jerk C01.JerkProofs.
Import ListNotations.
Open Scope Z_scope.

(* SABA types 0x0..0x9 (no corrector), gradings SABAn:(2n,2), (10,4), (8,6,4), (10,6,4), H(8,4,4), H(8,6,4), H(10,6,4),
   in the FREE algebra (no relation such as [B,[B,[B,A]]] = 0 is needed by any of them), tolerance 1e-25:
   saba_ok t := order_ok (saba_grading t) T25 (saba_word t) *)
Theorem C01_saba_order : forall t, In t saba_plain_types -> saba_ok t = true.
Proof. exact saba_order. Qed.
Print Assumptions C01_saba_order.

(* one degree beyond, in every class of the grading, the residual is >= 1e-4 *)
Theorem C01_saba_sharp : forall t, In t saba_plain_types -> saba_sharp t = true.
Proof. exact saba_sharpness. Qed.
Print Assumptions C01_saba_sharp.

(* palindromic word with 2*stages+1 operators *)
Theorem C01_saba_symmetric_and_stage_count : forall t, In t saba_plain_types -> saba_shape t = true.
Proof. exact saba_symmetric. Qed.
Print Assumptions C01_saba_symmetric_and_stage_count.

(* safe_mode = 0: three steps with combined drifts + synchronize = three synchronised steps (exactly) *)
Theorem C01_saba_unsynchronized_steps : forall t, In t saba_plain_types -> saba_unsync_ok t = true.
Proof. exact saba_unsync. Qed.
Print Assumptions C01_saba_unsynchronized_steps.

(* EOS outer schemes LF(2), LF4(4), LF6(6), LF8(8), LF4_2(4,2), LF8_6_4(8,6,4), processed PLF7_6_4(7,6,4):
   eos_outer_ok (g, T, part2 ++ synchronize, _) := order_ok g T (part2 ++ synchronize) *)
Theorem C01_eos_order : forall c, In c eos_cases -> eos_outer_ok c = true.
Proof. exact (proj1 (forallb_forall eos_outer_ok eos_cases) eos_outer_all). Qed.
Print Assumptions C01_eos_order.

Theorem C01_eos_sharp : forall c, In c eos_cases -> eos_outer_sharp c = true.
Proof. exact (proj1 (forallb_forall eos_outer_sharp eos_cases) eos_sharp_all). Qed.
Print Assumptions C01_eos_sharp.

(* EOS inner schemes (drift_shell0): n = 1 has the advertised grading and equals the outer step as an element;
   n = 2, 3 sub-steps with merged drifts are exactly the n-th power *)
Theorem C01_eos_inner : forall c, In c eos_cases -> eos_inner_ok c = true.
Proof. exact (proj1 (forallb_forall eos_inner_ok eos_cases) eos_inner_all). Qed.
Print Assumptions C01_eos_inner.

(* safe_mode = 0: step, step (dtfac = 2 arm), synchronize = two synchronised steps *)
Theorem C01_eos_unsynchronized_steps : forall c, In c eos_unsync_cases -> eos_unsync_ok c = true.
Proof. exact (proj1 (forallb_forall eos_unsync_ok eos_unsync_cases) eos_unsync_all). Qed.
Print Assumptions C01_eos_unsynchronized_steps.

(* PLF7_6_4: postprocessor . preprocessor = identity; the bare kernel without processor is not (7,6,4) even to 1e-4 *)
Theorem C01_eos_processor_inverse : eos_pre_post_identity = true /\ eos_bare_kernel_ok = false.
Proof. exact (conj eos_processor_inverse eos_kernel_needs_processor). Qed.
Print Assumptions C01_eos_processor_inverse.

(* leapfrog DKD: order 2, palindromic, not order 3 *)
Theorem C01_leapfrog_order : order2_sharp leapfrog_word = true.
Proof. exact leapfrog_order2. Qed.
Print Assumptions C01_leapfrog_order.

(* JANUS orders 2..10: exact halvings, palindromic, classical order o (all words of length <= o), tolerance 1e-15 *)
Theorem C01_janus_order : forall o, In o janus_orders -> janus_ok o = true.
Proof. exact (proj1 (forallb_forall janus_ok janus_orders) janus_order_all). Qed.
Print Assumptions C01_janus_order.

Theorem C01_janus_sharp : forall o, In o janus_orders -> janus_sharp o = true /\ janus_stage_count o = true.
Proof. intros o H. split. exact (proj1 (forallb_forall janus_sharp janus_orders) janus_sharp_all o H).
  exact (proj1 (forallb_forall janus_stage_count janus_orders) janus_count_all o H). Qed.
Print Assumptions C01_janus_sharp.

(* WHFast DEFAULT kernel (two letters: Jacobi / barycentric): order 2, sharp *)
Theorem C01_whfast_kernel_order : order2_sharp wh_kernel = true.
Proof. exact wh_kernel_order2. Qed.
Print Assumptions C01_whfast_kernel_order.

(* with corrector k in {3,5,7,11,17}: Cor . WH . Cor^-1 has error eps h^(k+1) + eps^2 h^2
   (wh_corr_ok k := order_ok (gr2 (k+1) 2) T25 (whfast_word k)) *)
Theorem C01_whfast_corrector_order : (forall k, In k corr_small -> wh_corr_ok k = true) /\ wh_corr_ok 17 = true.
Proof. exact (conj (proj1 (forallb_forall wh_corr_ok corr_small) wh_corr_all) wh_corr17). Qed.
Print Assumptions C01_whfast_corrector_order.

Theorem C01_whfast_corrector_sharp :
  (forall k, In k corr_small -> wh_corr_sharp k = true) /\ sharp_at (gr2 19 2) T4 19 1 (whfast_word 17) = true.
Proof. exact (conj (proj1 (forallb_forall wh_corr_sharp corr_small) wh_corr_sharp_all) wh_corr17_sharp). Qed.
Print Assumptions C01_whfast_corrector_sharp.

(* apply_corrector(-1) after apply_corrector(+1) = identity *)
Theorem C01_whfast_corrector_inverse : (forall k, In k corr_small -> corr_inverse_ok k = true) /\ corr_inverse_ok 17 = true.
Proof. exact (conj (proj1 (forallb_forall corr_inverse_ok corr_small) corr_inverse_all) corr17_inverse). Qed.
Print Assumptions C01_whfast_corrector_inverse.

(* COMPOSITION kernel with corrector k in {3,5,7,11}: eps h^(k+1) + eps^2 h^4 + eps^3 h^3, sharp at (length 5, two B);
   without corrector the eps^2 h^2 term is present *)
Theorem C01_whfast_composition_kernel :
  (forall k, In k corr_small -> wh_comp_ok k = true) /\ (forall k, In k corr_small -> wh_comp_sharp k = true) /\
  order_ok (gr [2; 3; 3]%nat) T25 (whfast_composition_word 0) = false.
Proof. exact (conj (proj1 (forallb_forall wh_comp_ok corr_small) wh_comp_all)
              (conj (proj1 (forallb_forall wh_comp_sharp corr_small) wh_comp_sharp_all) wh_comp_needs_corrector)). Qed.
Print Assumptions C01_whfast_composition_kernel.

(* Modified kick (reb_calculate_and_apply_jerk, used by EOS PMLF4/PMLF6), transcribed in C01/Jerk.v and compared bit for bit
   with the C function: Newton's third law -- if test particles act back (testparticle_type != 0) or there are none
   (N_active = N) the jerk kick leaves each component c of the total momentum sum_k m_k v_k unchanged, for all states,
   all loop bounds and both values of gravity_ignore_terms' start indices.  (A flipped sign in either half breaks it.) *)
Theorem C01_jerk_third_law : forall (c : nat) (v G : R) bs vs nact nreal starti startj tp,
  length bs = length vs -> (tp = true \/ nact = nreal) ->
  mom c bs (jerk RNum v G bs vs nact nreal starti startj tp) = mom c bs vs.
Proof. exact jerk_momentum. Qed.
Print Assumptions C01_jerk_third_law.

(* Non-vacuity: the decision procedure rejects wrong claims (leapfrog of order 4; SABA2 of grading (6,2)),
   and the lists quantified over are the concrete non-empty lists of types. *)
Example C01_checker_rejects_wrong_orders :
  wrong_claim_1 = false /\ wrong_claim_2 = false
  /\ length saba_plain_types = 10%nat /\ length eos_cases = 7%nat /\ length janus_orders = 5%nat /\ length corr_small = 4%nat.
Proof. split. exact checker_rejects_1. split. exact checker_rejects_2. repeat split. Qed.
