(* C01 round 2 — three-letter version of the truncated free algebra (letters 0 = A Kepler, 1 = B interaction, 2 = J jump),
   classical gradings only (all words of length <= p), for the WHFast kernels in democratic-heliocentric / WHDS coordinates
   where H = H_Kepler + H_interaction + H_jump.  Same scaling as C01/FreeAlg.v.  Definitions only. *)
From Coq Require Import List ZArith Bool.
From Bignums Require Import BigZ.
From RV Require Import Gen.Schemes C01.FreeAlg.
Import ListNotations.

Definition scheme3 := list (Z * Z).      (* (letter 0/1/2, coefficient * SC) *)
Inductive trie3 := Leaf3 | Node3 (z : bz) (t0 t1 t2 : trie3).

Fixpoint build3 (depth : nat) (z : bz) : trie3 :=
  match depth with
  | O => Node3 z Leaf3 Leaf3 Leaf3
  | S d => Node3 z (build3 d 0%bigZ) (build3 d 0%bigZ) (build3 d 0%bigZ)
  end.
Fixpoint mulR3 (x : Z) (c : bz) (n : bz) (run : list bz) (t : trie3) : trie3 :=
  match t with
  | Leaf3 => Leaf3
  | Node3 z t0 t1 t2 =>
      let z' := contrib c n 0%bigZ 1%bigZ 1%bigZ run z in
      let n' := (n + 1)%bigZ in
      let r (l : Z) := if Z.eqb x l then z :: run else [] in
      Node3 z' (mulR3 x c n' (r 0%Z) t0) (mulR3 x c n' (r 1%Z) t1) (mulR3 x c n' (r 2%Z) t2)
  end.
Definition product3 (p : nat) (s : scheme3) : trie3 :=
  fold_left (fun t o => mulR3 (fst o) (BigZ.of_Z (snd o)) 0%bigZ [] t) s (build3 p 1%bigZ).
(* all words: |z_w - SC^|w|| * T <= SC^|w|   (exp(A+B+J) has coefficient 1/|w|! on every word) *)
Fixpoint below3 (T : bz) (t : trie3) (pw : bz) : bool :=
  match t with
  | Leaf3 => true
  | Node3 z t0 t1 t2 =>
      BigZ.leb (BigZ.abs (z - pw) * T)%bigZ pw &&
      below3 T t0 (pw * SC)%bigZ && below3 T t1 (pw * SC)%bigZ && below3 T t2 (pw * SC)%bigZ
  end.
Definition order3_ok (p : nat) (T : Z) (s : scheme3) : bool := below3 (BigZ.of_Z T) (product3 p s) 1%bigZ.
Definition palindromic3 (s : scheme3) : bool :=
  list_eqb (fun a b => Z.eqb (fst a) (fst b) && Z.eqb (snd a) (snd b)) s (rev s).

(* WHFast DEFAULT kernel, democratic-heliocentric or WHDS coordinates, one step synchronised -> synchronised:
   part1: kepler(dt/2) [+com], jump(dt/2);  part2: interaction(dt), jump(dt/2);  synchronize: kepler(dt/2) [+com] *)
Definition hf : Z := gen_SC / 2.
Definition whfast_dh_word : scheme3 := [(0, hf); (2, hf); (1, gen_SC); (2, hf); (0, hf)]%Z.
(* safe_mode = 0: step, step, synchronize:  K(1/2) J(1/2) I(1) J(1/2) . K(1) J(1/2) I(1) J(1/2) . K(1/2) *)
Definition whfast_dh_word_unsync : scheme3 :=
  [(0, hf); (2, hf); (1, gen_SC); (2, hf); (0, gen_SC); (2, hf); (1, gen_SC); (2, hf); (0, hf)]%Z.

Fixpoint trie3_eqb (a b : trie3) : bool :=
  match a, b with
  | Leaf3, Leaf3 => true
  | Node3 z a0 a1 a2, Node3 y b0 b1 b2 => BigZ.eqb z y && trie3_eqb a0 b0 && trie3_eqb a1 b1 && trie3_eqb a2 b2
  | _, _ => false
  end.
Definition whfast_dh_ok : bool :=
  palindromic3 whfast_dh_word && order3_ok 2 (10 ^ 25) whfast_dh_word && negb (order3_ok 3 (10 ^ 4) whfast_dh_word)
  && trie3_eqb (product3 6 whfast_dh_word_unsync) (product3 6 (whfast_dh_word ++ whfast_dh_word)).

(* round 3 — MERCURIUS and TRACE (non-pericenter branch): kick-first hybrid word in democratic-heliocentric coordinates
   part2: interaction(dt/2), jump(dt/2), [com(dt)], kepler(dt) (+ encounter / BS sub-integration of the same sub-Hamiltonian),
   jump(dt/2);  synchronize: interaction(dt/2).      Letters: 0 = Kepler part A' = H_Kepler + sum (1-w) V_ij,
   1 = interaction part B' = sum w V_ij, 2 = jump; A' + B' + J = H for EVERY value of the switching weight (C01/Switch.v). *)
Definition hybrid_word : scheme3 := [(1, hf); (2, hf); (0, gen_SC); (2, hf); (1, hf)]%Z.
Definition hybrid_word_unsync : scheme3 :=
  [(1, hf); (2, hf); (0, gen_SC); (2, hf); (1, gen_SC); (2, hf); (0, gen_SC); (2, hf); (1, hf)]%Z.
Definition hybrid_ok : bool :=
  palindromic3 hybrid_word && order3_ok 2 (10 ^ 25) hybrid_word && negb (order3_ok 3 (10 ^ 4) hybrid_word)
  && trie3_eqb (product3 6 hybrid_word_unsync) (product3 6 (hybrid_word ++ hybrid_word)).
