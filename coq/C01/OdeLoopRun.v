(* C01 — binary64 instance of the ODE sub-step loop, for the correspondence cases. *)
From Coq Require Import List ZArith PrimFloat.
From RV Require Import Common.Num Common.FloatNum C01.OdeLoop.
Import ListNotations.
(* flattened: t1; dt1; t2; dt2; ...; t_end; finished(1/0) *)
Definition odeF (oracle : list (bool * float)) (rt dtl prop0 : float) : list float :=
  match ode_run FNum oracle rt dtl prop0 with
  | (tr, te, fin) => flat_map (fun e => [fst e; snd e]) tr ++ [te; if fin then 1%float else 0%float]
  end.
