(* C01 — truncated free associative algebra on two letters, executable.

   Letters:  false = A (drift / Kepler part),  true = B (kick / interaction part).
   An element is a finite map  word -> coefficient, stored as a binary TRIE over the letters; the
   node reached by spelling the word w holds the integer

        z_w  =  coeff_w * SC^|w| * |w|!                      (implied denominator, no gcd, no Q)

   where SC = 24 * 10^60 is the scale in which the coefficients of the schemes are given
   (a decimal literal c of the C source becomes the integer c*SC; 1/2, 1/6, 1/8, 1/24 are integers too).
   Integers are Bignums.BigZ (machine-word trees: vm_compute multiplies 3000-bit numbers fast).

   Truncation: a grading  L : nat -> nat  (non-increasing in the number of B letters) keeps exactly
   the words with |w| <= L(#B(w)).  The discarded words span a two-sided ideal T(L), and the kept set is
   closed under taking prefixes, which is what [mulR] relies on.  (L(1),L(2),L(3),..) = (10,6,4,4..)
   encodes "error terms eps h^10 + eps^2 h^6 + eps^3 h^4" of a splitting H = A + eps B.

   Right multiplication by exp(c X), X a letter:  for w = u X^k (all ways of splitting off k trailing X),
        coeff'_w  = sum_k coeff_u c^k / k!
   which in the scaled integers is     z'_w = sum_k z_u * (c SC)^k * binom(|w|, k).

   exp(A+B) has coefficient 1/|w|! on every word, i.e. z_w = SC^|w|.  The residual of a scheme
   (a list of (letter, c*SC)) is   product of the exp(c X)  -  exp(A+B)   on the kept words; the check is
        |z_w - SC^|w||  * T  <=  SC^|w|       i.e.   |w|! * |coeff_w - 1/|w|!|  <=  1/T .
   If it holds with 1/T = 0 the scheme equals exp(A+B+E) with E in T(L) (log is well defined modulo the
   ideal), which is the order condition.  Definitions only in this file. *)
From Coq Require Import List ZArith Bool.
From Bignums Require Import BigZ.
Import ListNotations.

Definition bz := BigZ.t_.
Definition word := list bool.
Definition scheme := list (bool * Z).      (* (letter, coefficient * SC), in the order the code applies them *)

Definition SCz : Z := (24 * 10 ^ 60)%Z.
Definition SC : bz := BigZ.of_Z SCz.

Inductive trie := Leaf | Node (z : bz) (ta tb : trie).

(* grading: la = L(0) (pure-A words), spec = [L(1); L(2); ...], last entry repeated. *)
Record grading := mkG { g_la : nat; g_spec : list nat }.
Definition Lof (g : grading) (nb : nat) : nat :=
  match nb with
  | O => g_la g
  | S k => nth k (g_spec g) (last (g_spec g) 0%nat)
  end.
Definition gmax (g : grading) : nat := fold_right Nat.max (g_la g) (g_spec g).

(* the element 1 (resp. 0) on the kept words of g *)
Fixpoint build (g : grading) (fuel len nb : nat) (z : bz) : trie :=
  match fuel with
  | O => Leaf
  | S f => if Nat.leb len (Lof g nb)
           then Node z (build g f (S len) nb 0%bigZ) (build g f (S len) (S nb) 0%bigZ)
           else Leaf
  end.
Definition one (g : grading) : trie := build g (S (S (gmax g))) 0 0 1%bigZ.

Fixpoint size (t : trie) : nat :=
  match t with Leaf => O | Node _ a b => S (size a + size b) end.

(* sum_{k>=1} run[k-1] * c^k * binom(n,k);  p = c^k, b = binom(n,k) are carried along *)
Fixpoint contrib (c : bz) (n : bz) (k : bz) (p b : bz) (run : list bz) (acc : bz) : bz :=
  match run with
  | [] => acc
  | u :: r =>
      let k' := (k + 1)%bigZ in
      let p' := (p * c)%bigZ in
      let b' := ((b * (n - k)) / k')%bigZ in         (* exact: binom(n,k+1) = binom(n,k)*(n-k)/(k+1) *)
      contrib c n k' p' b' r (acc + u * p' * b')%bigZ
  end.

Fixpoint mulR (x : bool) (c : bz) (n : bz) (run : list bz) (t : trie) : trie :=
  match t with
  | Leaf => Leaf
  | Node z ta tb =>
      let z' := contrib c n 0%bigZ 1%bigZ 1%bigZ run z in
      let n' := (n + 1)%bigZ in
      Node z' (mulR x c n' (if x then [] else z :: run) ta)
              (mulR x c n' (if x then z :: run else []) tb)
  end.

Definition mul_exp (t : trie) (op : bool * Z) : trie :=
  mulR (fst op) (BigZ.of_Z (snd op)) 0%bigZ [] t.

Definition product (g : grading) (s : scheme) : trie := fold_left mul_exp s (one g).

(* time reversal h -> -h: every coefficient changes sign; the target becomes exp(-(A+B)) *)
Definition negate (s : scheme) : scheme := map (fun o => (fst o, Z.opp (snd o))) s.

(* residual entries: (length, #B, |z_w - (sgn*SC)^|w||, SC^|w|) *)
Fixpoint resid (sgn : bz) (t : trie) (len nb : nat) (pw apw : bz) (acc : list (nat * nat * bz * bz))
  : list (nat * nat * bz * bz) :=
  match t with
  | Leaf => acc
  | Node z ta tb =>
      let e := (len, nb, BigZ.abs (z - pw)%bigZ, apw) in
      resid sgn ta (S len) nb (pw * sgn * SC)%bigZ (apw * SC)%bigZ
        (resid sgn tb (S len) (S nb) (pw * sgn * SC)%bigZ (apw * SC)%bigZ (e :: acc))
  end.

Definition residual (g : grading) (s : scheme) : list (nat * nat * bz * bz) :=
  resid 1%bigZ (product g s) 0 0 1%bigZ 1%bigZ [].
Definition residual_rev (g : grading) (s : scheme) : list (nat * nat * bz * bz) :=
  resid (-1)%bigZ (product g (negate s)) 0 0 1%bigZ 1%bigZ [].

(* every kept word: |w|! |coeff_w - 1/|w|!| <= 1/T *)
Definition all_below (T : Z) (r : list (nat * nat * bz * bz)) : bool :=
  let Tz := BigZ.of_Z T in
  forallb (fun e => match e with (_, _, d, p) => BigZ.leb (d * Tz)%bigZ p end) r.

(* some word with nb letters B and length len has |w|! |coeff_w - 1/|w|!| >= 1/T *)
Definition some_above_at (T : Z) (len nb : nat) (r : list (nat * nat * bz * bz)) : bool :=
  let Tz := BigZ.of_Z T in
  existsb (fun e => match e with (l, b, d, p) =>
     Nat.eqb l len && Nat.eqb b nb && BigZ.leb p (d * Tz)%bigZ end) r.

(* The order statement:  the scheme s agrees with exp(h(A+B)) modulo T(L_g) to within 1/T, for h and for -h,
   and its coefficients on each letter sum to SC (consistency is the length-1 words, included). *)
Definition order_ok (g : grading) (T : Z) (s : scheme) : bool :=
  all_below T (residual g s) && all_below T (residual_rev g s).

(* sharpness: one degree beyond (grading g', word class (len, nb)) the residual is at least 1/T' *)
Definition sharp_at (g' : grading) (T' : Z) (len nb : nat) (s : scheme) : bool :=
  some_above_at T' len nb (residual g' s).

(* two schemes define the same element modulo T(L_g) exactly (used for inverse laws: pre . post = 1) *)
Fixpoint trie_eqb (a b : trie) : bool :=
  match a, b with
  | Leaf, Leaf => true
  | Node z a1 a2, Node y b1 b2 => BigZ.eqb z y && trie_eqb a1 b1 && trie_eqb a2 b2
  | _, _ => false
  end.
Definition same_element (g : grading) (s1 s2 : scheme) : bool :=
  trie_eqb (product g s1) (product g s2).

(* gradings *)
Definition full (p : nat) : grading := mkG p [p].                    (* classical order p: all words of length <= p *)
Definition gr (l : list nat) : grading := mkG (hd 0%nat l) l.         (* (n1,n2,..): L(0)=L(1)=n1, L(2)=n2 ... *)

(* number of kept words *)
Definition nwords (g : grading) : nat := size (one g).

(* palindrome = time-symmetric scheme *)
Definition op_eqb (a b : bool * Z) : bool := Bool.eqb (fst a) (fst b) && Z.eqb (snd a) (snd b).
Fixpoint list_eqb {X} (e : X -> X -> bool) (a b : list X) : bool :=
  match a, b with
  | [], [] => true
  | x :: a', y :: b' => e x y && list_eqb e a' b'
  | _, _ => false
  end.
Definition palindromic (s : scheme) : bool := list_eqb op_eqb s (rev s).

(* sum of the coefficients applied to one letter *)
Definition letter_sum (x : bool) (s : scheme) : Z :=
  fold_left (fun a o => if Bool.eqb (fst o) x then (a + snd o)%Z else a) s 0%Z.
