(* C01 — Newton's third law for the modified kick, over the reals. *)
From Coq Require Import List ZArith Reals Lra Lia.
From RV Require Import Common.Num Common.RealNum C01.Jerk.
Import ListNotations.
Open Scope R_scope.

Definition comp (c : nat) (d : @vec R) : R :=
  match d with (a, b, e) => match c with O => a | S O => b | _ => e end end.

(* total momentum component c:  sum_k m_k v_k *)
Fixpoint mom (c : nat) (bs : list (@body R)) (vs : list (@vec R)) : R :=
  match bs, vs with
  | b :: bs', v :: vs' => bm b * comp c v + mom c bs' vs'
  | _, _ => 0
  end.

Lemma bump_length : forall (vs : list (@vec R)) k d, length (bump RNum vs k d) = length vs.
Proof.
  unfold bump. intros vs k d. generalize (vadd RNum (nth_d (z3 RNum) vs k) d). revert k.
  induction vs as [|a vs IH]; intros [|k] w; simpl; auto.
Qed.

Lemma comp_vadd : forall c a b, comp c (vadd RNum a b) = comp c a + comp c b.
Proof. intros c [[a1 a2] a3] [[b1 b2] b3]. destruct c as [|[|c]]; reflexivity. Qed.

(* out-of-range indices change nothing and have mass 0 (nth_d default), so no range hypothesis is needed *)
Lemma mom_bump : forall c bs vs k d, length bs = length vs ->
  mom c bs (bump RNum vs k d) = mom c bs vs + bm (nth_d (d0 RNum) bs k) * comp c d.
Proof.
  intros c bs. induction bs as [|b bs IH]; intros vs k d H.
  - destruct vs; [|discriminate]. destruct k; simpl; lra.
  - destruct vs as [|w vs]; [discriminate|]. injection H as H. destruct k as [|k].
    + unfold bump. simpl. rewrite comp_vadd. lra.
    + specialize (IH vs k d H). unfold bump in *. simpl. simpl in IH. rewrite IH. lra.
Qed.

Definition inc_mom (c : nat) (bs : list (@body R)) (l : list (nat * @vec R)) : R :=
  fold_right (fun kd acc => bm (nth_d (d0 RNum) bs (fst kd)) * comp c (snd kd) + acc) 0 l.

Lemma mom_apply : forall c bs l vs, length bs = length vs ->
  mom c bs (apply_incs RNum vs l) = mom c bs vs + inc_mom c bs l.
Proof.
  intros c bs l. induction l as [|[k d] l IH]; intros vs H; simpl.
  - unfold apply_incs. simpl. lra.
  - unfold apply_incs in *. simpl. rewrite IH by (rewrite bump_length; exact H).
    rewrite mom_bump by exact H. simpl. lra.
Qed.

Lemma inc_mom_app : forall c bs l1 l2, inc_mom c bs (l1 ++ l2) = inc_mom c bs l1 + inc_mom c bs l2.
Proof. intros c bs l1 l2. induction l1 as [|a l1 IH]; simpl; [lra|]. rewrite IH. lra. Qed.

(* a pair that applies both halves carries no net momentum *)
Lemma pair_balanced : forall c v G bs ij, inc_mom c bs (incs_pair RNum true v G bs ij) = 0.
Proof.
  intros c v G bs [i j]. unfold incs_pair, inc_mom, pair_terms. cbn [fst snd fold_right comp].
  destruct c as [|[|c]]; cbn; ring.
Qed.

Lemma pairs_balanced : forall c v G bs l, inc_mom c bs (flat_map (incs_pair RNum true v G bs) l) = 0.
Proof.
  intros c v G bs l. induction l as [|a l IH]; [reflexivity|].
  cbn [flat_map]. rewrite inc_mom_app, pair_balanced, IH. lra.
Qed.

Lemma pairs_empty : forall n s h, pairs2 n n s h = [].
Proof. intros n s h. unfold pairs2. rewrite Nat.sub_diag. reflexivity. Qed.

(* Newton's third law for the modified kick: if test particles act back (testparticle_type != 0) or there are no
   test particles (N_active = N), the jerk kick leaves every component of the total momentum unchanged. *)
Theorem jerk_momentum : forall c v G bs vs nact nreal starti startj tp,
  length bs = length vs -> (tp = true \/ nact = nreal) ->
  mom c bs (jerk RNum v G bs vs nact nreal starti startj tp) = mom c bs vs.
Proof.
  intros c v G bs vs nact nreal starti startj tp H Htp. unfold jerk, jerk_incs.
  rewrite mom_apply by exact H. rewrite inc_mom_app, pairs_balanced.
  destruct Htp as [-> | ->].
  - rewrite pairs_balanced. lra.
  - rewrite pairs_empty. simpl. lra.
Qed.

(* and with testparticle_type = 0 and a massive "test" particle it is NOT conserved in general: the hypothesis is needed *)
Example jerk_momentum_needs_hypothesis :
  let bs := [mkB 1 0 0 0 0 0 0; mkB 1 1 0 0 1 0 0] in
  mom 0 bs (jerk RNum 1 1 bs [(0, 0, 0); (0, 0, 0)] 1 2 1 0 false) <> mom 0 bs [(0, 0, 0); (0, 0, 0)].
Proof.
  cbv zeta. unfold jerk, jerk_incs, pairs, pairs2, incs_pair, pair_terms, apply_incs, bump. cbn.
  replace (1 - 0 + (0 - 0)) with 1 by lra. replace ((1 - 0) * (1 - 0) + (0 - 0) * (0 - 0) + (0 - 0) * (0 - 0)) with 1 by lra.
  rewrite sqrt_1. lra.
Qed.
