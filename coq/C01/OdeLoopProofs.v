(* C01 — the user-ODE sub-step loop never overshoots the N-body time and ends at it (exact arithmetic). *)
From Coq Require Import List ZArith Reals Lra Bool.
From RV Require Import Common.Num Common.RealNum C01.OdeLoop.
Import ListNotations.
Open Scope R_scope.

Lemma Rltb_true : forall a b, Rltb a b = true <-> a < b.
Proof. intros a b. unfold Rltb. destruct (Rlt_dec a b); split; intro H; auto; discriminate. Qed.
Lemma Reqb_true : forall a b, Reqb a b = true <-> a = b.
Proof. intros a b. unfold Reqb. destruct (Req_EM_T a b); split; intro H; auto; discriminate. Qed.

Lemma cond_lt : forall rt t fwd, loop_cond RNum rt t fwd = true -> t * fwd < rt * fwd.
Proof. intros rt t fwd H. unfold loop_cond in H. apply andb_prop in H. destruct H as [H _]. apply Rltb_true in H. exact H. Qed.

(* the chosen sub-step points towards rt and is at most the remaining time *)
Lemma choose_dt_bound : forall rt t fwd dt prop,
  (fwd = 1 \/ fwd = -1) -> t * fwd < rt * fwd -> (prop = 0 -> dt = rt - t) ->
  let d := choose_dt RNum rt t fwd dt prop in 0 <= fwd * d /\ fwd * d <= fwd * (rt - t).
Proof.
  intros rt t fwd dt prop Hf Hlt Hp. unfold choose_dt. cbn.
  destruct (Reqb prop 0) eqn:E.
  - apply Reqb_true in E. rewrite (Hp E). destruct Hf as [-> | ->]; lra.
  - assert (Habs : Rabs (rt - t) = fwd * (rt - t)).
    { destruct Hf as [-> | ->]; [rewrite Rabs_right | rewrite Rabs_left]; lra. }
    assert (Hff : fwd * fwd = 1) by (destruct Hf as [-> | ->]; lra).
    destruct (Rltb (Rabs (rt - t)) (Rabs prop)) eqn:E2.
    + rewrite Habs. split; nra.
    + assert (H2 : ~ Rabs (rt - t) < Rabs prop) by (intro H; apply Rltb_true in H; congruence).
      pose proof (Rabs_pos prop). split; [nra|]. rewrite <- Habs. nra.
Qed.

Definition good_call (rt fwd : R) (e : R * R) : Prop := 0 <= fwd * snd e /\ fwd * snd e <= fwd * (rt - fst e).

Theorem ode_loop_no_overshoot : forall oracle rt fwd t dt prop tr tend,
  (fwd = 1 \/ fwd = -1) -> fwd * t <= fwd * rt -> (prop = 0 -> dt = rt - t) ->
  Forall (fun o => snd o <> 0) oracle ->
  ode_loop RNum oracle rt fwd t dt prop = (tr, tend, true) ->
  fwd * tend <= fwd * rt /\ loop_cond RNum rt tend fwd = false /\ Forall (good_call rt fwd) tr.
Proof.
  induction oracle as [|[succ prop'] o IH]; intros rt fwd t dt prop tr tend Hf Hle Hp Hor H; cbn [ode_loop] in H.
  - injection H as Htr Hte Hc. rewrite <- Hte, <- Htr. apply negb_true_iff in Hc. auto.
  - destruct (loop_cond RNum rt t fwd) eqn:Ec.
    + pose proof (cond_lt _ _ _ Ec) as Hlt.
      pose proof (choose_dt_bound rt t fwd dt prop Hf Hlt Hp) as [Hb1 Hb2].
      set (d := choose_dt RNum rt t fwd dt prop) in *.
      destruct (ode_loop RNum o rt fwd (if succ then nadd RNum t d else t) d prop') as [[tr' te'] fin'] eqn:Er.
      injection H as Htr Hte Hfin. rewrite Hfin in Er. rewrite <- Hte, <- Htr. clear Htr Hte Hfin tr tend.
      inversion Hor as [|? ? Hp' Hor']; subst. cbn in Hp'.
      assert (Hle' : fwd * (if succ then nadd RNum t d else t) <= fwd * rt) by (destruct succ; cbn; nra).
      destruct (IH rt fwd _ d prop' tr' te' Hf Hle' (fun E => False_ind _ (Hp' E)) Hor' Er) as [A [B C]].
      split; [exact A|]. split; [exact B|]. constructor; [split; cbn; assumption | exact C].
    + injection H as Htr Hte. rewrite <- Hte, <- Htr. split; [exact Hle|]. split; [exact Ec|constructor].
Qed.

Lemma cond_false : forall rt t fwd, loop_cond RNum rt t fwd = false ->
  ~ (t * fwd < rt * fwd) \/ ~ (ndec RNum 1 (10 ^ 15) < Rabs ((rt - t) / (Rabs rt + ndec RNum 1 (10 ^ 16)))).
Proof.
  intros rt t fwd H. unfold loop_cond in H. apply andb_false_iff in H. destruct H as [H | H]; [left | right];
    intro X; apply Rltb_true in X; exact (eq_true_false_abs _ X H).
Qed.

(* entry point: t0 = rt - dt_last_done, forward = sign of dt_last_done.  On normal exit the ODE time has not passed rt and
   the loop condition is false there: t_end = rt, or |rt - t_end| <= 1e-15 (|rt| + 1e-16) (the loop's own tolerance;
   ndec RNum 1 (10^k) = 1/10^k); every sub-step requested from the stepper pointed forward and was at most the remaining time. *)
Theorem ode_run_ends_at_nbody_time : forall oracle rt dtl prop0 tr tend,
  Forall (fun o => snd o <> 0) oracle ->
  ode_run RNum oracle rt dtl prop0 = (tr, tend, true) ->
  let fwd := if Rlt_dec 0 dtl then 1 else -1 in
  fwd * tend <= fwd * rt /\
  (tend = rt \/ Rabs ((rt - tend) / (Rabs rt + ndec RNum 1 (10 ^ 16))) <= ndec RNum 1 (10 ^ 15)) /\
  Forall (good_call rt fwd) tr.
Proof.
  intros oracle rt dtl prop0 tr tend Hor H. unfold ode_run in H. cbn [nltb nzero none nneg nsub RNum] in H.
  unfold Rltb in H. cbv zeta.
  destruct (Rlt_dec 0 dtl) as [Hd | Hd].
  - destruct (ode_loop_no_overshoot oracle rt 1 (rt - dtl) dtl prop0 tr tend (or_introl eq_refl)) as [A [B C]];
      try assumption; try lra; try (intros; lra).
    split; [exact A|]. split; [|exact C].
    destruct (cond_false _ _ _ B) as [X | X]; [left; lra | right; lra].
  - destruct (ode_loop_no_overshoot oracle rt (-1) (rt - dtl) dtl prop0 tr tend (or_intror eq_refl)) as [A [B C]];
      try assumption; try lra; try (intros; lra).
    split; [exact A|]. split; [|exact C].
    destruct (cond_false _ _ _ B) as [X | X]; [left; lra | right; lra].
Qed.

(* corner: dt_last_done = 0 (an N-body "step" of zero length, or JANUS before /repo 6b44a1d): forward := -1, t0 = rt, the loop
   condition is false at once: no sub-step is requested and the ODE time stays at rt, whatever the stepper would answer *)
Theorem ode_run_zero_step : forall oracle rt prop0, ode_run RNum oracle rt 0 prop0 = ([], rt - 0, true).
Proof.
  intros oracle rt prop0. unfold ode_run. cbn [nltb nzero none nneg nsub RNum]. unfold Rltb at 1.
  destruct (Rlt_dec 0 0) as [H | _]; [lra|].
  assert (C : loop_cond RNum rt (rt - 0) (- (1)) = false).
  { unfold loop_cond. cbn [nltb nmul RNum]. unfold Rltb at 1. destruct (Rlt_dec ((rt - 0) * - (1)) (rt * - (1))); [lra | reflexivity]. }
  destruct oracle as [| [s p] o]; cbn [ode_loop]; rewrite C; reflexivity.
Qed.
