(* C01 — SABA family: order conditions decided by exact computation over the regenerated tables. *)
From Coq Require Import List ZArith Bool.
From Bignums Require Import BigZ.
From RV Require Import Gen.Schemes C01.FreeAlg C01.Model.
Import ListNotations.
Open Scope Z_scope.

Lemma saba_order_all : forallb saba_ok saba_plain_types = true.
Proof. vm_cast_no_check (eq_refl true). Qed.
Lemma saba_sharp_all : forallb saba_sharp saba_plain_types = true.
Proof. vm_cast_no_check (eq_refl true). Qed.
Lemma saba_shape_all : forallb saba_shape saba_plain_types = true.
Proof. vm_cast_no_check (eq_refl true). Qed.
Lemma saba_unsync_all : forallb saba_unsync_ok saba_plain_types = true.
Proof. vm_cast_no_check (eq_refl true). Qed.

Lemma saba_order : forall t, In t saba_plain_types -> saba_ok t = true.
Proof. intros t H. exact (proj1 (forallb_forall _ _) saba_order_all t H). Qed.
Lemma saba_sharpness : forall t, In t saba_plain_types -> saba_sharp t = true.
Proof. intros t H. exact (proj1 (forallb_forall _ _) saba_sharp_all t H). Qed.
Lemma saba_symmetric : forall t, In t saba_plain_types -> saba_shape t = true.
Proof. intros t H. exact (proj1 (forallb_forall _ _) saba_shape_all t H). Qed.
Lemma saba_unsync : forall t, In t saba_plain_types -> saba_unsync_ok t = true.
Proof. intros t H. exact (proj1 (forallb_forall _ _) saba_unsync_all t H). Qed.

(* the checker is not vacuous: the leapfrog word is not of order 4, and SABA2 is not (6,2) *)
Definition wrong_claim_1 : bool := order_ok (full 4) T25 leapfrog_word.          (* leapfrog is of order 4 *)
Definition wrong_claim_2 : bool := order_ok (gr [6; 2]%nat) T25 (saba_word 1).   (* SABA2 is (6,2) *)
Lemma checker_rejects_1 : wrong_claim_1 = false.
Proof. vm_cast_no_check (eq_refl false). Qed.
Lemma checker_rejects_2 : wrong_claim_2 = false.
Proof. vm_cast_no_check (eq_refl false). Qed.
