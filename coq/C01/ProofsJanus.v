(* C01 — JANUS: the gamma tables with the gg() mirror rule and the stage loop give palindromic words of the
   advertised classical order (all words up to that length); 20-digit tables, tolerance 1e-15. *)
From Coq Require Import List ZArith Bool.
From Bignums Require Import BigZ.
From RV Require Import Gen.Schemes C01.FreeAlg C01.Model.
Import ListNotations.
Open Scope Z_scope.

Lemma janus_order_all : forallb janus_ok janus_orders = true.
Proof. vm_cast_no_check (eq_refl true). Qed.
Lemma janus_sharp_all : forallb janus_sharp janus_orders = true.
Proof. vm_cast_no_check (eq_refl true). Qed.
Lemma janus_count_all : forallb janus_stage_count janus_orders = true.
Proof. vm_cast_no_check (eq_refl true). Qed.
