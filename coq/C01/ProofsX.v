(* C01 round 2 — modified-kick schemes (commutator letter [B,[A,B]] inside the free algebra), corrector2. *)
From Coq Require Import List ZArith Bool.
From Bignums Require Import BigZ.
From RV Require Import Gen.Schemes C01.FreeAlg C01.Model C01.FreeAlgX C01.ModelX C01.FreeAlg3.
Import ListNotations.
Open Scope Z_scope.

Lemma saba_cm1 : saba_cm1_ok = true.
Proof. vm_cast_no_check (eq_refl true). Qed.
Lemma saba_cm_all : forallb saba_cm_ok [1; 2; 3]%nat = true.
Proof. vm_cast_no_check (eq_refl true). Qed.
Lemma saba_cm_sharp_all : forallb saba_cm_sharp [1; 2; 3]%nat = true.
Proof. vm_cast_no_check (eq_refl true). Qed.
Lemma whfast_mk_all : forallb whfast_mk_ok corr_small = true.
Proof. vm_cast_no_check (eq_refl true). Qed.
Lemma whfast_mk_sharp_all : forallb whfast_mk_sharp corr_small = true.
Proof. vm_cast_no_check (eq_refl true). Qed.
Lemma pmlf_order : pmlf_ok = true.
Proof. vm_cast_no_check (eq_refl true). Qed.
Lemma pmlf_sharpness : pmlf_sharp = true.
Proof. vm_cast_no_check (eq_refl true). Qed.
Lemma corr2 : corr2_facts = true.
Proof. vm_cast_no_check (eq_refl true). Qed.
Lemma whfast_dh : whfast_dh_ok = true.
Proof. vm_cast_no_check (eq_refl true). Qed.

(* round 3: leading part of the lazy schemes = the modified-kick words (so saba_cm1, saba_cm_all, whfast_mk_all apply to it) *)
Lemma lazy_leading :
  lazy_divisions_exact = true /\ whfast_lazy_kernel_leading = mk_kernel /\
  saba_cl_word_leading 0 = saba_cm_word 0 /\ saba_cl_word_leading 1 = saba_cm_word 1 /\
  saba_cl_word_leading 2 = saba_cm_word 2 /\ saba_cl_word_leading 3 = saba_cm_word 3.
Proof. repeat split; vm_compute; reflexivity. Qed.
Lemma hybrid : hybrid_ok = true.
Proof. vm_cast_no_check (eq_refl true). Qed.
Lemma whfast_recalc : whfast_recalc_ok = true.
Proof. vm_cast_no_check (eq_refl true). Qed.
Lemma saba_recalc : saba_recalc_ok = true.
Proof. vm_cast_no_check (eq_refl true). Qed.
