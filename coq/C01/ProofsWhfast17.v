(* C01 — WHFast 17th order corrector (separate file: the longest computation, built in parallel). *)
From Coq Require Import List ZArith Bool.
From Bignums Require Import BigZ.
From RV Require Import Gen.Schemes C01.FreeAlg C01.Model.
Import ListNotations.
Open Scope Z_scope.

Lemma wh_corr17 : wh_corr_ok 17 = true.
Proof. vm_cast_no_check (eq_refl true). Qed.
Lemma wh_corr17_sharp : sharp_at (gr2 19 2) T4 19 1 (whfast_word 17) = true.
Proof. vm_cast_no_check (eq_refl true). Qed.
Lemma corr17_inverse : corr_inverse_ok 17 = true.
Proof. vm_cast_no_check (eq_refl true). Qed.
