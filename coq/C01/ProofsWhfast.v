(* C01 — WHFast: kernel words and symplectic correctors (Jacobi / barycentric coordinates, two letters).
   With the corrector of "order" k, the one-B terms of  Cor . WH . Cor^-1  vanish up to word length k+1
   (error eps h^(k+1)), the two-B terms up to length 2 (error eps^2 h^2); decided by computation. *)
From Coq Require Import List ZArith Bool.
From Bignums Require Import BigZ.
From RV Require Import Gen.Schemes C01.FreeAlg C01.Model.
Import ListNotations.
Open Scope Z_scope.

Lemma wh_kernel_order2 : order2_sharp wh_kernel = true.
Proof. vm_cast_no_check (eq_refl true). Qed.
Lemma wh_corr_all : forallb wh_corr_ok corr_small = true.
Proof. vm_cast_no_check (eq_refl true). Qed.
Lemma wh_corr_sharp_all : forallb wh_corr_sharp corr_small = true.
Proof. vm_cast_no_check (eq_refl true). Qed.
Lemma corr_inverse_all : forallb corr_inverse_ok corr_small = true.
Proof. vm_cast_no_check (eq_refl true). Qed.
Lemma wh_comp_all : forallb wh_comp_ok corr_small = true.
Proof. vm_cast_no_check (eq_refl true). Qed.
Lemma wh_comp_sharp_all : forallb wh_comp_sharp corr_small = true.
Proof. vm_cast_no_check (eq_refl true). Qed.
(* without a corrector the composition kernel keeps the eps^2 h^2 term: the corrector is needed *)
Lemma wh_comp_needs_corrector : order_ok (gr [2; 3; 3]%nat) T25 (whfast_composition_word 0) = false.
Proof. vm_cast_no_check (eq_refl false). Qed.
