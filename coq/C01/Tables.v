(* C01 round 2 — relations between the regenerated IAS15 tables (Gauss-Radau spacings) and the BS extrapolation,
   in exact integer / rational arithmetic.  Table entries are X = x * SC (SC = 24*10^60).  Definitions only. *)
From Coq Require Import List ZArith Bool QArith.
From RV Require Import Gen.Schemes.
Import ListNotations.
Open Scope Z_scope.

Definition SCt : Z := gen_SC.
Definition nz (l : list Z) (i : nat) : Z := nth i l 0.

(* ---- polynomials with integer coefficients, lowest degree first *)
Fixpoint padd (p q : list Z) : list Z :=
  match p, q with [], _ => q | _, [] => p | a :: p', b :: q' => (a + b) :: padd p' q' end.
Definition pscale (c : Z) (p : list Z) : list Z := map (Z.mul c) p.
Definition pshift (p : list Z) : list Z := 0 :: p.                      (* x * p *)
Definition pmul_t (p : list Z) : list Z := padd (pscale 2 (pshift p)) (pscale (-1) p).   (* (2x - 1) * p : t = 2x - 1 *)
(* Q_n = n! P_n(t), Legendre:  Q_{n+1} = (2n+1) t Q_n - n^2 Q_{n-1} *)
Fixpoint legQ (n : nat) : list Z * list Z :=     (* (Q_n, Q_{n-1}) *)
  match n with
  | O => ([1], [])
  | S k => let (q, qm) := legQ k in
           (padd (pscale (2 * Z.of_nat k + 1) (pmul_t q)) (pscale (- (Z.of_nat k * Z.of_nat k)) qm), q)
  end.
(* left Gauss-Radau with 8 nodes on [0,1]: x = 0 and the 7 roots of (P_7 + P_8)(2x-1) / (2x);  8*Q_7 + Q_8 = 8! (P_7 + P_8) *)
Definition radau8 : list Z := padd (pscale 8 (fst (legQ 7))) (fst (legQ 8)).
(* p(X/SC) * SC^deg *)
Definition peval (p : list Z) (X : Z) : Z :=
  fold_left (fun acc k => acc + nz p k * X ^ (Z.of_nat k) * SCt ^ (Z.of_nat (length p - 1 - k))) (seq 0 (length p)) 0.

Definition delta24 : Z := SCt / 10 ^ 24.
(* a sign change of the Radau polynomial inside (h - 1e-24, h + 1e-24) *)
Definition root_within (X : Z) : bool :=
  let a := peval radau8 (X - delta24) in let b := peval radau8 (X + delta24) in
  (Z.ltb a 0 && Z.ltb 0 b) || (Z.ltb b 0 && Z.ltb 0 a).
Definition ias15_h_ok : bool :=
  Z.eqb (nz ias15_h 0) 0 && Z.eqb (nz radau8 0) 0 && Nat.eqb (length radau8) 9 && Nat.eqb (length ias15_h) 8 &&
  forallb (fun i => root_within (nz ias15_h i)) (seq 1 7) &&
  forallb (fun i => Z.ltb (nz ias15_h i + delta24) (nz ias15_h (S i) - delta24)) (seq 0 7) && Z.ltb (nz ias15_h 7 + delta24) SCt.

(* rr[n(n-1)/2 + i] = h[n] - h[i],  n = 1..7, i = 0..n-1, to 1e-24 *)
Definition off (n : nat) : nat := (n * (n - 1) / 2)%nat.
Definition close24 (a b : Z) : bool := Z.leb (Z.abs (a - b) * 10 ^ 24) SCt.
Definition ias15_rr_ok : bool :=
  Nat.eqb (length ias15_rr) 28 &&
  forallb (fun n => forallb (fun i => close24 (nz ias15_rr (off n + i)) (nz ias15_h n - nz ias15_h i)) (seq 0 n)) (seq 1 7).

(* c: row j (j = 1..6) at offset off(j) holds the coefficients (degree 0..j-1) of prod_{m=1..j} (x - h[m]).
   prodrow j = that product, entry k scaled by SC^(j-k) *)
Fixpoint prodrow (j : nat) : list Z :=
  match j with
  | O => [1]
  | S j' => let p := prodrow j' in let H := nz ias15_h (S j') in padd (pshift p) (pscale (- H) p)
  end.
Definition ias15_c_ok : bool :=
  Nat.eqb (length ias15_c) 21 &&
  forallb (fun j => forallb (fun k =>
     let e := Z.of_nat (j - k) in
     Z.leb (Z.abs (nz ias15_c (off j + k) * SCt ^ (e - 1) - nz (prodrow j) k) * 10 ^ 24) (SCt ^ e)) (seq 0 j)) (seq 1 6).

(* unit lower triangular 7x7 matrices C, D built from the tables as the code indexes them; C . D = 1 to 1e-22 *)
Definition tri (t : list Z) (i k : nat) : Z :=
  if Nat.eqb i k then SCt else if Nat.ltb k i then nz t (off i + k) else 0.
Definition ias15_cd_ok : bool :=
  Nat.eqb (length ias15_d) 21 &&
  forallb (fun i => forallb (fun k =>
     let s := fold_left (fun acc j => acc + tri ias15_c i j * tri ias15_d j k) (seq 0 7) 0 in
     Z.leb (Z.abs (s - (if Nat.eqb i k then SCt * SCt else 0)) * 10 ^ 22) (SCt * SCt)) (seq 0 7)) (seq 0 7).

(* w: Gauss-Radau weights on [-1,1] at t_i = 2 h_i - 1: exact for t^k, k = 0..14:  (k+1) sum_i w_i t_i^k = 1 + (-1)^k.
   The 45-digit literals of w are only accurate to about 2e-16 (sum w - 2 = 2.1e-16): tolerance 1e-15 (w is used by MEGNO only). *)
Definition ias15_w_ok : bool :=
  Nat.eqb (length ias15_w) 8 &&
  forallb (fun k =>
     let kz := Z.of_nat k in
     let s := fold_left (fun acc i => acc + nz ias15_w i * (2 * nz ias15_h i - SCt) ^ kz) (seq 0 8) 0 in
     Z.leb (Z.abs ((kz + 1) * s - (if Nat.even k then 2 else 0) * SCt ^ (kz + 1)) * 10 ^ 15) (SCt ^ (kz + 1))) (seq 0 15).
(* ... and not for k = 15 (degree of exactness is exactly 14) *)
Definition ias15_w_sharp : bool :=
  let kz := 15 in
  let s := fold_left (fun acc i => acc + nz ias15_w i * (2 * nz ias15_h i - SCt) ^ kz) (seq 0 8) 0 in
  Z.ltb (SCt ^ (kz + 1)) (Z.abs ((kz + 1) * s) * 10 ^ 6).

(* ---- BS: Gallina mirror of the C/D recursion of extrapolate() with x_k = coeff[k] = 1/n_k^2, exact rationals *)
Open Scope Q_scope.
Definition bs_x (k : nat) : Q := Qred (1 / (inject_Z (nth k bs_sequence 1%Z) * inject_Z (nth k bs_sequence 1%Z))).
Fixpoint updQ (l : list Q) (n : nat) (v : Q) : list Q :=
  match l, n with [], _ => [] | _ :: r, O => v :: r | a :: r, S m => a :: updQ r m v end.
(* one call: C := T; D[k] := T; for j = 0..k-1: CD = C - D[k-j-1]; C = facC CD; D[k-j-1] = facD CD.  returns D *)
Definition bs_column (D : list Q) (k : nat) (T : Q) : list Q :=
  let D0 := updQ D k T in
  snd (fold_left (fun st j =>
         let (C, Dc) := (st : Q * list Q) in
         let xi := bs_x (k - j - 1) in let xim1 := bs_x k in
         let CD := Qred (C - nth (k - j - 1) Dc 0) in
         (Qred (xi / (xi - xim1) * CD), updQ Dc (k - j - 1) (Qred (xim1 / (xi - xim1) * CD)))) (seq 0 k) (T, D0)).
Definition bs_y1 (D : list Q) (k : nat) : Q := Qred (fold_left (fun a j => a + nth j D 0) (seq 0 (S k)) 0).
(* feed the columns k = 0..K with T_k = f(x_k) and read y1 after column K *)
Definition bs_run (f : Q -> Q) (K : nat) : Q :=
  bs_y1 (fold_left (fun D k => bs_column D k (f (bs_x k))) (seq 0 (S K)) (repeat 0 9)) K.
Definition qpow (x : Q) (m : nat) : Q := Qred (fold_left (fun a _ => a * x) (seq 0 m) 1).
(* exact on the monomials x^m, m <= K (x = h^2): value at x = 0 is 1 for m = 0, else 0; and NOT exact for m = K+1 *)
Definition bs_extrapolation_ok : bool :=
  forallb (fun K => forallb (fun m => Qeq_bool (bs_run (fun x => qpow x m) K) (if Nat.eqb m 0 then 1 else 0)) (seq 0 (S K))
                    && negb (Qeq_bool (bs_run (fun x => qpow x (S K)) K) 0)) (seq 1 8).
Definition bs_sequence_ok : bool :=
  Nat.eqb (length bs_sequence) 9 && forallb (fun k => Z.eqb (nth k bs_sequence 0%Z) (4 * Z.of_nat k + 2)) (seq 0 9).
