(* C01 round 2 — 17th order corrector with the COMPOSITION and MODIFIEDKICK kernels (long computations, own file). *)
From Coq Require Import List ZArith Bool.
From Bignums Require Import BigZ.
From RV Require Import Gen.Schemes C01.FreeAlg C01.Model C01.FreeAlgX C01.ModelX.
Import ListNotations.
Open Scope Z_scope.
Lemma wh_comp17 : wh_comp_ok 17 = true.
Proof. vm_cast_no_check (eq_refl true). Qed.
Lemma wh_comp17_sharp : wh_comp_sharp 17 = true.
Proof. vm_cast_no_check (eq_refl true). Qed.
Lemma whfast_mk17 : whfast_mk_ok 17 = true.
Proof. vm_cast_no_check (eq_refl true). Qed.
