(* C01 — the operator words of the composition integrators, built from the regenerated tables
   (coq/Gen/Schemes.v) by Gallina functions that mirror the index arithmetic of the C drivers.
   Words that are hard-wired in the source (EOS switch arms, pre/post-processors, WHFast corrector call
   lists, leapfrog) come ready-made from the translator.  All words are for dt = 1, one step from a
   synchronised state to a synchronised state (safe_mode = 1) unless said otherwise; tools/c01.py compares
   them with the calls the compiled library really makes (gdb trace), also for safe_mode = 0 sequences.
   Definitions only. *)
From Coq Require Import List ZArith Bool.
From RV Require Import Gen.Schemes C01.FreeAlg.
Import ListNotations.
Open Scope Z_scope.

Definition A (c : Z) : bool * Z := (false, c).
Definition B (c : Z) : bool * Z := (true, c).

Definition nthZ (l : list Z) (i : nat) : Z := nth i l 0.
Definition row (t : list (list Z)) (i : nat) : list Z := nth i t [].

Fixpoint lookup {X} (k : Z) (l : list (Z * X)) : option X :=
  match l with [] => None | (k', v) :: r => if Z.eqb k k' then Some v else lookup k r end.

(* ------------------------------------------------------------------ SABA (integrator_saba.c)
   part1 (synchronised): kepler(c[0]);  part2: interaction(d[0]);
   for j = 1 .. stages-1:  kepler(c[j > stages/2 ? stages-j : j]);  interaction(d[j > (stages-1)/2 ? stages-j-1 : j]);
   synchronize: kepler(c[0]).      Table row = type % 0x100. *)
Definition saba_row (type : Z) : nat := Z.to_nat (type mod 256).
Definition saba_nstages (type : Z) : nat := match lookup type saba_stages with Some s => s | None => 0%nat end.

Definition saba_loop (c d : list Z) (stages : nat) : scheme :=
  flat_map (fun j =>
     let ic := if Nat.ltb (stages / 2) j then (stages - j)%nat else j in
     let id := if Nat.ltb ((stages - 1) / 2) j then (stages - j - 1)%nat else j in
     [A (nthZ c ic); B (nthZ d id)]) (seq 1 (stages - 1)).

(* the part of the step that does not depend on the synchronisation state: part2 without synchronize *)
Definition saba_part2 (type : Z) : scheme :=
  let c := row saba_c (saba_row type) in let d := row saba_d (saba_row type) in
  B (nthZ d 0) :: saba_loop c d (saba_nstages type).

Definition saba_c0 (type : Z) : Z := nthZ (row saba_c (saba_row type)) 0.

(* one full step, synchronised -> synchronised (types without corrector, i.e. type < 0x100) *)
Definition saba_word (type : Z) : scheme :=
  A (saba_c0 type) :: saba_part2 type ++ [A (saba_c0 type)].

(* k steps with safe_mode = 0 followed by synchronize: first drift c0, later combined drifts 2*c0 *)
Fixpoint saba_unsync_steps (type : Z) (k : nat) : scheme :=
  match k with
  | O => []
  | S k' => saba_part2 type ++ (match k' with O => [] | _ => A (2 * saba_c0 type) :: saba_unsync_steps type k' end)
  end.
Definition saba_word_unsync (type : Z) (k : nat) : scheme :=
  A (saba_c0 type) :: saba_unsync_steps type k ++ [A (saba_c0 type)].

Definition saba_plain_types : list Z := [0; 1; 2; 3; 4; 5; 6; 7; 8; 9].

(* advertised gradings (eps h^n1 + eps^2 h^n2 + ...), from the type names in rebound.h / the source comments *)
Definition saba_grading (type : Z) : grading :=
  match type with
  | 0 => gr [2; 2]%nat | 1 => gr [4; 2]%nat | 2 => gr [6; 2]%nat | 3 => gr [8; 2]%nat
  | 4 => gr [10; 4]%nat | 5 => gr [8; 6; 4]%nat | 6 => gr [10; 6; 4]%nat
  | 7 => gr [8; 4; 4]%nat | 8 => gr [8; 6; 4]%nat | 9 => gr [10; 6; 4]%nat
  | _ => gr [0]%nat
  end.
(* one degree beyond in the class with nb letters B: raise L(nb) (and the earlier entries if needed) by one *)
Definition bump (g : grading) (nb : nat) : grading :=
  let v := S (Lof g nb) in
  mkG (Nat.max (g_la g) v)
      (map (fun k => if Nat.leb (S k) nb then Nat.max (Lof g (S k)) v else Lof g (S k))
           (seq 0 (Nat.max nb (length (g_spec g))))).

(* ------------------------------------------------------------------ JANUS (integrator_janus.c) *)
Definition janus_gg (stages : nat) (gamma : list Z) (stage : nat) : Z :=
  if Nat.ltb stage ((stages + 1) / 2) then nthZ gamma stage else nthZ gamma ((stages - 1 - stage) mod 17).

Definition janus_find (order : nat) : option (nat * list Z) :=
  match filter (fun e => Nat.eqb (fst (fst e)) order) janus_schemes with
  | (_, s, g) :: _ => Some (s, g)
  | [] => None
  end.

(* part1: drift(gg(0)/2); part2: kick(gg(0)); for i=1..stages-1: drift((gg(i-1)+gg(i))/2); kick(gg(i)); drift(gg(stages-1)/2) *)
Definition janus_word (order : nat) : scheme :=
  match janus_find order with
  | None => []
  | Some (s, g) =>
      let gg := janus_gg s g in
      A (gg 0%nat / 2) :: B (gg 0%nat) ::
      flat_map (fun i => [A ((gg (i - 1)%nat + gg i) / 2); B (gg i)]) (seq 1 (s - 1))
      ++ [A (gg (s - 1)%nat / 2)]
  end.
(* the halvings above are exact in the scaled integers *)
Definition janus_halves_exact (order : nat) : bool :=
  match janus_find order with
  | None => false
  | Some (s, g) => forallb (fun i => Z.even (janus_gg s g i)) (seq 0 s)
  end.
Definition janus_gamma_list (order : nat) : list Z :=
  match janus_find order with None => [] | Some (s, g) => map (janus_gg s g) (seq 0 s) end.

(* ------------------------------------------------------------------ WHFast (integrator_whfast.c) *)
Definition half : Z := gen_SC / 2.
(* reb_whfast_corrector_Z(r, a, b): kepler(a); interaction(-b); kepler(-2a); interaction(b); kepler(a) *)
Definition whfast_Z (ab : Z * Z) : scheme :=
  let (a, b) := ab in [A a; B (- b); A (-2 * a); B b; A a].
Definition corrector_word (calls : list (Z * Z)) : scheme := flat_map whfast_Z calls.

Definition corrector_calls (order : nat) (fwd : bool) : list (Z * Z) :=
  match order, fwd with
  | 3%nat, true => whfast_corrector_calls_3_fwd | 3%nat, false => whfast_corrector_calls_3_inv
  | 5%nat, true => whfast_corrector_calls_5_fwd | 5%nat, false => whfast_corrector_calls_5_inv
  | 7%nat, true => whfast_corrector_calls_7_fwd | 7%nat, false => whfast_corrector_calls_7_inv
  | 11%nat, true => whfast_corrector_calls_11_fwd | 11%nat, false => whfast_corrector_calls_11_inv
  | 17%nat, true => whfast_corrector_calls_17_fwd | 17%nat, false => whfast_corrector_calls_17_inv
  | _, _ => []
  end.

(* DEFAULT kernel, Jacobi/barycentric coordinates, one step synchronised -> synchronised:
   part1: apply_corrector(+1); kepler(dt/2);  part2: interaction(dt);  synchronize: kepler(dt/2); apply_corrector(-1) *)
Definition wh_kernel : scheme := [A half; B gen_SC; A half].
Definition whfast_word (corrector : nat) : scheme :=
  corrector_word (corrector_calls corrector true) ++ wh_kernel ++ corrector_word (corrector_calls corrector false).

(* COMPOSITION kernel (Jacobi): part1 kepler(5/8); part2: I(-1/6) K(-1/4) I(1/6) K(1/8) I(1) K(-1/8) I(-1/6) K(1/4) I(1/6);
   synchronize kepler(3/8) *)
Definition whfast_composition_word (corrector : nat) : scheme :=
  corrector_word (corrector_calls corrector true) ++
  [A (5 * gen_SC / 8); B (- gen_SC / 6); A (- gen_SC / 4); B (gen_SC / 6); A (gen_SC / 8); B gen_SC; A (- gen_SC / 8);
   B (- gen_SC / 6); A (gen_SC / 4); B (gen_SC / 6); A (3 * gen_SC / 8)]
  ++ corrector_word (corrector_calls corrector false).

(* grading for "one-B terms vanish up to length n, two-B terms up to length m": eps h^n + eps^2 h^m *)
Definition gr2 (n m : nat) : grading := gr [n; m]%nat.

(* ------------------------------------------------------------------ EOS (integrator_eos.c): words from the translator *)
(* full step of the outer scheme, synchronised -> synchronised = part2 (preprocessor + arm) ++ synchronize (drift + postprocessor) *)
Definition eos_step (outer sync : scheme) : scheme := outer ++ sync.

Fixpoint repeat_word (k : nat) (s : scheme) : scheme :=
  match k with O => [] | S k' => s ++ repeat_word k' s end.

(* ------------------------------------------------------------------ the decision predicates used by the theorems *)
Definition T25 : Z := 10 ^ 25.
Definition T4 : Z := 10 ^ 4.

(* SABA: advertised grading, both time directions, tolerance 1e-25 *)
Definition saba_ok (t : Z) : bool := order_ok (saba_grading t) T25 (saba_word t).
(* one degree beyond, in every class nb = 1 .. (number of entries of the grading), the residual is >= 1e-4 *)
Definition saba_sharp (t : Z) : bool :=
  let g := saba_grading t in
  forallb (fun nb => sharp_at (bump g nb) T4 (Lof (bump g nb) nb) nb (saba_word t)) (seq 1 (length (g_spec g))).
Definition saba_shape (t : Z) : bool :=
  palindromic (saba_word t) && Nat.eqb (length (saba_word t)) (2 * saba_nstages t + 1).
(* three steps with safe_mode = 0 (combined drifts 2*c0) and a final synchronize = three synchronised steps *)
Definition saba_unsync_ok (t : Z) : bool :=
  same_element (saba_grading t) (saba_word_unsync t 3) (repeat_word 3 (saba_word t)).

(* WHFast: with the corrector of "order" k the one-B terms of Cor . WH . Cor^-1 vanish up to word length k+1
   (error eps h^(k+1)), the two-B terms up to length 2 (error eps^2 h^2) *)
Definition wh_corr_ok (k : nat) : bool := order_ok (gr2 (S k) 2) T25 (whfast_word k).
Definition wh_corr_sharp (k : nat) : bool :=
  sharp_at (gr2 (S (S k)) 2) T4 (S (S k)) 1 (whfast_word k) && sharp_at (gr2 (S k) 3) T4 3 2 (whfast_word k).
(* apply_corrector(-1) after apply_corrector(+1) is the identity element *)
Definition corr_inverse_ok (k : nat) : bool :=
  same_element (gr [S (S k); 4; 3]%nat) (corrector_word (corrector_calls k true) ++ corrector_word (corrector_calls k false)) [].
(* COMPOSITION kernel with a corrector: two-B terms vanish up to length 4, three-B up to length 3 *)
Definition wh_comp_ok (k : nat) : bool := order_ok (gr [S k; 4; 3]%nat) T25 (whfast_composition_word k).
Definition wh_comp_sharp (k : nat) : bool := sharp_at (gr [S k; 5; 3]%nat) T4 5 2 (whfast_composition_word k).
Definition corr_small : list nat := [3; 5; 7; 11]%nat.

(* JANUS *)
Definition janus_orders : list nat := [2; 4; 6; 8; 10]%nat.
Definition janus_ok (o : nat) : bool :=
  janus_halves_exact o && palindromic (janus_word o) && order_ok (full o) (10 ^ 15) (janus_word o).
Definition janus_sharp (o : nat) : bool := sharp_at (gr [S o; 2]%nat) T4 (S o) 1 (janus_word o).
Definition janus_stage_count (o : nat) : bool :=
  match janus_find o with Some (s, _) => Nat.eqb (length (janus_word o)) (2 * s + 1) | None => false end.

(* leapfrog / plain WH kernel: order 2, symmetric, and not order 3 *)
Definition order2_sharp (w : scheme) : bool :=
  order_ok (full 2) T25 w && palindromic w && sharp_at (gr [3; 2]%nat) T4 3 1 w.
