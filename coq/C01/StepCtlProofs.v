(* C01 round 3 — contract of the IAS15 and BS step-size controllers, over the reals. *)
From Coq Require Import List ZArith Reals Lra Lia Bool.
From RV Require Import Common.Num Common.RealNum Gen.Schemes C01.StepCtl.
Import ListNotations.
Open Scope R_scope.

Definition isnR (x : R) : bool := negb (Reqb x 0).
Definition csR (m s : R) : R := if Rltb s 0 then - Rabs m else Rabs m.
Definition SF : Z * Z := ias15_safety_factor.      (* regenerated: 1/4 *)
Definition tailR := ias15_tail RNum csR SF.

Lemma Rltb_t : forall a b, Rltb a b = true -> a < b.
Proof. intros a b. unfold Rltb. destruct (Rlt_dec a b); auto; discriminate. Qed.
Lemma Rltb_f : forall a b, Rltb a b = false -> b <= a.
Proof. intros a b. unfold Rltb. destruct (Rlt_dec a b); [discriminate | intros _; lra]. Qed.

Ltac cases_ltb :=
  repeat match goal with
  | |- context [Rltb ?a ?b] => let E := fresh "E" in destruct (Rltb a b) eqn:E; [apply Rltb_t in E | apply Rltb_f in E]
  | H : context [Rltb ?a ?b] |- _ => let E := fresh "E" in destruct (Rltb a b) eqn:E; [apply Rltb_t in E | apply Rltb_f in E]
  end.

Lemma safety_val : safety RNum SF = 1 / 4.
Proof. unfold safety, ndec, SF, ias15_safety_factor. cbn. lra. Qed.

Lemma div_pos_eq : forall d t, 0 < t -> d = (d / t) * t.
Proof. intros. field. lra. Qed.

(* forward direction (dt_done > 0, candidate > 0, min_dt >= 0); the backward case is the mirror image *)
Section Forward.
Variables (raw done_ mn : R).
Hypothesis Hd : 0 < done_.
Hypothesis Hr : 0 < raw.
Hypothesis Hm : 0 <= mn.

Lemma clamp_pos : let d := if Rltb (Rabs raw) mn then csR mn raw else raw in 0 < d /\ raw <= d /\ (d = raw \/ d = mn).
Proof.
  cbv zeta. rewrite (Rabs_right raw) by lra. cases_ltb.
  - unfold csR. cases_ltb; [lra|]. rewrite Rabs_right by lra. lra.
  - lra.
Qed.

(* accepted: the step changes by at most a factor 4 either way *)
Theorem ias15_accept_ratio : forall d, tailR raw done_ mn = (true, d) -> done_ / 4 <= d <= 4 * done_.
Proof.
  intros d H. unfold tailR, ias15_tail in H. rewrite safety_val in H. cbn [nltb nabs ndiv none RNum] in H.
  destruct clamp_pos as [Hp [_ _]]. set (c := if Rltb (Rabs raw) mn then csR mn raw else raw) in *.
  assert (Hq : 0 < c / done_) by (apply Rdiv_lt_0_compat; lra).
  rewrite (Rabs_right (c / done_)) in H by lra.
  pose proof (div_pos_eq c done_ Hd) as Hc.
  destruct (Rltb (c / done_) (1 / 4)) eqn:E1; [discriminate|]. apply Rltb_f in E1.
  injection H as H. cases_ltb; subst d; nra.
Qed.

(* rejected: the retry uses a step strictly smaller than a quarter of the rejected one *)
Theorem ias15_reject_smaller : forall d, tailR raw done_ mn = (false, d) -> 0 < d < done_ / 4.
Proof.
  intros d H. unfold tailR, ias15_tail in H. rewrite safety_val in H. cbn [nltb nabs ndiv none RNum] in H.
  destruct clamp_pos as [Hp [_ _]]. set (c := if Rltb (Rabs raw) mn then csR mn raw else raw) in *.
  assert (Hq : 0 < c / done_) by (apply Rdiv_lt_0_compat; lra).
  rewrite (Rabs_right (c / done_)) in H by lra.
  pose proof (div_pos_eq c done_ Hd) as Hc.
  destruct (Rltb (c / done_) (1 / 4)) eqn:E1; [|discriminate]. apply Rltb_t in E1.
  injection H as H. subst d. nra.
Qed.

(* the decision itself: accepted iff the (clamped) candidate is at least a quarter of the step just done *)
Theorem ias15_accept_iff : fst (tailR raw done_ mn) = true <-> done_ / 4 <= Rmax raw mn.
Proof.
  unfold tailR, ias15_tail. rewrite safety_val. cbn [nltb nabs ndiv none RNum].
  destruct clamp_pos as [Hp [Hge Hor]]. set (c := if Rltb (Rabs raw) mn then csR mn raw else raw) in *.
  assert (Hc' : c = Rmax raw mn).
  { unfold c. rewrite (Rabs_right raw) by lra. unfold Rmax. cases_ltb.
    - unfold csR. cases_ltb; [lra|]. rewrite Rabs_right by lra. destruct (Rle_dec raw mn); lra.
    - destruct (Rle_dec raw mn); lra. }
  assert (Hq : 0 < c / done_) by (apply Rdiv_lt_0_compat; lra).
  rewrite (Rabs_right (c / done_)) by lra.
  pose proof (div_pos_eq c done_ Hd) as Hc. rewrite <- Hc'.
  destruct (Rltb (c / done_) (1 / 4)) eqn:E1; [apply Rltb_t in E1 | apply Rltb_f in E1]; cbn; split; intro X; try discriminate; try reflexivity; nra.
Qed.
(* the next step as a closed formula of the clamped candidate c = max(raw, min_dt) *)
Theorem ias15_next_value :
  snd (tailR raw done_ mn) = let c := Rmax raw mn in if Rlt_dec c (done_ / 4) then c else Rmin c (4 * done_).
Proof.
  unfold tailR, ias15_tail. rewrite safety_val. cbn [nltb nabs ndiv none RNum].
  destruct clamp_pos as [Hp [Hge Hor]]. set (c := if Rltb (Rabs raw) mn then csR mn raw else raw) in *.
  assert (Hc' : c = Rmax raw mn).
  { unfold c. rewrite (Rabs_right raw) by lra. unfold Rmax. cases_ltb.
    - unfold csR. cases_ltb; [lra|]. rewrite Rabs_right by lra. destruct (Rle_dec raw mn); lra.
    - destruct (Rle_dec raw mn); lra. }
  assert (Hq : 0 < c / done_) by (apply Rdiv_lt_0_compat; lra).
  rewrite (Rabs_right (c / done_)) by lra.
  pose proof (div_pos_eq c done_ Hd) as Hc. cbv zeta. rewrite <- Hc'.
  destruct (Rlt_dec c (done_ / 4)) as [L | L];
    destruct (Rltb (c / done_) (1 / 4)) eqn:E1; [apply Rltb_t in E1 | apply Rltb_f in E1 | apply Rltb_t in E1 | apply Rltb_f in E1]; cbn [snd]; try nra.
  unfold Rmin. cases_ltb; destruct (Rle_dec c (4 * done_)); try nra.
Qed.
End Forward.

(* monotone: a larger candidate never gives a smaller next step, and never turns an acceptance into a rejection *)
Theorem ias15_tail_monotone : forall raw1 raw2 done_ mn, 0 < done_ -> 0 < raw1 <= raw2 -> 0 <= mn ->
  snd (tailR raw1 done_ mn) <= snd (tailR raw2 done_ mn) /\
  (fst (tailR raw1 done_ mn) = true -> fst (tailR raw2 done_ mn) = true).
Proof.
  intros raw1 raw2 done_ mn Hd [H1 H12] Hm.
  assert (H2 : 0 < raw2) by lra.
  assert (M : Rmax raw1 mn <= Rmax raw2 mn) by (apply Rle_max_compat_r; exact H12).
  split.
  - rewrite (ias15_next_value raw1 done_ mn Hd H1 Hm), (ias15_next_value raw2 done_ mn Hd H2 Hm). cbv zeta.
    set (c1 := Rmax raw1 mn) in *. set (c2 := Rmax raw2 mn) in *.
    destruct (Rlt_dec c1 (done_ / 4)); destruct (Rlt_dec c2 (done_ / 4)); unfold Rmin;
      repeat match goal with |- context [Rle_dec ?a ?b] => destruct (Rle_dec a b) end; lra.
  - intros A. apply (ias15_accept_iff raw2 done_ mn Hd H2 Hm). apply (ias15_accept_iff raw1 done_ mn Hd H1 Hm) in A. lra.
Qed.

(* adaptive_mode 0/1 with an exact 7th root: the candidate is non-increasing in the error estimate, and an ACCEPTED step has
   error estimate <= 4^7 epsilon = 16384 epsilon (min_dt = 0).  The naive reading "accepted => estimate <= epsilon" is false. *)
Section Mode01.
Variable rt7 : R -> R.
Hypothesis rt7_pos : forall x, 0 < x -> 0 < rt7 x.
Hypothesis rt7_pow : forall x, 0 < x -> rt7 x ^ 7 = x.

Definition raw01 (eps err done_ : R) : R := ias15_raw01 RNum isnR rt7 SF eps err done_.

Lemma raw01_val : forall eps err done_, 0 < err -> raw01 eps err done_ = rt7 (eps / err) * done_.
Proof.
  intros eps err done_ H. unfold raw01, ias15_raw01, isnR, Reqb. destruct (Req_EM_T err 0); [lra|]. reflexivity.
Qed.

Lemma rt7_mono : forall x y, 0 < x -> x <= y -> rt7 x <= rt7 y.
Proof.
  intros x y Hx Hxy. destruct (Rle_dec (rt7 x) (rt7 y)) as [L | L]; [exact L|]. exfalso.
  assert (Hy : 0 < y) by lra.
  assert (P : rt7 y ^ 7 <= rt7 x ^ 7) by (apply pow_incr; split; [apply Rlt_le, rt7_pos; exact Hy | lra]).
  rewrite (rt7_pow x Hx), (rt7_pow y Hy) in P.
  assert (E : x = y) by lra. subst y. lra.
Qed.

Theorem ias15_candidate_antitone : forall eps err1 err2 done_, 0 < eps -> 0 < done_ -> 0 < err1 <= err2 ->
  raw01 eps err2 done_ <= raw01 eps err1 done_.
Proof.
  intros eps e1 e2 d He Hd [H1 H12]. rewrite !raw01_val by lra.
  apply Rmult_le_compat_r; [lra|]. apply rt7_mono.
  - apply Rdiv_lt_0_compat; lra.
  - unfold Rdiv. apply Rmult_le_compat_l; [lra|]. apply Rinv_le_contravar; lra.
Qed.

Theorem ias15_accept_error_bound : forall eps err done_, 0 < eps -> 0 < done_ -> 0 < err ->
  fst (tailR (raw01 eps err done_) done_ 0) = true -> err <= 16384 * eps.
Proof.
  intros eps err d He Hd Herr A. rewrite raw01_val in A by lra.
  assert (Hq : 0 < eps / err) by (apply Rdiv_lt_0_compat; lra).
  pose proof (rt7_pos _ Hq) as Hp.
  assert (Hraw : 0 < rt7 (eps / err) * d) by (apply Rmult_lt_0_compat; lra).
  apply (ias15_accept_iff _ d 0 Hd Hraw (Rle_refl 0)) in A.
  rewrite Rmax_left in A by lra.
  assert (Q : 1 / 4 <= rt7 (eps / err)) by nra.
  assert (P : (1 / 4) ^ 7 <= rt7 (eps / err) ^ 7) by (apply pow_incr; lra).
  rewrite (rt7_pow _ Hq) in P.
  assert (E : eps = (eps / err) * err) by (field; lra).
  assert (V : (1 / 4) ^ 7 = 1 / 16384) by (simpl; lra).
  rewrite V in P. nra.
Qed.

(* an estimate twice as large as epsilon is accepted: "accepted => estimate <= epsilon" does not hold for IAS15 *)
Theorem ias15_accepts_above_epsilon : forall eps done_, 0 < eps -> 0 < done_ ->
  fst (tailR (raw01 eps (2 * eps) done_) done_ 0) = true.
Proof.
  intros eps d He Hd. rewrite raw01_val by lra.
  assert (E : eps / (2 * eps) = 1 / 2) by (field; lra). rewrite E.
  assert (Hh : 0 < 1 / 2) by lra. pose proof (rt7_pos _ Hh) as Hp.
  assert (Q : 1 / 4 <= rt7 (1 / 2)).
  { destruct (Rle_dec (1 / 4) (rt7 (1 / 2))) as [L | L]; [exact L|]. exfalso.
    assert (P : rt7 (1 / 2) ^ 7 <= (1 / 4) ^ 7) by (apply pow_incr; lra).
    rewrite (rt7_pow _ Hh) in P. assert (V : (1 / 4) ^ 7 = 1 / 16384) by (simpl; lra). rewrite V in P. lra. }
  assert (Hraw : 0 < rt7 (1 / 2) * d) by (apply Rmult_lt_0_compat; lra).
  apply (ias15_accept_iff _ d 0 Hd Hraw (Rle_refl 0)). rewrite Rmax_left by lra. nra.
Qed.
End Mode01.

(* ---- BS: the optimal-step factor is confined to [power/4, 1/power], non-increasing in pow(error/0.65, exp), and below 0.94
   (a strict reduction) whenever the scaled error exceeds 1 (then pow(error/0.65, exp) > 1);  a step is accepted only with
   scaled error <= 1, in every branch of the order-control switch. *)
Definition facR := bs_fac RNum (94 / 100) 4.

Theorem bs_fac_bounds : forall pe p3, 0 < p3 <= 1 -> 0 < pe -> p3 / 4 <= facR pe p3 <= 1 / p3.
Proof.
  intros pe p3 [H3 H31] Hpe. unfold facR, bs_fac, bs_fac_core, cmax, cmin. cbn [nltb ndiv none RNum].
  assert (I : p3 / 4 <= 1 / p3).
  { apply Rle_trans with (1 / 4); [lra|]. unfold Rdiv. rewrite !Rmult_1_l. apply Rinv_le_contravar; lra. }
  cases_ltb; lra.
Qed.

Theorem bs_fac_antitone : forall pe1 pe2 p3, 0 < p3 -> 0 < pe1 <= pe2 -> facR pe2 p3 <= facR pe1 p3.
Proof.
  intros pe1 pe2 p3 H3 [H1 H12]. unfold facR, bs_fac, bs_fac_core, cmax, cmin. cbn [nltb ndiv none RNum].
  assert (I : 94 / 100 / pe2 <= 94 / 100 / pe1).
  { unfold Rdiv. apply Rmult_le_compat_l; [lra|]. apply Rinv_le_contravar; lra. }
  cases_ltb; lra.
Qed.

Theorem bs_fac_reduces : forall pe p3, 0 < p3 <= 1 -> 1 < pe -> facR pe p3 < 94 / 100.
Proof.
  intros pe p3 [H3 H31] Hpe. unfold facR, bs_fac, bs_fac_core, cmax, cmin. cbn [nltb ndiv none RNum].
  assert (I : 94 / 100 / pe < 94 / 100).
  { unfold Rdiv. rewrite <- (Rmult_1_r (94 * / 100)) at 2. apply Rmult_lt_compat_l; [lra|].
    rewrite <- Rinv_1. apply Rinv_lt_contravar; lra. }
  assert (J : p3 / 4 < 94 / 100) by lra.
  cases_ltb; lra.
Qed.

Theorem bs_accept_only_below_tolerance : forall d error ratio2 tg pr fl,
  bs_decide RNum d error ratio2 tg pr fl = (false, false) -> error <= 1.
Proof.
  intros d error ratio2 tg pr fl. unfold bs_decide. cbn [nltb none RNum].
  destruct d as [|p|p]; [| destruct p; try destruct p | destruct p; try destruct p];
    repeat match goal with |- context [if ?b then _ else _] => destruct b eqn:? end;
    intro H; try discriminate; cases_ltb; try lra; try discriminate.
Qed.

(* BS: min_dt / max_dt act on the PROPOSED step only: with both limits set (0 < min <= max) the proposed step lies between them, with
   neither set it is the controller's value; the attempted step is the caller's argument (tied by the trace, not a theorem) *)
Theorem bs_clamp_range : forall mn mx d fw, 0 < mn <= mx -> 0 <= d ->
  mn <= Rabs (bs_clamp RNum mn mx d fw) <= mx.
Proof.
  intros mn mx d fw [Hm Hmx] Hd. unfold bs_clamp. cbn [neqb nltb nzero nneg RNum]. unfold Reqb.
  destruct (Req_EM_T mn 0); [lra|]. destruct (Req_EM_T mx 0); [lra|]. cbn [negb andb].
  cases_ltb; destruct fw; rewrite ?Rabs_Ropp; try (rewrite Rabs_right by lra); lra.
Qed.
Theorem bs_clamp_off : forall d fw, 0 <= d -> Rabs (bs_clamp RNum 0 0 d fw) = d.
Proof.
  intros d fw Hd. unfold bs_clamp. cbn [neqb nltb nzero nneg RNum]. unfold Reqb. destruct (Req_EM_T 0 0); [|lra]. cbn [negb andb].
  destruct fw; rewrite ?Rabs_Ropp; apply Rabs_right; lra.
Qed.

(* the theorems above are stated for safety_factor = 1/4, stepControl2 = 0.94, stepControl4 = 4: these are the values of the
   current source (regenerated); a change of any controller constant breaks this lemma *)
Lemma controller_constants_pinned :
  ias15_safety_factor = (1, 4)%Z /\ bs_constants = [(13, 20); (47, 50); (1, 50); (4, 1); (4, 5); (9, 10); (1, 2)]%Z.
Proof. split; reflexivity. Qed.
