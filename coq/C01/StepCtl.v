(* C01 round 3 — the adaptive step-size controllers as pure functions (Num-polymorphic).
   IAS15 (src/integrator_ias15.c, end of reb_integrator_ias15_step): from the error estimate to the candidate step, the
   min_dt clamp, the rejection rule and the growth limit; sqrt7 is the library's own 7th root (Newton iteration).
   BS (src/integrator_bs.c, reb_integrator_bs_step): the optimal-step factor of a column and the accept/reject decision.
   The binary64 instances are compared bit for bit with values recorded from the running library (tools/c01.py, gdb);
   the R instances carry the contract theorems (C01/StepCtlProofs.v).  Definitions only. *)
From Coq Require Import List ZArith Bool.
From RV Require Import Common.Num.
Import ListNotations.

Section Ctl.
Context {T : Type} (N : Num T).
Variable isn : T -> bool.               (* isnormal() *)
Variable csign : T -> T -> T.           (* copysign(magnitude, sign) *)
Let add := nadd N. Let sub := nsub N. Let mul := nmul N. Let div := ndiv N. Let ltb := nltb N.

(* static double sqrt7(double a) *)
Fixpoint s7_down (fuel : nat) (a scale : T) : T * T :=      (* while(a<1e-7 && isnormal(a)){ scale *= 0.1; a *= 1e7; } *)
  match fuel with
  | O => (a, scale)
  | S f => if ltb a (ndec N 1 (10 ^ 7)) && isn a then s7_down f (mul a (nofZ N (10 ^ 7))) (mul scale (ndec N 1 10)) else (a, scale)
  end.
Fixpoint s7_up (fuel : nat) (a scale : T) : T * T :=        (* while(a>1e2 && isnormal(a)){ scale *= 10; a *= 1e-7; } *)
  match fuel with
  | O => (a, scale)
  | S f => if ltb (nofZ N 100) a && isn a then s7_up f (mul a (ndec N 1 (10 ^ 7))) (mul scale (nofZ N 10)) else (a, scale)
  end.
Fixpoint s7_newton (k : nat) (a x : T) : T :=               (* x6 = x*x*x*x*x*x; x += (a/x6-x)/7.; *)
  match k with
  | O => x
  | S k' => let x6 := mul (mul (mul (mul (mul x x) x) x) x) x in
            s7_newton k' a (add x (div (sub (div a x6) x) (nofZ N 7)))
  end.
Definition sqrt7 (a : T) : T :=
  let (a1, s1) := s7_down 64 a (none N) in
  let (a2, s2) := s7_up 64 a1 s1 in
  mul (s7_newton 20 a2 (none N)) s2.

Definition safety (pq : Z * Z) : T := ndec N (fst pq) (snd pq).      (* safety_factor = 0.25, regenerated *)

(* adaptive_mode 0, 1: dt_new = sqrt7(epsilon/integrator_error)*dt_done, or dt_done/safety_factor if the estimate is not normal *)
Definition ias15_raw01 (rt7 : T -> T) (pq : Z * Z) (eps err dt_done : T) : T :=
  if isn err then mul (rt7 (div eps err)) dt_done else div dt_done (safety pq).
(* adaptive_mode 2, 3: dt_new = sqrt(min_timescale2) * dt_done * sqrt7(epsilon*5040.0) *)
Definition ias15_raw23 (rt7 : T -> T) (pq : Z * Z) (eps ts2 dt_done : T) : T :=
  if isn ts2 then mul (mul (nsqrt N ts2) dt_done) (rt7 (mul eps (nofZ N 5040))) else div dt_done (safety pq).

(* min_dt clamp; reject if |dt_new/dt_done| < safety_factor (retry with dt_new); else limit growth to 1/safety_factor.
   returns (accepted, next r->dt) *)
Definition ias15_tail (pq : Z * Z) (dt_raw dt_done min_dt : T) : bool * T :=
  let d := if ltb (nabs N dt_raw) min_dt then csign min_dt dt_raw else dt_raw in
  if ltb (nabs N (div d dt_done)) (safety pq) then (false, d)
  else (true,
        if ltb (none N) (nabs N (div d dt_done))
        then (if ltb (div (none N) (safety pq)) (div d dt_done) then div dt_done (safety pq) else d)
        else d).

(* ---- BS: optimal step factor of column k, given the two pow() results (libm, passed in):
        exp = 1.0/(2k+1);  fac = stepControl2 / pow(error/stepControl1, exp);  power = pow(stepControl3, exp);
        fac = MAX(power/stepControl4, MIN(1./power, fac));  optimal_step[k] = fabs(dt*fac)
   MAX(a,b) = ((a) > (b) ? (a) : (b)),  MIN(a,b) = ((a) < (b) ? (a) : (b))   (macros of integrator_bs.c) *)
Definition cmax (a b : T) : T := if ltb b a then a else b.
Definition cmin (a b : T) : T := if ltb a b then a else b.
Definition bs_fac_core (sc4 : T) (fac0 pow_sc3 : T) : T :=       (* fac0 = stepControl2 / pow(error/stepControl1, exp) *)
  cmax (div pow_sc3 sc4) (cmin (div (none N) pow_sc3) fac0).
Definition bs_fac (sc2 sc4 : T) (pow_err pow_sc3 : T) : T := bs_fac_core sc4 (div sc2 pow_err) pow_sc3.
Definition bs_optimal_step (sc2 sc4 pow_err pow_sc3 dt : T) : T := nabs N (mul dt (bs_fac sc2 sc4 pow_err pow_sc3)).

(* the clamp at the END of reb_integrator_bs_step, applied to the step PROPOSED for the next call (ri_bs->dt_proposed):
        dt = fabs(dt);  if (min_dt != 0.0 && dt < min_dt) dt = min_dt;  if (max_dt != 0.0 && dt > max_dt) dt = max_dt;  if (!forward) dt = -dt;
   The step ATTEMPTED by a call is the argument it was given, unclamped (the callers advance time by exactly that amount). *)
Definition bs_clamp (min_dt max_dt dtabs : T) (forward : bool) : T :=
  let d1 := if negb (neqb N min_dt (nzero N)) && ltb dtabs min_dt then min_dt else dtabs in
  let d2 := if negb (neqb N max_dt (nzero N)) && ltb max_dt d1 then max_dt else d1 in
  if forward then d2 else nneg N d2.

(* the decision taken after column k (d = k - target_iter), for error <= 1e25:
   returns (loop continues, reject) ; ratio2 = the squared sequence ratio the code compares the error with *)
Definition bs_decide (d : Z) (error ratio2 : T) (target_gt1 prev_rejected first_or_last : bool) : bool * bool :=
  let le1 := negb (ltb (none N) error) in                  (* error <= 1.0 *)
  match d with
  | (-1)%Z => if target_gt1 && negb prev_rejected
              then (if le1 then (false, false) else if ltb ratio2 error then (false, true) else (true, false))
              else (true, false)
  | 0%Z => if le1 then (false, false) else if ltb ratio2 error then (false, true) else (true, false)
  | 1%Z => if ltb (none N) error then (false, true) else (false, false)
  | _ => if first_or_last && le1 then (false, false) else (true, false)
  end.
End Ctl.
