(* C01 round 3 — MERCURIUS changeover / TRACE switching at the level of one pair force.
   gravity.c weights the Newtonian pair prefactor G/r^3 by w_kick(x) in the interaction step and by w_enc(x) in the
   encounter (IAS15/BS) step, with x = L(r) in [0,1] (MERCURIUS, any changeover function) or x = K in {0,1} (TRACE);
   the weights, as affine functions a0 + a1 x, are regenerated from the force loops (Gen/Schemes.v).
   Theorem: for every x the two weighted prefactors add up to the full Newtonian one, so the two sub-Hamiltonians sum to the
   full Hamiltonian for every changeover value and the order theorem of the hybrid word (C01_hybrid_word) applies. *)
From Coq Require Import ZArith Reals Lra.
From RV Require Import Common.Num Common.RealNum Gen.Schemes.
Open Scope R_scope.

Section W.
Context {T : Type} (N : Num T).
Definition weight (w : Z * Z) (x : T) : T := nadd N (nofZ N (fst w)) (nmul N (nofZ N (snd w)) x).
Definition pair_prefactor (w : Z * Z) (G x r : T) : T := ndiv N (nmul N G (weight w x)) (nmul N (nmul N r r) r).
End W.

Theorem mercurius_split_is_exact : forall G L r : R, r <> 0 ->
  pair_prefactor RNum mercurius_w_kick G L r + pair_prefactor RNum mercurius_w_encounter G L r = G / (r * r * r).
Proof. intros G L r Hr. unfold pair_prefactor, weight, mercurius_w_kick, mercurius_w_encounter. cbn. field. exact Hr. Qed.

Theorem trace_split_is_exact : forall G K r : R, r <> 0 ->
  pair_prefactor RNum trace_w_interaction G K r + pair_prefactor RNum trace_w_kepler G K r = G / (r * r * r).
Proof. intros G K r Hr. unfold pair_prefactor, weight, trace_w_interaction, trace_w_kepler. cbn. field. exact Hr. Qed.

(* each part alone is the full force at one end of the range and nothing at the other *)
Theorem split_endpoints : forall G r : R, r <> 0 ->
  pair_prefactor RNum mercurius_w_kick G 1 r = G / (r * r * r) /\ pair_prefactor RNum mercurius_w_kick G 0 r = 0 /\
  pair_prefactor RNum mercurius_w_encounter G 0 r = G / (r * r * r) /\ pair_prefactor RNum mercurius_w_encounter G 1 r = 0 /\
  pair_prefactor RNum trace_w_interaction G 0 r = G / (r * r * r) /\ pair_prefactor RNum trace_w_kepler G 1 r = G / (r * r * r).
Proof.
  intros G r Hr. unfold pair_prefactor, weight, mercurius_w_kick, mercurius_w_encounter, trace_w_interaction, trace_w_kepler. cbn.
  repeat split; field; exact Hr.
Qed.
