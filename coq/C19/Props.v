(* C19 property theorems ONLY (each closed by an already proved lemma) + assumptions. *)
From Coq Require Import String List Bool Arith.
From RV Require Import C19.Conc C19.Proofs Gen.LockProto Gen.Statics C19.Inst.
Import ListNotations.
Open Scope string_scope.

(* gen_system = the integrator thread program and the server thread program GENERATED from the current rebound.c / server.c.
   reach = any finite interleaving of the two threads (any number of requests of any kind, arriving at any time, any
   number of integration steps and of reb_simulation_integrate calls). *)

(* the generated skeleton obeys the lock discipline (this is what breaks if a lock moves) *)
Theorem C19_protocol_wellformed : wf false gen_system = true.
Proof. exact gen_wf. Qed.
Print Assumptions C19_protocol_wellformed.

(* during the whole time a request is being serialised, no step of the simulation is in progress *)
Theorem C19_served_at_boundary : forall s, reach gen_system s -> serializing s = true -> in_step s = false.
Proof. exact gen_served_at_boundary. Qed.
Print Assumptions C19_served_at_boundary.

Theorem C19_step_serialize_mutually_exclusive : forall s, reach gen_system s -> ~ (in_step s = true /\ serializing s = true).
Proof. exact gen_mutual_exclusion. Qed.
Print Assumptions C19_step_serialize_mutually_exclusive.

Theorem C19_serializer_holds_mutex : forall s, reach gen_system s -> gz (tS s) = true -> holder s = Some false.
Proof. exact gen_serializer_holds_mutex. Qed.
Print Assumptions C19_serializer_holds_mutex.

Theorem C19_stepper_holds_mutex : forall s, reach gen_system s -> gst (tI s) = true -> holder s = Some true.
Proof. exact gen_stepper_holds_mutex. Qed.
Print Assumptions C19_stepper_holds_mutex.

(* the same for ANY pair of thread programs whose blocks pass the sequential discipline check *)
Theorem C19_served_at_boundary_any_protocol : forall P s, wf false P = true -> reach P s -> serializing s = true -> in_step s = false.
Proof. exact served_at_boundary_gen. Qed.
Print Assumptions C19_served_at_boundary_any_protocol.

(* full strength "nothing at all writes the simulation while it is serialised" is still FALSE of the generated protocol, but only for
   scalar bookkeeping (see C19_served_boundary_modulo_bookkeeping for the positive statement): reb_check_exit (blocks >= 3) writes r->status (a persisted int) outside the mutex; witness in block 3 *)
Theorem C19_served_quiescent_refuted :
  exists s, reach gen_system s /\ gz (tS s) = true /\ integ_writing s = true /\ pcb (tI s) = 3.
Proof. exact gen_served_quiescent_refuted_head. Qed.
Print Assumptions C19_served_quiescent_refuted.

(* in every reachable state in which a serialisation overlaps a simulation write of the integrator thread, that thread is in
   reb_check_exit (blocks >= 3): not in the prologue (0), the loop body (1: step, heartbeats) or the block after the loop (2) *)
Theorem C19_overlap_only_check_exit : forall s, reach gen_system s ->
  gz (tS s) = true -> integ_writing s = true -> 3 <= pcb (tI s).
Proof. exact gen_overlap_only_check_exit. Qed.
Print Assumptions C19_overlap_only_check_exit.

(* reb_simulation_synchronize is called on some path through reb_check_exit, and on no path of any block outside the mutex *)
Theorem C19_synchronize_always_locked :
  existsb (String.eqb "reb_simulation_synchronize") (concat (map unlocked_writes all_integ_blocks)) = false /\
  existsb (fun b => existsb (fun x => match x with AWriteBegin l => String.eqb l "reb_simulation_synchronize" | _ => false end) b) integ_loop_heads = true.
Proof. exact gen_synchronize_always_locked. Qed.
Print Assumptions C19_synchronize_always_locked.

(* ... and it holds for every protocol in which all simulation writes are inside the mutex *)
Theorem C19_served_quiescent_partial : forall P s, wf true P = true -> reach P s ->
  gz (tS s) = true -> integ_writing s = false /\ gst (tI s) = false.
Proof. exact served_quiescent_gen. Qed.
Print Assumptions C19_served_quiescent_partial.

(* exactly these writes happen outside the mutex (labels: callee handed a non-const simulation, or field assigned; conservative:
   reb_simulation_error_message_waiting only reads).  Loop body and the block after the loop: none. *)
Theorem C19_unlocked_writes_integrator :
  unlocked_writes integ_loop_body = [] /\
  unlocked_writes integ_epilogue = [] /\
  dedup (concat (map unlocked_writes integ_loop_heads)) =
    ["reb_simulation_error_message_waiting"; "field:status"; "reb_simulation_warning"] /\
  unlocked_writes integ_prologue = [].
Proof. exact gen_unlocked_writes_integrator. Qed.
Print Assumptions C19_unlocked_writes_integrator.

(* request handlers: only the /keyboard/ command writes the simulation (status) outside the mutex; /simulation writes nothing unlocked *)
Theorem C19_unlocked_writes_handlers :
  map (fun h => (fst h, unlocked_writes (snd h))) handlers =
  [("/simulation", []); ("/keyboard/", ["field:status"]); ("/rebound.html", []); ("/favicon.ico", []); ("/screenshot", []); ("<other>", [])].
Proof. exact gen_unlocked_writes_handlers. Qed.
Print Assumptions C19_unlocked_writes_handlers.

Theorem C19_mutex_users :
  mutex_functions_default =
  [("output.c", "reb_simulation_output_screenshot", "pthread_mutex_lock"); ("output.c", "reb_simulation_output_screenshot", "pthread_mutex_unlock");
   ("rebound.c", "reb_server_mutex_lock", "pthread_mutex_lock"); ("rebound.c", "reb_server_mutex_unlock", "pthread_mutex_unlock");
   ("rebound.c", "reb_simulation_integrate_raw", "pthread_mutex_lock"); ("rebound.c", "reb_simulation_integrate_raw", "pthread_mutex_unlock");
   ("server.c", "reb_server_start", "pthread_mutex_lock"); ("server.c", "reb_server_start", "pthread_mutex_unlock");
   ("server.c", "reb_simulation_start_server", "pthread_mutex_init")] /\ mutex_functions_avx512 = mutex_functions_default /\
  (* the helpers and reb_check_exit are called only from inside the modelled programs (integrate_raw, reb_simulation_steps) *)
  mutex_callers =
  [("reb_check_exit", "reb_server_mutex_lock"); ("reb_check_exit", "reb_server_mutex_unlock");
   ("reb_simulation_integrate", "reb_simulation_integrate_raw"); ("reb_simulation_integrate_raw", "reb_check_exit");
   ("reb_simulation_integrate_raw", "reb_server_mutex_lock"); ("reb_simulation_integrate_raw", "reb_server_mutex_unlock");
   ("reb_simulation_steps", "reb_server_mutex_lock"); ("reb_simulation_steps", "reb_server_mutex_unlock")].
Proof. exact gen_mutex_users. Qed.
Print Assumptions C19_mutex_users.

(* ---- Bookkeeping = {status, dt (sign), dt_last_done} (persisted scalars that reb_simulation_integrate overwrites on entry) +
   message buffer.  Besides bookkeeping NO write of either thread is outside the mutex. *)
Theorem C19_core_unlocked_writes :
  unlocked_writes (relabel integ_prologue) = [] /\
  concat (map (fun b => unlocked_writes (relabel b)) integ_loop_heads) = [] /\
  unlocked_writes (relabel integ_loop_body) = [] /\ unlocked_writes (relabel integ_epilogue) = [] /\
  concat (map (fun h => unlocked_writes (relabel (snd h))) handlers) = [].
Proof. exact gen_core_unlocked_writes. Qed.
Print Assumptions C19_core_unlocked_writes.

(* for ALL interleavings of the generated programs (bookkeeping stores not counted as writes): while a request is serialised no step
   and no other simulation write is in progress - a served snapshot equals a step-boundary state except possibly in the bookkeeping fields *)
Theorem C19_served_boundary_modulo_bookkeeping : forall s, reach (core_system integ_prologue) s ->
  gz (tS s) = true -> integ_writing s = false /\ gst (tI s) = false.
Proof. exact gen_core_quiescent. Qed.
Print Assumptions C19_served_boundary_modulo_bookkeeping.

(* the stepping entry point reb_simulation_steps (sim.steps(n), sim.step()) obeys the discipline too *)
Theorem C19_steps_api_served_at_boundary : forall s, reach steps_system s -> serializing s = true -> in_step s = false.
Proof. exact gen_steps_at_boundary. Qed.
Print Assumptions C19_steps_api_served_at_boundary.

(* neither statement is vacuous: the pre-fix shapes (generated blocks with their lock actions removed) fail the discipline check *)
Theorem C19_prefix_shapes_rejected :
  wf true (core_system (strip_sync integ_prologue)) = false /\
  wf false (fun w => if w then mkProg [strip_sync steps_loop_body] (fun _ => [0]) else server_prog (map snd handlers)) = false.
Proof. exact (conj old_prologue_core_not_wf old_steps_not_wf). Qed.
Print Assumptions C19_prefix_shapes_rejected.

(* ---- serving requests never alters the trajectory state (model level): the regenerated write-set of everything a request triggers -
   all handler blocks, and the regions of reb_check_exit / reb_simulation_integrate_raw that are control-dependent on a status value a
   request can set - is {status} (+ the user's own key_callback and the serialisation itself), computed interprocedurally; the functions reached
   without access to the simulation are all external (libc/pthread) functions of Gen/Statics.v; no handler steps *)
Theorem C19_requests_preserve_trajectory_state :
  request_triggered_writes = ["field:status"] /\
  subset request_triggered_writes allowed_request_effects = true /\
  subset request_triggered_calls external_calls_default = true /\
  request_triggered_regions = 3 /\
  request_guard_constants = ["REB_STATUS_PAUSED"; "REB_STATUS_RUNNING"; "REB_STATUS_SCREENSHOT"; "REB_STATUS_SINGLE_STEP"; "REB_STATUS_USER"] /\
  forallb (fun h => subset (snd (fst h)) allowed_handler_effects && subset (snd h) external_calls_default) handler_effects = true /\
  map (fun h => fst (fst h)) handler_effects = map fst handlers /\
  forallb (forallb srv_act_ok) (blocks (gen_system false)) = true.
Proof. exact gen_request_write_set. Qed.
Print Assumptions C19_requests_preserve_trajectory_state.

Theorem C19_server_thread_writes_only_status : forall s x, reach gen_system s ->
  nth_error (cur_block gen_system false (tS s)) (pco (tS s)) = Some x -> srv_act_ok x = true.
Proof. exact gen_server_actions_ok. Qed.
Print Assumptions C19_server_thread_writes_only_status.

(* ---- teardown.  The server thread is stopped (cancelled and JOINED) before any memory of the simulation is released:
   reb_simulation_free_pointers begins with reb_simulation_stop_server (empty use-after-free window over the regenerated sequence),
   reb_simulation_free releases the struct after that, and inside reb_simulation_stop_server cancel < join < free(server_data),
   with no release before the join *)
Theorem C19_teardown_joins_before_free :
  uaf_window true teardown_free_pointers = [] /\
  hd "" teardown_free_pointers = "stop_server" /\
  teardown_free = ["opaque:reb_simulation_free_pointers"; "free:<simulation>"] /\
  index_of "call:pthread_cancel" teardown_stop_server < index_of "call:pthread_join" teardown_stop_server /\
  index_of "call:pthread_join" teardown_stop_server < index_of "free:server_data" teardown_stop_server /\
  index_of "free:server_data" teardown_stop_server < length teardown_stop_server /\
  uaf_window true (filter (fun x => negb (String.eqb x "call:pthread_join")) (map (fun x => if String.eqb x "call:pthread_join" then "stop_server" else x) teardown_stop_server)) = [].
Proof. exact gen_teardown. Qed.
Print Assumptions C19_teardown_joins_before_free.

(* in the run of the freeing thread no action releases memory while the server thread is alive; the pre-9350489 order is rejected *)
Theorem C19_teardown_no_release_while_server_alive :
  (forall x b, In (x, b) (teardown_run true teardown_free_pointers) -> b = false) /\
  uaf_window true ["free:simulationarchive_filename"; "free:display_settings"; "stop_server"; "free:particles"] =
  ["free:simulationarchive_filename"; "free:display_settings"].
Proof. exact (conj gen_teardown_safe old_teardown_window). Qed.
Print Assumptions C19_teardown_no_release_while_server_alive.

(* ---- the serializer behind /simulation (and copy / save / diff) is read-only on the trajectory state: its regenerated cross-file
   effect set is exactly {message buffer (error path), SEI constants recomputed by reb_integrator_init, the BS N-body ODE slot,
   ri_ias15.N_allocated}; the only store in the function itself is the IAS15 compression, whose source text is pinned *)
Theorem C19_serializer_effects :
  serializer_effects =
  ["extptr:messages:free"; "extptr:messages:strcpy"; "field:N_odes"; "field:messages"; "field:ri_ias15.N_allocated";
   "field:ri_sei.OMEGAZ"; "field:ri_sei.lastdt"; "field:ri_sei.sindt"; "field:ri_sei.sindtz"; "field:ri_sei.tandt"; "field:ri_sei.tandtz";
   "via:messages"; "via:odes"] /\
  binary_diff_effects = [] /\
  serializer_unconditional_stores = 0 /\
  serializer_stores = [("r->ri_ias15.N_allocated > 3 * r->N", "r->ri_ias15.N_allocated", "3 * r->N")] /\
  ias15_alloc_stores = [("reb_integrator_ias15_alloc", "N3 > r->ri_ias15.N_allocated", "N3")] /\
  ias15_N3_values = ["3 * r->N"; "3 * r->ri_mercurius.encounter_N"; "3 * r->ri_trace.encounter_N"].
Proof. exact gen_serializer_effects. Qed.
Print Assumptions C19_serializer_effects.

(* that store is ias15_compress (model compared with the library on every run): it never raises N_allocated, never takes it below the
   3*N the next step needs, is idempotent, and leaves the step's "re-allocate and zero the arrays" decision (N3 > N_allocated, for every N3 the
   source can demand: 3*N, or 3*encounter_N <= 3*N under MERCURIUS / TRACE; texts pinned above) unchanged; compressing to the
   number of real particles instead (N - N_var) would flip that decision *)
Theorem C19_ias15_compression_invisible : forall a n,
  ias15_compress a n <= a /\ (3 * n <= a -> 3 * n <= ias15_compress a n) /\
  ias15_compress (ias15_compress a n) n = ias15_compress a n /\
  ias15_step_reallocates (ias15_compress a n) n = ias15_step_reallocates a n /\
  (forall n3, n3 <= 3 * n -> Nat.ltb (ias15_compress a n) n3 = Nat.ltb a n3).
Proof.
  exact (fun a n => conj (ias15_compress_le a n) (conj (ias15_compress_keeps_needed a n)
                    (conj (ias15_compress_idempotent a n) (conj (ias15_compress_invisible a n) (ias15_compress_invisible_n3 a n))))).
Qed.
Print Assumptions C19_ias15_compression_invisible.

(* the invisibility lemma above is for an unchanged particle number: with an allocation left over from a LARGER particle number,
   remove -> serialise -> add would make the next step of the observed run re-allocate and zero, that of the unobserved run not.
   (This was the defect ias15:stale_arrays_after_remove_then_add; the repaired code below never has such a left-over allocation.) *)
Theorem C19_compression_visible_when_N_grows_back : exists a n n', n < n' /\ 3 * n' <= a /\
  ias15_step_reallocates a n' = false /\ ias15_step_reallocates (ias15_compress a n) n' = true.
Proof. exact ias15_compress_visible_when_N_grows_back. Qed.
Print Assumptions C19_compression_visible_when_N_grows_back.

(* repaired code (/repo c5e34ac): add and remove forget the IAS15 arrays (N_allocated := 0) when IAS15 is the integrator, so whenever a
   serialisation can run, N_allocated is 0 (after an add/remove) or 3*N of the CURRENT N (after a step), or 3*encounter_N <= 3*N; on all
   of these the compression is the identity: serialising never changes N_allocated, in any history *)
Theorem C19_ias15_arrays_forgotten_on_particle_change :
  particle_number_writers = ["reb_simulation_add_local_store"; "reb_simulation_remove_all_particles"; "reb_simulation_remove_particle"] /\
  ias15_reset_on_particle_change = ["reb_simulation_add_local"; "reb_simulation_remove_particle"] /\
  ias15_reset_N_allocated_values = ["0"].
Proof. exact gen_ias15_reset_on_particle_change. Qed.
Print Assumptions C19_ias15_arrays_forgotten_on_particle_change.

Theorem C19_compression_identity_on_reachable_allocations :
  (forall a n, a <= 3 * n -> ias15_compress a n = a) /\
  (forall n n', ias15_compress 0 n = 0 /\ ias15_compress (3 * n) n = 3 * n /\
                ias15_step_reallocates (ias15_compress 0 n) n' = ias15_step_reallocates 0 n').
Proof. exact (conj ias15_compress_identity ias15_compress_identity_reset_or_stepped). Qed.
Print Assumptions C19_compression_identity_on_reachable_allocations.

Theorem C19_compress_to_real_particles_is_visible : exists a n nvar,
  let a' := if Nat.ltb (3 * (n - nvar)) a then 3 * (n - nvar) else a in
  ias15_step_reallocates a n = false /\ ias15_step_reallocates a' n = true.
Proof. exact wrong_compress_visible. Qed.
Print Assumptions C19_compress_to_real_particles_is_visible.

(* the listening socket is closed at most once per open on every path (regenerated open / close table of struct reb_server_data.socket):
   one open site, and every close site invalidates the stored descriptor number afterwards; a close that leaves the number in place is rejected *)
Theorem C19_listening_socket_closed_at_most_once :
  listening_socket_open_sites = ["reb_server_start"] /\
  listening_socket_close_sites = [("reb_simulation_stop_server", true)] /\
  closes_at_most_once listening_socket_open_sites listening_socket_close_sites = true /\
  closes_at_most_once ["reb_server_start"] [("reb_server_start", false); ("reb_simulation_stop_server", true)] = false.
Proof.
  exact (conj (proj1 gen_listening_socket_closed_once) (conj (proj1 (proj2 gen_listening_socket_closed_once))
        (conj (proj2 (proj2 gen_listening_socket_closed_once)) extra_close_rejected))).
Qed.
Print Assumptions C19_listening_socket_closed_at_most_once.

(* the request loop closes every connection descriptor exactly once (no fclose(fdopen(fd)) followed by close(fd)) *)
Theorem C19_server_closes_each_descriptor_once : server_double_close_sites = 0.
Proof. exact gen_server_single_close. Qed.
Print Assumptions C19_server_closes_each_descriptor_once.

(* ---- no state shared between simulations (default build): the only object with static storage that any function
   writes is the SIGINT flag; every other non-const object is never written and its address never escapes *)
Theorem C19_no_shared_state :
  map key (written statics_default) = [("rebound.c", "", "reb_sigint")] /\
  map so_writers (written statics_default) = [["reb_sigint_handler"; "reb_simulation_integrate_raw"]].
Proof. exact gen_no_shared_state. Qed.
Print Assumptions C19_no_shared_state.

Theorem C19_nonconst_never_written :
  map key (nonconst_unwritten statics_default) =
  [("integrator_janus.c", "", "s15odr8"); ("integrator_janus.c", "", "s1odr2"); ("integrator_janus.c", "", "s33odr10c");
   ("integrator_janus.c", "", "s5odr4"); ("integrator_janus.c", "", "s9odr6a");
   ("rebound.c", "", "reb_build_str"); ("rebound.c", "", "reb_githash_str"); ("rebound.c", "", "reb_logo");
   ("rebound.c", "", "reb_version_str"); ("server.c", "", "reb_server_header"); ("server.c", "", "reb_server_header_png")].
Proof. exact gen_nonconst_unwritten. Qed.
Print Assumptions C19_nonconst_never_written.

Theorem C19_only_reentrant_calls :
  inter external_calls_default non_reentrant = [] /\ inter external_calls_avx512 non_reentrant = [].
Proof. exact gen_only_reentrant_calls. Qed.
Print Assumptions C19_only_reentrant_calls.

Theorem C19_process_global_calls :
  inter external_calls_default process_global = ["exit"; "signal"; "system"] /\ external_objects_default = ["stderr"; "stdout"].
Proof. exact gen_process_global_calls. Qed.
Print Assumptions C19_process_global_calls.

(* -DAVX512 build: the statement is false; per-simulation constants (_M = stellar mass, gr_prefac...) are file-scope statics *)
Theorem C19_no_shared_state_avx512_refuted :
  map key (written statics_avx512) <> [("rebound.c", "", "reb_sigint")] /\
  exists o, In o statics_avx512 /\ key o = ("integrator_whfast512.c", "", "_M") /\ so_const o = false /\
            so_writers o = ["recalculate_constants"] /\
            exists o2, In o2 statics_avx512 /\ key o2 = ("integrator_whfast512.c", "", "gr_prefac") /\ so_const o2 = false /\
                       so_writers o2 = ["recalculate_constants"].
Proof. exact gen_no_shared_state_avx512_refuted. Qed.
Print Assumptions C19_no_shared_state_avx512_refuted.

(* ---- degenerate corners, stated explicitly (no theorem above excludes them by hypothesis: sizes are nat, lists may be empty).
   N = 0: any allocation compresses to 0 and a step never re-allocates; nothing allocated stays nothing and the first step with particles
   allocates; a server without handlers and an integrator with empty blocks obey the discipline; the initial state is quiet; the empty
   schedule changes nothing (run_sched [] = identity, by computation in C19_disjoint_commute with sch = []).
   What the CODE does in corners the model does not describe is exercised by the searcher: empty simulation (integrate reports
   NoParticles), star only, one planet, zero masses, coincident particles, NaN / inf / 1e150 / subnormal / -0.0 coordinates, t != 0,
   backward integration, tmax = t, e = 0, e -> 1, inc = 0 / pi, zero radii with collisions, equal hashes, the same object after an
   Escape error; request-shape edges (zero-length / unannounced / negative-length uploads, unknown paths and methods, over-long lines,
   empty requests, clients that disconnect before the end of their headers). *)
Theorem C19_degenerate_corners :
  ((forall a, ias15_compress a 0 = 0) /\ (forall n, ias15_compress 0 n = 0) /\
   (forall a, ias15_step_reallocates a 0 = false) /\ (forall n, ias15_step_reallocates 0 (S n) = true)) /\
  (wf false (system [] [[]] [] [] []) = true /\ wf true (system [] [[]] [] [] []) = true /\
   serializing init = false /\ in_step init = false /\
   (forall s, reach (system [] [[]] [] [] []) s -> serializing s = true -> in_step s = false)).
Proof. exact (conj ias15_corners protocol_corners). Qed.
Print Assumptions C19_degenerate_corners.

(* ---- independent simulations: if a step of simulation i maps (its own component, globals) to a new component and
   never writes the globals, then ANY interleaving of the steps of any number of simulations gives, for every
   simulation k, exactly the result of running k's steps alone *)
Theorem C19_disjoint_commute : forall (L G : Type) (step : nat -> L -> G -> L * G),
  (forall i x g, snd (step i x g) = g) ->
  forall sch sg g, snd (run_sched L G step sch sg g) = g /\
                   forall k, fst (run_sched L G step sch sg g) k = seq_result L G step sch sg g k.
Proof. exact run_sched_spec. Qed.
Print Assumptions C19_disjoint_commute.

Theorem C19_written_global_breaks_commute :
  fst (run_sched nat nat toy_step [0; 1; 0; 1] (fun _ => 0) 1) 0 <> fst (run_sched nat nat toy_step [0; 0; 1; 1] (fun _ => 0) 1) 0.
Proof. exact toy_shared_state_breaks_commute. Qed.
Print Assumptions C19_written_global_breaks_commute.

(* Non-vacuity: the generated programs contain lock, unlock, wait, the step and the serialisation; the strict hypothesis
   of C19_served_quiescent_partial is inhabited by the repaired skeleton and NOT by the generated one. *)
Example C19_hypotheses_inhabited :
  has ALock integ_loop_body && has AUnlock integ_loop_body && has AStepBegin integ_loop_body && has AStepEnd integ_loop_body &&
  has AWait integ_loop_body &&
  has ALock simulation_handler && has AUnlock simulation_handler && has ASerBegin simulation_handler && has ASerEnd simulation_handler
  = true /\ wf true repaired_system = true /\ wf true gen_system = false.
Proof. exact (conj gen_nonvacuous (conj repaired_wf_strict gen_not_wf_strict)). Qed.
