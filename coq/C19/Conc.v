(* C19 — model: interleaving semantics of the integrator thread and the web-server thread over the shared
   synchronisation store of struct reb_server_data (mutex, need_copy, mutex_locked_by_integrate).

   A thread program is a list of BLOCKS (straight-line lists of protocol actions) with a successor relation between
   blocks.  The integrator thread (generated from reb_simulation_integrate_raw):
        block 0 prologue -> heads ; block 1 loop body -> heads ; block 2 block after the loop -> 0 (next integrate call) ;
        blocks 3.. = one block per control-flow path through the loop condition reb_check_exit -> 1 | 2
   The server thread (generated from reb_server_start): one block per request handler, every handler may be followed by
   any handler (any number of requests, any kind, at any time).
   A step of the system = one thread executes one action (or jumps to a successor block); the scheduler is arbitrary.
   Ghost flags per thread: stepping (inside reb_simulation_step), writing (inside another call/assignment that can write
   the simulation), serializing (inside reb_simulation_save_to_stream).  Executable definitions only. *)
From Coq Require Import String List Bool Arith.
Import ListNotations.

Inductive act :=
| AWait                       (* while (need_copy == 1) usleep(..)   : enabled when need_copy = 0 *)
| ALock | AUnlock             (* pthread_mutex_lock / unlock on server_data->mutex *)
| ASetFlag (b : bool)         (* mutex_locked_by_integrate = b *)
| ASetNeedCopy (b : bool)     (* need_copy = b *)
| AStepBegin | AStepEnd       (* reb_simulation_step(r) is not atomic *)
| ASerBegin | ASerEnd         (* reb_simulation_save_to_stream(r,..) is not atomic *)
| AWriteBegin (l : string) | AWriteEnd (l : string)   (* any other access that may write the simulation *)
| ALocal (l : string).        (* no access that can write the simulation *)

(* ---------------------------------------------------------------- sequential abstract interpretation of one block *)
Record abs := mkAbs { ah : bool; (* holds the mutex *) ast : bool; (* stepping *) aw : bool; (* writing *) az : bool (* serializing *) }.
Definition a0 := mkAbs false false false false.
Definition quiet (a : abs) := negb (ast a) && negb (aw a) && negb (az a).

(* strict = true additionally demands that every simulation write happens with the mutex held *)
Definition tr (strict : bool) (x : act) (a : abs) : option abs :=
  match x with
  | ALock => if ah a then None else Some (mkAbs true (ast a) (aw a) (az a))
  | AUnlock => if ah a && quiet a then Some (mkAbs false false false false) else None
  | AStepBegin => if ah a && quiet a then Some (mkAbs true true false false) else None
  | AStepEnd => if ast a then Some (mkAbs (ah a) false (aw a) (az a)) else None
  | ASerBegin => if ah a && quiet a then Some (mkAbs true false false true) else None
  | ASerEnd => if az a then Some (mkAbs (ah a) (ast a) (aw a) false) else None
  | AWriteBegin _ => if quiet a && implb strict (ah a) then Some (mkAbs (ah a) false true false) else None
  | AWriteEnd _ => if aw a then Some (mkAbs (ah a) (ast a) false (az a)) else None
  | AWait | ASetFlag _ | ASetNeedCopy _ | ALocal _ => Some a
  end.

(* abstract state before position n of block p (None: a check failed or n is beyond the block) *)
Fixpoint run (strict : bool) (p : list act) (n : nat) (a : abs) {struct n} : option abs :=
  match n with
  | O => Some a
  | S n' => match p with
            | [] => None
            | x :: p' => match tr strict x a with Some a' => run strict p' n' a' | None => None end
            end
  end.

Definition is_a0 (a : abs) := negb (ah a) && quiet a.
Definition wf_block (strict : bool) (b : list act) : bool :=
  match run strict b (length b) a0 with Some a => is_a0 a | None => false end.

(* stepping / serializing imply holding; with strict also writing implies holding *)
Definition good (strict : bool) (a : abs) : bool :=
  implb (ast a) (ah a) && implb (az a) (ah a) && implb (strict && aw a) (ah a).

(* ---------------------------------------------------------------- programs and the concrete interleaving semantics *)
Record prog := mkProg { blocks : list (list act); succ : nat -> list nat }.

Record tstate := mkT { pcb : nat; pco : nat; gst : bool; gw : bool; gz : bool }.
(* holder: None = free, Some true = integrator thread, Some false = server thread *)
Record state := mkS { holder : option bool; need_copy : bool; flag : bool; tI : tstate; tS : tstate }.

Definition thr (s : state) (w : bool) : tstate := if w then tI s else tS s.
Definition set_thr (s : state) (w : bool) (t : tstate) : state :=
  if w then mkS (holder s) (need_copy s) (flag s) t (tS s) else mkS (holder s) (need_copy s) (flag s) (tI s) t.

Definition init : state := mkS None false false (mkT 0 0 false false false) (mkT 0 0 false false false).

Definition enabled (s : state) (a : act) : bool :=
  match a with
  | AWait => negb (need_copy s)
  | ALock => match holder s with None => true | Some _ => false end
  | _ => true
  end.

Definition sh_upd (w : bool) (a : act) (s : state) : state :=
  match a with
  | ALock => mkS (Some w) (need_copy s) (flag s) (tI s) (tS s)
  | AUnlock => mkS None (need_copy s) (flag s) (tI s) (tS s)     (* permissive: releases whoever holds *)
  | ASetFlag b => mkS (holder s) (need_copy s) b (tI s) (tS s)
  | ASetNeedCopy b => mkS (holder s) b (flag s) (tI s) (tS s)
  | _ => s
  end.

Definition fl_upd (a : act) (t : tstate) : tstate :=
  match a with
  | AStepBegin => mkT (pcb t) (S (pco t)) true (gw t) (gz t)
  | AStepEnd => mkT (pcb t) (S (pco t)) false (gw t) (gz t)
  | ASerBegin => mkT (pcb t) (S (pco t)) (gst t) (gw t) true
  | ASerEnd => mkT (pcb t) (S (pco t)) (gst t) (gw t) false
  | AWriteBegin _ => mkT (pcb t) (S (pco t)) (gst t) true (gz t)
  | AWriteEnd _ => mkT (pcb t) (S (pco t)) (gst t) false (gz t)
  | AUnlock => mkT (pcb t) (S (pco t)) (gst t) (gw t) (gz t)
  | _ => mkT (pcb t) (S (pco t)) (gst t) (gw t) (gz t)
  end.

Definition cur_block (P : bool -> prog) (w : bool) (t : tstate) : list act := nth (pcb t) (blocks (P w)) [].

(* thread w moves; j = the successor block chosen when w stands at the end of its block *)
Definition exec (P : bool -> prog) (s : state) (w : bool) (j : nat) : option state :=
  let t := thr s w in
  match nth_error (cur_block P w t) (pco t) with
  | None => if existsb (Nat.eqb j) (succ (P w) (pcb t))
            then Some (set_thr s w (mkT j 0 (gst t) (gw t) (gz t))) else None
  | Some a => if enabled s a then Some (set_thr (sh_upd w a s) w (fl_upd a t)) else None
  end.

Inductive reach (P : bool -> prog) : state -> Prop :=
| reach_init : reach P init
| reach_step : forall s w j s', reach P s -> exec P s w j = Some s' -> reach P s'.

(* executable schedules (for witnesses) *)
Fixpoint runs (P : bool -> prog) (sch : list (bool * nat)) (s : state) : option state :=
  match sch with
  | [] => Some s
  | (w, j) :: r => match exec P s w j with Some s' => runs P r s' | None => None end
  end.

Definition wf (strict : bool) (P : bool -> prog) : bool :=
  forallb (wf_block strict) (blocks (P true)) && forallb (wf_block strict) (blocks (P false)).

(* observations *)
Definition in_step (s : state) : bool := gst (tI s) || gst (tS s).
Definition serializing (s : state) : bool := gz (tS s) || gz (tI s).
Definition integ_writing (s : state) : bool := gw (tI s).

(* labels of the simulation writes a block performs without holding the mutex *)
Fixpoint unlocked_writes_from (b : list act) (a : abs) : list string :=
  match b with
  | [] => []
  | x :: r => (match x with AWriteBegin l => if ah a then [] else [l] | _ => [] end) ++
              match tr false x a with Some a' => unlocked_writes_from r a' | None => ["<ill-formed>"%string] end
  end.
Definition unlocked_writes (b : list act) := unlocked_writes_from b a0.

(* the two thread programs assembled from the generated lists *)
Definition integ_prog (pro : list act) (heads : list (list act)) (body epi : list act) : prog :=
  mkProg ([pro; body; epi] ++ heads)
         (fun b => match b with
                   | 0 => seq 3 (length heads)      (* prologue -> any path through the loop condition *)
                   | 1 => seq 3 (length heads)      (* loop body -> loop condition *)
                   | 2 => [0]                       (* after the loop -> next call of reb_simulation_integrate *)
                   | _ => [1; 2]                    (* loop condition -> body | exit *)
                   end).
Definition server_prog (hs : list (list act)) : prog :=
  mkProg ([] :: hs) (fun _ => seq 0 (S (length hs))).     (* block 0 = idle; any handler after any handler *)
Definition system (pro : list act) (heads : list (list act)) (body epi : list act) (hs : list (list act)) (w : bool) : prog :=
  if w then integ_prog pro heads body epi else server_prog hs.

(* ---------------------------------------------------------------- the one audited store of the serializer *)
(* reb_simulation_save_to_stream:  if (r->ri_ias15.N_allocated > 3*r->N){ r->ri_ias15.N_allocated = 3*r->N; }
   (N_allocated: the length the IAS15 work arrays are written with; r->N counts variational particles too) *)
Definition ias15_compress (n_allocated n : nat) : nat := if Nat.ltb (3 * n) n_allocated then 3 * n else n_allocated.
(* reb_integrator_ias15_alloc re-allocates AND ZEROES the predictor / compensated-summation arrays iff 3*N > N_allocated *)
Definition ias15_step_reallocates (n_allocated n : nat) : bool := Nat.ltb n_allocated (3 * n).

(* ---------------------------------------------------------------- independent simulations (abstract) *)
Section Commute.
  Variable L G : Type.
  Variable step : nat -> L -> G -> L * G.     (* one step of simulation i on its own component, with the process globals *)
  Definition upd (sg : nat -> L) (i : nat) (x : L) : nat -> L := fun k => if Nat.eqb k i then x else sg k.
  Fixpoint run_sched (sch : list nat) (sg : nat -> L) (g : G) : (nat -> L) * G :=
    match sch with
    | [] => (sg, g)
    | i :: r => let '(x, g') := step i (sg i) g in run_sched r (upd sg i x) g'
    end.
  Definition seq_result (sch : list nat) (sg : nat -> L) (g : G) (k : nat) : L :=
    Nat.iter (count_occ Nat.eq_dec sch k) (fun x => fst (step k x g)) (sg k).
End Commute.
