(* C19 — proofs: the lock discipline invariant for ALL interleavings (induction over reachability, unbounded),
   and commutation of independent simulations. *)
From Coq Require Import String List Bool Arith Lia.
From RV Require Import C19.Conc.
Import ListNotations.

(* ---------------------------------------------------------------- run *)
Lemma run_S : forall strict p n a,
  run strict p (S n) a =
  match run strict p n a with
  | Some b => match nth_error p n with Some x => tr strict x b | None => None end
  | None => None
  end.
Proof.
  induction p as [|x p IH]; intros n a.
  - destruct n; reflexivity.
  - destruct n as [|n].
    + cbn. destruct (tr strict x a); reflexivity.
    + cbn [run nth_error]. destruct (tr strict x a) as [a'|]; [apply IH | reflexivity].
Qed.

Lemma run_len : forall strict p n a b, run strict p n a = Some b -> n <= length p.
Proof.
  induction p as [|x p IH]; intros n a b H; destruct n; cbn in *; try lia; try discriminate.
  destruct (tr strict x a) as [a'|]; [|discriminate]. apply IH in H. lia.
Qed.

Lemma run_prefix : forall strict p n m a b, run strict p n a = Some b -> m <= n -> exists b', run strict p m a = Some b'.
Proof.
  induction n as [|n IH]; intros m a b H Hm.
  - assert (m = 0) by lia. subst. eauto.
  - destruct (Nat.eq_dec m (S n)) as [->|]; [eauto|].
    rewrite run_S in H. destruct (run strict p n a) as [b0|] eqn:E; [|discriminate].
    eapply IH; [exact E | lia].
Qed.

Lemma tr_good : forall strict x a b, good strict a = true -> tr strict x a = Some b -> good strict b = true.
Proof.
  intros strict x [h s w z] b G H.
  destruct x; destruct strict, h, s, w, z; cbn in *; try discriminate; inversion H; subst; reflexivity.
Qed.

Lemma run_good : forall strict p n b, run strict p n a0 = Some b -> good strict b = true.
Proof.
  induction n as [|n IH]; intros b H.
  - cbn in H. inversion H. destruct strict; reflexivity.
  - rewrite run_S in H. destruct (run strict p n a0) as [b0|]; [|discriminate].
    destruct (nth_error p n); [|discriminate]. eapply tr_good; [apply IH; reflexivity | exact H].
Qed.

Lemma wf_block_nil : forall strict, wf_block strict [] = true.
Proof. reflexivity. Qed.

Lemma wf_cur_block : forall strict P w t, wf strict P = true -> wf_block strict (cur_block P w t) = true.
Proof.
  intros strict P w t H. unfold wf in H. apply andb_true_iff in H. destruct H as [H1 H2].
  unfold cur_block.
  assert (Hb : forallb (wf_block strict) (blocks (P w)) = true) by (destruct w; assumption).
  rewrite forallb_forall in Hb.
  destruct (Nat.lt_ge_cases (pcb t) (length (blocks (P w)))) as [Hl|Hl].
  - apply Hb. apply nth_In. exact Hl.
  - rewrite nth_overflow by exact Hl. apply wf_block_nil.
Qed.

(* inside a well-formed block every executed action passes its check *)
Lemma wf_block_step : forall strict b n a x, wf_block strict b = true ->
  run strict b n a0 = Some a -> nth_error b n = Some x ->
  exists a', tr strict x a = Some a' /\ run strict b (S n) a0 = Some a'.
Proof.
  intros strict b n a x W R N. unfold wf_block in W.
  destruct (run strict b (length b) a0) as [e|] eqn:E; [|discriminate].
  assert (Hn : S n <= length b) by (apply nth_error_Some; congruence).
  destruct (run_prefix _ _ _ (S n) _ _ E Hn) as [a' Ha'].
  exists a'. split; [|exact Ha']. rewrite run_S, R, N in Ha'. exact Ha'.
Qed.

Lemma wf_block_end : forall strict b n a, wf_block strict b = true ->
  run strict b n a0 = Some a -> nth_error b n = None -> is_a0 a = true.
Proof.
  intros strict b n a W R N. apply nth_error_None in N. pose proof (run_len _ _ _ _ _ R) as L.
  assert (n = length b) by lia. subst n. unfold wf_block in W. rewrite R in W. exact W.
Qed.

(* ---------------------------------------------------------------- state plumbing *)
Lemma thr_set_same : forall s w t, thr (set_thr s w t) w = t.
Proof. intros s [|] t; reflexivity. Qed.
Lemma thr_set_other : forall s w t, thr (set_thr s w t) (negb w) = thr s (negb w).
Proof. intros s [|] t; reflexivity. Qed.
Lemma holder_set : forall s w t, holder (set_thr s w t) = holder s.
Proof. intros s [|] t; reflexivity. Qed.
Lemma thr_sh_upd : forall w' x s w, thr (sh_upd w' x s) w = thr s w.
Proof. intros w' x s w. destruct x, w; reflexivity. Qed.

(* ---------------------------------------------------------------- the invariant *)
Definition TInv (strict : bool) (P : bool -> prog) (s : state) (w : bool) : Prop :=
  exists a, run strict (cur_block P w (thr s w)) (pco (thr s w)) a0 = Some a /\
            ast a = gst (thr s w) /\ aw a = gw (thr s w) /\ az a = gz (thr s w) /\
            (ah a = true <-> holder s = Some w).

Definition Inv strict P s := TInv strict P s true /\ TInv strict P s false.

Lemma Inv_init : forall strict P, Inv strict P init.
Proof.
  intros. split; exists a0; cbn; repeat split; intros; discriminate.
Qed.

(* effect of one action on the acting thread's abstract state and on the lock relation of both threads *)
Lemma act_effect : forall strict x a a' s w t,
  tr strict x a = Some a' -> enabled s x = true ->
  ast a = gst t -> aw a = gw t -> az a = gz t -> (ah a = true <-> holder s = Some w) ->
  ast a' = gst (fl_upd x t) /\ aw a' = gw (fl_upd x t) /\ az a' = gz (fl_upd x t) /\
  pcb (fl_upd x t) = pcb t /\ pco (fl_upd x t) = S (pco t) /\
  (ah a' = true <-> holder (sh_upd w x s) = Some w) /\
  (forall h2 : bool, (h2 = true <-> holder s = Some (negb w)) -> (h2 = true <-> holder (sh_upd w x s) = Some (negb w))).
Proof.
  intros strict x [h st wr z] a' s w [b o g1 g2 g3] T E H1 H2 H3 [Hh1 Hh2]. cbn in H1, H2, H3. subst g1 g2 g3.
  destruct s as [hol nc fl ti ts]. cbn in Hh1, Hh2.
  destruct x; cbn in T, E |- *;
    destruct h, st, wr, z; cbn in T; try discriminate;
    try (destruct strict; cbn in T; try discriminate);
    inversion T; subst a'; cbn;
    repeat split; intros; try reflexivity; try discriminate; try tauto;
    try (destruct hol as [[|]|]; destruct w; cbn in *; try discriminate; intuition congruence).
Qed.

Lemma Inv_step : forall strict P s w j s', wf strict P = true ->
  Inv strict P s -> exec P s w j = Some s' -> Inv strict P s'.
Proof.
  intros strict P s w j s' W I X.
  assert (Iw : TInv strict P s w) by (destruct I; destruct w; assumption).
  assert (Io : TInv strict P s (negb w)) by (destruct I; destruct w; assumption).
  clear I. unfold exec in X.
  destruct Iw as [a [R [F1 [F2 [F3 FH]]]]].
  destruct Io as [a2 [R2 [G1 [G2 [G3 GH]]]]].
  pose proof (wf_cur_block strict P w (thr s w) W) as WB.
  assert (Goal2 : TInv strict P s' w /\ TInv strict P s' (negb w)).
  { destruct (nth_error (cur_block P w (thr s w)) (pco (thr s w))) as [x|] eqn:N.
    - destruct (enabled s x) eqn:E; [|discriminate]. inversion X; subst s'; clear X.
      destruct (wf_block_step _ _ _ _ _ WB R N) as [a' [T R']].
      destruct (act_effect strict x a a' s w (thr s w) T E F1 F2 F3 FH) as [E1 [E2 [E3 [E4 [E5 [E6 E7]]]]]].
      split.
      + exists a'. rewrite thr_set_same, holder_set. unfold cur_block in *. rewrite E4, E5.
        repeat split; try assumption; apply E6.
      + exists a2. rewrite thr_set_other, holder_set, thr_sh_upd.
        repeat split; try assumption; apply (E7 (ah a2)); apply GH.
    - destruct (existsb (Nat.eqb j) (succ (P w) (pcb (thr s w)))); [|discriminate].
      inversion X; subst s'; clear X.
      pose proof (wf_block_end _ _ _ _ WB R N) as Z.
      destruct a as [h st wr z]. unfold is_a0, quiet in Z. cbn in *.
      destruct h, st, wr, z; cbn in Z; try discriminate.
      split.
      + exists a0. rewrite thr_set_same, holder_set. cbn.
        repeat split; try assumption; try (symmetry; assumption); try (intros; discriminate).
        intro Hs. apply FH in Hs. discriminate.
      + exists a2. rewrite thr_set_other, holder_set. repeat split; try assumption; apply GH. }
  destruct Goal2. destruct w; split; assumption.
Qed.

Theorem Inv_reach : forall strict P s, wf strict P = true -> reach P s -> Inv strict P s.
Proof.
  intros strict P s W R. induction R.
  - apply Inv_init.
  - eapply Inv_step; eauto.
Qed.

(* what the invariant gives for one thread: its flags are "good" w.r.t. the lock *)
Lemma TInv_flags : forall strict P s w, TInv strict P s w ->
  (gst (thr s w) = true -> holder s = Some w) /\
  (gz (thr s w) = true -> holder s = Some w) /\
  (strict = true -> gw (thr s w) = true -> holder s = Some w).
Proof.
  intros strict P s w [a [R [F1 [F2 [F3 FH]]]]].
  pose proof (run_good _ _ _ _ R) as G. unfold good in G. rewrite F1, F2, F3 in G.
  destruct FH as [FH _].
  repeat split; intros; apply FH; (destruct (ah a); [reflexivity|exfalso]).
  - rewrite H in G. cbn in G. discriminate.
  - rewrite H in G. destruct (gst (thr s w)); cbn in G; discriminate.
  - subst strict. rewrite H0 in G. destruct (gst (thr s w)), (gz (thr s w)); cbn in G; discriminate.
Qed.

(* mutual exclusion of stepping / serializing sections of the two threads *)
Theorem excl_general : forall strict P s, wf strict P = true -> reach P s ->
  forall w, (gst (thr s w) = true \/ gz (thr s w) = true \/ (strict = true /\ gw (thr s w) = true)) ->
  gst (thr s (negb w)) = false /\ gz (thr s (negb w)) = false /\ (strict = true -> gw (thr s (negb w)) = false).
Proof.
  intros strict P s W R w H.
  destruct (Inv_reach strict P s W R) as [It If].
  assert (Iw : TInv strict P s w) by (destruct w; assumption).
  assert (Io : TInv strict P s (negb w)) by (destruct w; assumption).
  destruct (TInv_flags _ _ _ _ Iw) as [A1 [A2 A3]].
  destruct (TInv_flags _ _ _ _ Io) as [B1 [B2 B3]].
  assert (Hw : holder s = Some w) by (destruct H as [H|[H|[H1 H2]]]; auto).
  repeat split.
  - destruct (gst (thr s (negb w))) eqn:E; [|reflexivity]. specialize (B1 eq_refl). rewrite Hw in B1. destruct w; discriminate.
  - destruct (gz (thr s (negb w))) eqn:E; [|reflexivity]. specialize (B2 eq_refl). rewrite Hw in B2. destruct w; discriminate.
  - intro Hs. destruct (gw (thr s (negb w))) eqn:E; [|reflexivity]. specialize (B3 Hs eq_refl). rewrite Hw in B3. destruct w; discriminate.
Qed.

Theorem served_at_boundary_gen : forall P s, wf false P = true -> reach P s ->
  serializing s = true -> in_step s = false.
Proof.
  intros P s W R H. unfold serializing in H. unfold in_step.
  apply orb_true_iff in H. destruct H as [H|H].
  - destruct (excl_general false P s W R false) as [A [B _]]; [cbn; tauto|]. cbn in A, B.
    destruct (Inv_reach false P s W R) as [It If].
    destruct (TInv_flags _ _ _ _ If) as [_ [A2 _]]. cbn in A2.
    rewrite A. cbn.
    destruct (gst (tS s)) eqn:E; [|reflexivity].
    destruct (excl_general false P s W R false) as [_ [_ _]]; [cbn; tauto|].
    (* the server thread cannot be stepping and serializing at once: both flags come from one abstract state *)
    destruct If as [a [Ra [F1 [F2 [F3 FH]]]]]. cbn in F1, F3.
    exfalso. clear - Ra F1 F3 E H.
    assert (Q : forall strict p n b, run strict p n a0 = Some b -> ast b && az b = false).
    { clear. induction n as [|n IH]; intros b Hb.
      - inversion Hb. reflexivity.
      - rewrite run_S in Hb. destruct (run strict p n a0) as [b0|]; [|discriminate].
        specialize (IH b0 eq_refl). destruct (nth_error p n) as [x|]; [|discriminate].
        destruct b0 as [h st wr z]. cbn in IH.
        destruct x; destruct h, st, wr, z; cbn in *; try discriminate;
          try (destruct strict; cbn in Hb; try discriminate); inversion Hb; reflexivity. }
    specialize (Q _ _ _ _ Ra). rewrite F1, F3, E, H in Q. discriminate.
  - destruct (excl_general false P s W R true) as [A [B _]]; [cbn; tauto|]. cbn in A, B.
    rewrite A, orb_false_r.
    destruct (gst (tI s)) eqn:E; [|reflexivity].
    destruct (Inv_reach false P s W R) as [[a [Ra [F1 [F2 [F3 FH]]]]] _]. cbn in F1, F3.
    exfalso.
    assert (Q : forall strict p n b, run strict p n a0 = Some b -> ast b && az b = false).
    { clear. induction n as [|n IH]; intros b Hb.
      - inversion Hb. reflexivity.
      - rewrite run_S in Hb. destruct (run strict p n a0) as [b0|]; [|discriminate].
        specialize (IH b0 eq_refl). destruct (nth_error p n) as [x|]; [|discriminate].
        destruct b0 as [h st wr z]. cbn in IH.
        destruct x; destruct h, st, wr, z; cbn in *; try discriminate;
          try (destruct strict; cbn in Hb; try discriminate); inversion Hb; reflexivity. }
    specialize (Q _ _ _ _ Ra). rewrite F1, F3, E, H in Q. discriminate.
Qed.

Theorem served_quiescent_gen : forall P s, wf true P = true -> reach P s ->
  gz (tS s) = true -> integ_writing s = false /\ gst (tI s) = false.
Proof.
  intros P s W R H.
  destruct (excl_general true P s W R false) as [A [B C]]; [cbn; tauto|]. cbn in A, B, C.
  split; [apply C; reflexivity | exact A].
Qed.

Lemma runs_reach : forall P sch s s', reach P s -> runs P sch s = Some s' -> reach P s'.
Proof.
  induction sch as [|[w j] r IH]; intros s s' R H; cbn in H.
  - inversion H; subst; exact R.
  - destruct (exec P s w j) as [s1|] eqn:E; [|discriminate].
    eapply IH; [|exact H]. eapply reach_step; eauto.
Qed.

(* ---------------------------------------------------------------- the serializer's IAS15 compression is invisible to the next step *)
Lemma ias15_compress_le : forall a n, ias15_compress a n <= a.
Proof. intros a n. unfold ias15_compress. destruct (Nat.ltb (3 * n) a) eqn:E; [apply Nat.ltb_lt in E; lia | lia]. Qed.
Lemma ias15_compress_keeps_needed : forall a n, 3 * n <= a -> 3 * n <= ias15_compress a n.
Proof. intros a n H. unfold ias15_compress. destruct (Nat.ltb (3 * n) a); lia. Qed.
Lemma ias15_compress_idempotent : forall a n, ias15_compress (ias15_compress a n) n = ias15_compress a n.
Proof.
  intros a n. unfold ias15_compress. destruct (Nat.ltb (3 * n) a) eqn:E.
  - rewrite Nat.ltb_irrefl. reflexivity.
  - rewrite E. reflexivity.
Qed.
(* whether the next IAS15 step re-allocates (and zeroes its arrays) is the same with and without a serialisation in between *)
Lemma ias15_compress_invisible : forall a n, ias15_step_reallocates (ias15_compress a n) n = ias15_step_reallocates a n.
Proof.
  intros a n. unfold ias15_step_reallocates, ias15_compress.
  destruct (Nat.ltb (3 * n) a) eqn:E.
  - rewrite Nat.ltb_irrefl. apply Nat.ltb_lt in E. symmetry. apply Nat.ltb_ge. lia.
  - reflexivity.
Qed.
(* the same for any demanded length n3 <= 3*N (MERCURIUS / TRACE close encounters integrate encounter_N <= N particles with IAS15) *)
Lemma ias15_compress_invisible_n3 : forall a n n3, n3 <= 3 * n -> Nat.ltb (ias15_compress a n) n3 = Nat.ltb a n3.
Proof.
  intros a n n3 H. unfold ias15_compress. destruct (Nat.ltb (3 * n) a) eqn:E; [|reflexivity].
  apply Nat.ltb_lt in E.
  assert (H1 : Nat.ltb (3 * n) n3 = false) by (apply Nat.ltb_ge; lia).
  assert (H2 : Nat.ltb a n3 = false) by (apply Nat.ltb_ge; lia).
  rewrite H1, H2. reflexivity.
Qed.
(* on every allocation length that does not exceed what the current particle number demands the compression is the identity: in
   particular on 0 (after reb_integrator_ias15_reset) and on 3*N (after a step with the current N) *)
Lemma ias15_compress_identity : forall a n, a <= 3 * n -> ias15_compress a n = a.
Proof. intros a n H. unfold ias15_compress. assert (E : Nat.ltb (3 * n) a = false) by (apply Nat.ltb_ge; exact H). rewrite E. reflexivity. Qed.
Lemma ias15_compress_identity_reset_or_stepped : forall n n', ias15_compress 0 n = 0 /\ ias15_compress (3 * n) n = 3 * n /\
  ias15_step_reallocates (ias15_compress 0 n) n' = ias15_step_reallocates 0 n'.
Proof.
  intros n n'. split; [apply ias15_compress_identity; lia|]. split; [apply ias15_compress_identity; lia|].
  rewrite ias15_compress_identity by lia. reflexivity.
Qed.

(* degenerate corners, stated explicitly: no particles (N = 0) compresses any allocation to 0 and a step with N = 0 never re-allocates;
   nothing allocated (a = 0) stays 0; the empty schedule leaves every simulation and the globals untouched *)
Lemma ias15_corners : (forall a, ias15_compress a 0 = 0) /\ (forall n, ias15_compress 0 n = 0) /\
  (forall a, ias15_step_reallocates a 0 = false) /\ (forall n, ias15_step_reallocates 0 (S n) = true).
Proof.
  split; [|split; [|split]]; intros.
  - unfold ias15_compress. cbn. destruct a; reflexivity.
  - apply ias15_compress_identity. lia.
  - unfold ias15_step_reallocates. cbn. reflexivity.
  - unfold ias15_step_reallocates. apply Nat.ltb_lt. lia.
Qed.

(* LIMIT of the invisibility: it is about the SAME particle number.  If N grows back after the serialisation (remove a particle,
   serialise, add a particle) the compression does flip the next step's decision: unobserved run keeps the old arrays, observed one zeroes them *)
Lemma ias15_compress_visible_when_N_grows_back : exists a n n', n < n' /\ 3 * n' <= a /\
  ias15_step_reallocates a n' = false /\ ias15_step_reallocates (ias15_compress a n) n' = true.
Proof. exists 12, 3, 4. vm_compute. repeat split; repeat constructor. Qed.
(* ... whereas compressing to the number of REAL particles (the N / N_real mix-up) makes the next step re-allocate *)
Lemma wrong_compress_visible : exists a n nvar,
  let a' := if Nat.ltb (3 * (n - nvar)) a then 3 * (n - nvar) else a in
  ias15_step_reallocates a n = false /\ ias15_step_reallocates a' n = true.
Proof. exists 12, 4, 2. vm_compute. split; reflexivity. Qed.

(* ---------------------------------------------------------------- independent simulations commute *)
Lemma iter_succ_r : forall (A : Type) (f : A -> A) n x, Nat.iter (S n) f x = Nat.iter n f (f x).
Proof. induction n as [|n IH]; intro x; [reflexivity|]. change (f (Nat.iter (S n) f x) = f (Nat.iter n f (f x))). f_equal. apply IH. Qed.

Section CommuteProofs.
  Variable L G : Type.
  Variable step : nat -> L -> G -> L * G.
  Hypothesis globals_not_written : forall i x g, snd (step i x g) = g.

  Lemma run_sched_spec : forall sch sg g,
    snd (run_sched L G step sch sg g) = g /\
    forall k, fst (run_sched L G step sch sg g) k = seq_result L G step sch sg g k.
  Proof.
    induction sch as [|i r IH]; intros sg g.
    - split; [reflexivity|]. intro k. reflexivity.
    - cbn [run_sched]. pose proof (globals_not_written i (sg i) g) as Hg.
      destruct (step i (sg i) g) as [x g'] eqn:E. cbn in Hg. subst g'.
      destruct (IH (upd L sg i x) g) as [I1 I2]. split; [exact I1|].
      intro k. rewrite I2. unfold seq_result. cbn [count_occ].
      destruct (Nat.eq_dec i k) as [->|Hne].
      + unfold upd at 1. rewrite Nat.eqb_refl. rewrite iter_succ_r. rewrite E. reflexivity.
      + unfold upd at 1. assert (Hk : Nat.eqb k i = false) by (apply Nat.eqb_neq; congruence).
        rewrite Hk. reflexivity.
  Qed.
End CommuteProofs.
