(* C19 — lemmas about the GENERATED data (Gen/LockProto.v, Gen/Statics.v): the regeneration tie.
   Every lemma here is closed by computation over the generated lists or by instantiating a general theorem of Proofs.v
   with them; if the source changes shape so that a statement becomes false, this file no longer compiles. *)
From Coq Require Import String List Bool Arith Lia.
From RV Require Import C19.Conc C19.Proofs Gen.LockProto Gen.Statics.
Import ListNotations.
Open Scope string_scope.

(* ---------------------------------------------------------------- the lock protocol *)
Definition gen_system : bool -> prog :=
  system integ_prologue integ_loop_heads integ_loop_body integ_epilogue (map snd handlers).

Lemma gen_wf : wf false gen_system = true.
Proof. vm_compute. reflexivity. Qed.

(* the model is not vacuous: the generated programs contain the step, the serialisation and both lock operations *)
Definition has (a : act) (l : list act) : bool :=
  existsb (fun x => match a, x with
                    | ALock, ALock | AUnlock, AUnlock | AStepBegin, AStepBegin | AStepEnd, AStepEnd
                    | ASerBegin, ASerBegin | ASerEnd, ASerEnd | AWait, AWait => true
                    | _, _ => false end) l.
Definition simulation_handler : list act :=
  match find (fun h => String.eqb (fst h) "/simulation") handlers with Some h => snd h | None => [] end.
Lemma gen_nonvacuous :
  has ALock integ_loop_body && has AUnlock integ_loop_body && has AStepBegin integ_loop_body && has AStepEnd integ_loop_body &&
  has AWait integ_loop_body &&
  has ALock simulation_handler && has AUnlock simulation_handler && has ASerBegin simulation_handler && has ASerEnd simulation_handler
  = true.
Proof. vm_compute. reflexivity. Qed.

Lemma gen_served_at_boundary : forall s, reach gen_system s -> serializing s = true -> in_step s = false.
Proof. intros s R H. exact (served_at_boundary_gen gen_system s gen_wf R H). Qed.

Lemma gen_mutual_exclusion : forall s, reach gen_system s -> ~ (in_step s = true /\ serializing s = true).
Proof. intros s R [A B]. rewrite (gen_served_at_boundary s R B) in A. discriminate. Qed.

Lemma gen_serializer_holds_mutex : forall s, reach gen_system s -> gz (tS s) = true -> holder s = Some false.
Proof.
  intros s R H. destruct (Inv_reach false gen_system s gen_wf R) as [_ If].
  destruct (TInv_flags _ _ _ _ If) as [_ [A _]]. apply A. exact H.
Qed.

Lemma gen_stepper_holds_mutex : forall s, reach gen_system s -> gst (tI s) = true -> holder s = Some true.
Proof.
  intros s R H. destruct (Inv_reach false gen_system s gen_wf R) as [It _].
  destruct (TInv_flags _ _ _ _ It) as [A _]. apply A. exact H.
Qed.

(* simulation writes performed WITHOUT the mutex, per block *)
Definition dedup (l : list string) : list string := nodup string_dec l.
Lemma gen_unlocked_writes_integrator :
  unlocked_writes integ_loop_body = [] /\
  unlocked_writes integ_epilogue = [] /\
  dedup (concat (map unlocked_writes integ_loop_heads)) =
    ["reb_simulation_error_message_waiting"; "field:status"; "reb_simulation_warning"] /\
  unlocked_writes integ_prologue = [].
Proof. vm_compute. repeat split. Qed.

(* in particular reb_simulation_synchronize and the particle arrays are never written outside the mutex any more; of the
   remaining unlocked writes, status, dt (sign only, prologue) and dt_last_done (prologue) are persisted scalar fields *)
Definition all_integ_blocks : list (list act) := [integ_prologue; integ_loop_body; integ_epilogue] ++ integ_loop_heads.
Lemma gen_synchronize_always_locked :
  existsb (String.eqb "reb_simulation_synchronize") (concat (map unlocked_writes all_integ_blocks)) = false /\
  existsb (fun b => existsb (fun x => match x with AWriteBegin l => String.eqb l "reb_simulation_synchronize" | _ => false end) b) integ_loop_heads = true.
Proof. vm_compute. split; reflexivity. Qed.

Lemma gen_unlocked_writes_handlers :
  map (fun h => (fst h, unlocked_writes (snd h))) handlers =
  [("/simulation", []); ("/keyboard/", ["field:status"]); ("/rebound.html", []); ("/favicon.ico", []); ("/screenshot", []); ("<other>", [])].
Proof. vm_compute. reflexivity. Qed.

(* the strong reading "nothing writes the simulation while it is being serialised" is false of the generated protocol:
   the integrator writes the simulation outside the mutex in reb_check_exit and after the loop (synchronize) *)
Definition index_of_handler (u : string) : nat :=
  (fix go (l : list (string * list act)) (i : nat) := match l with [] => i | h :: r => if String.eqb (fst h) u then i else go r (S i) end) handlers 1.
Definition pos_after (l : list act) : nat :=
  (fix go (l : list act) (i : nat) := match l with [] => i | ASerBegin :: _ => S i | _ :: r => go r (S i) end) l 0.
(* witness: reb_check_exit writes r->status outside the mutex (its reb_simulation_synchronize / dt parts are inside since /repo 8306d1e) *)
Definition torn_schedule_head : list (bool * nat) :=
  repeat (true, 0) (length integ_prologue) ++ [(true, 3)] ++ [(true, 0)] ++
  [(false, index_of_handler "/simulation")] ++ repeat (false, 0) (pos_after simulation_handler).
Lemma gen_served_quiescent_refuted_head :
  exists s, reach gen_system s /\ gz (tS s) = true /\ integ_writing s = true /\ pcb (tI s) = 3.
Proof.
  destruct (runs gen_system torn_schedule_head init) as [s|] eqn:E; [|vm_compute in E; discriminate].
  exists s. split; [eapply runs_reach; [apply reach_init | exact E]|].
  vm_compute in E. inversion E. vm_compute. repeat split.
Qed.

(* ... and that is all: a serialisation can overlap a simulation write of the integrator thread only while that thread is in
   an unlocked part of reb_check_exit (blocks >= 3: status, message buffer); never in the prologue (block 0, inside the mutex since
   /repo 7d68a7a), the loop body (block 1) nor the block after the loop (block 2) *)
Definition writes_locked (b : list act) : bool :=
  forallb (fun n => match run false b n a0 with Some a => implb (aw a) (ah a) | None => true end) (seq 0 (S (length b))).
Lemma gen_body_epilogue_writes_locked : writes_locked integ_loop_body = true /\ writes_locked integ_epilogue = true.
Proof. vm_compute. split; reflexivity. Qed.
Lemma gen_prologue_writes_locked : writes_locked integ_prologue = true.
Proof. vm_compute. reflexivity. Qed.

Lemma writes_locked_at : forall b n a, writes_locked b = true -> run false b n a0 = Some a -> aw a = true -> ah a = true.
Proof.
  intros b n a W R Hw. unfold writes_locked in W. rewrite forallb_forall in W.
  assert (Hin : In n (seq 0 (S (length b)))).
  { apply in_seq. pose proof (run_len _ _ _ _ _ R). split; [apply Nat.le_0_l | cbn; apply Nat.lt_succ_r; assumption]. }
  specialize (W n Hin). rewrite R in W. rewrite Hw in W. cbn in W. exact W.
Qed.

Lemma gen_overlap_only_check_exit : forall s, reach gen_system s ->
  gz (tS s) = true -> integ_writing s = true -> 3 <= pcb (tI s).
Proof.
  intros s R Hz Hw.
  pose proof (gen_serializer_holds_mutex s R Hz) as Hh.
  destruct (Inv_reach false gen_system s gen_wf R) as [[a [Ra [F1 [F2 [F3 FH]]]]] _].
  cbn [thr] in *. unfold integ_writing in Hw.
  assert (Hah : ah a = false).
  { destruct (ah a) eqn:E; [|reflexivity]. destruct FH as [FH _]. specialize (FH eq_refl). rewrite Hh in FH. discriminate. }
  assert (Haw : aw a = true) by (rewrite F2; exact Hw).
  destruct gen_body_epilogue_writes_locked as [WB WE]. pose proof gen_prologue_writes_locked as WP.
  unfold cur_block in Ra.
  destruct (pcb (tI s)) as [|[|[|k]]]; [exfalso | exfalso | exfalso | lia].
  - change (nth 0 (blocks (gen_system true)) []) with integ_prologue in Ra.
    rewrite (writes_locked_at _ _ _ WP Ra Haw) in Hah. discriminate.
  - change (nth 1 (blocks (gen_system true)) []) with integ_loop_body in Ra.
    rewrite (writes_locked_at _ _ _ WB Ra Haw) in Hah. discriminate.
  - change (nth 2 (blocks (gen_system true)) []) with integ_epilogue in Ra.
    rewrite (writes_locked_at _ _ _ WE Ra Haw) in Hah. discriminate.
Qed.

(* a repaired skeleton (every simulation write of the integrator inside the mutex) satisfies the strict discipline:
   the hypothesis of the partial theorem is inhabited by a non-trivial program *)
Definition locked (l : list act) : list act := [AWait; ALock; ASetFlag true] ++ l ++ [AUnlock; ASetFlag false].
Definition strip_sync (l : list act) : list act :=
  filter (fun x => match x with AWait | ALock | AUnlock | ASetFlag _ => false | _ => true end) l.
Definition repaired_system : bool -> prog :=
  system (locked (strip_sync integ_prologue)) (map (fun h => locked (strip_sync h)) integ_loop_heads) (locked (strip_sync integ_loop_body))
         (locked (strip_sync integ_epilogue))
         [simulation_handler].
Lemma repaired_wf_strict : wf true repaired_system = true.
Proof. vm_compute. reflexivity. Qed.
Lemma gen_not_wf_strict : wf true gen_system = false.
Proof. vm_compute. reflexivity. Qed.

(* ---------------------------------------------------------------- round 2: which unlocked writes can tear a served snapshot? *)
(* bookkeeping = single scalar stores that reb_simulation_integrate overwrites on entry anyway (status, dt sign, dt_last_done;
   all three are persisted: descriptors 11, 3, 145) and the message buffer (not persisted) *)
Definition bookkeeping : list string :=
  ["field:status"; "field:dt"; "field:dt_last_done"; "reb_simulation_warning"; "reb_simulation_error_message_waiting";
   "reb_particle_check_testparticles"].
Definition is_bk (l : string) : bool := existsb (String.eqb l) bookkeeping.
(* the same program with the bookkeeping stores not counted as simulation writes *)
Definition relabel (b : list act) : list act :=
  map (fun x => match x with
                | AWriteBegin l => if is_bk l then ALocal l else x
                | AWriteEnd l => if is_bk l then ALocal l else x
                | _ => x end) b.
Definition core_system (pro : list act) : bool -> prog :=
  system (relabel pro) (map relabel integ_loop_heads) (relabel integ_loop_body) (relabel integ_epilogue)
         (map (fun h => relabel (snd h)) handlers).

(* besides bookkeeping NO write is outside the mutex any more (the prologue incl. its user heartbeat is inside since /repo 7d68a7a) *)
Lemma gen_core_unlocked_writes :
  unlocked_writes (relabel integ_prologue) = [] /\
  concat (map (fun b => unlocked_writes (relabel b)) integ_loop_heads) = [] /\
  unlocked_writes (relabel integ_loop_body) = [] /\ unlocked_writes (relabel integ_epilogue) = [] /\
  concat (map (fun h => unlocked_writes (relabel (snd h))) handlers) = [].
Proof. vm_compute. repeat split. Qed.

(* hence, for ALL interleavings of the generated programs: while a request is serialised no step and no write other than the
   bookkeeping stores is in progress, i.e. a served snapshot equals a step-boundary state except possibly in
   {status, dt sign, dt_last_done} *)
Lemma gen_core_wf : wf true (core_system integ_prologue) = true.
Proof. vm_compute. reflexivity. Qed.
Lemma gen_core_quiescent : forall s, reach (core_system integ_prologue) s ->
  gz (tS s) = true -> integ_writing s = false /\ gst (tI s) = false.
Proof. intros s R H. exact (served_quiescent_gen _ s gen_core_wf R H). Qed.
(* the statement is not vacuous: the unlocked prologue of /repo before 7d68a7a (= the generated one with its lock actions removed) fails it *)
Lemma old_prologue_core_not_wf : wf true (core_system (strip_sync integ_prologue)) = false.
Proof. vm_compute. reflexivity. Qed.

(* ---------------------------------------------------------------- the other stepping entry point *)
(* a user thread that calls reb_simulation_steps (sim.steps(n); sim.step() = reb_simulation_steps(1) since /repo b9982d0) *)
Definition steps_system : bool -> prog :=
  fun w => if w then mkProg [steps_loop_body] (fun _ => [0]) else server_prog (map snd handlers).
Lemma gen_steps_wf : wf false steps_system = true.
Proof. vm_compute. reflexivity. Qed.
Lemma gen_steps_at_boundary : forall s, reach steps_system s -> serializing s = true -> in_step s = false.
Proof. intros s R H. exact (served_at_boundary_gen _ s gen_steps_wf R H). Qed.
(* not vacuous: the lock-free loop body of /repo before b9982d0 fails the discipline *)
Lemma old_steps_not_wf :
  wf false (fun w => if w then mkProg [strip_sync steps_loop_body] (fun _ => [0]) else server_prog (map snd handlers)) = false.
Proof. vm_compute. reflexivity. Qed.

(* ---------------------------------------------------------------- what a REQUEST can change *)
(* Everything here is regenerated: the EFFECT sets come from an interprocedural analysis of the C code (tools/translate_lockproto.py):
     field:f  store to member f of the simulation struct        via:f     store through pointer member f (r->particles[i].x ...)
     opaque:g a writable simulation is handed to g (body not visible / function pointer)   extptr:f:g pointer into the simulation given to external g
   and the call lists contain only functions reached WITHOUT any access to the simulation; they are checked against the list of external
   (libc/pthread) functions of Gen/Statics.v, so no hand-kept list of "harmless functions" is left.
   Integrator side: inside the regions of reb_check_exit / reb_simulation_integrate_raw that are control-dependent on a test of r->status
   against a value a request can set, the only effect is a store to `status`.  Server side: every handler's effects are within
   {store to status, the user's key_callback, the serialisation}.  So a request changes WHEN steps run, never the state they operate on. *)
Definition subset (a b : list string) : bool := forallb (fun x => existsb (String.eqb x) b) a.
Definition allowed_request_effects : list string := ["field:status"; "via:server_data"].
Definition allowed_handler_effects : list string :=
  ["field:status"; "via:server_data"; "opaque:(*key_callback)"; "opaque:reb_simulation_save_to_stream"].
Definition srv_act_ok (x : act) : bool :=
  match x with
  | AWriteBegin l | AWriteEnd l => existsb (String.eqb l) ["field:status"; "(*key_callback)"]
  | AStepBegin | AStepEnd => false
  | _ => true
  end.
Lemma gen_request_write_set :
  request_triggered_writes = ["field:status"] /\
  subset request_triggered_writes allowed_request_effects = true /\
  subset request_triggered_calls external_calls_default = true /\
  request_triggered_regions = 3 /\
  request_guard_constants = ["REB_STATUS_PAUSED"; "REB_STATUS_RUNNING"; "REB_STATUS_SCREENSHOT"; "REB_STATUS_SINGLE_STEP"; "REB_STATUS_USER"] /\
  forallb (fun h => subset (snd (fst h)) allowed_handler_effects && subset (snd h) external_calls_default) handler_effects = true /\
  map (fun h => fst (fst h)) handler_effects = map fst handlers /\
  forallb (forallb srv_act_ok) (blocks (gen_system false)) = true.
Proof. vm_compute. repeat split. Qed.

(* trace form: in every reachable state, whatever the server thread executes next is not a step and writes at most status / key_callback *)
Lemma gen_server_actions_ok : forall s x, reach gen_system s ->
  nth_error (cur_block gen_system false (tS s)) (pco (tS s)) = Some x -> srv_act_ok x = true.
Proof.
  intros s x _ H. destruct gen_request_write_set as [_ [_ [_ [_ [_ [_ [_ W]]]]]]].
  rewrite forallb_forall in W. unfold cur_block in H.
  destruct (Nat.lt_ge_cases (pcb (tS s)) (length (blocks (gen_system false)))) as [Hl|Hl].
  - specialize (W _ (nth_In _ [] Hl)). rewrite forallb_forall in W. apply W. eapply nth_error_In. exact H.
  - rewrite nth_overflow in H by exact Hl. destruct (pco (tS s)); discriminate.
Qed.

(* ---------------------------------------------------------------- teardown: is the server thread joined before memory is freed? *)
(* The server thread may read ANY member of the simulation (reb_simulation_save_to_stream) until reb_simulation_stop_server has joined it.
   A teardown sequence is executed by the freeing thread; `alive` = the server thread has not been joined yet. *)
Definition is_release (x : string) : bool := String.prefix "free:" x || String.prefix "opaque:" x.
Fixpoint uaf_window (alive : bool) (l : list string) : list string :=
  match l with
  | [] => []
  | x :: r => if String.eqb x "stop_server" then uaf_window false r
              else (if alive && is_release x then [x] else []) ++ uaf_window alive r
  end.
(* small-step reading: (alive, freed-while-alive) after each action; unsafe states are exactly the elements of uaf_window *)
Fixpoint teardown_run (alive : bool) (l : list string) : list (string * bool) :=
  match l with
  | [] => []
  | x :: r => let alive' := if String.eqb x "stop_server" then false else alive in (x, alive && is_release x) :: teardown_run alive' r
  end.
Lemma uaf_window_spec : forall l alive, uaf_window alive l = map fst (filter snd (teardown_run alive l)).
Proof.
  induction l as [|x r IH]; intro alive; [reflexivity|].
  cbn [uaf_window teardown_run]. destruct (String.eqb x "stop_server") eqn:E.
  - apply String.eqb_eq in E. subst x. cbn. rewrite andb_false_r. cbn. apply IH.
  - destruct (alive && is_release x); cbn; rewrite IH; reflexivity.
Qed.
Lemma uaf_window_safe : forall l, uaf_window true l = [] -> forall x b, In (x, b) (teardown_run true l) -> b = false.
Proof.
  intros l H x b Hin. rewrite uaf_window_spec in H. destruct b; [|reflexivity].
  assert (Hf : In (x, true) (filter snd (teardown_run true l))) by (apply filter_In; split; [exact Hin | reflexivity]).
  apply (in_map fst) in Hf. rewrite H in Hf. destruct Hf.
Qed.

Definition index_of (x : string) (l : list string) : nat :=
  (fix go (l : list string) (i : nat) := match l with [] => i | y :: r => if String.eqb x y then i else go r (S i) end) l 0.

(* reb_simulation_free_pointers stops (cancels + joins) the server thread before it releases anything (since /repo 9350489), and
   reb_simulation_free releases the struct only after that; inside reb_simulation_stop_server: cancel < join < free(server_data) *)
Lemma gen_teardown :
  uaf_window true teardown_free_pointers = [] /\
  hd "" teardown_free_pointers = "stop_server" /\
  teardown_free = ["opaque:reb_simulation_free_pointers"; "free:<simulation>"] /\
  index_of "call:pthread_cancel" teardown_stop_server < index_of "call:pthread_join" teardown_stop_server /\
  index_of "call:pthread_join" teardown_stop_server < index_of "free:server_data" teardown_stop_server /\
  index_of "free:server_data" teardown_stop_server < length teardown_stop_server /\
  uaf_window true (filter (fun x => negb (String.eqb x "call:pthread_join")) (map (fun x => if String.eqb x "call:pthread_join" then "stop_server" else x) teardown_stop_server)) = [].
Proof. vm_compute. repeat split; repeat constructor. Qed.
(* hence, in the run of the freeing thread, nothing is released while the server thread is alive *)
Lemma gen_teardown_safe : forall x b, In (x, b) (teardown_run true teardown_free_pointers) -> b = false.
Proof. apply uaf_window_safe. exact (proj1 gen_teardown). Qed.
(* not vacuous: the order of /repo before 9350489 (stop_server in third place) has a window *)
Lemma old_teardown_window :
  uaf_window true ["free:simulationarchive_filename"; "free:display_settings"; "stop_server"; "free:particles"] =
  ["free:simulationarchive_filename"; "free:display_settings"].
Proof. vm_compute. reflexivity. Qed.

(* ---------------------------------------------------------------- the serializer is read-only on the trajectory state *)
(* Regenerated, across all linked files: the complete effect set of reb_simulation_save_to_stream and everything it calls.  It consists of
     - the message buffer (error path for archive version < 3),
     - reb_integrator_init: the SEI constants recomputed from OMEGA / OMEGAZ / dt, and the N-body ODE slot BS creates on first use,
     - ri_ias15.N_allocated: the one store in the function itself, tied to its source text below.
   No store to particles, t, dt, the integrator work arrays or any other member; reb_binary_diff (buffers only) has no effect at all. *)
Lemma gen_serializer_effects :
  serializer_effects =
  ["extptr:messages:free"; "extptr:messages:strcpy"; "field:N_odes"; "field:messages"; "field:ri_ias15.N_allocated";
   "field:ri_sei.OMEGAZ"; "field:ri_sei.lastdt"; "field:ri_sei.sindt"; "field:ri_sei.sindtz"; "field:ri_sei.tandt"; "field:ri_sei.tandtz";
   "via:messages"; "via:odes"] /\
  binary_diff_effects = [] /\
  serializer_unconditional_stores = 0 /\
  serializer_stores = [("r->ri_ias15.N_allocated > 3 * r->N", "r->ri_ias15.N_allocated", "3 * r->N")] /\
  ias15_alloc_stores = [("reb_integrator_ias15_alloc", "N3 > r->ri_ias15.N_allocated", "N3")] /\
  ias15_N3_values = ["3 * r->N"; "3 * r->ri_mercurius.encounter_N"; "3 * r->ri_trace.encounter_N"].
Proof. vm_compute. repeat split. Qed.

(* since /repo c5e34ac: both public ways to change the particle number (add, remove) forget the IAS15 arrays when IAS15 is the integrator
   (N_allocated := 0); the third writer of r->N, reb_simulation_add_local_store, is the body of add and of the tree re-insertion (which
   restores the number it took away); reb_simulation_remove_all_particles leaves nothing to integrate *)
Lemma gen_ias15_reset_on_particle_change :
  particle_number_writers = ["reb_simulation_add_local_store"; "reb_simulation_remove_all_particles"; "reb_simulation_remove_particle"] /\
  ias15_reset_on_particle_change = ["reb_simulation_add_local"; "reb_simulation_remove_particle"] /\
  ias15_reset_N_allocated_values = ["0"].
Proof. vm_compute. repeat split. Qed.

(* degenerate corners of the protocol model: a server that has no handler at all, an integrator with empty prologue / epilogue, and the
   very first state; the theorems above quantify over all reachable states, these are the smallest instances *)
Lemma protocol_corners :
  wf false (system [] [[]] [] [] []) = true /\ wf true (system [] [[]] [] [] []) = true /\
  serializing init = false /\ in_step init = false /\
  (forall s, reach (system [] [[]] [] [] []) s -> serializing s = true -> in_step s = false).
Proof.
  repeat split; try reflexivity.
  intros s R H. exact (served_at_boundary_gen (system [] [[]] [] [] []) s eq_refl R H).
Qed.

(* descriptor life cycle of the listening socket, over the regenerated table: it is opened in one place, and EVERY place that closes it
   invalidates the stored number afterwards (frees / resets its holder or overwrites the member), so no path - including the error
   paths of the server life cycle - can close the same number a second time after the kernel has handed it to someone else *)
Definition closes_at_most_once (opens : list string) (closes : list (string * bool)) : bool :=
  Nat.eqb (length opens) 1 && forallb snd closes && Nat.leb 1 (length closes).
Lemma gen_listening_socket_closed_once :
  listening_socket_open_sites = ["reb_server_start"] /\
  listening_socket_close_sites = [("reb_simulation_stop_server", true)] /\
  closes_at_most_once listening_socket_open_sites listening_socket_close_sites = true.
Proof. vm_compute. repeat split. Qed.
(* not vacuous: an extra close that leaves the number in place (e.g. in the bind-failure branch) is rejected *)
Lemma extra_close_rejected :
  closes_at_most_once ["reb_server_start"] [("reb_server_start", false); ("reb_simulation_stop_server", true)] = false.
Proof. vm_compute. reflexivity. Qed.

(* process-level hygiene of the server thread: no exit of the request loop closes a connection descriptor twice
   (fclose(fdopen(fd)) followed by close(fd) would close a descriptor that another thread may have just opened; fixed in /repo bc586ce) *)
Lemma gen_server_single_close : server_double_close_sites = 0.
Proof. vm_compute. reflexivity. Qed.

(* ---------------------------------------------------------------- static storage *)
Definition key (o : static_obj) := (so_file o, so_scope o, so_name o).
Definition is_nil {A} (l : list A) := match l with [] => true | _ => false end.
Definition written (l : list static_obj) := filter (fun o => negb (so_const o) && negb (is_nil (so_writers o))) l.
Definition nonconst_unwritten (l : list static_obj) := filter (fun o => negb (so_const o) && is_nil (so_writers o)) l.
Definition inter (a b : list string) := filter (fun x => existsb (String.eqb x) b) a.

(* functions of libc (and POSIX) that keep hidden static state or return pointers to static buffers *)
Definition non_reentrant : list string :=
  ["strtok"; "rand"; "srand"; "random"; "srandom"; "initstate"; "setstate"; "drand48"; "erand48"; "lrand48"; "nrand48"; "mrand48";
   "jrand48"; "srand48"; "seed48"; "lcong48"; "localtime"; "gmtime"; "asctime"; "ctime"; "strerror"; "strsignal";
   "getenv"; "setenv"; "putenv"; "unsetenv"; "clearenv"; "readdir"; "getpwnam"; "getpwuid"; "getpwent"; "getgrnam"; "getgrgid";
   "getgrent"; "gethostbyname"; "gethostbyaddr"; "gethostent"; "getservbyname"; "getservbyport"; "getprotobyname"; "inet_ntoa";
   "tmpnam"; "tempnam"; "mktemp"; "ttyname"; "ctermid"; "cuserid"; "getlogin"; "setlocale"; "localeconv"; "nl_langinfo";
   "basename"; "dirname"; "ecvt"; "fcvt"; "gcvt"; "l64a"; "a64l"; "crypt"; "encrypt"; "setkey"; "getopt"; "getopt_long"; "getdate";
   "hcreate"; "hsearch"; "hdestroy"; "lgamma"; "lgammaf"; "lgammal"; "gamma"; "mblen"; "mbtowc"; "wctomb"; "mbrlen"; "mbrtowc";
   "wcrtomb"; "catgets"; "dlerror"; "ptsname"; "rcmd"; "getutent"; "getutid"; "getutline"; "pututline"; "system_l"; "fcloseall";
   "chdir"; "fchdir"; "umask"; "srand_r"].
(* process-wide effects that are not memory of a simulation: reported, not forbidden *)
Definition process_global : list string := ["signal"; "sigaction"; "exit"; "_exit"; "abort"; "system"; "atexit"; "setenv"; "chdir"].

Lemma gen_no_shared_state :
  map key (written statics_default) = [("rebound.c", "", "reb_sigint")] /\
  map so_writers (written statics_default) = [["reb_sigint_handler"; "reb_simulation_integrate_raw"]].
Proof. vm_compute. split; reflexivity. Qed.

Lemma gen_nonconst_unwritten :
  map key (nonconst_unwritten statics_default) =
  [("integrator_janus.c", "", "s15odr8"); ("integrator_janus.c", "", "s1odr2"); ("integrator_janus.c", "", "s33odr10c");
   ("integrator_janus.c", "", "s5odr4"); ("integrator_janus.c", "", "s9odr6a");
   ("rebound.c", "", "reb_build_str"); ("rebound.c", "", "reb_githash_str"); ("rebound.c", "", "reb_logo");
   ("rebound.c", "", "reb_version_str"); ("server.c", "", "reb_server_header"); ("server.c", "", "reb_server_header_png")].
Proof. vm_compute. reflexivity. Qed.

Lemma gen_only_reentrant_calls :
  inter external_calls_default non_reentrant = [] /\ inter external_calls_avx512 non_reentrant = [].
Proof. vm_compute. split; reflexivity. Qed.

Lemma gen_process_global_calls :
  inter external_calls_default process_global = ["exit"; "signal"; "system"] /\
  external_objects_default = ["stderr"; "stdout"].
Proof. vm_compute. split; reflexivity. Qed.

(* every use of a pthread mutex primitive in the library: the two modelled programs, the mutex creation, and the
   screenshot hand-over (reb_simulation_output_screenshot, called by user code from inside the heartbeat, i.e. at a step
   boundary: it releases and re-takes the mutex while stepping = writing = false; outside the two modelled programs) *)
Lemma gen_mutex_users :
  mutex_functions_default =
  [("output.c", "reb_simulation_output_screenshot", "pthread_mutex_lock"); ("output.c", "reb_simulation_output_screenshot", "pthread_mutex_unlock");
   ("rebound.c", "reb_server_mutex_lock", "pthread_mutex_lock"); ("rebound.c", "reb_server_mutex_unlock", "pthread_mutex_unlock");
   ("rebound.c", "reb_simulation_integrate_raw", "pthread_mutex_lock"); ("rebound.c", "reb_simulation_integrate_raw", "pthread_mutex_unlock");
   ("server.c", "reb_server_start", "pthread_mutex_lock"); ("server.c", "reb_server_start", "pthread_mutex_unlock");
   ("server.c", "reb_simulation_start_server", "pthread_mutex_init")] /\ mutex_functions_avx512 = mutex_functions_default /\
  (* the helpers and reb_check_exit are called only from inside the modelled programs (integrate_raw, reb_simulation_steps) *)
  mutex_callers =
  [("reb_check_exit", "reb_server_mutex_lock"); ("reb_check_exit", "reb_server_mutex_unlock");
   ("reb_simulation_integrate", "reb_simulation_integrate_raw"); ("reb_simulation_integrate_raw", "reb_check_exit");
   ("reb_simulation_integrate_raw", "reb_server_mutex_lock"); ("reb_simulation_integrate_raw", "reb_server_mutex_unlock");
   ("reb_simulation_steps", "reb_server_mutex_lock"); ("reb_simulation_steps", "reb_server_mutex_unlock")].
Proof. vm_compute. repeat split. Qed.

(* -DAVX512: per-simulation constants live in file-scope statics of integrator_whfast512.c *)
Lemma gen_avx512_written :
  map key (written statics_avx512) =
  [("integrator_whfast512.c", "", "_M"); ("integrator_whfast512.c", "", "constants_owner"); ("integrator_whfast512.c", "", "five"); ("integrator_whfast512.c", "", "gr_prefac");
   ("integrator_whfast512.c", "", "gr_prefac2"); ("integrator_whfast512.c", "", "half"); ("integrator_whfast512.c", "", "invfactorial512");
   ("integrator_whfast512.c", "", "one"); ("integrator_whfast512.c", "", "sixteen"); ("integrator_whfast512.c", "", "so1");
   ("integrator_whfast512.c", "", "so2"); ("integrator_whfast512.c", "", "twenty"); ("integrator_whfast512.c", "", "two");
   ("rebound.c", "", "reb_sigint")].
Proof. vm_compute. reflexivity. Qed.

Lemma gen_no_shared_state_avx512_refuted :
  map key (written statics_avx512) <> [("rebound.c", "", "reb_sigint")] /\
  exists o, In o statics_avx512 /\ key o = ("integrator_whfast512.c", "", "_M") /\ so_const o = false /\
            so_writers o = ["recalculate_constants"] /\
            exists o2, In o2 statics_avx512 /\ key o2 = ("integrator_whfast512.c", "", "gr_prefac") /\ so_const o2 = false /\
                       so_writers o2 = ["recalculate_constants"].
Proof.
  split; [rewrite gen_avx512_written; discriminate|].
  pose (f := fun n => find (fun o => String.eqb (so_name o) n && String.eqb (so_file o) "integrator_whfast512.c") statics_avx512).
  destruct (f "_M") as [o|] eqn:E1; [|vm_compute in E1; discriminate].
  destruct (f "gr_prefac") as [o2|] eqn:E2; [|vm_compute in E2; discriminate].
  exists o. split; [eapply find_some; exact E1|]. 
  assert (K1 : key o = ("integrator_whfast512.c", "", "_M") /\ so_const o = false /\ so_writers o = ["recalculate_constants"]).
  { vm_compute in E1. inversion E1. vm_compute. repeat split. }
  destruct K1 as [? [? ?]]. repeat split; try assumption.
  exists o2. split; [eapply find_some; exact E2|].
  vm_compute in E2. inversion E2. vm_compute. repeat split.
Qed.

(* ---------------------------------------------------------------- a shared written global breaks commutation (toy instance
   of the whfast512 situation: the step caches its own parameter in the global and the OTHER simulation reads it) *)
Definition toy_step (i : nat) (x : nat) (g : nat) : nat * nat := (x + g, i + 1).
Lemma toy_shared_state_breaks_commute :
  fst (run_sched nat nat toy_step [0; 1; 0; 1] (fun _ => 0) 1) 0 <> fst (run_sched nat nat toy_step [0; 0; 1; 1] (fun _ => 0) 1) 0.
Proof. vm_compute. discriminate. Qed.
