(* C20 property theorems ONLY (each closed by an already proved lemma) + assumptions. *)
From Coq Require Import List Reals String ZArith NArith Bool Lra Lia.
From RV Require Import Common.Num Common.RealNum Gen.Units C14.Murmur C20.Units C20.UnitsState C20.UnitsDocs C20.Rotation C20.RotProofs C20.Frames C20.FrameProofs C16.Dual C20.Var2Proofs C11.Orbit C11.OrbitInv C11.OrbitProofs C20.OrbitRot.
Import ListNotations.
Open Scope string_scope.
Open Scope R_scope.

(* ================= units (tables regenerated from rebound/units.py; exhaustive by computation) ================= *)
(* every entry positive; lengths, masses and G_SI rational; names lower-case and pairwise distinct across the three tables *)
Theorem C20_tables_wellformed : tables_wellformed = true /\ names_ok = true.
Proof. exact (conj tables_wellformed_true names_ok_true). Qed.
Print Assumptions C20_tables_wellformed.

(* day=days=d, yr=year=years=yrs=jyr, au=aus, pc=parsec, g=gram, msun=solarmass=sunmass=msolar *)
Theorem C20_synonyms_equal : synonyms_ok = true.
Proof. exact synonyms_ok_true. Qed.
Print Assumptions C20_synonyms_equal.

(* s=1, m=1, kg=1, hr=3600 s, day=24 hr, yr=365.25 day, kyr/myr/gyr = 10^3/10^6/10^9 yr, km=1000 m, cm=m/100, g=kg/1000 *)
Theorem C20_prefixes : prefixes_ok = true.
Proof. exact prefixes_ok_true. Qed.
Print Assumptions C20_prefixes.

(* for EVERY triple of supported units: the translated convert_G, evaluated on the real values of the entries, is the exact
   fraction G_SI*m*t^2/l^3 computed over Z (the value the correspondence compares sim.G with), and it is positive *)
Theorem C20_G_consistent : forall l t m, In l (vals lengths_SI) -> In t (vals times_SI) -> In m (vals masses_SI) ->
  convert_G RNum (Rval G_SI) (Rval l) (Rval t) (Rval m) = Q2R (Gq l t m) /\ 0 < Q2R (Gq l t m).
Proof. exact G_consistent. Qed.
Print Assumptions C20_G_consistent.

Theorem C20_G_is_one :
  convert_G RNum (Rval G_SI) (Rval (get lengths_SI "au")) (Rval (get times_SI "yr2pi")) (Rval (get masses_SI "msun")) = 1.
Proof. exact G_is_one. Qed.
Print Assumptions C20_G_is_one.

Theorem C20_G_in_SI_units :
  convert_G RNum (Rval G_SI) (Rval (get lengths_SI "m")) (Rval (get times_SI "s")) (Rval (get masses_SI "kg")) = Rval G_SI.
Proof. exact G_SI_in_SI. Qed.
Print Assumptions C20_G_in_SI_units.

(* conversion of mass / length / velocity / acceleration between any non-zero unit values: reversible, transitive, identity *)
Theorem C20_convert_roundtrip : forall l1 l2 t1 t2 m1 m2, l1 <> 0 -> l2 <> 0 -> t1 <> 0 -> t2 <> 0 -> m1 <> 0 -> m2 <> 0 -> forall x,
  convert_mass RNum (convert_mass RNum x m1 m2) m2 m1 = x /\
  convert_length RNum (convert_length RNum x l1 l2) l2 l1 = x /\
  convert_vel RNum (convert_vel RNum x l1 l2 t1 t2) l2 l1 t2 t1 = x /\
  convert_acc RNum (convert_acc RNum x l1 l2 t1 t2) l2 l1 t2 t1 = x.
Proof. intros. apply roundtrip; assumption. Qed.
Print Assumptions C20_convert_roundtrip.

Theorem C20_convert_transitive : forall l1 l2 l3 t1 t2 t3 m1 m2 m3, l2 <> 0 -> l3 <> 0 -> t1 <> 0 -> t2 <> 0 -> m2 <> 0 -> m3 <> 0 -> forall x,
  convert_mass RNum (convert_mass RNum x m1 m2) m2 m3 = convert_mass RNum x m1 m3 /\
  convert_length RNum (convert_length RNum x l1 l2) l2 l3 = convert_length RNum x l1 l3 /\
  convert_vel RNum (convert_vel RNum x l1 l2 t1 t2) l2 l3 t2 t3 = convert_vel RNum x l1 l3 t1 t3 /\
  convert_acc RNum (convert_acc RNum x l1 l2 t1 t2) l2 l3 t2 t3 = convert_acc RNum x l1 l3 t1 t3.
Proof. intros. apply transitive; assumption. Qed.
Print Assumptions C20_convert_transitive.

(* every table value is non-zero: the algebraic theorems apply to every pair / triple of supported units *)
Theorem C20_table_values_nonzero :
  (forall v, In v (vals lengths_SI) -> Rval v <> 0) /\ (forall v, In v (vals times_SI) -> Rval v <> 0) /\
  (forall v, In v (vals masses_SI) -> Rval v <> 0).
Proof. exact table_values_nonzero. Qed.
Print Assumptions C20_table_values_nonzero.

(* Newton's law G m / r^2 gives the same acceleration whether evaluated before or after a change of units *)
Theorem C20_gravity_invariant : forall l1 l2 t1 t2 m1 m2, l1 <> 0 -> l2 <> 0 -> t1 <> 0 -> t2 <> 0 -> m1 <> 0 -> m2 <> 0 ->
  forall g m r, r <> 0 ->
  convert_acc RNum (convert_G RNum g l1 t1 m1 * m / (r * r)) l1 l2 t1 t2 =
  convert_G RNum g l2 t2 m2 * convert_mass RNum m m1 m2 / (convert_length RNum r l1 l2 * convert_length RNum r l1 l2).
Proof. intros. apply gravity_invariant; assumption. Qed.
Print Assumptions C20_gravity_invariant.

(* Kepler's third law P^2 G M = k a^3 (k = 4 pi^2) holds for the converted data iff it holds for the original data *)
Theorem C20_period_invariant : forall l1 l2 t1 t2 m1 m2, l1 <> 0 -> l2 <> 0 -> t1 <> 0 -> t2 <> 0 -> m1 <> 0 -> m2 <> 0 ->
  forall g k P M a,
    (P * P * convert_G RNum g l1 t1 m1 * M = k * (a * a * a)) <->
    (let P' := P * t1 / t2 in let M' := convert_mass RNum M m1 m2 in let a' := convert_length RNum a l1 l2 in
     P' * P' * convert_G RNum g l2 t2 m2 * M' = k * (a' * a' * a')).
Proof. intros. apply period_invariant; assumption. Qed.
Print Assumptions C20_period_invariant.

(* hash_to_unit (reb_hash name) = name for every supported unit name (Murmur model of C14; look-up order of the source);
   no name hashes to 0 (0 = 'units not set'); check_units recovers (l,t,m) from the three names in any order *)
Theorem C20_unit_names_read_back : names_read_back = true /\ hashes_nonzero = true /\ check_units_ok = true.
Proof. exact (conj names_read_back_true (conj hashes_nonzero_true check_units_ok_true)). Qed.
Print Assumptions C20_unit_names_read_back.

(* units_convert_particle converts m by mass, x y z r by length, vx vy vz by velocity, ax ay az by acceleration *)
Theorem C20_particle_conversion_complete : pc_eqb particle_conversion particle_conversion_expected = true.
Proof. exact particle_conversion_ok. Qed.
Print Assumptions C20_particle_conversion_complete.

(* simulation.py (setter / getter / convert_particle_units transcribed through the regenerated field lists): for every supported triple
   given in any order, sim.units = ... followed by sim.units returns exactly the three names under the right keys,
   convert_particle_units will read them back as (old_l, old_t, old_m), and its 'units not set' guard passes *)
Theorem C20_units_setter_getter_roundtrip : forall l t m us,
  In l (names lengths_SI) -> In t (names times_SI) -> In m (names masses_SI) -> In us (perms3 l t m) ->
  exists st, set_units us = Some st /\
    key "length" (get_units st) = Some l /\ key "time" (get_units st) = Some t /\ key "mass" (get_units st) = Some m /\
    convert_old_units st = [Some l; Some t; Some m] /\ guard_passes st = true.
Proof. exact units_setter_getter_roundtrip. Qed.
Print Assumptions C20_units_setter_getter_roundtrip.

(* whole particles (m x y z r vx vy vz ax ay az, as units_convert_particle converts them): A -> B -> A is the identity and
   A -> B -> C equals A -> C, for any non-zero unit values (hence every supported triple, C20_table_values_nonzero) *)
Theorem C20_particle_conversion_roundtrip : forall vals u0 u1, List.length vals = List.length particle_conversion -> unz u0 -> unz u1 ->
  conv_particleR (conv_particleR vals u0 u1) u1 u0 = vals.
Proof. exact particle_roundtrip. Qed.
Print Assumptions C20_particle_conversion_roundtrip.
Theorem C20_particle_conversion_transitive : forall vals u0 u1 u2, List.length vals = List.length particle_conversion -> unz u0 -> unz u1 -> unz u2 ->
  conv_particleR (conv_particleR vals u0 u1) u1 u2 = conv_particleR vals u0 u2.
Proof. exact particle_transitive. Qed.
Print Assumptions C20_particle_conversion_transitive.

(* the bodies with `**` kept abstract (the ones run at binary64 against Python, with libm pow supplied) are the same functions *)
Theorem C20_pow_abstract_bodies_agree : forall x a b c d g,
  convert_mass_pw RNum x a b = convert_mass RNum x a b /\
  convert_length_pw RNum x a b = convert_length RNum x a b /\
  convert_vel_pw RNum x a b c d = convert_vel RNum x a b c d /\
  convert_acc_pw RNum (fun t => t * t) x a b c d = convert_acc RNum x a b c d /\
  convert_G_pw RNum (fun t => t * t) (fun l => l * l * l) g a b c = convert_G RNum g a b c.
Proof. exact pw_agrees. Qed.
Print Assumptions C20_pow_abstract_bodies_agree.

(* a relative error delta of G (2^-49 for the binary64 G, checked against the exact G for all 1785 triples on every run) moves the
   square of a Kepler period by at most delta/(1-delta) relative *)
Theorem C20_period_within_G_bound : forall G Gf delta k M a P Pf, 0 < G -> 0 <= delta < 1 -> Rabs (Gf - G) <= delta * G -> 0 < M -> 0 <= k * (a * a * a) ->
  P * P * G * M = k * (a * a * a) -> Pf * Pf * Gf * M = k * (a * a * a) ->
  Rabs (Pf * Pf - P * P) <= delta / (1 - delta) * (P * P).
Proof. exact period_within_bound. Qed.
Print Assumptions C20_period_within_G_bound.

(* every unit name the documentation writes (docstring of Simulation.units; Units.ipynb) resolves, as written / lower / upper case, to
   the table it is documented under; every documented (length,time,mass) combination in any order and case is accepted by check_units *)
Theorem C20_documented_units_resolve : documented_resolve = true /\ documented_triples_ok = true /\ doc_counts_ok = true.
Proof. exact (conj documented_resolve_true (conj documented_triples_ok_true doc_counts_ok_true)). Qed.
Print Assumptions C20_documented_units_resolve.

(* ================= rotations (over R) ================= *)
Theorem C20_quaternion_group : forall a b c : quat R,
  q_mul RNum (q_mul RNum a b) c = q_mul RNum a (q_mul RNum b c) /\
  q_mul RNum (q_identity RNum) a = a /\ q_mul RNum a (q_identity RNum) = a /\
  q_lsq RNum (q_mul RNum a b) = q_lsq RNum a * q_lsq RNum b /\
  (q_lsq RNum a <> 0 -> q_mul RNum a (q_inverse RNum a) = q_identity RNum /\ q_mul RNum (q_inverse RNum a) a = q_identity RNum).
Proof.
  intros. split; [apply mul_assoc|]. split; [apply mul_id_l|]. split; [apply mul_id_r|]. split; [apply lsq_mul|].
  intro H. apply inverse_law. exact H.
Qed.
Print Assumptions C20_quaternion_group.

Theorem C20_rotate_preserves_geometry : forall (q : quat R) (a b : vec3 R), q_lsq RNum q = 1 ->
  v_lsq RNum (rotate RNum a q) = v_lsq RNum a /\
  v_dot RNum (rotate RNum a q) (rotate RNum b q) = v_dot RNum a b /\
  rotate RNum (v_cross RNum a b) q = v_cross RNum (rotate RNum a q) (rotate RNum b q) /\
  v_lsq RNum (v_sub (rotate RNum a q) (rotate RNum b q)) = v_lsq RNum (v_sub a b).
Proof.
  intros q a b H. split; [apply rotate_norm; exact H|]. split; [apply rotate_dot; exact H|].
  split; [apply rotate_cross; exact H | apply rotate_distance; exact H].
Qed.
Print Assumptions C20_rotate_preserves_geometry.

Theorem C20_rotate_composes_and_inverts : forall (p q : quat R) (v : vec3 R), q_lsq RNum p = 1 -> q_lsq RNum q = 1 ->
  rotate RNum v (q_mul RNum p q) = rotate RNum (rotate RNum v q) p /\
  rotate RNum (rotate RNum v q) (q_inverse RNum q) = v /\ rotate RNum (rotate RNum v (q_inverse RNum q)) q = v /\
  rotate RNum v (q_identity RNum) = v.
Proof.
  intros p q v Hp Hq. split; [apply rotate_mul; assumption|]. destruct (rotate_inverse q v Hq) as [A B].
  split; [exact A|]. split; [exact B | apply rotate_identity].
Qed.
Print Assumptions C20_rotate_composes_and_inverts.

(* reb_simulation_irotate: energy (any G) and angular momentum (as a vector: rotated; hence its magnitude) *)
Theorem C20_rotate_energy_and_L : forall G (q : quat R) (ps : list body), q_lsq RNum q = 1 ->
  energy G (map (rotB q) ps) = energy G ps /\
  angmom (map (rotB q) ps) = rotate RNum (angmom ps) q /\ v_lsq RNum (angmom (map (rotB q) ps)) = v_lsq RNum (angmom ps) /\
  map snd (map (rotB q) ps) = sim_rotate RNum q (map snd ps).
Proof.
  intros G q ps H. split; [apply rotate_energy; exact H|]. destruct (rotate_angmom q ps H) as [A B].
  split; [exact A|]. split; [exact B | apply rotB_map_is_sim_rotate].
Qed.
Print Assumptions C20_rotate_energy_and_L.

(* reb_simulation_irotate rotates every one of the N particles, variational particles included, by the same linear map, so the
   variational particles of R*sim are R*(variational particles) *)
Theorem C20_irotate_all_particles : forall (q : quat R) (real var : list (vec3 R * vec3 R)),
  sim_rotate RNum q (real ++ var)%list = (sim_rotate RNum q real ++ sim_rotate RNum q var)%list /\
  List.length (sim_rotate RNum q (real ++ var)%list) = (List.length real + List.length var)%nat /\
  (forall i d, nth i (sim_rotate RNum q (real ++ var)%list) (rotate_pv RNum q d) = rotate_pv RNum q (nth i (real ++ var)%list d)) /\
  (forall x dx eps, rotate RNum (v_add RNum x (v_mul RNum dx eps)) q = v_add RNum (rotate RNum x q) (v_mul RNum (rotate RNum dx q) eps)).
Proof. exact irotate_all_particles. Qed.
Print Assumptions C20_irotate_all_particles.

Theorem C20_angle_axis : forall c s (axis p : vec3 R), c * c + s * s = 1 -> 0 < v_lsq RNum axis ->
  let a := v_normalize RNum axis in let q := angle_axis RNum c s axis in
  q_lsq RNum q = 1 /\ rotate RNum a q = a /\
  (v_dot RNum a p = 0 -> rotate RNum p q = v_add RNum (v_mul RNum p (c * c - s * s)) (v_mul RNum (v_cross RNum a p) (2 * s * c))).
Proof. intros c s axis p H Ha. cbv zeta. split; [apply angle_axis_unit; assumption | exact (angle_axis_rotates c s axis p H Ha)]. Qed.
Print Assumptions C20_angle_axis.

(* RANGE REMARK (binary64 vs R): every constructor normalises with reb_vec3d_normalize, whose intermediate squared length must be a normal
   double: the theorems over R describe the compiled code for |v| in about [1e-150, 1e150]; beyond that the square over/underflows and the
   code returns NaN (outside the domain of the property, like the zero vector).  The searcher exercises magnitudes up to both ends of that range. *)
(* init_from_to on ALL branches, every non-zero from/to (thr = the literal 1e-28, any non-negative value): a unit quaternion; it maps
   from_hat to to_hat on the direct and on the two-stage branch; on the antiparallel branch (|from_hat+to_hat|^2 <= thr) it is a half
   turn (real part 0) taking from_hat to -from_hat, which is within sqrt(thr) of to_hat *)
Theorem C20_from_to : forall thr (a b : vec3 R), 0 <= thr -> 0 < v_lsq RNum a -> 0 < v_lsq RNum b ->
  let f := v_normalize RNum a in let t := v_normalize RNum b in
  let q := from_to RNum isnormR thr a b in
  q_lsq RNum q = 1 /\
  (0 <= v_dot RNum f t \/ thr < v_lsq RNum (v_add RNum f t) -> rotate RNum f q = t) /\
  (v_dot RNum f t < 0 -> v_lsq RNum (v_add RNum f t) <= thr -> rotate RNum f q = v_mul RNum f (-1) /\ qr q = 0).
Proof. exact from_to_spec. Qed.
Print Assumptions C20_from_to.

Theorem C20_from_to_antiparallel : forall thr (a : vec3 R) k, 0 <= thr -> 0 < v_lsq RNum a -> 0 < k ->
  let b := v_mul RNum a (- k) in let q := from_to RNum isnormR thr a b in
  q_lsq RNum q = 1 /\ rotate RNum (v_normalize RNum a) q = v_normalize RNum b /\ qr q = 0.
Proof. exact from_to_antiparallel. Qed.
Print Assumptions C20_from_to_antiparallel.

(* reb_rotation_init_orbit is the unit quaternion of Rz(Omega) Rx(inc) Rz(omega); (c,s) = cos/sin of the half angles *)
Theorem C20_init_orbit : forall c_o s_o c_i s_i c_O s_O,
  c_o * c_o + s_o * s_o = 1 -> c_i * c_i + s_i * s_i = 1 -> c_O * c_O + s_O * s_O = 1 ->
  let q := init_orbit RNum c_o s_o c_i s_i c_O s_O in
  q_lsq RNum q = 1 /\
  forall v, rotate RNum v q = Rz (c_O * c_O - s_O * s_O) (2 * s_O * c_O) (Rx (c_i * c_i - s_i * s_i) (2 * s_i * c_i) (Rz (c_o * c_o - s_o * s_o) (2 * s_o * c_o) v)).
Proof. exact init_orbit_spec. Qed.
Print Assumptions C20_init_orbit.

(* reb_rotation_init_to_new_axes: unit quaternion taking newz_hat to z and the part of newx orthogonal to newz to rho * x, rho > 0;
   (c2,s2) are the half-angle values of -atan2(x'.y, x'.x) for the first-stage image x' of the orthogonalised newx.
   Hypothesis: newz_hat is exactly -z (degenerate antiparallel first stage) or the first stage is outside the sub-threshold zone
   0 < |newz_hat + z|^2 <= 1e-28 (where from_to is by design only accurate to 1e-14) *)
Theorem C20_init_to_new_axes : forall thr (newz newx : vec3 R) c2 s2 rho, 0 <= thr -> 0 < v_lsq RNum newz ->
  let f := v_normalize RNum newz in
  let xo := v_add RNum newx (v_mul RNum f (- v_dot RNum f newx)) in
  let x' := fst (to_new_axes_x' RNum isnormR thr newz newx) in
  (0 <= v_dot RNum f ez \/ thr < v_lsq RNum (v_add RNum f ez) \/ f = v_mul RNum ez (-1)) ->
  c2 * c2 + s2 * s2 = 1 -> 0 < rho -> (c2 * c2 - s2 * s2) * rho = vx x' -> (2 * s2 * c2) * rho = - vy x' ->
  let q := to_new_axes RNum isnormR thr c2 s2 newz newx in
  q_lsq RNum q = 1 /\ rotate RNum f q = ez /\ rotate RNum xo q = mkV rho 0 0 /\ v_dot RNum f xo = 0.
Proof. exact to_new_axes_spec. Qed.
Print Assumptions C20_init_to_new_axes.

(* reb_rotation_slerp returns its end points at t = 0 and t = 1 (default branch; sin(acos c) = sqrt(1-c^2)) *)
Theorem C20_slerp_endpoints : forall eps (q1 q2 : quat R), 0 < eps ->
  let c := slerp_cos RNum q1 q2 in let s := sqrt (1 - c * c) in
  Rabs c < 1 -> eps <= Rabs s ->
  slerp RNum eps s 0 q1 q2 = q1 /\ slerp RNum eps 0 s q1 q2 = q2.
Proof. exact slerp_endpoints. Qed.
Print Assumptions C20_slerp_endpoints.

(* C20 composed with C11 (reb_particle_from_orbit): the particle built for (inc, Omega, omega) is the particle of the orbit in the xy plane
   (same a, e, f) rotated about the primary by reb_rotation_init_orbit(Omega, inc, omega) *)
Theorem C20_from_orbit_is_init_orbit_rotation : forall tiny G prim m a e (t : trig R) p p0 c_o s_o c_i s_i c_O s_O,
  from_orbit_err RNum tiny G prim m a e t = inr p ->
  from_orbit_err RNum tiny G prim m a e (mkTrig 1 0 1 0 (cf t) (sf t) 1 0) = inr p0 ->
  c_o * c_o + s_o * s_o = 1 -> c_i * c_i + s_i * s_i = 1 -> c_O * c_O + s_O * s_O = 1 ->
  co t = c_o * c_o - s_o * s_o -> so t = 2 * s_o * c_o -> ci t = c_i * c_i - s_i * s_i -> si t = 2 * s_i * c_i ->
  cO t = c_O * c_O - s_O * s_O -> sO t = 2 * s_O * c_O ->
  let q := init_orbit RNum c_o s_o c_i s_i c_O s_O in
  q_lsq RNum q = 1 /\ relpos p prim = rotate RNum (relpos p0 prim) q /\ relvel p prim = rotate RNum (relvel p0 prim) q.
Proof. exact from_orbit_is_init_orbit_rotation. Qed.
Print Assumptions C20_from_orbit_is_init_orbit_rotation.

(* rotating particle and primary by a unit quaternion: a, e, d, v, |h| as computed by reb_orbit_from_particle are unchanged, the
   angular-momentum and eccentricity vectors rotate *)
Theorem C20_orbit_elements_rotation_invariant : forall (L : libm R) (L2 : libm2 R) tiny G t0 q p prim o o', q_lsq RNum q = 1 ->
  orbit_from_particle_err RNum L L2 tiny G t0 p prim = inr o ->
  orbit_from_particle_err RNum L L2 tiny G t0 (rotP q p) (rotP q prim) = inr o' ->
  o_a o' = o_a o /\ o_e o' = o_e o /\ o_d o' = o_d o /\ o_v o' = o_v o /\ o_h o' = o_h o /\
  mkV (o_hx o') (o_hy o') (o_hz o') = rotate RNum (mkV (o_hx o) (o_hy o) (o_hz o)) q /\
  mkV (o_ex o') (o_ey o') (o_ez o') = rotate RNum (mkV (o_ex o) (o_ey o) (o_ez o)) q.
Proof. exact orbit_elements_rotation_invariant. Qed.
Print Assumptions C20_orbit_elements_rotation_invariant.

(* the planar orbit rotated by init_orbit(Omega, inc, omega) reads back a, e unchanged and the inclination and node of the rotation *)
Theorem C20_rotated_planar_orbit_elements : forall (L : libm R) (L2 : libm2 R), l_acos L2 = acos -> l_pi L = PI ->
  forall tiny G t0 prim m a e (t : trig R) p0 o inc Om c_o s_o c_i s_i c_O s_O,
  trig_ok t -> 0 < G * (m + pm prim) -> shape_ok a e -> -1 < e * cf t -> tiny < pm prim ->
  ci t = cos inc -> si t = sin inc -> 0 < inc < PI -> cO t = cos Om -> sO t = sin Om -> - PI < Om <= PI ->
  c_o * c_o + s_o * s_o = 1 -> c_i * c_i + s_i * s_i = 1 -> c_O * c_O + s_O * s_O = 1 ->
  co t = c_o * c_o - s_o * s_o -> so t = 2 * s_o * c_o -> ci t = c_i * c_i - s_i * s_i -> si t = 2 * s_i * c_i ->
  cO t = c_O * c_O - s_O * s_O -> sO t = 2 * s_O * c_O ->
  from_orbit_err RNum tiny G prim m a e (mkTrig 1 0 1 0 (cf t) (sf t) 1 0) = inr p0 ->
  orbit_from_particle_err RNum L L2 tiny G t0 (rot_about prim (init_orbit RNum c_o s_o c_i s_i c_O s_O) p0) prim = inr o ->
  o_a o = a /\ o_e o = e /\ o_inc o = inc /\ o_Omega o = Om.
Proof. exact rotated_planar_orbit_elements. Qed.
Print Assumptions C20_rotated_planar_orbit_elements.

(* ================= frames (one phase-space component; all N) ================= *)
Theorem C20_move_to_com : forall ms qs, ms <> [] -> List.length ms = List.length qs -> pos_prefix 0 ms ->
  let qs' := move_to_com RNum ms qs in
  MQ ms qs' = 0 /\ com_q RNum ms qs' = 0 /\
  (forall i j, (i < List.length qs)%nat -> (j < List.length qs)%nat -> nth i qs' 0 - nth j qs' 0 = nth i qs 0 - nth j qs 0).
Proof. exact move_to_com_spec. Qed.
Print Assumptions C20_move_to_com.

Theorem C20_com_is_weighted_mean : forall ms qs, ms <> [] -> List.length ms = List.length qs -> pos_prefix 0 ms ->
  com_m RNum ms qs = Msum ms /\ 0 < Msum ms /\ com_q RNum ms qs = MQ ms qs / Msum ms.
Proof. exact com_is_weighted_mean. Qed.
Print Assumptions C20_com_is_weighted_mean.

Theorem C20_move_to_hel : forall qs, qs <> [] ->
  let qs' := move_to_hel RNum qs in
  nth 0 qs' 0 = 0 /\ List.length qs' = List.length qs /\
  (forall i j, (i < List.length qs)%nat -> (j < List.length qs)%nat -> nth i qs' 0 - nth j qs' 0 = nth i qs 0 - nth j qs 0).
Proof. exact move_to_hel_spec. Qed.
Print Assumptions C20_move_to_hel.

Theorem C20_linear_maps : forall (a b : list R) s, List.length a = List.length b ->
  isub RNum (iadd RNum a b) b = a /\ iadd RNum (isub RNum a b) b = a /\
  imul RNum s (iadd RNum a b) = iadd RNum (imul RNum s a) (imul RNum s b) /\
  (forall i, (i < List.length a)%nat -> nth i (iadd RNum a b) 0 = nth i a 0 + nth i b 0 /\ nth i (isub RNum a b) 0 = nth i a 0 - nth i b 0) /\
  (forall i, nth i (imul RNum s a) 0 = nth i a 0 * s).
Proof.
  intros a b s H. destruct (iadd_isub_inverse a b H) as [E1 E2]. split; [exact E1|]. split; [exact E2|].
  split; [apply imul_linear; exact H|]. split; [apply iadd_nth; exact H | apply imul_nth].
Qed.
Print Assumptions C20_linear_maps.

(* the shift applied to a first-order variational set is the first-order variation of the centre of mass, and the set moves rigidly *)
Theorem C20_var1_is_com_variation : forall l, let M := Msum (l_m l) in M <> 0 ->
  let S1 := var1_shift RNum M l in let C := MQ (l_m l) (l_q l) / M in let dM := Msum (l_dm l) in
  forall eps,
    (M + eps * dM) * (C + eps * S1) - (MQ (l_m l) (l_q l) + eps * (MQ (l_m l) (l_dq l) + MQ (l_dm l) (l_q l)) + eps * eps * MQ (l_dm l) (l_dq l))
    = eps * eps * (dM * S1 - MQ (l_dm l) (l_dq l)).
Proof. exact var1_is_com_variation. Qed.
Print Assumptions C20_var1_is_com_variation.

(* frame changes as equations: the COM frame forgets any earlier translation, both frame changes are idempotent, and they compose *)
Theorem C20_frame_equations : forall ms qs c, ms <> [] -> List.length ms = List.length qs -> pos_prefix 0 ms ->
  move_to_com RNum ms (shift RNum c qs) = move_to_com RNum ms qs /\
  move_to_com RNum ms (move_to_com RNum ms qs) = move_to_com RNum ms qs /\
  move_to_hel RNum (shift RNum c qs) = move_to_hel RNum qs /\
  move_to_hel RNum (move_to_hel RNum qs) = move_to_hel RNum qs /\
  move_to_com RNum ms (move_to_hel RNum qs) = move_to_com RNum ms qs /\
  move_to_hel RNum (move_to_com RNum ms qs) = move_to_hel RNum qs.
Proof.
  intros ms qs c Hne Hl Hp. split; [apply move_to_com_after_translation; assumption|]. split; [apply move_to_com_idempotent; assumption|].
  split; [apply move_to_hel_after_translation|]. split; [apply move_to_hel_idempotent|]. apply com_after_hel_and_hel_after_com; assumption.
Qed.
Print Assumptions C20_frame_equations.

(* Simulation arithmetic: + is commutative and associative, scaling composes, 1 is neutral, scaling distributes over -, a - b = a + (-1) b, a - a = 0 *)
Theorem C20_arithmetic_laws : forall (a b c : list R) s t, List.length a = List.length b -> List.length b = List.length c ->
  iadd RNum a b = iadd RNum b a /\
  iadd RNum (iadd RNum a b) c = iadd RNum a (iadd RNum b c) /\
  imul RNum s (imul RNum t a) = imul RNum (t * s) a /\
  imul RNum 1 a = a /\
  imul RNum s (isub RNum a b) = isub RNum (imul RNum s a) (imul RNum s b) /\
  isub RNum a b = iadd RNum a (imul RNum (-1) b) /\
  (forall i, nth i (isub RNum a a) 0 = 0).
Proof. exact arithmetic_laws. Qed.
Print Assumptions C20_arithmetic_laws.

(* boundary case, real particles already centred (centre of mass exactly zero; no theorem above excludes it): move_to_com leaves the
   real particles in place, yet the first-order variations still shift by the variation of the centre of mass *)
Theorem C20_move_to_com_centred_boundary :
  (forall ms qs, ms <> [] -> List.length ms = List.length qs -> pos_prefix 0 ms -> MQ ms qs = 0 -> move_to_com RNum ms qs = qs) /\
  (forall l, let M := Msum (l_m l) in M <> 0 -> MQ (l_m l) (l_q l) = 0 ->
     var1_shift RNum M l = (MQ (l_m l) (l_dq l) + MQ (l_dm l) (l_q l)) / M) /\
  (let l := [(1, 1, 0, 1); (1, -1, 0, 0)] in
   MQ (l_m l) (l_q l) = 0 /\ move_to_com RNum (l_m l) (l_q l) = l_q l /\ var1_shift RNum 2 l = 1 / 2 /\ move_to_com_var1 RNum 2 l = [1 / 2; - (1 / 2)]).
Proof. exact (conj centred_real_particles_stay (conj centred_system_boundary centred_binary_variation_moves)). Qed.
Print Assumptions C20_move_to_com_centred_boundary.

(* the second-order variational correction of move_to_com IS the eps1*eps2 part of move_to_com run on nested dual numbers
   (m + e1 ma + e2 mb + e1e2 m2, q + e1 qa + e2 qb + e1e2 q2): the shift, and every shifted second-order particle *)
Theorem C20_var2_is_mixed_dual_part : forall l : list (e2 (T:=R)), l <> [] -> pos_prefix 0 (map em l) ->
  let M := Sum em l in
  var2_shift RNum M l = dd_mix (com_q DDR (map ddm l) (map ddq l)) /\
  dd_val (com_m DDR (map ddm l) (map ddq l)) = M /\
  (forall i, (i < List.length l)%nat ->
     nth i (move_to_com_var2 RNum M l) 0 = dd_mix (nth i (move_to_com DDR (map ddm l) (map ddq l)) (nzero DDR))).
Proof. exact var2_is_mixed_dual_part. Qed.
Print Assumptions C20_var2_is_mixed_dual_part.

(* ================= corners excluded by the hypotheses above: what the code does there ================= *)
(* non-unit / zero quaternions (accepted by the constructor): not applied as q v q*; the zero quaternion is the identity map.  Angles 0 and
   2 pi give +-identity, angle pi the reflection through the axis.  (Zero-length vectors, excluded by 0 < |v|^2 everywhere: binary64 gives NaN.) *)
Theorem C20_corner_quaternions_and_angles : forall (q : quat R) (v axis : vec3 R), 0 < v_lsq RNum axis ->
  rotate RNum v q = v_add RNum (sand q v) (v_mul RNum v (1 - q_lsq RNum q)) /\
  rotate RNum v (mkQ 0 0 0 0) = v /\
  (let a := v_normalize RNum axis in
   rotate RNum v (angle_axis RNum 1 0 axis) = v /\ rotate RNum v (angle_axis RNum (-1) 0 axis) = v /\
   rotate RNum v (angle_axis RNum 0 1 axis) = v_add RNum (v_mul RNum a (2 * v_dot RNum a v)) (v_mul RNum v (-1))).
Proof.
  intros q v axis Ha. split; [apply rotate_nonunit|]. split; [apply rotate_zero_quaternion|]. exact (angle_axis_special axis v Ha).
Qed.
Print Assumptions C20_corner_quaternions_and_angles.

(* init_to_new_axes with newx parallel to newz (or zero): half-angle values (1,0) (atan2(0,0) = 0); the first stage alone *)
Theorem C20_corner_to_new_axes_parallel : forall thr (newz newx : vec3 R), 0 <= thr -> 0 < v_lsq RNum newz ->
  let f := v_normalize RNum newz in
  (0 <= v_dot RNum f ez \/ thr < v_lsq RNum (v_add RNum f ez) \/ f = v_mul RNum ez (-1)) ->
  let q := to_new_axes RNum isnormR thr 1 0 newz newx in
  q_lsq RNum q = 1 /\ rotate RNum f q = ez /\ q = snd (to_new_axes_x' RNum isnormR thr newz newx).
Proof. exact to_new_axes_parallel. Qed.
Print Assumptions C20_corner_to_new_axes_parallel.

(* slerp outside the default branch (q2 = +-q1, nearly equal, nearly opposite) *)
Theorem C20_corner_slerp : forall eps sA sB (q1 q2 : quat R),
  let c := slerp_cos RNum q1 q2 in let s := sqrt (1 - c * c) in
  (1 <= Rabs c -> slerp RNum eps sA sB q1 q2 = q1) /\
  (Rabs c < 1 -> Rabs s < eps -> c < 0 -> slerp RNum eps sA sB q1 q2 = q1) /\
  (Rabs c < 1 -> Rabs s < eps -> 0 <= c ->
     slerp RNum eps sA sB q1 q2 = mkQ (qix q1 * (1 / 2) + qix q2 * (1 / 2)) (qiy q1 * (1 / 2) + qiy q2 * (1 / 2))
                                      (qiz q1 * (1 / 2) + qiz q2 * (1 / 2)) (qr q1 * (1 / 2) + qr q2 * (1 / 2))).
Proof. exact slerp_corners. Qed.
Print Assumptions C20_corner_slerp.

(* frames: N_real = 0 (nothing happens), N_real = 1 (the particle ends at rest at the origin), total mass zero (no division, real particles
   stay; the variational corrections divide by the total mass and are NaN/inf in binary64 there: their theorems assume M <> 0) *)
Theorem C20_corner_frames :
  (move_to_com RNum [] [] = [] /\ move_to_hel RNum [] = [] /\ com_m RNum [] [] = 0 /\ com_q RNum [] [] = 0) /\
  (forall m q, 0 < m -> move_to_com RNum [m] [q] = [0] /\ move_to_hel RNum [q] = [0]) /\
  (forall ms qs, Forall (fun m => m = 0) ms -> List.length ms = List.length qs -> move_to_com RNum ms qs = qs).
Proof. exact (conj empty_simulation_frames (conj single_particle_frames all_massless_stay)). Qed.
Print Assumptions C20_corner_frames.

(* ================= non-vacuity ================= *)
Example C20_hypotheses_inhabited :
  (* a non-trivial rotation and non-zero, non-parallel vectors *)
  (let q := mkQ (1/2) (1/2) (1/2) (1/2) in q_lsq RNum q = 1 /\ rotate RNum (mkV 1 2 3) q = mkV 3 1 2) /\
  (0 < v_lsq RNum (mkV 1 2 2) /\ 0 <= / IZR (10 ^ 28)) /\
  (* a 3-body system with a zero-mass body *)
  (let ms := [1; 0; 1/1000] in pos_prefix 0 ms /\ ms <> [] /\ List.length ms = List.length [1/2; -2; 7]) /\
  (* a unit triple of the tables *)
  (In (get lengths_SI "pc") (vals lengths_SI) /\ In (get times_SI "yr2pi") (vals times_SI) /\ In (get masses_SI "mearth") (vals masses_SI)).
Proof.
  split; [|split; [|split]].
  - cbv zeta. split; [RotProofs.unf; lra | apply vec_eq; RotProofs.unf; lra].
  - split; [RotProofs.unf; lra|]. apply Rlt_le, Rinv_0_lt_compat, IZR_lt. reflexivity.
  - cbv zeta. cbn [pos_prefix length]. split; [split; [lra | split; [lra | split; [lra | exact I]]]|]. split; [discriminate | reflexivity].
  - vm_compute. tauto.
Qed.
