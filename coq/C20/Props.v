From Coq Require Import List Reals String.
Open Scope string_scope.
From RV Require Import Common.Num Common.RealNum Gen.Units C20.Units.
Theorem C20_G_is_one :
  convert_G RNum (Rval G_SI) (Rval (get lengths_SI "au")) (Rval (get times_SI "yr2pi")) (Rval (get masses_SI "msun")) = 1%R.
Proof. exact G_is_one. Qed.
Print Assumptions C20_G_is_one.
