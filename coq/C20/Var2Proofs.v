(* C20: the second-order variational correction of reb_simulation_move_to_com is the eps1*eps2 part of move_to_com itself, run
   on nested dual numbers (C16/Dual.v): masses m + e1 ma + e2 mb + e1e2 m2 and coordinates q + e1 qa + e2 qb + e1e2 q2. *)
From Coq Require Import ZArith List Reals Lra Lia.
From RV Require Import Common.Num Common.RealNum C16.Dual C20.Frames C20.FrameProofs.
Import ListNotations.
Open Scope R_scope.

Notation DD := ((R * R) * (R * R))%type.
Definition ddm (e : e2 (T:=R)) : DD := let '((m, _), (ma, _), (mb, _), (m2, _)) := e in dd m ma mb m2.
Definition ddq (e : e2 (T:=R)) : DD := let '((_, q), (_, qa), (_, qb), (_, q2)) := e in dd q qa qb q2.

Ltac dn := cbv beta iota zeta delta [DDR DR DNum dd dd_val dd_d1 dd_d2 dd_mix nadd nsub nmul ndiv nneg nzero none nltb nleb RNum fst snd] in *.

Lemma dd_eq : forall x y : DD, dd_val x = dd_val y -> dd_d1 x = dd_d1 y -> dd_d2 x = dd_d2 y -> dd_mix x = dd_mix y -> x = y.
Proof. intros [[a b] [c d]] [[a' b'] [c' d']]. unfold dd_val, dd_d1, dd_d2, dd_mix. cbn. intros; subst; reflexivity. Qed.

(* the few ring facts needed, componentwise *)
Lemma dd_add_assoc : forall x y z : DD, nadd DDR (nadd DDR x y) z = nadd DDR x (nadd DDR y z).
Proof. intros [[a b] [c d]] [[a' b'] [c' d']] [[a'' b''] [c'' d'']]. apply dd_eq; dn; ring. Qed.
Lemma dd_div_mul : forall x y : DD, dd_val y <> 0 -> nmul DDR (ndiv DDR x y) y = x.
Proof. intros [[a b] [c d]] [[a' b'] [c' d']] H. unfold dd_val in H. cbn in H. apply dd_eq; dn; field; exact H. Qed.
Lemma dd_zero_mul_add : forall x : DD, nadd DDR (nmul DDR (nzero DDR) (nzero DDR)) x = x.
Proof. intros [[a b] [c d]]. apply dd_eq; dn; ring. Qed.

Fixpoint MsumD (ms : list DD) : DD := match ms with [] => nzero DDR | m :: r => nadd DDR m (MsumD r) end.
Fixpoint MQD (ms qs : list DD) : DD := match ms, qs with m :: r, q :: s => nadd DDR (nmul DDR q m) (MQD r s) | _, _ => nzero DDR end.

Lemma com_range_inv_dd : forall ms qs cm cq, length ms = length qs -> pos_prefix (dd_val cm) (map dd_val ms) ->
  fst (com_range DDR ms qs cm cq) = nadd DDR cm (MsumD ms) /\
  nmul DDR (snd (com_range DDR ms qs cm cq)) (fst (com_range DDR ms qs cm cq)) = nadd DDR (nmul DDR cq cm) (MQD ms qs).
Proof.
  induction ms as [|m ms IH]; intros qs cm cq Hl Hp.
  - destruct qs; [|discriminate]. cbn [com_range fst snd MsumD MQD]. split.
    + destruct cm as [[a b] [c d]]. apply dd_eq; dn; ring.
    + destruct cm as [[a b] [c d]]. destruct cq as [[a' b'] [c' d']]. apply dd_eq; dn; ring.
  - destruct qs as [|q qs]; [discriminate|]. cbn [length] in Hl. injection Hl as Hl. cbn [map pos_prefix] in Hp. destruct Hp as [Hpos Hp].
    cbn [com_range].
    assert (V : dd_val (nadd DDR cm m) = dd_val cm + dd_val m) by (destruct cm as [[a b] [c d]]; destruct m as [[a' b'] [c' d']]; reflexivity).
    assert (L : nltb DDR (nzero DDR) (nadd DDR cm m) = true).
    { change (Rltb 0 (dd_val (nadd DDR cm m)) = true). rewrite V. unfold Rltb. destruct (Rlt_dec 0 (dd_val cm + dd_val m)); [reflexivity | contradiction]. }
    rewrite L. rewrite <- V in Hp.
    destruct (IH qs (nadd DDR cm m) (ndiv DDR (nadd DDR (nmul DDR cq cm) (nmul DDR q m)) (nadd DDR cm m)) Hl Hp) as [E1 E2]. split.
    + rewrite E1. cbn [MsumD]. apply dd_add_assoc.
    + rewrite E2. rewrite dd_div_mul by (rewrite V; lra). cbn [MQD]. apply dd_add_assoc.
Qed.

(* ---- real sums over a second-order set *)
Definition em (e : e2 (T:=R)) : R := fst (fst (fst (fst e))).
Definition eq_ (e : e2 (T:=R)) : R := snd (fst (fst (fst e))).
Definition ema (e : e2 (T:=R)) : R := fst (snd (fst (fst e))).
Definition eqa (e : e2 (T:=R)) : R := snd (snd (fst (fst e))).
Definition emb (e : e2 (T:=R)) : R := fst (snd (fst e)).
Definition eqb (e : e2 (T:=R)) : R := snd (snd (fst e)).
Definition em2 (e : e2 (T:=R)) : R := fst (snd e).
Definition eq2 (e : e2 (T:=R)) : R := snd (snd e).
Fixpoint Sum (f : e2 (T:=R) -> R) (l : list (e2 (T:=R))) : R := match l with [] => 0 | e :: r => f e + Sum f r end.
Definition P0 := Sum (fun e => em e * eq_ e).
Definition Pa := Sum (fun e => em e * eqa e + ema e * eq_ e).
Definition Pb := Sum (fun e => em e * eqb e + emb e * eq_ e).
Definition P2 := Sum (fun e => em e * eq2 e + ema e * eqb e + emb e * eqa e + em2 e * eq_ e).

Ltac de e := destruct e as [[[[?m ?q] [?ma ?qa]] [?mb ?qb]] [?m2 ?q2]].

Lemma MQD_components : forall l, MQD (map ddm l) (map ddq l) = dd (P0 l) (Pa l) (Pb l) (P2 l).
Proof.
  induction l as [|e r IH]; [reflexivity|]. cbn [map MQD]. rewrite IH. unfold P0, Pa, Pb, P2. cbn [Sum]. de e.
  unfold ddm, ddq, em, eq_, ema, eqa, emb, eqb, em2, eq2. apply dd_eq; dn; ring.
Qed.
Lemma MsumD_components : forall l, MsumD (map ddm l) = dd (Sum em l) (Sum ema l) (Sum emb l) (Sum em2 l).
Proof.
  induction l as [|e r IH]; [reflexivity|]. cbn [map MsumD]. rewrite IH. cbn [Sum]. de e.
  unfold ddm, em, ema, emb, em2. apply dd_eq; dn; ring.
Qed.
Lemma map_val_ddm : forall l, map dd_val (map ddm l) = map em l.
Proof. induction l as [|e r IH]; [reflexivity|]. cbn [map]. rewrite IH. de e. reflexivity. Qed.
Lemma Sum_Msum : forall f l, Sum f l = Msum (map f l).
Proof. induction l as [|e r IH]; [reflexivity|]. cbn [Sum map Msum]. rewrite IH. reflexivity. Qed.

From RV Require C20.NsatzR.
Lemma dd_solve : forall c M P : DD, nmul DDR c M = P -> dd_val M <> 0 ->
  dd_mix c = dd_mix P / dd_val M - dd_val P * dd_mix M / (dd_val M * dd_val M)
             - dd_d1 P * dd_d2 M / (dd_val M * dd_val M) - dd_d2 P * dd_d1 M / (dd_val M * dd_val M)
             + 2 * dd_val P * dd_d1 M * dd_d2 M / (dd_val M * dd_val M * dd_val M).
Proof.
  intros [[c0 ca] [cb c2]] [[M0 Ma] [Mb M2]] [[p0 pa] [pb p2]] E H. unfold dd_val, dd_d1, dd_d2, dd_mix in *. cbn [fst snd] in *.
  revert E. dn. intro E. injection E as E0 Ea Eb E2.
  assert (K : c2 * (M0 * M0 * M0) = p2 * (M0 * M0) - p0 * M2 * M0 - pa * Mb * M0 - pb * Ma * M0 + 2 * p0 * Ma * Mb).
  { clear H. C20.NsatzR.rnsatz. }
  apply (Rmult_eq_reg_r (M0 * M0 * M0)); [|repeat apply Rmult_integral_contrapositive_currified; exact H].
  rewrite K. field. exact H.
Qed.

(* ---- closed form of the C loop *)
Fixpoint S2sum (M dma dmb ddm_ : R) (l : list (e2 (T:=R))) : R :=
  match l with
  | [] => 0
  | ((m, q), (ma, qa), (mb, qb), (m2, q2)) :: r =>
      (q2 / M * m + qa / M * mb - qa * m / M / M * dmb + qb / M * ma + q / M * m2 - q * ma / M / M * dmb
       - qb * m / M / M * dma - q * mb / M / M * dma + 2 * q * m / M / M / M * dma * dmb - q * m / M / M * ddm_)
      + S2sum M dma dmb ddm_ r
  end.
Lemma shift2_acc : forall M dma dmb ddm_ l acc, shift2 RNum M dma dmb ddm_ l acc = acc + S2sum M dma dmb ddm_ l.
Proof.
  induction l as [|e r IH]; intros acc; [cbn; ring|]. de e. cbn [shift2 S2sum]. rewrite IH.
  cbn [nadd nsub nmul ndiv nofZ RNum]. ring.
Qed.
Lemma S2sum_closed : forall M dma dmb ddm_ l, M <> 0 ->
  S2sum M dma dmb ddm_ l = P2 l / M - P0 l * ddm_ / (M * M) - Pa l * dmb / (M * M) - Pb l * dma / (M * M) + 2 * P0 l * dma * dmb / (M * M * M).
Proof.
  intros M dma dmb ddm_ l HM. induction l as [|e r IH]; [unfold P0, Pa, Pb, P2; cbn [S2sum Sum]; field; exact HM|].
  de e. cbn [S2sum]. rewrite IH. unfold P0, Pa, Pb, P2, em, eq_, ema, eqa, emb, eqb, em2, eq2. cbn [Sum fst snd]. field. exact HM.
Qed.

Theorem var2_is_mixed_dual_part : forall l : list (e2 (T:=R)), l <> [] -> pos_prefix 0 (map em l) ->
  let M := Sum em l in
  var2_shift RNum M l = dd_mix (com_q DDR (map ddm l) (map ddq l)) /\
  dd_val (com_m DDR (map ddm l) (map ddq l)) = M /\
  (forall i, (i < length l)%nat ->
     nth i (move_to_com_var2 RNum M l) 0 = dd_mix (nth i (move_to_com DDR (map ddm l) (map ddq l)) (nzero DDR))).
Proof.
  intros l Hne Hp M.
  assert (HM : 0 < M).
  { subst M. rewrite Sum_Msum. pose proof (pos_prefix_total (map em l) 0) as T. rewrite Rplus_0_l in T. apply T; [|exact Hp].
    destruct l; [contradiction | discriminate]. }
  assert (Hl : length (map ddm l) = length (map ddq l)) by (rewrite !map_length; reflexivity).
  assert (Hp' : pos_prefix (dd_val (nzero DDR)) (map dd_val (map ddm l))) by (rewrite map_val_ddm; exact Hp).
  destruct (com_range_inv_dd (map ddm l) (map ddq l) (nzero DDR) (nzero DDR) Hl Hp') as [E1 E2].
  rewrite dd_zero_mul_add, MQD_components in E2. rewrite MsumD_components in E1.
  assert (E1' : fst (com_range DDR (map ddm l) (map ddq l) (nzero DDR) (nzero DDR)) = dd (Sum em l) (Sum ema l) (Sum emb l) (Sum em2 l)).
  { rewrite E1. apply dd_eq; dn; ring. }
  clear E1. rewrite E1' in E2.
  assert (S : var2_shift RNum M l = dd_mix (com_q DDR (map ddm l) (map ddq l))).
  { unfold com_q. rewrite (dd_solve _ _ _ E2) by (unfold dd_val, dd; cbn [fst]; fold M; lra).
    unfold var2_shift, sum_m. rewrite shift2_acc, !sumf_Msum. cbn [nzero nadd RNum]. rewrite !Rplus_0_l.
    rewrite S2sum_closed by lra.
    replace (Msum (map (fun e : e2 => fst (snd (fst (fst e)))) l)) with (Sum ema l) by (rewrite Sum_Msum; reflexivity).
    replace (Msum (map (fun e : e2 => fst (snd (fst e))) l)) with (Sum emb l) by (rewrite Sum_Msum; reflexivity).
    replace (Msum (map (fun e : e2 => fst (snd e)) l)) with (Sum em2 l) by (rewrite Sum_Msum; reflexivity).
    unfold dd_mix, dd_val, dd_d1, dd_d2, dd. cbn [fst snd]. fold M. field. lra. }
  split; [exact S|]. split; [unfold com_m; rewrite E1'; reflexivity|].
  intros i Hi. unfold move_to_com_var2, move_to_com. rewrite S.
  set (c := com_q DDR (map ddm l) (map ddq l)). clearbody c. clear - Hi.
  revert i Hi. induction l as [|e r IH]; intros i Hi; [cbn in Hi; lia|].
  destruct i as [|i]; cbn [map shift nth].
  - de e. destruct c as [[c0 ca] [cb c2]]. reflexivity.
  - apply IH. cbn [length] in Hi. lia.
Qed.
