(* C20, frames: reb_simulation_move_to_com / move_to_hel (src/tools.c) and reb_simulation_imul / iadd / isub, transcribed
   loop for loop over an abstract arithmetic.  Every loop of the C code treats the six phase-space components
   x,y,z,vx,vy,vz by independent accumulators that share only the masses, so the model is one scalar recurrence per
   component ([qs] = that component of the real particles); the harness applies it to each of the six components.
   Definitions only. *)
From Coq Require Import ZArith List.
From RV Require Import Common.Num.
Import ListNotations.

Section Frames.
  Context {T : Type} (N : Num T).
  Local Notation "a + b" := (nadd N a b).
  Local Notation "a - b" := (nsub N a b).
  Local Notation "a * b" := (nmul N a b).
  Local Notation "a / b" := (ndiv N a b).
  Local Notation "0" := (nzero N).

  (* reb_simulation_com_range: com = {0}; for i: com = reb_particle_com_of_pair(com, p_i)
       p1.x = p1.x*p1.m + p2.x*p2.m;  p1.m += p2.m;  if (p1.m>0.) p1.x /= p1.m;            *)
  Fixpoint com_range (ms qs : list T) (cm cq : T) : T * T :=
    match ms, qs with
    | m :: ms', q :: qs' =>
        let q1 := cq * cm + q * m in
        let m1 := cm + m in
        com_range ms' qs' m1 (if nltb N 0 m1 then q1 / m1 else q1)
    | _, _ => (cm, cq)
    end.
  Definition com_m (ms qs : list T) : T := fst (com_range ms qs 0 0).
  Definition com_q (ms qs : list T) : T := snd (com_range ms qs 0 0).

  Definition shift (c : T) (qs : list T) : list T := map (fun q => q - c) qs.

  (* real particles: particles[i].x -= com.x *)
  Definition move_to_com (ms qs : list T) : list T := shift (com_q ms qs) qs.

  (* move_to_hel: particles[i] -= particles[0] for i>=1, particles[0] = 0.  (N_real = 0: nothing) *)
  Definition move_to_hel (qs : list T) : list T :=
    match qs with
    | [] => []
    | q0 :: r => 0 :: shift q0 r
    end.

  (* ---- first-order variational set (testparticle < 0): entries (m_i, q_i, dm_i, dq_i) *)
  Definition sum_m (l : list T) : T := sumf N l 0.
  Fixpoint shift1 (M dm : T) (l : list (T * T * T * T)) (acc : T) : T :=
    match l with
    | [] => acc
    | (m, q, d, dq) :: r =>
        let acc := acc + m / M * dq in
        let acc := acc + q / M * d in
        let acc := acc - q / (M * M) * m * dm in
        shift1 M dm r acc
    end.
  Definition var1_shift (M : T) (l : list (T * T * T * T)) : T :=
    shift1 M (sum_m (map (fun e => snd (fst e)) l)) l 0.
  (* new values of that component of the variational particles *)
  Definition move_to_com_var1 (M : T) (l : list (T * T * T * T)) : list T :=
    shift (var1_shift M l) (map snd l).

  (* ---- second-order set: entries ((m, q), (ma, qa), (mb, qb), (m2, q2)):
     real particle, first-order sets a and b, the second-order set itself *)
  Definition e2 : Type := ((T * T) * (T * T) * (T * T) * (T * T))%type.
  Fixpoint shift2 (M dma dmb ddm : T) (l : list e2) (acc : T) : T :=
    match l with
    | [] => acc
    | ((m, q), (ma, qa), (mb, qb), (m2, q2)) :: r =>
        let two := nofZ N 2 in
        let acc := acc + q2 / M * m in
        let acc := acc + qa / M * mb in
        let acc := acc - qa * m / M / M * dmb in
        let acc := acc + qb / M * ma in
        let acc := acc + q / M * m2 in
        let acc := acc - q * ma / M / M * dmb in
        let acc := acc - qb * m / M / M * dma in
        let acc := acc - q * mb / M / M * dma in
        let acc := acc + two * q * m / M / M / M * dma * dmb in
        let acc := acc - q * m / M / M * ddm in
        shift2 M dma dmb ddm r acc
    end.
  Definition var2_shift (M : T) (l : list e2) : T :=
    let dma := sum_m (map (fun e : e2 => fst (snd (fst (fst e)))) l) in
    let dmb := sum_m (map (fun e : e2 => fst (snd (fst e))) l) in
    let ddm := sum_m (map (fun e : e2 => fst (snd e)) l) in
    shift2 M dma dmb ddm l 0.
  Definition move_to_com_var2 (M : T) (l : list e2) : list T :=
    shift (var2_shift M l) (map (fun e : e2 => snd (snd e)) l).

  (* ---- reb_simulation_imul / iadd / isub on one component *)
  Definition imul (s : T) (qs : list T) : list T := map (fun q => q * s) qs.
  Fixpoint zip_add (a b : list T) : list T :=
    match a, b with x :: a', y :: b' => (x + y) :: zip_add a' b' | _, _ => [] end.
  Fixpoint zip_sub (a b : list T) : list T :=
    match a, b with x :: a', y :: b' => (x - y) :: zip_sub a' b' | _, _ => [] end.
  (* if (N!=N2) return -1;  (nothing modified) *)
  Definition iadd (a b : list T) : list T := if Nat.eqb (length a) (length b) then zip_add a b else a.
  Definition isub (a b : list T) : list T := if Nat.eqb (length a) (length b) then zip_sub a b else a.
End Frames.
