(* nsatz for goals over R, exported under another name so that importing this file does not bring Nsatz's "0"/"1"/"+" notations
   (Algebra_syntax) into the scope of the statements of the importing file. *)
From Coq Require Import Reals.
From Coq Require Import Nsatz.
Ltac rnsatz := nsatz.
