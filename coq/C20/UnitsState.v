(* C20: the units setter / getter / convert_particle_units bookkeeping of rebound/simulation.py on a model of the three
   python_unit_* fields (field name -> uint32 hash), driven by the lists regenerated from the source (Gen/Units.v). *)
From Coq Require Import ZArith NArith List String Bool Lia.
From RV Require Import Common.Num Gen.Units C14.Murmur C20.Units.
Import ListNotations.
Open Scope string_scope.

Definition ustate : Type := list (string * N).
Definition fieldv (st : ustate) (f : string) : N :=
  match find (fun p => String.eqb (fst p) f) st with Some p => snd p | None => 0%N end.
(* update_units((l,t,m)) *)
Definition update_units (l t m : string) : ustate :=
  map (fun p => (fst p, hash_name (nth (snd p) [l; t; m] ""))) setter_fields.
(* sim.units = us   (the N>0 refusal is outside this model) *)
Definition set_units (us : list string) : option ustate :=
  match check_units us with Some (l, t, m) => Some (update_units l t m) | None => None end.
(* sim.units *)
Definition get_units (st : ustate) : list (string * option string) :=
  map (fun p => (fst p, hash_to_unit (fieldv st (snd p)))) getter_keys.
Definition key (k : string) (g : list (string * option string)) : option string :=
  match find (fun p => String.eqb (fst p) k) g with Some p => snd p | None => None end.
(* (old_l, old_t, old_m) handed to units_convert_particle, and the guard of convert_particle_units *)
Definition convert_old_units (st : ustate) : list (option string) := map (fun f => hash_to_unit (fieldv st f)) convert_old_fields.
Definition guard_passes (st : ustate) : bool := forallb (fun f => negb (N.eqb (fieldv st f) 0)) guard_fields.

Lemma read_back_all :
  forallb (fun u => match hash_to_unit (hash_name u) with Some v => String.eqb u v | None => false end) all_names = true /\
  forallb (fun u => negb (N.eqb (hash_name u) 0)) all_names = true.
Proof. split; vm_compute; reflexivity. Qed.
Lemma read_back : forall u, In u all_names -> hash_to_unit (hash_name u) = Some u /\ N.eqb (hash_name u) 0 = false.
Proof.
  intros u H. destruct read_back_all as [R Z].
  rewrite forallb_forall in R, Z. specialize (R u H). specialize (Z u H). cbv beta in R, Z.
  split.
  - destruct (hash_to_unit (hash_name u)) as [v|]; [|discriminate]. apply String.eqb_eq in R. subst. reflexivity.
  - apply negb_true_iff in Z. exact Z.
Qed.

Lemma check_units_all :
  forallb (fun l => forallb (fun t => forallb (fun m =>
    forallb (fun p => match check_units p with
                      | Some (l', t', m') => String.eqb l l' && String.eqb t t' && String.eqb m m'
                      | None => false end) (perms3 l t m))
    (names masses_SI)) (names times_SI)) (names lengths_SI) = true.
Proof. vm_compute. reflexivity. Qed.
Lemma check_units_perm : forall l t m us, In l (names lengths_SI) -> In t (names times_SI) -> In m (names masses_SI) ->
  In us (perms3 l t m) -> check_units us = Some (l, t, m).
Proof.
  intros l t m us Hl Ht Hm Hu. pose proof check_units_all as C.
  rewrite forallb_forall in C. specialize (C l Hl). rewrite forallb_forall in C. specialize (C t Ht).
  rewrite forallb_forall in C. specialize (C m Hm). rewrite forallb_forall in C. specialize (C us Hu).
  destruct (check_units us) as [[[l' t'] m']|]; [|discriminate].
  apply andb_true_iff in C. destruct C as [C Cm]. apply andb_true_iff in C. destruct C as [Cl Ct].
  apply String.eqb_eq in Cl, Ct, Cm. subst. reflexivity.
Qed.

Theorem units_setter_getter_roundtrip : forall l t m us,
  In l (names lengths_SI) -> In t (names times_SI) -> In m (names masses_SI) -> In us (perms3 l t m) ->
  exists st, set_units us = Some st /\
    key "length" (get_units st) = Some l /\ key "time" (get_units st) = Some t /\ key "mass" (get_units st) = Some m /\
    convert_old_units st = [Some l; Some t; Some m] /\ guard_passes st = true.
Proof.
  intros l t m us Hl Ht Hm Hu. exists (update_units l t m). unfold set_units. rewrite (check_units_perm l t m us Hl Ht Hm Hu).
  assert (Al : In l all_names) by (unfold all_names; apply in_or_app; left; exact Hl).
  assert (At : In t all_names) by (unfold all_names; apply in_or_app; right; apply in_or_app; left; exact Ht).
  assert (Am : In m all_names) by (unfold all_names; apply in_or_app; right; apply in_or_app; right; exact Hm).
  destruct (read_back l Al) as [Rl Zl]. destruct (read_back t At) as [Rt Zt]. destruct (read_back m Am) as [Rm Zm].
  split; [reflexivity|].
  unfold key, get_units, convert_old_units, guard_passes, update_units, fieldv, setter_fields, getter_keys, convert_old_fields, guard_fields.
  cbn [map find fst snd nth String.eqb Ascii.eqb Bool.eqb forallb andb negb].
  rewrite Rl, Rt, Rm, Zl, Zt, Zm. repeat split; reflexivity.
Qed.
