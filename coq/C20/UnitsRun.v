(* C20: checks evaluated by the correspondence cases of tools/c20.py against the exact tables: a double (given as the exact
   ratio fn/fd it denotes) is within 2^-49 relative of the exact G of a unit triple / within 2^-50 of an exact table entry. *)
From Coq Require Import ZArith List String Bool.
From RV Require Import Gen.Units C20.Units.
Import ListNotations.
Open Scope Z_scope.

Definition close_q (fn fd qn qd k : Z) : bool :=
  (0 <? fn) && (0 <? fd) && (0 <? qn) && (0 <? qd) && (Z.abs (fn * qd - qn * fd) * 2 ^ k <=? qn * fd).

Definition G_close (l t m : string) (fn fd : Z) : bool :=
  mem lengths_SI l && mem times_SI t && mem masses_SI m &&
  let q := Gq (get lengths_SI l) (get times_SI t) (get masses_SI m) in close_q fn fd (fst q) (snd q) 49.

Definition val_close (tbl : list (string * uval)) (u : string) (fn fd : Z) : bool :=
  mem tbl u &&
  let '(n, d, s) := get tbl u in
  if s then close_q (fn * fn) (fd * fd) n d 49 else close_q fn fd n d 50.

Fixpoint bad_bools_from (n : nat) (l : list bool) : list nat :=
  match l with [] => [] | b :: r => if b then bad_bools_from (S n) r else n :: bad_bools_from (S n) r end.
Definition bad_bools (l : list bool) : list nat := bad_bools_from 0 l.
