(* C20: checks evaluated by the correspondence cases of tools/c20.py against the exact tables: a double (given as the exact
   ratio fn/fd it denotes) is within 2^-49 relative of the exact G of a unit triple / within 2^-50 of an exact table entry. *)
From Coq Require Import ZArith List String Bool.
From RV Require Import Gen.Units C20.Units.
Import ListNotations.
Open Scope Z_scope.

Definition close_q (fn fd qn qd k : Z) : bool :=
  (0 <? fn) && (0 <? fd) && (0 <? qn) && (0 <? qd) && (Z.abs (fn * qd - qn * fd) * 2 ^ k <=? qn * fd).

Definition G_close (l t m : string) (fn fd : Z) : bool :=
  mem lengths_SI l && mem times_SI t && mem masses_SI m &&
  let q := Gq (get lengths_SI l) (get times_SI t) (get masses_SI m) in close_q fn fd (fst q) (snd q) 49.

Definition val_close (tbl : list (string * uval)) (u : string) (fn fd : Z) : bool :=
  mem tbl u &&
  let '(n, d, s) := get tbl u in
  if s then close_q (fn * fn) (fd * fd) n d 49 else close_q fn fd n d 50.

Fixpoint bad_bools_from (n : nat) (l : list bool) : list nat :=
  match l with [] => [] | b :: r => if b then bad_bools_from (S n) r else n :: bad_bools_from (S n) r end.
Definition bad_bools (l : list bool) : list nat := bad_bools_from 0 l.

(* ---------------------------------------------------------------- binary64 instance of the conversion chain (Python floats) *)
From Coq Require Import PrimFloat.
From RV Require Import Common.Num Common.FloatNum.
Open Scope string_scope.

(* CPython evaluates `x**2`, `x**3` with libm pow(): its values come in as a table (x, pow x) *)
Definition ptab (tab : list (float * float)) (x : float) : float :=
  match find (fun p => same (fst p) x) tab with Some p => snd p | None => nan end.

(* every table entry as Python evaluates it: G_SI, lengths, times, masses (source order) *)
Definition tables_f_all (t2 t3 : list (float * float)) : list float :=
  G_SI_f :: map snd lengths_SI_f ++ map snd (times_SI_f (ptab t3)) ++ map snd (masses_SI_f).

Definition pairs {A} (l : list A) : list (A * A) := list_prod l l.

(* all ordered pairs (old, new); xs supplies one argument per pair, in enumeration order *)
Definition mass_all (xs Ms : list float) : list float :=
  map (fun c => convert_mass_pw FNum (fst c) (fst (snd c)) (snd (snd c))) (combine xs (pairs Ms)).
Definition length_all (xs Ls : list float) : list float :=
  map (fun c => convert_length_pw FNum (fst c) (fst (snd c)) (snd (snd c))) (combine xs (pairs Ls)).
(* ((lo, ln), (to, tn)) *)
Definition vel_all (xs Ls Ts : list float) : list float :=
  map (fun c => let '(x, ((lo, ln), (to, tn))) := c in convert_vel_pw FNum x lo ln to tn) (combine xs (list_prod (pairs Ls) (pairs Ts))).
Definition acc_all (t2 : list (float * float)) (xs Ls Ts : list float) : list float :=
  map (fun c => let '(x, ((lo, ln), (to, tn))) := c in convert_acc_pw FNum (ptab t2) x lo ln to tn) (combine xs (list_prod (pairs Ls) (pairs Ts))).
(* (l, (t, m)) *)
Definition G_all (t2 t3 : list (float * float)) (g : float) (Ls Ts Ms : list float) : list float :=
  map (fun c => let '(l, (t, m)) := c in convert_G_pw FNum (ptab t2) (ptab t3) g l t m) (list_prod Ls (list_prod Ts Ms)).

(* units_convert_particle on the members in the order of Gen.Units.particle_conversion *)
Definition conv_member (t2 : list (float * float)) (fn : string) (x lo ln to tn mo mn : float) : float :=
  if String.eqb fn "convert_mass" then convert_mass_pw FNum x mo mn
  else if String.eqb fn "convert_length" then convert_length_pw FNum x lo ln
  else if String.eqb fn "convert_vel" then convert_vel_pw FNum x lo ln to tn
  else if String.eqb fn "convert_acc" then convert_acc_pw FNum (ptab t2) x lo ln to tn
  else nan.
Definition conv_particle (t2 : list (float * float)) (vals : list float) (lo ln to tn mo mn : float) : list float :=
  map (fun c => conv_member t2 (snd (fst c)) (snd c) lo ln to tn mo mn) (combine particle_conversion vals).
