(* C20 composed with C11: (1) the particle reb_particle_from_orbit builds for (inc, Omega, omega) is the planar particle (all three angles 0)
   rotated by reb_rotation_init_orbit(Omega, inc, omega); (2) rotating particle and primary by a unit quaternion leaves the orbital elements
   a, e (and d, v, h) computed by reb_orbit_from_particle unchanged and rotates the angular-momentum and eccentricity vectors. *)
From Coq Require Import ZArith List Reals Lra.
From RV Require Import Common.Num Common.RealNum C11.Orbit C11.OrbitInv C20.Rotation C20.RotProofs.
Import ListNotations.
Open Scope R_scope.

Definition relpos (p prim : part R) : vecR := mkV (px p - px prim) (py p - py prim) (pz p - pz prim).
Definition relvel (p prim : part R) : vecR := mkV (pvx p - pvx prim) (pvy p - pvy prim) (pvz p - pvz prim).

Ltac on := cbn [nadd nsub nmul ndiv nneg nzero none nofZ nsqrt nabs nltb nleb neqb RNum px py pz pvx pvy pvz pm cO sO co so cf sf ci si] in *.

Theorem from_orbit_is_rotated_planar_orbit : forall tiny G prim m a e (t : trig R) p p0,
  from_orbit_err RNum tiny G prim m a e t = inr p ->
  from_orbit_err RNum tiny G prim m a e (mkTrig 1 0 1 0 (cf t) (sf t) 1 0) = inr p0 ->
  let turn := fun v => Rz (cO t) (sO t) (Rx (ci t) (si t) (Rz (co t) (so t) v)) in
  relpos p prim = turn (relpos p0 prim) /\ relvel p prim = turn (relvel p0 prim) /\ pm p = pm p0 /\ pz p0 = pz prim /\ pvz p0 = pvz prim.
Proof.
  intros tiny G prim m a e t p p0 H H0. unfold from_orbit_err in H, H0. on.
  repeat match type of H with (if ?c then _ else _) = _ => destruct c; [try discriminate H|] end.
  all: try discriminate H.
  all: repeat match type of H0 with (if ?c then _ else _) = _ => destruct c; [try discriminate H0|] end; try discriminate H0.
  all: injection H as <-; injection H0 as <-; cbv zeta; unfold relpos, relvel, Rz, Rx; on; cbn [vx vy vz].
  all: repeat split; try (apply vec_eq; cbn [vx vy vz]; ring); try ring.
Qed.

(* with the quaternion of reb_rotation_init_orbit: (c,s) half-angle values whose double-angle values are the cos/sin used by from_orbit *)
Corollary from_orbit_is_init_orbit_rotation : forall tiny G prim m a e (t : trig R) p p0 c_o s_o c_i s_i c_O s_O,
  from_orbit_err RNum tiny G prim m a e t = inr p ->
  from_orbit_err RNum tiny G prim m a e (mkTrig 1 0 1 0 (cf t) (sf t) 1 0) = inr p0 ->
  c_o * c_o + s_o * s_o = 1 -> c_i * c_i + s_i * s_i = 1 -> c_O * c_O + s_O * s_O = 1 ->
  co t = c_o * c_o - s_o * s_o -> so t = 2 * s_o * c_o -> ci t = c_i * c_i - s_i * s_i -> si t = 2 * s_i * c_i ->
  cO t = c_O * c_O - s_O * s_O -> sO t = 2 * s_O * c_O ->
  let q := init_orbit RNum c_o s_o c_i s_i c_O s_O in
  Rqlsq q = 1 /\ relpos p prim = Rrot (relpos p0 prim) q /\ relvel p prim = Rrot (relvel p0 prim) q.
Proof.
  intros tiny G prim m a e t p p0 c_o s_o c_i s_i c_O s_O H H0 Ho Hi HO E1 E2 E3 E4 E5 E6 q.
  destruct (init_orbit_spec c_o s_o c_i s_i c_O s_O Ho Hi HO) as [U Rm]. fold q in U, Rm.
  destruct (from_orbit_is_rotated_planar_orbit tiny G prim m a e t p p0 H H0) as (A & B & _).
  split; [exact U|]. rewrite !Rm, <- E1, <- E2, <- E3, <- E4, <- E5, <- E6. split; assumption.
Qed.

(* ---------------- rotating particle and primary: a, e, d, v, h invariant; h-vector and e-vector rotate *)
Definition ppos (p : part R) : vecR := mkV (px p) (py p) (pz p).
Definition pvel (p : part R) : vecR := mkV (pvx p) (pvy p) (pvz p).
Definition rotP (q : quatR) (p : part R) : part R :=
  let r := Rrot (ppos p) q in let v := Rrot (pvel p) q in mkPart (pm p) (vx r) (vy r) (vz r) (vx v) (vy v) (vz v).

(* the rotation-relevant outputs of reb_orbit_from_particle_err in vector form *)
Definition evec (mu : R) (r v : vecR) : vecR :=
  let d := sqrt (Rlsq r) in let vdiff2 := Rlsq v - mu / d in let rvr := d * (Rdot r v / d) in
  v_mul RNum (v_add RNum (v_mul RNum r vdiff2) (v_mul RNum v (- rvr))) (1 / mu).

Lemma orbit_fields : forall (L : libm R) (L2 : libm2 R) tiny G t0 p prim o,
  orbit_from_particle_err RNum L L2 tiny G t0 p prim = inr o ->
  let mu := G * (pm p + pm prim) in let r := relpos p prim in let v := relvel p prim in
  o_d o = sqrt (Rlsq r) /\ o_v o = sqrt (Rlsq v) /\
  o_a o = - mu / (Rlsq v - 2 * (mu / sqrt (Rlsq r))) /\
  mkV (o_hx o) (o_hy o) (o_hz o) = Rcross r v /\ o_h o = sqrt (Rlsq (Rcross r v)) /\
  mkV (o_ex o) (o_ey o) (o_ez o) = evec mu r v /\ o_e o = sqrt (Rlsq (evec mu r v)).
Proof.
  intros L L2 tiny G t0 p prim o H. unfold orbit_from_particle_err in H.
  destruct (nleb RNum (pm prim) tiny); [discriminate H|].
  cbv zeta in H.
  match type of H with (if ?c then _ else _) = _ => destruct c; [discriminate H|] end.
  match type of H with (match ?X with pair _ _ => _ end) = _ => destruct X as [[[om pom] f] th] end.
  injection H as <-. cbv zeta. cbn [o_d o_v o_a o_hx o_hy o_hz o_h o_ex o_ey o_ez o_e].
  unfold relpos, relvel, evec. on.
  repeat split; try reflexivity.
  - apply vec_eq; unf; ring.
  - f_equal. unf. ring.
Qed.

Lemma rel_rot : forall q p prim,
  relpos (rotP q p) (rotP q prim) = Rrot (relpos p prim) q /\ relvel (rotP q p) (rotP q prim) = Rrot (relvel p prim) q.
Proof. intros q [m x y z a b c] [m' x' y' z' a' b' c']. unfold relpos, relvel, rotP, ppos, pvel. on. split; apply vec_eq; unf; ring. Qed.

Lemma evec_rot : forall q mu r v, Rqlsq q = 1 -> evec mu (Rrot r q) (Rrot v q) = Rrot (evec mu r v) q.
Proof.
  intros q mu r v H. unfold evec. rewrite (rotate_norm q r H), (rotate_norm q v H), (rotate_dot q r v H). cbv zeta.
  set (al := Rlsq v - mu / sqrt (Rlsq r)). set (be := - (sqrt (Rlsq r) * (Rdot r v / sqrt (Rlsq r)))). set (k := 1 / mu).
  clearbody al be k. apply vec_eq; unf; ring.
Qed.

Theorem orbit_elements_rotation_invariant : forall (L : libm R) (L2 : libm2 R) tiny G t0 q p prim o o', Rqlsq q = 1 ->
  orbit_from_particle_err RNum L L2 tiny G t0 p prim = inr o ->
  orbit_from_particle_err RNum L L2 tiny G t0 (rotP q p) (rotP q prim) = inr o' ->
  o_a o' = o_a o /\ o_e o' = o_e o /\ o_d o' = o_d o /\ o_v o' = o_v o /\ o_h o' = o_h o /\
  mkV (o_hx o') (o_hy o') (o_hz o') = Rrot (mkV (o_hx o) (o_hy o) (o_hz o)) q /\
  mkV (o_ex o') (o_ey o') (o_ez o') = Rrot (mkV (o_ex o) (o_ey o) (o_ez o)) q.
Proof.
  intros L L2 tiny G t0 q p prim o o' Hq H H'.
  destruct (orbit_fields L L2 tiny G t0 p prim o H) as (D & V & A & Hv & Hn & Ev & En).
  destruct (orbit_fields L L2 tiny G t0 _ _ o' H') as (D' & V' & A' & Hv' & Hn' & Ev' & En').
  destruct (rel_rot q p prim) as [Rp Rv]. rewrite Rp, Rv in *.
  assert (Em : pm (rotP q p) = pm p /\ pm (rotP q prim) = pm prim) by (split; reflexivity). destruct Em as [Em1 Em2]. rewrite Em1, Em2 in *.
  rewrite (rotate_norm q _ Hq) in D', A'. rewrite (rotate_norm q _ Hq) in V', A'.
  rewrite <- (rotate_cross q _ _ Hq) in Hv', Hn'. rewrite (rotate_norm q _ Hq) in Hn'.
  rewrite (evec_rot q _ _ _ Hq) in Ev', En'. rewrite (rotate_norm q _ Hq) in En'.
  repeat split; congruence.
Qed.

(* ---------------- the orbital elements of a rotated planar orbit (C11's read-back theorems through the rotation) *)
From RV Require C11.OrbitProofs C11.RoundTrip.
Definition rot_about (prim : part R) (q : quatR) (p0 : part R) : part R :=
  let r := Rrot (relpos p0 prim) q in let v := Rrot (relvel p0 prim) q in
  mkPart (pm p0) (px prim + vx r) (py prim + vy r) (pz prim + vz r) (pvx prim + vx v) (pvy prim + vy v) (pvz prim + vz v).

Lemma part_from_rel : forall p prim r v m, relpos p prim = r -> relvel p prim = v -> pm p = m ->
  p = mkPart m (px prim + vx r) (py prim + vy r) (pz prim + vz r) (pvx prim + vx v) (pvy prim + vy v) (pvz prim + vz v).
Proof.
  intros [m0 x y z a b c] prim r v m Hr Hv Hm. subst r v. cbn in Hm. subst m0. unfold relpos, relvel. cbn [px py pz pvx pvy pvz pm vx vy vz].
  f_equal; ring.
Qed.

Theorem rotated_planar_orbit_elements : forall (L : libm R) (L2 : libm2 R), l_acos L2 = acos -> l_pi L = PI ->
  forall tiny G t0 prim m a e (t : trig R) p0 o inc Om c_o s_o c_i s_i c_O s_O,
  C11.OrbitProofs.trig_ok t -> 0 < G * (m + pm prim) -> C11.OrbitProofs.shape_ok a e -> -1 < e * cf t -> tiny < pm prim ->
  ci t = cos inc -> si t = sin inc -> 0 < inc < PI -> cO t = cos Om -> sO t = sin Om -> - PI < Om <= PI ->
  c_o * c_o + s_o * s_o = 1 -> c_i * c_i + s_i * s_i = 1 -> c_O * c_O + s_O * s_O = 1 ->
  co t = c_o * c_o - s_o * s_o -> so t = 2 * s_o * c_o -> ci t = c_i * c_i - s_i * s_i -> si t = 2 * s_i * c_i ->
  cO t = c_O * c_O - s_O * s_O -> sO t = 2 * s_O * c_O ->
  (* the orbit in the xy plane with the same a, e, f ... *)
  from_orbit_err RNum tiny G prim m a e (mkTrig 1 0 1 0 (cf t) (sf t) 1 0) = inr p0 ->
  (* ... rotated about the primary by reb_rotation_init_orbit(Omega, inc, omega) ... *)
  orbit_from_particle_err RNum L L2 tiny G t0 (rot_about prim (init_orbit RNum c_o s_o c_i s_i c_O s_O) p0) prim = inr o ->
  (* ... has the same a and e and the inclination and node of the rotation *)
  o_a o = a /\ o_e o = e /\ o_inc o = inc /\ o_Omega o = Om.
Proof.
  intros L L2 Hac Hpi tiny G t0 prim m a e t p0 o inc Om c_o s_o c_i s_i c_O s_O Ht Hmu Hsh Hecf Htiny Eci Esi Hinc EcO EsO HOm
         Ho Hi HO E1 E2 E3 E4 E5 E6 H0 Hob.
  (* from_orbit with t succeeds exactly when the planar one does (the guards do not read the angles) *)
  assert (Hp : exists p, from_orbit_err RNum tiny G prim m a e t = inr p).
  { pose proof H0 as H1. unfold from_orbit_err in H1 |- *. on.
    repeat match type of H1 with (if ?c then _ else _) = _ => destruct c; [first [discriminate H1 | destruct (Rltb 1 e); discriminate H1]|] end.
    cbv zeta. eexists. reflexivity. }
  destruct Hp as [p Hp].
  destruct (from_orbit_is_init_orbit_rotation tiny G prim m a e t p p0 c_o s_o c_i s_i c_O s_O Hp H0 Ho Hi HO E1 E2 E3 E4 E5 E6) as (_ & Rp & Rv).
  destruct (from_orbit_is_rotated_planar_orbit tiny G prim m a e t p p0 Hp H0) as (_ & _ & Em & _).
  assert (Ep : rot_about prim (init_orbit RNum c_o s_o c_i s_i c_O s_O) p0 = p).
  { symmetry. unfold rot_about. cbv zeta. apply part_from_rel; assumption. }
  rewrite Ep in Hob.
  destruct (C11.RoundTrip.roundtrip_scalars L L2 tiny G t0 prim m a e t p o Ht Hmu Hsh Hecf Htiny Hp Hob) as (A & E & _).
  split; [exact A|]. split; [exact E|]. split.
  - apply (C11.RoundTrip.roundtrip_inc L L2 tiny G t0 prim m a e t p o inc); assumption.
  - apply (C11.RoundTrip.roundtrip_Omega L L2 Hac Hpi tiny G t0 prim m a e t p o inc Om); assumption.
Qed.
