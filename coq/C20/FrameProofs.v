(* C20, frames over R: move_to_com puts the centre of mass at rest at the origin and preserves relative coordinates, move_to_hel
   likewise for particle 0, imul/iadd/isub are the componentwise linear maps, and the first-order variational correction of
   move_to_com is the first-order variation of the centre of mass. One scalar component; all N by induction. *)
From Coq Require Import ZArith List Reals Lra Lia.
From RV Require Import Common.Num Common.RealNum C20.Frames.
Import ListNotations.
Open Scope R_scope.

Fixpoint Msum (ms : list R) : R := match ms with [] => 0 | m :: r => m + Msum r end.
Fixpoint MQ (ms qs : list R) : R := match ms, qs with m :: r, q :: s => m * q + MQ r s | _, _ => 0 end.
(* every partial mass sum (after at least one particle) is positive: no division by zero in reb_particle_com_of_pair *)
Fixpoint pos_prefix (cm : R) (ms : list R) : Prop := match ms with [] => True | m :: r => 0 < cm + m /\ pos_prefix (cm + m) r end.

Ltac rn := cbn [nadd nsub nmul ndiv nneg nzero none nltb nleb RNum] in *.

Lemma com_range_inv : forall ms qs cm cq, length ms = length qs -> pos_prefix cm ms ->
  fst (com_range RNum ms qs cm cq) = cm + Msum ms /\
  snd (com_range RNum ms qs cm cq) * fst (com_range RNum ms qs cm cq) = cq * cm + MQ ms qs.
Proof.
  induction ms as [|m ms IH]; intros qs cm cq Hl Hp.
  - destruct qs; [|discriminate]. cbn. split; ring.
  - destruct qs as [|q qs]; [discriminate|]. cbn [length] in Hl. injection Hl as Hl. destruct Hp as [Hpos Hp].
    cbn [com_range]. rn. unfold Rltb. destruct (Rlt_dec 0 (cm + m)) as [_|n]; [|contradiction].
    destruct (IH qs (cm + m) ((cq * cm + q * m) / (cm + m)) Hl Hp) as [E1 E2]. split.
    + rewrite E1. cbn [Msum]. ring.
    + rewrite E2. cbn [MQ]. field. lra.
Qed.

Lemma pos_prefix_total : forall ms cm, ms <> [] -> pos_prefix cm ms -> 0 < cm + Msum ms.
Proof.
  induction ms as [|m ms IH]; intros cm Hne Hp; [contradiction|]. destruct Hp as [H1 H2]. cbn [Msum].
  destruct ms as [|m' ms'].
  - cbn. lra.
  - specialize (IH (cm + m) ltac:(discriminate) H2). lra.
Qed.

Lemma com_is_weighted_mean : forall ms qs, ms <> [] -> length ms = length qs -> pos_prefix 0 ms ->
  com_m RNum ms qs = Msum ms /\ 0 < Msum ms /\ com_q RNum ms qs = MQ ms qs / Msum ms.
Proof.
  intros ms qs Hne Hl Hp. unfold com_m, com_q. rn. destruct (com_range_inv ms qs 0 0 Hl Hp) as [E1 E2].
  pose proof (pos_prefix_total ms 0 Hne Hp) as P. rewrite Rplus_0_l in *. split; [exact E1|]. split; [exact P|].
  rewrite E1 in E2. apply (Rmult_eq_reg_r (Msum ms)); [|lra]. rewrite E2. field. lra.
Qed.

Lemma MQ_shift : forall ms qs c, length ms = length qs -> MQ ms (shift RNum c qs) = MQ ms qs - c * Msum ms.
Proof.
  unfold shift. induction ms as [|m ms IH]; intros qs c Hl; destruct qs as [|q qs]; try discriminate; cbn [map MQ Msum]; [ring|].
  cbn [length] in Hl. injection Hl as Hl. rewrite (IH qs c Hl). rn. ring.
Qed.
Lemma nth_shift : forall qs c i, (i < length qs)%nat -> nth i (shift RNum c qs) 0 = nth i qs 0 - c.
Proof.
  unfold shift. induction qs as [|q qs IH]; intros c i H; cbn [length] in H; [lia|].
  destruct i as [|i]; cbn [map nth]; [reflexivity|]. apply IH. lia.
Qed.
Lemma length_shift : forall qs c, length (shift RNum c qs) = length qs.
Proof. intros. unfold shift. apply map_length. Qed.

Theorem move_to_com_spec : forall ms qs, ms <> [] -> length ms = length qs -> pos_prefix 0 ms ->
  let qs' := move_to_com RNum ms qs in
  MQ ms qs' = 0 /\ com_q RNum ms qs' = 0 /\
  (forall i j, (i < length qs)%nat -> (j < length qs)%nat -> nth i qs' 0 - nth j qs' 0 = nth i qs 0 - nth j qs 0).
Proof.
  intros ms qs Hne Hl Hp qs'. destruct (com_is_weighted_mean ms qs Hne Hl Hp) as (EM & P & EC).
  assert (Z : MQ ms qs' = 0).
  { subst qs'. unfold move_to_com. rewrite MQ_shift by exact Hl. rewrite EC. field. lra. }
  split; [exact Z|]. split.
  - assert (Hl' : length ms = length qs') by (subst qs'; unfold move_to_com; rewrite length_shift; exact Hl).
    destruct (com_is_weighted_mean ms qs' Hne Hl' Hp) as (_ & _ & EC'). rewrite EC', Z. field. lra.
  - intros i j Hi Hj. subst qs'. unfold move_to_com. rewrite !nth_shift by assumption. ring.
Qed.

Theorem move_to_hel_spec : forall qs, qs <> [] ->
  let qs' := move_to_hel RNum qs in
  nth 0 qs' 0 = 0 /\ length qs' = length qs /\
  (forall i j, (i < length qs)%nat -> (j < length qs)%nat -> nth i qs' 0 - nth j qs' 0 = nth i qs 0 - nth j qs 0).
Proof.
  intros [|q0 r] Hne; [contradiction|]. cbv zeta. cbn [move_to_hel]. rn. split; [reflexivity|]. split; [cbn; rewrite length_shift; reflexivity|].
  assert (A : forall i, (i < length (q0 :: r))%nat -> nth i (0 :: shift RNum q0 r) 0 = nth i (q0 :: r) 0 - q0).
  { intros [|i] Hi; cbn [nth]; [ring|]. apply nth_shift. cbn [length] in Hi. lia. }
  intros i j Hi Hj. rewrite (A i Hi), (A j Hj). ring.
Qed.

(* ---- scaling, adding, subtracting *)
Lemma zip_len : forall a b : list R, length a = length b -> length (zip_add RNum a b) = length a /\ length (zip_sub RNum a b) = length a.
Proof. induction a as [|x a IH]; intros [|y b] H; try discriminate; cbn; [auto|]. injection H as H. destruct (IH b H). split; f_equal; assumption. Qed.

Theorem iadd_isub_inverse : forall a b : list R, length a = length b -> isub RNum (iadd RNum a b) b = a /\ iadd RNum (isub RNum a b) b = a.
Proof.
  intros a b H. unfold iadd, isub. rewrite H, Nat.eqb_refl. destruct (zip_len a b H) as [L1 L2]. rewrite L1, L2, H, Nat.eqb_refl. clear L1 L2.
  revert b H. induction a as [|x a IH]; intros [|y b] H; try discriminate; [split; reflexivity|]. injection H as H.
  destruct (IH b H) as [E1 E2]. cbn [zip_add zip_sub]. rn. split; f_equal; try assumption; ring.
Qed.
Theorem iadd_nth : forall a b : list R, length a = length b -> forall i, (i < length a)%nat ->
  nth i (iadd RNum a b) 0 = nth i a 0 + nth i b 0 /\ nth i (isub RNum a b) 0 = nth i a 0 - nth i b 0.
Proof.
  intros a b H. unfold iadd, isub. rewrite H, Nat.eqb_refl. revert b H.
  induction a as [|x a IH]; intros [|y b] H i Hi; try discriminate; cbn [length] in *; [lia|]. injection H as H.
  destruct i as [|i]; cbn [zip_add zip_sub nth]; rn; [split; reflexivity|]. apply IH; [exact H | lia].
Qed.
Theorem iadd_length_mismatch : forall a b : list R, length a <> length b -> iadd RNum a b = a /\ isub RNum a b = a.
Proof. intros a b H. unfold iadd, isub. apply Nat.eqb_neq in H. rewrite H. split; reflexivity. Qed.
Theorem imul_nth : forall s (a : list R) i, nth i (imul RNum s a) 0 = nth i a 0 * s.
Proof.
  intros s a. unfold imul. induction a as [|x a IH]; intros [|i]; cbn [map nth]; rn; try ring. apply IH.
Qed.
Theorem imul_linear : forall s a b, length a = length b -> imul RNum s (iadd RNum a b) = iadd RNum (imul RNum s a) (imul RNum s b).
Proof.
  intros s a b H. unfold iadd, imul. rewrite !map_length, H, Nat.eqb_refl. revert b H.
  induction a as [|x a IH]; intros [|y b] H; try discriminate; [reflexivity|]. injection H as H. cbn [zip_add map]. rn. f_equal; [ring | apply IH; exact H].
Qed.

(* ---- first-order variational correction *)
Fixpoint S1sum (M dm : R) (l : list (R * R * R * R)) : R :=
  match l with [] => 0 | (m, q, d, dq) :: r => (m / M * dq + q / M * d - q / (M * M) * m * dm) + S1sum M dm r end.
Lemma shift1_acc : forall M dm l acc, shift1 RNum M dm l acc = acc + S1sum M dm l.
Proof. induction l as [|[[[m q] d] dq] r IH]; intros acc; cbn [shift1 S1sum]; rn; [ring|]. rewrite IH. ring. Qed.
Lemma sumf_Msum : forall l acc, sumf RNum l acc = acc + Msum l.
Proof. induction l as [|x r IH]; intros acc; cbn [sumf Msum]; rn; [ring|]. rewrite IH. ring. Qed.

Definition l_m (l : list (R * R * R * R)) := map (fun e => fst (fst (fst e))) l.
Definition l_q (l : list (R * R * R * R)) := map (fun e => snd (fst (fst e))) l.
Definition l_dm (l : list (R * R * R * R)) := map (fun e => snd (fst e)) l.
Definition l_dq (l : list (R * R * R * R)) := map snd l.

Lemma S1sum_closed : forall M dm l, M <> 0 ->
  S1sum M dm l = (MQ (l_m l) (l_dq l) + MQ (l_dm l) (l_q l)) / M - MQ (l_m l) (l_q l) * dm / (M * M).
Proof.
  intros M dm l HM. induction l as [|[[[m q] d] dq] r IH]; cbn [S1sum l_m l_q l_dm l_dq map MQ fst snd]; [field; exact HM|].
  unfold l_m, l_q, l_dm, l_dq in IH. rewrite IH. field. exact HM.
Qed.

(* The correction subtracted from a first-order set is the first-order variation of the centre of mass: with C the centre of mass
   (C*M = sum m q), the perturbed system (m + eps dm, q + eps dq) has centre of mass C + eps*S1 up to second order in eps. *)
Theorem var1_is_com_variation : forall l, let M := Msum (l_m l) in M <> 0 ->
  let S1 := var1_shift RNum M l in let C := MQ (l_m l) (l_q l) / M in let dM := Msum (l_dm l) in
  forall eps,
    (M + eps * dM) * (C + eps * S1) - (MQ (l_m l) (l_q l) + eps * (MQ (l_m l) (l_dq l) + MQ (l_dm l) (l_q l)) + eps * eps * MQ (l_dm l) (l_dq l))
    = eps * eps * (dM * S1 - MQ (l_dm l) (l_dq l)).
Proof.
  intros l M HM S1 C dM eps. subst S1. unfold var1_shift, sum_m. rewrite shift1_acc, sumf_Msum. rn. rewrite !Rplus_0_l.
  change (map (fun e : R * R * R * R => snd (fst e)) l) with (l_dm l). fold dM.
  rewrite (S1sum_closed M dM l HM). subst C. field. exact HM.
Qed.
Theorem var1_moves_rigidly : forall M l i j, (i < length l)%nat -> (j < length l)%nat ->
  nth i (move_to_com_var1 RNum M l) 0 - nth j (move_to_com_var1 RNum M l) 0 = nth i (l_dq l) 0 - nth j (l_dq l) 0.
Proof.
  intros M l i j Hi Hj. unfold move_to_com_var1. fold (l_dq l). rewrite !nth_shift by (unfold l_dq; rewrite map_length; assumption). ring.
Qed.

(* ---------------- frame changes as equations *)
Lemma shift_shift : forall a b qs, shift RNum a (shift RNum b qs) = shift RNum (a + b) qs.
Proof. intros. unfold shift. rewrite map_map. apply map_ext. intro q. rn. ring. Qed.
Lemma shift_0 : forall qs, shift RNum 0 qs = qs.
Proof. intros. unfold shift. rewrite <- (map_id qs) at 2. apply map_ext. intro q. rn. ring. Qed.
Lemma hel_is_shift : forall q0 r, move_to_hel RNum (q0 :: r) = shift RNum q0 (q0 :: r).
Proof. intros. cbn [move_to_hel shift map]. rn. f_equal. ring. Qed.

Lemma com_q_shift : forall ms qs c, ms <> [] -> length ms = length qs -> pos_prefix 0 ms ->
  com_q RNum ms (shift RNum c qs) = com_q RNum ms qs - c.
Proof.
  intros ms qs c Hne Hl Hp. destruct (com_is_weighted_mean ms qs Hne Hl Hp) as (_ & P & E).
  assert (Hl' : length ms = length (shift RNum c qs)) by (rewrite length_shift; exact Hl).
  destruct (com_is_weighted_mean ms _ Hne Hl' Hp) as (_ & _ & E'). rewrite E', E, MQ_shift by exact Hl. field. lra.
Qed.

(* the centre-of-mass frame does not depend on a previous translation of the whole system; it is idempotent *)
Theorem move_to_com_after_translation : forall ms qs c, ms <> [] -> length ms = length qs -> pos_prefix 0 ms ->
  move_to_com RNum ms (shift RNum c qs) = move_to_com RNum ms qs.
Proof.
  intros ms qs c Hne Hl Hp. unfold move_to_com. rewrite com_q_shift by assumption. rewrite shift_shift. f_equal. ring.
Qed.
Theorem move_to_com_idempotent : forall ms qs, ms <> [] -> length ms = length qs -> pos_prefix 0 ms ->
  move_to_com RNum ms (move_to_com RNum ms qs) = move_to_com RNum ms qs.
Proof. intros ms qs Hne Hl Hp. unfold move_to_com at 2. apply move_to_com_after_translation; assumption. Qed.
Theorem move_to_hel_after_translation : forall qs c, move_to_hel RNum (shift RNum c qs) = move_to_hel RNum qs.
Proof.
  intros [|q0 r] c; [reflexivity|]. change (shift RNum c (q0 :: r)) with ((q0 - c) :: shift RNum c r).
  rewrite !hel_is_shift. change ((q0 - c) :: shift RNum c r) with (shift RNum c (q0 :: r)). rewrite shift_shift. f_equal. ring.
Qed.
Theorem move_to_hel_idempotent : forall qs, move_to_hel RNum (move_to_hel RNum qs) = move_to_hel RNum qs.
Proof. intros [|q0 r]; [reflexivity|]. rewrite hel_is_shift at 1. rewrite move_to_hel_after_translation. reflexivity. Qed.
Theorem com_after_hel_and_hel_after_com : forall ms qs, ms <> [] -> length ms = length qs -> pos_prefix 0 ms ->
  move_to_com RNum ms (move_to_hel RNum qs) = move_to_com RNum ms qs /\
  move_to_hel RNum (move_to_com RNum ms qs) = move_to_hel RNum qs.
Proof.
  intros ms qs Hne Hl Hp. split.
  - destruct qs as [|q0 r]; [reflexivity|]. rewrite hel_is_shift. apply move_to_com_after_translation; assumption.
  - unfold move_to_com. apply move_to_hel_after_translation.
Qed.

(* ---------------- Simulation arithmetic laws (add, subtract, scale), one component *)
Lemma zip_add_comm : forall a b, zip_add RNum a b = zip_add RNum b a.
Proof. induction a as [|x a IH]; intros [|y b]; cbn [zip_add]; try reflexivity. rn. f_equal; [ring | apply IH]. Qed.
Theorem arithmetic_laws : forall (a b c : list R) s t, length a = length b -> length b = length c ->
  iadd RNum a b = iadd RNum b a /\
  iadd RNum (iadd RNum a b) c = iadd RNum a (iadd RNum b c) /\
  imul RNum s (imul RNum t a) = imul RNum (t * s) a /\
  imul RNum 1 a = a /\
  imul RNum s (isub RNum a b) = isub RNum (imul RNum s a) (imul RNum s b) /\
  isub RNum a b = iadd RNum a (imul RNum (-1) b) /\
  (forall i, nth i (isub RNum a a) 0 = 0).
Proof.
  intros a b c s t H1 H2.
  assert (A : iadd RNum a b = iadd RNum b a) by (unfold iadd; rewrite H1, Nat.eqb_refl; apply zip_add_comm).
  split; [exact A|]. split.
  - unfold iadd. destruct (zip_len a b H1) as [L1 _]. destruct (zip_len b c H2) as [L2 _].
    rewrite H1, H2, !Nat.eqb_refl, L1, L2, H1, H2, !Nat.eqb_refl. clear.
    revert b c. induction a as [|x a IH]; intros [|y b] [|z c]; cbn [zip_add]; try reflexivity. rn. f_equal; [ring | apply IH].
  - split; [unfold imul; rewrite map_map; apply map_ext; intro q; rn; ring|].
    split; [unfold imul; rewrite <- (map_id a) at 2; apply map_ext; intro q; rn; ring|].
    split; [|split].
    + unfold isub, imul. rewrite !map_length, H1, Nat.eqb_refl. clear - H1. revert b H1.
      induction a as [|x a IH]; intros [|y b] H; try discriminate; [reflexivity|]. injection H as H. cbn [zip_sub map]. rn. f_equal; [ring | apply IH; exact H].
    + unfold isub, iadd, imul. rewrite map_length, H1, Nat.eqb_refl. clear - H1. revert b H1.
      induction a as [|x a IH]; intros [|y b] H; try discriminate; [reflexivity|]. injection H as H. cbn [zip_sub zip_add map]. rn. f_equal; [ring | apply IH; exact H].
    + intro i. unfold isub. rewrite Nat.eqb_refl. clear. revert i. induction a as [|x a IH]; intros [|i]; cbn [zip_sub nth]; rn; try ring. apply IH.
Qed.

(* ---------------- the boundary case: real particles already centred (centre of mass exactly zero).
   None of the theorems above excludes it (their only hypothesis is a non-zero total mass).  Stated explicitly: move_to_com then leaves
   the real particles where they are, but the variational particles still move, by the variation of the centre of mass. *)
Theorem centred_system_boundary : forall l, let M := Msum (l_m l) in M <> 0 -> MQ (l_m l) (l_q l) = 0 ->
  var1_shift RNum M l = (MQ (l_m l) (l_dq l) + MQ (l_dm l) (l_q l)) / M.
Proof.
  intros l M HM H0. unfold var1_shift, sum_m. rewrite shift1_acc, sumf_Msum. rn. rewrite !Rplus_0_l.
  change (map (fun e : R * R * R * R => snd (fst e)) l) with (l_dm l).
  rewrite (S1sum_closed M _ l HM), H0. field. exact HM.
Qed.
Theorem centred_real_particles_stay : forall ms qs, ms <> [] -> length ms = length qs -> pos_prefix 0 ms -> MQ ms qs = 0 ->
  move_to_com RNum ms qs = qs.
Proof.
  intros ms qs Hne Hl Hp H0. destruct (com_is_weighted_mean ms qs Hne Hl Hp) as (_ & P & E).
  unfold move_to_com. rewrite E, H0. replace (0 / Msum ms) with 0 by (field; lra). apply shift_0.
Qed.
(* an equal-mass binary at x = +1, -1 (centred) whose first body's x is varied: the real particles do not move, the variations shift by 1/2 *)
Example centred_binary_variation_moves :
  let l := [(1, 1, 0, 1); (1, -1, 0, 0)] in
  MQ (l_m l) (l_q l) = 0 /\ move_to_com RNum (l_m l) (l_q l) = l_q l /\ var1_shift RNum 2 l = 1 / 2 /\ move_to_com_var1 RNum 2 l = [1 / 2; - (1 / 2)].
Proof.
  cbv zeta. unfold l_m, l_q, move_to_com_var1, var1_shift, sum_m, move_to_com, com_q, shift. cbn [map fst snd MQ com_range sumf shift1].
  rn. unfold Rltb. repeat (destruct (Rlt_dec _ _); try lra). cbn [snd].
  split; [lra|]. split; [f_equal; [field | f_equal; field]|]. split; [field|]. f_equal; [field | f_equal; field].
Qed.

(* ---------------- corners excluded by [ms <> []] / [pos_prefix]: what the code does there *)
(* N_real = 0: nothing happens *)
Theorem empty_simulation_frames : move_to_com RNum [] [] = [] /\ move_to_hel RNum [] = [] /\ com_m RNum [] [] = 0 /\ com_q RNum [] [] = 0.
Proof. repeat split. Qed.
(* N_real = 1 with a positive mass: the particle ends at rest at the origin under both frame changes *)
Theorem single_particle_frames : forall m q, 0 < m -> move_to_com RNum [m] [q] = [0] /\ move_to_hel RNum [q] = [0].
Proof.
  intros m q Hm. split; [|reflexivity]. unfold move_to_com, com_q, shift. cbn [com_range map snd]. rn. unfold Rltb.
  destruct (Rlt_dec 0 (0 + m)); [|lra]. cbn [snd]. f_equal. field. lra.
Qed.
(* total mass zero (all real particles massless): reb_particle_com_of_pair never divides, the centre of mass is reported as 0 and the real
   particles stay where they are.  (The variational corrections divide by the total mass: with M = 0 the code produces NaN/inf there; the
   theorems about them assume M <> 0.) *)
Theorem all_massless_stay : forall ms qs, Forall (fun m => m = 0) ms -> length ms = length qs -> move_to_com RNum ms qs = qs.
Proof.
  intros ms qs H Hl.
  assert (G : forall ms qs, Forall (fun m => m = 0) ms -> length ms = length qs -> com_range RNum ms qs 0 0 = (0, 0)).
  { clear. induction ms as [|m ms IH]; intros [|q qs] H Hl; try discriminate; [reflexivity|]. inversion H as [|? ? Hm Hr]; subst.
    cbn [com_range]. rn. unfold Rltb. destruct (Rlt_dec 0 (0 + 0)); [lra|].
    replace (0 + 0) with 0 by ring. replace (0 * 0 + q * 0) with 0 by ring. apply IH; [exact Hr | cbn in Hl; injection Hl; auto]. }
  unfold move_to_com, com_q. change (nzero RNum) with 0. rewrite (G ms qs H Hl). cbn [snd]. apply shift_0.
Qed.
