(* C20, units: exact-rational reading of the regenerated tables (coq/Gen/Units.v), the conversion formulas translated
   from rebound/units.py evaluated over R, name look-up (check_units / hash_to_unit with the Murmur model of C14).
   All table facts are decided by vm_compute over Z with cross-multiplication (no Q normalisation). *)
From Coq Require Import ZArith NArith List String Ascii Bool Reals Lra Lia.
From RV Require Import Common.Num Common.RealNum Gen.Units C14.Murmur.
Import ListNotations.
Open Scope Z_scope.

(* ------------------------------------------------------------------ table access *)
Definition names (tbl : list (string * uval)) : list string := map fst tbl.
Definition vals (tbl : list (string * uval)) : list uval := map snd tbl.

Fixpoint lookup (tbl : list (string * uval)) (u : string) : option uval :=
  match tbl with
  | [] => None
  | (k, v) :: r => if String.eqb k u then Some v else lookup r u
  end.
Definition mem (tbl : list (string * uval)) (u : string) : bool :=
  match lookup tbl u with Some _ => true | None => false end.
Definition get (tbl : list (string * uval)) (u : string) : uval :=
  match lookup tbl u with Some v => v | None => (0, 1, false) end.

(* ------------------------------------------------------------------ exact values *)
Definition vpos (v : uval) : bool := let '(n, d, _) := v in (0 <? n) && (0 <? d).
Definition vrat (v : uval) : bool := let '(_, _, s) := v in negb s.
(* v1 = v2 *)
Definition veq (a b : uval) : bool :=
  let '(n1, d1, s1) := a in let '(n2, d2, s2) := b in Bool.eqb s1 s2 && (n1 * d2 =? n2 * d1).
(* v1 = k * v2, both rational *)
Definition vscaled (a : uval) (kn kd : Z) (b : uval) : bool :=
  let '(n1, d1, s1) := a in let '(n2, d2, s2) := b in negb s1 && negb s2 && (n1 * d2 * kd =? kn * n2 * d1).
(* the square as an unnormalised fraction *)
Definition vsq (v : uval) : Z * Z := let '(n, d, s) := v in if s then (n, d) else (n * n, d * d).
Definition vfr (v : uval) : Z * Z := let '(n, d, _) := v in (n, d).
Definition qeq (a b : Z * Z) : bool := fst a * snd b =? fst b * snd a.

(* G in the unit system (l,t,m) as an exact fraction: G_SI * m * t^2 / l^3 (l, m, G_SI rational; t possibly a square root) *)
Definition Gq (l t m : uval) : Z * Z :=
  let '(gn, gd) := vfr G_SI in let '(mn, md) := vfr m in let '(tn, td) := vsq t in let '(ln, ld) := vfr l in
  (gn * mn * tn * (ld * ld * ld), gd * md * td * (ln * ln * ln)).

Definition tables_wellformed : bool :=
  forallb vpos (vals lengths_SI) && forallb vpos (vals times_SI) && forallb vpos (vals masses_SI) && vpos G_SI &&
  forallb vrat (vals lengths_SI) && forallb vrat (vals masses_SI) && vrat G_SI.

(* names: lower-case ascii [a-z0-9_], pairwise distinct across the three tables *)
Definition lower_char (c : ascii) : bool :=
  let n := N_of_ascii c in
  ((97 <=? n) && (n <=? 122) || (48 <=? n) && (n <=? 57) || (n =? 95))%N.
Definition lower_name (s : string) : bool := forallb lower_char (list_ascii_of_string s) && negb (String.eqb s "").
Fixpoint nodupb (l : list string) : bool :=
  match l with [] => true | x :: r => negb (existsb (String.eqb x) r) && nodupb r end.
Definition all_names : list string := names lengths_SI ++ names times_SI ++ names masses_SI.
Definition names_ok : bool := forallb lower_name all_names && nodupb all_names.

(* ------------------------------------------------------------------ check_units (names already lower-cased by .lower()) *)
Definition check_units (us : list string) : option (string * string * string) :=
  let step (acc : option string * option string * option string) (u : string) :=
    let '(l, t, m) := acc in
    (if mem lengths_SI u then Some u else l, if mem times_SI u then Some u else t, if mem masses_SI u then Some u else m) in
  match fold_left step us (None, None, None) with
  | (Some l, Some t, Some m) => if (List.length us =? 3)%nat then Some (l, t, m) else None
  | _ => None
  end.

(* ------------------------------------------------------------------ hash_to_unit *)
Definition bytes (s : string) : list N := map N_of_ascii (list_ascii_of_string s).
Definition hash_name (s : string) : N := reb_hash (bytes s).
Fixpoint first_match (l : list string) (h : N) : option string :=
  match l with [] => None | u :: r => if N.eqb (hash_name u) h then Some u else first_match r h end.
Definition hash_to_unit (h : N) : option string := first_match (flat_map names hash_lookup_order) h.

Definition names_read_back : bool :=
  forallb (fun u => match hash_to_unit (hash_name u) with Some v => String.eqb u v | None => false end) all_names.
Definition hashes_nonzero : bool := forallb (fun u => negb (N.eqb (hash_name u) 0)) all_names.

Definition perms3 (a b c : string) : list (list string) :=
  [[a; b; c]; [a; c; b]; [b; a; c]; [b; c; a]; [c; a; b]; [c; b; a]].
Definition check_units_ok : bool :=
  forallb (fun l => forallb (fun t => forallb (fun m =>
    forallb (fun p => match check_units p with
                      | Some (l', t', m') => String.eqb l l' && String.eqb t t' && String.eqb m m'
                      | None => false end) (perms3 l t m))
    (names masses_SI)) (names times_SI)) (names lengths_SI).

(* ------------------------------------------------------------------ synonyms and prefixes *)
Definition syn (tbl : list (string * uval)) (l : list string) : bool :=
  match l with [] => true | x :: r => mem tbl x && forallb (fun y => mem tbl y && veq (get tbl x) (get tbl y)) r end.
Definition synonyms_ok : bool :=
  syn times_SI ["day"; "days"; "d"] && syn times_SI ["yr"; "year"; "years"; "yrs"; "jyr"] &&
  syn lengths_SI ["au"; "aus"] && syn lengths_SI ["pc"; "parsec"] &&
  syn masses_SI ["g"; "gram"] && syn masses_SI ["msun"; "solarmass"; "sunmass"; "msolar"].
Definition sc (tbl : list (string * uval)) (a : string) (kn kd : Z) (b : string) : bool :=
  mem tbl a && mem tbl b && vscaled (get tbl a) kn kd (get tbl b).
Definition prefixes_ok : bool :=
  sc times_SI "s" 1 1 "s" && veq (get times_SI "s") (1, 1, false) &&
  veq (get lengths_SI "m") (1, 1, false) && veq (get masses_SI "kg") (1, 1, false) &&
  sc times_SI "hr" 3600 1 "s" && sc times_SI "day" 24 1 "hr" && sc times_SI "yr" 36525 100 "day" &&
  sc times_SI "kyr" 1000 1 "yr" && sc times_SI "myr" 1000000 1 "yr" && sc times_SI "gyr" 1000000000 1 "yr" &&
  sc lengths_SI "km" 1000 1 "m" && sc lengths_SI "cm" 1 100 "m" && sc masses_SI "g" 1 1000 "kg".

(* G = 1 for (au, yr2pi, msun); G = G_SI for (m, s, kg); G(au,day,massist): the documented 'G=1 for AU/day' mass unit *)
Definition G_one_ok : bool :=
  qeq (Gq (get lengths_SI "au") (get times_SI "yr2pi") (get masses_SI "msun")) (1, 1).
Definition G_base_ok : bool :=
  qeq (Gq (get lengths_SI "m") (get times_SI "s") (get masses_SI "kg")) (vfr G_SI).
Definition G_pos_ok : bool :=
  forallb (fun l => forallb (fun t => forallb (fun m => let g := Gq l t m in (0 <? fst g) && (0 <? snd g))
    (vals masses_SI)) (vals times_SI)) (vals lengths_SI).

Definition particle_conversion_expected : list (string * string) :=
  [("m", "convert_mass"); ("x", "convert_length"); ("y", "convert_length"); ("z", "convert_length"); ("r", "convert_length");
   ("vx", "convert_vel"); ("vy", "convert_vel"); ("vz", "convert_vel"); ("ax", "convert_acc"); ("ay", "convert_acc"); ("az", "convert_acc")]%string.
Definition pc_eqb (a b : list (string * string)) : bool :=
  (List.length a =? List.length b)%nat &&
  forallb (fun p => String.eqb (fst (fst p)) (fst (snd p)) && String.eqb (snd (fst p)) (snd (snd p))) (combine a b).

(* ------------------------------------------------------------------ computed facts *)
Lemma tables_wellformed_true : tables_wellformed = true. Proof. vm_compute. reflexivity. Qed.
Lemma names_ok_true : names_ok = true. Proof. vm_compute. reflexivity. Qed.
Lemma synonyms_ok_true : synonyms_ok = true. Proof. vm_compute. reflexivity. Qed.
Lemma prefixes_ok_true : prefixes_ok = true. Proof. vm_compute. reflexivity. Qed.
Lemma G_one_ok_true : G_one_ok = true. Proof. vm_compute. reflexivity. Qed.
Lemma G_base_ok_true : G_base_ok = true. Proof. vm_compute. reflexivity. Qed.
Lemma G_pos_ok_true : G_pos_ok = true. Proof. vm_compute. reflexivity. Qed.
Lemma names_read_back_true : names_read_back = true. Proof. vm_compute. reflexivity. Qed.
Lemma hashes_nonzero_true : hashes_nonzero = true. Proof. vm_compute. reflexivity. Qed.
Lemma check_units_ok_true : check_units_ok = true. Proof. vm_compute. reflexivity. Qed.
Lemma particle_conversion_ok : pc_eqb particle_conversion particle_conversion_expected = true.
Proof. vm_compute. reflexivity. Qed.

(* ------------------------------------------------------------------ interpretation in R *)
Open Scope R_scope.
Definition Rval (v : uval) : R := let '(n, d, s) := v in if s then sqrt (IZR n / IZR d) else IZR n / IZR d.
Definition Q2R (q : Z * Z) : R := IZR (fst q) / IZR (snd q).

Lemma vpos_inv : forall n d s, vpos (n, d, s) = true -> (0 < IZR n /\ 0 < IZR d).
Proof.
  intros n d s H. unfold vpos in H. apply andb_true_iff in H. destruct H as [H1 H2].
  apply Z.ltb_lt in H1. apply Z.ltb_lt in H2. split; apply IZR_lt; assumption.
Qed.

Lemma Rval_pos : forall v, vpos v = true -> 0 < Rval v.
Proof.
  intros [[n d] s] H. destruct (vpos_inv _ _ _ H) as [Hn Hd]. unfold Rval. destruct s.
  - apply sqrt_lt_R0. apply Rdiv_lt_0_compat; assumption.
  - apply Rdiv_lt_0_compat; assumption.
Qed.

Lemma Rval_sq : forall v, vpos v = true -> Rval v * Rval v = Q2R (vsq v).
Proof.
  intros [[n d] s] H. destruct (vpos_inv _ _ _ H) as [Hn Hd]. unfold Rval, vsq, Q2R. destruct s; cbn [fst snd].
  - apply sqrt_sqrt. apply Rlt_le. apply Rdiv_lt_0_compat; assumption.
  - rewrite !mult_IZR. field. lra.
Qed.

(* the translated convert_G on the real values of the entries = the exact fraction Gq *)
Lemma convert_G_exact : forall g l t m, vpos g = true -> vpos l = true -> vpos t = true -> vpos m = true ->
  vrat g = true -> vrat l = true -> vrat m = true -> g = G_SI ->
  convert_G RNum (Rval g) (Rval l) (Rval t) (Rval m) = Q2R (Gq l t m) /\ 0 < Q2R (Gq l t m).
Proof.
  intros g l t m Hg Hl Ht Hm Rg Rl Rm Eg.
  assert (E : convert_G RNum (Rval g) (Rval l) (Rval t) (Rval m) = Q2R (Gq l t m)).
  { unfold convert_G. cbn [nmul ndiv RNum]. rewrite (Rval_sq t Ht). subst g.
    unfold Gq. destruct G_SI as [[gn gd] gs]. destruct l as [[ln ld] ls]. destruct m as [[mn md] ms].
    destruct (vsq t) as [tn td] eqn:Et.
    assert (Htq : 0 < IZR tn /\ 0 < IZR td).
    { destruct t as [[a b] s]. destruct (vpos_inv _ _ _ Ht) as [Ha Hb]. unfold vsq in Et. destruct s; inversion Et; subst.
      - split; assumption.
      - rewrite !mult_IZR. split; apply Rmult_lt_0_compat; assumption. }
    cbn in Rg, Rl, Rm. destruct gs; try discriminate. destruct ls; try discriminate. destruct ms; try discriminate.
    destruct (vpos_inv _ _ _ Hg) as [G1 G2]. destruct (vpos_inv _ _ _ Hl) as [L1 L2]. destruct (vpos_inv _ _ _ Hm) as [M1 M2].
    unfold Rval, vfr, Q2R. cbn [fst snd]. rewrite !mult_IZR. field. repeat split; lra. }
  split; [exact E|]. rewrite <- E. unfold convert_G. cbn [nmul ndiv RNum].
  pose proof (Rval_pos g Hg). pose proof (Rval_pos l Hl). pose proof (Rval_pos t Ht). pose proof (Rval_pos m Hm).
  apply Rdiv_lt_0_compat; repeat apply Rmult_lt_0_compat; assumption.
Qed.

Lemma forallb_vals_In : forall (f : uval -> bool) tbl, forallb f (vals tbl) = true -> forall v, In v (vals tbl) -> f v = true.
Proof. intros f tbl H v Hv. rewrite forallb_forall in H. apply H. exact Hv. Qed.

Lemma wf_parts :
  (forall v, In v (vals lengths_SI) -> vpos v = true /\ vrat v = true) /\
  (forall v, In v (vals times_SI) -> vpos v = true) /\
  (forall v, In v (vals masses_SI) -> vpos v = true /\ vrat v = true) /\ vpos G_SI = true /\ vrat G_SI = true.
Proof.
  pose proof tables_wellformed_true as H. unfold tables_wellformed in H.
  repeat (apply andb_true_iff in H; destruct H as [H ?]).
  split; [intros v Hv; split; [apply (forallb_vals_In vpos lengths_SI) | apply (forallb_vals_In vrat lengths_SI)]; assumption|].
  split; [intros v Hv; apply (forallb_vals_In vpos times_SI); assumption|].
  split; [intros v Hv; split; [apply (forallb_vals_In vpos masses_SI) | apply (forallb_vals_In vrat masses_SI)]; assumption|].
  split; assumption.
Qed.

Theorem G_consistent : forall l t m, In l (vals lengths_SI) -> In t (vals times_SI) -> In m (vals masses_SI) ->
  convert_G RNum (Rval G_SI) (Rval l) (Rval t) (Rval m) = Q2R (Gq l t m) /\ 0 < Q2R (Gq l t m).
Proof.
  intros l t m Hl Ht Hm. destruct wf_parts as (WL & WT & WM & WG & RG).
  destruct (WL l Hl). destruct (WM m Hm). apply convert_G_exact; auto.
Qed.

Lemma qeq_Q2R : forall a b, (0 < snd a)%Z -> (0 < snd b)%Z -> qeq a b = true -> Q2R a = Q2R b.
Proof.
  intros [an ad] [bn bd] Ha Hb H. unfold qeq in H. cbn [fst snd] in *. apply Z.eqb_eq in H. unfold Q2R. cbn [fst snd].
  apply IZR_lt in Ha. apply IZR_lt in Hb.
  assert (E : IZR an * IZR bd = IZR bn * IZR ad) by (rewrite <- !mult_IZR; f_equal; exact H).
  apply (Rmult_eq_reg_r (IZR ad * IZR bd)); [|apply Rgt_not_eq; apply Rmult_lt_0_compat; assumption].
  transitivity (IZR an * IZR bd); [field; lra|]. rewrite E. field. lra.
Qed.

Theorem G_is_one :
  convert_G RNum (Rval G_SI) (Rval (get lengths_SI "au")) (Rval (get times_SI "yr2pi")) (Rval (get masses_SI "msun")) = 1.
Proof.
  destruct (G_consistent (get lengths_SI "au") (get times_SI "yr2pi") (get masses_SI "msun")) as [E _].
  - vm_compute. tauto.
  - vm_compute. tauto.
  - vm_compute. tauto.
  - rewrite E.
    rewrite (qeq_Q2R _ (1, 1)%Z); [unfold Q2R; cbn; lra| vm_compute; reflexivity | vm_compute; reflexivity | exact G_one_ok_true].
Qed.

Theorem G_SI_in_SI :
  convert_G RNum (Rval G_SI) (Rval (get lengths_SI "m")) (Rval (get times_SI "s")) (Rval (get masses_SI "kg")) = Rval G_SI.
Proof.
  destruct (G_consistent (get lengths_SI "m") (get times_SI "s") (get masses_SI "kg")) as [E _].
  - vm_compute. tauto.
  - vm_compute. tauto.
  - vm_compute. tauto.
  - rewrite E. rewrite (qeq_Q2R _ (vfr G_SI)); [| vm_compute; reflexivity | vm_compute; reflexivity | exact G_base_ok_true].
    vm_compute. reflexivity.
Qed.

(* ------------------------------------------------------------------ algebra of the conversion formulas (any non-zero unit values) *)
Section Algebra.
  Variables l1 l2 l3 t1 t2 t3 m1 m2 m3 : R.
  Hypothesis Hl1 : l1 <> 0. Hypothesis Hl2 : l2 <> 0. Hypothesis Hl3 : l3 <> 0.
  Hypothesis Ht1 : t1 <> 0. Hypothesis Ht2 : t2 <> 0. Hypothesis Ht3 : t3 <> 0.
  Hypothesis Hm1 : m1 <> 0. Hypothesis Hm2 : m2 <> 0. Hypothesis Hm3 : m3 <> 0.

  Ltac cv := unfold convert_mass, convert_length, convert_vel, convert_acc, convert_G; cbn [nmul ndiv nadd nsub RNum].

  Lemma roundtrip : forall x,
    convert_mass RNum (convert_mass RNum x m1 m2) m2 m1 = x /\
    convert_length RNum (convert_length RNum x l1 l2) l2 l1 = x /\
    convert_vel RNum (convert_vel RNum x l1 l2 t1 t2) l2 l1 t2 t1 = x /\
    convert_acc RNum (convert_acc RNum x l1 l2 t1 t2) l2 l1 t2 t1 = x.
  Proof. intro x. cv. repeat split; field; auto. Qed.

  Lemma transitive : forall x,
    convert_mass RNum (convert_mass RNum x m1 m2) m2 m3 = convert_mass RNum x m1 m3 /\
    convert_length RNum (convert_length RNum x l1 l2) l2 l3 = convert_length RNum x l1 l3 /\
    convert_vel RNum (convert_vel RNum x l1 l2 t1 t2) l2 l3 t2 t3 = convert_vel RNum x l1 l3 t1 t3 /\
    convert_acc RNum (convert_acc RNum x l1 l2 t1 t2) l2 l3 t2 t3 = convert_acc RNum x l1 l3 t1 t3.
  Proof. intro x. cv. repeat split; field; auto. Qed.

  Lemma identity_conv : forall x,
    convert_mass RNum x m1 m1 = x /\ convert_length RNum x l1 l1 = x /\
    convert_vel RNum x l1 l1 t1 t1 = x /\ convert_acc RNum x l1 l1 t1 t1 = x.
  Proof. intro x. cv. repeat split; field; auto. Qed.

  (* Newtonian acceleration G m / r^2 computed in system 1 and converted = computed in system 2 from converted data *)
  Lemma gravity_invariant : forall g m r, r <> 0 ->
    convert_acc RNum (convert_G RNum g l1 t1 m1 * m / (r * r)) l1 l2 t1 t2 =
    convert_G RNum g l2 t2 m2 * convert_mass RNum m m1 m2 / (convert_length RNum r l1 l2 * convert_length RNum r l1 l2).
  Proof. intros g m r Hr. cv. field. repeat split; auto. Qed.

  (* v = dx/dt and a = dv/dt scale consistently: a velocity is a length per time *)
  Lemma vel_is_length_per_time : forall x tau, tau <> 0 ->
    convert_vel RNum (x / tau) l1 l2 t1 t2 = convert_length RNum x l1 l2 / (tau * t1 / t2) /\
    convert_acc RNum (x / (tau * tau)) l1 l2 t1 t2 = convert_length RNum x l1 l2 / ((tau * t1 / t2) * (tau * t1 / t2)).
  Proof. intros x tau Ht. cv. split; field; repeat split; auto. Qed.

  (* Kepler's third law P^2 G M = k a^3 (k = 4 pi^2, any constant) holds in system 2 for the converted data iff in system 1;
     units.py has no convert_time: a time converts as tau * t1 / t2 *)
  Lemma period_invariant : forall g k P M a,
    (P * P * convert_G RNum g l1 t1 m1 * M = k * (a * a * a)) <->
    (let P' := P * t1 / t2 in let M' := convert_mass RNum M m1 m2 in let a' := convert_length RNum a l1 l2 in
     P' * P' * convert_G RNum g l2 t2 m2 * M' = k * (a' * a' * a')).
  Proof.
    intros g k P M a. cv. cbv zeta.
    assert (E : P * t1 / t2 * (P * t1 / t2) * (g * m2 * (t2 * t2) / (l2 * l2 * l2)) * (M * m1 / m2)
                = (P * P * (g * m1 * (t1 * t1) / (l1 * l1 * l1)) * M) * ((l1 * l1 * l1) / (l2 * l2 * l2))) by (field; repeat split; auto).
    assert (F : k * (a * l1 / l2 * (a * l1 / l2) * (a * l1 / l2)) = (k * (a * a * a)) * ((l1 * l1 * l1) / (l2 * l2 * l2))) by (field; auto).
    rewrite E, F. split.
    - intros H. rewrite H. reflexivity.
    - intros H. apply Rmult_eq_reg_r in H; [exact H|].
      unfold Rdiv. apply Rmult_integral_contrapositive_currified.
      + repeat apply Rmult_integral_contrapositive_currified; auto.
      + apply Rinv_neq_0_compat. repeat apply Rmult_integral_contrapositive_currified; auto.
  Qed.
End Algebra.

(* every table value is non-zero, so the algebraic lemmas apply to every pair / triple of supported units *)
Lemma table_values_nonzero :
  (forall v, In v (vals lengths_SI) -> Rval v <> 0) /\ (forall v, In v (vals times_SI) -> Rval v <> 0) /\
  (forall v, In v (vals masses_SI) -> Rval v <> 0).
Proof.
  destruct wf_parts as (WL & WT & WM & _).
  repeat split; intros v Hv; apply Rgt_not_eq; apply Rval_pos; [apply WL | apply WT | apply WM]; exact Hv.
Qed.

(* ------------------------------------------------------------------ the pow-abstract bodies (compared bit for bit with Python) are the same functions *)
Lemma pw_agrees : forall x a b c d g,
  convert_mass_pw RNum x a b = convert_mass RNum x a b /\
  convert_length_pw RNum x a b = convert_length RNum x a b /\
  convert_vel_pw RNum x a b c d = convert_vel RNum x a b c d /\
  convert_acc_pw RNum (fun t => t * t) x a b c d = convert_acc RNum x a b c d /\
  convert_G_pw RNum (fun t => t * t) (fun l => l * l * l) g a b c = convert_G RNum g a b c.
Proof. intros. repeat split; reflexivity. Qed.

(* ------------------------------------------------------------------ whole particles: units_convert_particle over R *)
Definition conv_memberR (fn : string) (x lo ln to tn mo mn : R) : R :=
  if String.eqb fn "convert_mass" then convert_mass RNum x mo mn
  else if String.eqb fn "convert_length" then convert_length RNum x lo ln
  else if String.eqb fn "convert_vel" then convert_vel RNum x lo ln to tn
  else if String.eqb fn "convert_acc" then convert_acc RNum x lo ln to tn
  else x.
(* vals in the order of particle_conversion: m x y z r vx vy vz ax ay az; u = (l, t, m) unit values *)
Definition conv_particleR (vals : list R) (u0 u1 : R * R * R) : list R :=
  let '(lo, to, mo) := u0 in let '(ln, tn, mn) := u1 in
  map (fun c => conv_memberR (snd (fst c)) (snd c) lo ln to tn mo mn) (combine particle_conversion vals).
Definition unz (u : R * R * R) : Prop := fst (fst u) <> 0 /\ snd (fst u) <> 0 /\ snd u <> 0.

Definition conv_list (pc : list (string * string)) (vals : list R) (lo ln to tn mo mn : R) : list R :=
  map (fun c => conv_memberR (snd (fst c)) (snd c) lo ln to tn mo mn) (combine pc vals).

Lemma member_roundtrip : forall fn x l0 l1 t0 t1 m0 m1, l0 <> 0 -> l1 <> 0 -> t0 <> 0 -> t1 <> 0 -> m0 <> 0 -> m1 <> 0 ->
  conv_memberR fn (conv_memberR fn x l0 l1 t0 t1 m0 m1) l1 l0 t1 t0 m1 m0 = x.
Proof.
  intros fn x l0 l1 t0 t1 m0 m1 A B C D E F. unfold conv_memberR.
  pose proof (roundtrip l0 l1 t0 t1 m0 m1) as R. do 6 (specialize (R ltac:(assumption))). destruct (R x) as (R1 & R2 & R3 & R4).
  destruct (String.eqb fn "convert_mass"); [exact R1|]. destruct (String.eqb fn "convert_length"); [exact R2|].
  destruct (String.eqb fn "convert_vel"); [exact R3|]. destruct (String.eqb fn "convert_acc"); [exact R4 | reflexivity].
Qed.
Lemma member_transitive : forall fn x l0 l1 l2 t0 t1 t2 m0 m1 m2, l1 <> 0 -> l2 <> 0 -> t0 <> 0 -> t1 <> 0 -> m1 <> 0 -> m2 <> 0 ->
  conv_memberR fn (conv_memberR fn x l0 l1 t0 t1 m0 m1) l1 l2 t1 t2 m1 m2 = conv_memberR fn x l0 l2 t0 t2 m0 m2.
Proof.
  intros fn x l0 l1 l2 t0 t1 t2 m0 m1 m2 A B C D E F. unfold conv_memberR.
  pose proof (transitive l0 l1 l2 t0 t1 t2 m0 m1 m2) as R. do 6 (specialize (R ltac:(assumption))). destruct (R x) as (R1 & R2 & R3 & R4).
  destruct (String.eqb fn "convert_mass"); [exact R1|]. destruct (String.eqb fn "convert_length"); [exact R2|].
  destruct (String.eqb fn "convert_vel"); [exact R3|]. destruct (String.eqb fn "convert_acc"); [exact R4 | reflexivity].
Qed.

Lemma conv_list_roundtrip : forall pc vals l0 l1 t0 t1 m0 m1, List.length pc = List.length vals ->
  l0 <> 0 -> l1 <> 0 -> t0 <> 0 -> t1 <> 0 -> m0 <> 0 -> m1 <> 0 ->
  conv_list pc (conv_list pc vals l0 l1 t0 t1 m0 m1) l1 l0 t1 t0 m1 m0 = vals.
Proof.
  unfold conv_list. induction pc as [|p pc IH]; intros [|v vals] l0 l1 t0 t1 m0 m1 H A B C D E F; try discriminate; [reflexivity|].
  cbn [combine map fst snd]. injection H as H. f_equal; [apply member_roundtrip; assumption | apply IH; assumption].
Qed.
Lemma conv_list_transitive : forall pc vals l0 l1 l2 t0 t1 t2 m0 m1 m2, List.length pc = List.length vals ->
  l1 <> 0 -> l2 <> 0 -> t0 <> 0 -> t1 <> 0 -> m1 <> 0 -> m2 <> 0 ->
  conv_list pc (conv_list pc vals l0 l1 t0 t1 m0 m1) l1 l2 t1 t2 m1 m2 = conv_list pc vals l0 l2 t0 t2 m0 m2.
Proof.
  unfold conv_list. induction pc as [|p pc IH]; intros [|v vals] l0 l1 l2 t0 t1 t2 m0 m1 m2 H A B C D E F; try discriminate; [reflexivity|].
  cbn [combine map fst snd]. injection H as H. f_equal; [apply member_transitive; assumption | apply IH; assumption].
Qed.

Theorem particle_roundtrip : forall vals u0 u1, List.length vals = List.length particle_conversion -> unz u0 -> unz u1 ->
  conv_particleR (conv_particleR vals u0 u1) u1 u0 = vals.
Proof.
  intros vals [[l0 t0] m0] [[l1 t1] m1] H (A & B & C) (D & E & F). cbn [fst snd] in *. unfold conv_particleR.
  apply (conv_list_roundtrip particle_conversion vals l0 l1 t0 t1 m0 m1); auto.
Qed.
Theorem particle_transitive : forall vals u0 u1 u2, List.length vals = List.length particle_conversion -> unz u0 -> unz u1 -> unz u2 ->
  conv_particleR (conv_particleR vals u0 u1) u1 u2 = conv_particleR vals u0 u2.
Proof.
  intros vals [[l0 t0] m0] [[l1 t1] m1] [[l2 t2] m2] H (A & B & C) (D & E & F) (G1 & G2 & G3). cbn [fst snd] in *. unfold conv_particleR.
  apply (conv_list_transitive particle_conversion vals l0 l1 l2 t0 t1 t2 m0 m1 m2); auto.
Qed.

(* a relative error delta of G (e.g. the 2^-49 of the binary64 G checked against the exact tables on every run) moves the square of a
   Kepler period by at most delta/(1-delta) relative *)
Theorem period_within_bound : forall G Gf delta k M a P Pf, 0 < G -> 0 <= delta < 1 -> Rabs (Gf - G) <= delta * G -> 0 < M -> 0 <= k * (a * a * a) ->
  P * P * G * M = k * (a * a * a) -> Pf * Pf * Gf * M = k * (a * a * a) ->
  Rabs (Pf * Pf - P * P) <= delta / (1 - delta) * (P * P).
Proof.
  intros G Gf delta k M a P Pf HG [Hd0 Hd1] HE HM Hk E1 E2.
  assert (HGf : (1 - delta) * G <= Gf) by (unfold Rabs in HE; destruct (Rcase_abs (Gf - G)); nra).
  assert (HGf0 : 0 < Gf) by nra.
  set (K := k * (a * a * a)) in *.
  assert (P2 : P * P = K / (G * M)) by (apply (Rmult_eq_reg_r (G * M)); [rewrite <- E1; field; nra | nra]).
  assert (Pf2 : Pf * Pf = K / (Gf * M)) by (apply (Rmult_eq_reg_r (Gf * M)); [rewrite <- E2; field; nra | nra]).
  rewrite P2, Pf2.
  replace (K / (Gf * M) - K / (G * M)) with (K / (G * M) * ((G - Gf) / Gf)) by (field; nra).
  rewrite Rabs_mult. rewrite (Rabs_right (K / (G * M))) by (apply Rle_ge, Rmult_le_pos; [exact Hk | apply Rlt_le, Rinv_0_lt_compat; nra]).
  rewrite (Rmult_comm (delta / (1 - delta))). apply Rmult_le_compat_l; [apply Rmult_le_pos; [exact Hk | apply Rlt_le, Rinv_0_lt_compat; nra]|].
  unfold Rdiv at 1. rewrite Rabs_mult, (Rabs_right (/ Gf)) by (apply Rle_ge, Rlt_le, Rinv_0_lt_compat; exact HGf0).
  rewrite Rabs_minus_sym.
  apply (Rmult_le_reg_r Gf); [exact HGf0|]. rewrite Rmult_assoc, Rinv_l, Rmult_1_r by lra.
  apply Rle_trans with (delta * G); [exact HE|].
  apply (Rmult_le_reg_r (1 - delta)); [lra|].
  replace (delta / (1 - delta) * Gf * (1 - delta)) with (delta * Gf) by (field; lra). nra.
Qed.
