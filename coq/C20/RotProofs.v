(* C20, rotations over R: quaternion algebra, rotation of vectors, constructors. *)
From Coq Require Import ZArith List Reals Lra Lia Psatz.
From RV Require C20.NsatzR.   (* not imported: Nsatz's "0"/"1" notations would capture the literals of the statements *)
Ltac nsatz := C20.NsatzR.rnsatz.
From RV Require Import Common.Num Common.RealNum C20.Rotation.
Import ListNotations.
Open Scope R_scope.

Notation vecR := (vec3 R).
Notation quatR := (quat R).
Notation Rmul := (q_mul RNum).
Notation Rrot := (rotate RNum).
Notation Rdot := (v_dot RNum).
Notation Rcross := (v_cross RNum).
Notation Rlsq := (v_lsq RNum).
Notation Rqlsq := (q_lsq RNum).

Ltac unf := cbv beta iota zeta delta [rotate q_mul q_lsq q_conj q_inverse q_identity q_normalize q_imag v_mul v_add v_cross v_dot v_lsq v_normalize two
            nadd nsub nmul ndiv nneg nzero none nofZ nsqrt nabs RNum vx vy vz qix qiy qiz qr] in *.

Lemma vec_eq : forall a b : vecR, vx a = vx b -> vy a = vy b -> vz a = vz b -> a = b.
Proof. intros [a1 a2 a3] [b1 b2 b3]; cbn; intros; subst; reflexivity. Qed.
Lemma quat_eq : forall a b : quatR, qix a = qix b -> qiy a = qiy b -> qiz a = qiz b -> qr a = qr b -> a = b.
Proof. intros [a1 a2 a3 a4] [b1 b2 b3 b4]; cbn; intros; subst; reflexivity. Qed.

(* ---------------- quaternion algebra (any quaternions) *)
Lemma mul_assoc : forall a b c : quatR, Rmul (Rmul a b) c = Rmul a (Rmul b c).
Proof. intros. apply quat_eq; unf; ring. Qed.
Lemma mul_id_l : forall q : quatR, Rmul (q_identity RNum) q = q.
Proof. intros [a b c d]. apply quat_eq; unf; ring. Qed.
Lemma mul_id_r : forall q : quatR, Rmul q (q_identity RNum) = q.
Proof. intros [a b c d]. apply quat_eq; unf; ring. Qed.
Lemma lsq_mul : forall p q : quatR, Rqlsq (Rmul p q) = Rqlsq p * Rqlsq q.
Proof. intros. unf. ring. Qed.
Lemma conj_mul : forall p q : quatR, q_conj RNum (Rmul p q) = Rmul (q_conj RNum q) (q_conj RNum p).
Proof. intros. apply quat_eq; unf; ring. Qed.
Lemma lsq_conj : forall q : quatR, Rqlsq (q_conj RNum q) = Rqlsq q.
Proof. intros. unf. ring. Qed.
Lemma inverse_law : forall q : quatR, Rqlsq q <> 0 ->
  Rmul q (q_inverse RNum q) = q_identity RNum /\ Rmul (q_inverse RNum q) q = q_identity RNum.
Proof. intros q H. split; apply quat_eq; unf; field; exact H. Qed.
Lemma inverse_unit : forall q : quatR, Rqlsq q = 1 -> q_inverse RNum q = q_conj RNum q.
Proof. intros q H. apply quat_eq; unf; rewrite H; field. Qed.
Lemma lsq_inverse : forall q : quatR, Rqlsq q <> 0 -> Rqlsq (q_inverse RNum q) = / Rqlsq q.
Proof. intros q H. unf. field. exact H. Qed.

(* ---------------- rotation of a vector: v + 2r(u x v) + 2u x (u x v) = q v q* + (1-|q|^2) v *)
Definition sand (q : quatR) (v : vecR) : vecR :=
  let p := Rmul (Rmul q (mkQ (vx v) (vy v) (vz v) 0)) (q_conj RNum q) in mkV (qix p) (qiy p) (qiz p).
Lemma rotate_sand : forall q v, Rrot v q = v_add RNum (sand q v) (v_mul RNum v (1 - Rqlsq q)).
Proof. intros. apply vec_eq; unfold sand; unf; ring. Qed.
Lemma rotate_sand_unit : forall q v, Rqlsq q = 1 -> Rrot v q = sand q v.
Proof. intros q v H. rewrite rotate_sand, H. apply vec_eq; unfold sand; unf; ring. Qed.
Lemma sand_mul : forall p q v, sand (Rmul p q) v = sand p (sand q v).
Proof. intros. apply vec_eq; unfold sand; unf; ring. Qed.
Lemma sand_dot : forall q a b, Rdot (sand q a) (sand q b) = Rqlsq q * Rqlsq q * Rdot a b.
Proof. intros. unfold sand; unf; ring. Qed.
Lemma sand_cross : forall q a b, Rcross (sand q a) (sand q b) = v_mul RNum (sand q (Rcross a b)) (Rqlsq q).
Proof. intros. apply vec_eq; unfold sand; unf; ring. Qed.

Theorem rotate_mul : forall p q v, Rqlsq p = 1 -> Rqlsq q = 1 -> Rrot v (Rmul p q) = Rrot (Rrot v q) p.
Proof.
  intros p q v Hp Hq. rewrite !rotate_sand_unit; auto. apply sand_mul. rewrite lsq_mul, Hp, Hq. ring.
Qed.
Theorem rotate_dot : forall q a b, Rqlsq q = 1 -> Rdot (Rrot a q) (Rrot b q) = Rdot a b.
Proof. intros q a b H. rewrite !rotate_sand_unit by exact H. rewrite sand_dot, H. ring. Qed.
Theorem rotate_norm : forall q v, Rqlsq q = 1 -> Rlsq (Rrot v q) = Rlsq v.
Proof. intros. unfold v_lsq. apply rotate_dot. assumption. Qed.
Theorem rotate_cross : forall q a b, Rqlsq q = 1 -> Rrot (Rcross a b) q = Rcross (Rrot a q) (Rrot b q).
Proof.
  intros q a b H. rewrite !rotate_sand_unit by exact H. rewrite sand_cross, H.
  apply vec_eq; unf; ring.
Qed.
Theorem rotate_identity : forall v, Rrot v (q_identity RNum) = v.
Proof. intros [a b c]. apply vec_eq; unf; ring. Qed.
Theorem rotate_inverse : forall q v, Rqlsq q = 1 -> Rrot (Rrot v q) (q_inverse RNum q) = v /\ Rrot (Rrot v (q_inverse RNum q)) q = v.
Proof.
  intros q v H. assert (Hn : Rqlsq q <> 0) by (rewrite H; lra).
  assert (Hi : Rqlsq (q_inverse RNum q) = 1) by (rewrite lsq_inverse, H by exact Hn; field).
  destruct (inverse_law q Hn) as [E1 E2].
  split; rewrite <- rotate_mul by assumption; [rewrite E2 | rewrite E1]; apply rotate_identity.
Qed.
(* linear: differences of position vectors rotate like vectors, so relative geometry is preserved *)
Theorem rotate_linear : forall q a b s, Rrot (v_add RNum a (v_mul RNum b s)) q = v_add RNum (Rrot a q) (v_mul RNum (Rrot b q) s).
Proof. intros. apply vec_eq; unf; ring. Qed.

(* ---------------- normalisation *)

Lemma inv_sqrt_sq : forall L, 0 < L -> (1 / sqrt L) * (1 / sqrt L) * L = 1 /\ 0 < 1 / sqrt L.
Proof.
  intros L H. assert (Hs : 0 < sqrt L) by (apply sqrt_lt_R0; exact H).
  assert (Hr : sqrt L * sqrt L = L) by (apply sqrt_sqrt; lra).
  remember (sqrt L) as r. split.
  - rewrite <- Hr. field. lra.
  - apply Rdiv_lt_0_compat; lra.
Qed.
Lemma lsq_nonneg : forall v : vecR, 0 <= Rlsq v.
Proof. intros [a b c]. unf. nra. Qed.
Lemma lsq_zero : forall v : vecR, Rlsq v = 0 -> v = mkV 0 0 0.
Proof.
  intros [a b c] H. unf.
  pose proof (Rle_0_sqr a) as Pa. pose proof (Rle_0_sqr b) as Pb. pose proof (Rle_0_sqr c) as Pc. unfold Rsqr in *.
  assert (Ha : a * a = 0) by lra. assert (Hb : b * b = 0) by lra. assert (Hc : c * c = 0) by lra.
  assert (a = 0) by (destruct (Rmult_integral _ _ Ha); assumption).
  assert (b = 0) by (destruct (Rmult_integral _ _ Hb); assumption).
  assert (c = 0) by (destruct (Rmult_integral _ _ Hc); assumption).
  subst. reflexivity.
Qed.
Lemma normalize_unit : forall v : vecR, 0 < Rlsq v -> Rlsq (v_normalize RNum v) = 1.
Proof.
  intros [a b c] H. destruct (inv_sqrt_sq _ H) as [E _]. unfold v_normalize. set (s := ndiv RNum (none RNum) (nsqrt RNum (Rlsq (mkV a b c)))) in *.
  change (s * s * Rlsq (mkV a b c) = 1) in E. unf. nsatz.
Qed.
Lemma normalize_zero_lsq : forall v : vecR, Rlsq v = 0 -> Rlsq (v_normalize RNum v) = 0.
Proof. intros v H. rewrite (lsq_zero v H). unf. ring. Qed.

(* ---------------- constructors *)
Theorem angle_axis_unit : forall c s axis, c * c + s * s = 1 -> 0 < Rlsq axis -> Rqlsq (angle_axis RNum c s axis) = 1.
Proof.
  intros c s axis H Ha. pose proof (normalize_unit axis Ha) as Hn. unfold angle_axis. revert Hn.
  destruct (v_normalize RNum axis) as [a1 a2 a3]. intro Hn. clear Ha axis. unf. nsatz.
Qed.
(* the rotation fixes its axis and turns a perpendicular vector by the full angle, counter-clockwise:
   cos(angle) = c^2 - s^2, sin(angle) = 2 s c for c = cos(angle/2), s = sin(angle/2) *)
Theorem angle_axis_rotates : forall c s axis p, c * c + s * s = 1 -> 0 < Rlsq axis ->
  let a := v_normalize RNum axis in let q := angle_axis RNum c s axis in
  Rrot a q = a /\
  (Rdot a p = 0 -> Rrot p q = v_add RNum (v_mul RNum p (c * c - s * s)) (v_mul RNum (Rcross a p) (2 * s * c))).
Proof.
  intros c s axis p H Ha. pose proof (normalize_unit axis Ha) as Hn. unfold angle_axis. cbv zeta. revert Hn.
  destruct (v_normalize RNum axis) as [a1 a2 a3]. intro Hn. clear Ha axis. destruct p as [p1 p2 p3]. split.
  - apply vec_eq; unf; nsatz.
  - intros Hp. apply vec_eq; unf; nsatz.
Qed.

Lemma reduced_abstract : forall f1 f2 f3 t1 t2 t3 s,
  f1*f1+f2*f2+f3*f3 = 1 -> t1*t1+t2*t2+t3*t3 = 1 ->
  s*s*((f1+t1)*(f1+t1)+(f2+t2)*(f2+t2)+(f3+t3)*(f3+t3)) = 1 ->
  let f := mkV f1 f2 f3 in let h := v_mul RNum (mkV (f1+t1) (f2+t2) (f3+t3)) s in
  let q := mkQ (vx (Rcross f h)) (vy (Rcross f h)) (vz (Rcross f h)) (Rdot f h) in
  Rqlsq q = 1 /\ Rrot f q = mkV t1 t2 t3.
Proof.
  intros. subst f h q. split.
  - unf. nsatz.
  - apply vec_eq; unf; nsatz.
Qed.

Lemma reduced_spec : forall f t : vecR, Rlsq f = 1 -> Rlsq t = 1 -> 0 < Rlsq (v_add RNum f t) ->
  Rqlsq (from_to_reduced RNum f t) = 1 /\ Rrot f (from_to_reduced RNum f t) = t.
Proof.
  intros [f1 f2 f3] [t1 t2 t3] Hf Ht HL. destruct (inv_sqrt_sq _ HL) as [E _].
  unfold from_to_reduced, v_normalize. cbn [vx vy vz].
  change (nadd RNum f1 t1) with (f1 + t1). change (nadd RNum f2 t2) with (f2 + t2). change (nadd RNum f3 t3) with (f3 + t3).
  set (s := ndiv RNum (none RNum) (nsqrt RNum (Rlsq (mkV (f1 + t1) (f2 + t2) (f3 + t3))))).
  apply (reduced_abstract f1 f2 f3 t1 t2 t3 s).
  - revert Hf. unf. intro Hf. lra.
  - revert Ht. unf. intro Ht. lra.
  - subst s. revert E. unf. intro E. lra.
Qed.

(* quaternions with parallel imaginary parts commute *)
Lemma mul_comm_parallel : forall (u : vecR) a b c d,
  Rmul (mkQ (a * vx u) (a * vy u) (a * vz u) b) (mkQ (c * vx u) (c * vy u) (c * vz u) d) =
  Rmul (mkQ (c * vx u) (c * vy u) (c * vz u) d) (mkQ (a * vx u) (a * vy u) (a * vz u) b).
Proof. intros. apply quat_eq; unf; ring. Qed.

(* ---------------- init_from_to *)
Definition isnormR (x : R) : bool := negb (Reqb x 0).

Lemma lsq_add_unit : forall f t : vecR, Rlsq f = 1 -> Rlsq t = 1 -> Rlsq (v_add RNum f t) = 2 + 2 * Rdot f t.
Proof. intros [f1 f2 f3] [t1 t2 t3] Hf Ht. unf. nsatz. Qed.

Lemma reduced_form : forall f g : vecR, exists s,
  from_to_reduced RNum f g =
  mkQ (s * vx (Rcross f g)) (s * vy (Rcross f g)) (s * vz (Rcross f g)) (s * (Rlsq f + Rdot f g)).
Proof.
  intros [f1 f2 f3] [g1 g2 g3]. unfold from_to_reduced, v_normalize. cbn [vx vy vz].
  set (s := ndiv RNum (none RNum) _). exists s. apply quat_eq; unf; ring.
Qed.

Lemma dot_half_pos : forall f t : vecR, Rlsq f = 1 -> Rlsq t = 1 -> 0 < Rlsq (v_add RNum f t) ->
  let h := v_normalize RNum (v_add RNum f t) in 0 < Rdot f h /\ 0 < Rdot h t.
Proof.
  intros f t Hf Ht HL. pose proof (lsq_add_unit f t Hf Ht) as EL. destruct (inv_sqrt_sq _ HL) as [_ Hs].
  cbv zeta. unfold v_normalize. set (s := ndiv RNum (none RNum) _). change (0 < s) in Hs.
  destruct f as [f1 f2 f3]. destruct t as [t1 t2 t3]. clearbody s. revert Hf Ht HL EL. unf. intros Hf Ht HL EL.
  assert (P : 0 < 1 + (f1 * t1 + f2 * t2 + f3 * t3)) by lra. clear HL EL. revert Hs P. 
  assert (E1 : s * (f1 + t1) * f1 + s * (f2 + t2) * f2 + s * (f3 + t3) * f3 = s * (1 + (f1 * t1 + f2 * t2 + f3 * t3))) by nsatz.
  assert (E2 : s * (f1 + t1) * t1 + s * (f2 + t2) * t2 + s * (f3 + t3) * t3 = s * (1 + (f1 * t1 + f2 * t2 + f3 * t3))) by nsatz.
  intros Hs P.
  split.
  - replace (f1 * (s * (f1 + t1)) + f2 * (s * (f2 + t2)) + f3 * (s * (f3 + t3))) with (s * (1 + (f1 * t1 + f2 * t2 + f3 * t3))) by (rewrite <- E1; ring).
    apply Rmult_lt_0_compat; assumption.
  - rewrite E2. apply Rmult_lt_0_compat; assumption.
Qed.

Lemma two_stage_commute : forall (f t : vecR) s0,
  let h := v_mul RNum (v_add RNum f t) s0 in
  Rmul (from_to_reduced RNum f h) (from_to_reduced RNum h t) = Rmul (from_to_reduced RNum h t) (from_to_reduced RNum f h).
Proof.
  intros f t s0 h. destruct (reduced_form f h) as [s1 E1]. destruct (reduced_form h t) as [s2 E2]. rewrite E1, E2. subst h.
  destruct f as [f1 f2 f3]. destruct t as [t1 t2 t3]. apply quat_eq; unf; ring.
Qed.

Lemma two_stage_spec : forall f t : vecR, Rlsq f = 1 -> Rlsq t = 1 -> 0 < Rlsq (v_add RNum f t) ->
  let h := v_normalize RNum (v_add RNum f t) in
  let q := Rmul (from_to_reduced RNum f h) (from_to_reduced RNum h t) in
  Rqlsq q = 1 /\ Rrot f q = t.
Proof.
  intros f t Hf Ht HL h q. pose proof (normalize_unit _ HL) as Hh. fold h in Hh.
  destruct (dot_half_pos f t Hf Ht HL) as [P1 P2]. fold h in P1, P2.
  assert (L1 : 0 < Rlsq (v_add RNum f h)) by (rewrite (lsq_add_unit f h Hf Hh); lra).
  assert (L2 : 0 < Rlsq (v_add RNum h t)) by (rewrite (lsq_add_unit h t Hh Ht); lra).
  destruct (reduced_spec f h Hf Hh L1) as [U1 R1]. destruct (reduced_spec h t Hh Ht L2) as [U2 R2].
  subst q. split.
  - rewrite lsq_mul, U1, U2. ring.
  - unfold h at 1 2. unfold v_normalize. rewrite two_stage_commute. fold (v_normalize RNum (v_add RNum f t)). fold h.
    rewrite rotate_mul by assumption. rewrite R1. exact R2.
Qed.

Lemma axis_quat_spec : forall f e : vecR, Rlsq f = 1 -> 0 < Rlsq (Rcross f e) ->
  let q := axis_quat RNum f e in Rqlsq q = 1 /\ Rrot f q = v_mul RNum f (-1) /\ qr q = 0.
Proof.
  intros f e Hf HL. destruct (inv_sqrt_sq _ HL) as [E _]. cbv zeta. unfold axis_quat, v_normalize.
  set (s := ndiv RNum (none RNum) _) in *. change (s * s * Rlsq (Rcross f e) = 1) in E.
  destruct f as [f1 f2 f3]. destruct e as [e1 e2 e3]. clear HL. revert Hf E. unf. intros Hf E.
  split; [nsatz | split; [apply vec_eq; cbn [vx vy vz]; nsatz | reflexivity]].
Qed.

Lemma Rleb_true : forall a b, Rleb a b = true -> a <= b.
Proof. intros a b. unfold Rleb. destruct (Rle_dec a b); [auto | discriminate]. Qed.
Lemma Rleb_false : forall a b, Rleb a b = false -> b < a.
Proof. intros a b. unfold Rleb. destruct (Rle_dec a b); [discriminate | intros; lra]. Qed.
Lemma Rltb_true : forall a b, Rltb a b = true -> a < b.
Proof. intros a b. unfold Rltb. destruct (Rlt_dec a b); [auto | discriminate]. Qed.
Lemma Rltb_false : forall a b, Rltb a b = false -> b <= a.
Proof. intros a b. unfold Rltb. destruct (Rlt_dec a b); [discriminate | intros; lra]. Qed.
Lemma abs_le_sq : forall a b, Rabs a <= Rabs b -> a * a <= b * b.
Proof. intros a b H. apply Rsqr_le_abs_1 in H. exact H. Qed.
Lemma abs_lt_sq : forall a b, Rabs a < Rabs b -> a * a < b * b.
Proof. intros a b H. apply Rsqr_lt_abs_1 in H. exact H. Qed.

(* the antiparallel branch: a half turn (real part 0) about a unit axis orthogonal to from *)
Lemma antiparallel_spec : forall f : vecR, Rlsq f = 1 ->
  let ax := nabs RNum (vx f) in let ay := nabs RNum (vy f) in let az := nabs RNum (vz f) in
  let q := if andb (nleb RNum ax ay) (nleb RNum ax az) then axis_quat RNum f (mkV 1 0 0)
           else if nleb RNum ay az then axis_quat RNum f (mkV 0 1 0) else axis_quat RNum f (mkV 0 0 1) in
  Rqlsq q = 1 /\ Rrot f q = v_mul RNum f (-1) /\ qr q = 0.
Proof.
  intros [f1 f2 f3] Hf. cbv zeta. cbn [vx vy vz nabs nleb RNum].
  assert (Hf' : f1 * f1 + f2 * f2 + f3 * f3 = 1) by (revert Hf; unf; intro; lra).
  destruct (Rleb (Rabs f1) (Rabs f2)) eqn:A; [destruct (Rleb (Rabs f1) (Rabs f3)) eqn:B|]; cbn [andb].
  - apply axis_quat_spec; [exact Hf|]. apply Rleb_true, abs_le_sq in A. apply Rleb_true, abs_le_sq in B. unf. nra.
  - destruct (Rleb (Rabs f2) (Rabs f3)) eqn:C.
    + apply axis_quat_spec; [exact Hf|]. apply Rleb_true, abs_le_sq in C. unf. nra.
    + apply axis_quat_spec; [exact Hf|]. apply Rleb_false, abs_lt_sq in C. unf. nra.
  - destruct (Rleb (Rabs f2) (Rabs f3)) eqn:C.
    + apply axis_quat_spec; [exact Hf|]. apply Rleb_true, abs_le_sq in C. unf. nra.
    + apply axis_quat_spec; [exact Hf|]. apply Rleb_false, abs_lt_sq in C. unf. nra.
Qed.

Theorem from_to_spec : forall thr (a b : vecR), 0 <= thr -> 0 < Rlsq a -> 0 < Rlsq b ->
  let f := v_normalize RNum a in let t := v_normalize RNum b in
  let q := from_to RNum isnormR thr a b in
  Rqlsq q = 1 /\
  (0 <= Rdot f t \/ thr < Rlsq (v_add RNum f t) -> Rrot f q = t) /\
  (Rdot f t < 0 -> Rlsq (v_add RNum f t) <= thr -> Rrot f q = v_mul RNum f (-1) /\ qr q = 0).
Proof.
  intros thr a b Hthr Ha Hb f t q.
  pose proof (normalize_unit a Ha) as Hf. pose proof (normalize_unit b Hb) as Ht. fold f in Hf. fold t in Ht.
  pose proof (lsq_add_unit f t Hf Ht) as EL.
  subst q. unfold from_to. fold f. fold t. cbv zeta.
  change (mkV (nadd RNum (vx f) (vx t)) (nadd RNum (vy f) (vy t)) (nadd RNum (vz f) (vz t))) with (v_add RNum f t).
  cbn [nleb nltb nzero RNum].
  destruct (Rleb 0 (Rdot f t)) eqn:D.
  - apply Rleb_true in D. assert (HL : 0 < Rlsq (v_add RNum f t)) by lra.
    destruct (reduced_spec f t Hf Ht HL) as [U Rm]. split; [exact U|]. split; [intros _; exact Rm | intros; lra].
  - apply Rleb_false in D. destruct (Rltb thr (Rlsq (v_add RNum f t))) eqn:C.
    + apply Rltb_true in C. assert (HL : 0 < Rlsq (v_add RNum f t)) by lra.
      assert (N1 : isnormR (Rlsq (v_normalize RNum (v_add RNum f t))) = true).
      { rewrite (normalize_unit _ HL). unfold isnormR, Reqb. destruct (Req_EM_T 1 0); [lra | reflexivity]. }
      rewrite N1. cbn [negb orb]. destruct (two_stage_spec f t Hf Ht HL) as [U Rm].
      split; [exact U|]. split; [intros _; exact Rm | intros; lra].
    + apply Rltb_false in C. cbn [negb orb]. destruct (antiparallel_spec f Hf) as (U & Rm & Z).
      split; [exact U|]. split; [intros [H|H]; lra | intros _ _; split; [exact Rm | exact Z]].
Qed.

(* exactly antiparallel vectors (any lengths): from_hat is taken to to_hat = -from_hat by a half turn *)
Corollary from_to_antiparallel : forall thr (a : vecR) k, 0 <= thr -> 0 < Rlsq a -> 0 < k ->
  let b := v_mul RNum a (- k) in let q := from_to RNum isnormR thr a b in
  Rqlsq q = 1 /\ Rrot (v_normalize RNum a) q = v_normalize RNum b /\ qr q = 0.
Proof.
  intros thr a k Hthr Ha Hk b q.
  assert (Hb : 0 < Rlsq b).
  { subst b. destruct a as [a1 a2 a3]. revert Ha. unf. intro Ha.
    replace (- k * a1 * (- k * a1) + - k * a2 * (- k * a2) + - k * a3 * (- k * a3)) with (k * k * (a1 * a1 + a2 * a2 + a3 * a3)) by ring.
    apply Rmult_lt_0_compat; [apply Rmult_lt_0_compat; exact Hk | exact Ha]. }
  assert (Eb : v_normalize RNum b = v_mul RNum (v_normalize RNum a) (-1)).
  { subst b. unfold v_normalize. destruct a as [a1 a2 a3].
    assert (EL : Rlsq (v_mul RNum (mkV a1 a2 a3) (- k)) = (k * k) * Rlsq (mkV a1 a2 a3)) by (unf; ring).
    rewrite EL. change (nsqrt RNum) with sqrt. rewrite sqrt_mult by (try nra; apply Rlt_le; exact Ha).
    rewrite sqrt_square by lra. assert (0 < sqrt (Rlsq (mkV a1 a2 a3))) by (apply sqrt_lt_R0; exact Ha).
    apply vec_eq; unf; field; lra. }
  destruct (from_to_spec thr a b Hthr Ha Hb) as (U & _ & A). fold q in U, A.
  rewrite Eb in A |- *. set (f := v_normalize RNum a) in *.
  pose proof (normalize_unit a Ha) as Hf. fold f in Hf.
  assert (Z : Rlsq (v_add RNum f (v_mul RNum f (-1))) = 0) by (destruct f as [f1 f2 f3]; unf; ring).
  assert (Dn : Rdot f (v_mul RNum f (-1)) < 0).
  { destruct f as [f1 f2 f3]. revert Hf. unf. intro Hf. nra. }
  destruct (A Dn) as [R1 R2]; [rewrite Z; exact Hthr|]. auto.
Qed.

(* ---------------- a rotated simulation: mutual distances, energy, angular momentum *)
Definition v_sub (a b : vecR) : vecR := v_add RNum a (v_mul RNum b (-1)).
Theorem rotate_distance : forall q a b, Rqlsq q = 1 -> Rlsq (v_sub (Rrot a q) (Rrot b q)) = Rlsq (v_sub a b).
Proof. intros q a b H. unfold v_sub. rewrite <- rotate_linear. apply rotate_norm. exact H. Qed.

Definition body : Type := (R * (vecR * vecR))%type.      (* mass, (position, velocity) *)
Definition rotB (q : quatR) (b : body) : body := (fst b, rotate_pv RNum q (snd b)).
Definition bpos (b : body) := fst (snd b).
Definition bvel (b : body) := snd (snd b).
Fixpoint kin (ps : list body) : R := match ps with [] => 0 | b :: r => fst b / 2 * Rlsq (bvel b) + kin r end.
Fixpoint pot_from (b : body) (ps : list body) : R :=
  match ps with [] => 0 | c :: r => fst b * fst c / sqrt (Rlsq (v_sub (bpos b) (bpos c))) + pot_from b r end.
Fixpoint pot (ps : list body) : R := match ps with [] => 0 | b :: r => pot_from b r + pot r end.
Definition energy (G : R) (ps : list body) : R := kin ps - G * pot ps.
Fixpoint angmom (ps : list body) : vecR :=
  match ps with [] => mkV 0 0 0 | b :: r => v_add RNum (v_mul RNum (Rcross (bpos b) (bvel b)) (fst b)) (angmom r) end.

Lemma rotB_map_is_sim_rotate : forall q ps, map snd (map (rotB q) ps) = sim_rotate RNum q (map snd ps).
Proof. intros. unfold sim_rotate. rewrite !map_map. reflexivity. Qed.

Theorem rotate_energy : forall G q ps, Rqlsq q = 1 -> energy G (map (rotB q) ps) = energy G ps.
Proof.
  intros G q ps H. unfold energy. f_equal; [|f_equal].
  - induction ps as [|b r IH]; [reflexivity|]. cbn [map kin]. rewrite IH. unfold rotB, bvel, rotate_pv. cbn [fst snd].
    rewrite rotate_norm by exact H. reflexivity.
  - induction ps as [|b r IH]; [reflexivity|]. cbn [map pot]. rewrite IH. f_equal.
    clear IH. induction r as [|c r IH]; [reflexivity|]. cbn [map pot_from]. rewrite IH.
    unfold rotB, bpos, rotate_pv. cbn [fst snd]. rewrite rotate_distance by exact H. reflexivity.
Qed.

Theorem rotate_angmom : forall q ps, Rqlsq q = 1 ->
  angmom (map (rotB q) ps) = Rrot (angmom ps) q /\ Rlsq (angmom (map (rotB q) ps)) = Rlsq (angmom ps).
Proof.
  intros q ps H. assert (E : angmom (map (rotB q) ps) = Rrot (angmom ps) q).
  { induction ps as [|b r IH]; [cbn; apply vec_eq; unf; ring|]. cbn [map angmom]. rewrite IH.
    unfold rotB, bpos, bvel, rotate_pv. cbn [fst snd]. rewrite <- rotate_cross by exact H.
    assert (A : forall a c m, Rrot (v_add RNum (v_mul RNum a m) c) q = v_add RNum (v_mul RNum (Rrot a q) m) (Rrot c q))
      by (intros; apply vec_eq; unf; ring).
    rewrite A. reflexivity. }
  split; [exact E|]. rewrite E. apply rotate_norm. exact H.
Qed.

(* ---------------- init_orbit, init_to_new_axes, slerp end points *)
Lemma normalize_unit_id : forall v : vecR, Rlsq v = 1 -> v_normalize RNum v = v.
Proof.
  intros [a b c] H. unfold v_normalize. rewrite H. change (nsqrt RNum 1) with (sqrt 1). rewrite sqrt_1.
  apply vec_eq; unf; field.
Qed.
Definition ez : vecR := mkV 0 0 1.
Definition ex : vecR := mkV 1 0 0.
Lemma lsq_ez : Rlsq ez = 1. Proof. unfold ez. unf. ring. Qed.
Lemma lsq_ex : Rlsq ex = 1. Proof. unfold ex. unf. ring. Qed.
Lemma angle_axis_z : forall c s, angle_axis RNum c s ez = mkQ 0 0 s c.
Proof. intros. unfold angle_axis. rewrite (normalize_unit_id ez lsq_ez). apply quat_eq; unfold ez; unf; ring. Qed.
Lemma angle_axis_x : forall c s, angle_axis RNum c s ex = mkQ s 0 0 c.
Proof. intros. unfold angle_axis. rewrite (normalize_unit_id ex lsq_ex). apply quat_eq; unfold ex; unf; ring. Qed.

(* rotation matrices about z and x by an angle with cosine ct and sine st *)
Definition Rz (ct st : R) (v : vecR) : vecR := mkV (ct * vx v - st * vy v) (st * vx v + ct * vy v) (vz v).
Definition Rx (ct st : R) (v : vecR) : vecR := mkV (vx v) (ct * vy v - st * vz v) (st * vy v + ct * vz v).
Lemma rot_about_z : forall c s v, c * c + s * s = 1 -> Rqlsq (mkQ 0 0 s c) = 1 /\ Rrot v (mkQ 0 0 s c) = Rz (c * c - s * s) (2 * s * c) v.
Proof. intros c s [x y z] H. split; [unf; lra | apply vec_eq; unfold Rz; unf; nsatz]. Qed.
Lemma rot_about_x : forall c s v, c * c + s * s = 1 -> Rqlsq (mkQ s 0 0 c) = 1 /\ Rrot v (mkQ s 0 0 c) = Rx (c * c - s * s) (2 * s * c) v.
Proof. intros c s [x y z] H. split; [unf; lra | apply vec_eq; unfold Rx; unf; nsatz]. Qed.

(* reb_rotation_init_orbit = Rz(Omega) Rx(inc) Rz(omega) (Murray & Dermott 2.121), a unit quaternion, for half-angle values
   (c,s) with c^2+s^2=1; cos(angle) = c^2-s^2, sin(angle) = 2 s c *)
Theorem init_orbit_spec : forall c_o s_o c_i s_i c_O s_O,
  c_o * c_o + s_o * s_o = 1 -> c_i * c_i + s_i * s_i = 1 -> c_O * c_O + s_O * s_O = 1 ->
  let q := init_orbit RNum c_o s_o c_i s_i c_O s_O in
  Rqlsq q = 1 /\
  forall v, Rrot v q = Rz (c_O * c_O - s_O * s_O) (2 * s_O * c_O) (Rx (c_i * c_i - s_i * s_i) (2 * s_i * c_i) (Rz (c_o * c_o - s_o * s_o) (2 * s_o * c_o) v)).
Proof.
  intros c_o s_o c_i s_i c_O s_O Ho Hi HO q. subst q. unfold init_orbit.
  change (mkV (none RNum) (nzero RNum) (nzero RNum)) with ex. change (mkV (nzero RNum) (nzero RNum) (none RNum)) with ez.
  rewrite !angle_axis_z, angle_axis_x.
  destruct (rot_about_z c_o s_o (mkV 0 0 0) Ho) as [U1 _]. destruct (rot_about_x c_i s_i (mkV 0 0 0) Hi) as [U2 _].
  destruct (rot_about_z c_O s_O (mkV 0 0 0) HO) as [U3 _].
  assert (U21 : Rqlsq (Rmul (mkQ s_i 0 0 c_i) (mkQ 0 0 s_o c_o)) = 1) by (rewrite lsq_mul, U1, U2; ring).
  split; [rewrite lsq_mul, U21, U3; ring|]. intro v.
  rewrite rotate_mul by assumption. rewrite rotate_mul by assumption.
  rewrite (proj2 (rot_about_z c_o s_o v Ho)). rewrite (proj2 (rot_about_x c_i s_i _ Hi)). rewrite (proj2 (rot_about_z c_O s_O _ HO)). reflexivity.
Qed.

Lemma atan2_turn : forall c s rho a b, c * c + s * s = 1 -> (c * c - s * s) * rho = a -> 2 * s * c * rho = - b ->
  (c * c - s * s) * a - 2 * s * c * b = rho /\ 2 * s * c * a + (c * c - s * s) * b = 0.
Proof. intros c s rho a b H1 H2 H3. split; nsatz. Qed.

(* reb_rotation_init_to_new_axes (as fixed in 9280039).  x' = the orthogonalised newx after the first stage (the argument of atan2);
   (c2,s2) = cos/sin of half of -atan2(x'.y, x'.x), i.e. cos(angle) * rho = x'.x and sin(angle) * rho = -x'.y with rho > 0. *)
Theorem to_new_axes_spec : forall thr (newz newx : vecR) c2 s2 rho, 0 <= thr -> 0 < Rlsq newz ->
  let f := v_normalize RNum newz in
  let xo := v_add RNum newx (v_mul RNum f (- Rdot f newx)) in
  let x' := fst (to_new_axes_x' RNum isnormR thr newz newx) in
  (0 <= Rdot f ez \/ thr < Rlsq (v_add RNum f ez) \/ f = v_mul RNum ez (-1)) ->
  c2 * c2 + s2 * s2 = 1 -> 0 < rho -> (c2 * c2 - s2 * s2) * rho = vx x' -> (2 * s2 * c2) * rho = - vy x' ->
  let q := to_new_axes RNum isnormR thr c2 s2 newz newx in
  Rqlsq q = 1 /\ Rrot f q = ez /\ Rrot xo q = mkV rho 0 0 /\ Rdot f xo = 0.
Proof.
  intros thr newz newx c2 s2 rho Hthr Hz f xo x' Hgen Hcs Hrho Hc Hs q.
  pose proof (normalize_unit newz Hz) as Hf. fold f in Hf.
  assert (Hf0 : 0 < Rlsq f) by lra. assert (He0 : 0 < Rlsq ez) by (rewrite lsq_ez; lra).
  assert (S : Rqlsq (from_to RNum isnormR thr f ez) = 1 /\ Rrot f (from_to RNum isnormR thr f ez) = ez).
  { pose proof (from_to_spec thr f ez Hthr Hf0 He0) as S. cbv zeta in S.
    rewrite (normalize_unit_id f Hf), (normalize_unit_id ez lsq_ez) in S. destruct S as (U1 & M1 & _).
    split; [exact U1|]. destruct Hgen as [H|[H|H]]; [apply M1; left; exact H | apply M1; right; exact H|].
    (* newz_hat = -z exactly: the antiparallel branch, a half turn *)
    assert (Eez : ez = v_mul RNum f (- (1))) by (rewrite H; apply vec_eq; unfold ez; unf; ring).
    pose proof (from_to_antiparallel thr f 1 Hthr Hf0 Rlt_0_1) as A. cbv zeta in A. rewrite <- Eez in A.
    rewrite (normalize_unit_id f Hf), (normalize_unit_id ez lsq_ez) in A. destruct A as (_ & A & _). exact A. }
  destruct S as [U1 M1].
  set (q1 := from_to RNum isnormR thr f ez) in *.
  assert (Eq1 : snd (to_new_axes_x' RNum isnormR thr newz newx) = q1) by reflexivity.
  assert (Ex' : x' = Rrot xo q1) by reflexivity.
  assert (Orth : Rdot f xo = 0).
  { subst xo. clear - Hf. destruct f as [f1 f2 f3]. destruct newx as [n1 n2 n3]. revert Hf. unf. intro Hf. nsatz. }
  assert (Z' : vz x' = 0).
  { assert (D : Rdot x' ez = Rdot xo f) by (rewrite Ex', <- M1; apply rotate_dot; exact U1).
    replace (Rdot xo f) with (Rdot f xo) in D by (unf; ring). rewrite Orth in D. revert D. unfold ez. unf. intro D. lra. }
  destruct (rot_about_z c2 s2 (mkV 0 0 0) Hcs) as [U2 _].
  subst q. unfold to_new_axes. rewrite Eq1. change (mkV (nzero RNum) (nzero RNum) (none RNum)) with ez. rewrite angle_axis_z.
  split; [rewrite lsq_mul, U1, U2; ring|].
  split; [|split; [|exact Orth]].
  - rewrite rotate_mul by assumption. rewrite M1. rewrite (proj2 (rot_about_z c2 s2 ez Hcs)). unfold Rz, ez. apply vec_eq; unf; ring.
  - rewrite rotate_mul by assumption. rewrite <- Ex'. rewrite (proj2 (rot_about_z c2 s2 x' Hcs)).
    destruct x' as [a b c]. cbn [vx vy vz] in *. subst c. unfold Rz. cbn [vx vy vz].
    destruct (atan2_turn c2 s2 rho a b Hcs Hc Hs) as [T1 T2]. apply vec_eq; cbn [vx vy vz]; [exact T1 | exact T2 | reflexivity].
Qed.

(* slerp returns its end points: t = 0 (sA = sin(halfTheta) = sqrt(1-c^2), sB = sin 0 = 0) and t = 1 *)
Theorem slerp_endpoints : forall eps (q1 q2 : quatR), 0 < eps ->
  let c := slerp_cos RNum q1 q2 in let s := sqrt (1 - c * c) in
  Rabs c < 1 -> eps <= Rabs s ->
  slerp RNum eps s 0 q1 q2 = q1 /\ slerp RNum eps 0 s q1 q2 = q2.
Proof.
  intros eps q1 q2 He c s Hc Hs.
  assert (Hs0 : s <> 0) by (intro Z; rewrite Z, Rabs_R0 in Hs; lra).
  unfold slerp. fold c. cbn [nleb nltb nabs nsqrt nsub nmul none RNum]. fold s.
  unfold Rleb. destruct (Rle_dec 1 (Rabs c)); [lra|].
  unfold Rltb. destruct (Rlt_dec (Rabs s) eps); [lra|].
  destruct q1 as [a1 b1 c1 d1]. destruct q2 as [a2 b2 c2' d2]. split; apply quat_eq; unf; field; exact Hs0.
Qed.

(* reb_simulation_irotate acts on ALL N particles, the variational ones (stored behind the real ones) included, by the same linear map:
   the rotated variation is the variation of the rotated coordinates *)
Theorem irotate_all_particles : forall q (real var : list (vecR * vecR)),
  sim_rotate RNum q (real ++ var) = sim_rotate RNum q real ++ sim_rotate RNum q var /\
  length (sim_rotate RNum q (real ++ var)) = (length real + length var)%nat /\
  (forall i d, nth i (sim_rotate RNum q (real ++ var)) (rotate_pv RNum q d) = rotate_pv RNum q (nth i (real ++ var) d)) /\
  (forall x dx eps, Rrot (v_add RNum x (v_mul RNum dx eps)) q = v_add RNum (Rrot x q) (v_mul RNum (Rrot dx q) eps)).
Proof.
  intros q real var. unfold sim_rotate. split; [apply map_app|]. split; [rewrite map_length, app_length; reflexivity|].
  split; [intros i d; apply map_nth | intros; apply rotate_linear].
Qed.

(* ---------------- corners excluded by the hypotheses above: what the code does there (over R; binary64 differences noted) *)
(* a quaternion that is not unit (the constructor Rotation(ix,iy,iz,r) accepts anything) is NOT applied as q v q*: *)
Theorem rotate_nonunit : forall q v, Rrot v q = v_add RNum (sand q v) (v_mul RNum v (1 - Rqlsq q)).
Proof. exact rotate_sand. Qed.
(* ... in particular the zero quaternion acts as the identity (binary64: the same; its inverse() and normalize() are NaN) *)
Theorem rotate_zero_quaternion : forall v, Rrot v (mkQ 0 0 0 0) = v.
Proof. intros [a b c]. apply vec_eq; unf; ring. Qed.
(* angles 0 and 2 pi give +-identity, which rotate nothing; angle pi is the reflection through the axis: v -> 2 (a.v) a - v *)
Theorem angle_axis_special : forall axis v, 0 < Rlsq axis -> let a := v_normalize RNum axis in
  Rrot v (angle_axis RNum 1 0 axis) = v /\ Rrot v (angle_axis RNum (-1) 0 axis) = v /\
  Rrot v (angle_axis RNum 0 1 axis) = v_add RNum (v_mul RNum a (2 * Rdot a v)) (v_mul RNum v (-1)).
Proof.
  intros axis v Ha a. pose proof (normalize_unit axis Ha) as Hn. unfold angle_axis. fold a in Hn |- *. clearbody a. clear Ha axis.
  destruct a as [a1 a2 a3]. destruct v as [x y z]. revert Hn. unf. intro Hn.
  split; [apply vec_eq; unf; ring|]. split; [apply vec_eq; unf; ring|]. apply vec_eq; unf; nsatz.
Qed.
(* init_to_new_axes when newx is parallel to newz (or zero): the orthogonalised newx vanishes, atan2(0,0) = 0, so (c2,s2) = (1,0) and the
   result is the first stage alone: still a unit quaternion taking newz_hat to z (the x axis is then not determined by the input) *)
Theorem to_new_axes_parallel : forall thr (newz newx : vecR), 0 <= thr -> 0 < Rlsq newz ->
  let f := v_normalize RNum newz in
  (0 <= Rdot f ez \/ thr < Rlsq (v_add RNum f ez) \/ f = v_mul RNum ez (-1)) ->
  let q := to_new_axes RNum isnormR thr 1 0 newz newx in
  Rqlsq q = 1 /\ Rrot f q = ez /\ q = snd (to_new_axes_x' RNum isnormR thr newz newx).
Proof.
  intros thr newz newx Hthr Hz f Hgen q.
  pose proof (normalize_unit newz Hz) as Hf. fold f in Hf.
  assert (Hf0 : 0 < Rlsq f) by lra. assert (He0 : 0 < Rlsq ez) by (rewrite lsq_ez; lra).
  assert (S : Rqlsq (from_to RNum isnormR thr f ez) = 1 /\ Rrot f (from_to RNum isnormR thr f ez) = ez).
  { pose proof (from_to_spec thr f ez Hthr Hf0 He0) as S. cbv zeta in S.
    rewrite (normalize_unit_id f Hf), (normalize_unit_id ez lsq_ez) in S. destruct S as (U1 & M1 & _).
    split; [exact U1|]. destruct Hgen as [H|[H|H]]; [apply M1; left; exact H | apply M1; right; exact H|].
    assert (Eez : ez = v_mul RNum f (- (1))) by (rewrite H; apply vec_eq; unfold ez; unf; ring).
    pose proof (from_to_antiparallel thr f 1 Hthr Hf0 Rlt_0_1) as A. cbv zeta in A. rewrite <- Eez in A.
    rewrite (normalize_unit_id f Hf), (normalize_unit_id ez lsq_ez) in A. destruct A as (_ & A & _). exact A. }
  destruct S as [U1 M1].
  assert (Eq : q = from_to RNum isnormR thr f ez).
  { subst q. unfold to_new_axes. change (mkV (nzero RNum) (nzero RNum) (none RNum)) with ez. rewrite angle_axis_z.
    change (snd (to_new_axes_x' RNum isnormR thr newz newx)) with (from_to RNum isnormR thr f ez).
    destruct (from_to RNum isnormR thr f ez) as [a b c d]. apply quat_eq; unf; ring. }
  rewrite Eq. split; [exact U1|]. split; [exact M1 | reflexivity].
Qed.
(* slerp outside the default branch: |q1.q2| >= 1 returns q1; in the small-angle branch a negative dot product returns q1 (439d558),
   a non-negative one the mean of the two quaternions *)
Theorem slerp_corners : forall eps sA sB (q1 q2 : quatR),
  let c := slerp_cos RNum q1 q2 in let s := sqrt (1 - c * c) in
  (1 <= Rabs c -> slerp RNum eps sA sB q1 q2 = q1) /\
  (Rabs c < 1 -> Rabs s < eps -> c < 0 -> slerp RNum eps sA sB q1 q2 = q1) /\
  (Rabs c < 1 -> Rabs s < eps -> 0 <= c ->
     slerp RNum eps sA sB q1 q2 = mkQ (qix q1 * (1 / 2) + qix q2 * (1 / 2)) (qiy q1 * (1 / 2) + qiy q2 * (1 / 2))
                                      (qiz q1 * (1 / 2) + qiz q2 * (1 / 2)) (qr q1 * (1 / 2) + qr q2 * (1 / 2))).
Proof.
  intros eps sA sB q1 q2 c s. unfold slerp. fold c. cbn [nleb nltb nabs nsqrt nsub nmul ndiv none nzero nofZ two RNum]. fold s.
  unfold Rleb, Rltb. split; [|split].
  - intro H. destruct (Rle_dec 1 (Rabs c)); [reflexivity | lra].
  - intros H1 H2 H3. destruct (Rle_dec 1 (Rabs c)); [lra|]. destruct (Rlt_dec (Rabs s) eps); [|lra]. destruct (Rlt_dec c 0); [reflexivity | lra].
  - intros H1 H2 H3. destruct (Rle_dec 1 (Rabs c)); [lra|]. destruct (Rlt_dec (Rabs s) eps); [|lra]. destruct (Rlt_dec c 0); [lra|].
    unfold two. cbn [nofZ RNum]. reflexivity.
Qed.
