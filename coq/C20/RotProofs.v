(* C20, rotations over R: quaternion algebra, rotation of vectors, constructors. *)
From Coq Require Import ZArith List Reals Lra Lia Psatz.
From RV Require Import Common.Num Common.RealNum C20.Rotation.
Import ListNotations.
Open Scope R_scope.

Notation vecR := (vec3 R).
Notation quatR := (quat R).
Notation Rmul := (q_mul RNum).
Notation Rrot := (rotate RNum).
Notation Rdot := (v_dot RNum).
Notation Rcross := (v_cross RNum).
Notation Rlsq := (v_lsq RNum).
Notation Rqlsq := (q_lsq RNum).

Ltac unf := cbv beta iota zeta delta [rotate q_mul q_lsq q_conj q_inverse q_identity q_normalize q_imag v_mul v_add v_cross v_dot v_lsq v_normalize two
            nadd nsub nmul ndiv nneg nzero none nofZ nsqrt nabs RNum vx vy vz qix qiy qiz qr] in *.

Lemma vec_eq : forall a b : vecR, vx a = vx b -> vy a = vy b -> vz a = vz b -> a = b.
Proof. intros [a1 a2 a3] [b1 b2 b3]; cbn; intros; subst; reflexivity. Qed.
Lemma quat_eq : forall a b : quatR, qix a = qix b -> qiy a = qiy b -> qiz a = qiz b -> qr a = qr b -> a = b.
Proof. intros [a1 a2 a3 a4] [b1 b2 b3 b4]; cbn; intros; subst; reflexivity. Qed.

(* ---------------- quaternion algebra (any quaternions) *)
Lemma mul_assoc : forall a b c : quatR, Rmul (Rmul a b) c = Rmul a (Rmul b c).
Proof. intros. apply quat_eq; unf; ring. Qed.
Lemma mul_id_l : forall q : quatR, Rmul (q_identity RNum) q = q.
Proof. intros [a b c d]. apply quat_eq; unf; ring. Qed.
Lemma mul_id_r : forall q : quatR, Rmul q (q_identity RNum) = q.
Proof. intros [a b c d]. apply quat_eq; unf; ring. Qed.
Lemma lsq_mul : forall p q : quatR, Rqlsq (Rmul p q) = Rqlsq p * Rqlsq q.
Proof. intros. unf. ring. Qed.
Lemma conj_mul : forall p q : quatR, q_conj RNum (Rmul p q) = Rmul (q_conj RNum q) (q_conj RNum p).
Proof. intros. apply quat_eq; unf; ring. Qed.
Lemma lsq_conj : forall q : quatR, Rqlsq (q_conj RNum q) = Rqlsq q.
Proof. intros. unf. ring. Qed.
Lemma inverse_law : forall q : quatR, Rqlsq q <> 0 ->
  Rmul q (q_inverse RNum q) = q_identity RNum /\ Rmul (q_inverse RNum q) q = q_identity RNum.
Proof. intros q H. split; apply quat_eq; unf; field; exact H. Qed.
Lemma inverse_unit : forall q : quatR, Rqlsq q = 1 -> q_inverse RNum q = q_conj RNum q.
Proof. intros q H. apply quat_eq; unf; rewrite H; field. Qed.
Lemma lsq_inverse : forall q : quatR, Rqlsq q <> 0 -> Rqlsq (q_inverse RNum q) = / Rqlsq q.
Proof. intros q H. unf. field. exact H. Qed.

(* ---------------- rotation of a vector: v + 2r(u x v) + 2u x (u x v) = q v q* + (1-|q|^2) v *)
Definition sand (q : quatR) (v : vecR) : vecR :=
  let p := Rmul (Rmul q (mkQ (vx v) (vy v) (vz v) 0)) (q_conj RNum q) in mkV (qix p) (qiy p) (qiz p).
Lemma rotate_sand : forall q v, Rrot v q = v_add RNum (sand q v) (v_mul RNum v (1 - Rqlsq q)).
Proof. intros. apply vec_eq; unfold sand; unf; ring. Qed.
Lemma rotate_sand_unit : forall q v, Rqlsq q = 1 -> Rrot v q = sand q v.
Proof. intros q v H. rewrite rotate_sand, H. apply vec_eq; unfold sand; unf; ring. Qed.
Lemma sand_mul : forall p q v, sand (Rmul p q) v = sand p (sand q v).
Proof. intros. apply vec_eq; unfold sand; unf; ring. Qed.
Lemma sand_dot : forall q a b, Rdot (sand q a) (sand q b) = Rqlsq q * Rqlsq q * Rdot a b.
Proof. intros. unfold sand; unf; ring. Qed.
Lemma sand_cross : forall q a b, Rcross (sand q a) (sand q b) = v_mul RNum (sand q (Rcross a b)) (Rqlsq q).
Proof. intros. apply vec_eq; unfold sand; unf; ring. Qed.

Theorem rotate_mul : forall p q v, Rqlsq p = 1 -> Rqlsq q = 1 -> Rrot v (Rmul p q) = Rrot (Rrot v q) p.
Proof.
  intros p q v Hp Hq. rewrite !rotate_sand_unit; auto. apply sand_mul. rewrite lsq_mul, Hp, Hq. ring.
Qed.
Theorem rotate_dot : forall q a b, Rqlsq q = 1 -> Rdot (Rrot a q) (Rrot b q) = Rdot a b.
Proof. intros q a b H. rewrite !rotate_sand_unit by exact H. rewrite sand_dot, H. ring. Qed.
Theorem rotate_norm : forall q v, Rqlsq q = 1 -> Rlsq (Rrot v q) = Rlsq v.
Proof. intros. unfold v_lsq. apply rotate_dot. assumption. Qed.
Theorem rotate_cross : forall q a b, Rqlsq q = 1 -> Rrot (Rcross a b) q = Rcross (Rrot a q) (Rrot b q).
Proof.
  intros q a b H. rewrite !rotate_sand_unit by exact H. rewrite sand_cross, H.
  apply vec_eq; unf; ring.
Qed.
Theorem rotate_identity : forall v, Rrot v (q_identity RNum) = v.
Proof. intros [a b c]. apply vec_eq; unf; ring. Qed.
Theorem rotate_inverse : forall q v, Rqlsq q = 1 -> Rrot (Rrot v q) (q_inverse RNum q) = v /\ Rrot (Rrot v (q_inverse RNum q)) q = v.
Proof.
  intros q v H. assert (Hn : Rqlsq q <> 0) by (rewrite H; lra).
  assert (Hi : Rqlsq (q_inverse RNum q) = 1) by (rewrite lsq_inverse, H by exact Hn; field).
  destruct (inverse_law q Hn) as [E1 E2].
  split; rewrite <- rotate_mul by assumption; [rewrite E2 | rewrite E1]; apply rotate_identity.
Qed.
(* linear: differences of position vectors rotate like vectors, so relative geometry is preserved *)
Theorem rotate_linear : forall q a b s, Rrot (v_add RNum a (v_mul RNum b s)) q = v_add RNum (Rrot a q) (v_mul RNum (Rrot b q) s).
Proof. intros. apply vec_eq; unf; ring. Qed.

(* ---------------- normalisation *)
From Coq Require Import Nsatz.

Lemma inv_sqrt_sq : forall L, 0 < L -> (1 / sqrt L) * (1 / sqrt L) * L = 1 /\ 0 < 1 / sqrt L.
Proof.
  intros L H. assert (Hs : 0 < sqrt L) by (apply sqrt_lt_R0; exact H).
  assert (Hr : sqrt L * sqrt L = L) by (apply sqrt_sqrt; lra).
  remember (sqrt L) as r. split.
  - rewrite <- Hr. field. lra.
  - apply Rdiv_lt_0_compat; lra.
Qed.
Lemma lsq_nonneg : forall v : vecR, 0 <= Rlsq v.
Proof. intros [a b c]. unf. nra. Qed.
Lemma lsq_zero : forall v : vecR, Rlsq v = 0 -> v = mkV 0 0 0.
Proof. intros [a b c] H. unf. assert (a = 0) by nra. assert (b = 0) by nra. assert (c = 0) by nra. subst. reflexivity. Qed.
Lemma normalize_unit : forall v : vecR, 0 < Rlsq v -> Rlsq (v_normalize RNum v) = 1.
Proof.
  intros [a b c] H. destruct (inv_sqrt_sq _ H) as [E _]. unfold v_normalize. set (s := ndiv RNum (none RNum) (nsqrt RNum (Rlsq (mkV a b c)))) in *.
  change (s * s * Rlsq (mkV a b c) = 1) in E. unf. nsatz.
Qed.
Lemma normalize_zero_lsq : forall v : vecR, Rlsq v = 0 -> Rlsq (v_normalize RNum v) = 0.
Proof. intros v H. rewrite (lsq_zero v H). unf. ring. Qed.

(* ---------------- constructors *)
Theorem angle_axis_unit : forall c s axis, c * c + s * s = 1 -> 0 < Rlsq axis -> Rqlsq (angle_axis RNum c s axis) = 1.
Proof.
  intros c s axis H Ha. pose proof (normalize_unit axis Ha) as Hn. unfold angle_axis.
  destruct (v_normalize RNum axis) as [a1 a2 a3]. unf. nsatz.
Qed.
(* the rotation fixes its axis and turns a perpendicular vector by the full angle, counter-clockwise:
   cos(angle) = c^2 - s^2, sin(angle) = 2 s c for c = cos(angle/2), s = sin(angle/2) *)
Theorem angle_axis_rotates : forall c s axis p, c * c + s * s = 1 -> 0 < Rlsq axis ->
  let a := v_normalize RNum axis in let q := angle_axis RNum c s axis in
  Rrot a q = a /\
  (Rdot a p = 0 -> Rrot p q = v_add RNum (v_mul RNum p (c * c - s * s)) (v_mul RNum (Rcross a p) (2 * s * c))).
Proof.
  intros c s axis p H Ha. pose proof (normalize_unit axis Ha) as Hn. unfold angle_axis. cbv zeta.
  destruct (v_normalize RNum axis) as [a1 a2 a3]. destruct p as [p1 p2 p3]. split.
  - apply vec_eq; unf; nsatz.
  - intros Hp. apply vec_eq; unf; nsatz.
Qed.

Lemma reduced_abstract : forall f1 f2 f3 t1 t2 t3 s,
  f1*f1+f2*f2+f3*f3 = 1 -> t1*t1+t2*t2+t3*t3 = 1 ->
  s*s*((f1+t1)*(f1+t1)+(f2+t2)*(f2+t2)+(f3+t3)*(f3+t3)) = 1 ->
  let f := mkV f1 f2 f3 in let h := v_mul RNum (mkV (f1+t1) (f2+t2) (f3+t3)) s in
  let q := mkQ (vx (Rcross f h)) (vy (Rcross f h)) (vz (Rcross f h)) (Rdot f h) in
  Rqlsq q = 1 /\ Rrot f q = mkV t1 t2 t3.
Proof.
  intros. subst f h q. split.
  - unf. nsatz.
  - apply vec_eq; unf; nsatz.
Qed.

Lemma reduced_spec : forall f t : vecR, Rlsq f = 1 -> Rlsq t = 1 -> 0 < Rlsq (v_add RNum f t) ->
  Rqlsq (from_to_reduced RNum f t) = 1 /\ Rrot f (from_to_reduced RNum f t) = t.
Proof.
  intros [f1 f2 f3] [t1 t2 t3] Hf Ht HL. destruct (inv_sqrt_sq _ HL) as [E _].
  unfold from_to_reduced, v_normalize. cbn [vx vy vz].
  change (nadd RNum f1 t1) with (f1 + t1). change (nadd RNum f2 t2) with (f2 + t2). change (nadd RNum f3 t3) with (f3 + t3).
  set (s := ndiv RNum (none RNum) (nsqrt RNum (Rlsq (mkV (f1 + t1) (f2 + t2) (f3 + t3))))).
  apply (reduced_abstract f1 f2 f3 t1 t2 t3 s).
  - revert Hf. unf. intro Hf. lra.
  - revert Ht. unf. intro Ht. lra.
  - subst s. revert E. unf. intro E. lra.
Qed.

(* quaternions with parallel imaginary parts commute *)
Lemma mul_comm_parallel : forall (u : vecR) a b c d,
  Rmul (mkQ (a * vx u) (a * vy u) (a * vz u) b) (mkQ (c * vx u) (c * vy u) (c * vz u) d) =
  Rmul (mkQ (c * vx u) (c * vy u) (c * vz u) d) (mkQ (a * vx u) (a * vy u) (a * vz u) b).
Proof. intros. apply quat_eq; unf; ring. Qed.
