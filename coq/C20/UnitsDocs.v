(* C20: every unit name that the documentation writes (docstring of Simulation.units, ipython_examples/Units.ipynb; regenerated into
   Gen/Units.v) resolves, in any letter case, to an entry of the table the documentation files it under; check_units is case-insensitive. *)
From Coq Require Import ZArith NArith List String Ascii Bool.
From RV Require Import Common.Num Gen.Units C14.Murmur C20.Units.
Import ListNotations.
Open Scope string_scope.

(* str.lower() / str.upper() on ASCII *)
Definition lower_ascii (c : ascii) : ascii :=
  let n := N_of_ascii c in if ((65 <=? n) && (n <=? 90))%N then ascii_of_N (n + 32) else c.
Definition upper_ascii (c : ascii) : ascii :=
  let n := N_of_ascii c in if ((97 <=? n) && (n <=? 122))%N then ascii_of_N (n - 32) else c.
Fixpoint smap (f : ascii -> ascii) (s : string) : string := match s with EmptyString => EmptyString | String c r => String (f c) (smap f r) end.
Definition lower := smap lower_ascii.
Definition upper := smap upper_ascii.
(* check_units as called by the user: every element is lower-cased first (`unit = unit.lower()`) *)
Definition check_units_raw (us : list string) : option (string * string * string) := check_units (map lower us).

Definition variants (s : string) : list string := [s; lower s; upper s].
Definition doc_in (t : list (string * uval)) : list string :=
  map snd (filter (fun p => String.eqb (String.concat "," (names (fst p))) (String.concat "," (names t))) documented_units).

(* each documented name is filed under the right table, in any case *)
Definition documented_resolve : bool :=
  forallb (fun p => forallb (fun v => mem (fst p) (lower v)) (variants (snd p))) documented_units &&
  forallb (fun s => mem lengths_SI (lower s) || mem times_SI (lower s) || mem masses_SI (lower s)) notebook_units.
(* every documented (length, time, mass) combination, in every case variant and order, is accepted and returns the lower-case names *)
Definition documented_triples_ok : bool :=
  forallb (fun l => forallb (fun t => forallb (fun m =>
    forallb (fun f =>
      forallb (fun p => match check_units_raw p with
                        | Some (l', t', m') => String.eqb (lower l) l' && String.eqb (lower t) t' && String.eqb (lower m) m'
                        | None => false end) (perms3 (f l) (f t) (f m)))
      [(fun s => s); lower; upper])
    (doc_in masses_SI)) (doc_in times_SI)) (doc_in lengths_SI).
Definition doc_counts_ok : bool :=
  (4 <=? List.length (doc_in lengths_SI))%nat && (8 <=? List.length (doc_in times_SI))%nat && (10 <=? List.length (doc_in masses_SI))%nat.

Lemma documented_resolve_true : documented_resolve = true. Proof. vm_compute. reflexivity. Qed.
Lemma documented_triples_ok_true : documented_triples_ok = true. Proof. vm_compute. reflexivity. Qed.
Lemma doc_counts_ok_true : doc_counts_ok = true. Proof. vm_compute. reflexivity. Qed.

(* lower-casing is idempotent and the table keys are fixed points, so a name resolves iff its lower-case form is a key *)
Lemma keys_are_lower : forallb (fun u => String.eqb (lower u) u) all_names = true.
Proof. vm_compute. reflexivity. Qed.
