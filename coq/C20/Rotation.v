(* C20, rotations: src/rotations.c transcribed operation for operation over an abstract arithmetic (Common.Num).
   Definitions only.  The binary64 instance is compared bit for bit with the compiled functions (C20/Run.v);
   the theorems are about the instance over R (C20/RotProofs.v).
   libm values (sin, cos of half angles) enter as arguments; sqrt is IEEE-exact and is modelled (nsqrt).
   isnormal() enters as the predicate [isnorm] (binary64: classify; R: x <> 0), the literal 1e-28 as [thr]. *)
From Coq Require Import ZArith List.
From RV Require Import Common.Num.
Import ListNotations.

Record vec3 (T : Type) : Type := mkV { vx : T; vy : T; vz : T }.
Record quat (T : Type) : Type := mkQ { qix : T; qiy : T; qiz : T; qr : T }.
Arguments mkV {T} _ _ _.  Arguments vx {T} _.  Arguments vy {T} _.  Arguments vz {T} _.
Arguments mkQ {T} _ _ _ _.  Arguments qix {T} _.  Arguments qiy {T} _.  Arguments qiz {T} _.  Arguments qr {T} _.

Section Rot.
  Context {T : Type} (N : Num T).
  Local Notation "a + b" := (nadd N a b).
  Local Notation "a - b" := (nsub N a b).
  Local Notation "a * b" := (nmul N a b).
  Local Notation "a / b" := (ndiv N a b).
  Local Notation "- a" := (nneg N a).
  Local Notation "0" := (nzero N).
  Local Notation "1" := (none N).
  Definition two : T := nofZ N 2.

  (* struct reb_vec3d reb_vec3d_mul(v, s): s*v.x ... *)
  Definition v_mul (v : vec3 T) (s : T) : vec3 T := mkV (s * vx v) (s * vy v) (s * vz v).
  Definition v_add (v w : vec3 T) : vec3 T := mkV (vx v + vx w) (vy v + vy w) (vz v + vz w).
  Definition v_cross (a b : vec3 T) : vec3 T :=
    mkV (vy a * vz b - vz a * vy b) (vz a * vx b - vx a * vz b) (vx a * vy b - vy a * vx b).
  Definition v_dot (a b : vec3 T) : T := vx a * vx b + vy a * vy b + vz a * vz b.
  Definition v_lsq (v : vec3 T) : T := v_dot v v.
  Definition v_normalize (v : vec3 T) : vec3 T := v_mul v (1 / nsqrt N (v_lsq v)).

  Definition q_imag (q : quat T) : vec3 T := mkV (qix q) (qiy q) (qiz q).
  (* reb_rotation_mul: v_rot = p * (q * v) *)
  Definition q_mul (p q : quat T) : quat T :=
    mkQ (qr p * qix q + qix p * qr q + qiy p * qiz q - qiz p * qiy q)
        (qr p * qiy q - qix p * qiz q + qiy p * qr q + qiz p * qix q)
        (qr p * qiz q + qix p * qiy q - qiy p * qix q + qiz p * qr q)
        (qr p * qr q - qix p * qix q - qiy p * qiy q - qiz p * qiz q).
  Definition q_lsq (q : quat T) : T := qr q * qr q + qix q * qix q + qiy q * qiy q + qiz q * qiz q.
  Definition q_conj (q : quat T) : quat T := mkQ (- qix q) (- qiy q) (- qiz q) (qr q).
  Definition q_normalize (q : quat T) : quat T :=
    let l := 1 / nsqrt N (q_lsq q) in mkQ (qix q * l) (qiy q * l) (qiz q * l) (qr q * l).
  Definition q_inverse (q : quat T) : quat T :=
    let c := q_conj q in let rl2 := 1 / q_lsq q in
    mkQ (qix c * rl2) (qiy c * rl2) (qiz c * rl2) (qr c * rl2).
  Definition q_identity : quat T := mkQ 0 0 0 1.

  (* reb_vec3d_irotate *)
  Definition rotate (v : vec3 T) (q : quat T) : vec3 T :=
    let imag := q_imag q in
    let t := v_mul (v_cross imag v) two in
    v_add v (v_add (v_mul t (qr q)) (v_cross imag t)).

  (* reb_particle_irotate / reb_simulation_irotate: position and velocity of every particle (variational ones included) *)
  Definition rotate_pv (q : quat T) (pv : vec3 T * vec3 T) : vec3 T * vec3 T := (rotate (fst pv) q, rotate (snd pv) q).
  Definition sim_rotate (q : quat T) (ps : list (vec3 T * vec3 T)) : list (vec3 T * vec3 T) := map (rotate_pv q) ps.

  Definition from_to_reduced (from to : vec3 T) : quat T :=
    let half := v_normalize (mkV (vx from + vx to) (vy from + vy to) (vz from + vz to)) in
    let cross := v_cross from half in
    let dot := v_dot from half in
    mkQ (vx cross) (vy cross) (vz cross) dot.

  Definition axis_quat (from e : vec3 T) : quat T :=
    let axis := v_normalize (v_cross from e) in mkQ (vx axis) (vy axis) (vz axis) 0.

  (* thr is the literal 1e-28:  if (!(half_length_squared>1e-28) || !isnormal(|half_hat|^2)) *)
  Definition from_to (isnorm : T -> bool) (thr : T) (from0 to0 : vec3 T) : quat T :=
    let from := v_normalize from0 in
    let to := v_normalize to0 in
    if nleb N 0 (v_dot from to) then from_to_reduced from to
    else
      let half0 := mkV (vx from + vx to) (vy from + vy to) (vz from + vz to) in
      let hls := v_lsq half0 in
      let half := v_normalize half0 in
      if orb (negb (nltb N thr hls)) (negb (isnorm (v_lsq half))) then
        let ax := nabs N (vx from) in let ay := nabs N (vy from) in let az := nabs N (vz from) in
        if andb (nleb N ax ay) (nleb N ax az) then axis_quat from (mkV 1 0 0)
        else if nleb N ay az then axis_quat from (mkV 0 1 0)
        else axis_quat from (mkV 0 0 1)
      else q_mul (from_to_reduced from half) (from_to_reduced half to).

  (* cos2 = cos(angle/2), sin2 = sin(angle/2) are supplied *)
  Definition angle_axis (cos2 sin2 : T) (axis0 : vec3 T) : quat T :=
    let axis := v_normalize axis0 in
    let imag := v_mul axis sin2 in
    mkQ (vx imag) (vy imag) (vz imag) cos2.

  (* c2 = cos(angle/2), s2 = sin(angle/2) for angle = -atan2(newx'.y, newx'.x) are supplied (libm) *)
  Definition to_new_axes_x' (isnorm : T -> bool) (thr : T) (newz0 newx0 : vec3 T) : vec3 T * quat T :=
    let newz := v_normalize newz0 in
    let dotprod := v_dot newz newx0 in
    let newx := v_add newx0 (v_mul newz (- dotprod)) in
    let q1 := from_to isnorm thr newz (mkV 0 0 1) in
    (rotate newx q1, q1).
  Definition to_new_axes (isnorm : T -> bool) (thr c2 s2 : T) (newz0 newx0 : vec3 T) : quat T :=
    let q1 := snd (to_new_axes_x' isnorm thr newz0 newx0) in
    let q2 := angle_axis c2 s2 (mkV 0 0 1) in
    q_mul q2 q1.

  (* reb_rotation_init_orbit; (c,s) pairs are cos/sin of omega/2, inc/2, Omega/2 *)
  Definition init_orbit (c_o s_o c_i s_i c_O s_O : T) : quat T :=
    let x := mkV 1 0 0 in let z := mkV 0 0 1 in
    let P1 := angle_axis c_o s_o z in
    let P2 := angle_axis c_i s_i x in
    let P3 := angle_axis c_O s_O z in
    q_mul P3 (q_mul P2 P1).

  (* reb_rotation_to_orbital.  inc = acos(orbital_acos_arg q), hs = atan2(q.iz, q.r), hd = atan2(q.iy, q.ix) are supplied (libm);
     pi = M_PI, min_inc = MIN_INC = 1e-8.  Result (Omega, inc, omega). *)
  Definition orbital_acos_arg (q : quat T) : T := two * (qr q * qr q + qiz q * qiz q) - 1.
  Definition to_orbital (pi min_inc inc hs hd : T) : T * T * T :=
    let safe1 := nltb N min_inc (nabs N inc) in
    let safe2 := nltb N min_inc (nabs N (inc - pi)) in
    let Oo := if andb safe1 safe2 then (hs + hd, hs - hd)
              else (0, if negb safe1 then two * hs else (- two) * hd) in
    let om := if nltb N (snd Oo) 0 then snd Oo + pi * two else snd Oo in
    let Om := if nltb N (fst Oo) 0 then fst Oo + pi * two else fst Oo in
    (Om, inc, om).

  (* reb_rotation_slerp.  halfTheta = acos(slerp_cos q1 q2), sA = sin((1-t)*halfTheta), sB = sin(t*halfTheta) are supplied (libm);
     eps = QUATERNION_EPS = 1e-4 *)
  Definition slerp_cos (q1 q2 : quat T) : T := qr q1 * qr q2 + qix q1 * qix q2 + qiy q1 * qiy q2 + qiz q1 * qiz q2.
  Definition slerp_sin_args (t halfTheta : T) : T * T := ((1 - t) * halfTheta, t * halfTheta).
  Definition slerp (eps sA sB : T) (q1 q2 : quat T) : quat T :=
    let c := slerp_cos q1 q2 in
    if nleb N 1 (nabs N c) then q1
    else
      let s := nsqrt N (1 - c * c) in
      if nltb N (nabs N s) eps then
        if nltb N c 0 then q1 else     (* 439d558: q2 is (almost) -q1, the same rotation *)
        let h := 1 / two in
        mkQ (qix q1 * h + qix q2 * h) (qiy q1 * h + qiy q2 * h) (qiz q1 * h + qiz q2 * h) (qr q1 * h + qr q2 * h)
      else
        let ra := sA / s in let rb := sB / s in
        mkQ (qix q1 * ra + qix q2 * rb) (qiy q1 * ra + qiy q2 * rb) (qiz q1 * ra + qiz q2 * rb) (qr q1 * ra + qr q2 * rb).
End Rot.
