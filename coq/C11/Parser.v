(* C11 — the two argument parsers: reb_particle_from_fmt_errV (src/tools.c) and Particle.__init__
   (rebound/particle.py), as total decision procedures on "which arguments were passed".

   Scope: the arguments the two front ends have in common
       simulation, primary, hash, m, r, x y z vx vy vz, a P e inc Omega omega pomega f M E l theta T, h k ix iy.
   Python-only conveniences (particle=, date=, variation=, variation2=, pal_h/pal_k/pal_ix/pal_iy aliases,
   jacobi_masses=, the string "uniform", string hashes, primary given by index/name) have no C counterpart and
   are outside this model.  The one value test that is interleaved with the presence tests, `a == 0` (code 15, right
   after a is known and BEFORE the omega/pomega and anomaly-count tests), enters as the value bit a_azero.
   The remaining value-dependent rejections (ix^2+iy^2>4 = code 12 and h^2+k^2>=1 = code 3 in the Pal branch,
   codes 15,1..6 of reb_particle_from_orbit_err) happen after the decision modelled here; both front ends test
   them at the same places (mirrored in tools/c11.py; reb_particle_from_orbit_err is modelled in Orbit.v).

   Every numeric argument is in one of three states: not passed, passed with a NaN value, passed with a
   non-NaN value.  C initialises each variable to NaN and tests !isnan(v): a NaN value would be "not given";
   Python initialises to None and tests `is not None`: a NaN value would be "given".  Since /repo 369a765 both
   reject an explicitly passed NaN up front (code 16), so the difference can no longer be observed. *)
From Coq Require Import ZArith List Bool Lia ZifyBool.
Import ListNotations.
Open Scope Z_scope.

(* GivenNaN: passed with a non-finite value (NaN or +-inf): both front ends reject it up front with code 16
   (C macro: !isfinite(var); Python: not math.isfinite(_v)) *)
Inductive pres := Absent | GivenNaN | Given.
Definition c_has (p : pres) : bool := match p with Given => true | _ => false end.
Definition py_has (p : pres) : bool := match p with Absent => false | _ => true end.

(* what the caller passed *)
Record args := mkArgs {
  a_sim : bool;            (* C: r != NULL            Python: simulation is not None *)
  a_primary : bool;        (* C: token "primary"      Python: primary is not None *)
  a_hash : bool;
  a_m : pres; a_r : pres;
  a_x : pres; a_y : pres; a_z : pres; a_vx : pres; a_vy : pres; a_vz : pres;
  a_a : pres; a_P : pres; a_e : pres; a_inc : pres; a_Omega : pres; a_omega : pres; a_pomega : pres;
  a_f : pres; a_M : pres; a_E : pres; a_l : pres; a_theta : pres; a_T : pres;
  a_h : pres; a_k : pres; a_ix : pres; a_iy : pres;
  a_azero : bool           (* value bit: the semi-major axis (passed, or computed from P) compares equal to 0 *)
}.

(* what a parser sees: one presence bit per argument *)
Record flags := mkFlags {
  qsim : bool; qprimary : bool;
  qx : bool; qy : bool; qz : bool; qvx : bool; qvy : bool; qvz : bool;
  qa : bool; qP : bool; qe : bool; qinc : bool; qOmega : bool; qomega : bool; qpomega : bool;
  qf : bool; qM : bool; qE : bool; ql : bool; qtheta : bool; qT : bool;
  qh : bool; qk : bool; qix : bool; qiy : bool;
  qazero : bool
}.

Definition flags_of (has : pres -> bool) (g : args) : flags :=
  mkFlags (a_sim g) (a_primary g)
    (has (a_x g)) (has (a_y g)) (has (a_z g)) (has (a_vx g)) (has (a_vy g)) (has (a_vz g))
    (has (a_a g)) (has (a_P g)) (has (a_e g)) (has (a_inc g)) (has (a_Omega g)) (has (a_omega g)) (has (a_pomega g))
    (has (a_f g)) (has (a_M g)) (has (a_E g)) (has (a_l g)) (has (a_theta g)) (has (a_T g))
    (has (a_h g)) (has (a_k g)) (has (a_ix g)) (has (a_iy g)) (a_azero g).

Inductive peri := PeriDefault | PeriOmega | PeriPomega.
Inductive anom := AnDefault | AnF | AnM | AnE | AnL | AnTheta | AnT.

(* Reject c: error class c (numbering of reb_string_for_particle_error; the Python ValueError texts are mapped
   to the same numbers by tools/c11.py, table PY_ERR).
   Cartesian: particle built from m,r,hash,x..vz (missing ones 0).
   Pal afp: reb_particle_from_pal is called (after the value check 12); afp = "a is computed from P".
   Classical afp p an: reb_particle_from_orbit_err is called with omega from p and f from an. *)
Inductive decision :=
| Reject (code : Z)
| Cartesian
| Pal (a_from_P : bool)
| Classical (a_from_P : bool) (p : peri) (an : anom).

(* `if (cond) N++;` repeated *)
Fixpoint count (l : list bool) : Z :=
  match l with [] => 0 | b :: r => (if b then 1 else 0) + count r end.

(* ------------------------------------------------------------------ C: reb_particle_from_fmt_errV *)
Definition c_anom (fl : flags) : anom :=
  (* Nlong==1: theta -> f; l -> M; T -> M; M (given or derived) -> f; E -> f, in this order *)
  let fsrc := AnF in
  let fsrc := if qtheta fl then AnTheta else fsrc in
  let msrc := if qM fl then Some AnM else None in
  let msrc := if ql fl then Some AnL else msrc in
  let msrc := if qT fl then Some AnT else msrc in
  let fsrc := match msrc with Some s => s | None => fsrc end in
  if qE fl then AnE else fsrc.

Definition decide_c (fl : flags) : decision :=
  let Ncart := count [qx fl; qy fl; qz fl; qvx fl; qvy fl; qvz fl] in
  let Norb := count [qprimary fl; qa fl; qP fl; qe fl; qinc fl; qOmega fl; qomega fl; qpomega fl; qf fl; qM fl; qE fl;
                     ql fl; qtheta fl; qT fl] in
  (* since d64f81b `primary` is no longer counted in Nnonpal: a primary can be combined with Pal coordinates *)
  let Nnonpal := count [qe fl; qinc fl; qOmega fl; qomega fl; qpomega fl; qf fl; qM fl; qE fl; qtheta fl; qT fl] in
  let Npal := count [qh fl; qk fl; qix fl; qiy fl] in
  let Nlong := count [qf fl; qM fl; qE fl; ql fl; qtheta fl; qT fl] in
  if (0 <? Nnonpal) && (0 <? Npal) then Reject 7 else
  if (0 <? Ncart) && (0 <? Norb) then Reject 8 else
  if negb (Ncart =? 0) || (Norb =? 0) then Cartesian else
  if negb (qsim fl) then Reject 9 else
  if negb (qa fl) && negb (qP fl) then Reject 10 else
  if qa fl && qP fl then Reject 11 else
  let afp := negb (qa fl) in
  if qazero fl then Reject 15 else                      (* if (a==0.) right after a = cbrt(...) *)
  if 0 <? Npal then Pal afp else
  if qomega fl && qpomega fl then Reject 13 else
  let pe := if negb (qomega fl) && negb (qpomega fl) then PeriDefault
            else if qpomega fl then PeriPomega else PeriOmega in
  if 1 <? Nlong then Reject 14 else
  if Nlong =? 0 then Classical afp pe AnDefault else
  (* the C code tests Nlong==1 here; after the two tests above it is the only case left *)
  Classical afp pe (c_anom fl).

(* ------------------------------------------------------------------ Python: Particle.__init__ *)
(* notNone(a) = (a.count(None) != len(a)) *)
Definition count_none (l : list bool) : Z := count (map negb l).
Definition notNone (l : list bool) : bool := negb (count_none l =? Z.of_nat (length l)).

Definition py_anom (fl : flags) : anom :=
  if qf fl then AnF else if qtheta fl then AnTheta else if ql fl then AnL else if qT fl then AnT
  else if qM fl then AnM else if qE fl then AnE else AnDefault.

Definition decide_py (fl : flags) : decision :=
  let cart := [qx fl; qy fl; qz fl; qvx fl; qvy fl; qvz fl] in
  let orbi := [qprimary fl; qa fl; qP fl; qe fl; qinc fl; qOmega fl; qomega fl; qpomega fl; qf fl; qM fl; qE fl; ql fl;
               qtheta fl; qT fl] in
  let pal := [qh fl; qk fl; qix fl; qiy fl] in
  if notNone [qe fl; qinc fl; qomega fl; qpomega fl; qOmega fl; qM fl; qf fl; qE fl; qtheta fl; qT fl] && notNone pal
  then Reject 7 else
  if notNone cart && notNone orbi then Reject 8 else
  if notNone orbi then
    if negb (qsim fl) then Reject 9 else
    if negb (qa fl) && negb (qP fl) then Reject 10 else
    if qa fl && qP fl then Reject 11 else
    let afp := negb (qa fl) in
    if qazero fl then Reject 15 else                    (* if a == 0.: raise ValueError *)
    if notNone pal then Pal afp else
    let numNones := count_none [qomega fl; qpomega fl] in
    if numNones =? 0 then Reject 13 else
    let pe := if numNones =? 2 then PeriDefault else if qpomega fl then PeriPomega else PeriOmega in
    let numNones := count_none [qf fl; qM fl; qE fl; ql fl; qtheta fl; qT fl] in
    if numNones <? 5 then Reject 14 else
    if numNones =? 6 then Classical afp pe AnDefault else
    Classical afp pe (py_anom fl)
  else Cartesian.

(* since /repo 369a765 both front ends first reject any NaN that was passed explicitly (code 16):
   C: every `x = va_arg(args,double)` sets nan_given when isnan(x), tested right after the token loop;
   Python: `for _v in (m,x,...,iy,...): if _v is not None and _v != _v: raise ValueError`.  m and r included. *)
Definition is_nan_arg (p : pres) : bool := match p with GivenNaN => true | _ => false end.
Definition any_nan (g : args) : bool :=
  existsb is_nan_arg [a_m g; a_r g; a_x g; a_y g; a_z g; a_vx g; a_vy g; a_vz g; a_a g; a_P g; a_e g; a_inc g; a_Omega g;
                      a_omega g; a_pomega g; a_f g; a_M g; a_E g; a_l g; a_theta g; a_T g; a_h g; a_k g; a_ix g; a_iy g].

Definition c_decide (g : args) : decision := if any_nan g then Reject 16 else decide_c (flags_of c_has g).
Definition py_decide (g : args) : decision := if any_nan g then Reject 16 else decide_py (flags_of py_has g).

(* ------------------------------------------------------------------ statements used by the theorems *)
Definition not_nan (p : pres) : Prop := p <> GivenNaN.
Definition no_nan_values (g : args) : Prop :=
  not_nan (a_x g) /\ not_nan (a_y g) /\ not_nan (a_z g) /\ not_nan (a_vx g) /\ not_nan (a_vy g) /\ not_nan (a_vz g) /\
  not_nan (a_a g) /\ not_nan (a_P g) /\ not_nan (a_e g) /\ not_nan (a_inc g) /\ not_nan (a_Omega g) /\
  not_nan (a_omega g) /\ not_nan (a_pomega g) /\ not_nan (a_f g) /\ not_nan (a_M g) /\ not_nan (a_E g) /\
  not_nan (a_l g) /\ not_nan (a_theta g) /\ not_nan (a_T g) /\ not_nan (a_h g) /\ not_nan (a_k g) /\
  not_nan (a_ix g) /\ not_nan (a_iy g).

Definition any_pal (fl : flags) : bool := qh fl || qk fl || qix fl || qiy fl.
Definition any_cart (fl : flags) : bool := qx fl || qy fl || qz fl || qvx fl || qvy fl || qvz fl.
(* the list both front ends check against the Pal variables (primary is not in it) *)
Definition any_nonpal_py (fl : flags) : bool :=
  qe fl || qinc fl || qomega fl || qpomega fl || qOmega fl || qM fl || qf fl || qE fl || qtheta fl || qT fl.

Definition is_reject (d : decision) : bool := match d with Reject _ => true | _ => false end.
