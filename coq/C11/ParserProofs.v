(* C11 — proofs about the two parser models.
   The 2^25 presence vectors are NOT enumerated.  Step 1 (proved symbolically): both decision procedures only
   depend on a presence vector through its canonical representative `canon fl`
       x := x||y||z||vx||vy||vz, y..vz := false;  h := h||k||ix||iy, k..iy := false;
       e := e||inc||Omega, inc,Omega := false
   (because these arguments only enter through the counters Ncart, Npal, Norb, Nnonpal / the notNone lists).
   Step 2: canonical vectors are described by 16 bits; the statements are checked on all 2^16 of them by
   vm_compute of a nested boolean `forall` whose soundness lemma is fb_spec. *)
From Coq Require Import ZArith List Bool Lia ZifyBool Btauto.
From RV Require Import C11.Parser.
Import ListNotations.
Open Scope Z_scope.

(* ---------------------------------------------------------------- counters as boolean disjunctions *)
Lemma count_nonneg : forall l, 0 <= count l.
Proof. induction l as [|b r IH]; cbn [count]; [lia | destruct b; lia]. Qed.

Lemma count_pos : forall l, (0 <? count l) = existsb id l.
Proof.
  induction l as [|b r IH]; [reflexivity|]. cbn [count existsb]. pose proof (count_nonneg r).
  destruct b; unfold id at 1; cbn [orb]; [ apply Z.ltb_lt; lia | rewrite <- IH; reflexivity ].
Qed.

Lemma count_zero : forall l, (count l =? 0) = negb (existsb id l).
Proof.
  intro l. rewrite <- count_pos. pose proof (count_nonneg l).
  destruct (0 <? count l) eqn:A; cbn [negb]; [apply Z.eqb_neq | apply Z.eqb_eq]; lia.
Qed.

Lemma count_none_le : forall l, count (map negb l) <= Z.of_nat (length l).
Proof. induction l as [|b r IH]; cbn [count map length]; [lia | destruct b; cbn [negb]; lia]. Qed.

Lemma notNone_ex : forall l, notNone l = existsb id l.
Proof.
  unfold notNone, count_none.
  induction l as [|b r IH]; [reflexivity|].
  cbn [count map length existsb]. pose proof (count_none_le r).
  destruct b; unfold id at 1; cbn [negb orb].
  - apply negb_true_iff, Z.eqb_neq. lia.
  - rewrite <- IH. f_equal. rewrite Nat2Z.inj_succ.
    destruct (count (map negb r) =? Z.of_nat (length r)) eqn:A.
    + apply Z.eqb_eq in A. apply Z.eqb_eq. lia.
    + apply Z.eqb_neq in A. apply Z.eqb_neq. lia.
Qed.

(* ---------------------------------------------------------------- canonical representative *)
Definition canon (fl : flags) : flags :=
  mkFlags (qsim fl) (qprimary fl)
    (qx fl || qy fl || qz fl || qvx fl || qvy fl || qvz fl) false false false false false
    (qa fl) (qP fl) (qe fl || qinc fl || qOmega fl) false false (qomega fl) (qpomega fl)
    (qf fl) (qM fl) (qE fl) (ql fl) (qtheta fl) (qT fl)
    (qh fl || qk fl || qix fl || qiy fl) false false false (qazero fl).

Ltac projs := cbn [qsim qprimary qx qy qz qvx qvy qvz qa qP qe qinc qOmega qomega qpomega qf qM qE ql qtheta qT
                   qh qk qix qiy qazero].

(* both sides have the same `if` skeleton; equate the conditions one by one *)
Ltac same_skeleton :=
  repeat match goal with
  | |- (if ?c then _ else _) = (if ?c' then _ else _) =>
      replace c' with c by (first [ reflexivity | cbn [existsb id]; unfold id; btauto ]);
      destruct c; [ try reflexivity | ]
  | |- (if ?c then _ else _) = (if ?c' then _ else _) =>
      replace c' with c by (first [ reflexivity | cbn [existsb id]; unfold id; btauto ]);
      destruct c; [ | try reflexivity ]
  end; try reflexivity.

Lemma c_canon : forall fl, decide_c fl = decide_c (canon fl).
Proof.
  intros [s pr x y z vx vy vz a P e inc Om om pom f M E l th T h k ix iy az].
  unfold decide_c, canon, c_anom. projs. cbv zeta.
  rewrite !count_pos, !count_zero.
  same_skeleton.
Qed.

Lemma py_canon : forall fl, decide_py fl = decide_py (canon fl).
Proof.
  intros [s pr x y z vx vy vz a P e inc Om om pom f M E l th T h k ix iy az].
  unfold decide_py, canon, py_anom. projs. cbv zeta.
  rewrite !notNone_ex.
  same_skeleton.
Qed.

Lemma canon_primary : forall fl, qprimary (canon fl) = qprimary fl. Proof. destruct fl; reflexivity. Qed.
Lemma canon_pal : forall fl, any_pal (canon fl) = any_pal fl.
Proof. destruct fl; unfold any_pal, canon; projs; btauto. Qed.
Lemma canon_cart : forall fl, any_cart (canon fl) = any_cart fl.
Proof. destruct fl; unfold any_cart, canon; projs; btauto. Qed.
Lemma canon_nonpal : forall fl, any_nonpal_py (canon fl) = any_nonpal_py fl.
Proof. destruct fl; unfold any_nonpal_py, canon; projs; btauto. Qed.
Lemma canon_sim : forall fl, qsim (canon fl) = qsim fl. Proof. destruct fl; reflexivity. Qed.
Lemma canon_a : forall fl, qa (canon fl) = qa fl. Proof. destruct fl; reflexivity. Qed.
Lemma canon_P : forall fl, qP (canon fl) = qP fl. Proof. destruct fl; reflexivity. Qed.
Lemma canon_az : forall fl, qazero (canon fl) = qazero fl. Proof. destruct fl; reflexivity. Qed.

(* ---------------------------------------------------------------- the 2^16 canonical vectors *)
Definition mk16 (s pr c a P o om pom f M E l th T p az : bool) : flags :=
  mkFlags s pr c false false false false false a P o false false om pom f M E l th T p false false false az.

Lemma canon_is_mk16 : forall fl, canon fl =
  mk16 (qsim fl) (qprimary fl) (qx fl || qy fl || qz fl || qvx fl || qvy fl || qvz fl) (qa fl) (qP fl)
       (qe fl || qinc fl || qOmega fl) (qomega fl) (qpomega fl) (qf fl) (qM fl) (qE fl) (ql fl) (qtheta fl) (qT fl)
       (qh fl || qk fl || qix fl || qiy fl) (qazero fl).
Proof. reflexivity. Qed.

Definition fb (p : bool -> bool) : bool := p true && p false.
Lemma fb_spec : forall p, fb p = true -> forall b, p b = true.
Proof. unfold fb. intros p H b. apply andb_true_iff in H. destruct b; tauto. Qed.

Definition forall16 (p : flags -> bool) : bool :=
  fb (fun s => fb (fun pr => fb (fun c => fb (fun a => fb (fun P => fb (fun o => fb (fun om => fb (fun pom =>
  fb (fun f => fb (fun M => fb (fun E => fb (fun l => fb (fun th => fb (fun T => fb (fun pl => fb (fun az =>
    p (mk16 s pr c a P o om pom f M E l th T pl az))))))))))))))))).

Lemma forall16_spec : forall p, forall16 p = true -> forall fl, p (canon fl) = true.
Proof.
  intros p H fl. rewrite canon_is_mk16. unfold forall16 in H.
  pose proof (fb_spec _ H (qsim fl)) as H1; cbv beta in H1.
  pose proof (fb_spec _ H1 (qprimary fl)) as H2; cbv beta in H2.
  pose proof (fb_spec _ H2 (qx fl || qy fl || qz fl || qvx fl || qvy fl || qvz fl)) as H3; cbv beta in H3.
  pose proof (fb_spec _ H3 (qa fl)) as H4; cbv beta in H4.
  pose proof (fb_spec _ H4 (qP fl)) as H5; cbv beta in H5.
  pose proof (fb_spec _ H5 (qe fl || qinc fl || qOmega fl)) as H6; cbv beta in H6.
  pose proof (fb_spec _ H6 (qomega fl)) as H7; cbv beta in H7.
  pose proof (fb_spec _ H7 (qpomega fl)) as H8; cbv beta in H8.
  pose proof (fb_spec _ H8 (qf fl)) as H9; cbv beta in H9.
  pose proof (fb_spec _ H9 (qM fl)) as H10; cbv beta in H10.
  pose proof (fb_spec _ H10 (qE fl)) as H11; cbv beta in H11.
  pose proof (fb_spec _ H11 (ql fl)) as H12; cbv beta in H12.
  pose proof (fb_spec _ H12 (qtheta fl)) as H13; cbv beta in H13.
  pose proof (fb_spec _ H13 (qT fl)) as H14; cbv beta in H14.
  pose proof (fb_spec _ H14 (qh fl || qk fl || qix fl || qiy fl)) as H15; cbv beta in H15.
  pose proof (fb_spec _ H15 (qazero fl)) as H16; cbv beta in H16.
  exact H16.
Qed.

(* ---------------------------------------------------------------- boolean equality of decisions *)
Definition peri_eqb (p q : peri) : bool :=
  match p, q with PeriDefault, PeriDefault | PeriOmega, PeriOmega | PeriPomega, PeriPomega => true | _, _ => false end.
Definition anom_eqb (p q : anom) : bool :=
  match p, q with AnDefault, AnDefault | AnF, AnF | AnM, AnM | AnE, AnE | AnL, AnL | AnTheta, AnTheta | AnT, AnT => true
  | _, _ => false end.
Definition dec_eqb (d1 d2 : decision) : bool :=
  match d1, d2 with
  | Reject c1, Reject c2 => c1 =? c2
  | Cartesian, Cartesian => true
  | Pal b1, Pal b2 => Bool.eqb b1 b2
  | Classical b1 p1 a1, Classical b2 p2 a2 => Bool.eqb b1 b2 && peri_eqb p1 p2 && anom_eqb a1 a2
  | _, _ => false
  end.

Lemma dec_eqb_spec : forall d1 d2, dec_eqb d1 d2 = true <-> d1 = d2.
Proof.
  intros d1 d2; split.
  - destruct d1 as [c1| |b1|b1 p1 a1], d2 as [c2| |b2|b2 p2 a2]; cbn [dec_eqb]; try discriminate; try reflexivity.
    + intro H. apply Z.eqb_eq in H. congruence.
    + intro H. apply eqb_prop in H. congruence.
    + intro H. apply andb_true_iff in H. destruct H as [H Ha]. apply andb_true_iff in H. destruct H as [Hb Hp].
      apply eqb_prop in Hb. subst. destruct p1, p2; try discriminate; destruct a1, a2; try discriminate; reflexivity.
  - intros <-. destruct d1 as [c1| |b1|b1 p1 a1]; cbn [dec_eqb]; try reflexivity.
    + apply Z.eqb_refl.
    + apply eqb_reflx.
    + rewrite eqb_reflx. destruct p1, a1; reflexivity.
Qed.

(* ---------------------------------------------------------------- agreement *)
Definition chk_eq (fl : flags) : bool := dec_eqb (decide_py fl) (decide_c fl).

Lemma chk_eq_all : forall16 chk_eq = true.
Proof. vm_compute. reflexivity. Qed.

Lemma agree_flags : forall fl, decide_py fl = decide_c fl.
Proof.
  intro fl. pose proof (forall16_spec _ chk_eq_all fl) as H. unfold chk_eq in H.
  rewrite <- py_canon, <- c_canon in H. apply dec_eqb_spec. exact H.
Qed.

(* primary is compatible with Pal variables in both front ends *)
Definition chk_pp (fl : flags) : bool :=
  implb (qprimary fl && any_pal fl && negb (any_nonpal_py fl) && negb (any_cart fl) && qsim fl && xorb (qa fl) (qP fl) && negb (qazero fl))
        (dec_eqb (decide_c fl) (Pal (negb (qa fl))) && dec_eqb (decide_py fl) (Pal (negb (qa fl)))).
Lemma chk_pp_all : forall16 chk_pp = true.
Proof. vm_compute. reflexivity. Qed.

Lemma primary_pal_flags : forall fl,
  qprimary fl && any_pal fl && negb (any_nonpal_py fl) && negb (any_cart fl) && qsim fl && xorb (qa fl) (qP fl) && negb (qazero fl) = true ->
  decide_c fl = Pal (negb (qa fl)) /\ decide_py fl = Pal (negb (qa fl)).
Proof.
  intros fl K. pose proof (forall16_spec _ chk_pp_all fl) as H. unfold chk_pp in H.
  rewrite <- py_canon, <- c_canon in H.
  rewrite canon_primary, canon_pal, canon_nonpal, canon_cart, canon_sim, canon_a, canon_P, canon_az in H.
  rewrite K in H. cbn [implb] in H. apply andb_true_iff in H. destruct H as [A B].
  apply dec_eqb_spec in A. apply dec_eqb_spec in B. tauto.
Qed.

(* ---------------------------------------------------------------- lifting to argument records *)
Lemma has_eq : forall p, not_nan p -> c_has p = py_has p.
Proof. intros [| |] H; try reflexivity. exfalso. apply H. reflexivity. Qed.

Lemma flags_eq : forall g, no_nan_values g -> flags_of c_has g = flags_of py_has g.
Proof.
  intros g H. unfold no_nan_values in H. unfold flags_of.
  repeat match goal with H : _ /\ _ |- _ => destruct H end.
  repeat match goal with H : not_nan _ |- _ => apply has_eq in H; rewrite H; clear H end.
  reflexivity.
Qed.

Lemma no_nan_of_any_nan : forall g, any_nan g = false -> no_nan_values g.
Proof.
  intros g H. unfold any_nan in H. cbn [existsb] in H.
  repeat match type of H with (_ || _)%bool = false => apply orb_false_iff in H; destruct H as [? H] end.
  unfold no_nan_values, not_nan.
  repeat split; intro K; rewrite K in *; discriminate.
Qed.

(* full strength: for EVERY argument set (NaN values included) *)
Lemma parsers_agree_l : forall g, py_decide g = c_decide g.
Proof.
  intros g. unfold py_decide, c_decide. destruct (any_nan g) eqn:A; [reflexivity|].
  rewrite (flags_eq g (no_nan_of_any_nan g A)). apply agree_flags.
Qed.

Lemma nan_rejected : forall g, any_nan g = true -> c_decide g = Reject 16 /\ py_decide g = Reject 16.
Proof. intros g H. unfold c_decide, py_decide. rewrite H. split; reflexivity. Qed.

(* ---------------------------------------------------------------- witnesses *)
Definition no_args : args :=
  mkArgs true false false Absent Absent Absent Absent Absent Absent Absent Absent
         Absent Absent Absent Absent Absent Absent Absent Absent Absent Absent Absent Absent Absent
         Absent Absent Absent Absent false.

(* sim.add(primary=p0, a=1., h=0.1)  vs  reb_particle_from_fmt(r, "primary a h", p0, 1., 0.1) *)
Definition w_primary_pal : args :=
  mkArgs true true false Absent Absent Absent Absent Absent Absent Absent Absent
         Given Absent Absent Absent Absent Absent Absent Absent Absent Absent Absent Absent Absent
         Given Absent Absent Absent false.

Lemma primary_pal_witness :
  no_nan_values w_primary_pal /\ py_decide w_primary_pal = Pal false /\ c_decide w_primary_pal = Pal false.
Proof. repeat split; unfold no_nan_values, not_nan; repeat split; discriminate. Qed.

(* x=NaN, a=1 : before 369a765 C ignored x and built the orbit, Python rejected (cartesian + orbital) *)
Definition w_nan_x : args :=
  mkArgs true false false Absent Absent GivenNaN Absent Absent Absent Absent Absent
         Given Absent Absent Absent Absent Absent Absent Absent Absent Absent Absent Absent Absent
         Absent Absent Absent Absent false.
(* a=NaN, P=1 : before 369a765 C computed a from P, Python rejected (both a and P) *)
Definition w_nan_a : args :=
  mkArgs true false false Absent Absent Absent Absent Absent Absent Absent Absent
         GivenNaN Given Absent Absent Absent Absent Absent Absent Absent Absent Absent Absent Absent
         Absent Absent Absent Absent false.

Lemma nan_witnesses :
  c_decide w_nan_x = Reject 16 /\ py_decide w_nan_x = Reject 16 /\
  c_decide w_nan_a = Reject 16 /\ py_decide w_nan_a = Reject 16.
Proof. repeat split. Qed.

(* hash never influences the decision; m and r only through being NaN *)
Lemma decision_ignores_m_r_hash : forall s pr hs hs' m m' r r' x y z vx vy vz a P e inc Om om pom f M E l th T h k ix iy az,
  is_nan_arg m = is_nan_arg m' -> is_nan_arg r = is_nan_arg r' ->
  c_decide (mkArgs s pr hs m r x y z vx vy vz a P e inc Om om pom f M E l th T h k ix iy az) =
  c_decide (mkArgs s pr hs' m' r' x y z vx vy vz a P e inc Om om pom f M E l th T h k ix iy az) /\
  py_decide (mkArgs s pr hs m r x y z vx vy vz a P e inc Om om pom f M E l th T h k ix iy az) =
  py_decide (mkArgs s pr hs' m' r' x y z vx vy vz a P e inc Om om pom f M E l th T h k ix iy az).
Proof.
  intros. unfold c_decide, py_decide, any_nan. cbn [existsb a_m a_r a_x a_y a_z a_vx a_vy a_vz a_a a_P a_e a_inc a_Omega
    a_omega a_pomega a_f a_M a_E a_l a_theta a_T a_h a_k a_ix a_iy]. rewrite H, H0. split; reflexivity.
Qed.
