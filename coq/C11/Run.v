(* C11 — binary64 instances used by the correspondence cases (tools/c11.py).
   libm is supplied as lookup tables recorded from the real libm on exactly the arguments the routine asks for;
   a missing entry yields NaN, so a model whose control flow left the recorded path can never "accidentally" agree. *)
From Coq Require Import ZArith List PrimFloat.
From RV Require Import Common.Num Common.FloatNum C11.Orbit.
Import ListNotations.

Fixpoint lookup (tab : list (float * float)) (x : float) : float :=
  match tab with
  | [] => nan
  | (k, v) :: r => if same k x then v else lookup r x
  end.

Fixpoint lookup2 (tab : list (float * float * float)) (x y : float) : float :=
  match tab with
  | [] => nan
  | (k1, k2, v) :: r => if andb (same k1 x) (same k2 y) then v else lookup2 r x y
  end.

Record tables := mkTables {
  t_sin : list (float * float); t_cos : list (float * float); t_sinh : list (float * float);
  t_cosh : list (float * float); t_log : list (float * float); t_tan : list (float * float);
  t_tanh : list (float * float); t_atan : list (float * float);
  t_fmod : list (float * float * float); t_copysign : list (float * float * float)
}.

Definition M_PI : float := 0x1.921fb54442d18p+1%float.
Definition TINY : float := 0x0.730d67819e8d2p-1022%float.    (* 1.E-308 (subnormal) *)

Definition libm_of (t : tables) : libm float :=
  mkLibm M_PI (lookup (t_sin t)) (lookup (t_cos t)) (lookup (t_sinh t)) (lookup (t_cosh t)) (lookup (t_log t))
         (lookup (t_tan t)) (lookup (t_tanh t)) (lookup (t_atan t)) (lookup2 (t_fmod t)) (lookup2 (t_copysign t)).

(* result vectors compared with the library *)
Definition fo (G pm_ px_ py_ pz_ pvx_ pvy_ pvz_ m a e : float) (tr : list float) : list float :=
  match tr with
  | [c1; s1; c2; s2; c3; s3; c4; s4] =>
      match from_orbit_err FNum TINY G (mkPart pm_ px_ py_ pz_ pvx_ pvy_ pvz_) m a e (mkTrig c1 s1 c2 s2 c3 s3 c4 s4) with
      | inl c => [f_ofZ c]
      | inr p => [0%float; pm p; px p; py p; pz p; pvx p; pvy p; pvz p]
      end
  | _ => []
  end.

Definition m2e (t : tables) (e M : float) : list float := [M_to_E FNum (libm_of t) e M].
Definition e2f (t : tables) (e E : float) : list float := [E_to_f FNum (libm_of t) e E].
Definition m2f (t : tables) (e M : float) : list float := [M_to_f FNum (libm_of t) e M].
Definition m2pi (t : tables) (x : float) : list float := [mod2pi FNum (libm_of t) x].

(* ---- parser decisions as integers (printed by the correspondence cases) ---- *)
From RV Require Import C11.Parser.
Open Scope Z_scope.
Definition peri_n (p : peri) : Z := match p with PeriDefault => 0 | PeriOmega => 1 | PeriPomega => 2 end.
Definition anom_n (a : anom) : Z :=
  match a with AnDefault => 0 | AnF => 1 | AnM => 2 | AnE => 3 | AnL => 4 | AnTheta => 5 | AnT => 6 end.
Definition enc (d : decision) : Z :=
  match d with
  | Reject c => c
  | Cartesian => 100
  | Pal b => 200 + Z.b2z b
  | Classical b p a => 1000 + 100 * Z.b2z b + 10 * peri_n p + anom_n a
  end.
Definition decisions (l : list args) : list (Z * Z) := map (fun g => (enc (c_decide g), enc (py_decide g))) l.

(* ---- round 2: reb_orbit_from_particle_err and the Pal routines at binary64 ---- *)
From RV Require Import C11.OrbitInv.
Open Scope float_scope.
Record tables2 := mkTables2 {
  t_acos : list (float * float); t_acosh : list (float * float); t_cbrt : list (float * float);
  t_atan2 : list (float * float * float)
}.
Definition libm2_of (t : tables2) : libm2 float :=
  mkLibm2 (lookup (t_acos t)) (lookup (t_acosh t)) (lookup (t_cbrt t)) (lookup2 (t_atan2 t)).

Definition mkp (l : list float) : part float :=
  match l with [m; x; y; z; vx; vy; vz] => mkPart m x y z vx vy vz | _ => mkPart nan nan nan nan nan nan nan end.

Definition ofp (t : tables) (t2 : tables2) (G t0 : float) (p prim : list float) : list float :=
  match orbit_from_particle_err FNum (libm_of t) (libm2_of t2) TINY G t0 (mkp p) (mkp prim) with
  | inl c => [f_ofZ c]
  | inr o => [0; o_d o; o_v o; o_h o; o_P o; o_n o; o_a o; o_e o; o_inc o; o_Omega o; o_omega o; o_pomega o; o_f o; o_M o;
              o_l o; o_theta o; o_T o; o_rhill o; o_pal_h o; o_pal_k o; o_pal_ix o; o_pal_iy o;
              o_hx o; o_hy o; o_hz o; o_ex o; o_ey o; o_ez o]
  end.
Definition skp (t : tables) (t2 : tables2) (h k lambda : float) : list float :=
  let '(p, q) := solve_kepler_pal FNum (libm_of t) (libm2_of t2) h k lambda in [p; q].
Definition fpal (t : tables) (t2 : tables2) (G : float) (prim : list float) (m a lambda k h ix iy : float) : list float :=
  let p := from_pal FNum (libm_of t) (libm2_of t2) G (mkp prim) m a lambda k h ix iy in
  [pm p; px p; py p; pz p; pvx p; pvy p; pvz p].
Definition tpal (t : tables) (t2 : tables2) (G : float) (p prim : list float) : list float :=
  particle_to_pal FNum (libm2_of t2) G (mkp p) (mkp prim).

(* ---- round 3: the value flow of the two front ends (Flow.v) at binary64, followed by the model of
        reb_particle_from_orbit_err; compared with what reb_particle_from_fmt / rebound.Particle return ---- *)
From RV Require Import C11.Flow.
Definition peri_of (z : Z) : peri := match z with 1%Z => PeriOmega | 2%Z => PeriPomega | _ => PeriDefault end.
Definition anom_of (z : Z) : anom :=
  match z with 1%Z => AnF | 2%Z => AnM | 3%Z => AnE | 4%Z => AnL | 5%Z => AnTheta | 6%Z => AnT | _ => AnDefault end.

Definition flow_particle (front_py : bool) (t : tables) (t2 : tables2) (powt : list (float * float * float))
    (prim : list float) (afp : bool) (pe an : Z) (v : list float) : list float :=
  match v with
  | [G; tm; m; a; P; e; inc; Om; om; pom; f; M; E; l; th; T] =>
    let L := libm_of t in
    let pr := mkp prim in
    let vv := mkVals G tm (pm pr) m a P e inc Om om pom f M E l th T in
    let els := if front_py then py_elements FNum L (lookup2 powt) afp (peri_of pe) (anom_of an) vv
               else c_elements FNum L (lookup (t_cbrt t2)) afp (peri_of pe) (anom_of an) vv in
    match els with
    | [a'; e'; inc'; Om'; om'; f'] =>
      match from_orbit_err FNum TINY G pr m a' e'
              (mkTrig (l_cos L Om') (l_sin L Om') (l_cos L om') (l_sin L om') (l_cos L f') (l_sin L f')
                      (l_cos L inc') (l_sin L inc')) with
      | inl c => [f_ofZ c]
      | inr p => [0; pm p; px p; py p; pz p; pvx p; pvy p; pvz p]
      end
    | _ => []
    end
  | _ => []
  end.

(* ---- round 4: the clock of T.  psim/primsim: [t] = in a simulation at time t, [] = sim pointer NULL ---- *)
Definition optf (l : list float) : option float := match l with [t] => Some t | _ => None end.
Definition ofps (t : tables) (t2 : tables2) (G : float) (psim primsim p prim : list float) : list float :=
  match orbit_from_particle_sim FNum (libm_of t) (libm2_of t2) TINY G (optf psim) (optf primsim) (mkp p) (mkp prim) with
  | inl c => [f_ofZ c]
  | inr o => [0; o_d o; o_v o; o_h o; o_P o; o_n o; o_a o; o_e o; o_inc o; o_Omega o; o_omega o; o_pomega o; o_f o; o_M o;
              o_l o; o_theta o; o_T o; o_rhill o; o_pal_h o; o_pal_k o; o_pal_ix o; o_pal_iy o;
              o_hx o; o_hy o; o_hz o; o_ex o; o_ey o; o_ez o]
  end.

(* ---- round 6: the primary in the value flow (default COM / explicit / jacobi_masses) ---- *)
Definition flow_particle_jm (front_py jm : bool) (m0 Mint : float) (t : tables) (t2 : tables2) (powt : list (float * float * float))
    (prim : list float) (afp : bool) (pe an : Z) (v : list float) : list float :=
  match v, prim with
  | G :: tm :: m :: rest, [pm0; x; y; z; vx; vy; vz] =>
      let pm' := if front_py then py_primary_mass FNum jm pm0 m m0 Mint else pm0 in
      flow_particle front_py t t2 powt [pm'; x; y; z; vx; vy; vz] afp pe an v
  | _, _ => []
  end.
