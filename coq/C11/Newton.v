(* C11 round 3 — what can be said over the reals about the convergence of the elliptic Newton loop of reb_M_to_E:
   for 0 <= e < 1 and a reduced mean anomaly M in [0, pi] the function F(E) = E - e sin E - M is increasing and convex on
   [0, pi]; starting to the right of its root E* (the code starts at pi when e >= 0.8, and every iterate after the first
   is to the right of E* as long as it stays in [0, pi]) the iterates decrease monotonically and never cross E*. *)
From Coq Require Import ZArith Reals Lra List.
From RV Require Import Common.Num Common.RealNum C11.Orbit C11.OrbitProofs.
Open Scope R_scope.

(* sin lies below its tangents on [0, pi] *)
Lemma sin_below_tangent : forall x y, 0 <= x <= PI -> 0 <= y <= PI -> sin y <= sin x + cos x * (y - x).
Proof.
  intros x y Hx Hy.
  destruct (Rtotal_order x y) as [Hlt|[Heq|Hgt]].
  - destruct (MVT_cor2 sin cos x y Hlt (fun c _ => derivable_pt_lim_sin c)) as [c [Hc [Hc1 Hc2]]].
    assert (cos c < cos x) by (apply cos_decreasing_1; lra).
    assert (cos c * (y - x) <= cos x * (y - x)) by (apply Rmult_le_compat_r; lra). lra.
  - subst. lra.
  - destruct (MVT_cor2 sin cos y x Hgt (fun c _ => derivable_pt_lim_sin c)) as [c [Hc [Hc1 Hc2]]].
    assert (cos x < cos c) by (apply cos_decreasing_1; lra).
    assert (cos x * (x - y) <= cos c * (x - y)) by (apply Rmult_le_compat_r; lra). lra.
Qed.

Section Conv.
Variables e M Es : R.
Hypothesis He : 0 <= e < 1.
Hypothesis HEs : 0 <= Es <= PI.
Hypothesis Hroot : Es - e * sin Es - M = 0.            (* the solution of Kepler's equation *)

Let F (E : R) := E - e * sin E - M.
Let F' (E : R) := 1 - e * cos E.

Lemma Fp_pos : forall E, 0 < F' E.
Proof. intro E. unfold F'. pose proof (COS_bound E) as [A B]. nra. Qed.

(* convexity: F lies above its tangents on [0, pi] *)
Lemma F_above_tangent : forall x y, 0 <= x <= PI -> 0 <= y <= PI -> F x + F' x * (y - x) <= F y.
Proof.
  intros x y Hx Hy. unfold F, F'. pose proof (sin_below_tangent x y Hx Hy) as S.
  assert (e * sin y <= e * (sin x + cos x * (y - x))) by (apply Rmult_le_compat_l; lra). nra.
Qed.

(* one Newton step from the right of the root stays to the right of the root and does not move right *)
Lemma newton_step_monotone : forall E, Es <= E <= PI ->
  Es <= E - F E / F' E <= E /\ 0 <= F E.
Proof.
  intros E HE. pose proof (Fp_pos E) as Hp.
  assert (HF : 0 <= F E).
  { pose proof (F_above_tangent Es E HEs (conj (Rle_trans _ _ _ (proj1 HEs) (proj1 HE)) (proj2 HE))) as T.
    unfold F at 1 in T. rewrite Hroot in T. pose proof (Fp_pos Es). nra. }
  assert (HQ : 0 <= F E / F' E) by (apply Rmult_le_pos; [exact HF | apply Rlt_le, Rinv_0_lt_compat; exact Hp]).
  split; [split|exact HF]; [|lra].
  pose proof (F_above_tangent E Es (conj (Rle_trans _ _ _ (proj1 HEs) (proj1 HE)) (proj2 HE)) HEs) as T.
  unfold F at 2 in T. rewrite Hroot in T.
  (* F E + F' E (Es - E) <= 0  ->  Es - E <= - F E / F' E *)
  assert (F' E * (Es - E) <= - F E) by lra.
  assert (Es - E <= - F E / F' E).
  { apply Rmult_le_reg_l with (F' E); [exact Hp|]. replace (F' E * (- F E / F' E)) with (- F E) by (field; lra). lra. }
  unfold Rdiv in *. lra.
Qed.

(* the loop of the model (any iteration bound, with or without the early exit): from E in [E*, pi] it returns a value
   in [E*, E] *)
Variable L : libm R.
Hypothesis Hsin : l_sin L = sin.
Hypothesis Hcos : l_cos L = cos.

Lemma newton_ell_monotone : forall fuel E, Es <= E <= PI ->
  Es <= fst (newton_ell RNum L fuel e M E (F E)) <= E.
Proof.
  induction fuel as [|n IH]; intros E HE; cbn [newton_ell fst]; [lra|].
  rewrite Hsin, Hcos. cbn [nsub nmul ndiv nabs nltb none RNum].
  destruct (newton_step_monotone E HE) as [[A B] C].
  change (E - F E / (1 - e * cos E)) with (E - F E / F' E).
  set (E1 := E - F E / F' E) in *.
  change (E1 - e * sin E1 - M) with (F E1).
  destruct (Rltb (Rabs (F E1)) (eps16 RNum)); cbn [fst]; [lra|].
  assert (H1 : Es <= E1 <= PI) by lra.
  specialize (IH E1 H1). lra.
Qed.

(* with the code's starter for e >= 0.8 *)
Lemma M_to_E_from_pi_monotone : forall fuel, Es <= fst (newton_ell RNum L fuel e M PI (F PI)) <= PI.
Proof. intro fuel. apply newton_ell_monotone. lra. Qed.
End Conv.

(* reb_M_to_E, elliptic branch with the starter E = pi (taken when e >= 0.8), before the final reb_mod2pi:
   for a reduced mean anomaly in [0, pi] the value returned after ANY number of iterations lies between the
   solution E* of Kepler's equation and pi, every iterate being closer to E* than the previous one. *)
Lemma M_to_E_starter_pi_monotone : forall (L : libm R) fuel e M Es,
  l_sin L = sin -> l_cos L = cos -> l_pi L = PI ->
  8 / 10 <= e < 1 -> 0 <= Es <= PI ->
  Es - e * sin Es - M_reduced RNum L M = 0 ->
  Es <= fst (M_to_E_ell_fuel RNum L fuel e M) <= PI.
Proof.
  intros L fuel e M Es Hs Hc Hpi He HEs Hroot.
  unfold M_to_E_ell_fuel, ell_start. cbv zeta.
  assert (E1 : nltb RNum e (ndec RNum 8 10) = false).
  { unfold ndec. cbn [nltb ndiv nofZ RNum]. apply Rltb_false. lra. }
  rewrite E1, Hpi. rewrite Hs. cbn [nsub nmul RNum].
  apply (M_to_E_from_pi_monotone e (M_reduced RNum L M) Es); try assumption. lra.
Qed.
