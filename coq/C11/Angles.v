(* C11 round 3 — the angle part of the round trip elements -> particle -> elements on the generic branch:
   omega and f are returned modulo 2 pi, and the mean anomaly satisfies Kepler's equation for the eccentric anomaly
   that belongs to f (hence T is returned modulo the period). *)
From Coq Require Import ZArith Reals Lra Lia Nsatz List.
From Flocq Require Import Core.Raux.
From RV Require Import Common.Num Common.RealNum C11.Orbit C11.OrbitProofs C11.OrbitInv C11.InvProofs C11.RoundTrip.
Open Scope R_scope.

(* ------------------------------------------------------------------ periodicity with integer multiples *)
Lemma cos_sin_Zperiod : forall x (k : Z), cos (x + IZR k * (2 * PI)) = cos x /\ sin (x + IZR k * (2 * PI)) = sin x.
Proof.
  intros x k. destruct k as [|p|p].
  - rewrite Rmult_0_l, Rplus_0_r. split; reflexivity.
  - replace (x + IZR (Z.pos p) * (2 * PI)) with (x + 2 * INR (Pos.to_nat p) * PI) by (rewrite INR_IZR_INZ, positive_nat_Z; ring).
    split; [apply cos_period | apply sin_period].
  - assert (E : x = (x + IZR (Z.neg p) * (2 * PI)) + 2 * INR (Pos.to_nat p) * PI).
    { rewrite INR_IZR_INZ, positive_nat_Z. change (Z.neg p) with (- Z.pos p)%Z. rewrite opp_IZR. ring. }
    split; [rewrite E at 2; symmetry; apply cos_period | rewrite E at 2; symmetry; apply sin_period].
Qed.

Lemma reduce_angle : forall x, exists k : Z, - PI < x - IZR k * (2 * PI) <= PI.
Proof.
  intro x. pose proof PI_RGT_0 as Hpi.
  set (u := (x + PI) / (2 * PI)).
  exists (Zceil u - 1)%Z. rewrite minus_IZR.
  pose proof (Zceil_ub u) as A. pose proof (Zceil_lb u) as B.
  assert (E : u * (2 * PI) = x + PI) by (unfold u; field; lra).
  assert (A' : u * (2*PI) <= IZR (Zceil u) * (2*PI)) by (apply Rmult_le_compat_r; lra).
  assert (B' : (IZR (Zceil u) - 1) * (2*PI) < u * (2*PI)) by (apply Rmult_lt_compat_r; lra).
  rewrite E in A', B'.
  replace ((IZR (Zceil u) - 1) * (2 * PI)) with (IZR (Zceil u) * (2*PI) - 2*PI) in * by ring.
  split; lra.
Qed.

Section A2.
Variable L : libm R.
Variable L2 : libm2 R.
Hypothesis Hacos : l_acos L2 = acos.
Hypothesis HPI : l_pi L = PI.

(* acos2 (K cos th) K (S sin th) is th modulo 2 pi, for EVERY real th *)
Lemma acos2_mod : forall th K S, 0 < K -> 0 < S ->
  exists k : Z, acos2 RNum L L2 (K * cos th) K (S * sin th) = th + IZR k * (2 * PI).
Proof.
  intros th K S HK HS. destruct (reduce_angle th) as [k Hk].
  set (th0 := th - IZR k * (2 * PI)) in *.
  destruct (cos_sin_Zperiod th0 k) as [Ec Es].
  replace (th0 + IZR k * (2 * PI)) with th in * by (unfold th0; ring).
  exists (- k)%Z. rewrite Ec, Es. rewrite (acos2_recover L L2 Hacos HPI th0 K S HK HS Hk).
  rewrite opp_IZR. unfold th0. ring.
Qed.
End A2.

(* ------------------------------------------------------------------ more identities of the rotation *)
Section Rot3.
Variables e cO sO co so cf sf ci si : R.
Hypothesis HO : cO*cO+sO*sO=1.
Hypothesis Ho : co*co+so*so=1.
Hypothesis Hf : cf*cf+sf*sf=1.
Hypothesis Hi : ci*ci+si*si=1.
Let A := cO * (co * cf - so * sf) - sO * (so * cf + co * sf) * ci.
Let B := sO * (co * cf - so * sf) + cO * (so * cf + co * sf) * ci.
Let C := (so * cf + co * sf) * si.
Let U := ((e + cf) * ((- ci) * co * sO - cO * so) - sf * (co * cO - ci * so * sO)).
Let V := ((e + cf) * (ci * co * cO - sO * so) - sf * (co * sO + ci * so * cO)).
Let W := ((e + cf) * co * si - sf * si * so).
Lemma node_dot_r : cO*A + sO*B = co*cf - so*sf.
Proof. subst A B. nsatz. Qed.
Lemma evx_id : (cf+e)*A - sf*U = (1+e*cf)*(cO*co - sO*so*ci).
Proof. subst A U. nsatz. Qed.
Lemma evy_id : (cf+e)*B - sf*V = (1+e*cf)*(sO*co + cO*so*ci).
Proof. subst B V. nsatz. Qed.
Lemma evz_id : (cf+e)*C - sf*W = (1+e*cf)*(so*si).
Proof. subst C W. nsatz. Qed.
End Rot3.

(* ------------------------------------------------------------------ the model's intermediate quantities, named *)
Section Expose.
Variable L : libm R.
Variable L2 : libm2 R.

Lemma orbit_expose : forall tiny G t0 p prim o,
  orbit_from_particle_err RNum L L2 tiny G t0 p prim = inr o ->
  let mu := G * (pm p + pm prim) in
  let dx := px p - px prim in let dy := py p - py prim in let dz := pz p - pz prim in
  let dvx := pvx p - pvx prim in let dvy := pvy p - pvy prim in let dvz := pvz p - pvz prim in
  let d := sqrt (dx*dx + dy*dy + dz*dz) in
  let vsq := dvx*dvx + dvy*dvy + dvz*dvz in
  let vc := mu / d in
  let a := (- mu) / (vsq - 2 * vc) in
  let hx := dy*dvz - dz*dvy in let hy := dz*dvx - dx*dvz in let hz := dx*dvy - dy*dvx in
  let h := sqrt (hx*hx + hy*hy + hz*hz) in
  let vdiff := vsq - vc in
  let vr := (dx*dvx + dy*dvy + dz*dvz) / d in
  let rvr := d * vr in
  let muinv := 1 / mu in
  let ex := muinv * (vdiff*dx - rvr*dvx) in
  let ey := muinv * (vdiff*dy - rvr*dvy) in
  let ez := muinv * (vdiff*dz - rvr*dvz) in
  let e := sqrt (ex*ex + ey*ey + ez*ez) in
  let n := a / Rabs a * sqrt (Rabs (mu / (a*a*a))) in
  let inc := acos2 RNum L L2 hz h 1 in
  let nx := - hy in let ny := hx in
  let nn := sqrt (nx*nx + ny*ny) in
  let Omega := acos2 RNum L L2 nx nn ny in
  let M := mean_anomaly_raw RNum L L2 d a e vr in
  let retro := negb (Rltb inc (l_pi L / 2)) in
  let ANG := if orb (Rltb inc (MIN_INC RNum)) (Rltb (l_pi L - MIN_INC RNum) inc)
             then planar_angles RNum L L2 retro Omega dx dy d ex ey e
             else generic_angles RNum L L2 retro Omega nx ny nn dx dy dz d ex ey ez e in
  o_inc o = inc /\ o_a o = a /\ o_e o = e /\ o_d o = d /\ o_n o = n /\
  o_omega o = mod2pi RNum L (fst (fst (fst ANG))) /\ o_pomega o = snd (fst (fst ANG)) /\
  o_f o = mod2pi RNum L (snd (fst ANG)) /\ o_theta o = mod2pi RNum L (snd ANG) /\
  o_M o = mod2pi RNum L M /\ o_T o = t0 - M / Rabs n.
Proof.
  intros tiny G t0 p prim o Ho. cbv zeta.
  unfold orbit_from_particle_err in Ho.
  destruct (nleb RNum (pm prim) tiny); [discriminate|]. cbv zeta in Ho.
  match type of Ho with (if ?c then _ else _) = _ => destruct c; [discriminate|] end.
  cbn [nadd nsub nmul ndiv nneg nsqrt nabs nofZ none nzero nltb RNum] in Ho.
  match type of Ho with context [match ?X with pair _ _ => _ end] => destruct X as [[[om pom] ff] th] end.
  injection Ho as <-. cbn [o_inc o_a o_e o_d o_n o_omega o_pomega o_f o_theta o_M o_T fst snd].
  repeat split; reflexivity.
Qed.
End Expose.

(* ------------------------------------------------------------------ components of the constructed particle *)
Lemma from_orbit_components : forall tiny G prim m a e t p,
  trig_ok t -> 0 < G * (m + pm prim) -> shape_ok a e -> -1 < e * cf t -> tiny < pm prim ->
  from_orbit_err RNum tiny G prim m a e t = inr p ->
  let r := a * (1 - e * e) / (1 + e * cf t) in
  let v0 := sqrt (G * (m + pm prim) / a / (1 - e * e)) in
  0 < r /\ 0 < v0 /\ v0 * v0 = G * (m + pm prim) / (a * (1 - e * e)) /\ pm p = m /\
  px p - px prim = r * (cO t * (co t * cf t - so t * sf t) - sO t * (so t * cf t + co t * sf t) * ci t) /\
  py p - py prim = r * (sO t * (co t * cf t - so t * sf t) + cO t * (so t * cf t + co t * sf t) * ci t) /\
  pz p - pz prim = r * ((so t * cf t + co t * sf t) * si t) /\
  pvx p - pvx prim = v0 * ((e + cf t) * (- ci t * co t * sO t - cO t * so t) - sf t * (co t * cO t - ci t * so t * sO t)) /\
  pvy p - pvy prim = v0 * ((e + cf t) * (ci t * co t * cO t - sO t * so t) - sf t * (co t * sO t + ci t * so t * cO t)) /\
  pvz p - pvz prim = v0 * ((e + cf t) * co t * si t - sf t * si t * so t).
Proof.
  intros tiny G prim m a e t p Ht Hmu Hsh Hcf Htiny Hp. cbv zeta.
  unfold from_orbit_err in Hp. cbn [neqb nltb nleb none nzero nneg nmul nadd nsub ndiv nsqrt RNum] in Hp.
  assert (E0 : Reqb a 0 = false) by (apply Reqb_false; destruct Hsh; lra).
  assert (E1 : Reqb e 1 = false) by (apply Reqb_false; destruct Hsh; lra).
  assert (E2 : Rltb e 0 = false) by (apply Rltb_false; destruct Hsh; lra).
  assert (E3 : (if Rltb 1 e then Rltb 0 a else Rltb a 0) = false).
  { destruct (Rltb 1 e) eqn:K; [apply Rltb_true in K|apply Rltb_false in K]; apply Rltb_false; destruct Hsh; lra. }
  assert (E5 : Rltb (e * cf t) (Ropp 1) = false) by (apply Rltb_false; lra).
  assert (E6 : Rleb (pm prim) tiny = false) by (apply Rleb_false; lra).
  rewrite E0, E1, E2, E3, E5, E6 in Hp. injection Hp as Hp. subst p. cbn [pm px py pz pvx pvy pvz].
  assert (Haq : 0 < a * (1 - e*e)).
  { destruct Hsh as [[He Ha]|[He Ha]].
    - apply Rmult_lt_0_compat; nra.
    - replace (a * (1 - e*e)) with ((-a) * (e*e - 1)) by ring. apply Rmult_lt_0_compat; nra. }
  assert (Ha0 : a <> 0) by (destruct Hsh; lra).
  assert (Hq0 : 1 - e*e <> 0) by (intro K; rewrite K in Haq; lra).
  assert (Hv : 0 < G * (m + pm prim) / a / (1 - e * e)).
  { replace (G * (m + pm prim) / a / (1 - e * e)) with (G * (m + pm prim) / (a * (1 - e*e))) by (field; split; assumption).
    apply Rdiv_lt_0_compat; assumption. }
  split; [apply Rdiv_lt_0_compat; lra|]. split; [apply sqrt_lt_R0; exact Hv|]. split.
  { rewrite sqrt_sqrt by lra. field. split; assumption. }
  repeat split; ring.
Qed.

Section Generic.
Variable L : libm R.
Variable L2 : libm2 R.
Hypothesis Hacos : l_acos L2 = acos.
Hypothesis HPI : l_pi L = PI.
Hypothesis Hfm : fmod_spec (l_fmod L).

(* elements -> particle -> elements, generic branch (inc at least MIN_INC away from 0 and pi), e > 0:
   omega and f come back modulo 2 pi (and lie in [0, 2 pi)) *)
Lemma roundtrip_omega_f : forall tiny G t0 prim m a e t p o inc om f,
  trig_ok t -> 0 < G * (m + pm prim) -> shape_ok a e -> 0 < e -> -1 < e * cf t -> tiny < pm prim ->
  ci t = cos inc -> si t = sin inc -> MIN_INC RNum <= inc <= PI - MIN_INC RNum ->
  co t = cos om -> so t = sin om -> cf t = cos f -> sf t = sin f ->
  from_orbit_err RNum tiny G prim m a e t = inr p ->
  orbit_from_particle_err RNum L L2 tiny G t0 p prim = inr o ->
  (exists k : Z, o_omega o = om + IZR k * (2 * PI)) /\ (exists k : Z, o_f o = f + IZR k * (2 * PI)) /\
  0 <= o_omega o < 2 * PI /\ 0 <= o_f o < 2 * PI.
Proof.
  intros tiny G t0 prim m a e t p o inc om f Ht Hmu Hsh He Hcf Htiny Hci Hsi Hinc Hco Hso Hcf' Hsf Hp Ho.
  assert (Hmin : 0 < MIN_INC RNum) by (unfold MIN_INC, ndec; cbn [ndiv nofZ RNum]; lra).
  assert (Hinc' : 0 < inc < PI) by lra.
  pose proof (roundtrip_scalars L L2 _ _ _ _ _ _ _ _ _ _ Ht Hmu Hsh Hcf Htiny Hp Ho) as [Sa [Se [Sd _]]].
  pose proof (roundtrip_inc L L2 _ _ t0 _ _ _ _ _ _ _ inc Ht Hmu Hsh Hcf Htiny Hacos Hci Hinc' Hp Ho) as Sinc.
  pose proof (orbit_expose L L2 _ _ _ _ _ _ Ho) as X. cbv zeta in X.
  destruct X as [Xinc [Xa [Xe [Xd [_ [Xom [_ [Xf _]]]]]]]].
  rewrite Sinc in Xinc. rewrite Se in Xe. rewrite Sd in Xd. rewrite <- Xinc, <- Xe, <- Xd in Xom, Xf.
  (* branch selection *)
  assert (B1 : Rltb inc (MIN_INC RNum) = false) by (apply Rltb_false; lra).
  assert (B2 : Rltb (l_pi L - MIN_INC RNum) inc = false) by (apply Rltb_false; rewrite HPI; lra).
  rewrite B1, B2 in Xom, Xf. cbn [orb] in Xom, Xf.
  assert (FS : forall b W N1 N2 N3 D1 D2 D3 d1 E1 E2 E3 e1,
     fst (fst (fst (generic_angles RNum L L2 b W N1 N2 N3 D1 D2 D3 d1 E1 E2 E3 e1))) = acos2 RNum L L2 (N1*E1 + N2*E2) (N3*e1) E3 /\
     snd (fst (generic_angles RNum L L2 b W N1 N2 N3 D1 D2 D3 d1 E1 E2 E3 e1)) =
       acos2 RNum L L2 (N1*D1 + N2*D2) (N3*d1) D3 - acos2 RNum L L2 (N1*E1 + N2*E2) (N3*e1) E3).
  { intros. unfold generic_angles. destruct b; split; reflexivity. }
  match type of Xom with context [generic_angles RNum L L2 ?b ?W ?N1 ?N2 ?N3 ?D1 ?D2 ?D3 ?d1 ?E1 ?E2 ?E3 ?e1] =>
    destruct (FS b W N1 N2 N3 D1 D2 D3 d1 E1 E2 E3 e1) as [F1 F2]; rewrite F1 in Xom; rewrite F2 in Xf; clear F1 F2 end.
  clear FS.
  (* concrete components *)
  pose proof (from_orbit_components _ _ _ _ _ _ _ _ Ht Hmu Hsh Hcf Htiny Hp) as Cc. cbv zeta in Cc.
  destruct Cc as [Hr [Hv0 [Hvv [Hm [Ex [Ey [Ez [Evx [Evy Evz]]]]]]]]].
  pose proof Ht as [HO [Ho' [Hf Hi]]].
  set (r := a * (1 - e * e) / (1 + e * cf t)) in *.
  set (v0 := sqrt (G * (m + pm prim) / a / (1 - e * e))) in *.
  rewrite Hm in *. rewrite Ex, Ey, Ez, Evx, Evy, Evz in Xom, Xf.
  pose proof (hx_id e _ _ _ _ _ _ _ _ HO Ho' Hf Hi) as HX. pose proof (hy_id e _ _ _ _ _ _ _ _ HO Ho' Hf Hi) as HY.
  pose proof (node_dot_r _ _ _ _ _ _ _ _ HO Ho' Hf Hi) as ND.
  pose proof (evx_id e _ _ _ _ _ _ _ _ HO Ho' Hf Hi) as EVX. pose proof (evy_id e _ _ _ _ _ _ _ _ HO Ho' Hf Hi) as EVY.
  pose proof (evz_id e _ _ _ _ _ _ _ _ HO Ho' Hf Hi) as EVZ.
  pose proof (rv_id e _ _ _ _ _ _ _ _ HO Ho' Hf Hi) as RV. pose proof (vel_norm e _ _ _ _ _ _ _ _ HO Ho' Hf Hi) as VN.
  pose proof (pos_norm _ _ _ _ _ _ _ _ HO Ho' Hf Hi) as PN.
  cbv zeta in HX, HY, ND, EVX, EVY, EVZ, RV, VN, PN.
  set (A := cO t * (co t * cf t - so t * sf t) - sO t * (so t * cf t + co t * sf t) * ci t) in *.
  set (B := sO t * (co t * cf t - so t * sf t) + cO t * (so t * cf t + co t * sf t) * ci t) in *.
  set (C := (so t * cf t + co t * sf t) * si t) in *.
  set (U := (e + cf t) * (- ci t * co t * sO t - cO t * so t) - sf t * (co t * cO t - ci t * so t * sO t)) in *.
  set (V := (e + cf t) * (ci t * co t * cO t - sO t * so t) - sf t * (co t * sO t + ci t * so t * cO t)) in *.
  set (W := (e + cf t) * co t * si t - sf t * si t * so t) in *.
  set (mu := G * (m + pm prim)) in *.
  assert (Hs : 0 < si t) by (rewrite Hsi; apply sin_gt_0; lra).
  assert (Hd : 0 < 1 + e * cf t) by lra.
  assert (Ha0 : a <> 0) by (destruct Hsh; lra).
  assert (Haq : a * (1 - e*e) <> 0).
  { assert (0 < a * (1 - e*e)); [|lra].
    destruct Hsh as [[He' Ha]|[He' Ha]]; [apply Rmult_lt_0_compat; nra|].
    replace (a * (1 - e*e)) with ((-a) * (e*e - 1)) by ring. apply Rmult_lt_0_compat; nra. }
  assert (Hq0 : 1 - e*e <> 0) by (intro K; apply Haq; rewrite K; ring).
  assert (Er : r * (1 + e * cf t) = a * (1 - e*e)) by (unfold r; field; lra).
  set (K0 := r * v0 * (1 + e * cf t)) in *.
  assert (HK0 : 0 < K0) by (unfold K0; apply Rmult_lt_0_compat; [apply Rmult_lt_0_compat; assumption | exact Hd]).
  (* node vector *)
  assert (Nx : - (r * C * (v0 * U) - r * A * (v0 * W)) = K0 * si t * cO t).
  { replace (r * C * (v0 * U) - r * A * (v0 * W)) with (r * v0 * (C*U - A*W)) by ring. rewrite HY. unfold K0. ring. }
  assert (Ny : r * B * (v0 * W) - r * C * (v0 * V) = K0 * si t * sO t).
  { replace (r * B * (v0 * W) - r * C * (v0 * V)) with (r * v0 * (B*W - C*V)) by ring. rewrite HX. unfold K0. ring. }
  rewrite Nx, Ny in Xom, Xf.
  assert (Nn : sqrt (K0 * si t * cO t * (K0 * si t * cO t) + K0 * si t * sO t * (K0 * si t * sO t)) = K0 * si t).
  { replace (K0 * si t * cO t * (K0 * si t * cO t) + K0 * si t * sO t * (K0 * si t * sO t))
      with ((K0 * si t) * (K0 * si t) * (cO t * cO t + sO t * sO t)) by ring.
    rewrite HO, Rmult_1_r. apply sqrt_square. apply Rlt_le, Rmult_lt_0_compat; lra. }
  rewrite Nn in Xom, Xf.
  split; [|split; [|split]].
  4:{ rewrite <- HPI. rewrite Xf. apply (mod2pi_range L); [rewrite HPI; apply PI_RGT_0 | exact Hfm]. }
  3:{ rewrite <- HPI. rewrite Xom. apply (mod2pi_range L); [rewrite HPI; apply PI_RGT_0 | exact Hfm]. }
  all: clear Xinc Xa Xe Xd Sa Se Sd Sinc.
  all: assert (Hmu0 : mu <> 0) by lra.
  all: assert (Hd0 : 1 + e * cf t <> 0) by lra.
  all: assert (Hr0 : r <> 0) by lra.
  all: assert (EV : forall Acomp Ucomp Pcomp, (cf t + e) * Acomp - sf t * Ucomp = (1 + e * cf t) * Pcomp ->
     1 / mu * ((v0 * U * (v0 * U) + v0 * V * (v0 * V) + v0 * W * (v0 * W) - mu / r) * (r * Acomp) -
               r * ((r * A * (v0 * U) + r * B * (v0 * V) + r * C * (v0 * W)) / r) * (v0 * Ucomp)) = e * Pcomp).
  1,3: intros Acomp Ucomp Pcomp EVc;
       replace (v0 * U * (v0 * U) + v0 * V * (v0 * V) + v0 * W * (v0 * W)) with (v0 * v0 * (U*U+V*V+W*W)) by ring;
       replace (r * A * (v0 * U) + r * B * (v0 * V) + r * C * (v0 * W)) with (r * v0 * (A*U+B*V+C*W)) by ring;
       rewrite VN, RV;
       replace (r * (r * v0 * (e * sf t) / r) * (v0 * Ucomp)) with (r * (e * sf t) * Ucomp * (v0 * v0)) by (field; exact Hr0);
       rewrite Hvv;
       transitivity (e * (((cf t + e) * Acomp - sf t * Ucomp) / (1 + e * cf t)));
       [ unfold r; field; repeat split; first [assumption | lra] | rewrite EVc; field; exact Hd0 ].
  all: rewrite (EV _ _ _ EVX), (EV _ _ _ EVY), (EV _ _ _ EVZ) in *.
  all: assert (Eom : K0 * si t * cO t * (e * (cO t * co t - sO t * so t * ci t)) +
                     K0 * si t * sO t * (e * (sO t * co t + cO t * so t * ci t)) = (K0 * si t * e) * cos om)
         by (rewrite <- Hco; transitivity (K0 * si t * e * co t * (cO t * cO t + sO t * sO t)); [ring | rewrite HO; ring]).
  all: assert (Eoz : e * (so t * si t) = (e * si t) * sin om) by (rewrite <- Hso; ring).
  all: rewrite Eom, Eoz in *.
  all: assert (HK1 : 0 < K0 * si t * e) by (apply Rmult_lt_0_compat; [apply Rmult_lt_0_compat|]; assumption).
  all: assert (HS1 : 0 < e * si t) by (apply Rmult_lt_0_compat; assumption).
  all: destruct (acos2_mod L L2 Hacos HPI om _ _ HK1 HS1) as [k1 Hk1].
  - destruct (mod2pi_range L (eq_ind_r (fun x => 0 < x) PI_RGT_0 HPI) Hfm
                (acos2 RNum L L2 (K0 * si t * e * cos om) (K0 * si t * e) (e * si t * sin om))) as [_ [k2 Hk2]].
    exists (k1 - k2)%Z. rewrite Xom, Hk2, Hk1, HPI, minus_IZR. ring.
  - assert (Ewf : K0 * si t * cO t * (r * A) + K0 * si t * sO t * (r * B) = (K0 * si t * r) * cos (om + f)).
    { rewrite cos_plus, <- Hco, <- Hso, <- Hcf', <- Hsf. rewrite <- ND. ring. }
    assert (Ewz : r * C = (r * si t) * sin (om + f)).
    { rewrite sin_plus, <- Hco, <- Hso, <- Hcf', <- Hsf. unfold C. ring. }
    rewrite Ewf, Ewz in Xf.
    assert (HK2 : 0 < K0 * si t * r) by (apply Rmult_lt_0_compat; [apply Rmult_lt_0_compat|]; assumption).
    assert (HS2 : 0 < r * si t) by (apply Rmult_lt_0_compat; assumption).
    destruct (acos2_mod L L2 Hacos HPI (om + f) _ _ HK2 HS2) as [k3 Hk3].
    match type of Xf with _ = mod2pi RNum L ?x =>
      destruct (mod2pi_range L (eq_ind_r (fun y => 0 < y) PI_RGT_0 HPI) Hfm x) as [_ [k4 Hk4]] end.
    exists (k3 - k1 - k4)%Z. rewrite Xf, Hk4, Hk3, Hk1, HPI, !minus_IZR. ring.
Qed.
(* bound orbits: the mean anomaly read back is E - e sin E (mod 2 pi) for the eccentric anomaly E that belongs to f,
   and T is read back as t0 - (E - e sin E)/n up to whole periods.  No condition on inc. *)
Lemma roundtrip_M_T : forall tiny G t0 prim m a e t p o f E,
  trig_ok t -> 0 < G * (m + pm prim) -> 0 < e < 1 -> 0 < a -> -1 < e * cf t -> tiny < pm prim ->
  cf t = cos f -> sf t = sin f ->
  cos E = (e + cos f) / (1 + e * cos f) -> sin E = sqrt (1 - e*e) * sin f / (1 + e * cos f) ->
  from_orbit_err RNum tiny G prim m a e t = inr p ->
  orbit_from_particle_err RNum L L2 tiny G t0 p prim = inr o ->
  let nn := sqrt (G * (m + pm prim) / (a*a*a)) in
  o_n o = nn /\
  (l_sin L = sin -> exists k : Z, o_M o = E - e * sin E + IZR k * (2 * PI)) /\
  (l_sin L = sin -> exists k : Z, o_T o = t0 - (E - e * sin E) / nn + IZR k * (2 * PI / nn)).
Proof.
  intros tiny G t0 prim m a e t p o f E Ht Hmu He Ha Hcf Htiny Hcf' Hsf HcE HsE Hp Ho. cbv zeta.
  assert (Hsh : shape_ok a e) by (left; lra).
  pose proof (roundtrip_scalars L L2 _ _ _ _ _ _ _ _ _ _ Ht Hmu Hsh Hcf Htiny Hp Ho) as [Sa [Se [Sd _]]].
  pose proof (orbit_expose L L2 _ _ _ _ _ _ Ho) as X. cbv zeta in X.
  destruct X as [_ [Xa [Xe [Xd [Xn [_ [_ [_ [_ [XM XT]]]]]]]]]].
  rewrite Sa in Xa. rewrite Se in Xe. rewrite Sd in Xd.
  rewrite <- Xa in XM, XT, Xn. rewrite <- Xe, <- Xd in XM, XT.
  pose proof (from_orbit_components _ _ _ _ _ _ _ _ Ht Hmu Hsh Hcf Htiny Hp) as Cc. cbv zeta in Cc.
  destruct Cc as [Hr [Hv0 [Hvv [Hm [Ex [Ey [Ez [Evx [Evy Evz]]]]]]]]].
  pose proof Ht as [HO [Ho' [Hf Hi]]].
  set (r := a * (1 - e * e) / (1 + e * cf t)) in *.
  set (v0 := sqrt (G * (m + pm prim) / a / (1 - e * e))) in *.
  rewrite Hm in *. rewrite Ex, Ey, Ez, Evx, Evy, Evz in XM, XT.
  pose proof (rv_id e _ _ _ _ _ _ _ _ HO Ho' Hf Hi) as RV. cbv zeta in RV.
  set (A := cO t * (co t * cf t - so t * sf t) - sO t * (so t * cf t + co t * sf t) * ci t) in *.
  set (B := sO t * (co t * cf t - so t * sf t) + cO t * (so t * cf t + co t * sf t) * ci t) in *.
  set (C := (so t * cf t + co t * sf t) * si t) in *.
  set (U := (e + cf t) * (- ci t * co t * sO t - cO t * so t) - sf t * (co t * cO t - ci t * so t * sO t)) in *.
  set (V := (e + cf t) * (ci t * co t * cO t - sO t * so t) - sf t * (co t * sO t + ci t * so t * cO t)) in *.
  set (W := (e + cf t) * co t * si t - sf t * si t * so t) in *.
  set (mu := G * (m + pm prim)) in *.
  assert (Hd : 0 < 1 + e * cf t) by lra.
  assert (Hq : 0 < 1 - e*e) by nra.
  assert (Hsq : 0 < sqrt (1 - e*e)) by (apply sqrt_lt_R0; exact Hq).
  assert (Hr0 : r <> 0) by lra.
  (* n *)
  assert (En : a / Rabs a * sqrt (Rabs (mu / (a * a * a))) = sqrt (mu / (a * a * a))).
  { rewrite (Rabs_pos_eq a) by lra.
    assert (0 < mu / (a*a*a)) by (apply Rdiv_lt_0_compat; [lra | repeat apply Rmult_lt_0_compat; lra]).
    rewrite (Rabs_pos_eq (mu / (a*a*a))) by lra. field. lra. }
  rewrite En in Xn, XT.
  set (nn := sqrt (mu / (a * a * a))) in *.
  assert (Hnn : 0 < nn).
  { unfold nn. apply sqrt_lt_R0. apply Rdiv_lt_0_compat; [lra | repeat apply Rmult_lt_0_compat; lra]. }
  (* the eccentric anomaly *)
  assert (Evr : (r * A * (v0 * U) + r * B * (v0 * V) + r * C * (v0 * W)) / r = v0 * e * sf t).
  { replace (r * A * (v0 * U) + r * B * (v0 * V) + r * C * (v0 * W)) with (r * v0 * (A*U+B*V+C*W)) by ring.
    rewrite RV. field. exact Hr0. }
  rewrite Evr in XM, XT.
  assert (Eca : 1 - r / a = e * cos E).
  { rewrite HcE, <- Hcf'. unfold r. field. lra. }
  set (S := v0 * e * (1 + e * cf t) / sqrt (1 - e*e)).
  assert (HS : 0 < S).
  { unfold S. apply Rdiv_lt_0_compat; [|exact Hsq]. apply Rmult_lt_0_compat; [apply Rmult_lt_0_compat|]; lra. }
  assert (Edis : v0 * e * sf t = S * sin E).
  { rewrite HsE, <- Hcf', <- Hsf. unfold S. field. split; lra. }
  unfold mean_anomaly_raw in XM, XT. cbn [nltb none nsub nmul ndiv RNum] in XM, XT.
  assert (E1 : Rltb e 1 = true) by (apply Rltb_true; lra).
  rewrite E1, Eca, Edis in XM, XT.
  destruct (acos2_mod L L2 Hacos HPI E e S (proj1 He) HS) as [k1 Hk1].
  split; [exact Xn|]. split.
  - intros Hsin. rewrite Hsin in XM. rewrite Hk1 in XM.
    destruct (cos_sin_Zperiod E k1) as [_ Es]. rewrite Es in XM.
    match type of XM with _ = mod2pi RNum L ?x =>
      destruct (mod2pi_range L (eq_ind_r (fun y => 0 < y) PI_RGT_0 HPI) Hfm x) as [_ [k2 Hk2]] end.
    exists (k1 - k2)%Z. rewrite XM, Hk2, HPI, minus_IZR. ring.
  - intros Hsin. rewrite Hsin in XT. rewrite Hk1 in XT.
    destruct (cos_sin_Zperiod E k1) as [_ Es]. rewrite Es in XT.
    exists (- k1)%Z. rewrite XT, (Rabs_pos_eq nn) by lra. rewrite opp_IZR. field. lra.
Qed.
(* T -> particle -> T.  The front ends turn a pericentre time Tin into M = n (t - Tin) (Flow.v, AnT; n as below for
   a > 0) and then into f through reb_M_to_f.  If that conversion is exact -- E solves Kepler's equation for M up to
   whole turns and f is the true anomaly of E -- the T read back at the same simulation time is Tin up to whole
   periods.  (Exactness of the Newton solver is the only hypothesis left; see C11_kepler_residual_*.) *)
Lemma roundtrip_T : forall tiny G t0 prim m a e t p o f E Tin (j : Z),
  trig_ok t -> 0 < G * (m + pm prim) -> 0 < e < 1 -> 0 < a -> -1 < e * cf t -> tiny < pm prim ->
  cf t = cos f -> sf t = sin f -> l_sin L = sin ->
  cos E = (e + cos f) / (1 + e * cos f) -> sin E = sqrt (1 - e*e) * sin f / (1 + e * cos f) ->
  E - e * sin E = sqrt (G * (m + pm prim) / (a*a*a)) * (t0 - Tin) + IZR j * (2 * PI) ->
  from_orbit_err RNum tiny G prim m a e t = inr p ->
  orbit_from_particle_err RNum L L2 tiny G t0 p prim = inr o ->
  exists k : Z, o_T o = Tin + IZR k * (2 * PI / sqrt (G * (m + pm prim) / (a*a*a))).
Proof.
  intros tiny G t0 prim m a e t p o f E Tin j Ht Hmu He Ha Hcf Htiny Hcf' Hsf Hsin HcE HsE HK Hp Ho.
  destruct (roundtrip_M_T _ _ _ _ _ _ _ _ _ _ f E Ht Hmu He Ha Hcf Htiny Hcf' Hsf HcE HsE Hp Ho) as [_ [_ HT]].
  destruct (HT Hsin) as [k Hk].
  set (nn := sqrt (G * (m + pm prim) / (a * a * a))) in *.
  assert (Hnn : 0 < nn).
  { unfold nn. apply sqrt_lt_R0. apply Rdiv_lt_0_compat; [lra | repeat apply Rmult_lt_0_compat; lra]. }
  exists (k - j)%Z. rewrite Hk, HK, minus_IZR. field. lra.
Qed.
(* unbound orbits (a < 0, e > 1): n = -sqrt(mu/|a|^3) and the pericentre time is read back EXACTLY as
   t0 - (e sinh H - H)/|n| for the hyperbolic anomaly H of f (acosh by its defining property on [0, inf)) *)
Lemma cosh_even : forall x, cosh (- x) = cosh x.
Proof. intro x. unfold cosh. rewrite Ropp_involutive. unfold Rdiv; ring. Qed.

Lemma roundtrip_T_hyperbolic : forall tiny G t0 prim m a e t p o f H,
  trig_ok t -> 0 < G * (m + pm prim) -> 1 < e -> a < 0 -> -1 < e * cf t -> tiny < pm prim ->
  cf t = cos f -> sf t = sin f ->
  (forall x, 0 <= x -> l_acosh L2 (cosh x) = x) -> l_sinh L = sinh ->
  cosh H = (e + cos f) / (1 + e * cos f) -> sinh H = sqrt (e*e - 1) * sin f / (1 + e * cos f) ->
  from_orbit_err RNum tiny G prim m a e t = inr p ->
  orbit_from_particle_err RNum L L2 tiny G t0 p prim = inr o ->
  let nn := sqrt (G * (m + pm prim) / ((-a)*(-a)*(-a))) in
  o_n o = - nn /\ o_T o = t0 - (e * sinh H - H) / nn.
Proof.
  intros tiny G t0 prim m a e t p o f H Ht Hmu He Ha Hcf Htiny Hcf' Hsf Hach Hsh' HcH HsH Hp Ho. cbv zeta.
  assert (Hsh : shape_ok a e) by (right; lra).
  pose proof (roundtrip_scalars L L2 _ _ _ _ _ _ _ _ _ _ Ht Hmu Hsh Hcf Htiny Hp Ho) as [Sa [Se [Sd _]]].
  pose proof (orbit_expose L L2 _ _ _ _ _ _ Ho) as X. cbv zeta in X.
  destruct X as [_ [Xa [Xe [Xd [Xn [_ [_ [_ [_ [_ XT]]]]]]]]]].
  rewrite Sa in Xa. rewrite Se in Xe. rewrite Sd in Xd.
  rewrite <- Xa in XT, Xn. rewrite <- Xe, <- Xd in XT.
  pose proof (from_orbit_components _ _ _ _ _ _ _ _ Ht Hmu Hsh Hcf Htiny Hp) as Cc. cbv zeta in Cc.
  destruct Cc as [Hr [Hv0 [Hvv [Hm [Ex [Ey [Ez [Evx [Evy Evz]]]]]]]]].
  pose proof Ht as [HO [Ho' [Hf Hi]]].
  set (r := a * (1 - e * e) / (1 + e * cf t)) in *.
  set (v0 := sqrt (G * (m + pm prim) / a / (1 - e * e))) in *.
  rewrite Hm in *. rewrite Ex, Ey, Ez, Evx, Evy, Evz in XT.
  pose proof (rv_id e _ _ _ _ _ _ _ _ HO Ho' Hf Hi) as RV. cbv zeta in RV.
  set (A := cO t * (co t * cf t - so t * sf t) - sO t * (so t * cf t + co t * sf t) * ci t) in *.
  set (B := sO t * (co t * cf t - so t * sf t) + cO t * (so t * cf t + co t * sf t) * ci t) in *.
  set (C := (so t * cf t + co t * sf t) * si t) in *.
  set (U := (e + cf t) * (- ci t * co t * sO t - cO t * so t) - sf t * (co t * cO t - ci t * so t * sO t)) in *.
  set (V := (e + cf t) * (ci t * co t * cO t - sO t * so t) - sf t * (co t * sO t + ci t * so t * cO t)) in *.
  set (W := (e + cf t) * co t * si t - sf t * si t * so t) in *.
  set (mu := G * (m + pm prim)) in *.
  assert (Hd : 0 < 1 + e * cf t) by lra.
  assert (Hq : 0 < e*e - 1) by nra.
  assert (Hsq : 0 < sqrt (e*e - 1)) by (apply sqrt_lt_R0; exact Hq).
  assert (Hr0 : r <> 0) by lra.
  assert (Hna : 0 < (-a)*(-a)*(-a)) by (repeat apply Rmult_lt_0_compat; lra).
  assert (En : a / Rabs a * sqrt (Rabs (mu / (a * a * a))) = - sqrt (mu / ((-a)*(-a)*(-a)))).
  { rewrite (Rabs_left a) by lra.
    replace (mu / (a*a*a)) with (- (mu / ((-a)*(-a)*(-a)))) by (field; lra).
    rewrite Rabs_Ropp. assert (0 < mu / ((-a)*(-a)*(-a))) by (apply Rdiv_lt_0_compat; lra).
    rewrite (Rabs_pos_eq (mu / ((-a)*(-a)*(-a)))) by lra. field. lra. }
  rewrite En in Xn, XT.
  set (nn := sqrt (mu / ((-a)*(-a)*(-a)))) in *.
  assert (Hnn : 0 < nn) by (unfold nn; apply sqrt_lt_R0; apply Rdiv_lt_0_compat; lra).
  assert (Evr : (r * A * (v0 * U) + r * B * (v0 * V) + r * C * (v0 * W)) / r = v0 * e * sf t).
  { replace (r * A * (v0 * U) + r * B * (v0 * V) + r * C * (v0 * W)) with (r * v0 * (A*U+B*V+C*W)) by ring.
    rewrite RV. field. exact Hr0. }
  rewrite Evr in XT.
  assert (Eca : (1 - r / a) / e = cosh H).
  { rewrite HcH, <- Hcf'. unfold r. field. repeat split; lra. }
  unfold mean_anomaly_raw in XT. cbn [nltb none nzero nneg nsub nmul ndiv RNum] in XT.
  assert (E1 : Rltb e 1 = false) by (apply Rltb_false; lra).
  rewrite E1, Eca, Hsh' in XT.
  split; [exact Xn|].
  (* the sign of the radial velocity is the sign of H *)
  assert (Esf : sf t = sinh H * (1 + e * cf t) / sqrt (e*e - 1)).
  { rewrite HsH, <- Hcf', <- Hsf. field. split; lra. }
  destruct (Rlt_or_le H 0) as [Hneg|Hpos].
  - assert (sinh H < 0) by (rewrite <- sinh_0; apply sinh_lt; exact Hneg).
    assert (Hvr : v0 * e * sf t < 0).
    { rewrite Esf. assert (0 < v0 * e * (1 + e * cf t) / sqrt (e*e - 1)).
      { apply Rdiv_lt_0_compat; [|exact Hsq]. apply Rmult_lt_0_compat; [apply Rmult_lt_0_compat|]; lra. }
      replace (v0 * e * (sinh H * (1 + e * cf t) / sqrt (e * e - 1))) with (sinh H * (v0 * e * (1 + e * cf t) / sqrt (e*e - 1))) by (field; lra).
      nra. }
    assert (E2 : Rltb (v0 * e * sf t) 0 = true) by (apply Rltb_true; exact Hvr).
    rewrite E2 in XT. rewrite <- (cosh_even H), Hach in XT by lra.
    rewrite XT, Ropp_involutive, (Rabs_Ropp nn), (Rabs_pos_eq nn) by lra. reflexivity.
  - assert (0 <= sinh H).
    { destruct Hpos as [Hp'|Hz]; [left; rewrite <- sinh_0; apply sinh_lt; exact Hp' | rewrite <- Hz, sinh_0; lra]. }
    assert (Hvr : 0 <= v0 * e * sf t).
    { rewrite Esf. assert (0 < v0 * e * (1 + e * cf t) / sqrt (e*e - 1)).
      { apply Rdiv_lt_0_compat; [|exact Hsq]. apply Rmult_lt_0_compat; [apply Rmult_lt_0_compat|]; lra. }
      replace (v0 * e * (sinh H * (1 + e * cf t) / sqrt (e * e - 1))) with (sinh H * (v0 * e * (1 + e * cf t) / sqrt (e*e - 1))) by (field; lra).
      nra. }
    assert (E2 : Rltb (v0 * e * sf t) 0 = false) by (apply Rltb_false; lra).
    rewrite E2, Hach in XT by exact Hpos.
    rewrite XT, (Rabs_Ropp nn), (Rabs_pos_eq nn) by lra. reflexivity.
Qed.
End Generic.

(* ------------------------------------------------------------------ defining relations between the returned angles *)
Definition cong (x y : R) : Prop := exists k : Z, x = y + IZR k * (2 * PI).
Lemma cong_refl : forall x, cong x x. Proof. intro x. exists 0%Z. simpl. ring. Qed.
Lemma cong_sym : forall x y, cong x y -> cong y x.
Proof. intros x y [k H]. exists (- k)%Z. rewrite H, opp_IZR. ring. Qed.
Lemma cong_trans : forall x y z, cong x y -> cong y z -> cong x z.
Proof. intros x y z [k H] [j K]. exists (k + j)%Z. rewrite H, K, plus_IZR. ring. Qed.
Lemma cong_plus : forall x y u v, cong x y -> cong u v -> cong (x + u) (y + v).
Proof. intros x y u v [k H] [j K]. exists (k + j)%Z. rewrite H, K, plus_IZR. ring. Qed.
Lemma cong_minus : forall x y u v, cong x y -> cong u v -> cong (x - u) (y - v).
Proof. intros x y u v [k H] [j K]. exists (k - j)%Z. rewrite H, K, minus_IZR. ring. Qed.

Section Relations.
Variable L : libm R.
Variable L2 : libm2 R.
Hypothesis HPI : l_pi L = PI.
Hypothesis Hfm : fmod_spec (l_fmod L).

Lemma cong_mod2pi : forall x, cong (mod2pi RNum L x) x.
Proof.
  intro x. destruct (mod2pi_range L (eq_ind_r (fun y => 0 < y) PI_RGT_0 HPI) Hfm x) as [_ [k Hk]].
  exists (- k)%Z. rewrite Hk, HPI, opp_IZR. ring.
Qed.

Lemma cong_eq : forall x y, x = y -> cong x y. Proof. intros x y ->. apply cong_refl. Qed.

Ltac strip :=
  lazymatch goal with
  | |- cong (mod2pi RNum L _) _ => apply cong_mod2pi
  | |- cong (_ + _) _ => apply cong_plus; strip
  | |- cong (_ - _) _ => apply cong_minus; strip
  | |- cong _ _ => apply cong_refl
  end.
Ltac solve_cong :=
  eapply cong_trans; [strip | apply cong_sym; eapply cong_trans; [strip | apply cong_eq; ring]].

(* In EVERY branch (near-planar or generic, any e) the returned angles satisfy, modulo 2 pi,
     prograde (inc < pi/2):  pomega = Omega + omega,  theta = pomega + f,  l = pomega + M (e > MIN_ECC)
     retrograde           :  pomega = Omega - omega,  theta = pomega - f,  l = pomega - M (e > MIN_ECC). *)
Lemma orbit_relations : forall tiny G t0 p prim o,
  orbit_from_particle_err RNum L L2 tiny G t0 p prim = inr o ->
  if Rltb (o_inc o) (PI / 2)
  then cong (o_pomega o) (o_Omega o + o_omega o) /\ cong (o_theta o) (o_pomega o + o_f o) /\
       (MIN_ECC RNum < o_e o -> cong (o_l o) (o_pomega o + o_M o))
  else cong (o_pomega o) (o_Omega o - o_omega o) /\ cong (o_theta o) (o_pomega o - o_f o) /\
       (MIN_ECC RNum < o_e o -> cong (o_l o) (o_pomega o - o_M o)).
Proof.
  intros tiny G t0 p prim o Ho. unfold orbit_from_particle_err in Ho.
  destruct (nleb RNum (pm prim) tiny); [discriminate|]. cbv zeta in Ho.
  match type of Ho with (if ?c then _ else _) = _ => destruct c; [discriminate|] end.
  cbn [nadd nsub nmul ndiv nneg nsqrt nabs nofZ none nzero nltb RNum] in Ho. rewrite HPI in Ho.
  match type of Ho with context [negb (Rltb ?i ?h)] => destruct (Rltb i h) eqn:ER end; cbn [negb] in Ho;
  (match type of Ho with context [if ?c then planar_angles _ _ _ _ _ _ _ _ _ _ _ else _] => destruct c end);
  unfold planar_angles, generic_angles in Ho; cbv zeta in Ho; cbn [nsub nadd RNum] in Ho;
  injection Ho as <-; cbn [o_inc o_pomega o_Omega o_omega o_theta o_f o_l o_M o_e]; rewrite ER;
  (split; [|split]);
  try (intros HE; unfold mean_long; cbn [nltb nsub nadd RNum]; apply Rltb_true in HE; rewrite HE);
  solve_cong.
Qed.
End Relations.
