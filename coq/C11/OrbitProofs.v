(* C11 — theorems over the reals about the model of reb_particle_from_orbit_err and the Newton loops. *)
From Coq Require Import ZArith Reals Lra Nsatz List.
From RV Require Import Common.Num Common.RealNum C11.Orbit.
Open Scope R_scope.

(* ------------------------------------------------------------------ polynomial identities of the rotation *)
Section Rot.
Variables e cO sO co so cf sf ci si : R.
Hypothesis HO : cO*cO+sO*sO=1.
Hypothesis Ho : co*co+so*so=1.
Hypothesis Hf : cf*cf+sf*sf=1.
Hypothesis Hi : ci*ci+si*si=1.

Let A := cO * (co * cf - so * sf) - sO * (so * cf + co * sf) * ci.
Let B := sO * (co * cf - so * sf) + cO * (so * cf + co * sf) * ci.
Let C := (so * cf + co * sf) * si.
Let U := ((e + cf) * ((- ci) * co * sO - cO * so) - sf * (co * cO - ci * so * sO)).
Let V := ((e + cf) * (ci * co * cO - sO * so) - sf * (co * sO + ci * so * cO)).
Let W := ((e + cf) * co * si - sf * si * so).

Lemma pos_norm : A*A+B*B+C*C = 1.
Proof. subst A B C. nsatz. Qed.
Lemma vel_norm : U*U+V*V+W*W = 1 + 2*e*cf + e*e.
Proof. subst U V W. nsatz. Qed.
Lemma hz_id : A*V-B*U = ci*(1+e*cf).
Proof. subst A B U V. nsatz. Qed.
Lemma rv_id : A*U+B*V+C*W = e*sf.
Proof. subst A B C U V W. nsatz. Qed.
Lemma h_norm : (B*W-C*V)*(B*W-C*V) + (C*U-A*W)*(C*U-A*W) + (A*V-B*U)*(A*V-B*U) = (1+e*cf)*(1+e*cf).
Proof.
  replace ((B*W-C*V)*(B*W-C*V) + (C*U-A*W)*(C*U-A*W) + (A*V-B*U)*(A*V-B*U))
    with ((A*A+B*B+C*C)*(U*U+V*V+W*W) - (A*U+B*V+C*W)*(A*U+B*V+C*W)) by ring.
  rewrite pos_norm, vel_norm, rv_id.
  assert (K : sf*sf = 1 - cf*cf) by lra.
  replace (e*sf*(e*sf)) with (e*e*(sf*sf)) by ring.
  rewrite K. ring.
Qed.
End Rot.

(* ------------------------------------------------------------------ the decision rules *)
Lemma Reqb_true : forall a b, Reqb a b = true <-> a = b.
Proof. intros; unfold Reqb; destruct (Req_EM_T a b); split; congruence. Qed.
Lemma Rltb_true : forall a b, Rltb a b = true <-> a < b.
Proof. intros; unfold Rltb; destruct (Rlt_dec a b); split; intros; try congruence; tauto. Qed.
Lemma Rltb_false : forall a b, Rltb a b = false <-> ~ a < b.
Proof. intros; unfold Rltb; destruct (Rlt_dec a b); split; intros; try congruence; tauto. Qed.
Lemma Rleb_false : forall a b, Rleb a b = false <-> ~ a <= b.
Proof. intros; unfold Rleb; destruct (Rle_dec a b); split; intros; try congruence; tauto. Qed.
Lemma Reqb_false : forall a b, Reqb a b = false <-> a <> b.
Proof. intros; unfold Reqb; destruct (Req_EM_T a b); split; intros; try congruence; tauto. Qed.

Definition trig_ok (t : trig R) : Prop :=
  cO t * cO t + sO t * sO t = 1 /\ co t * co t + so t * so t = 1 /\
  cf t * cf t + sf t * sf t = 1 /\ ci t * ci t + si t * si t = 1.

(* the six rejection classes, in the priority order of the code *)
Definition reject_class (tiny : R) (prim : part R) (a e : R) (t : trig R) : option Z :=
  if Req_EM_T a 0 then Some 15%Z
  else if Req_EM_T e 1 then Some 1%Z
  else if Rlt_dec e 0 then Some 2%Z
  else if Rlt_dec 1 e then (if Rlt_dec 0 a then Some 3%Z else
         if Rlt_dec (e * cf t) (Ropp 1) then Some 5%Z else if Rle_dec (pm prim) tiny then Some 6%Z else None)
  else if Rlt_dec a 0 then Some 4%Z
  else if Rlt_dec (e * cf t) (Ropp 1) then Some 5%Z else if Rle_dec (pm prim) tiny then Some 6%Z else None.

Lemma from_orbit_decision : forall tiny G prim m a e t,
  match reject_class tiny prim a e t with
  | Some c => from_orbit_err RNum tiny G prim m a e t = inl c
  | None => exists p, from_orbit_err RNum tiny G prim m a e t = inr p
  end.
Proof.
  intros. unfold reject_class, from_orbit_err. cbn [neqb nltb nleb none nzero nneg nmul RNum].
  unfold Reqb, Rltb, Rleb.
  destruct (Req_EM_T a 0); [reflexivity|].
  destruct (Req_EM_T e 1); [reflexivity|].
  destruct (Rlt_dec e 0); [reflexivity|].
  destruct (Rlt_dec 1 e).
  - destruct (Rlt_dec 0 a); [reflexivity|].
    destruct (Rlt_dec (e * cf t) (Ropp 1)); [reflexivity|].
    destruct (Rle_dec (pm prim) tiny); [reflexivity|]. eexists; reflexivity.
  - destruct (Rlt_dec a 0); [reflexivity|].
    destruct (Rlt_dec (e * cf t) (Ropp 1)); [reflexivity|].
    destruct (Rle_dec (pm prim) tiny); [reflexivity|]. eexists; reflexivity.
Qed.

(* each invalid class => its error code *)
Lemma reject_rules : forall tiny G prim m a e t,
  (a = 0 -> from_orbit_err RNum tiny G prim m a e t = inl 15%Z) /\
  (a <> 0 -> e = 1 -> from_orbit_err RNum tiny G prim m a e t = inl 1%Z) /\
  (a <> 0 -> e < 0 -> from_orbit_err RNum tiny G prim m a e t = inl 2%Z) /\
  (1 < e -> 0 < a -> from_orbit_err RNum tiny G prim m a e t = inl 3%Z) /\
  (0 <= e < 1 -> a < 0 -> from_orbit_err RNum tiny G prim m a e t = inl 4%Z) /\
  ((0 <= e < 1 /\ 0 < a) \/ (1 < e /\ a < 0) -> e * cf t < -1 -> from_orbit_err RNum tiny G prim m a e t = inl 5%Z) /\
  ((0 <= e < 1 /\ 0 < a) \/ (1 < e /\ a < 0) -> -1 <= e * cf t -> pm prim <= tiny ->
      from_orbit_err RNum tiny G prim m a e t = inl 6%Z).
Proof.
  intros. pose proof (from_orbit_decision tiny G prim m a e t) as D. unfold reject_class in D.
  repeat split; intros;
  repeat match type of D with
  | context [Req_EM_T ?x ?y] => destruct (Req_EM_T x y); try lra
  | context [Rlt_dec ?x ?y] => destruct (Rlt_dec x y); try lra
  | context [Rle_dec ?x ?y] => destruct (Rle_dec x y); try lra
  end; try exact D; try (destruct H; lra); try contradiction.
Qed.

(* conversely: whatever is accepted is a valid orbit request *)
Definition shape_ok (a e : R) : Prop := (0 <= e < 1 /\ 0 < a) \/ (1 < e /\ a < 0).

Lemma accepted_is_valid : forall tiny G prim m a e t p,
  from_orbit_err RNum tiny G prim m a e t = inr p ->
  shape_ok a e /\ -1 <= e * cf t /\ tiny < pm prim.
Proof.
  intros tiny G prim m a e t p H.
  pose proof (from_orbit_decision tiny G prim m a e t) as D. unfold reject_class in D. unfold shape_ok.
  repeat match type of D with
  | context [Req_EM_T ?x ?y] => destruct (Req_EM_T x y)
  | context [Rlt_dec ?x ?y] => destruct (Rlt_dec x y)
  | context [Rle_dec ?x ?y] => destruct (Rle_dec x y)
  end; try (rewrite D in H; discriminate); repeat split; try lra; first [ right; lra | left; lra ].
Qed.

(* ------------------------------------------------------------------ the invariants of an accepted orbit *)
Record invariants (G m a e : R) (prim p : part R) (t : trig R) : Prop := {
  inv_m : pm p = m;
  inv_r_pos : 0 < a * (1 - e*e) / (1 + e * cf t);
  inv_radius :
    sqrt ((px p - px prim)*(px p - px prim) + (py p - py prim)*(py p - py prim) + (pz p - pz prim)*(pz p - pz prim))
    = a * (1 - e*e) / (1 + e * cf t);
  inv_visviva :
    ((pvx p - pvx prim)*(pvx p - pvx prim) + (pvy p - pvy prim)*(pvy p - pvy prim) + (pvz p - pvz prim)*(pvz p - pvz prim)) / 2
    - G*(m + pm prim) / (a * (1 - e*e) / (1 + e * cf t)) = - (G*(m + pm prim)) / (2*a);
  inv_h2 :
    let dx := px p - px prim in let dy := py p - py prim in let dz := pz p - pz prim in
    let dvx := pvx p - pvx prim in let dvy := pvy p - pvy prim in let dvz := pvz p - pvz prim in
    (dy*dvz - dz*dvy)*(dy*dvz - dz*dvy) + (dz*dvx - dx*dvz)*(dz*dvx - dx*dvz) + (dx*dvy - dy*dvx)*(dx*dvy - dy*dvx)
    = G*(m + pm prim) * a * (1 - e*e);
  inv_hz :
    (px p - px prim)*(pvy p - pvy prim) - (py p - py prim)*(pvx p - pvx prim)
    = sqrt (G*(m + pm prim) * a * (1 - e*e)) * ci t
}.

Lemma from_orbit_invariants : forall tiny G prim m a e t,
  trig_ok t -> 0 < G * (m + pm prim) -> shape_ok a e -> -1 < e * cf t -> tiny < pm prim ->
  exists p, from_orbit_err RNum tiny G prim m a e t = inr p /\ invariants G m a e prim p t.
Proof.
  intros tiny G prim m a e t [HO [Ho [Hf Hi]]] Hmu Hsh Hcf Htiny.
  pose proof (from_orbit_decision tiny G prim m a e t) as D.
  assert (Hrc : reject_class tiny prim a e t = None).
  { unfold reject_class.
    destruct (Req_EM_T a 0); [destruct Hsh; lra|].
    destruct (Req_EM_T e 1); [destruct Hsh; lra|].
    destruct (Rlt_dec e 0); [destruct Hsh; lra|].
    destruct (Rlt_dec 1 e).
    - destruct (Rlt_dec 0 a); [destruct Hsh; lra|].
      destruct (Rlt_dec (e * cf t) (Ropp 1)); [lra|]. destruct (Rle_dec (pm prim) tiny); [lra|reflexivity].
    - destruct (Rlt_dec a 0); [destruct Hsh; lra|].
      destruct (Rlt_dec (e * cf t) (Ropp 1)); [lra|]. destruct (Rle_dec (pm prim) tiny); [lra|reflexivity]. }
  rewrite Hrc in D. destruct D as [p Hp]. exists p. split; [exact Hp|].
  (* compute p *)
  unfold from_orbit_err in Hp. cbn [neqb nltb nleb none nzero nneg nmul nadd nsub ndiv nsqrt RNum] in Hp.
  assert (E0 : Reqb a 0 = false) by (apply Reqb_false; destruct Hsh; lra).
  assert (E1 : Reqb e 1 = false) by (apply Reqb_false; destruct Hsh; lra).
  assert (E2 : Rltb e 0 = false) by (apply Rltb_false; destruct Hsh; lra).
  assert (E3 : (if Rltb 1 e then Rltb 0 a else Rltb a 0) = false).
  { destruct (Rltb 1 e) eqn:K; [apply Rltb_true in K|apply Rltb_false in K]; apply Rltb_false; destruct Hsh; lra. }
  assert (E5 : Rltb (e * cf t) (Ropp 1) = false) by (apply Rltb_false; lra).
  assert (E6 : Rleb (pm prim) tiny = false) by (apply Rleb_false; lra).
  rewrite E0, E1, E2, E3, E5, E6 in Hp. injection Hp as Hp. subst p. cbn [pm px py pz pvx pvy pvz].
  set (mu := G * (m + pm prim)) in *.
  set (q := 1 - e*e) in *. set (d := 1 + e * cf t) in *.
  assert (Hd : 0 < d) by (unfold d; lra).
  assert (Haq : 0 < a * q).
  { unfold q. destruct Hsh as [[He Ha]|[He Ha]].
    - apply Rmult_lt_0_compat; nra.
    - replace (a * (1 - e*e)) with ((-a) * (e*e - 1)) by ring. apply Rmult_lt_0_compat; nra. }
  assert (Ha0 : a <> 0) by (destruct Hsh; lra).
  assert (Hq0 : q <> 0) by (intro K; rewrite K in Haq; lra).
  assert (Hr : 0 < a * q / d) by (apply Rdiv_lt_0_compat; assumption).
  set (r := a * q / d) in *.
  assert (Hv2 : 0 <= mu / a / q).
  { replace (mu / a / q) with (mu / (a * q)) by (field; split; assumption).
    apply Rlt_le, Rdiv_lt_0_compat; assumption. }
  set (v0 := sqrt (mu / a / q)) in *.
  assert (Hv0 : v0 * v0 = mu / (a * q)).
  { unfold v0. rewrite sqrt_sqrt by exact Hv2. field. split; assumption. }
  set (A := cO t * (co t * cf t - so t * sf t) - sO t * (so t * cf t + co t * sf t) * ci t).
  set (B := sO t * (co t * cf t - so t * sf t) + cO t * (so t * cf t + co t * sf t) * ci t).
  set (C := (so t * cf t + co t * sf t) * si t).
  set (U := (e + cf t) * (- ci t * co t * sO t - cO t * so t) - sf t * (co t * cO t - ci t * so t * sO t)).
  set (V := (e + cf t) * (ci t * co t * cO t - sO t * so t) - sf t * (co t * sO t + ci t * so t * cO t)).
  set (W := (e + cf t) * co t * si t - sf t * si t * so t).
  pose proof (pos_norm (cO t) (sO t) (co t) (so t) (cf t) (sf t) (ci t) (si t) HO Ho Hf Hi) as PN.
  pose proof (vel_norm e (cO t) (sO t) (co t) (so t) (cf t) (sf t) (ci t) (si t) HO Ho Hf Hi) as VN.
  pose proof (hz_id e (cO t) (sO t) (co t) (so t) (cf t) (sf t) (ci t) (si t) HO Ho Hf Hi) as HZ.
  pose proof (h_norm e (cO t) (sO t) (co t) (so t) (cf t) (sf t) (ci t) (si t) HO Ho Hf Hi) as HN.
  cbv zeta in PN, VN, HZ, HN. fold A B C in PN. fold A B C U V W in HN. fold U V W in VN. fold A B U V in HZ.
  assert (Hd0 : d <> 0) by lra.
  constructor; cbv zeta; cbn [pm px py pz pvx pvy pvz];
  try replace (px prim + r * A - px prim) with (r * A) by ring;
  try replace (py prim + r * B - py prim) with (r * B) by ring;
  try replace (pz prim + r * (so t * cf t + co t * sf t) * si t - pz prim) with (r * C) by (unfold C; ring);
  try replace (pvx prim + v0 * U - pvx prim) with (v0 * U) by ring;
  try replace (pvy prim + v0 * V - pvy prim) with (v0 * V) by ring;
  try replace (pvz prim + v0 * W - pvz prim) with (v0 * W) by ring.
  - reflexivity.
  - exact Hr.
  - replace (r * A * (r * A) + r * B * (r * B) + r * C * (r * C)) with (r * r * (A*A+B*B+C*C)) by ring.
    rewrite PN, Rmult_1_r. apply sqrt_square. apply Rlt_le; exact Hr.
  - replace (v0 * U * (v0 * U) + v0 * V * (v0 * V) + v0 * W * (v0 * W)) with (v0 * v0 * (U*U+V*V+W*W)) by ring.
    rewrite VN, Hv0. unfold mu, q. field. repeat split; assumption.
  - replace ((r * B * (v0 * W) - r * C * (v0 * V)) * (r * B * (v0 * W) - r * C * (v0 * V)) +
             (r * C * (v0 * U) - r * A * (v0 * W)) * (r * C * (v0 * U) - r * A * (v0 * W)) +
             (r * A * (v0 * V) - r * B * (v0 * U)) * (r * A * (v0 * V) - r * B * (v0 * U)))
      with (r * r * (v0 * v0) *
            ((B*W-C*V)*(B*W-C*V) + (C*U-A*W)*(C*U-A*W) + (A*V-B*U)*(A*V-B*U))) by ring.
    rewrite HN, Hv0. unfold r, d, mu, q. field. repeat split; assumption.
  - replace (r * A * (v0 * V) - r * B * (v0 * U)) with (r * v0 * (A*V-B*U)) by ring.
    rewrite HZ. fold d.
    assert (Hs : sqrt (mu * a * q) = r * d * v0).
    { assert (Hp : 0 <= r * d * v0).
      { apply Rmult_le_pos; [apply Rmult_le_pos; lra | unfold v0; apply sqrt_pos]. }
      rewrite <- (sqrt_square (r * d * v0)) by exact Hp. f_equal.
      replace (r * d * v0 * (r * d * v0)) with (r * d * (r * d) * (v0 * v0)) by ring.
      rewrite Hv0. unfold r, d, q. field. repeat split; assumption. }
    unfold mu, q in Hs. rewrite Hs. unfold d. ring.
Qed.

(* ------------------------------------------------------------------ Newton loops: the exit test *)
Section Newton.
Variable L : libm R.

Lemma newton_ell_exit : forall fuel e M E F E',
  newton_ell RNum L fuel e M E F = (E', true) ->
  Rabs (E' - e * l_sin L E' - M) < eps16 RNum.
Proof.
  induction fuel as [|k IH]; intros e M E F E' H; cbn [newton_ell] in H; [discriminate|].
  cbn [nltb nabs nsub nmul ndiv none RNum] in H.
  match type of H with (if Rltb ?x ?y then _ else _) = _ => destruct (Rltb x y) eqn:K end.
  - injection H as <-. apply Rltb_true in K. exact K.
  - eapply IH. exact H.
Qed.

Lemma newton_hyp_exit : forall fuel e M E F E',
  newton_hyp RNum L fuel e M E F = (E', true) ->
  Rabs (E' - e * l_sinh L E' + M) < eps16 RNum.
Proof.
  induction fuel as [|k IH]; intros e M E F E' H; cbn [newton_hyp] in H; [discriminate|].
  cbn [nltb nabs nsub nadd nmul ndiv none RNum] in H.
  match type of H with (if Rltb ?x ?y then _ else _) = _ => destruct (Rltb x y) eqn:K end.
  - injection H as <-. apply Rltb_true in K. exact K.
  - eapply IH. exact H.
Qed.

Lemma eps16_val : eps16 RNum = 1 / 10000000000000000.
Proof. reflexivity. Qed.
End Newton.


Lemma ell_fuel_exit : forall (L : libm R) fuel e M E,
  M_to_E_ell_fuel RNum L fuel e M = (E, true) ->
  Rabs (E - e * l_sin L E - M_reduced RNum L M) < 1 / 10000000000000000.
Proof.
  intros L fuel e M E H. rewrite <- (eps16_val). unfold M_to_E_ell_fuel in H.
  exact (newton_ell_exit L _ _ _ _ _ _ H).
Qed.

Lemma hyp_fuel_exit : forall (L : libm R) fuel e M E,
  M_to_E_hyp_fuel RNum L fuel e M = (E, true) ->
  Rabs (E - e * l_sinh L E + M) < 1 / 10000000000000000.
Proof.
  intros L fuel e M E H. rewrite <- (eps16_val). unfold M_to_E_hyp_fuel in H.
  exact (newton_hyp_exit L _ _ _ _ _ _ H).
Qed.

(* accepted, and not exactly on the asymptote  =>  all the invariants (hence every denominator is non-zero) *)
Lemma accepted_invariants : forall tiny G prim m a e t p,
  trig_ok t -> 0 < G * (m + pm prim) -> e * cf t <> -1 ->
  from_orbit_err RNum tiny G prim m a e t = inr p -> invariants G m a e prim p t.
Proof.
  intros tiny G prim m a e t p Ht Hmu Hb H.
  destruct (accepted_is_valid _ _ _ _ _ _ _ _ H) as [Hs [Hc Hm]].
  destruct (from_orbit_invariants tiny G prim m a e t Ht Hmu Hs) as [p' [Hp' Hi]]; try lra.
  rewrite H in Hp'. injection Hp' as <-. exact Hi.
Qed.
