(* C11 — executable models (Num-polymorphic) of the conversion routines of src/tools.c:
     reb_particle_from_orbit_err, reb_mod2pi, reb_M_to_E, reb_E_to_f, reb_M_to_f.
   libm functions are NOT modelled: their values are arguments.
     - from_orbit takes the eight values cos/sin(Omega, omega, f, inc) (record trig);
     - the anomaly conversions take the libm functions themselves (record libm); the binary64 instance is run
       with lookup tables recorded from the real libm (Run.v), the real instance with the Coq Reals functions.
   Same operation order as the C source (compiled -O3 -std=c99, no FMA):  a*b/c = (a*b)/c, a*b*c = (a*b)*c. *)
From Coq Require Import ZArith List.
From RV Require Import Common.Num.
Import ListNotations.

Section Model.
Context {T : Type} (N : Num T).

Local Notation "x + y" := (nadd N x y).
Local Notation "x - y" := (nsub N x y).
Local Notation "x * y" := (nmul N x y).
Local Notation "x / y" := (ndiv N x y).
Local Notation "- x" := (nneg N x).
Local Notation "x <? y" := (nltb N x y).
Local Notation "x <=? y" := (nleb N x y).
Local Notation "x =? y" := (neqb N x y).
Local Notation "'one'" := (none N).
Local Notation "'two'" := (nofZ N 2).

Record part := mkPart { pm : T; px : T; py : T; pz : T; pvx : T; pvy : T; pvz : T }.

(* cos and sin of Omega, omega, f, inc as returned by libm (C calls cos(f) three times: same value) *)
Record trig := mkTrig { cO : T; sO : T; co : T; so : T; cf : T; sf : T; ci : T; si : T }.

(* inl c  =  *err = c and reb_particle_nan() is returned;  inr p = *err untouched, particle p.
   tiny is the C macro TINY = 1.E-308 (primary.m <= TINY is rejected since /repo 0972be7, as in reb_orbit_from_particle_err). *)
Definition from_orbit_err (tiny G : T) (prim : part) (m a e : T) (t : trig) : Z + part :=
  if a =? nzero N then inl 15%Z else
  if e =? one then inl 1%Z else
  if e <? nzero N then inl 2%Z else
  if (if one <? e then nzero N <? a else a <? nzero N) then (if one <? e then inl 3%Z else inl 4%Z) else
  if (e * cf t) <? (- one) then inl 5%Z else
  if pm prim <=? tiny then inl 6%Z else
  let r := a * (one - e * e) / (one + e * cf t) in
  let v0 := nsqrt N (G * (m + pm prim) / a / (one - e * e)) in
  let cO := cO t in let sO := sO t in let co := co t in let so := so t in
  let cf := cf t in let sf := sf t in let ci := ci t in let si := si t in
  inr (mkPart m
    (px prim + r * (cO * (co * cf - so * sf) - sO * (so * cf + co * sf) * ci))
    (py prim + r * (sO * (co * cf - so * sf) + cO * (so * cf + co * sf) * ci))
    (pz prim + r * (so * cf + co * sf) * si)
    (pvx prim + v0 * ((e + cf) * ((- ci) * co * sO - cO * so) - sf * (co * cO - ci * so * sO)))
    (pvy prim + v0 * ((e + cf) * (ci * co * cO - sO * so) - sf * (co * sO + ci * so * cO)))
    (pvz prim + v0 * ((e + cf) * co * si - sf * si * so))).

(* ------------------------------------------------------------------ anomaly conversions *)
Record libm := mkLibm {
  l_pi : T;                       (* M_PI *)
  l_sin : T -> T; l_cos : T -> T; l_sinh : T -> T; l_cosh : T -> T; l_log : T -> T;
  l_tan : T -> T; l_tanh : T -> T; l_atan : T -> T;
  l_fmod : T -> T -> T; l_copysign : T -> T -> T
}.
Context (L : libm).

Definition mod2pi (f : T) : T :=
  let pi2 := two * l_pi L in
  l_fmod L (pi2 + l_fmod L f pi2) pi2.

Definition eps16 : T := ndec N 1 10000000000000000.      (* 1.e-16 *)

(* for(int i=0;i<100;i++){ E = E - F/(1.-e*cos(E)); F = E - e*sin(E) - M; if(fabs(F)<1.e-16) break; }
   returns the final E and whether the loop was left through the convergence test *)
Fixpoint newton_ell (fuel : nat) (e M E F : T) : T * bool :=
  match fuel with
  | O => (E, false)
  | S k => let E' := E - F / (one - e * l_cos L E) in
           let F' := E' - e * l_sin L E' - M in
           if nabs N F' <? eps16 then (E', true) else newton_ell k e M E' F'
  end.

Fixpoint newton_hyp (fuel : nat) (e M E F : T) : T * bool :=
  match fuel with
  | O => (E, false)
  | S k => let E' := E - F / (one - e * l_cosh L E) in
           let F' := E' - e * l_sinh L E' + M in
           if nabs N F' <? eps16 then (E', true) else newton_hyp k e M E' F'
  end.

(* the mean anomaly the elliptic branch actually solves for *)
Definition M_reduced (M : T) : T := mod2pi M.
Definition ell_start (e M : T) : T := if e <? ndec N 8 10 then M else l_pi L.
Definition hyp_start (e M : T) : T :=
  l_copysign L (l_log L (two * nabs N M / e + ndec N 18 10)) M.

(* (E before the final reb_mod2pi, converged?); the C loops run at most 100 times *)
Definition M_to_E_ell_fuel (fuel : nat) (e M : T) : T * bool :=
  let M := M_reduced M in
  let E := ell_start e M in
  newton_ell fuel e M E (E - e * l_sin L E - M).

Definition M_to_E_hyp_fuel (fuel : nat) (e M : T) : T * bool :=
  let E := hyp_start e M in
  newton_hyp fuel e M E (E - e * l_sinh L E + M).

Definition M_to_E_ell_raw := M_to_E_ell_fuel 100.
Definition M_to_E_hyp_raw := M_to_E_hyp_fuel 100.

Definition M_to_E (e M : T) : T :=
  if e <? one then mod2pi (fst (M_to_E_ell_raw e M)) else fst (M_to_E_hyp_raw e M).

Definition E_to_f (e E : T) : T :=
  if one <? e
  then mod2pi (two * l_atan L (nsqrt N ((one + e) / (e - one)) * l_tanh L (ndec N 1 2 * E)))
  else mod2pi (two * l_atan L (nsqrt N ((one + e) / (one - e)) * l_tan L (ndec N 1 2 * E))).

Definition M_to_f (e M : T) : T := E_to_f e (M_to_E e M).

End Model.

Arguments mkPart {T}.
Arguments mkTrig {T}.
Arguments mkLibm {T}.
Arguments part : clear implicits.
Arguments trig : clear implicits.
Arguments libm : clear implicits.
