(* C11 round 2 — over the reals: reb_orbit_from_particle_err applied to the particle built by
   reb_particle_from_orbit_err returns a, e (and d, |h|) exactly, and inc when cos inc is supplied for ci. *)
From Coq Require Import ZArith Reals Lra Nsatz List.
From RV Require Import Common.Num Common.RealNum C11.Orbit C11.OrbitProofs C11.OrbitInv.
Open Scope R_scope.

Lemma evec_norm_poly : forall Dx Dy Dz Vx Vy Vz mu r a e u w k : R,
  r*u=1 -> a*w=1 -> mu*k=1 ->
  Dx*Dx+Dy*Dy+Dz*Dz = r*r ->
  Vx*Vx+Vy*Vy+Vz*Vz = 2*mu*u - mu*w ->
  (Dy*Vz-Dz*Vy)*(Dy*Vz-Dz*Vy) + (Dz*Vx-Dx*Vz)*(Dz*Vx-Dx*Vz) + (Dx*Vy-Dy*Vx)*(Dx*Vy-Dy*Vx) = mu*a*(1-e*e) ->
  let al := (Vx*Vx+Vy*Vy+Vz*Vz) - mu*u in
  let S := Dx*Vx+Dy*Vy+Dz*Vz in
  (k*(al*Dx - S*Vx))*(k*(al*Dx - S*Vx)) + (k*(al*Dy - S*Vy))*(k*(al*Dy - S*Vy)) + (k*(al*Dz - S*Vz))*(k*(al*Dz - S*Vz)) = e*e.
Proof. intros. subst al S. nsatz. Qed.

Section RT.
Variable L : libm R.
Variable L2 : libm2 R.

Lemma roundtrip_scalars : forall tiny G t0 prim m a e t p o,
  trig_ok t -> 0 < G * (m + pm prim) -> shape_ok a e -> -1 < e * cf t -> tiny <= pm prim ->
  from_orbit_err RNum tiny G prim m a e t = inr p ->
  orbit_from_particle_err RNum L L2 tiny G t0 p prim = inr o ->
  o_a o = a /\ o_e o = e /\ o_d o = a * (1 - e*e) / (1 + e * cf t) /\
  o_h o = sqrt (G * (m + pm prim) * a * (1 - e*e)) /\
  (0 < o_h o -> o_hz o / o_h o = ci t).
Proof.
  intros tiny G t0 prim m a e t p o Ht Hmu Hsh Hcf Htiny Hp Ho.
  destruct (from_orbit_invariants tiny G prim m a e t Ht Hmu Hsh Hcf Htiny) as [p' [Hp' I]].
  rewrite Hp in Hp'. injection Hp' as <-.
  destruct I as [Im Ir Irad Ivv Ih2 Ihz]. cbv zeta in Ih2.
  unfold orbit_from_particle_err in Ho.
  destruct (nleb RNum (pm prim) tiny); [discriminate|].
  cbv zeta in Ho.
  match type of Ho with (if ?c then _ else _) = _ => destruct c; [discriminate|] end.
  match type of Ho with context [match ?X with pair _ _ => _ end] => destruct X as [[[om pom] ff] th] end.
  injection Ho as <-. cbn [o_a o_e o_d o_h o_hz].
  cbn [nadd nsub nmul ndiv nneg nsqrt nabs nofZ none nzero RNum]. rewrite Im.
  set (Dx := px p - px prim) in *. set (Dy := py p - py prim) in *. set (Dz := pz p - pz prim) in *.
  set (Vx := pvx p - pvx prim) in *. set (Vy := pvy p - pvy prim) in *. set (Vz := pvz p - pvz prim) in *.
  set (mu := G * (m + pm prim)) in *.
  set (r := a * (1 - e * e) / (1 + e * cf t)) in *.
  assert (Ha0 : a <> 0) by (destruct Hsh; lra).
  assert (Hr0 : r <> 0) by lra. assert (Hmu0 : mu <> 0) by lra.
  rewrite Irad.
  assert (Er : r = a * (1 - e * e) / (1 + e * cf t)) by reflexivity.
  assert (Emu : mu = G * (m + pm prim)) by reflexivity.
  assert (Hrp : 0 < r) by exact Ir.
  clearbody r mu.
  assert (Hasign : 0 < a \/ a < 0) by (destruct Hsh; lra).
  destruct Hasign as [Hap|Han].
  - (* a > 0 *)
    assert (DD : Dx*Dx+Dy*Dy+Dz*Dz = r*r).
    { rewrite <- Irad. rewrite sqrt_sqrt; [reflexivity|]. nra. }
    assert (VV : Vx*Vx+Vy*Vy+Vz*Vz = 2*mu*/r - mu*/a).
    { apply Rmult_eq_reg_r with (/2); [|lra].
      transitivity ((Vx*Vx+Vy*Vy+Vz*Vz)/2 - mu/r + mu/r); [unfold Rdiv; ring|]. rewrite Ivv. field; repeat split; lra. }
    assert (Ea : - mu / (Vx*Vx+Vy*Vy+Vz*Vz - 2 * (mu / r)) = a).
    { rewrite VV. replace (2*mu*/r - mu*/a - 2*(mu/r)) with (- (mu * / a)) by (unfold Rdiv; ring).
      field; repeat split; lra. }
    split; [exact Ea|]. split.
    + assert (He : 0 <= e) by (destruct Hsh; lra).
      rewrite <- (sqrt_square e He). f_equal.
      replace (r * ((Dx * Vx + Dy * Vy + Dz * Vz) / r)) with (Dx * Vx + Dy * Vy + Dz * Vz) by (field; lra).
      pose proof (evec_norm_poly Dx Dy Dz Vx Vy Vz mu r a e (/r) (/a) (/mu)) as K. cbv zeta in K.
      unfold Rdiv. rewrite Rmult_1_l.
      apply K; try (field; lra); try assumption.
    + split; [reflexivity|]. split.
      * f_equal. exact Ih2.
      * intros Hh. rewrite Ih2 in *. rewrite Ihz. field. lra.
  - (* a < 0 *)
    assert (DD : Dx*Dx+Dy*Dy+Dz*Dz = r*r).
    { rewrite <- Irad. rewrite sqrt_sqrt; [reflexivity|]. nra. }
    assert (VV : Vx*Vx+Vy*Vy+Vz*Vz = 2*mu*/r - mu*/a).
    { apply Rmult_eq_reg_r with (/2); [|lra].
      transitivity ((Vx*Vx+Vy*Vy+Vz*Vz)/2 - mu/r + mu/r); [unfold Rdiv; ring|]. rewrite Ivv. field; repeat split; lra. }
    assert (Ea : - mu / (Vx*Vx+Vy*Vy+Vz*Vz - 2 * (mu / r)) = a).
    { rewrite VV. replace (2*mu*/r - mu*/a - 2*(mu/r)) with (- (mu * / a)) by (unfold Rdiv; ring).
      field; repeat split; lra. }
    split; [exact Ea|]. split.
    + assert (He : 0 <= e) by (destruct Hsh; lra).
      rewrite <- (sqrt_square e He). f_equal.
      replace (r * ((Dx * Vx + Dy * Vy + Dz * Vz) / r)) with (Dx * Vx + Dy * Vy + Dz * Vz) by (field; lra).
      pose proof (evec_norm_poly Dx Dy Dz Vx Vy Vz mu r a e (/r) (/a) (/mu)) as K. cbv zeta in K.
      unfold Rdiv. rewrite Rmult_1_l.
      apply K; try (field; lra); try assumption.
    + split; [reflexivity|]. split.
      * f_equal. exact Ih2.
      * intros Hh. rewrite Ih2 in *. rewrite Ihz. field. lra.
Qed.

(* inclination: with ci = cos inc, 0 < inc < PI and libm's acos = acos *)
Lemma roundtrip_inc : forall tiny G t0 prim m a e t p o inc,
  trig_ok t -> 0 < G * (m + pm prim) -> shape_ok a e -> -1 < e * cf t -> tiny <= pm prim ->
  l_acos L2 = acos -> ci t = cos inc -> 0 < inc < PI ->
  from_orbit_err RNum tiny G prim m a e t = inr p ->
  orbit_from_particle_err RNum L L2 tiny G t0 p prim = inr o ->
  o_inc o = inc.
Proof.
  intros tiny G t0 prim m a e t p o inc Ht Hmu Hsh Hcf Htiny Hac Hci Hinc Hp Ho.
  destruct (roundtrip_scalars _ _ _ _ _ _ _ _ _ _ Ht Hmu Hsh Hcf Htiny Hp Ho) as [_ [_ [_ [Hh Hq]]]].
  assert (Hpos : 0 < o_h o).
  { rewrite Hh. apply sqrt_lt_R0.
    destruct Hsh as [[He Ha]|[He Ha]].
    - apply Rmult_lt_0_compat; [apply Rmult_lt_0_compat; lra | nra].
    - replace (G * (m + pm prim) * a * (1 - e * e)) with (G * (m + pm prim) * ((- a) * (e * e - 1))) by ring.
      apply Rmult_lt_0_compat; [lra | apply Rmult_lt_0_compat; nra]. }
  specialize (Hq Hpos).
  (* o_inc o = acos2 hz h 1 *)
  assert (Hinc_def : o_inc o = acos2 RNum L L2 (o_hz o) (o_h o) 1).
  { unfold orbit_from_particle_err in Ho.
    destruct (nleb RNum (pm prim) tiny); [discriminate|]. cbv zeta in Ho.
    match type of Ho with (if ?c then _ else _) = _ => destruct c; [discriminate|] end.
    match type of Ho with context [match ?X with pair _ _ => _ end] => destruct X as [[[om pom] ff] th] end.
    injection Ho as <-. reflexivity. }
  rewrite Hinc_def. unfold acos2. cbn [ndiv nltb nleb nneg none nzero RNum]. rewrite Hq, Hci, Hac.
  assert (Hs : 0 < sin inc) by (apply sin_gt_0; lra).
  pose proof (sin2_cos2 inc) as SC. unfold Rsqr in SC.
  assert (B : -1 < cos inc < 1) by (split; nra).
  assert (E1 : Rltb (- (1)) (cos inc) = true) by (apply Rltb_true; lra).
  assert (E2 : Rltb (cos inc) 1 = true) by (apply Rltb_true; lra).
  assert (E3 : Rltb 1 0 = false) by (apply Rltb_false; lra).
  rewrite E1, E2, E3. cbn [andb]. apply acos_cos. lra.
Qed.
End RT.
