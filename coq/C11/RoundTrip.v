(* C11 round 2 — over the reals: reb_orbit_from_particle_err applied to the particle built by
   reb_particle_from_orbit_err returns a, e (and d, |h|) exactly, and inc when cos inc is supplied for ci. *)
From Coq Require Import ZArith Reals Lra Nsatz List.
From RV Require Import Common.Num Common.RealNum C11.Orbit C11.OrbitProofs C11.OrbitInv.
Open Scope R_scope.

Lemma evec_norm_poly : forall Dx Dy Dz Vx Vy Vz mu r a e u w k : R,
  r*u=1 -> a*w=1 -> mu*k=1 ->
  Dx*Dx+Dy*Dy+Dz*Dz = r*r ->
  Vx*Vx+Vy*Vy+Vz*Vz = 2*mu*u - mu*w ->
  (Dy*Vz-Dz*Vy)*(Dy*Vz-Dz*Vy) + (Dz*Vx-Dx*Vz)*(Dz*Vx-Dx*Vz) + (Dx*Vy-Dy*Vx)*(Dx*Vy-Dy*Vx) = mu*a*(1-e*e) ->
  let al := (Vx*Vx+Vy*Vy+Vz*Vz) - mu*u in
  let S := Dx*Vx+Dy*Vy+Dz*Vz in
  (k*(al*Dx - S*Vx))*(k*(al*Dx - S*Vx)) + (k*(al*Dy - S*Vy))*(k*(al*Dy - S*Vy)) + (k*(al*Dz - S*Vz))*(k*(al*Dz - S*Vz)) = e*e.
Proof. intros. subst al S. nsatz. Qed.

Section RT.
Variable L : libm R.
Variable L2 : libm2 R.

Lemma roundtrip_scalars : forall tiny G t0 prim m a e t p o,
  trig_ok t -> 0 < G * (m + pm prim) -> shape_ok a e -> -1 < e * cf t -> tiny < pm prim ->
  from_orbit_err RNum tiny G prim m a e t = inr p ->
  orbit_from_particle_err RNum L L2 tiny G t0 p prim = inr o ->
  o_a o = a /\ o_e o = e /\ o_d o = a * (1 - e*e) / (1 + e * cf t) /\
  o_h o = sqrt (G * (m + pm prim) * a * (1 - e*e)) /\
  (0 < o_h o -> o_hz o / o_h o = ci t).
Proof.
  intros tiny G t0 prim m a e t p o Ht Hmu Hsh Hcf Htiny Hp Ho.
  destruct (from_orbit_invariants tiny G prim m a e t Ht Hmu Hsh Hcf Htiny) as [p' [Hp' I]].
  rewrite Hp in Hp'. injection Hp' as <-.
  destruct I as [Im Ir Irad Ivv Ih2 Ihz]. cbv zeta in Ih2.
  unfold orbit_from_particle_err in Ho.
  destruct (nleb RNum (pm prim) tiny); [discriminate|].
  cbv zeta in Ho.
  match type of Ho with (if ?c then _ else _) = _ => destruct c; [discriminate|] end.
  match type of Ho with context [match ?X with pair _ _ => _ end] => destruct X as [[[om pom] ff] th] end.
  injection Ho as <-. cbn [o_a o_e o_d o_h o_hz].
  cbn [nadd nsub nmul ndiv nneg nsqrt nabs nofZ none nzero RNum]. rewrite Im.
  set (Dx := px p - px prim) in *. set (Dy := py p - py prim) in *. set (Dz := pz p - pz prim) in *.
  set (Vx := pvx p - pvx prim) in *. set (Vy := pvy p - pvy prim) in *. set (Vz := pvz p - pvz prim) in *.
  set (mu := G * (m + pm prim)) in *.
  set (r := a * (1 - e * e) / (1 + e * cf t)) in *.
  assert (Ha0 : a <> 0) by (destruct Hsh; lra).
  assert (Hr0 : r <> 0) by lra. assert (Hmu0 : mu <> 0) by lra.
  rewrite Irad.
  assert (Er : r = a * (1 - e * e) / (1 + e * cf t)) by reflexivity.
  assert (Emu : mu = G * (m + pm prim)) by reflexivity.
  assert (Hrp : 0 < r) by exact Ir.
  clearbody r mu.
  assert (Hasign : 0 < a \/ a < 0) by (destruct Hsh; lra).
  destruct Hasign as [Hap|Han].
  - (* a > 0 *)
    assert (DD : Dx*Dx+Dy*Dy+Dz*Dz = r*r).
    { rewrite <- Irad. rewrite sqrt_sqrt; [reflexivity|]. nra. }
    assert (VV : Vx*Vx+Vy*Vy+Vz*Vz = 2*mu*/r - mu*/a).
    { apply Rmult_eq_reg_r with (/2); [|lra].
      transitivity ((Vx*Vx+Vy*Vy+Vz*Vz)/2 - mu/r + mu/r); [unfold Rdiv; ring|]. rewrite Ivv. field; repeat split; lra. }
    assert (Ea : - mu / (Vx*Vx+Vy*Vy+Vz*Vz - 2 * (mu / r)) = a).
    { rewrite VV. replace (2*mu*/r - mu*/a - 2*(mu/r)) with (- (mu * / a)) by (unfold Rdiv; ring).
      field; repeat split; lra. }
    split; [exact Ea|]. split.
    + assert (He : 0 <= e) by (destruct Hsh; lra).
      rewrite <- (sqrt_square e He). f_equal.
      replace (r * ((Dx * Vx + Dy * Vy + Dz * Vz) / r)) with (Dx * Vx + Dy * Vy + Dz * Vz) by (field; lra).
      pose proof (evec_norm_poly Dx Dy Dz Vx Vy Vz mu r a e (/r) (/a) (/mu)) as K. cbv zeta in K.
      unfold Rdiv. rewrite Rmult_1_l.
      apply K; try (field; lra); try assumption.
    + split; [reflexivity|]. split.
      * f_equal. exact Ih2.
      * intros Hh. rewrite Ih2 in *. rewrite Ihz. field. lra.
  - (* a < 0 *)
    assert (DD : Dx*Dx+Dy*Dy+Dz*Dz = r*r).
    { rewrite <- Irad. rewrite sqrt_sqrt; [reflexivity|]. nra. }
    assert (VV : Vx*Vx+Vy*Vy+Vz*Vz = 2*mu*/r - mu*/a).
    { apply Rmult_eq_reg_r with (/2); [|lra].
      transitivity ((Vx*Vx+Vy*Vy+Vz*Vz)/2 - mu/r + mu/r); [unfold Rdiv; ring|]. rewrite Ivv. field; repeat split; lra. }
    assert (Ea : - mu / (Vx*Vx+Vy*Vy+Vz*Vz - 2 * (mu / r)) = a).
    { rewrite VV. replace (2*mu*/r - mu*/a - 2*(mu/r)) with (- (mu * / a)) by (unfold Rdiv; ring).
      field; repeat split; lra. }
    split; [exact Ea|]. split.
    + assert (He : 0 <= e) by (destruct Hsh; lra).
      rewrite <- (sqrt_square e He). f_equal.
      replace (r * ((Dx * Vx + Dy * Vy + Dz * Vz) / r)) with (Dx * Vx + Dy * Vy + Dz * Vz) by (field; lra).
      pose proof (evec_norm_poly Dx Dy Dz Vx Vy Vz mu r a e (/r) (/a) (/mu)) as K. cbv zeta in K.
      unfold Rdiv. rewrite Rmult_1_l.
      apply K; try (field; lra); try assumption.
    + split; [reflexivity|]. split.
      * f_equal. exact Ih2.
      * intros Hh. rewrite Ih2 in *. rewrite Ihz. field. lra.
Qed.

(* inclination: with ci = cos inc, 0 < inc < PI and libm's acos = acos *)
Lemma roundtrip_inc : forall tiny G t0 prim m a e t p o inc,
  trig_ok t -> 0 < G * (m + pm prim) -> shape_ok a e -> -1 < e * cf t -> tiny < pm prim ->
  l_acos L2 = acos -> ci t = cos inc -> 0 < inc < PI ->
  from_orbit_err RNum tiny G prim m a e t = inr p ->
  orbit_from_particle_err RNum L L2 tiny G t0 p prim = inr o ->
  o_inc o = inc.
Proof.
  intros tiny G t0 prim m a e t p o inc Ht Hmu Hsh Hcf Htiny Hac Hci Hinc Hp Ho.
  destruct (roundtrip_scalars _ _ _ _ _ _ _ _ _ _ Ht Hmu Hsh Hcf Htiny Hp Ho) as [_ [_ [_ [Hh Hq]]]].
  assert (Hpos : 0 < o_h o).
  { rewrite Hh. apply sqrt_lt_R0.
    destruct Hsh as [[He Ha]|[He Ha]].
    - apply Rmult_lt_0_compat; [apply Rmult_lt_0_compat; lra | nra].
    - replace (G * (m + pm prim) * a * (1 - e * e)) with (G * (m + pm prim) * ((- a) * (e * e - 1))) by ring.
      apply Rmult_lt_0_compat; [lra | apply Rmult_lt_0_compat; nra]. }
  specialize (Hq Hpos).
  (* o_inc o = acos2 hz h 1 *)
  assert (Hinc_def : o_inc o = acos2 RNum L L2 (o_hz o) (o_h o) 1).
  { unfold orbit_from_particle_err in Ho.
    destruct (nleb RNum (pm prim) tiny); [discriminate|]. cbv zeta in Ho.
    match type of Ho with (if ?c then _ else _) = _ => destruct c; [discriminate|] end.
    match type of Ho with context [match ?X with pair _ _ => _ end] => destruct X as [[[om pom] ff] th] end.
    injection Ho as <-. reflexivity. }
  rewrite Hinc_def. unfold acos2. cbn [ndiv nltb nleb nneg none nzero RNum]. rewrite Hq, Hci, Hac.
  assert (Hs : 0 < sin inc) by (apply sin_gt_0; lra).
  pose proof (sin2_cos2 inc) as SC. unfold Rsqr in SC.
  assert (B : -1 < cos inc < 1) by (split; nra).
  assert (E1 : Rltb (- (1)) (cos inc) = true) by (apply Rltb_true; lra).
  assert (E2 : Rltb (cos inc) 1 = true) by (apply Rltb_true; lra).
  assert (E3 : Rltb 1 0 = false) by (apply Rltb_false; lra).
  rewrite E1, E2, E3. cbn [andb]. apply acos_cos. lra.
Qed.
End RT.

(* ------------------------------------------------------------------ the node: Omega is returned exactly *)
Section Rot2.
Variables e cO sO co so cf sf ci si : R.
Hypothesis HO : cO*cO+sO*sO=1.
Hypothesis Ho : co*co+so*so=1.
Hypothesis Hf : cf*cf+sf*sf=1.
Hypothesis Hi : ci*ci+si*si=1.
Let A := cO * (co * cf - so * sf) - sO * (so * cf + co * sf) * ci.
Let B := sO * (co * cf - so * sf) + cO * (so * cf + co * sf) * ci.
Let C := (so * cf + co * sf) * si.
Let U := ((e + cf) * ((- ci) * co * sO - cO * so) - sf * (co * cO - ci * so * sO)).
Let V := ((e + cf) * (ci * co * cO - sO * so) - sf * (co * sO + ci * so * cO)).
Let W := ((e + cf) * co * si - sf * si * so).
Lemma hx_id : B*W-C*V = si*sO*(1+e*cf).
Proof. subst A B C U V W. nsatz. Qed.
Lemma hy_id : C*U-A*W = - si*cO*(1+e*cf).
Proof. subst A B C U V W. nsatz. Qed.
End Rot2.

Section Node.
Variable L : libm R.
Variable L2 : libm2 R.
Hypothesis Hacos : l_acos L2 = acos.
Hypothesis HPI : l_pi L = PI.

(* acos2 inverts (K cos th, K, S sin th) on (-PI, PI]: the clamping branches give exactly 0 and PI *)
Lemma acos2_recover : forall th K S, 0 < K -> 0 < S -> - PI < th <= PI ->
  acos2 RNum L L2 (K * cos th) K (S * sin th) = th.
Proof.
  intros th K S HK HS Hth. unfold acos2. cbn [ndiv nltb nleb nneg none nzero RNum]. rewrite Hacos, HPI.
  replace (K * cos th / K) with (cos th) by (field; lra).
  pose proof (sin2_cos2 th) as SC. unfold Rsqr in SC.
  destruct (Req_dec th PI) as [E|NE].
  { subst th. rewrite cos_PI.
    assert (E1 : Rltb (- (1)) (-1) = false) by (apply Rltb_false; lra). rewrite E1. cbn [andb].
    assert (E2 : Rleb (-1) (- (1)) = true) by (unfold Rleb; destruct (Rle_dec (-1) (- (1))); [reflexivity | lra]).
    rewrite E2. reflexivity. }
  destruct (Req_dec th 0) as [E0|NE0].
  { subst th. rewrite cos_0.
    assert (E1 : Rltb 1 1 = false) by (apply Rltb_false; lra). rewrite E1, Bool.andb_false_r.
    assert (E2 : Rleb 1 (- (1)) = false) by (unfold Rleb; destruct (Rle_dec 1 (- (1))); [lra | reflexivity]).
    rewrite E2. reflexivity. }
  destruct (Rlt_or_le 0 th) as [Hp|Hn].
  - assert (Hs : 0 < sin th) by (apply sin_gt_0; lra).
    assert (B : -1 < cos th < 1) by (split; nra).
    assert (E1 : Rltb (- (1)) (cos th) = true) by (apply Rltb_true; lra).
    assert (E2 : Rltb (cos th) 1 = true) by (apply Rltb_true; lra).
    assert (E3 : Rltb (S * sin th) 0 = false) by (apply Rltb_false; nra).
    rewrite E1, E2, E3. cbn [andb]. apply acos_cos. lra.
  - assert (Hs : 0 < sin (- th)) by (apply sin_gt_0; lra).
    rewrite sin_neg in Hs.
    assert (B : -1 < cos th < 1) by (split; nra).
    assert (E1 : Rltb (- (1)) (cos th) = true) by (apply Rltb_true; lra).
    assert (E2 : Rltb (cos th) 1 = true) by (apply Rltb_true; lra).
    assert (E3 : Rltb (S * sin th) 0 = true) by (apply Rltb_true; nra).
    rewrite E1, E2, E3. cbn [andb]. rewrite <- (cos_neg th). rewrite acos_cos by lra. ring.
Qed.

Lemma roundtrip_Omega : forall tiny G t0 prim m a e t p o inc Om,
  trig_ok t -> 0 < G * (m + pm prim) -> shape_ok a e -> -1 < e * cf t -> tiny < pm prim ->
  si t = sin inc -> 0 < inc < PI -> cO t = cos Om -> sO t = sin Om -> - PI < Om <= PI ->
  from_orbit_err RNum tiny G prim m a e t = inr p ->
  orbit_from_particle_err RNum L L2 tiny G t0 p prim = inr o ->
  o_Omega o = Om.
Proof.
  intros tiny G t0 prim m a e t p o inc Om Ht Hmu Hsh Hcf Htiny Hsi Hinc HcO HsO HOm Hp Ho.
  (* the components of the constructed particle *)
  pose proof Ht as [HO [Ho' [Hf Hi]]].
  assert (Hq : exists r v0, 0 < r /\ 0 < v0 /\
     px p - px prim = r * (cO t * (co t * cf t - so t * sf t) - sO t * (so t * cf t + co t * sf t) * ci t) /\
     py p - py prim = r * (sO t * (co t * cf t - so t * sf t) + cO t * (so t * cf t + co t * sf t) * ci t) /\
     pz p - pz prim = r * ((so t * cf t + co t * sf t) * si t) /\
     pvx p - pvx prim = v0 * ((e + cf t) * (- ci t * co t * sO t - cO t * so t) - sf t * (co t * cO t - ci t * so t * sO t)) /\
     pvy p - pvy prim = v0 * ((e + cf t) * (ci t * co t * cO t - sO t * so t) - sf t * (co t * sO t + ci t * so t * cO t)) /\
     pvz p - pvz prim = v0 * ((e + cf t) * co t * si t - sf t * si t * so t)).
  { unfold from_orbit_err in Hp. cbn [neqb nltb nleb none nzero nneg nmul nadd nsub ndiv nsqrt RNum] in Hp.
    assert (E0 : Reqb a 0 = false) by (apply Reqb_false; destruct Hsh; lra).
    assert (E1 : Reqb e 1 = false) by (apply Reqb_false; destruct Hsh; lra).
    assert (E2 : Rltb e 0 = false) by (apply Rltb_false; destruct Hsh; lra).
    assert (E3 : (if Rltb 1 e then Rltb 0 a else Rltb a 0) = false).
    { destruct (Rltb 1 e) eqn:K; [apply Rltb_true in K|apply Rltb_false in K]; apply Rltb_false; destruct Hsh; lra. }
    assert (E5 : Rltb (e * cf t) (Ropp 1) = false) by (apply Rltb_false; lra).
    assert (E6 : Rleb (pm prim) tiny = false) by (apply Rleb_false; lra).
    rewrite E0, E1, E2, E3, E5, E6 in Hp. injection Hp as Hp. subst p. cbn [pm px py pz pvx pvy pvz].
    assert (Haq : 0 < a * (1 - e*e)).
    { destruct Hsh as [[He Ha]|[He Ha]].
      - apply Rmult_lt_0_compat; nra.
      - replace (a * (1 - e*e)) with ((-a) * (e*e - 1)) by ring. apply Rmult_lt_0_compat; nra. }
    assert (Ha0 : a <> 0) by (destruct Hsh; lra).
    assert (Hq0 : 1 - e*e <> 0) by (intro K; rewrite K in Haq; lra).
    exists (a * (1 - e * e) / (1 + e * cf t)), (sqrt (G * (m + pm prim) / a / (1 - e * e))).
    split; [apply Rdiv_lt_0_compat; lra|]. split.
    { apply sqrt_lt_R0. replace (G * (m + pm prim) / a / (1 - e * e)) with (G * (m + pm prim) / (a * (1 - e*e))) by (field; split; assumption).
      apply Rdiv_lt_0_compat; assumption. }
    repeat split; ring. }
  destruct Hq as [r [v0 [Hr [Hv0 [Ex [Ey [Ez [Evx [Evy Evz]]]]]]]]].
  assert (HOdef : o_Omega o =
     acos2 RNum L L2 (- ((pz p - pz prim) * (pvx p - pvx prim) - (px p - px prim) * (pvz p - pvz prim)))
       (sqrt ((- ((pz p - pz prim) * (pvx p - pvx prim) - (px p - px prim) * (pvz p - pvz prim))) *
              (- ((pz p - pz prim) * (pvx p - pvx prim) - (px p - px prim) * (pvz p - pvz prim))) +
              ((py p - py prim) * (pvz p - pvz prim) - (pz p - pz prim) * (pvy p - pvy prim)) *
              ((py p - py prim) * (pvz p - pvz prim) - (pz p - pz prim) * (pvy p - pvy prim))))
       ((py p - py prim) * (pvz p - pvz prim) - (pz p - pz prim) * (pvy p - pvy prim))).
  { unfold orbit_from_particle_err in Ho.
    destruct (nleb RNum (pm prim) tiny); [discriminate|]. cbv zeta in Ho.
    match type of Ho with (if ?c then _ else _) = _ => destruct c; [discriminate|] end.
    match type of Ho with context [match ?X with pair _ _ => _ end] => destruct X as [[[om pom] ff] th] end.
    injection Ho as <-. reflexivity. }
  rewrite HOdef, Ex, Ey, Ez, Evx, Evy, Evz.
  pose proof (hx_id e _ _ _ _ _ _ _ _ HO Ho' Hf Hi) as HX. pose proof (hy_id e _ _ _ _ _ _ _ _ HO Ho' Hf Hi) as HY.
  cbv zeta in HX, HY.
  set (A := cO t * (co t * cf t - so t * sf t) - sO t * (so t * cf t + co t * sf t) * ci t) in *.
  set (B := sO t * (co t * cf t - so t * sf t) + cO t * (so t * cf t + co t * sf t) * ci t) in *.
  set (C := (so t * cf t + co t * sf t) * si t) in *.
  set (U := (e + cf t) * (- ci t * co t * sO t - cO t * so t) - sf t * (co t * cO t - ci t * so t * sO t)) in *.
  set (V := (e + cf t) * (ci t * co t * cO t - sO t * so t) - sf t * (co t * sO t + ci t * so t * cO t)) in *.
  set (W := (e + cf t) * co t * si t - sf t * si t * so t) in *.
  assert (Hs : 0 < si t) by (rewrite Hsi; apply sin_gt_0; lra).
  set (K := r * v0 * (1 + e * cf t) * si t).
  assert (HK : 0 < K) by (unfold K; repeat apply Rmult_lt_0_compat; lra).
  replace (- (r * C * (v0 * U) - r * A * (v0 * W))) with (K * cos Om)
    by (unfold K; rewrite <- HcO; replace (r * C * (v0 * U) - r * A * (v0 * W)) with (r * v0 * (C*U - A*W)) by ring; rewrite HY; ring).
  replace (r * B * (v0 * W) - r * C * (v0 * V)) with (K * sin Om)
    by (unfold K; rewrite <- HsO; replace (r * B * (v0 * W) - r * C * (v0 * V)) with (r * v0 * (B*W - C*V)) by ring; rewrite HX; ring).
  replace (sqrt (K * cos Om * (K * cos Om) + K * sin Om * (K * sin Om))) with K.
  2:{ replace (K * cos Om * (K * cos Om) + K * sin Om * (K * sin Om)) with (K * K * ((sin Om)² + (cos Om)²)) by (unfold Rsqr; ring).
      rewrite sin2_cos2, Rmult_1_r. symmetry. apply sqrt_square. lra. }
  apply acos2_recover; lra.
Qed.
End Node.
