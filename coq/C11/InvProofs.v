(* C11 round 2 — theorems over the reals about reb_mod2pi, the ranges of the elements returned by
   reb_orbit_from_particle_err, and the Newton step of reb_tools_solve_kepler_pal. *)
From Coq Require Import ZArith Reals Lra Lia List.
From Flocq Require Import Core.Raux.
From Coquelicot Require Import Coquelicot.
From RV Require Import Common.Num Common.RealNum C11.Orbit C11.OrbitProofs C11.OrbitInv.
Open Scope R_scope.

(* ------------------------------------------------------------------ fmod and reb_mod2pi *)
(* what C99 says about fmod(x,y) for y > 0: x - k*y for an integer k, same sign as x, magnitude < y *)
Definition fmod_spec (fm : R -> R -> R) : Prop :=
  forall x y, 0 < y ->
    (exists k : Z, fm x y = x - IZR k * y) /\ Rabs (fm x y) < y /\ (0 <= x -> 0 <= fm x y) /\ (x <= 0 -> fm x y <= 0).

(* an actual function with that specification (truncated division), so that the hypothesis is inhabited *)
Definition fmodR (x y : R) : R := x - IZR (Ztrunc (x / y)) * y.

Lemma fmodR_spec : fmod_spec fmodR.
Proof.
  intros x y Hy. unfold fmodR.
  split; [eexists; reflexivity|].
  assert (E : x / y * y = x) by (field; lra).
  destruct (Req_dec x 0) as [Hz|Hz].
  { subst x. unfold Rdiv. rewrite Rmult_0_l. change 0 with (IZR 0) at 1 3 5. rewrite Ztrunc_IZR.
    cbn [IZR]. replace (0 - 0 * y) with 0 by ring. rewrite Rabs_R0. repeat split; intros; lra. }
  destruct (Rle_or_lt 0 x) as [Hx|Hx].
  - assert (Hq : 0 <= x / y) by (apply Rmult_le_pos; [lra | apply Rlt_le, Rinv_0_lt_compat; lra]).
    rewrite (Ztrunc_floor _ Hq).
    pose proof (Zfloor_lb (x / y)) as Hl. pose proof (Zfloor_ub (x / y)) as Hu.
    pose proof (Rmult_le_compat_r y _ _ (Rlt_le _ _ Hy) Hl) as A. rewrite E in A.
    pose proof (Rmult_lt_compat_r y _ _ Hy Hu) as B. rewrite E in B.
    replace ((IZR (Zfloor (x / y)) + 1) * y) with (IZR (Zfloor (x / y)) * y + y) in B by ring.
    repeat split; intros; try (apply Rabs_def1); lra.
  - assert (Hq : x / y <= 0).
    { unfold Rdiv. replace 0 with (0 * / y) by ring. apply Rmult_le_compat_r; [apply Rlt_le, Rinv_0_lt_compat|]; lra. }
    rewrite (Ztrunc_ceil _ Hq).
    pose proof (Zceil_ub (x / y)) as Hu. pose proof (Zceil_lb (x / y)) as Hl.
    pose proof (Rmult_le_compat_r y _ _ (Rlt_le _ _ Hy) Hu) as A. rewrite E in A.
    assert (Hl' : IZR (Zceil (x / y)) - 1 < x / y) by lra.
    pose proof (Rmult_lt_compat_r y _ _ Hy Hl') as B. rewrite E in B.
    replace ((IZR (Zceil (x / y)) - 1) * y) with (IZR (Zceil (x / y)) * y - y) in B by ring.
    repeat split; intros; try (apply Rabs_def1); lra.
Qed.

Section Mod2pi.
Variable L : libm R.
Hypothesis Hpi : 0 < l_pi L.
Hypothesis Hfm : fmod_spec (l_fmod L).

Lemma mod2pi_range : forall x,
  0 <= mod2pi RNum L x < 2 * l_pi L /\ exists k : Z, mod2pi RNum L x = x - IZR k * (2 * l_pi L).
Proof.
  intro x. unfold mod2pi. cbn [nmul nadd nofZ RNum].
  set (p2 := 2 * l_pi L). assert (Hp2 : 0 < p2) by (unfold p2; lra).
  destruct (Hfm x p2 Hp2) as [[k1 E1] [A1 _]].
  destruct (Hfm (p2 + l_fmod L x p2) p2 Hp2) as [[k2 E2] [A2 [P2 _]]].
  apply Rabs_def2 in A1. apply Rabs_def2 in A2.
  split.
  - split; [apply P2|]; lra.
  - exists (k1 + k2 - 1)%Z. rewrite E2, E1. rewrite minus_IZR, plus_IZR. ring.
Qed.
End Mod2pi.

(* ------------------------------------------------------------------ ranges of the returned elements *)
Section Ranges.
Variable L : libm R.
Variable L2 : libm2 R.
Hypothesis Hpi : 0 < l_pi L.
Hypothesis Hfm : fmod_spec (l_fmod L).
Hypothesis Hacos : forall x, 0 <= l_acos L2 x <= l_pi L.

Lemma acos2_range : forall num den dis,
  - l_pi L <= acos2 RNum L L2 num den dis <= l_pi L /\ (0 <= dis -> 0 <= acos2 RNum L L2 num den dis).
Proof.
  intros. unfold acos2. cbn [nltb nleb nneg ndiv none nzero RNum].
  pose proof (Hacos (num / den)) as H.
  destruct (Rltb (- (1)) (num / den) && Rltb (num / den) 1)%bool.
  - destruct (Rltb dis 0) eqn:K.
    + apply Rltb_true in K. split; [lra | intros; lra].
    + split; [lra | intros; lra].
  - destruct (Rleb (num / den) (- (1))); split; intros; lra.
Qed.

Lemma orbit_ranges : forall tiny G t0 p prim o,
  orbit_from_particle_err RNum L L2 tiny G t0 p prim = inr o ->
  0 <= o_e o /\ 0 <= o_d o /\ 0 <= o_v o /\ 0 <= o_h o /\
  0 <= o_inc o <= l_pi L /\
  - l_pi L <= o_Omega o <= l_pi L /\
  0 <= o_omega o < 2 * l_pi L /\ 0 <= o_f o < 2 * l_pi L /\ 0 <= o_M o < 2 * l_pi L /\
  0 <= o_l o < 2 * l_pi L /\ 0 <= o_theta o < 2 * l_pi L.
Proof.
  intros tiny G t0 p prim o H. unfold orbit_from_particle_err in H.
  destruct (nleb RNum (pm prim) tiny); [discriminate|].
  cbv zeta in H.
  match type of H with (if ?c then _ else _) = _ => destruct c; [discriminate|] end.
  match type of H with context [match ?X with pair _ _ => _ end] => destruct X as [[[om pom] ff] th] end.
  injection H as <-. cbn [o_e o_d o_v o_h o_inc o_Omega o_omega o_f o_M o_l o_theta].
  cbn [nsqrt RNum].
  repeat split; try apply sqrt_pos; try apply (mod2pi_range L Hpi Hfm);
    try apply acos2_range; try lra.
Qed.
(* T and M of a returned orbit:  (t0 - T) |n| = M  modulo 2pi  (t0 = the particle's simulation time) *)
Lemma orbit_T_relation : forall tiny G t0 p prim o,
  orbit_from_particle_err RNum L L2 tiny G t0 p prim = inr o -> o_n o <> 0 ->
  exists k : Z, (t0 - o_T o) * Rabs (o_n o) = o_M o + IZR k * (2 * l_pi L).
Proof.
  intros tiny G t0 p prim o H Hn. unfold orbit_from_particle_err in H.
  destruct (nleb RNum (pm prim) tiny); [discriminate|].
  cbv zeta in H.
  match type of H with (if ?c then _ else _) = _ => destruct c; [discriminate|] end.
  match type of H with context [match ?X with pair _ _ => _ end] => destruct X as [[[om pom] ff] th] end.
  injection H as <-. cbn [o_T o_M o_n] in *. cbn [nsub ndiv nabs RNum] in *.
  match goal with |- context [mod2pi RNum L ?X] =>
    destruct (mod2pi_range L Hpi Hfm X) as [_ [k Hk]]; exists k; rewrite Hk; set (MM := X) in * end.
  match goal with |- context [Rabs ?n] => set (NN := Rabs n) in *; assert (NN <> 0) by (apply Rabs_no_R0; exact Hn) end.
  field. assumption.
Qed.

Lemma orbit_sim_clock : forall tiny G t primsim p prim,
  orbit_from_particle_sim RNum L L2 tiny G (Some t) primsim p prim = orbit_from_particle_err RNum L L2 tiny G t p prim /\
  orbit_from_particle_sim RNum L L2 tiny G None primsim p prim = orbit_from_particle_err RNum L L2 tiny G 0 p prim.
Proof. intros. split; reflexivity. Qed.

End Ranges.

(* T -> M -> T: a particle created with pericentre time T at simulation time t gets M = n (t - T) (Flow.v, AnT);
   if the orbit read back at the same t has the same |n| and that mean anomaly up to whole turns, the T read back
   is T up to whole periods *)
Lemma T_roundtrip_mod_period : forall t Tp n (k : Z), 0 < n ->
  t - (n * (t - Tp) + IZR k * (2 * PI)) / Rabs n = Tp - IZR k * (2 * PI / n).
Proof. intros. rewrite (Rabs_pos_eq n) by lra. field. lra. Qed.


(* the Coq Reals functions meet the hypotheses *)
Lemma real_libm_sane : 0 < PI /\ fmod_spec fmodR /\ (forall x, 0 <= acos x <= PI).
Proof. split; [apply PI_RGT_0 | split; [apply fmodR_spec | apply acos_bound]]. Qed.

(* ------------------------------------------------------------------ the Newton step of reb_tools_solve_kepler_pal *)
(* Pal's form of Kepler's equation:  f0(q,p) = q cos p + p sin p - (k cos l + h sin l)
                                     f1(q,p) = -q sin p + p cos p - (k sin l - h cos l).
   Its Jacobian with respect to (q, p): *)
Definition pal_f0 (h k lam q p : R) := q * cos p + p * sin p - (k * cos lam + h * sin lam).
Definition pal_f1 (h k lam q p : R) := - q * sin p + p * cos p - (k * sin lam - h * cos lam).
Definition J00 (q p : R) := cos p.                                  (* d f0 / d q *)
Definition J01 (q p : R) := - q * sin p + sin p + p * cos p.        (* d f0 / d p *)
Definition J10 (q p : R) := - sin p.                                (* d f1 / d q *)
Definition J11 (q p : R) := - q * cos p + cos p - p * sin p.        (* d f1 / d p *)

Lemma pal_jacobian_is_derivative : forall h k lam q p,
  is_derive (fun q => pal_f0 h k lam q p) q (J00 q p) /\
  is_derive (fun p => pal_f0 h k lam q p) p (J01 q p) /\
  is_derive (fun q => pal_f1 h k lam q p) q (J10 q p) /\
  is_derive (fun p => pal_f1 h k lam q p) p (J11 q p).
Proof.
  intros. unfold pal_f0, pal_f1, J00, J01, J10, J11.
  split; [|split; [|split]]; auto_derive; try exact I; ring.
Qed.

Section PalNewton.
Variable L : libm R.
Hypothesis Hsin : l_sin L = sin.
Hypothesis Hcos : l_cos L = cos.

(* one pass of the loop body is the exact Newton step:  J (q,p) . (dq, dp) = - (f0, f1)  whenever q <> 1.
   (The defect fixed by /repo commit c089d6c applied the transposed inverse; this statement is false for it.) *)
Lemma pal_step_is_newton : forall h k lam p q p' q' f,
  q <> 1 -> pal_step RNum L h k lam p q = (p', q', f) ->
  J00 q p * (q' - q) + J01 q p * (p' - p) = - pal_f0 h k lam q p /\
  J10 q p * (q' - q) + J11 q p * (p' - p) = - pal_f1 h k lam q p /\
  f = sqrt (pal_f0 h k lam q p * pal_f0 h k lam q p + pal_f1 h k lam q p * pal_f1 h k lam q p).
Proof.
  intros h k lam p q p' q' f Hq H. unfold pal_step in H. rewrite Hsin, Hcos in H.
  cbn [nadd nsub nmul ndiv nneg none nsqrt RNum] in H. injection H as <- <- <-.
  unfold J00, J01, J10, J11, pal_f0, pal_f1.
  pose proof (sin2_cos2 p) as SC. unfold Rsqr in SC.
  assert (Hq1 : q - 1 <> 0) by lra.
  set (s := sin p) in *. set (c := cos p) in *.
  split; [|split; [|reflexivity]].
  - transitivity (- ((s * s + c * c) * (q * c + p * s - (k * cos lam + h * sin lam)))); [field; exact Hq1|].
    rewrite SC. ring.
  - transitivity (- ((s * s + c * c) * (- q * s + p * c - (k * sin lam - h * cos lam)))); [field; exact Hq1|].
    rewrite SC. ring.
Qed.
End PalNewton.
