(* C11 — executable models (Num-polymorphic) of reb_orbit_from_particle_err (with acos2), reb_tools_solve_kepler_pal,
   reb_particle_from_pal and reb_tools_particle_to_pal of src/tools.c.  libm functions are arguments (record libm of
   Orbit.v + record libm2 below).  Same operation order as the C source. *)
From Coq Require Import ZArith List.
From RV Require Import Common.Num C11.Orbit.
Import ListNotations.

Record libm2 (T : Type) := mkLibm2 {
  l_acos : T -> T; l_acosh : T -> T; l_cbrt : T -> T; l_atan2 : T -> T -> T
}.
Arguments mkLibm2 {T}.
Arguments l_acos {T}. Arguments l_acosh {T}. Arguments l_cbrt {T}. Arguments l_atan2 {T}.

Section Model.
Context {T : Type} (N : Num T) (L : libm T) (L2 : libm2 T).

Local Notation "x + y" := (nadd N x y).
Local Notation "x - y" := (nsub N x y).
Local Notation "x * y" := (nmul N x y).
Local Notation "x / y" := (ndiv N x y).
Local Notation "- x" := (nneg N x).
Local Notation "x <? y" := (nltb N x y).
Local Notation "x <=? y" := (nleb N x y).
Local Notation "'zero'" := (nzero N).
Local Notation "'one'" := (none N).
Local Notation "'two'" := (nofZ N 2).
Local Notation "'three'" := (nofZ N 3).
Local Notation "'half'" := (ndec N 1 2).
Local Notation "'sqrt' x" := (nsqrt N x) (at level 10).
Local Notation "'pi'" := (l_pi L).

(* static double acos2(double num, double denom, double disambiguator) *)
Definition acos2 (num denom dis : T) : T :=
  let cosine := num / denom in
  if andb ((- one) <? cosine) (cosine <? one)
  then (let val := l_acos L2 cosine in if dis <? zero then - val else val)
  else (if cosine <=? (- one) then pi else zero).

Definition MIN_INC : T := ndec N 1 100000000.
Definition MIN_ECC : T := ndec N 1 100000000.

Record orbit := mkOrbit {
  o_d : T; o_v : T; o_h : T; o_P : T; o_n : T; o_a : T; o_e : T; o_inc : T; o_Omega : T; o_omega : T; o_pomega : T;
  o_f : T; o_M : T; o_l : T; o_theta : T; o_T : T; o_rhill : T; o_pal_h : T; o_pal_k : T; o_pal_ix : T; o_pal_iy : T;
  o_hx : T; o_hy : T; o_hz : T; o_ex : T; o_ey : T; o_ez : T
}.

(* the mean longitude: four textually identical copies in the C source, parametrised by the sign *)
Definition mean_long (retro : bool) (e pomega M theta f : T) : T :=
  if MIN_ECC <? e
  then (if retro then pomega - M else pomega + M)
  else (if retro then theta + two * e * l_sin L f else theta - two * e * l_sin L f).

(* (omega, pomega, f, theta) before normalisation.
   near-planar branch (inc < MIN_INC or inc > pi - MIN_INC): theta and pomega come from the position / eccentricity
   vector, omega := pomega - Omega (retrograde: Omega - pomega), f := theta - pomega (retrograde: pomega - theta) *)
Definition planar_angles (retro : bool) (Omega dx dy d ex ey e : T) : T * T * T * T :=
  let theta := acos2 dx d dy in
  let pomega := acos2 ex e ey in
  if retro then (Omega - pomega, pomega, pomega - theta, theta)
  else (pomega - Omega, pomega, theta - pomega, theta).

(* generic branch: omega and omega+f are measured from the node in the orbital plane; pomega := Omega + omega,
   theta := Omega + (omega+f) (retrograde: Omega - omega, Omega - (omega+f)); f := (omega+f) - omega in both *)
Definition generic_angles (retro : bool) (Omega nx ny nn dx dy dz d ex ey ez e : T) : T * T * T * T :=
  let wpf := acos2 (nx*dx + ny*dy) (nn*d) dz in
  let omega := acos2 (nx*ex + ny*ey) (nn*e) ez in
  if retro then (omega, Omega - omega, wpf - omega, Omega - wpf)
  else (omega, Omega + omega, wpf - omega, Omega + wpf).

(* mean anomaly before normalisation: Kepler's equation from the eccentric anomaly (elliptic: acos2 with the sign of the
   radial velocity; hyperbolic: acosh with that sign) *)
Definition mean_anomaly_raw (d a e vr : T) : T :=
  if e <? one
  then (let ea := acos2 (one - d / a) e vr in ea - e * l_sin L ea)
  else (let ea := l_acosh L2 ((one - d / a) / e) in
        let ea := if vr <? zero then - ea else ea in
        e * l_sinh L ea - ea).

(* inl c: *err = c and reb_orbit_nan() returned.  t0 = p.sim->t (0 if the particle is in no simulation). *)
Definition orbit_from_particle_err (tiny G t0 : T) (p prim : part T) : Z + orbit :=
  if pm prim <=? tiny then inl 1%Z else
  let mu := G * (pm p + pm prim) in
  let dx := px p - px prim in let dy := py p - py prim in let dz := pz p - pz prim in
  let dvx := pvx p - pvx prim in let dvy := pvy p - pvy prim in let dvz := pvz p - pvz prim in
  let d := sqrt (dx*dx + dy*dy + dz*dz) in
  let vsquared := dvx*dvx + dvy*dvy + dvz*dvz in
  let v := sqrt vsquared in
  let vcircsquared := mu / d in
  let a := (- mu) / (vsquared - two * vcircsquared) in
  let rhill := a * l_cbrt L2 (pm p / (three * pm prim)) in
  let hx := dy*dvz - dz*dvy in let hy := dz*dvx - dx*dvz in let hz := dx*dvy - dy*dvx in
  let h := sqrt (hx*hx + hy*hy + hz*hz) in
  let vdiffsquared := vsquared - vcircsquared in
  if d <=? tiny then inl 2%Z else
  let vr := (dx*dvx + dy*dvy + dz*dvz) / d in
  let rvr := d * vr in
  let muinv := one / mu in
  let ex := muinv * (vdiffsquared*dx - rvr*dvx) in
  let ey := muinv * (vdiffsquared*dy - rvr*dvy) in
  let ez := muinv * (vdiffsquared*dz - rvr*dvz) in
  let e := sqrt (ex*ex + ey*ey + ez*ez) in
  let n := a / nabs N a * sqrt (nabs N (mu / (a*a*a))) in
  let P := two * pi / n in
  let inc := acos2 hz h one in
  let nx := - hy in let ny := hx in
  let nn := sqrt (nx*nx + ny*ny) in
  let Omega := acos2 nx nn ny in
  let M := mean_anomaly_raw d a e vr in
  let retro := negb (inc <? pi / two) in
  let '(omega, pomega, f, theta) :=
    if orb (inc <? MIN_INC) ((pi - MIN_INC) <? inc)
    then planar_angles retro Omega dx dy d ex ey e
    else generic_angles retro Omega nx ny nn dx dy dz d ex ey ez e in
  let l := mean_long retro e pomega M theta f in
  let Tp := t0 - M / nabs N n in
  let fac := sqrt (two / (one + hz / h)) / h in
  inr (mkOrbit d v h P n a e inc Omega (mod2pi N L omega) pomega (mod2pi N L f) (mod2pi N L M) (mod2pi N L l)
         (mod2pi N L theta) Tp rhill
         (h / mu * ((- dvx) + dvz / (h + hz) * hx) - one / d * (dy - dz / (h + hz) * hy))
         (h / mu * (dvy - dvz / (h + hz) * hy) - one / d * (dx - dz / (h + hz) * hx))
         ((- fac) * hy) (fac * hx) hx hy hz ex ey ez).

(* the clock: `double t0 = 0.0; if (p.sim != NULL){ t0 = p.sim->t; }` -- the PARTICLE's simulation pointer decides;
   the primary's pointer (NULL for the centre-of-mass primaries built by reb_simulation_com / _jacobi_com) is not read.
   psim / primsim: Some t = member of a simulation whose time is t, None = sim pointer NULL. *)
Definition orbit_from_particle_sim (tiny G : T) (psim primsim : option T) (p prim : part T) : Z + orbit :=
  orbit_from_particle_err tiny G (match psim with Some t => t | None => zero end) p prim.

(* ------------------------------------------------------------------ Pal (2009) coordinates *)
(* one pass of the do{...}while body: returns (pn', qn', f) *)
Definition pal_step (h k lambda pn qn : T) : T * T * T :=
  let c := l_cos L pn in let s := l_sin L pn in
  let f0 := qn * c + pn * s - (k * l_cos L lambda + h * l_sin L lambda) in
  let f1 := (- qn) * s + pn * c - (k * l_sin L lambda - h * l_cos L lambda) in
  let fac := one / (qn - one) in
  let fd00 := fac * (qn * c - c + pn * s) in
  let fd01 := fac * (pn * c - qn * s + s) in
  let fd10 := fac * (- s) in
  let fd11 := fac * (- c) in
  (pn - (fd10 * f0 + fd11 * f1), qn - (fd00 * f0 + fd01 * f1), sqrt (f0*f0 + f1*f1)).

(* do{ body }while(n++<50 && f>1e-15): called with fuel 50 the body runs at most 51 times *)
Fixpoint pal_loop (fuel : nat) (h k lambda pn qn : T) : T * T :=
  let '(pn', qn', f) := pal_step h k lambda pn qn in
  match fuel with
  | O => (pn', qn')
  | S m => if ndec N 1 1000000000000000 <? f then pal_loop m h k lambda pn' qn' else (pn', qn')
  end.

Definition solve_kepler_pal (h k lambda : T) : T * T :=      (* (p, q) *)
  let e2 := h*h + k*k in
  if e2 <? ndec N 3 10 * ndec N 3 10
  then pal_loop 50 h k lambda zero zero
  else (let pomega := l_atan2 L2 h k in
        let M := lambda - pomega in
        let e := sqrt e2 in
        let E := M_to_E N L e M in
        (e * l_sin L E, e * l_cos L E)).

Definition from_pal_pq (G : T) (prim : part T) (m a lambda k h ix iy p q : T) : part T :=
  let slp := l_sin L (lambda + p) in
  let clp := l_cos L (lambda + p) in
  let l := one - sqrt (one - h*h - k*k) in
  let xi := a * (clp + p / (two - l) * h - k) in
  let eta := a * (slp - p / (two - l) * k - h) in
  let iz := sqrt (nabs N (nofZ N 4 - ix*ix - iy*iy)) in
  let W := eta * ix - xi * iy in
  let an := sqrt (G * (m + pm prim) / a) in
  let dxi := an / (one - q) * ((- slp) + q / (two - l) * h) in
  let deta := an / (one - q) * (clp - q / (two - l) * k) in
  let dW := deta * ix - dxi * iy in
  mkPart m (px prim + xi + half * iy * W) (py prim + eta - half * ix * W) (pz prim + half * iz * W)
           (pvx prim + dxi + half * iy * dW) (pvy prim + deta - half * ix * dW) (pvz prim + half * iz * dW).

Definition from_pal (G : T) (prim : part T) (m a lambda k h ix iy : T) : part T :=
  let '(p, q) := solve_kepler_pal h k lambda in
  from_pal_pq G prim m a lambda k h ix iy p q.

(* (a, lambda, k, h, ix, iy) *)
Definition particle_to_pal (G : T) (p prim : part T) : list T :=
  let x := px p - px prim in let y := py p - py prim in let z := pz p - pz prim in
  let vx := pvx p - pvx prim in let vy := pvy p - pvy prim in let vz := pvz p - pvz prim in
  let mu := G * (pm p + pm prim) in
  let r2 := x*x + y*y + z*z in
  let r := sqrt r2 in
  let cx := y*vz - z*vy in let cy := z*vx - x*vz in let cz := x*vy - y*vx in
  let c2 := cx*cx + cy*cy + cz*cz in
  let c := sqrt c2 in
  let chat := x*vx + y*vy + z*vz in
  let fac := sqrt (two / (one + cz / c)) / c in
  let ix := (- fac) * cy in
  let iy := fac * cx in
  let k := c / mu * (vy - vz / (c + cz) * cy) - one / r * (x - z / (c + cz) * cx) in
  let h := c / mu * ((- vx) + vz / (c + cz) * cx) - one / r * (y - z / (c + cz) * cy) in
  let e2 := k*k + h*h in
  let a := c2 / (mu * (one - e2)) in
  let l := one - sqrt (one - e2) in
  let lambda := l_atan2 L2 ((- r) * vx + r * vz * cx / (c + cz) - k * chat / (two - l))
                           (r * vy - r * vz * cy / (c + cz) + h * chat / (two - l)) - chat / c * (one - l) in
  [a; lambda; k; h; ix; iy].

End Model.
Arguments mkOrbit {T}.
Arguments orbit : clear implicits.
