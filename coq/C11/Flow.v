(* C11 round 2 — the numeric value flow inside the two front ends, AFTER the presence decision of Parser.v:
   how a, omega and f (the arguments of reb_particle_from_orbit_err) are computed from what was passed.
   c_* transcribes reb_particle_from_fmt_errV (src/tools.c), py_* transcribes Particle.__init__ (rebound/particle.py).
   libm: cos (only its sign is used), cbrt, sqrt; Python's ** operator is the oracle `pow`. *)
From Coq Require Import ZArith List.
From RV Require Import Common.Num C11.Parser C11.Orbit.
Import ListNotations.

Section Flow.
Context {T : Type} (N : Num T) (L : libm T).
Variable cbrt : T -> T.
Variable pow : T -> T -> T.          (* Python float ** float *)

Local Notation "x + y" := (nadd N x y).
Local Notation "x - y" := (nsub N x y).
Local Notation "x * y" := (nmul N x y).
Local Notation "x / y" := (ndiv N x y).
Local Notation "x <? y" := (nltb N x y).
Local Notation "'zero'" := (nzero N).
Local Notation "'one'" := (none N).
Local Notation "'two'" := (nofZ N 2).
Local Notation "'three'" := (nofZ N 3).
Local Notation "'four'" := (nofZ N 4).

(* the values passed (those not passed are never read on the path selected by the decision) *)
Record vals := mkVals {
  vG : T; vt : T; vpm : T; vm : T;            (* r->G, r->t, primary.m (given or centre of mass), m *)
  va : T; vP : T; ve : T; vinc : T; vOmega : T; vomega : T; vpomega : T;
  vf : T; vM : T; vE : T; vl : T; vtheta : T; vT : T
}.

(* ---- C ---- *)
Definition c_a (afp : bool) (v : vals) : T :=
  if afp then cbrt (vP v * vP v * vG v * (vpm v + vm v) / (four * l_pi L * l_pi L)) else va v.

Definition c_omega (pe : peri) (v : vals) : T :=
  match pe with
  | PeriDefault => zero
  | PeriOmega => vomega v
  | PeriPomega => if zero <? l_cos L (vinc v) then vpomega v - vOmega v else vOmega v - vpomega v
  end.

Definition c_f (an : anom) (a omega : T) (v : vals) : T :=
  let pro := zero <? l_cos L (vinc v) in
  match an with
  | AnDefault => zero
  | AnF => vf v
  | AnTheta => if pro then vtheta v - vOmega v - omega else vOmega v - omega - vtheta v
  | AnL => M_to_f N L (ve v) (if pro then vl v - vOmega v - omega else vOmega v - omega - vl v)
  | AnT => let n := nsqrt N (vG v * (vpm v + vm v) / nabs N (a * a * a)) in
           M_to_f N L (ve v) (n * (vt v - vT v))
  | AnM => M_to_f N L (ve v) (vM v)
  | AnE => E_to_f N L (ve v) (vE v)
  end.

(* ---- Python ---- *)
Definition py_a (afp : bool) (v : vals) : T :=
  if afp then pow (pow (vP v) two * vG v * (vpm v + vm v) / (four * pow (l_pi L) two)) (one / three) else va v.

Definition py_omega (pe : peri) (v : vals) : T :=
  match pe with
  | PeriDefault => zero
  | PeriOmega => vomega v
  | PeriPomega => if zero <? l_cos L (vinc v) then vpomega v - vOmega v else vOmega v - vpomega v
  end.

Definition py_f (an : anom) (a omega : T) (v : vals) : T :=
  match an with
  | AnDefault => zero
  | AnF => vf v
  | AnTheta => if zero <? l_cos L (vinc v) then vtheta v - vOmega v - omega else vOmega v - omega - vtheta v
  | AnL => let M := if zero <? l_cos L (vinc v) then vl v - vOmega v - omega else vOmega v - omega - vl v in
           M_to_f N L (ve v) M
  | AnT => let n := pow (vG v * (vpm v + vm v) / nabs N (pow a three)) (ndec N 1 2) in
           let M := n * (vt v - vT v) in
           M_to_f N L (ve v) M
  | AnM => M_to_f N L (ve v) (vM v)
  | AnE => E_to_f N L (ve v) (vE v)
  end.

(* (a, e, inc, Omega, omega, f) handed to reb_particle_from_orbit_err *)
Definition c_elements (afp : bool) (pe : peri) (an : anom) (v : vals) : list T :=
  let a := c_a afp v in let om := c_omega pe v in [a; ve v; vinc v; vOmega v; om; c_f an a om v].
Definition py_elements (afp : bool) (pe : peri) (an : anom) (v : vals) : list T :=
  let a := py_a afp v in let om := py_omega pe v in [a; ve v; vinc v; vOmega v; om; py_f an a om v].

(* the documented differences: where Python writes **, C calls cbrt / sqrt / multiplies *)
Definition pow_like_c (v : vals) : Prop :=
  pow (vP v) two = vP v * vP v /\
  pow (l_pi L) two = l_pi L * l_pi L /\
  (forall x, pow x (one / three) = cbrt x) /\
  (forall x, pow x (ndec N 1 2) = nsqrt N x) /\
  (forall x, pow x three = x * x * x).

Opaque M_to_f E_to_f.
(* retrograde conventions: pomega = Omega - omega, theta = Omega - omega - f, l = Omega - omega - M *)
Lemma flow_omega_same : forall pe v, py_omega pe v = c_omega pe v.
Proof. intros [| |] v; reflexivity. Qed.

Lemma flow_f_same_no_T : forall an a om v, an <> AnT -> py_f an a om v = c_f an a om v.
Proof.
  intros an a om v H. destruct an; try (exfalso; apply H; reflexivity); unfold py_f, c_f; cbv zeta;
  try reflexivity; destruct (zero <? l_cos L (vinc v)); reflexivity.
Qed.

Lemma flow_same : forall afp pe an v, pow_like_c v ->
  (four * l_pi L * l_pi L = four * (l_pi L * l_pi L)) ->
  py_elements afp pe an v = c_elements afp pe an v.
Proof.
  intros afp pe an v [H1 [H2 [H3 [H4 H5]]]] Hassoc. unfold py_elements, c_elements.
  assert (Ha : py_a afp v = c_a afp v).
  { unfold py_a, c_a. destruct afp; [|reflexivity]. rewrite H1, H2, H3, Hassoc. reflexivity. }
  rewrite Ha, flow_omega_same.
  assert (Hf : forall a om, py_f an a om v = c_f an a om v).
  { intros a om. destruct an; try (apply flow_f_same_no_T; congruence).
    unfold py_f, c_f. rewrite H4, H5. reflexivity. }
  rewrite Hf. reflexivity.
Qed.

(* without any assumption on pow: everything that does not go through P -> a or T -> M is the same expression *)
Lemma flow_same_bitwise : forall pe an v, an <> AnT ->
  py_elements false pe an v = c_elements false pe an v.
Proof.
  intros pe an v H. unfold py_elements, c_elements, py_a, c_a. rewrite flow_omega_same.
  rewrite (flow_f_same_no_T an _ _ v H). reflexivity.
Qed.

(* ---- the primary ---------------------------------------------------------------------------------------------
   Both front ends: primary := the one passed, else reb_simulation_com (Jacobi coordinates as particles are added one by
   one).  Python only (C: "jacobi_masses not yet implemented"): with jacobi_masses=True the primary's mass is REPLACED,
   BEFORE a is computed from P and before M is computed from T, by
        m0 * (m + Mint) / Mint - m        (m0 = particles[0].m, Mint = sum of all masses already in the simulation)
   so that mu = G (m + primary.m) = G m0 (m + Mint)/Mint everywhere downstream: in P -> a, in T -> M, in
   reb_particle_from_orbit_err / reb_particle_from_pal. *)
Definition py_primary_mass (jm : bool) (pm0 m m0 Mint : T) : T :=
  if jm then m0 * (m + Mint) / Mint - m else pm0.

Definition with_pm (v : vals) (pm' : T) : vals :=
  mkVals (vG v) (vt v) pm' (vm v) (va v) (vP v) (ve v) (vinc v) (vOmega v) (vomega v) (vpomega v)
         (vf v) (vM v) (vE v) (vl v) (vtheta v) (vT v).

Definition py_elements_jm (jm : bool) (m0 Mint : T) (afp : bool) (pe : peri) (an : anom) (v : vals) : list T :=
  py_elements afp pe an (with_pm v (py_primary_mass jm (vpm v) (vm v) m0 Mint)).

(* the Python flow with jacobi_masses is the C flow for the primary whose mass has been substituted FIRST *)
Lemma flow_jm_same : forall jm m0 Mint afp pe an v,
  pow_like_c (with_pm v (py_primary_mass jm (vpm v) (vm v) m0 Mint)) ->
  (four * l_pi L * l_pi L = four * (l_pi L * l_pi L)) ->
  py_elements_jm jm m0 Mint afp pe an v = c_elements afp pe an (with_pm v (py_primary_mass jm (vpm v) (vm v) m0 Mint)).
Proof. intros. unfold py_elements_jm. apply flow_same; assumption. Qed.

Lemma flow_jm_off : forall m0 Mint afp pe an v, py_elements_jm false m0 Mint afp pe an v = py_elements afp pe an v.
Proof. intros. unfold py_elements_jm, py_primary_mass, with_pm. destruct v; reflexivity. Qed.

End Flow.
