(* C11 property theorems ONLY (each closed by an already proved lemma) + assumptions. *)
From Coq Require Import ZArith Reals Lra List Bool PrimFloat.
From RV Require Import Common.Num Common.RealNum Common.FloatNum C11.Parser C11.ParserProofs C11.Orbit C11.OrbitProofs C11.Run
  C11.OrbitInv C11.InvProofs C11.RoundTrip C11.Angles C11.PalProofs C11.Newton C11.Flow.
From Coquelicot Require Import Coquelicot.
Import ListNotations.

(* ---- the two front ends (C: reb_particle_from_fmt_errV, Python: Particle.__init__) ------------------------- *)

(* For EVERY combination of passed arguments (NaN values included) the two parsers take the same decision: the same
   error class, or the same construction path (Cartesian / Pal / classical) with the same sources for a
   (given or from P), omega (default / omega / pomega) and f (default / f / M / E / l / theta / T).
   (Before /repo d64f81b this failed for `primary` + Pal variables, before 369a765 for NaN values.) *)
Theorem C11_parsers_agree : forall g, py_decide g = c_decide g.
Proof. exact parsers_agree_l. Qed.
Print Assumptions C11_parsers_agree.

(* in particular a primary may be combined with Pal variables in both front ends *)
Theorem C11_primary_with_pal_accepted : forall fl,
  qprimary fl && any_pal fl && negb (any_nonpal_py fl) && negb (any_cart fl) && qsim fl && xorb (qa fl) (qP fl) && negb (qazero fl) = true ->
  decide_c fl = Pal (negb (qa fl)) /\ decide_py fl = Pal (negb (qa fl)).
Proof. exact primary_pal_flags. Qed.
Print Assumptions C11_primary_with_pal_accepted.

(* an explicitly passed NaN or +-inf (state GivenNaN; any of the 25 numeric arguments, m and r included) is rejected by both
   with code 16 *)
Theorem C11_nan_args_rejected : forall g, any_nan g = true -> c_decide g = Reject 16 /\ py_decide g = Reject 16.
Proof. exact nan_rejected. Qed.
Print Assumptions C11_nan_args_rejected.

(* ---- reb_particle_from_orbit_err over the reals ------------------------------------------------------------ *)
Open Scope R_scope.

(* every invalid class is rejected with its code (inl c = "*err = c, reb_particle_nan() returned") *)
Theorem C11_from_orbit_rejects : forall tiny G prim m a e t,
  (a = 0 -> from_orbit_err RNum tiny G prim m a e t = inl 15%Z) /\
  (a <> 0 -> e = 1 -> from_orbit_err RNum tiny G prim m a e t = inl 1%Z) /\
  (a <> 0 -> e < 0 -> from_orbit_err RNum tiny G prim m a e t = inl 2%Z) /\
  (1 < e -> 0 < a -> from_orbit_err RNum tiny G prim m a e t = inl 3%Z) /\
  (0 <= e < 1 -> a < 0 -> from_orbit_err RNum tiny G prim m a e t = inl 4%Z) /\
  ((0 <= e < 1 /\ 0 < a) \/ (1 < e /\ a < 0) -> e * cf t < -1 -> from_orbit_err RNum tiny G prim m a e t = inl 5%Z) /\
  ((0 <= e < 1 /\ 0 < a) \/ (1 < e /\ a < 0) -> -1 <= e * cf t -> pm prim <= tiny ->
      from_orbit_err RNum tiny G prim m a e t = inl 6%Z).
Proof. exact reject_rules. Qed.
Print Assumptions C11_from_orbit_rejects.

(* an accepted orbit (bound or unbound) has radius a(1-e^2)/(1+e cos f) > 0, vis-viva energy -mu/2a,
   |h|^2 = mu a (1-e^2), h_z = |h| cos inc. *)
Theorem C11_from_orbit_invariants : forall tiny G prim m a e t,
  trig_ok t -> 0 < G * (m + pm prim) -> shape_ok a e -> -1 < e * cf t -> tiny < pm prim ->
  exists p, from_orbit_err RNum tiny G prim m a e t = inr p /\ invariants G m a e prim p t.
Proof. exact from_orbit_invariants. Qed.
Print Assumptions C11_from_orbit_invariants.

(* Conversely (since /repo commit 61c4a87 rejects a = 0): everything that is accepted is a valid request, and unless
   e cos f is exactly -1 (the asymptote itself, next theorem) it satisfies all the invariants, i.e. every
   denominator of the construction is non-zero. *)
Theorem C11_from_orbit_rejects_all_invalid : forall tiny G prim m a e t p,
  from_orbit_err RNum tiny G prim m a e t = inr p ->
  shape_ok a e /\ -1 <= e * cf t /\ tiny < pm prim /\
  (trig_ok t -> 0 < G * (m + pm prim) -> e * cf t <> -1 -> invariants G m a e prim p t).
Proof.
  intros tiny G prim m a e t p H. destruct (accepted_is_valid _ _ _ _ _ _ _ _ H) as [A [B C]].
  split; [exact A | split; [exact B | split; [exact C |]]]. intros. eapply accepted_invariants; eassumption.
Qed.
Print Assumptions C11_from_orbit_rejects_all_invalid.

(* the remaining corner: e cos f = -1 exactly passes the test `e*cos(f) < -1.` and gives an infinite radius
   (binary64 instance of the same model; cos f = -1/2 is supplied as the libm value, no double f with that
   cosine is known, so this is a statement about the code, not a reproduced library failure) *)
Theorem C11_from_orbit_asymptote_refuted :
  exists tr l, fo 1 1 0 0 0 0 0 0 0 (-1) 2 tr = l /\
               existsb (fun x => orb (PrimFloat.is_nan x) (PrimFloat.is_infinity x)) l = true.
Proof.
  exists [1; 0; 1; 0; -0x1p-1; 0x1.bb67ae8584caap-1; 1; 0]%float. eexists. split; [reflexivity|].
  vm_compute. reflexivity.
Qed.
Print Assumptions C11_from_orbit_asymptote_refuted.

(* and a = 0 is now rejected by the binary64 instance as well *)
Theorem C11_from_orbit_a0_rejected : forall tr, length tr = 8%nat ->
  fo 1 1 0 0 0 0 0 0 0 0 0x1p-1 tr = [15]%float.
Proof.
  intros tr H. do 8 (destruct tr as [|? tr]; [discriminate|]). destruct tr; [|discriminate]. reflexivity.
Qed.
Print Assumptions C11_from_orbit_a0_rejected.

(* ---- Kepler's equation: leaving the Newton loop through the convergence test bounds the residual -----------
   (for every iteration bound `fuel`; the code uses 100: M_to_E_ell_raw = M_to_E_ell_fuel 100).  The pair returned is
   (E before the final reb_mod2pi, loop left through `fabs(F) < 1.e-16`). *)
Theorem C11_kepler_residual_elliptic : forall (L : libm R) fuel e M E,
  M_to_E_ell_fuel RNum L fuel e M = (E, true) ->
  Rabs (E - e * l_sin L E - M_reduced RNum L M) < 1 / 10000000000000000.
Proof. exact ell_fuel_exit. Qed.
Print Assumptions C11_kepler_residual_elliptic.

Theorem C11_kepler_residual_hyperbolic : forall (L : libm R) fuel e M E,
  M_to_E_hyp_fuel RNum L fuel e M = (E, true) ->
  Rabs (E - e * l_sinh L E + M) < 1 / 10000000000000000.
Proof. exact hyp_fuel_exit. Qed.
Print Assumptions C11_kepler_residual_hyperbolic.

(* ---- round 2: reb_mod2pi, ranges of reb_orbit_from_particle_err, Pal Newton step, value flow ------------------ *)

(* reb_mod2pi(x) = fmod(2pi + fmod(x, 2pi), 2pi) lies in [0, 2pi) and differs from x by a multiple of 2pi, for any
   fmod with the C99 specification (x - k*y, sign of x, magnitude < y) *)
Theorem C11_mod2pi_range : forall (L : libm R), 0 < l_pi L -> fmod_spec (l_fmod L) -> forall x,
  0 <= mod2pi RNum L x < 2 * l_pi L /\ exists k : Z, mod2pi RNum L x = x - IZR k * (2 * l_pi L).
Proof. exact mod2pi_range. Qed.
Print Assumptions C11_mod2pi_range.

(* every orbit returned without error has e, d, v, h >= 0, inc in [0, pi], Omega in [-pi, pi],
   omega, f, M, l, theta in [0, 2pi) *)
Theorem C11_orbit_ranges : forall (L : libm R) (L2 : libm2 R),
  0 < l_pi L -> fmod_spec (l_fmod L) -> (forall x, 0 <= l_acos L2 x <= l_pi L) ->
  forall tiny G t0 p prim o, orbit_from_particle_err RNum L L2 tiny G t0 p prim = inr o ->
  0 <= o_e o /\ 0 <= o_d o /\ 0 <= o_v o /\ 0 <= o_h o /\
  0 <= o_inc o <= l_pi L /\ - l_pi L <= o_Omega o <= l_pi L /\
  0 <= o_omega o < 2 * l_pi L /\ 0 <= o_f o < 2 * l_pi L /\ 0 <= o_M o < 2 * l_pi L /\
  0 <= o_l o < 2 * l_pi L /\ 0 <= o_theta o < 2 * l_pi L.
Proof. exact orbit_ranges. Qed.
Print Assumptions C11_orbit_ranges.

(* the hypotheses on libm are met by PI, acos and truncated-division fmod *)
Theorem C11_libm_hypotheses_inhabited : 0 < PI /\ fmod_spec fmodR /\ (forall x, 0 <= acos x <= PI).
Proof. exact real_libm_sane. Qed.
Print Assumptions C11_libm_hypotheses_inhabited.

(* (J00 J01; J10 J11) is the Jacobian of Pal's Kepler system (f0, f1) with respect to (q, p) ... *)
Theorem C11_pal_jacobian_is_derivative : forall h k lam q p,
  is_derive (fun q => pal_f0 h k lam q p) q (J00 q p) /\
  is_derive (fun p => pal_f0 h k lam q p) p (J01 q p) /\
  is_derive (fun q => pal_f1 h k lam q p) q (J10 q p) /\
  is_derive (fun p => pal_f1 h k lam q p) p (J11 q p).
Proof. exact pal_jacobian_is_derivative. Qed.
Print Assumptions C11_pal_jacobian_is_derivative.

(* ... and one pass of the loop body of reb_tools_solve_kepler_pal is the exact Newton step J.(dq,dp) = -(f0,f1)
   whenever q <> 1 (regression theorem for the transposed-inverse defect fixed in /repo c089d6c), and the
   quantity tested against 1e-15 is |(f0,f1)| *)
Theorem C11_pal_newton_step_exact : forall (L : libm R), l_sin L = sin -> l_cos L = cos ->
  forall h k lam p q p' q' f, q <> 1 -> pal_step RNum L h k lam p q = (p', q', f) ->
  J00 q p * (q' - q) + J01 q p * (p' - p) = - pal_f0 h k lam q p /\
  J10 q p * (q' - q) + J11 q p * (p' - p) = - pal_f1 h k lam q p /\
  f = R_sqrt.sqrt (pal_f0 h k lam q p * pal_f0 h k lam q p + pal_f1 h k lam q p * pal_f1 h k lam q p).
Proof. exact pal_step_is_newton. Qed.
Print Assumptions C11_pal_newton_step_exact.

(* value flow: the elements (a,e,inc,Omega,omega,f) the two front ends hand to reb_particle_from_orbit_err are the
   same expressions (any arithmetic: binary64 included) unless a comes from P or M from T ... *)
Theorem C11_value_flow_same_bitwise : forall T (N : Num T) (L : libm T) cbrt pow pe an v, an <> AnT ->
  py_elements N L pow false pe an v = c_elements N L cbrt false pe an v.
Proof. intros. apply flow_same_bitwise. assumption. Qed.
Print Assumptions C11_value_flow_same_bitwise.

(* ... and in those two cases they differ only by Python's ** against C's cbrt / sqrt / repeated product *)
Theorem C11_value_flow_same : forall T (N : Num T) (L : libm T) cbrt pow afp pe an v,
  pow_like_c N L cbrt pow v ->
  nmul N (nmul N (nofZ N 4) (l_pi L)) (l_pi L) = nmul N (nofZ N 4) (nmul N (l_pi L) (l_pi L)) ->
  py_elements N L pow afp pe an v = c_elements N L cbrt afp pe an v.
Proof. intros. apply flow_same; assumption. Qed.
Print Assumptions C11_value_flow_same.

(* round trip, scalar part: reading back the particle built from (a,e,inc,Omega,omega,f) returns a and e EXACTLY
   (over the reals), the distance a(1-e^2)/(1+e cos f), |h| = sqrt(mu a (1-e^2)) and cos inc = h_z/|h| ... *)
Theorem C11_roundtrip_a_e : forall (L : libm R) (L2 : libm2 R) tiny G t0 prim m a e t p o,
  trig_ok t -> 0 < G * (m + pm prim) -> shape_ok a e -> -1 < e * cf t -> tiny < pm prim ->
  from_orbit_err RNum tiny G prim m a e t = inr p ->
  orbit_from_particle_err RNum L L2 tiny G t0 p prim = inr o ->
  o_a o = a /\ o_e o = e /\ o_d o = a * (1 - e*e) / (1 + e * cf t) /\
  o_h o = R_sqrt.sqrt (G * (m + pm prim) * a * (1 - e*e)) /\
  (0 < o_h o -> o_hz o / o_h o = ci t).
Proof. exact roundtrip_scalars. Qed.
Print Assumptions C11_roundtrip_a_e.

(* ... and the inclination itself through the acos2 clamping logic, for 0 < inc < PI *)
Theorem C11_roundtrip_inc : forall (L : libm R) (L2 : libm2 R) tiny G t0 prim m a e t p o inc,
  trig_ok t -> 0 < G * (m + pm prim) -> shape_ok a e -> -1 < e * cf t -> tiny < pm prim ->
  l_acos L2 = acos -> ci t = cos inc -> 0 < inc < PI ->
  from_orbit_err RNum tiny G prim m a e t = inr p ->
  orbit_from_particle_err RNum L L2 tiny G t0 p prim = inr o ->
  o_inc o = inc.
Proof. exact roundtrip_inc. Qed.
Print Assumptions C11_roundtrip_inc.

(* ... and the longitude of the node: for -PI < Omega <= PI and 0 < inc < PI it is returned EXACTLY; acos2's clamping
   branches supply exactly the values 0 and PI.  (omega and f modulo 2pi: not proved.) *)
Theorem C11_roundtrip_Omega : forall (L : libm R) (L2 : libm2 R), l_acos L2 = acos -> l_pi L = PI ->
  forall tiny G t0 prim m a e t p o inc Om,
  trig_ok t -> 0 < G * (m + pm prim) -> shape_ok a e -> -1 < e * cf t -> tiny < pm prim ->
  si t = sin inc -> 0 < inc < PI -> cO t = cos Om -> sO t = sin Om -> - PI < Om <= PI ->
  from_orbit_err RNum tiny G prim m a e t = inr p ->
  orbit_from_particle_err RNum L L2 tiny G t0 p prim = inr o ->
  o_Omega o = Om.
Proof. exact roundtrip_Omega. Qed.
Print Assumptions C11_roundtrip_Omega.

Theorem C11_acos2_inverts : forall (L : libm R) (L2 : libm2 R), l_acos L2 = acos -> l_pi L = PI ->
  forall th K S, 0 < K -> 0 < S -> - PI < th <= PI -> acos2 RNum L L2 (K * cos th) K (S * sin th) = th.
Proof. exact acos2_recover. Qed.
Print Assumptions C11_acos2_inverts.

(* ---- round 4: the clock of the pericentre time T ------------------------------------------------------------- *)
(* T and M of every returned orbit satisfy (t0 - T)|n| = M modulo 2pi, where t0 is the clock handed to the routine ... *)
Theorem C11_orbit_T_relation : forall (L : libm R) (L2 : libm2 R), 0 < l_pi L -> fmod_spec (l_fmod L) ->
  forall tiny G t0 p prim o, orbit_from_particle_err RNum L L2 tiny G t0 p prim = inr o -> o_n o <> 0 ->
  exists k : Z, (t0 - o_T o) * Rabs (o_n o) = o_M o + IZR k * (2 * l_pi L).
Proof. intros L L2 Hpi Hfm. exact (orbit_T_relation L L2 Hpi Hfm). Qed.
Print Assumptions C11_orbit_T_relation.

(* ... and that clock is the time of the PARTICLE's simulation (0 when the particle is in none), whatever the primary's
   simulation pointer is (the centre-of-mass primaries have none).  The binary64 instance of orbit_from_particle_sim is
   compared with p.orbit() / sim.orbits() / reb_orbit_from_particle on simulations with t <> 0. *)
Theorem C11_orbit_clock_is_the_particles : forall (L : libm R) (L2 : libm2 R) tiny G t primsim p prim,
  orbit_from_particle_sim RNum L L2 tiny G (Some t) primsim p prim = orbit_from_particle_err RNum L L2 tiny G t p prim /\
  orbit_from_particle_sim RNum L L2 tiny G None primsim p prim = orbit_from_particle_err RNum L L2 tiny G 0 p prim.
Proof. intros. split; reflexivity. Qed.
Print Assumptions C11_orbit_clock_is_the_particles.

(* T -> M = n(t-T) (front ends, Flow.v) -> T: same |n| and the same mean anomaly up to whole turns give T back up to
   whole periods (a is proved to be recovered; M modulo 2pi is not proved, see level_note) *)
Theorem C11_T_roundtrip_mod_period : forall t Tp n (k : Z), 0 < n ->
  t - (n * (t - Tp) + IZR k * (2 * PI)) / Rabs n = Tp - IZR k * (2 * PI / n).
Proof. exact T_roundtrip_mod_period. Qed.
Print Assumptions C11_T_roundtrip_mod_period.

(* ---- round 3 (angles) ------------------------------------------------------------------------------------------- *)
(* acos2 (K cos th) K (S sin th) = th modulo 2 pi for every real th *)
Theorem C11_acos2_mod_2pi : forall (L : libm R) (L2 : libm2 R), l_acos L2 = acos -> l_pi L = PI ->
  forall th K S, 0 < K -> 0 < S -> exists k : Z, acos2 RNum L L2 (K * cos th) K (S * sin th) = th + IZR k * (2 * PI).
Proof. exact acos2_mod. Qed.
Print Assumptions C11_acos2_mod_2pi.

(* elements -> particle -> elements on the generic branch (inc at least MIN_INC = 1e-8 away from 0 and pi) for e > 0,
   bound AND unbound orbits: omega and f are returned modulo 2 pi, normalised to [0, 2 pi).
   Convention of that branch (generic_angles): omega and omega+f are measured from the ascending node,
   f := (omega+f) - omega, pomega := Omega +- omega, theta := Omega +- (omega+f) (minus for inc >= pi/2). *)
Theorem C11_roundtrip_omega_f : forall (L : libm R) (L2 : libm2 R), l_acos L2 = acos -> l_pi L = PI -> fmod_spec (l_fmod L) ->
  forall tiny G t0 prim m a e t p o inc om f,
  trig_ok t -> 0 < G * (m + pm prim) -> shape_ok a e -> 0 < e -> -1 < e * cf t -> tiny < pm prim ->
  ci t = cos inc -> si t = sin inc -> MIN_INC RNum <= inc <= PI - MIN_INC RNum ->
  co t = cos om -> so t = sin om -> cf t = cos f -> sf t = sin f ->
  from_orbit_err RNum tiny G prim m a e t = inr p ->
  orbit_from_particle_err RNum L L2 tiny G t0 p prim = inr o ->
  (exists k : Z, o_omega o = om + IZR k * (2 * PI)) /\ (exists k : Z, o_f o = f + IZR k * (2 * PI)) /\
  0 <= o_omega o < 2 * PI /\ 0 <= o_f o < 2 * PI.
Proof. exact roundtrip_omega_f. Qed.
Print Assumptions C11_roundtrip_omega_f.

(* bound orbits, any inclination: n = sqrt(mu/a^3); the mean anomaly read back obeys Kepler's equation for the eccentric
   anomaly E of f, modulo 2 pi; T = t0 - M/n up to whole periods *)
Theorem C11_roundtrip_M_T : forall (L : libm R) (L2 : libm2 R), l_acos L2 = acos -> l_pi L = PI -> fmod_spec (l_fmod L) ->
  forall tiny G t0 prim m a e t p o f E,
  trig_ok t -> 0 < G * (m + pm prim) -> 0 < e < 1 -> 0 < a -> -1 < e * cf t -> tiny < pm prim ->
  cf t = cos f -> sf t = sin f ->
  cos E = (e + cos f) / (1 + e * cos f) -> sin E = R_sqrt.sqrt (1 - e*e) * sin f / (1 + e * cos f) ->
  from_orbit_err RNum tiny G prim m a e t = inr p ->
  orbit_from_particle_err RNum L L2 tiny G t0 p prim = inr o ->
  let nn := R_sqrt.sqrt (G * (m + pm prim) / (a*a*a)) in
  o_n o = nn /\
  (l_sin L = sin -> exists k : Z, o_M o = E - e * sin E + IZR k * (2 * PI)) /\
  (l_sin L = sin -> exists k : Z, o_T o = t0 - (E - e * sin E) / nn + IZR k * (2 * PI / nn)).
Proof. exact roundtrip_M_T. Qed.
Print Assumptions C11_roundtrip_M_T.

(* T -> M = n (t - T) -> f -> particle -> T: returned up to whole periods, the exactness of the Kepler solver being the
   only hypothesis (this supersedes the conditional C11_T_roundtrip_mod_period) *)
Theorem C11_roundtrip_T : forall (L : libm R) (L2 : libm2 R), l_acos L2 = acos -> l_pi L = PI -> fmod_spec (l_fmod L) ->
  forall tiny G t0 prim m a e t p o f E Tin (j : Z),
  trig_ok t -> 0 < G * (m + pm prim) -> 0 < e < 1 -> 0 < a -> -1 < e * cf t -> tiny < pm prim ->
  cf t = cos f -> sf t = sin f -> l_sin L = sin ->
  cos E = (e + cos f) / (1 + e * cos f) -> sin E = R_sqrt.sqrt (1 - e*e) * sin f / (1 + e * cos f) ->
  E - e * sin E = R_sqrt.sqrt (G * (m + pm prim) / (a*a*a)) * (t0 - Tin) + IZR j * (2 * PI) ->
  from_orbit_err RNum tiny G prim m a e t = inr p ->
  orbit_from_particle_err RNum L L2 tiny G t0 p prim = inr o ->
  exists k : Z, o_T o = Tin + IZR k * (2 * PI / R_sqrt.sqrt (G * (m + pm prim) / (a*a*a))).
Proof. exact roundtrip_T. Qed.
Print Assumptions C11_roundtrip_T.

(* defining relations between the returned angles, in EVERY branch of reb_orbit_from_particle_err (near-planar or
   generic, any e), modulo 2 pi (cong x y := exists k, x = y + k 2 pi):
     inc < pi/2 :  pomega = Omega + omega,  theta = pomega + f,  l = pomega + M  (the latter for e > MIN_ECC)
     otherwise  :  pomega = Omega - omega,  theta = pomega - f,  l = pomega - M.
   The near-planar branch measures theta and pomega from the x axis and DEFINES omega := pomega -+ Omega, f := +-(theta - pomega);
   the generic branch measures omega and omega+f from the node and DEFINES pomega, theta: the relations are the same. *)
Theorem C11_orbit_defining_relations : forall (L : libm R) (L2 : libm2 R), l_pi L = PI -> fmod_spec (l_fmod L) ->
  forall tiny G t0 p prim o, orbit_from_particle_err RNum L L2 tiny G t0 p prim = inr o ->
  if Rltb (o_inc o) (PI / 2)
  then cong (o_pomega o) (o_Omega o + o_omega o) /\ cong (o_theta o) (o_pomega o + o_f o) /\
       (MIN_ECC RNum < o_e o -> cong (o_l o) (o_pomega o + o_M o))
  else cong (o_pomega o) (o_Omega o - o_omega o) /\ cong (o_theta o) (o_pomega o - o_f o) /\
       (MIN_ECC RNum < o_e o -> cong (o_l o) (o_pomega o - o_M o)).
Proof. exact orbit_relations. Qed.
Print Assumptions C11_orbit_defining_relations.

(* ---- round 3 (Pal) -------------------------------------------------------------------------------------------- *)
(* the solver's system f0 = f1 = 0 is Pal's  q = k cos(l+p) + h sin(l+p),  p = k sin(l+p) - h cos(l+p) *)
Theorem C11_pal_system_forms : forall h k lam p q,
  q * cos p + p * sin p - (k * cos lam + h * sin lam) = 0 ->
  - q * sin p + p * cos p - (k * sin lam - h * cos lam) = 0 ->
  q = k * cos (lam + p) + h * sin (lam + p) /\ p = k * sin (lam + p) - h * cos (lam + p).
Proof. exact pal_system_forms. Qed.
Print Assumptions C11_pal_system_forms.

(* algebraic Pal round trip: for a > 0, mu > 0, h^2+k^2 < 1, ix^2+iy^2 < 4, if the (p,q) returned by the solver is a
   zero of the system, reb_tools_particle_to_pal (reb_particle_from_pal (a,lambda,k,h,ix,iy)) = (a, lambda', k, h, ix, iy)
   with a, k, h, ix, iy EXACT and lambda' = lambda modulo 2 pi (atan2 by its defining property) *)
Theorem C11_pal_roundtrip : forall (L : libm R) (L2 : libm2 R),
  (forall rho th, 0 < rho -> cong (l_atan2 L2 (rho * sin th) (rho * cos th)) th) ->
  forall G prim m a lam k h ix iy p q,
  0 < a -> 0 < G * (m + pm prim) -> h*h + k*k < 1 -> ix*ix + iy*iy < 4 ->
  l_sin L = sin -> l_cos L = cos ->
  solve_kepler_pal RNum L L2 h k lam = (p, q) ->
  q * cos p + p * sin p - (k * cos lam + h * sin lam) = 0 ->
  - q * sin p + p * cos p - (k * sin lam - h * cos lam) = 0 ->
  exists lam', particle_to_pal RNum L2 G (from_pal RNum L L2 G prim m a lam k h ix iy) prim = [a; lam'; k; h; ix; iy]
               /\ cong lam' lam.
Proof. exact pal_roundtrip_solved. Qed.
Print Assumptions C11_pal_roundtrip.

(* ---- round 3 (hyperbolic orbits) ------------------------------------------------------------------------------- *)
(* rejection rules specific to e > 1: a > 0 is code 3, a true anomaly beyond the asymptote (e cos f < -1) is code 5, and
   whatever is accepted with e > 1 has a < 0 and cos f >= -1/e.  (The invariants, a, e, inc, Omega, omega, f round-trip
   theorems above already cover a < 0, e > 1 through shape_ok.) *)
Theorem C11_hyperbolic_rejection_and_asymptote : forall tiny G prim m a e t,
  1 < e ->
  (0 < a -> from_orbit_err RNum tiny G prim m a e t = inl 3%Z) /\
  (a < 0 -> e * cf t < -1 -> from_orbit_err RNum tiny G prim m a e t = inl 5%Z) /\
  (forall p, from_orbit_err RNum tiny G prim m a e t = inr p -> a < 0 /\ - 1 / e <= cf t).
Proof.
  intros tiny G prim m a e t He.
  destruct (reject_rules tiny G prim m a e t) as [_ [_ [_ [R3 [_ [R5 _]]]]]].
  split; [intro; apply R3; assumption|]. split; [intros; apply R5; [right; split; assumption | assumption]|].
  intros p Hp. destruct (accepted_is_valid _ _ _ _ _ _ _ _ Hp) as [[[H1 H2]|[H1 H2]] [H3 _]]; [lra|].
  split; [exact H2|]. apply Rmult_le_reg_l with e; [lra|]. replace (e * (- 1 / e)) with (-1) by (field; lra). exact H3.
Qed.
Print Assumptions C11_hyperbolic_rejection_and_asymptote.

(* unbound orbits: n = -sqrt(mu/|a|^3) and T is read back exactly as t0 - (e sinh H - H)/|n|, H the hyperbolic anomaly of f *)
Theorem C11_roundtrip_T_hyperbolic : forall (L : libm R) (L2 : libm2 R) tiny G t0 prim m a e t p o f H,
  trig_ok t -> 0 < G * (m + pm prim) -> 1 < e -> a < 0 -> -1 < e * cf t -> tiny < pm prim ->
  cf t = cos f -> sf t = sin f ->
  (forall x, 0 <= x -> l_acosh L2 (cosh x) = x) -> l_sinh L = sinh ->
  cosh H = (e + cos f) / (1 + e * cos f) -> sinh H = R_sqrt.sqrt (e*e - 1) * sin f / (1 + e * cos f) ->
  from_orbit_err RNum tiny G prim m a e t = inr p ->
  orbit_from_particle_err RNum L L2 tiny G t0 p prim = inr o ->
  let nn := R_sqrt.sqrt (G * (m + pm prim) / ((-a)*(-a)*(-a))) in
  o_n o = - nn /\ o_T o = t0 - (e * sinh H - H) / nn.
Proof. exact roundtrip_T_hyperbolic. Qed.
Print Assumptions C11_roundtrip_T_hyperbolic.

(* ---- round 3 (convergence of the elliptic Newton loop over R) -------------------------------------------------- *)
(* sin lies below its tangents on [0, pi], hence F(E) = E - e sin E - M is convex there; a Newton step from the right of
   the root E* stays in [E*, E]; therefore the loop of the model, from any E in [E*, pi] and for any iteration bound,
   returns a value in [E*, E] ... *)
Theorem C11_newton_elliptic_monotone : forall e M Es, 0 <= e < 1 -> 0 <= Es <= PI -> Es - e * sin Es - M = 0 ->
  forall (L : libm R), l_sin L = sin -> l_cos L = cos ->
  forall fuel E, Es <= E <= PI -> Es <= fst (newton_ell RNum L fuel e M E (E - e * sin E - M)) <= E.
Proof. intros e M Es He HEs Hr L Hs Hc fuel E HE. exact (newton_ell_monotone e M Es He HEs Hr L Hs Hc fuel E HE). Qed.
Print Assumptions C11_newton_elliptic_monotone.

(* ... in particular reb_M_to_E with its starter E = pi (e >= 0.8) and a reduced mean anomaly in [0, pi] never overshoots
   the solution.  (Not proved: the limit itself, the branch M in (pi, 2 pi) (mirror image), the starter E = M for e < 0.8,
   and anything about binary64.) *)
Theorem C11_M_to_E_starter_pi_monotone : forall (L : libm R) fuel e M Es,
  l_sin L = sin -> l_cos L = cos -> l_pi L = PI ->
  8 / 10 <= e < 1 -> 0 <= Es <= PI ->
  Es - e * sin Es - M_reduced RNum L M = 0 ->
  Es <= fst (M_to_E_ell_fuel RNum L fuel e M) <= PI.
Proof. exact M_to_E_starter_pi_monotone. Qed.
Print Assumptions C11_M_to_E_starter_pi_monotone.

(* ---- round 6: the primary in the value flow --------------------------------------------------------------------- *)
(* Python with jacobi_masses=True computes exactly what C computes for the primary whose mass has FIRST been replaced by
   m0 (m + Mint)/Mint - m; the substitution precedes P -> a and T -> M (moving it after them is seeded mutation c11e).
   With jacobi_masses=False the flow is the one of C11_value_flow_same. *)
Theorem C11_value_flow_jacobi_masses : forall T (N : Num T) (L : libm T) cbrt pow jm m0 Mint afp pe an v,
  pow_like_c N L cbrt pow (with_pm v (py_primary_mass N jm (vpm v) (vm v) m0 Mint)) ->
  nmul N (nmul N (nofZ N 4) (l_pi L)) (l_pi L) = nmul N (nofZ N 4) (nmul N (l_pi L) (l_pi L)) ->
  py_elements_jm N L pow jm m0 Mint afp pe an v =
  c_elements N L cbrt afp pe an (with_pm v (py_primary_mass N jm (vpm v) (vm v) m0 Mint)) /\
  py_elements_jm N L pow false m0 Mint afp pe an v = py_elements N L pow afp pe an v.
Proof. intros. split; [apply flow_jm_same; assumption | apply flow_jm_off]. Qed.
Print Assumptions C11_value_flow_jacobi_masses.

(* ---- edges of the domain ----------------------------------------------------------------------------------------
   What the hypotheses of the theorems above exclude, and what the code does there (all of it is exercised bit for bit by
   the binary64 correspondence corners and by the searcher's edge sweep, tools/c11_search.py edge_corners):
   * e = 0 (C11_roundtrip_omega_f needs 0 < e): acos2(.., n*e = 0, ..) divides by zero; in binary64 the quotient is NaN and
     acos2 returns 0, so omega := 0 / pomega := 0; only omega+f (generic branch) resp. theta (planar branch) is meaningful.
   * inc within MIN_INC = 1e-8 of 0 or pi: the planar branch; only C11_orbit_defining_relations is proved there.
   * e cos f = -1 exactly: C11_from_orbit_asymptote_refuted.  e = 1: rejected (code 1).  a = +-0: rejected (code 15).
   * mu = G (m + primary.m) <= 0 (0 < mu everywhere above): G = 0 gives a particle at rest relative to the primary;
     a negative total mass gives sqrt of a negative number, i.e. NaN velocities without an error (outside the property's
     quantifier "masses").
   * binary64 range (the theorems are over R): reb_orbit_from_particle_err squares distances and speeds, so beyond about
     1e-154 / 1e154 it reports "positions are the same" / infinite elements; a subnormal a overflows mu/a; a^3 under/overflows
     in the T -> M conversion for |a| beyond about 1e-103 / 1e102 (C: n = inf or 0, Python: ZeroDivisionError / OverflowError).
   * non-finite arguments: NaN and +-inf are rejected by both front ends (code 16, /repo 369a765 and 30c5711).
   * primary.m = TINY exactly: next theorem. *)

(* both directions use the same comparison at the threshold TINY (= 1e-308) since /repo 0972be7: a primary of mass
   <= TINY is rejected when creating a particle (code 6) and when reading its orbit (code 1); whatever is accepted by
   reb_particle_from_orbit_err passes the mass test of reb_orbit_from_particle_err. *)
Theorem C11_tiny_primary_boundary : forall (L : libm R) (L2 : libm2 R) tiny G t0 prim m a e t,
  (shape_ok a e -> -1 <= e * cf t -> pm prim <= tiny -> from_orbit_err RNum tiny G prim m a e t = inl 6%Z) /\
  (pm prim <= tiny -> forall p, orbit_from_particle_err RNum L L2 tiny G t0 p prim = inl 1%Z) /\
  (forall p, from_orbit_err RNum tiny G prim m a e t = inr p ->
     orbit_from_particle_err RNum L L2 tiny G t0 p prim <> inl 1%Z).
Proof.
  intros L L2 tiny G t0 prim m a e t. split; [|split].
  - intros Hsh Hc Hpm. destruct (reject_rules tiny G prim m a e t) as [_ [_ [_ [_ [_ [_ R6]]]]]]. apply R6; assumption.
  - intros Hpm p. unfold orbit_from_particle_err. cbn [nleb RNum]. unfold Rleb.
    destruct (Rle_dec (pm prim) tiny); [reflexivity | contradiction].
  - intros p Hp. destruct (accepted_is_valid _ _ _ _ _ _ _ _ Hp) as [_ [_ Hm]].
    unfold orbit_from_particle_err. cbn [nleb RNum]. unfold Rleb.
    destruct (Rle_dec (pm prim) tiny); [lra|]. cbv zeta.
    intro K. match type of K with (if ?c then _ else _) = _ => destruct c; [discriminate K|] end.
    match type of K with context [match ?X with pair _ _ => _ end] => destruct X as [[[om pom] ff] th] end.
    discriminate K.
Qed.
Print Assumptions C11_tiny_primary_boundary.

(* Non-vacuity: a concrete inclined eccentric orbit (cos/sin pairs 3/5,4/5 etc.) meets every hypothesis. *)
Example C11_hypotheses_inhabited :
  let t := mkTrig (3/5) (4/5) (5/13) (12/13) (-4/5) (3/5) (8/17) (15/17) in
  let prim := mkPart 1 0 0 0 0 0 0 in
  trig_ok t /\ 0 < 1 * (1/1000 + pm prim) /\ shape_ok 2 (1/2) /\ shape_ok (-3) (6/5) /\
  -1 < 1/2 * cf t /\ -1 < 6/5 * cf t /\ 1/1000000 <= pm prim /\
  no_nan_values no_args.
Proof.
  cbv zeta. unfold trig_ok, shape_ok, no_nan_values, not_nan. cbn.
  repeat split; try lra; try discriminate.
Qed.
