(* C11 property theorems ONLY (each closed by an already proved lemma) + assumptions. *)
From Coq Require Import ZArith Reals Lra List Bool PrimFloat.
From RV Require Import Common.Num Common.RealNum Common.FloatNum C11.Parser C11.ParserProofs C11.Orbit C11.OrbitProofs C11.Run.
Import ListNotations.

(* ---- the two front ends (C: reb_particle_from_fmt_errV, Python: Particle.__init__) ------------------------- *)

(* For every combination of passed arguments without NaN values the two parsers take the same decision: the same
   error class, or the same construction path (Cartesian / Pal / classical) with the same sources for a
   (given or from P), omega (default / omega / pomega) and f (default / f / M / E / l / theta / T).
   (Before /repo commit d64f81b this failed for `primary` + Pal variables; see known_findings.json.) *)
Theorem C11_parsers_agree : forall g, no_nan_values g -> py_decide g = c_decide g.
Proof. exact parsers_agree_l. Qed.
Print Assumptions C11_parsers_agree.

(* in particular a primary may be combined with Pal variables in both front ends *)
Theorem C11_primary_with_pal_accepted : forall fl,
  qprimary fl && any_pal fl && negb (any_nonpal_py fl) && negb (any_cart fl) && qsim fl && xorb (qa fl) (qP fl) && negb (qazero fl) = true ->
  decide_c fl = Pal (negb (qa fl)) /\ decide_py fl = Pal (negb (qa fl)).
Proof. exact primary_pal_flags. Qed.
Print Assumptions C11_primary_with_pal_accepted.

(* NaN-valued arguments: C treats them as "not passed", Python as passed. *)
Theorem C11_nan_args_differ :
  c_decide w_nan_x = Classical false PeriDefault AnDefault /\ py_decide w_nan_x = Reject 8 /\
  c_decide w_nan_a = Classical true PeriDefault AnDefault /\ py_decide w_nan_a = Reject 11.
Proof. exact nan_witnesses. Qed.
Print Assumptions C11_nan_args_differ.

(* ---- reb_particle_from_orbit_err over the reals ------------------------------------------------------------ *)
Open Scope R_scope.

(* every invalid class is rejected with its code (inl c = "*err = c, reb_particle_nan() returned") *)
Theorem C11_from_orbit_rejects : forall tiny G prim m a e t,
  (a = 0 -> from_orbit_err RNum tiny G prim m a e t = inl 15%Z) /\
  (a <> 0 -> e = 1 -> from_orbit_err RNum tiny G prim m a e t = inl 1%Z) /\
  (a <> 0 -> e < 0 -> from_orbit_err RNum tiny G prim m a e t = inl 2%Z) /\
  (1 < e -> 0 < a -> from_orbit_err RNum tiny G prim m a e t = inl 3%Z) /\
  (0 <= e < 1 -> a < 0 -> from_orbit_err RNum tiny G prim m a e t = inl 4%Z) /\
  ((0 <= e < 1 /\ 0 < a) \/ (1 < e /\ a < 0) -> e * cf t < -1 -> from_orbit_err RNum tiny G prim m a e t = inl 5%Z) /\
  ((0 <= e < 1 /\ 0 < a) \/ (1 < e /\ a < 0) -> -1 <= e * cf t -> pm prim < tiny ->
      from_orbit_err RNum tiny G prim m a e t = inl 6%Z).
Proof. exact reject_rules. Qed.
Print Assumptions C11_from_orbit_rejects.

(* an accepted orbit (bound or unbound) has radius a(1-e^2)/(1+e cos f) > 0, vis-viva energy -mu/2a,
   |h|^2 = mu a (1-e^2), h_z = |h| cos inc. *)
Theorem C11_from_orbit_invariants : forall tiny G prim m a e t,
  trig_ok t -> 0 < G * (m + pm prim) -> shape_ok a e -> -1 < e * cf t -> tiny <= pm prim ->
  exists p, from_orbit_err RNum tiny G prim m a e t = inr p /\ invariants G m a e prim p t.
Proof. exact from_orbit_invariants. Qed.
Print Assumptions C11_from_orbit_invariants.

(* Conversely (since /repo commit 61c4a87 rejects a = 0): everything that is accepted is a valid request, and unless
   e cos f is exactly -1 (the asymptote itself, next theorem) it satisfies all the invariants, i.e. every
   denominator of the construction is non-zero. *)
Theorem C11_from_orbit_rejects_all_invalid : forall tiny G prim m a e t p,
  from_orbit_err RNum tiny G prim m a e t = inr p ->
  shape_ok a e /\ -1 <= e * cf t /\ tiny <= pm prim /\
  (trig_ok t -> 0 < G * (m + pm prim) -> e * cf t <> -1 -> invariants G m a e prim p t).
Proof.
  intros tiny G prim m a e t p H. destruct (accepted_is_valid _ _ _ _ _ _ _ _ H) as [A [B C]].
  split; [exact A | split; [exact B | split; [exact C |]]]. intros. eapply accepted_invariants; eassumption.
Qed.
Print Assumptions C11_from_orbit_rejects_all_invalid.

(* the remaining corner: e cos f = -1 exactly passes the test `e*cos(f) < -1.` and gives an infinite radius
   (binary64 instance of the same model; cos f = -1/2 is supplied as the libm value, no double f with that
   cosine is known, so this is a statement about the code, not a reproduced library failure) *)
Theorem C11_from_orbit_asymptote_refuted :
  exists tr l, fo 1 1 0 0 0 0 0 0 0 (-1) 2 tr = l /\
               existsb (fun x => orb (PrimFloat.is_nan x) (PrimFloat.is_infinity x)) l = true.
Proof.
  exists [1; 0; 1; 0; -0x1p-1; 0x1.bb67ae8584caap-1; 1; 0]%float. eexists. split; [reflexivity|].
  vm_compute. reflexivity.
Qed.
Print Assumptions C11_from_orbit_asymptote_refuted.

(* and a = 0 is now rejected by the binary64 instance as well *)
Theorem C11_from_orbit_a0_rejected : forall tr, length tr = 8%nat ->
  fo 1 1 0 0 0 0 0 0 0 0 0x1p-1 tr = [15]%float.
Proof.
  intros tr H. do 8 (destruct tr as [|? tr]; [discriminate|]). destruct tr; [|discriminate]. reflexivity.
Qed.
Print Assumptions C11_from_orbit_a0_rejected.

(* ---- Kepler's equation: leaving the Newton loop through the convergence test bounds the residual -----------
   (for every iteration bound `fuel`; the code uses 100: M_to_E_ell_raw = M_to_E_ell_fuel 100).  The pair returned is
   (E before the final reb_mod2pi, loop left through `fabs(F) < 1.e-16`). *)
Theorem C11_kepler_residual_elliptic : forall (L : libm R) fuel e M E,
  M_to_E_ell_fuel RNum L fuel e M = (E, true) ->
  Rabs (E - e * l_sin L E - M_reduced RNum L M) < 1 / 10000000000000000.
Proof. exact ell_fuel_exit. Qed.
Print Assumptions C11_kepler_residual_elliptic.

Theorem C11_kepler_residual_hyperbolic : forall (L : libm R) fuel e M E,
  M_to_E_hyp_fuel RNum L fuel e M = (E, true) ->
  Rabs (E - e * l_sinh L E + M) < 1 / 10000000000000000.
Proof. exact hyp_fuel_exit. Qed.
Print Assumptions C11_kepler_residual_hyperbolic.

(* Non-vacuity: a concrete inclined eccentric orbit (cos/sin pairs 3/5,4/5 etc.) meets every hypothesis. *)
Example C11_hypotheses_inhabited :
  let t := mkTrig (3/5) (4/5) (5/13) (12/13) (-4/5) (3/5) (8/17) (15/17) in
  let prim := mkPart 1 0 0 0 0 0 0 in
  trig_ok t /\ 0 < 1 * (1/1000 + pm prim) /\ shape_ok 2 (1/2) /\ shape_ok (-3) (6/5) /\
  -1 < 1/2 * cf t /\ -1 < 6/5 * cf t /\ 1/1000000 <= pm prim /\
  no_nan_values no_args.
Proof.
  cbv zeta. unfold trig_ok, shape_ok, no_nan_values, not_nan. cbn.
  repeat split; try lra; try discriminate.
Qed.
