(* C11 round 3 — the algebraic Pal round trip: if (p, q) solves Pal's form of Kepler's equation, then
   reb_tools_particle_to_pal (reb_particle_from_pal (a, lambda, k, h, ix, iy)) = (a, lambda mod 2 pi, k, h, ix, iy). *)
From Coq Require Import ZArith Reals Lra Nsatz List.
From RV Require Import Common.Num Common.RealNum C11.Orbit C11.OrbitInv C11.Angles.
Import ListNotations.
Open Scope R_scope.

(* ---- the rotation out of the reference plane is an isometry ---- *)
Section Rot.
Variables ix iy iz xi eta dxi deta : R.
Hypothesis Hiz : iz*iz = 4 - ix*ix - iy*iy.
Let W := eta*ix - xi*iy.
Let x := xi + 1/2*iy*W.
Let y := eta - 1/2*ix*W.
Let z := 1/2*iz*W.
Let dW := deta*ix - dxi*iy.
Let vx := dxi + 1/2*iy*dW.
Let vy := deta - 1/2*ix*dW.
Let vz := 1/2*iz*dW.
Let Cp := xi*deta - eta*dxi.
Lemma rot_norm : x*x+y*y+z*z = xi*xi+eta*eta.
Proof. transitivity (xi*xi+eta*eta + /4*W*W*(iz*iz - (4 - ix*ix - iy*iy))); [unfold x, y, z, W; field | rewrite Hiz; ring]. Qed.
Lemma rot_dot : x*vx+y*vy+z*vz = xi*dxi+eta*deta.
Proof. transitivity (xi*dxi+eta*deta + /4*W*dW*(iz*iz - (4 - ix*ix - iy*iy))); [unfold x, y, z, vx, vy, vz, W, dW; field | rewrite Hiz; ring]. Qed.
Lemma rot_cx : y*vz-z*vy = 1/2*iy*iz*Cp.
Proof. unfold x, y, z, vx, vy, vz, W, dW, Cp. field. Qed.
Lemma rot_cy : z*vx-x*vz = -(1/2*ix*iz*Cp).
Proof. unfold x, y, z, vx, vy, vz, W, dW, Cp. field. Qed.
Lemma rot_cz : x*vy-y*vx = (1 - 1/2*(ix*ix+iy*iy))*Cp.
Proof. unfold x, y, z, vx, vy, vz, W, dW, Cp. field. Qed.
End Rot.

(* ---- in the reference plane ---- *)
Section Planar.
Variables a h k p q clp slp s1 an w u : R.
Hypothesis Hcs : clp*clp + slp*slp = 1.
Hypothesis Hq : q = k*clp + h*slp.
Hypothesis Hp : p = k*slp - h*clp.
Hypothesis Hs1 : s1*s1 = 1 - h*h - k*k.
Hypothesis Hw : w*(1+s1) = 1.
Hypothesis Hu : u*(1-q) = 1.
Let xi := a*(clp + p*w*h - k).
Let eta := a*(slp - p*w*k - h).
Let dxi := an*u*(-slp + q*w*h).
Let deta := an*u*(clp - q*w*k).
Lemma planar_r2 : xi*xi+eta*eta = a*a*(1-q)*(1-q).
Proof. subst xi eta. nsatz. Qed.
Lemma cplanar : xi*deta - eta*dxi = a*an*s1.
Proof. subst xi eta dxi deta. nsatz. Qed.
Lemma chatp : xi*dxi+eta*deta = a*an*p.
Proof. subst xi eta dxi deta. nsatz. Qed.
Lemma kback : s1*u*(clp - q*w*k) - u*(clp + p*w*h - k) = k.
Proof. nsatz. Qed.
Lemma hback : s1*u*(slp - q*w*h) - u*(slp - p*w*k - h) = h.
Proof. nsatz. Qed.
Lemma lam_sin : slp - q*w*h - k*p*w = s1 * slp.
Proof. nsatz. Qed.
Lemma lam_cos : clp - q*w*k + h*p*w = s1 * clp.
Proof. nsatz. Qed.
End Planar.

(* Pal's Kepler system in the two forms: f0 = f1 = 0 (what the solver iterates on) gives
   q = k cos(lambda+p) + h sin(lambda+p),  p = k sin(lambda+p) - h cos(lambda+p) *)
Lemma pal_system_forms : forall h k lam p q,
  q * cos p + p * sin p - (k * cos lam + h * sin lam) = 0 ->
  - q * sin p + p * cos p - (k * sin lam - h * cos lam) = 0 ->
  q = k * cos (lam + p) + h * sin (lam + p) /\ p = k * sin (lam + p) - h * cos (lam + p).
Proof.
  intros h k lam p q F0 F1. rewrite cos_plus, sin_plus.
  pose proof (sin2_cos2 p) as S1. pose proof (sin2_cos2 lam) as S2. unfold Rsqr in *.
  set (c := cos p) in *. set (s := sin p) in *. set (cl := cos lam) in *. set (sl := sin lam) in *.
  split; nsatz.
Qed.

Lemma list6_eq : forall (a1 a2 a3 a4 a5 a6 b1 b2 b3 b4 b5 b6 : R),
  a1 = b1 -> a2 = b2 -> a3 = b3 -> a4 = b4 -> a5 = b5 -> a6 = b6 -> [a1; a2; a3; a4; a5; a6] = [b1; b2; b3; b4; b5; b6].
Proof. intros. subst. reflexivity. Qed.

Section PalRT.
Variable L : libm R.
Variable L2 : libm2 R.
(* atan2 by its defining property *)
Hypothesis Hatan2 : forall rho th, 0 < rho -> cong (l_atan2 L2 (rho * sin th) (rho * cos th)) th.

Lemma pal_roundtrip : forall G prim m a lam k h ix iy p q,
  0 < a -> 0 < G * (m + pm prim) -> h*h + k*k < 1 -> ix*ix + iy*iy < 4 ->
  l_sin L (lam + p) = sin (lam + p) -> l_cos L (lam + p) = cos (lam + p) ->
  q = k * cos (lam + p) + h * sin (lam + p) -> p = k * sin (lam + p) - h * cos (lam + p) ->
  exists lam', particle_to_pal RNum L2 G (from_pal_pq RNum L G prim m a lam k h ix iy p q) prim = [a; lam'; k; h; ix; iy]
               /\ cong lam' lam.
Proof.
  intros G prim m a lam k h ix iy p q Ha Hmu He Hi Hs Hc Hq Hp.
  unfold from_pal_pq, particle_to_pal. cbn [pm px py pz pvx pvy pvz].
  cbn [nadd nsub nmul ndiv nneg nsqrt nabs nofZ none nzero RNum]. unfold ndec. cbn [ndiv nofZ RNum]. rewrite Hs, Hc.
  set (slp := sin (lam + p)) in *. set (clp := cos (lam + p)) in *.
  assert (Hcs : clp*clp + slp*slp = 1) by (pose proof (sin2_cos2 (lam+p)) as S; unfold Rsqr in S; unfold clp, slp; lra).
  set (s1 := sqrt (1 - h*h - k*k)) in *.
  assert (Hs1p : 0 < s1) by (apply sqrt_lt_R0; lra).
  assert (Hs1 : s1*s1 = 1 - h*h - k*k) by (apply sqrt_sqrt; lra).
  replace (2 - (1 - s1)) with (1 + s1) by ring.
  rewrite (Rabs_pos_eq (4 - ix*ix - iy*iy)) by lra.
  set (iz := sqrt (4 - ix*ix - iy*iy)) in *.
  assert (Hizp : 0 < iz) by (apply sqrt_lt_R0; lra).
  assert (Hiz : iz*iz = 4 - ix*ix - iy*iy) by (apply sqrt_sqrt; lra).
  set (mu := G * (m + pm prim)) in *.
  set (an := sqrt (mu / a)) in *.
  assert (Hanp : 0 < an) by (apply sqrt_lt_R0; apply Rdiv_lt_0_compat; lra).
  assert (Han : an*an*a = mu) by (unfold an; rewrite sqrt_sqrt; [field; lra | apply Rlt_le, Rdiv_lt_0_compat; lra]).
  assert (Hq1 : q < 1).
  { assert (E : q*q + (k*slp - h*clp)*(k*slp - h*clp) = h*h+k*k).
    { rewrite Hq. transitivity ((h*h+k*k)*(clp*clp+slp*slp)); [ring | rewrite Hcs; ring]. }
    assert (0 <= (k*slp - h*clp)*(k*slp - h*clp)) by apply Rle_0_sqr.
    destruct (Rlt_or_le q 1) as [|Hge]; [assumption|]. assert (1 <= q*q) by nra. lra. }
  set (w := / (1 + s1)). set (u := / (1 - q)).
  assert (Hw : w * (1 + s1) = 1) by (unfold w; field; lra).
  assert (Hu : u * (1 - q) = 1) by (unfold u; field; lra).
  unfold Rdiv. fold w. fold u.
  replace (an * u * (clp - q * w * k)) with (an * u * (clp - q * w * k)) by reflexivity.
  set (xi := a * (clp + p * w * h - k)).
  set (eta := a * (slp - p * w * k - h)).
  set (dxi := an * u * (- slp + q * w * h)).
  set (deta := an * u * (clp - q * w * k)).
  replace (px prim + xi + 1 * / 2 * iy * (eta * ix - xi * iy) - px prim) with (xi + 1 * / 2 * iy * (eta * ix - xi * iy)) by ring.
  replace (py prim + eta - 1 * / 2 * ix * (eta * ix - xi * iy) - py prim) with (eta - 1 * / 2 * ix * (eta * ix - xi * iy)) by ring.
  replace (pz prim + 1 * / 2 * iz * (eta * ix - xi * iy) - pz prim) with (1 * / 2 * iz * (eta * ix - xi * iy)) by ring.
  replace (pvx prim + dxi + 1 * / 2 * iy * (deta * ix - dxi * iy) - pvx prim) with (dxi + 1 * / 2 * iy * (deta * ix - dxi * iy)) by ring.
  replace (pvy prim + deta - 1 * / 2 * ix * (deta * ix - dxi * iy) - pvy prim) with (deta - 1 * / 2 * ix * (deta * ix - dxi * iy)) by ring.
  replace (pvz prim + 1 * / 2 * iz * (deta * ix - dxi * iy) - pvz prim) with (1 * / 2 * iz * (deta * ix - dxi * iy)) by ring.
  pose proof (rot_norm ix iy iz xi eta Hiz) as RN. pose proof (rot_dot ix iy iz xi eta dxi deta Hiz) as RD.
  pose proof (rot_cx ix iy iz xi eta dxi deta) as RX. pose proof (rot_cy ix iy iz xi eta dxi deta) as RY.
  pose proof (rot_cz ix iy xi eta dxi deta) as RZ.
  cbv zeta in RN, RD, RX, RY, RZ. unfold Rdiv in RN, RD, RX, RY, RZ.
  rewrite RX, RY, RZ, RN, RD.
  pose proof (planar_r2 a h k p q clp slp s1 w u Hcs Hq Hp Hs1 Hw Hu) as PR.
  pose proof (cplanar a h k p q clp slp s1 an w u Hcs Hq Hp Hs1 Hw Hu) as PC.
  pose proof (chatp a h k p q clp slp s1 an w u Hcs Hq Hp Hs1 Hw Hu) as PH.
  cbv zeta in PR, PC, PH. fold xi eta dxi deta in PR, PC, PH.
  rewrite PC, PR, PH.
  set (Cc := a * an * s1) in *.
  assert (HCc : 0 < Cc) by (unfold Cc; apply Rmult_lt_0_compat; [apply Rmult_lt_0_compat|]; assumption).
  set (sI := ix * ix + iy * iy) in *.
  assert (Ec : sqrt (1 * / 2 * iy * iz * Cc * (1 * / 2 * iy * iz * Cc) + - (1 * / 2 * ix * iz * Cc) * - (1 * / 2 * ix * iz * Cc) +
                     (1 - 1 * / 2 * sI) * Cc * ((1 - 1 * / 2 * sI) * Cc)) = Cc).
  { transitivity (sqrt (Cc * Cc)); [f_equal | apply sqrt_square; lra].
    transitivity (Cc * Cc * (1 + /4 * sI * (iz * iz - (4 - ix * ix - iy * iy)))); [unfold sI, Cc; field | rewrite Hiz; ring]. }
  rewrite Ec.
  assert (Er : sqrt (a * a * (1 - q) * (1 - q)) = a * (1 - q)).
  { replace (a * a * (1 - q) * (1 - q)) with ((a * (1 - q)) * (a * (1 - q))) by ring. apply sqrt_square.
    apply Rlt_le, Rmult_lt_0_compat; lra. }
  rewrite Er.
  assert (Efac : sqrt (2 * / (1 + (1 - 1 * / 2 * sI) * Cc * / Cc)) = 2 * / iz).
  { rewrite <- (sqrt_square (2 * / iz)).
    - f_equal. replace ((1 - 1 * / 2 * sI) * Cc * / Cc) with (1 - 1 * / 2 * sI) by (field; lra).
      replace (1 + (1 - 1 * / 2 * sI)) with (/2 * (iz * iz)) by (rewrite Hiz; unfold sI; field). field. lra.
    - apply Rlt_le, Rmult_lt_0_compat; [lra | apply Rinv_0_lt_compat; lra]. }
  rewrite Efac.
  assert (Hden : Cc + (1 - 1 * / 2 * sI) * Cc = / 2 * (iz * iz) * Cc) by (rewrite Hiz; unfold sI, Cc; field).
  rewrite Hden.
  assert (Ek : Cc * / mu * (deta - 1 * / 2 * ix * (deta * ix - dxi * iy) -
                 1 * / 2 * iz * (deta * ix - dxi * iy) * / (/ 2 * (iz * iz) * Cc) * - (1 * / 2 * ix * iz * Cc)) -
               1 * / (a * (1 - q)) * (xi + 1 * / 2 * iy * (eta * ix - xi * iy) -
                 1 * / 2 * iz * (eta * ix - xi * iy) * / (/ 2 * (iz * iz) * Cc) * (1 * / 2 * iy * iz * Cc)) = k).
  { transitivity (s1 * u * (clp - q * w * k) - u * (clp + p * w * h - k));
      [ unfold deta, dxi, xi, eta, Cc, u; rewrite <- Han; field; repeat split; lra
      | exact (kback h k p q clp slp s1 w u Hcs Hq Hp Hs1 Hw Hu) ]. }
  assert (Eh : Cc * / mu * (- (dxi + 1 * / 2 * iy * (deta * ix - dxi * iy)) +
                 1 * / 2 * iz * (deta * ix - dxi * iy) * / (/ 2 * (iz * iz) * Cc) * (1 * / 2 * iy * iz * Cc)) -
               1 * / (a * (1 - q)) * (eta - 1 * / 2 * ix * (eta * ix - xi * iy) -
                 1 * / 2 * iz * (eta * ix - xi * iy) * / (/ 2 * (iz * iz) * Cc) * - (1 * / 2 * ix * iz * Cc)) = h).
  { transitivity (s1 * u * (slp - q * w * h) - u * (slp - p * w * k - h));
      [ unfold deta, dxi, xi, eta, Cc, u; rewrite <- Han; field; repeat split; lra
      | exact (hback h k p q clp slp s1 w u Hcs Hq Hp Hs1 Hw Hu) ]. }
  rewrite Ek, Eh.
  assert (Es : sqrt (1 - (k * k + h * h)) = s1).
  { replace (1 - (k * k + h * h)) with (s1 * s1) by (rewrite Hs1; ring). apply sqrt_square. lra. }
  rewrite Es.
  eexists. split.
  - apply list6_eq; [ | reflexivity | reflexivity | reflexivity | | ].
    + transitivity (Cc * Cc * / (mu * (s1 * s1))).
      * f_equal; [|f_equal; f_equal; rewrite Hs1; ring].
        transitivity (Cc * Cc * (1 + /4 * sI * (iz * iz - (4 - ix * ix - iy * iy)))); [unfold sI, Cc; field | rewrite Hiz; ring].
      * unfold Cc. rewrite <- Han. field. repeat split; lra.
    + field. split; lra.
    + field. split; lra.
  - match goal with |- cong (l_atan2 L2 ?n1 ?n2 - ?c) _ =>
      assert (E1 : n1 = Cc * sin (lam + p));
      [ | assert (E2 : n2 = Cc * cos (lam + p)); [ | assert (E3 : c = p) ] ] end.
    + transitivity (a * an * (slp - q * w * h - k * p * w));
        [ unfold dxi, deta, Cc, u, w; field; repeat split; lra
        | rewrite (lam_sin h k p q clp slp s1 w u Hcs Hq Hp Hs1 Hw Hu); unfold Cc, slp; ring ].
    + transitivity (a * an * (clp - q * w * k + h * p * w));
        [ unfold dxi, deta, Cc, u, w; field; repeat split; lra
        | rewrite (lam_cos h k p q clp slp s1 w u Hcs Hq Hp Hs1 Hw Hu); unfold Cc, clp; ring ].
    + unfold Cc. field. repeat split; lra.
    + rewrite E1, E2, E3.
      eapply cong_trans; [apply cong_minus; [apply (Hatan2 Cc (lam + p) HCc) | apply cong_refl] | apply cong_eq; ring].
Qed.
(* the same for reb_particle_from_pal itself: whenever the (p, q) returned by reb_tools_solve_kepler_pal is a zero of
   Pal's Kepler system (f0, f1) *)
Lemma pal_roundtrip_solved : forall G prim m a lam k h ix iy p q,
  0 < a -> 0 < G * (m + pm prim) -> h*h + k*k < 1 -> ix*ix + iy*iy < 4 ->
  l_sin L = sin -> l_cos L = cos ->
  solve_kepler_pal RNum L L2 h k lam = (p, q) ->
  q * cos p + p * sin p - (k * cos lam + h * sin lam) = 0 ->
  - q * sin p + p * cos p - (k * sin lam - h * cos lam) = 0 ->
  exists lam', particle_to_pal RNum L2 G (from_pal RNum L L2 G prim m a lam k h ix iy) prim = [a; lam'; k; h; ix; iy]
               /\ cong lam' lam.
Proof.
  intros G prim m a lam k h ix iy p q Ha Hmu He Hi Hs Hc Hsol F0 F1.
  unfold from_pal. rewrite Hsol.
  destruct (pal_system_forms h k lam p q F0 F1) as [Hq Hp].
  apply pal_roundtrip; try assumption; [rewrite Hs | rewrite Hc]; reflexivity.
Qed.
End PalRT.
