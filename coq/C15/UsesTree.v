(* C15: "is the spatial tree in use" as ONE definition, tied to every decision site of the C code (regenerated
   by tools/translate_usestree.py into Gen/UsesTree.v).  Definitions + the finite-domain check. *)
From Coq Require Import ZArith List Bool String.
From RV Require Import Gen.UsesTree.
Import ListNotations.
Open Scope Z_scope.

(* the model: the tree is maintained iff a module that walks it is selected *)
Definition uses_tree (gravity collision : Z) : bool :=
  (gravity =? GRAVITY_TREE) || (collision =? COLLISION_TREE) || (collision =? COLLISION_LINETREE).

Fixpoint ceval (c : tcond) (g k : Z) (pending root : bool) : bool :=
  match c with
  | CGrav v => g =? v
  | CColl v => k =? v
  | CPending => pending
  | CRoot => root
  | COr a b => ceval a g k pending root || ceval b g k pending root
  | CAnd a b => ceval a g k pending root && ceval b g k pending root
  end.

Definition all_modes : list (Z * Z) :=
  flat_map (fun g => map (fun k => (snd g, snd k)) collision_values) gravity_values.
Definition bools : list bool := [false; true].

(* a 'maintain' site: its condition IS uses_tree, whatever the flags *)
Definition site_maintain_ok (s : string * tcond) : bool :=
  forallb (fun gk => forallb (fun p => forallb (fun r =>
     Bool.eqb (ceval (snd s) (fst gk) (snd gk) p r) (uses_tree (fst gk) (snd gk))) bools) bools) all_modes.
(* the step: uses_tree, or an update is pending *)
Definition site_pending_ok (s : string * tcond) : bool :=
  forallb (fun gk => forallb (fun p => forallb (fun r =>
     Bool.eqb (ceval (snd s) (fst gk) (snd gk) p r) (p || uses_tree (fst gk) (snd gk))) bools) bools) all_modes.
(* gravity data are refreshed exactly when tree gravity is selected and the tree exists *)
Definition site_gravdata_ok (s : string * tcond) : bool :=
  forallb (fun gk => forallb (fun p => forallb (fun r =>
     Bool.eqb (ceval (snd s) (fst gk) (snd gk) p r) (r && (fst gk =? GRAVITY_TREE))) bools) bools) all_modes.
(* every module that walks tree_root is covered by uses_tree, and uses_tree selects nothing else *)
Definition consumers_ok : bool :=
  forallb (fun gk => Bool.eqb (uses_tree (fst gk) (snd gk))
                       (existsb (Z.eqb (fst gk)) gravity_consumers || existsb (Z.eqb (snd gk)) collision_consumers)) all_modes.

Definition all_sites_agree : bool :=
  forallb site_maintain_ok sites_maintain && forallb site_pending_ok sites_maintain_or_pending &&
  forallb site_gravdata_ok sites_gravity_data && consumers_ok &&
  Nat.leb 3 (List.length sites_maintain) && Nat.eqb (List.length sites_maintain_or_pending) 2.
