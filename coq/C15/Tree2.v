(* C15 round 2, definitions only: canonical PR-octree (specification), tie-freeness, forest of root cells. *)
From Coq Require Import ZArith List Bool.
From RV Require Import Common.Num C15.Tree.
Import ListNotations.
Open Scope Z_scope.

Section Canon.
Variable u : Z.
Variable pos : nat -> P3.

Definition in_oct (c : P3) (o : nat) (q : nat) : bool := Nat.eqb (octant c (pos q)) o.

(* t is THE PR-octree of the particle list S in the cell (l, c):  empty -> NULL, one particle -> leaf,
   otherwise a node with |S| particles whose child o is the PR-octree of the particles of S that the code's
   comparisons (octant) send to o.  At level 0 two particles cannot be separated (no such tree). *)
Fixpoint iscanon (l : nat) (c : P3) (S : list nat) (t : option cell) {struct l} : Prop :=
  match S with
  | [] => t = None
  | [p] => t = Some (Leaf p)
  | _ :: _ :: _ =>
      match l with
      | O => False
      | S l' => exists oct, t = Some (Node (Z.of_nat (length S)) oct) /\ length oct = 8%nat /\
                forall o, (o < 8)%nat -> iscanon l' (childc u c l' o) (filter (in_oct c o) S) (nth o oct None)
      end
  end.

(* no particle below a node lies on one of the three centre planes of that node *)
Definition offplanes (c p : P3) : Prop :=
  let '(cx, cy, cz) := c in let '(px, py, pz) := p in px <> cx /\ py <> cy /\ pz <> cz.
Fixpoint notie (l : nat) (c : P3) (t : cell) {struct l} : Prop :=
  match t with
  | Leaf _ => True
  | Node _ oct =>
      match l with
      | O => True
      | S l' => (forall p, In p (leaves t) -> offplanes c (pos p)) /\
                forall o d, nth_error oct o = Some (Some d) -> notie l' (childc u c l' o) d
      end
  end.

(* ---- forest of root cells (array tree_root[N_root]) ---- *)
Variables nx ny nz : Z.
Variable L : nat.                                   (* level of a root cell: half-width hw u L = root_size/2 *)
Definition hroot : Z := hw u L.
Definition nroot : nat := Z.to_nat (nx * ny * nz).
(* centre of the root cell in slot ri = (k*ny + j)*nx + i *)
Definition rootc_slot (ri : nat) : P3 :=
  let r := Z.of_nat ri in
  (root_centre hroot nx (r mod nx), root_centre hroot ny ((r / nx) mod ny), root_centre hroot nz (r / nx / ny)).
(* the particle is in the CLOSED box (reb_boundary_particle_is_in_box); since /repo da62396 the upper border is handled *)
Definition inbox (p : P3) : Prop :=
  let '(x, y, z) := p in
  - (nx * hroot) <= x <= nx * hroot /\ - (ny * hroot) <= y <= ny * hroot /\ - (nz * hroot) <= z <= nz * hroot.
(* geometry of a NEW root cell as reb_tree_add_particle_to_cell computes it from the particle *)
Definition rootc_new (p : P3) : P3 :=
  let '(x, y, z) := p in
  (root_centre hroot nx (root_idx_new hroot nx x), root_centre hroot ny (root_idx_new hroot ny y),
   root_centre hroot nz (root_idx_new hroot nz z)).
Definition slot_of (p : P3) : nat := Z.to_nat (rootbox hroot nx ny nz p).

(* reb_tree_add_particle_to_tree *)
Definition fadd (f : list (option cell)) (pt : nat) : option (list (option cell)) :=
  let ri := slot_of (pos pt) in
  match add u pos L (rootc_new (pos pt)) (nth ri f None) pt with
  | None => None
  | Some t => Some (upd f ri (Some t))
  end.
Fixpoint fbuild (f : list (option cell)) (pts : list nat) : option (list (option cell)) :=
  match pts with
  | [] => Some f
  | p :: r => match fadd f p with None => None | Some f' => fbuild f' r end
  end.
Definition wf_forest (f : list (option cell)) : Prop :=
  length f = nroot /\
  forall ri t, nth_error f ri = Some (Some t) ->
    wf u pos L (rootc_slot ri) t /\ forall p, In p (leaves t) -> slot_of (pos p) = ri.
Definition fleaves (f : list (option cell)) : list nat := flat_map oleaves f.
End Canon.

(* ---- the update walk restricted to 'only flagged removals' (functional, leaves carry particle identities) ----
   reb_simulation_update_tree_cell when every unflagged particle is still inside its cell: a flagged leaf is freed,
   a node left with 0 particles is freed, a node left with 1 particle becomes that leaf (derefinement), otherwise
   its count is recomputed.  Children are processed first (bottom-up), in octant order. *)
Section Prune.
Variable flagged : nat -> bool.
Fixpoint prune (t : cell) : option cell :=
  match t with
  | Leaf p => if flagged p then None else Some t
  | Node _ oct =>
      let oct' := map (fun o => match o with None => None | Some d => prune d end) oct in
      match flat_map oleaves oct' with
      | [] => None
      | [p] => Some (Leaf p)
      | ls => Some (Node (Z.of_nat (length ls)) oct')
      end
  end.
End Prune.

(* particles[oldpos] = particles[N-1]; N--  on the array of particle identities *)
Fixpoint unsnoc_n (l : list nat) : option (list nat * nat) :=
  match l with
  | [] => None
  | x :: r => match unsnoc_n r with None => Some ([], x) | Some (m, q) => Some (x :: m, q) end
  end.
Fixpoint swap_remove (arr : list nat) (r : nat) : list nat :=
  match arr with
  | [] => []
  | a :: rest =>
      if Nat.eqb a r then match unsnoc_n rest with None => [] | Some (mid, q) => q :: mid end
      else a :: swap_remove rest r
  end.

Fixpoint relabel (s : nat -> nat) (t : cell) : cell :=
  match t with
  | Leaf p => Leaf (s p)
  | Node n oct => Node n (map (fun o => match o with None => None | Some d => Some (relabel s d) end) oct)
  end.
