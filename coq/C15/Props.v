(* C15 property theorems ONLY (each closed by an already proved lemma) + assumptions.
   Models: C15/Boundary.v (src/boundary.c), C15/Tree.v (src/tree.c: functional PR-octree, dump checker, gravity data). *)
From Coq Require Import ZArith List Bool Reals Permutation.
From RV Require Import Common.Num Common.RealNum C15.Boundary C15.Tree C15.Tree2 C15.Update C15.BoundaryProofs C15.TreeProofs C15.GravityProofs
  C15.CanonProofs C15.ForestProofs C15.UpdateProofs C15.PruneProofs Gen.UsesTree C15.UsesTree
  C15.PathModel C15.PathSpec C15.PathRun C15.PathProofsC C15.PathProofsI C15.PathGeoProofs Gen.TreeOrder C15.TreeOrder.
Import ListNotations.

(* Periodic wrap of one coordinate (both C while-loops), any box length L>0, any x: once the fuel covers |x|/L the
   loops have exited by themselves (both guards false), the result lies in [-L/2, L/2] and differs from x by a whole
   number of box lengths: velocities crossing several boxes per step are covered. *)
Theorem C15_periodic_wrap : forall fuel L x, (0 < L)%R -> (Rabs x <= INR fuel * L)%R ->
  let r := wrap_periodic RNum fuel L x in
  (- L / 2 <= r <= L / 2)%R /\ wrapped RNum L r = true /\ exists k : Z, (r = x - IZR k * L)%R.
Proof. exact periodic_wrap. Qed.
Print Assumptions C15_periodic_wrap.

Theorem C15_periodic_count : forall fuel bx b_y bz (ps : list (R * R * R)),
  length (periodic_all RNum fuel bx b_y bz ps) = length ps.
Proof. exact periodic_count. Qed.
Print Assumptions C15_periodic_count.

(* Shear-periodic wrap: x ends in the box having changed by k box lengths, vy changes by exactly k * 3/2 OMEGA Lx,
   y receives k times the azimuthal offset of the crossed edge (offsetp1 / offsetm1: fmod oracle arguments) and is
   wrapped by whole box lengths, z is wrapped periodically. *)
Theorem C15_shear_wrap : forall fuel bx b_y bz op1 om1 omega x y z vy,
  (0 < bx)%R -> (0 < b_y)%R -> (0 < bz)%R ->
  (Rabs x <= INR fuel * bx)%R -> (Rabs y + INR fuel * (Rabs op1 + Rabs om1) <= INR fuel * b_y)%R -> (Rabs z <= INR fuel * bz)%R ->
  exists (k : Z) (j : Z) (l : Z),
    let '(x', y', z', vy') := shear_particle RNum fuel bx b_y bz op1 om1 omega (x, y, z, vy) in
    (x' = x - IZR k * bx /\ - bx / 2 <= x' <= bx / 2 /\
    vy' = vy + IZR k * (3 / 2 * omega * bx) /\
    y' = y + (if (0 <=? k)%Z then IZR k * op1 else IZR (- k) * om1) - IZR j * b_y /\ - b_y / 2 <= y' <= b_y / 2 /\
    z' = z - IZR l * bz /\ - bz / 2 <= z' <= bz / 2)%R.
Proof. exact shear_wrap. Qed.
Print Assumptions C15_shear_wrap.

(* Open boundaries without a tree: the removal loop (last particle moved into the hole and re-examined: the i--)
   leaves exactly the particles inside the box, as a rearrangement; none of the survivors is outside. *)
Theorem C15_open_removes_exactly : forall (A : Type) (out : A -> bool) ps,
  let r := check_open out (length ps) [] ps in
  Permutation r (filter (keep out) ps) /\ length r = length (filter (keep out) ps) /\ Forall (fun p => out p = false) r.
Proof. intros A out ps. exact (open_removes_exactly out ps). Qed.
Print Assumptions C15_open_removes_exactly.

(* Open boundaries with a tree: exactly the outside particles are flagged (y = NaN), count and order unchanged
   (they are removed by the next tree update). *)
Theorem C15_open_tree_flags : forall (A : Type) (out : A -> bool) (flag : A -> A) ps,
  length (check_open_tree out flag ps) = length ps /\
  forall i p, nth_error ps i = Some p -> nth_error (check_open_tree out flag ps) i = Some (if out p then flag p else p).
Proof. intros A out flag ps. exact (open_tree_flags out flag ps). Qed.
Print Assumptions C15_open_tree_flags.

(* Tree insertion (reb_tree_add_particle_to_cell): in a well-formed tree (every leaf's particle inside its closed
   cell, every node's count = number of leaves below >= 2, 8 children with halved geometry) inserting a particle
   that lies in the cell yields a well-formed tree whose leaves are the old leaves plus the new particle. *)
Theorem C15_insert_wf : forall u pos l c node p t',
  owf u pos l c node -> inside u l c (pos p) -> add u pos l c node p = Some t' ->
  wf u pos l c t' /\ Permutation (leaves t') (p :: oleaves node).
Proof. exact insert_wf. Qed.
Print Assumptions C15_insert_wf.

(* Every particle exactly once: inserting distinct indices into an empty cell gives a leaf list without
   repetition containing exactly those indices. *)
Theorem C15_each_once : forall u pos pts l c r,
  NoDup pts -> Forall (fun p => inside u l c (pos p)) pts -> build u pos l c None pts = Some r ->
  NoDup (oleaves r) /\ (forall p, In p (oleaves r) <-> In p pts) /\ length (oleaves r) = length pts.
Proof. exact each_once. Qed.
Print Assumptions C15_each_once.

(* Root boxes (with the clamp of /repo da62396): a particle in the CLOSED box is put into the root box whose cell contains
   it; slot index and geometry index agree; the upper border x = +boxsize/2 belongs to the last root box. *)
Theorem C15_root_inside : forall h n x, (0 < h)%Z -> (0 < n)%Z -> (- (n * h) <= x <= n * h)%Z ->
  root_idx h n x = root_idx_new h n x /\ (0 <= root_idx h n x < n)%Z /\
  (Z.abs (x - root_centre h n (root_idx h n x)) <= h)%Z.
Proof. exact root_inside_1d. Qed.
Print Assumptions C15_root_inside.
Theorem C15_root_upper_border_last : forall h n, (0 < h)%Z -> (0 < n)%Z -> root_idx h n (n * h) = (n - 1)%Z.
Proof. exact root_upper_border_last. Qed.
Print Assumptions C15_root_upper_border_last.

(* Cell masses and centres of mass are the sums over the cell's contents (non-negative masses; also when the
   total mass is 0 and the division is skipped). *)
Theorem C15_gravity_data_sums : forall part t, (forall p, In p (leaves t) -> (0 <= pm part p)%R) ->
  good part (leaves t) (gdata RNum part t).
Proof. exact gravity_data_sums. Qed.
Print Assumptions C15_gravity_data_sums.

(* Soundness of the executable checker run on dumps of the library's tree: if it answers true, every dumped root
   cell is well formed (stored geometry = geometry implied by the position in the tree, leaves inside their cells,
   counts exact and >= 2) and the leaves of the forest are exactly the particle indices 0..N-1, each once. *)
Theorem C15_wf_b_sound : forall u pos L N roots, forest_b u pos L N roots = true ->
  Forall (fun cd => wf u pos L (fst cd) (erase (snd cd)) /\ dgeom u L (fst cd) (snd cd)) roots /\
  Permutation (flat_map (fun cd => leaves (erase (snd cd))) roots) (seq 0 N).
Proof. exact forest_b_sound. Qed.
Print Assumptions C15_wf_b_sound.

(* ===== round 2 ===== *)

(* Canonical shape, insertion-order independence (exact arithmetic): two insertion orders of the same particle set
   into an empty cell give the SAME tree (no hypothesis beyond both insertions succeeding, i.e. pairwise distinct
   positions within the resolution). *)
Theorem C15_build_order_independent : forall u pos l c pts pts' r r', Permutation pts pts' ->
  build u pos l c None pts = Some r -> build u pos l c None pts' = Some r' -> r = r'.
Proof. exact build_order_independent. Qed.
Print Assumptions C15_build_order_independent.

(* Every well-formed tree without a particle on a centre plane of a node above it IS the canonical PR-octree of its
   leaves ([iscanon]: empty -> NULL, one particle -> leaf, else node whose child o is the canonical tree of the
   particles the code's comparisons send to octant o). *)
Theorem C15_wf_canonical : forall u pos l c t, wf u pos l c t -> notie u pos l c t -> iscanon u pos l c (leaves t) (Some t).
Proof. exact wf_canon. Qed.
Print Assumptions C15_wf_canonical.

(* Hence the shape is determined by the particle set and the root geometry: two well-formed tie-free trees over the
   same particles are equal, and a well-formed tie-free tree (e.g. the library's tree when the checker accepts it)
   equals the tree built by fresh insertion in ANY order: the harness' comparison rests on this theorem. *)
Theorem C15_canonical_unique : forall u pos l c t1 t2, wf u pos l c t1 -> notie u pos l c t1 -> wf u pos l c t2 -> notie u pos l c t2 ->
  Permutation (leaves t1) (leaves t2) -> t1 = t2.
Proof. exact canonical_unique. Qed.
Print Assumptions C15_canonical_unique.
Theorem C15_wf_is_fresh_build : forall u pos l c t pts r, wf u pos l c t -> notie u pos l c t -> Permutation (leaves t) pts ->
  build u pos l c None pts = Some r -> r = Some t.
Proof. exact wf_is_fresh_build. Qed.
Print Assumptions C15_wf_is_fresh_build.

(* Forest level (reb_tree_add_particle_to_tree with reb_get_rootbox_for_particle, flattened slot (k*Ny+j)*Nx+i):
   inserting a particle of the (closed) box keeps every root cell well formed w.r.t. the geometry of its slot, keeps
   every particle in the slot its coordinates select, and adds exactly that particle. *)
Theorem C15_forest_insert_wf : forall u pos nx ny nz L, (0 < u)%Z -> (0 < nx)%Z -> (0 < ny)%Z -> (0 < nz)%Z ->
  forall f p f', wf_forest u pos nx ny nz L f -> inbox u nx ny nz L (pos p) -> fadd u pos nx ny nz L f p = Some f' ->
  wf_forest u pos nx ny nz L f' /\ Permutation (fleaves f') (p :: fleaves f).
Proof. exact fadd_wf. Qed.
Print Assumptions C15_forest_insert_wf.

(* ... and building the whole forest from distinct particle indices puts every particle in exactly one leaf. *)
Theorem C15_forest_each_once : forall u pos nx ny nz L, (0 < u)%Z -> (0 < nx)%Z -> (0 < ny)%Z -> (0 < nz)%Z ->
  forall pts f, NoDup pts -> Forall (fun p => inbox u nx ny nz L (pos p)) pts ->
  fbuild u pos nx ny nz L (repeat None (nroot nx ny nz)) pts = Some f ->
  wf_forest u pos nx ny nz L f /\ NoDup (fleaves f) /\ Permutation (fleaves f) pts.
Proof. exact forest_each_once. Qed.
Print Assumptions C15_forest_each_once.

(* In-place update, HEAP model (cells with ids, particles with back pointers; swap-removal, re-insertion during the
   walk, derefinement: coq/C15/Update.v, compared with reb_simulation_update_tree on pre/post dumps).  Sub-case 'no
   particle left its cell' (none flagged, counts and back pointers exact): the walk returns the same cell and changes
   nothing at all in the heap (tree, particle array, N); for the whole array of roots. *)
Theorem C15_update_stable_identity : forall u nx ny nz L box l st id, stable u l st id ->
  hupdate u nx ny nz L box l st (Some id) = (st, Some id).
Proof. exact hupdate_stable. Qed.
Print Assumptions C15_update_stable_identity.
Theorem C15_update_tree_stable_identity : forall u nx ny nz L box st,
  (forall i id, nth_error (hroots st) i = Some (Some id) -> stable u L st id) -> hupdate_tree u nx ny nz L box st = st.
Proof. exact hupdate_tree_stable. Qed.
Print Assumptions C15_update_tree_stable_identity.

(* Sub-case 'only flagged removals', FUNCTIONAL model of the walk (leaves carry particle identities; flagged leaf
   freed, node with 0 particles freed, with 1 particle derefined; array: particles[oldpos] = particles[N-1]): the
   result is the well-formed tree of the survivors with the leaves in the same order, the array holds exactly the
   survivors once each ... *)
Theorem C15_flagged_removal : forall u pos flagged l c t arr, wf u pos l c t -> NoDup arr -> Permutation arr (leaves t) ->
  let arr' := fold_left swap_remove (filter flagged (leaves t)) arr in
  owf u pos l c (prune flagged t) /\ oleaves (prune flagged t) = filter (fun p => negb (flagged p)) (leaves t) /\
  Permutation arr' (oleaves (prune flagged t)) /\ NoDup arr' /\
  (length arr' + length (filter flagged (leaves t)) = length arr)%nat.
Proof. exact flagged_removal. Qed.
Print Assumptions C15_flagged_removal.

(* ... and with every leaf holding the index of its particle in the NEW array (what the back-pointer fix-up
   c->pt = oldpos maintains) the tree is well formed w.r.t. the new array and its leaves are exactly 0..N'-1. *)
Theorem C15_flagged_removal_indices : forall u pos flagged l c t arr t', wf u pos l c t -> NoDup arr -> Permutation arr (leaves t) ->
  prune flagged t = Some t' ->
  let arr' := fold_left swap_remove (filter flagged (leaves t)) arr in
  let pos' := fun i => pos (nth i arr' 0%nat) in
  wf u pos' l c (relabel (idx arr') t') /\ Permutation (leaves (relabel (idx arr') t')) (seq 0 (length arr')).
Proof. exact flagged_removal_indices. Qed.
Print Assumptions C15_flagged_removal_indices.

(* Centre of mass = mass-weighted mean of the contents for every cell of positive mass, and the pass over the whole
   array of root cells (reb_simulation_update_tree_gravity_data).  The quadrupole members exist only under
   #ifdef QUADRUPOLE, which the library build does not define: not modelled. *)
Theorem C15_gravity_com_mean : forall part t, (forall p, In p (leaves t) -> (0 <= pm part p)%R) -> (0 < Sum (pm part) (leaves t))%R ->
  let '(m, mx, my, mz) := gdata RNum part t in
  (m = Sum (pm part) (leaves t) /\
  mx = Sum (fun p => pm part p * GravityProofs.px part p) (leaves t) / Sum (pm part) (leaves t) /\
  my = Sum (fun p => pm part p * py part p) (leaves t) / Sum (pm part) (leaves t) /\
  mz = Sum (fun p => pm part p * pz part p) (leaves t) / Sum (pm part) (leaves t))%R.
Proof. exact gravity_com_mean. Qed.
Print Assumptions C15_gravity_com_mean.
Theorem C15_gravity_forest : forall part (f : list (option cell)),
  (forall t p, In (Some t) f -> In p (leaves t) -> (0 <= pm part p)%R) ->
  Forall (fun o => match o with None => True | Some t => good part (leaves t) (gdata RNum part t) end) f.
Proof. exact gravity_forest. Qed.
Print Assumptions C15_gravity_forest.

(* ===== round 3: one predicate "the tree is in use" for every decision site =====
   Regenerated from the current source (Gen/UsesTree.v): the conditions of reb_input_fields (rebuild after restore/copy),
   reb_simulation_add_local_store (insert, also the re-insertion of the tree update), reb_simulation_move_to_com (update) ARE uses_tree for every gravity/collision mode and
   every flag value; the step's condition is (tree_needs_update || uses_tree); gravity data are refreshed iff the tree exists
   and tree gravity is selected; and uses_tree selects exactly the modules whose loops walk tree_root (collision TREE and
   LINETREE, gravity TREE).  A site that drops an alternative makes this false. *)
Theorem C15_uses_tree_sites_agree : all_sites_agree = true.
Proof. vm_compute. reflexivity. Qed.
Print Assumptions C15_uses_tree_sites_agree.
Theorem C15_uses_tree_spec : forall s, In s sites_maintain ->
  forall g k, In (g, k) all_modes -> forall p r, ceval (snd s) g k p r = uses_tree g k.
Proof.
  intros s Hs g k Hgk p r. pose proof C15_uses_tree_sites_agree as H. unfold all_sites_agree in H.
  do 5 (apply andb_prop in H; destruct H as [H _]).
  rewrite forallb_forall in H. specialize (H s Hs). unfold site_maintain_ok in H.
  rewrite forallb_forall in H. specialize (H (g, k) Hgk). cbn [fst snd] in H.
  rewrite forallb_forall in H. assert (Hp : In p bools) by (destruct p; cbn; auto). specialize (H p Hp).
  rewrite forallb_forall in H. assert (Hr : In r bools) by (destruct r; cbn; auto). specialize (H r Hr).
  apply Bool.eqb_prop in H. exact H.
Qed.
Print Assumptions C15_uses_tree_spec.

(* The resolution limit of the model, in terms of root_size.  A level-0 cell has width 2u and cannot be split; the root cell is at
   level L, root_size = 2u * 2^L.  If every coordinate is a multiple of a grid spacing g with 2u < g, i.e.
   g > root_size / 2^L, then a particle that lies in the cell and differs from every resident in at least one coordinate is
   ACCEPTED by the insertion (never stopped by the resolution, never taken for a coincident particle).  The harness instantiates
   L per case from the binary64 inputs (every coordinate a multiple of 2^12 units, u < 2^11): for binary64 the limit is reached
   only when two coordinates differ by less than root_size / 2^L with L up to about 1074 + log2(root_size) (subnormals).  This
   is the expectation against which the 'near' histories judge the library: distinct particles, however close, are accepted
   and accounted for. *)
Theorem C15_insert_accepts_distinct : forall u pos g, (2 * u < g)%Z -> forall l c node p,
  owf u pos l c node -> inside u l c (pos p) -> ongrid g (pos p) ->
  (forall q, In q (oleaves node) -> ongrid g (pos q) /\ pos q <> pos p) ->
  exists t', add u pos l c node p = Some t'.
Proof. exact add_no_exhaustion. Qed.
Print Assumptions C15_insert_accepts_distinct.

(* ===== round 4: the in-place update in general (particles leaving cells, re-insertion from the root DURING the walk) =====
   PATH model (C15/PathModel.v: cells = paths, particles carry their back pointer, leaves hold indices, the fix-up
   particles[oldpos].c->pt = oldpos is an explicit write; compared with reb_simulation_update_tree on pre/post dumps).
   Abstract theorem: for ANY inside test [ins] and octant choice [octf] such that (Hroute) a particle that passes the test of a
   cell passes the test of the child its octant comparisons choose, (Hup) inside a child implies inside the parent, and
   the octant/slot values are in range: if before the update every particle index < N sits in exactly one leaf with an exact
   back pointer (flagged particles and particles that left their cells included), then after reb_simulation_update_tree
   (when the integer resolution is not exhausted; a refused re-insertion -- identical coordinates -- is part of the model) every index < N' sits in exactly one leaf with an
   exact back pointer (the fix-up is correct: leaf index = position of its particle), and every root cell is completely in
   order (every leaf's particle passes the inside test of its cell, counts exact and >= 2, 8 children). *)
Theorem C15_update_tree_accounted : forall (X : Type) (xd : X) ins octf same flg L nroot (okx : X -> Prop),
  (forall p x, p <> [] -> (octf p x < 8)%nat) ->
  (forall x, okx x -> ins [] x = true -> (octf [] x < nroot)%nat) ->
  (forall p x, okx x -> (length p <= L)%nat -> ins p x = true -> ins (p ++ [octf p x]) x = true) ->
  (forall p o x, p <> [] -> (length p <= L)%nat -> ins (p ++ [o]) x = true -> ins p x = true) ->
  forall n0 roots P N st',
  pupdate_tree X xd ins octf same flg L nroot (mkS X (Some (Node n0 roots)) P N) = Some st' ->
  Acc X xd (mkS X (Some (Node n0 roots)) P N) -> Pok X xd okx P -> length roots = nroot ->
  (forall ri, free (nth ri roots None)) ->
  Acc X xd st' /\ Pok X xd okx (sP X st') /\
  exists n1 roots', sF X st' = Some (Node n1 roots') /\ length roots' = nroot /\
                    forall ri, full X xd ins L (sP X st') (nth ri roots' None) [ri].
Proof. exact update_tree_accounted. Qed.
Print Assumptions C15_update_tree_accounted.

(* The instance with the exact integer geometry (the executable model that is compared with the library).  Hypotheses
   now needed: exact arithmetic (Hroute/Hup are THEOREMS there: child_inside, inside_child_parent -- this is where the
   remaining open finding tree:cell_centre_rounding is excluded: in binary64 a rounded cell centre breaks Hroute by one
   ulp), an accounted pre-state whose cells have 8 children, and a run that does not stop at the resolution limit of the
   integer grid (result Some; the ONLY None left in PathModel.padd/pupd besides a back pointer that does not point to a leaf).
   'Cannot add two particles with the same coordinates' is no longer excluded: since /repo 950a4b2 it is modelled (the
   re-insertion is refused, tree and N unchanged, the particle that moved onto another one is dropped) and covered by the theorem.  The half-open-box hypothesis (okx) is GONE: since /repo da62396 the upper box border is routed to
   the last root box, whose closed cell contains it (C15_root_inside for the closed box), so okx holds for every particle.
   No tie/strictness hypothesis is needed for well-formedness (ties only matter for uniqueness, C15_canonical_unique). *)
Theorem C15_update_tree_wf : forall u nx ny nz L, (0 < u)%Z -> (0 < nx)%Z -> (0 < ny)%Z -> (0 < nz)%Z ->
  forall n0 roots P N st',
  g_update u nx ny nz L (mkS XP (Some (Node n0 roots)) P N) = Some st' ->
  Acc XP xd0 (mkS XP (Some (Node n0 roots)) P N) ->
  length roots = Z.to_nat (nx * ny * nz) -> (forall ri, free (nth ri roots None)) ->
  Acc XP xd0 st' /\
  exists n1 roots', sF XP st' = Some (Node n1 roots') /\ length roots' = Z.to_nat (nx * ny * nz) /\
    forall ri t, nth ri roots' None = Some t ->
      wf u (fun i => fst (px XP xd0 (sP XP st') i)) L (rootc_slot u nx ny nz L ri) t.
Proof. exact update_tree_wf. Qed.
Print Assumptions C15_update_tree_wf.

(* ===== the ORDER boundary check -> tree update (regenerated call orders, Gen/TreeOrder.v) =====
   In reb_simulation_step (both pairs, and the collision search that follows the second pair and starts with a tree update) and
   in reb_simulation_move_to_com, every reb_simulation_update_tree is applied to a state in which all particles went through
   reb_boundary_check since they last moved: this is the precondition under which the re-insertion of C15_update_tree_wf is
   never refused for a periodic/shear box (refusal = the particle is dropped after N was decremented).  Swapping the two
   calls at any of the sites makes this false. *)
Theorem C15_tree_update_after_boundary_check : step_ok = true /\ move_to_com_ok = true /\ search_only_updates = true.
Proof. vm_compute. repeat split; reflexivity. Qed.
Print Assumptions C15_tree_update_after_boundary_check.

(* REFUTED for the encounter steps of MERCURIUS and TRACE: they call reb_collision_search (hence, with collision = tree or
   linetree, the tree update) after moving particles, without a boundary check, and while r->particles points to the
   encounter subset: finding tree:hybrid_integrator_tree_collision (particles silently lost / endless loop). *)
Theorem C15_tree_update_order_hybrid_refuted : hybrid_ok = false.
Proof. vm_compute. reflexivity. Qed.
Print Assumptions C15_tree_update_order_hybrid_refuted.

(* Non-vacuity: three particles in a cell of level 3 (half-width 8) around the origin, two of them in the same
   octant two levels deep: the insertions succeed, the result is a node of 3 whose leaf list is [2;1;0]-permuted,
   and the checker accepts the corresponding dump-free tree (wf by insert_wf). *)
Example C15_hypotheses_inhabited :
  let pos := fun i : nat => nth i [(1, 1, 1); (3, 1, 1); (-5, 2, 2)]%Z (0, 0, 0)%Z in
  exists t, build 1 pos 3 (0, 0, 0)%Z None [0; 1; 2]%nat = Some (Some t) /\
            length (leaves t) = 3%nat /\ Forall (fun p => inside 1 3 (0, 0, 0)%Z (pos p)) [0; 1; 2]%nat /\
            (exists n oct, t = Node n oct /\ n = 3%Z).
Proof.
  eexists. split; [vm_compute; reflexivity|]. split; [reflexivity|]. split.
  - repeat constructor; vm_compute; discriminate.
  - eexists; eexists; split; reflexivity.
Qed.
