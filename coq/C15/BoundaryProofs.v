(* C15: theorems about the boundary model over the reals. *)
From Coq Require Import ZArith List Bool Reals Lra Lia Permutation.
From RV Require Import Common.Num Common.RealNum C15.Boundary.
Import ListNotations.
Open Scope R_scope.

Lemma Rltb_true a b : Rltb a b = true <-> a < b.
Proof. unfold Rltb. destruct (Rlt_dec a b); split; intros; auto; try discriminate; lra. Qed.
Lemma Rltb_false a b : Rltb a b = false <-> b <= a.
Proof. unfold Rltb. destruct (Rlt_dec a b); split; intros; auto; try discriminate; lra. Qed.

Lemma hi_R L : hi RNum L = L / 2.  Proof. reflexivity. Qed.
Lemma lo_R L : lo RNum L = - L / 2. Proof. reflexivity. Qed.

(* ---- periodic loops ---- *)
Lemma wrap_down_spec : forall fuel L x, 0 < L -> x - L / 2 <= INR fuel * L ->
  let r := wrap_down RNum fuel L x in
  r <= L / 2 /\ (exists k : nat, r = x - INR k * L /\ (k <= fuel)%nat) /\ (x <= L / 2 -> r = x) /\ (L / 2 < x -> - L / 2 < r).
Proof.
  induction fuel as [|f IH]; intros L x HL Hf; cbn [wrap_down].
  - cbn [INR] in Hf. repeat split; try lra. exists 0%nat. cbn [INR]. split; [lra|lia].
  - change (nltb RNum) with Rltb. change (nsub RNum) with Rminus. rewrite hi_R.
    destruct (Rltb (L / 2) x) eqn:E.
    + apply Rltb_true in E. rewrite S_INR in Hf.
      destruct (IH L (x - L) HL ltac:(lra)) as (A & (k & B & Bk) & C & D).
      repeat split; try lra.
      exists (S k). rewrite S_INR. split; [lra|lia].
    + apply Rltb_false in E. repeat split; try lra. exists 0%nat. cbn [INR]. split; [lra|lia].
Qed.

Lemma wrap_up_spec : forall fuel L x, 0 < L -> - L / 2 - x <= INR fuel * L ->
  let r := wrap_up RNum fuel L x in
  - L / 2 <= r /\ (exists k : nat, r = x + INR k * L /\ (k <= fuel)%nat) /\ (- L / 2 <= x -> r = x) /\ (x < - L / 2 -> r < L / 2).
Proof.
  induction fuel as [|f IH]; intros L x HL Hf; cbn [wrap_up].
  - cbn [INR] in Hf. repeat split; try lra. exists 0%nat. cbn [INR]. split; [lra|lia].
  - change (nltb RNum) with Rltb. change (nadd RNum) with Rplus. rewrite lo_R.
    destruct (Rltb x (- L / 2)) eqn:E.
    + apply Rltb_true in E. rewrite S_INR in Hf.
      destruct (IH L (x + L) HL ltac:(lra)) as (A & (k & B & Bk) & C & D).
      repeat split; try lra.
      exists (S k). rewrite S_INR. split; [lra|lia].
    + apply Rltb_false in E. repeat split; try lra. exists 0%nat. cbn [INR]. split; [lra|lia].
Qed.

(* The C loops: for every box length L>0 and every x, once the fuel covers |x|/L the result is inside the
   closed interval [-L/2, L/2] (so both C loop guards are false: the loops have exited by themselves), and it
   differs from x by a whole number of box lengths. *)
Lemma periodic_wrap : forall fuel L x, 0 < L -> Rabs x <= INR fuel * L ->
  let r := wrap_periodic RNum fuel L x in
  - L / 2 <= r <= L / 2 /\ wrapped RNum L r = true /\ exists k : Z, r = x - IZR k * L.
Proof.
  intros fuel L x HL Hf r. unfold r, wrap_periodic.
  assert (Hx : - (INR fuel * L) <= x <= INR fuel * L) by (unfold Rabs in Hf; destruct (Rcase_abs x); lra).
  destruct (wrap_down_spec fuel L x HL ltac:(lra)) as (A & (k & B & _) & C & D).
  set (y := wrap_down RNum fuel L x) in *.
  assert (Hy : - L / 2 - y <= INR fuel * L).
  { destruct (Rle_dec x (L / 2)) as [h|h]; [rewrite (C h); lra|]. assert (- L / 2 < y) by (apply D; lra).
    assert (0 <= INR fuel * L) by (apply Rmult_le_pos; [apply pos_INR|lra]). lra. }
  destruct (wrap_up_spec fuel L y HL Hy) as (A' & (k' & B' & _) & C' & D').
  set (z := wrap_up RNum fuel L y) in *.
  assert (Hz : - L / 2 <= z <= L / 2).
  { split; [exact A'|]. destruct (Rle_dec (- L / 2) y) as [h|h]; [rewrite (C' h); exact A|]. apply Rlt_le, D'. lra. }
  split; [exact Hz|]. split.
  - unfold wrapped. change (nltb RNum) with Rltb. rewrite hi_R, lo_R.
    assert (E1 : Rltb (L / 2) z = false) by (apply Rltb_false; lra).
    assert (E2 : Rltb z (- L / 2) = false) by (apply Rltb_false; lra).
    rewrite E1, E2. reflexivity.
  - exists (Z.of_nat k - Z.of_nat k')%Z. rewrite minus_IZR, <- !INR_IZR_INZ. rewrite B', B. lra.
Qed.

Lemma periodic_count : forall fuel bx b_y bz (ps : list (R * R * R)),
  length (periodic_all RNum fuel bx b_y bz ps) = length ps.
Proof. intros. unfold periodic_all. apply map_length. Qed.

(* ---- shear ---- *)
Lemma shear_down_spec : forall fuel L op dvy x y vy, 0 < L -> x - L / 2 <= INR fuel * L ->
  exists k : nat,
    shear_down RNum fuel L op dvy (x, y, vy) = (x - INR k * L, y + INR k * op, vy + INR k * dvy) /\
    (k <= fuel)%nat /\ x - INR k * L <= L / 2 /\ (x <= L / 2 -> k = 0%nat) /\ (L / 2 < x -> - L / 2 < x - INR k * L).
Proof.
  induction fuel as [|f IH]; intros L op dvy x y vy HL Hf; cbn [shear_down].
  - cbn [INR] in Hf. exists 0%nat. cbn [INR]. repeat split; try lra; try lia. f_equal; [f_equal|]; lra.
  - change (nltb RNum) with Rltb. change (nsub RNum) with Rminus. change (nadd RNum) with Rplus. rewrite hi_R.
    destruct (Rltb (L / 2) x) eqn:E.
    + apply Rltb_true in E. rewrite S_INR in Hf.
      destruct (IH L op dvy (x - L) (y + op) (vy + dvy) HL ltac:(lra)) as (k & A & Kf & B & C & D).
      exists (S k). rewrite S_INR. rewrite A. repeat split; try lra; try lia.
      * f_equal; [f_equal|]; lra.
      * intros _. destruct (Rle_dec (x - L) (L / 2)) as [h|h].
        -- rewrite (C h). cbn [INR]. lra.
        -- assert (- L / 2 < x - L - INR k * L) by (apply D; lra). lra.
    + apply Rltb_false in E. exists 0%nat. cbn [INR]. repeat split; try lra; try lia. f_equal; [f_equal|]; lra.
Qed.

Lemma shear_up_spec : forall fuel L om dvy x y vy, 0 < L -> - L / 2 - x <= INR fuel * L ->
  exists k : nat,
    shear_up RNum fuel L om dvy (x, y, vy) = (x + INR k * L, y + INR k * om, vy - INR k * dvy) /\
    (k <= fuel)%nat /\ - L / 2 <= x + INR k * L /\ (- L / 2 <= x -> k = 0%nat) /\ (x < - L / 2 -> x + INR k * L < L / 2).
Proof.
  induction fuel as [|f IH]; intros L om dvy x y vy HL Hf; cbn [shear_up].
  - cbn [INR] in Hf. exists 0%nat. cbn [INR]. repeat split; try lra; try lia. f_equal; [f_equal|]; lra.
  - change (nltb RNum) with Rltb. change (nsub RNum) with Rminus. change (nadd RNum) with Rplus. rewrite lo_R.
    destruct (Rltb x (- L / 2)) eqn:E.
    + apply Rltb_true in E. rewrite S_INR in Hf.
      destruct (IH L om dvy (x + L) (y + om) (vy - dvy) HL ltac:(lra)) as (k & A & Kf & B & C & D).
      exists (S k). rewrite S_INR. rewrite A. repeat split; try lra; try lia.
      * f_equal; [f_equal|]; lra.
      * intros _. destruct (Rle_dec (- L / 2) (x + L)) as [h|h].
        -- rewrite (C h). cbn [INR]. lra.
        -- assert (x + L + INR k * L < L / 2) by (apply D; lra). lra.
    + apply Rltb_false in E. exists 0%nat. cbn [INR]. repeat split; try lra; try lia. f_equal; [f_equal|]; lra.
Qed.

(* Shear-periodic wrap of one particle: the radial coordinate ends in [-Lx/2, Lx/2] having changed by k whole
   box lengths (k>0: crossed the outer edge k times, k<0: the inner edge); vy changed by exactly k * 3/2 OMEGA Lx;
   y received k times the azimuthal offset of that edge and is then wrapped into [-Ly/2, Ly/2] by whole box
   lengths; z is wrapped periodically. *)
Lemma shear_wrap : forall fuel bx b_y bz op1 om1 omega x y z vy,
  0 < bx -> 0 < b_y -> 0 < bz ->
  Rabs x <= INR fuel * bx -> Rabs y + INR fuel * (Rabs op1 + Rabs om1) <= INR fuel * b_y -> Rabs z <= INR fuel * bz ->
  exists (k : Z) (j : Z) (l : Z),
    let '(x', y', z', vy') := shear_particle RNum fuel bx b_y bz op1 om1 omega (x, y, z, vy) in
    x' = x - IZR k * bx /\ - bx / 2 <= x' <= bx / 2 /\
    vy' = vy + IZR k * (3 / 2 * omega * bx) /\
    y' = y + (if (0 <=? k)%Z then IZR k * op1 else IZR (- k) * om1) - IZR j * b_y /\ - b_y / 2 <= y' <= b_y / 2 /\
    z' = z - IZR l * bz /\ - bz / 2 <= z' <= bz / 2.
Proof.
  intros fuel bx b_y bz op1 om1 omega x y z vy Hx Hy Hz Fx Fy Fz.
  unfold shear_particle.
  change (nmul RNum) with Rmult. change (ndiv RNum) with Rdiv. change (nofZ RNum) with IZR. change (two RNum) with 2.
  set (dvy := 3 / 2 * omega * bx).
  assert (Hxb : - (INR fuel * bx) <= x <= INR fuel * bx) by (unfold Rabs in Fx; destruct (Rcase_abs x); lra).
  assert (F0 : 0 <= INR fuel * bx) by (apply Rmult_le_pos; [apply pos_INR|lra]).
  destruct (shear_down_spec fuel bx op1 dvy x y vy Hx ltac:(lra)) as (k1 & A1 & Kf1 & B1 & C1 & D1).
  rewrite A1.
  assert (Hup : - bx / 2 - (x - INR k1 * bx) <= INR fuel * bx).
  { destruct (Rle_dec x (bx / 2)) as [h|h]; [rewrite (C1 h); cbn [INR]; lra|]. assert (- bx / 2 < x - INR k1 * bx) by (apply D1; lra). lra. }
  destruct (shear_up_spec fuel bx om1 dvy (x - INR k1 * bx) (y + INR k1 * op1) (vy + INR k1 * dvy) Hx Hup) as (k2 & A2 & Kf2 & B2 & C2 & D2).
  rewrite A2.
  (* one of k1, k2 is zero *)
  assert (K : k1 = 0%nat \/ k2 = 0%nat).
  { destruct (Rle_dec x (bx / 2)) as [h|h]; [left; auto|]. right. apply C2. apply Rlt_le, D1. lra. }
  assert (Kb1 : INR k1 <= INR fuel) by (apply le_INR; exact Kf1).
  assert (Kb2 : INR k2 <= INR fuel) by (apply le_INR; exact Kf2).
  set (y1 := y + INR k1 * op1 + INR k2 * om1).
  assert (Fy1 : Rabs y1 <= INR fuel * b_y).
  { unfold y1. eapply Rle_trans; [apply Rabs_triang|]. eapply Rle_trans; [apply Rplus_le_compat_r, Rabs_triang|].
    rewrite !Rabs_mult. rewrite !(Rabs_pos_eq (INR _)) by apply pos_INR.
    assert (0 <= Rabs op1) by apply Rabs_pos. assert (0 <= Rabs om1) by apply Rabs_pos.
    assert (INR k1 * Rabs op1 <= INR fuel * Rabs op1) by (apply Rmult_le_compat_r; auto).
    assert (INR k2 * Rabs om1 <= INR fuel * Rabs om1) by (apply Rmult_le_compat_r; auto). lra. }
  destruct (periodic_wrap fuel b_y y1 Hy Fy1) as (Ry & _ & (j & Ej)).
  destruct (periodic_wrap fuel bz z Hz Fz) as (Rz & _ & (l & El)).
  exists (Z.of_nat k1 - Z.of_nat k2)%Z, j, l.
  fold y1. rewrite Ej, El. rewrite minus_IZR, <- !INR_IZR_INZ.
  repeat split; try lra.
  - destruct K as [K|K]; rewrite K in *; cbn [INR] in *; [|lra].
    destruct (Rle_dec (- bx / 2) (x - 0 * bx)) as [h|h]; [rewrite (C2 h); cbn [INR]; lra|].
    apply Rlt_le. apply D2. lra.
  - unfold y1. destruct K as [K|K]; rewrite K; cbn [Z.of_nat INR].
    + destruct (0 <=? 0 - Z.of_nat k2)%Z eqn:E.
      * assert (k2 = 0%nat) by lia. subst k2. cbn [INR]. lra.
      * replace (- (0 - Z.of_nat k2))%Z with (Z.of_nat k2) by lia. rewrite <- INR_IZR_INZ. lra.
    + replace (0 <=? Z.of_nat k1 - 0)%Z with true by (symmetry; apply Z.leb_le; lia). lra.
Qed.

(* ---- open boundaries ---- *)
Section Open.
Local Close Scope R_scope.
Context {A : Type} (out : A -> bool).
Definition keep (p : A) : bool := negb (out p).

Lemma unsnoc_none : forall (l : list A), unsnoc l = None -> l = [].
Proof. destruct l; cbn; auto. destruct (unsnoc l) as [[m q]|]; discriminate. Qed.
Lemma unsnoc_some : forall (l m : list A) q, unsnoc l = Some (m, q) -> l = m ++ [q].
Proof.
  induction l as [|x r IH]; cbn; intros m q H; [discriminate|].
  destruct (unsnoc r) as [[m' q']|] eqn:E.
  - injection H as <- <-. cbn. f_equal. apply IH. reflexivity.
  - injection H as <- <-. apply unsnoc_none in E. subst r. reflexivity.
Qed.

Lemma filter_snoc_perm : forall (f : A -> bool) m q, Permutation (filter f (q :: m)) (filter f (m ++ [q])).
Proof.
  intros f m q. rewrite filter_app. cbn [filter]. destruct (f q).
  - apply Permutation_cons_append.
  - rewrite app_nil_r. apply Permutation_refl.
Qed.

(* exactly the particles outside the box are removed: the examined prefix stays in place, the rest is a
   rearrangement (the code moves the last particle into each hole) of the particles of the unexamined part that
   are inside the box.  Fuel bound: one iteration per unexamined particle. *)
Lemma open_removes_exactly_gen : forall fuel pre rest, (length rest <= fuel)%nat ->
  exists s, check_open out fuel pre rest = pre ++ s /\ Permutation s (filter keep rest).
Proof.
  induction fuel as [|f IH]; intros pre rest Hf.
  - destruct rest; [|cbn in Hf; lia]. exists []. cbn. split; auto.
  - destruct rest as [|p rest']; cbn [check_open].
    + exists []. rewrite app_nil_r. split; auto.
    + cbn [length] in Hf. cbn [filter]. assert (Kp : keep p = negb (out p)) by reflexivity. rewrite Kp. destruct (out p) eqn:E; cbn [negb].
      * destruct (unsnoc rest') as [[mid q]|] eqn:U.
        -- apply unsnoc_some in U. subst rest'.
           destruct (IH pre (q :: mid)) as (s & Hs & Ps).
           { rewrite app_length in Hf. cbn [length] in *. lia. }
           exists s. split; [exact Hs|]. eapply Permutation_trans; [exact Ps|]. apply filter_snoc_perm.
        -- apply unsnoc_none in U. subst rest'. exists []. rewrite app_nil_r. split; auto.
      * destruct (IH (pre ++ [p]) rest' ltac:(lia)) as (s & Hs & Ps).
        exists (p :: s). split.
        -- rewrite Hs, <- app_assoc. reflexivity.
        -- apply perm_skip. exact Ps.
Qed.

Lemma open_removes_exactly : forall ps,
  let r := check_open out (length ps) [] ps in
  Permutation r (filter keep ps) /\ length r = length (filter keep ps) /\ Forall (fun p => out p = false) r.
Proof.
  intros ps r. destruct (open_removes_exactly_gen (length ps) [] ps (le_n _)) as (s & Hs & Ps).
  unfold r. rewrite Hs. cbn [app]. split; [exact Ps|]. split; [apply Permutation_length; exact Ps|].
  apply Forall_forall. intros x Hx. apply (Permutation_in _ Ps) in Hx. apply filter_In in Hx.
  destruct Hx as [_ Hk]. unfold keep in Hk. destruct (out x); [discriminate|reflexivity].
Qed.

(* with a tree: exactly the outside particles are flagged, count and order unchanged *)
Lemma open_tree_flags : forall (flag : A -> A) ps,
  length (check_open_tree out flag ps) = length ps /\ forall i p, nth_error ps i = Some p ->
    nth_error (check_open_tree out flag ps) i = Some (if out p then flag p else p).
Proof.
  intros flag ps. unfold check_open_tree. split; [apply map_length|].
  intros i p H. rewrite nth_error_map, H. reflexivity.
Qed.
End Open.
