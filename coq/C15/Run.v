(* C15 glue used by the correspondence cases (definitions only): binary64 instances of the boundary model and of
   the gravity data, the exact (integer-unit) tree model run on dumped particle positions, comparison helpers. *)
From Coq Require Import ZArith List Bool PrimFloat.
From RV Require Import Common.Num Common.FloatNum C15.Boundary C15.Tree.
Import ListNotations.

(* ---- boundary, binary64 ---- *)
Definition f3 := (float * float * float)%type.
Definition periodicF (fuel : nat) (bx b_y bz : float) (ps : list f3) : list float :=
  flat_map (fun p => let '(x, y, z) := periodic_particle FNum fuel bx b_y bz p in [x; y; z]) ps.
Definition shearF (fuel : nat) (bx b_y bz op1 om1 omega : float) (ps : list (float * float * float * float)) : list float :=
  flat_map (fun p => let '(x, y, z, vy) := shear_particle FNum fuel bx b_y bz op1 om1 omega p in [x; y; z; vy]) ps.
(* open: particles carry an id (compared as a float) *)
Definition openF (bx b_y bz : float) (ps : list (float * f3)) : list float :=
  flat_map (fun p => let '(id, (x, y, z)) := p in [id; x; y; z])
           (check_open (fun p => outside FNum bx b_y bz (snd p)) (length ps) [] ps).

(* ---- gravity data, binary64: all cells in pre-order, flattened ---- *)
Definition gravF (part : list (float * float * float * float)) (t : cell) : list float :=
  flat_map (fun g => let '(m, mx, my, mz) := g in [m; mx; my; mz])
           (gall FNum (fun i => nth i part (zero, zero, zero, zero)) t).

(* ---- exact tree model on dumped positions ---- *)
Open Scope Z_scope.
Definition posf (l : list P3) : nat -> P3 := fun i => nth i l (0, 0, 0).

Fixpoint cell_eqb (a b : cell) : bool :=
  match a, b with
  | Leaf p, Leaf q => Nat.eqb p q
  | Node n o1, Node m o2 =>
      (n =? m) &&
      (fix go (l1 l2 : list (option cell)) : bool :=
         match l1, l2 with
         | [], [] => true
         | x :: r, y :: s =>
             (match x, y with None, None => true | Some c, Some d => cell_eqb c d | _, _ => false end) && go r s
         | _, _ => false
         end) o1 o2
  | _, _ => false
  end.
Definition ocell_eqb (x y : option cell) : bool :=
  match x, y with None, None => true | Some c, Some d => cell_eqb c d | _, _ => false end.
Fixpoint forest_eqb (a b : list (option cell)) : bool :=
  match a, b with
  | [], [] => true
  | x :: r, y :: s => ocell_eqb x y && forest_eqb r s
  | _, _ => false
  end.

(* reb_tree_add_particle_to_tree: root slot by reb_get_rootbox_for_particle, geometry of a new root from the
   particle (the stored geometry of an existing root is the same function of its slot, see root_inside_1d) *)
Definition add_forest (u : Z) (pos : nat -> P3) (L : nat) (nx ny nz : Z) (f : list (option cell)) (pt : nat)
  : option (list (option cell)) :=
  let h := hw u L in
  let '(x, y, z) := pos pt in
  let ri := Z.to_nat (rootbox h nx ny nz (x, y, z)) in
  let c := (root_centre h nx (root_idx_new h nx x), root_centre h ny (root_idx_new h ny y), root_centre h nz (root_idx_new h nz z)) in
  match add u pos L c (nth ri f None) pt with
  | None => None
  | Some t => Some (upd f ri (Some t))
  end.
Fixpoint build_forest (u : Z) (pos : nat -> P3) (L : nat) (nx ny nz : Z) (f : list (option cell)) (pts : list nat)
  : option (list (option cell)) :=
  match pts with
  | [] => Some f
  | p :: r => match add_forest u pos L nx ny nz f p with None => None | Some f' => build_forest u pos L nx ny nz f' r end
  end.

Definition oerase (o : option dcell) : option cell := match o with None => None | Some d => Some (erase d) end.

(* one correspondence case: a dump of the library's tree (positions and cells in integer units) *)
Record tcase := mkT {
  tu : Z; tL : nat; tnx : Z; tny : Z; tnz : Z; tN : nat;
  tpos : list P3;
  troots : list (option (P3 * dcell));    (* per root slot: expected centre + dumped cell *)
  texp_wf : bool;                         (* what the Python transcription of the checker says *)
  tcmp_shape : bool                       (* compare with the model built by inserting 0..N-1 in order *)
}.

Definition present (l : list (option (P3 * dcell))) : list (P3 * dcell) :=
  flat_map (fun o => match o with None => [] | Some cd => [cd] end) l.

Definition tcase_wf (c : tcase) : bool :=
  forest_b c.(tu) (posf c.(tpos)) c.(tL) c.(tN) (present c.(troots)).
Definition tcase_shape (c : tcase) : bool :=
  match build_forest c.(tu) (posf c.(tpos)) c.(tL) c.(tnx) c.(tny) c.(tnz)
                     (repeat None (length c.(troots))) (seq 0 c.(tN)) with
  | None => false
  | Some f => forest_eqb f (map (fun o => match o with None => None | Some cd => Some (erase (snd cd)) end) c.(troots))
  end.
Definition tcase_ok (c : tcase) : bool :=
  Bool.eqb (tcase_wf c) c.(texp_wf) && (if c.(tcmp_shape) then tcase_shape c else true).

Fixpoint bad_t_from (n : nat) (l : list tcase) : list nat :=
  match l with
  | [] => []
  | c :: r => if tcase_ok c then bad_t_from (S n) r else n :: bad_t_from (S n) r
  end.
Definition bad_t (l : list tcase) : list nat := bad_t_from 0 l.
