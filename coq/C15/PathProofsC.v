(* C15 round 4: insertion preserves the walk invariants; it never enters the leaf that is being vacated. *)
From Coq Require Import ZArith List Bool Lia Permutation Arith.
From RV Require Import Common.Num C15.Tree C15.TreeProofs C15.GravityProofs C15.PathModel C15.PathSpec C15.PathProofsA C15.PathProofsB.
Import ListNotations.
Close Scope Z_scope.
Open Scope nat_scope.

Lemma idx_leaves_c : forall c p, map snd (lvc c p) = leaves c.
Proof.
  induction c as [q|n oct IH] using cell_ind'; intros p; [reflexivity|].
  rewrite lvc_node, leaves_node. generalize 0. induction oct as [|d r IHr]; intros o; [reflexivity|].
  inversion IH as [|? ? Hd Hr]; subst. cbn [lvl flat_map]. rewrite map_app. f_equal; [|apply IHr; exact Hr].
  destruct d as [c|]; [apply Hd|reflexivity].
Qed.
Lemma idx_leaves : forall t p, map snd (lvo t p) = oleaves t.
Proof. intros [c|] p; [apply idx_leaves_c|reflexivity]. Qed.
Lemma lvl_flat : forall oct p, map snd (lvl p oct 0) = flat_map oleaves oct.
Proof. intros oct p. rewrite <- (lvo_node 0%Z oct p). rewrite idx_leaves. reflexivity. Qed.

Section PC.
Variable X : Type.
Variable xd : X.
Variable ins : path -> X -> bool.
Variable octf : path -> X -> nat.
Variable same : X -> X -> bool.
Variable L : nat.
Variable nroot : nat.
Variable okx : X -> Prop.
Notation parts := (parts X).
Notation px := (px X xd).
Notation padd := (padd X xd octf same).
Notation full := (full X xd ins L).
Notation inv := (inv X xd ins L nroot).
Hypothesis Hoct8 : forall p x, p <> [] -> octf p x < 8.
Hypothesis Hroute : forall p x, okx x -> length p <= L -> ins p x = true -> ins (p ++ [octf p x]) x = true.

Lemma full_ext : forall P P' t p, (forall j, px P' j = px P j) -> full P t p -> full P' t p.
Proof.
  intros P P' t p E F. induction F as [p|q p Hq|n oct p Lo Lp Cn N2 Ch IH].
  - constructor.
  - constructor. rewrite E. exact Hq.
  - constructor; assumption.
Qed.
Lemma full_free : forall P t p, full P t p -> free t.
Proof. intros P t p F. induction F; constructor; assumption. Qed.
Lemma inv_ext : forall P P' pi t p, (forall j, px P' j = px P j) -> inv P pi t p -> inv P' pi t p.
Proof.
  intros P P' pi t p E I. induction I as [t p F|k pi n oct p Lo Fl Ik IH Fr].
  - constructor. exact F.
  - constructor; try assumption. intros o Ho. eapply full_ext; [exact E|apply Fl; exact Ho].
Qed.

Definition Pok (P : parts) : Prop := forall i, okx (px P i).

(* insertion into a subtree that is completely in order keeps it completely in order *)
Lemma padd_full : forall fuel p t P pt t' P', p <> [] -> padd fuel p t P pt = Some (t', P') ->
  PathModel.pbp X xd P pt = [] -> ~ In pt (idx t p) -> PathModel.pbp X xd P' pt <> [] ->
  full P t p -> Pok P -> ins p (px P pt) = true -> fuel + length p = S L -> full P' t' p.
Proof.
  induction fuel as [|f IH]; intros p t P pt t' P' Hp H Hclr Hfresh Hins F Hok Hin Hf.
  - destruct t as [[q|n oct]|]; cbn in H; try discriminate. injection H as <- <-.
    constructor. rewrite (px_setbp X xd). exact Hin.
  - assert (Lp : length p <= L) by lia.
    pose proof (padd_data X xd octf same Hoct8 (S f) p t P pt t' P' Hp (full_free _ _ _ F) H Hclr Hfresh Hins) as (Ft' & _ & Xeq & Perm & _ & _).
    destruct t as [[q|n oct]|].
    + cbn [PathModel.padd] in H.
      set (o1 := octf p (px P q)) in *. set (o2 := octf p (px P pt)) in *.
      destruct (Nat.eqb o1 o2 && same (px P pt) (px P q)) eqn:G; [injection H as <- <-; congruence|].
      set (oct0 := upd empty8 o1 (Some (Leaf q))) in *. set (P1 := setbp X xd P q (p ++ [o1])) in *.
      destruct (padd f (p ++ [o2]) (nth o2 oct0 None) P1 pt) as [[d P2]|] eqn:A; [|discriminate].
      injection H as <- <-.
      assert (Hqpt0 : q <> pt) by (intro e; apply Hfresh; unfold idx; cbn; left; exact e).
      assert (Hclr1 : PathModel.pbp X xd P1 pt = []) by (unfold P1; rewrite (pbp_setbp_other X xd) by exact Hqpt0; exact Hclr).
      assert (Ho1 : o1 < 8) by (apply Hoct8; exact Hp). assert (Ho2 : o2 < 8) by (apply Hoct8; exact Hp).
      assert (L0 : length oct0 = 8) by (unfold oct0; rewrite upd_len; reflexivity).
      inversion F as [|? ? Hq|]; subst.
      assert (X1 : forall j, px P1 j = px P j) by (intro; apply px_setbp).
      assert (Hq1 : ins (p ++ [o1]) (px P q) = true) by (apply Hroute; [apply Hok|exact Lp|exact Hq]).
      assert (Hpt1 : ins (p ++ [o2]) (px P pt) = true) by (apply Hroute; [apply Hok|exact Lp|exact Hin]).
      assert (Hp2 : p ++ [o2] <> []) by (destruct p; discriminate).
      assert (Fc : full P1 (nth o2 oct0 None) (p ++ [o2])).
      { unfold oct0. rewrite nth_upd_cases. destruct (Nat.eqb o1 o2 && Nat.ltb o1 (length empty8)) eqn:E.
        - apply andb_prop in E. destruct E as [E _]. apply Nat.eqb_eq in E. rewrite <- E. constructor. rewrite X1. exact Hq1.
        - rewrite nth_empty8. constructor. }
      assert (Hfresh1 : ~ In pt (idx (nth o2 oct0 None) (p ++ [o2]))).
      { unfold oct0. rewrite nth_upd_cases. destruct (Nat.eqb o1 o2 && Nat.ltb o1 (length empty8)); [cbn; intros [e|[]]; congruence|rewrite nth_empty8; cbn; tauto]. }
      assert (Fd : full P2 d (p ++ [o2])).
      { eapply IH; [exact Hp2|exact A|exact Hclr1|exact Hfresh1|exact Hins|exact Fc| | |].
        - intro i. rewrite X1. apply Hok.
        - rewrite X1. exact Hpt1.
        - rewrite app_length. cbn. lia. }
      assert (X2 : forall j, px P2 j = px P j) by exact Xeq.
      constructor; [rewrite upd_len; exact L0|exact Lp| |lia|].
      * unfold idx in Perm. rewrite lvo_node, lvl_flat in Perm. apply Permutation_length in Perm.
        change (length (pt :: map snd (lvo (Some (Leaf q)) p))) with 2 in Perm. rewrite Perm. reflexivity.
      * intros k. rewrite nth_upd_cases. destruct (Nat.eqb o2 k && Nat.ltb o2 (length oct0)) eqn:E.
        -- apply andb_prop in E. destruct E as [E _]. apply Nat.eqb_eq in E. subst k. exact Fd.
        -- unfold oct0. rewrite nth_upd_cases. destruct (Nat.eqb o1 k && Nat.ltb o1 (length empty8)) eqn:E1.
           ++ apply andb_prop in E1. destruct E1 as [E1 _]. apply Nat.eqb_eq in E1. subst k. constructor. rewrite X2. exact Hq1.
           ++ rewrite nth_empty8. constructor.
    + cbn [PathModel.padd] in H. set (o := octf p (px P pt)) in *.
      destruct (padd f (p ++ [o]) (nth o oct None) P pt) as [[d P1]|] eqn:A; [|discriminate].
      destruct (PathModel.pbp X xd P1 pt) as [|b0 bs] eqn:Ebp; injection H as <- <-; [congruence|].
      inversion F as [| |? ? ? Lo _ Cn N2 Ch]; subst.
      assert (Ho : o < 8) by (apply Hoct8; exact Hp).
      assert (Hp2 : p ++ [o] <> []) by (destruct p; discriminate).
      assert (Hfresh1 : ~ In pt (idx (nth o oct None) (p ++ [o]))).
      { intro Hi. apply Hfresh. unfold idx in *. rewrite lvo_node.
        eapply Permutation_in; [apply Permutation_map, Permutation_sym, (lvl_split p oct o); lia|]. rewrite map_app. apply in_or_app. left. exact Hi. }
      assert (Fd : full P1 d (p ++ [o])).
      { eapply IH; [exact Hp2|exact A|exact Hclr|exact Hfresh1|congruence|apply Ch|exact Hok| |rewrite app_length; cbn; lia].
        apply Hroute; [apply Hok|exact Lp|exact Hin]. }
      constructor; [rewrite upd_len; exact Lo|exact Lp| | |].
      * unfold idx in Perm. rewrite !lvo_node, !lvl_flat in Perm. apply Permutation_length in Perm. cbn [length] in Perm. rewrite Perm. lia.
      * lia.
      * intros k. rewrite nth_upd_cases. destruct (Nat.eqb o k && Nat.ltb o (length oct)) eqn:E.
        -- apply andb_prop in E. destruct E as [E _]. apply Nat.eqb_eq in E. subst k. exact Fd.
        -- eapply full_ext; [exact Xeq|apply Ch].
    + rewrite (padd_none X xd) in H. injection H as <- <-. constructor. rewrite (px_setbp X xd). exact Hin.
Qed.

Lemma inv_free : forall P pi t p, inv P pi t p -> p <> [] -> free t.
Proof.
  intros P pi t p I. induction I as [t p F|k pi n oct p Lo Fl Ik IH Fr]; intros Hp; [exact F|].
  constructor; [destruct p; [congruence|exact Lo]|]. intro o. destruct (lt_eq_lt_dec o k) as [[h|h]|h].
  - eapply full_free. apply Fl. exact h.
  - subst o. apply IH. destruct p; discriminate.
  - apply Fr. exact h.
Qed.

(* ... and keeps the walk invariant of a subtree below a real cell, whatever the stack position *)
Lemma padd_inv : forall fuel pi p t P pt t' P', p <> [] -> padd fuel p t P pt = Some (t', P') ->
  PathModel.pbp X xd P pt = [] -> ~ In pt (idx t p) -> PathModel.pbp X xd P' pt <> [] ->
  inv P pi t p -> Pok P -> ins p (px P pt) = true -> fuel + length p = S L -> inv P' pi t' p.
Proof.
  induction fuel as [|f IH]; intros pi p t P pt t' P' Hp H Hclr Hfresh Hins I Hok Hin Hf;
    pose proof (padd_data X xd octf same Hoct8 _ p t P pt t' P' Hp (inv_free _ _ _ _ I Hp) H Hclr Hfresh Hins) as (Ft' & _ & Xeq & _).
  - inversion I as [? ? Fr|]; subst; [constructor; exact Ft'|]. cbn in H. discriminate.
  - inversion I as [? ? Fr|k pi' n oct ? Lo Fl Ik Frr]; subst; [constructor; exact Ft'|].
    assert (Lo8 : length oct = 8) by (destruct p; [congruence|exact Lo]).
    assert (Lp : length p <= L) by lia.
    cbn [PathModel.padd] in H. set (o := octf p (px P pt)) in *.
    destruct (padd f (p ++ [o]) (nth o oct None) P pt) as [[d P1]|] eqn:A; [|discriminate].
    destruct (PathModel.pbp X xd P1 pt) as [|b0 bs] eqn:Ebp; injection H as <- <-; [congruence|].
    assert (Ho : o < 8) by (apply Hoct8; exact Hp).
    assert (Hp2 : p ++ [o] <> []) by (destruct p; discriminate).
    assert (Hfresh1 : ~ In pt (idx (nth o oct None) (p ++ [o]))).
    { intro Hi. apply Hfresh. unfold idx in *. rewrite lvo_node.
      eapply Permutation_in; [apply Permutation_map, Permutation_sym, (lvl_split p oct o); lia|]. rewrite map_app. apply in_or_app. left. exact Hi. }
    assert (Hins1 : PathModel.pbp X xd P1 pt <> []) by congruence.
    assert (Hin2 : ins (p ++ [o]) (px P pt) = true) by (apply Hroute; [apply Hok|exact Lp|exact Hin]).
    assert (Hf2 : f + length (p ++ [o]) = S L) by (rewrite app_length; cbn; lia).
    constructor.
    + rewrite upd_len. exact Lo.
    + intros j Hj. rewrite nth_upd_cases. destruct (Nat.eqb o j && Nat.ltb o (length oct)) eqn:E.
      * apply andb_prop in E. destruct E as [E _]. apply Nat.eqb_eq in E. subst j.
        eapply padd_full; [exact Hp2|exact A|exact Hclr|exact Hfresh1|exact Hins1|apply Fl; exact Hj|exact Hok|exact Hin2|exact Hf2].
      * eapply full_ext; [exact Xeq|apply Fl; exact Hj].
    + rewrite nth_upd_cases. destruct (Nat.eqb o k && Nat.ltb o (length oct)) eqn:E.
      * apply andb_prop in E. destruct E as [E _]. apply Nat.eqb_eq in E. subst k.
        eapply IH; [exact Hp2|exact A|exact Hclr|exact Hfresh1|exact Hins1|exact Ik|exact Hok|exact Hin2|exact Hf2].
      * eapply inv_ext; [exact Xeq|exact Ik].
    + intros j Hj. rewrite nth_upd_cases. destruct (Nat.eqb o j && Nat.ltb o (length oct)) eqn:E.
      * apply andb_prop in E. destruct E as [E _]. apply Nat.eqb_eq in E. subst j.
        pose proof (padd_data X xd octf same Hoct8 f (p ++ [o]) _ P pt d P1 Hp2 (Frr o Hj) A Hclr Hfresh1 Hins1) as (Fd & _). exact Fd.
      * apply Frr. exact Hj.
Qed.

(* the insertion never enters a leaf whose inside test rejects the particle: clearing such a leaf commutes with it *)
Lemma padd_commute : forall fuel p t P pt t' P' s q0, padd fuel p t P pt = Some (t', P') ->
  s <> [] -> tget t s = Some (Leaf q0) -> ins (p ++ s) (px P pt) = false -> ins p (px P pt) = true -> okx (px P pt) ->
  fuel + length p = S L ->
  padd fuel p (tset t s None) P pt = Some (tset t' s None, P').
Proof.
  induction fuel as [|f IH]; intros p t P pt t' P' s q0 H Hs Hg Hout Hin Hokx Hf;
    destruct s as [|o s]; try congruence; cbn [tget] in Hg; destruct t as [[q|n oct]|]; try discriminate.
  assert (Hol : o < length oct).
    { destruct (Nat.lt_ge_cases o (length oct)) as [h|h]; [exact h|]. rewrite nth_overflow in Hg by exact h. destruct s; discriminate. }
    cbn [PathModel.padd] in H. set (o2 := octf p (px P pt)) in *.
    destruct (padd f (p ++ [o2]) (nth o2 oct None) P pt) as [[d P1]|] eqn:A; [|discriminate].
    destruct (PathModel.pbp X xd P1 pt) as [|b0 bs] eqn:Ebp; injection H as <- <-; cbn [tset PathModel.padd]; fold o2.
    { (* refused below: nothing changes, with or without the hole *)
      destruct (Nat.eq_dec o2 o) as [e|ne].
      - subst o. assert (Hin2 : ins (p ++ [o2]) (px P pt) = true) by (apply Hroute; [exact Hokx|lia|exact Hin]).
        destruct s as [|o' s'].
        + rewrite Hin2 in Hout. discriminate.
        + rewrite nth_upd_eq by exact Hol.
          rewrite (IH (p ++ [o2]) (nth o2 oct None) P pt d P1 (o' :: s') q0 A ltac:(discriminate) Hg);
            [rewrite Ebp; reflexivity|rewrite <- app_assoc; exact Hout|exact Hin2|exact Hokx|rewrite app_length; cbn; lia].
      - rewrite nth_upd_ne by (intro; apply ne; congruence). rewrite A, Ebp. reflexivity. }
    destruct (Nat.eq_dec o2 o) as [e|ne].
    + subst o. assert (Hin2 : ins (p ++ [o2]) (px P pt) = true) by (apply Hroute; [exact Hokx|lia|exact Hin]).
      destruct s as [|o' s'].
      * rewrite Hin2 in Hout. discriminate.
      * rewrite nth_upd_eq by exact Hol.
        rewrite (IH (p ++ [o2]) (nth o2 oct None) P pt d P1 (o' :: s') q0 A ltac:(discriminate) Hg).
        -- rewrite Ebp. rewrite upd_upd_same. rewrite nth_upd_eq by exact Hol. rewrite upd_upd_same. reflexivity.
        -- rewrite <- app_assoc. exact Hout.
        -- exact Hin2.
        -- exact Hokx.
        -- rewrite app_length. cbn. lia.
    + rewrite nth_upd_ne by (intro; apply ne; congruence). rewrite A, Ebp.
      rewrite nth_upd_ne by exact ne. rewrite upd_upd_comm by (intro; apply ne; congruence). reflexivity.
Qed.
End PC.
