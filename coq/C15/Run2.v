(* C15 round 2 glue (definitions only): one correspondence case of the heap model of the in-place update. *)
From Coq Require Import ZArith List Bool.
From RV Require Import Common.Num C15.Tree C15.Run C15.Update.
Import ListNotations.
Open Scope Z_scope.

Record ucase := mkU {
  uu : Z; uL : nat; unx : Z; uny : Z; unz : Z; ubox : bool;
  ucells : list (option hcell); uroots : list (option nat); uparts : list hpart; uN : nat;
  uexp_forest : list (option cell);      (* the library's tree after reb_simulation_update_tree *)
  uexp_pos : list P3                     (* the library's particles[0..N-1] after the update *)
}.
Definition p3_eqb (a b : P3) : bool := same_pos a b.
Fixpoint pos_eqb (a b : list P3) : bool :=
  match a, b with [], [] => true | x :: r, y :: s => p3_eqb x y && pos_eqb r s | _, _ => false end.
Definition urun (c : ucase) : hst :=
  hupdate_tree c.(uu) c.(unx) c.(uny) c.(unz) c.(uL) c.(ubox)
               (mkH c.(ucells) c.(uroots) c.(uparts) c.(uN) 0 0).
Definition ucase_ok (c : ucase) : bool :=
  let st := urun c in
  Nat.eqb (herr_model st) 0 && Nat.eqb (hN st) (length c.(uexp_pos)) &&
  forest_eqb (habs_forest c.(uL) st) c.(uexp_forest) &&
  pos_eqb (map ppos (firstn (hN st) (hparts st))) c.(uexp_pos).
Fixpoint bad_u_from (n : nat) (l : list ucase) : list nat :=
  match l with [] => [] | c :: r => if ucase_ok c then bad_u_from (S n) r else n :: bad_u_from (S n) r end.
Definition bad_u (l : list ucase) : list nat := bad_u_from 0 l.
