(* C15 round 4: induction over the walk; the theorem about reb_simulation_update_tree (path model). *)
From Coq Require Import ZArith List Bool Lia Permutation Arith.
From RV Require Import Common.Num C15.Tree C15.TreeProofs C15.GravityProofs C15.PathModel C15.PathSpec
  C15.PathProofsA C15.PathProofsB C15.PathProofsC C15.PathProofsD C15.PathProofsE C15.PathProofsF C15.PathProofsG C15.PathProofsH.
Import ListNotations.
Close Scope Z_scope.
Open Scope nat_scope.

Section PI.
Variable X : Type.
Variable xd : X.
Variable ins : path -> X -> bool.
Variable octf : path -> X -> nat.
Variable same : X -> X -> bool.
Variable flg : X -> bool.
Variable L : nat.
Variable nroot : nat.
Variable okx : X -> Prop.
Notation pst := (pst X).
Notation px := (px X xd).
Notation pupd := (pupd X xd ins octf same flg L).
Notation pupdate_tree := (pupdate_tree X xd ins octf same flg L nroot).
Notation unlink := (unlink X).
Notation full := (full X xd ins L).
Notation Acc := (Acc X xd).
Notation Pok := (Pok X xd okx).
Notation Inv := (Inv X xd ins L nroot okx).
Notation okp := (okp nroot).
Hypothesis okx_d : okx xd.
Hypothesis Hoct8 : forall p x, p <> [] -> octf p x < 8.
Hypothesis Hoct0 : forall x, okx x -> ins [] x = true -> octf [] x < nroot.
Hypothesis Hroute : forall p x, okx x -> length p <= L -> ins p x = true -> ins (p ++ [octf p x]) x = true.
Hypothesis Hup : forall p o x, p <> [] -> length p <= L -> ins (p ++ [o]) x = true -> ins p x = true.

Definition body (f : nat) (p : path) (acc : option pst) (o : nat) : option pst :=
  match acc with
  | None => None
  | Some st0 => match pupd f (p ++ [o]) st0 with
                | None => None
                | Some (st', keep) => Some (if keep then st' else unlink st' (p ++ [o]))
                end
  end.
Lemma fold_body_none f p l : fold_left (body f p) l None = None.
Proof. induction l; cbn; auto. Qed.

Theorem pupd_spec : forall fuel s k st st' keep,
  pupd fuel (s ++ [k]) st = Some (st', keep) -> fuel + length (s ++ [k]) = S L -> okp (s ++ [k]) -> Inv st (s ++ [k]) ->
  Inv (if keep then st' else unlink st' (s ++ [k])) (s ++ [S k]).
Proof.
  induction fuel as [|f IH]; intros s k st st' keep H Hf Hk HI;
    set (pth := s ++ [k]) in *; destruct (tget (sF X st) pth) as [[q|n oct]|] eqn:Hg; cbn [PathModel.pupd] in H; fold pth in H; rewrite Hg in H.
  1,4: (* a leaf *)
    destruct (ins pth (px (sP X st) q)) eqn:Hin;
    [ injection H as <- <-; apply (step_keep X xd ins L nroot okx st s k q HI Hk Hg Hin)
    | destruct st as [F P N]; cbn [sF sP sN] in *; destruct N as [|n];
      [ exfalso; destruct HI as (A & _ & _); pose proof (tget_lv pth F [] q Hg) as Hl; pose proof (Acc_lt X xd _ _ _ A Hl) as Hq; cbn in Hq; lia
      | destruct (step_vacate X xd ins octf same L nroot okx Hoct8 Hoct0 Hroute F P n s k q HI Hk Hg Hin) as ((j & Hj) & H1 & H2);
        fold pth in H1, H2; rewrite Hj in H;
        destruct (flg (px P q));
        [ injection H as <- <-; exact H1
        | destruct (PathModel.psim_add X xd ins octf same L _ (px P q)) as [st2|] eqn:E2; [|discriminate];
          injection H as <- <-; apply H2; reflexivity ] ] ].
  1,3: (* a node *)
    try discriminate.
  2,3: (* NULL *)
    injection H as <- <-;
    assert (Eu : unlink st pth = st) by (destruct st as [F P N]; unfold PathModel.unlink; cbn [sF sP sN] in *; replace (tset F pth None) with (tset F pth (tget F pth)) by (rewrite Hg; reflexivity); rewrite tset_tget; reflexivity);
    rewrite Eu; apply (Inv_bump_none X xd ins L nroot okx st s k HI); [apply (Inv_pathok X xd ins L nroot okx st _ HI Hk)|exact Hg].
  (* the node case with fuel *)
  assert (Hpne : pth <> []) by (unfold pth; destruct s; discriminate).
  change (fold_left _ (seq 0 8) (Some st)) with (fold_left (body f pth) (seq 0 8) (Some st)) in H.
  destruct (fold_left (body f pth) (seq 0 8) (Some st)) as [st1|] eqn:EL; [|discriminate].
  assert (Loop : forall m o0 st0 st9, o0 + m = 8 -> fold_left (body f pth) (seq o0 m) (Some st0) = Some st9 ->
            Inv st0 (pth ++ [o0]) -> Inv st9 (pth ++ [8])).
  { induction m as [|m IHm]; intros o0 st0 st9 Hm Hfold HI0.
    - cbn in Hfold. injection Hfold as <-. replace 8 with o0 by lia. exact HI0.
    - cbn [seq fold_left] in Hfold. unfold body at 2 in Hfold.
      destruct (pupd f (pth ++ [o0]) st0) as [[stc kc]|] eqn:EU; [|rewrite fold_body_none in Hfold; discriminate].
      apply (IHm (S o0) (if kc then stc else unlink stc (pth ++ [o0])) st9); [lia|exact Hfold|].
      apply (IH pth o0 st0 stc kc EU); [rewrite app_length in *; cbn in *; lia| |exact HI0].
      apply (proj2 (okpb_app X xd same flg nroot true pth [o0])). split; [exact Hk|]. destruct pth; [congruence|]. cbn. split; [lia|exact I]. }
  assert (HI0 : Inv st (pth ++ [0])).
  { destruct HI as (A & I & Hok). split; [exact A|]. split; [|exact Hok].
    eapply (inv_push X xd ins L nroot (sP X st) pth (sF X st) [] n oct I); [exact Hpne|eapply tget_some_pathok; exact Hg|exact Hg]. }
  pose proof (Loop 8 0 st st1 eq_refl EL HI0) as HI1.
  destruct (tget (sF X st1) pth) as [[q1|n1 oct1]|] eqn:Hg1; try discriminate.
  assert (Hlen : length pth <= L) by lia.
  pose proof (step_recount X xd ins L nroot okx Hup st1 s k n1 oct1 HI1 Hk Hlen Hg1) as (R0 & R1 & R2).
  fold pth in R0, R1, R2. destruct (precount oct1) as [cnt test] eqn:EP. cbn [fst snd] in R0, R1, R2.
  destruct (Z.eqb cnt 0) eqn:E0.
  - injection H as <- <-. apply R0. apply Z.eqb_eq. exact E0.
  - destruct (Z.eqb cnt 1) eqn:E1.
    + destruct (nth test oct1 None) as [[q1|? ?]|] eqn:Et; try discriminate. injection H as <- <-.
      apply R1; [apply Z.eqb_eq; exact E1|reflexivity].
    + injection H as <- <-. apply R2; [apply Z.eqb_neq; exact E0|apply Z.eqb_neq; exact E1].
Qed.

(* ---- reb_simulation_update_tree ---- *)
Theorem pupdate_tree_spec : forall st st', pupdate_tree st = Some st' -> Inv st [0] -> Inv st' [nroot].
Proof.
  intros st st' H HI. unfold PathModel.pupdate_tree in H.
  assert (Loop : forall m r0 st0 st9, r0 + m = nroot ->
            fold_left (body L []) (seq r0 m) (Some st0) = Some st9 -> Inv st0 [r0] -> Inv st9 [nroot]).
  { induction m as [|m IHm]; intros r0 st0 st9 Hm Hfold HI0.
    - cbn in Hfold. injection Hfold as <-. assert (E : r0 = nroot) by lia. subst r0. exact HI0.
    - cbn [seq fold_left] in Hfold. unfold body at 2 in Hfold. cbn [app] in Hfold.
      destruct (pupd L [r0] st0) as [[stc kc]|] eqn:EU; [|rewrite fold_body_none in Hfold; discriminate].
      apply (IHm (S r0) (if kc then stc else unlink stc [r0]) st9); [lia|exact Hfold|].
      apply (pupd_spec L [] r0 st0 stc kc EU); [cbn; lia| |exact HI0]. cbn. split; [lia|exact I]. }
  apply (Loop nroot 0 st st'); [lia| |exact HI]. exact H.
Qed.

(* Every particle is accounted for after the update: starting from a state in which every particle index < N sits in
   exactly one leaf with an exact back pointer (flagged particles and particles that left their cells included) and
   whose cells all have 8 children, reb_simulation_update_tree (when it does not hit 'same coordinates' / the
   resolution limit) ends in a state where again every index < N' sits in exactly one leaf with an exact back pointer,
   and every root cell is completely in order: each leaf's particle passes the inside test of its cell, counts are
   exact and >= 2. *)
Theorem update_tree_accounted : forall n0 roots P N st',
  pupdate_tree (mkS X (Some (Node n0 roots)) P N) = Some st' ->
  Acc (mkS X (Some (Node n0 roots)) P N) -> Pok P -> length roots = nroot -> (forall ri, free (nth ri roots None)) ->
  Acc st' /\ Pok (sP X st') /\
  exists n1 roots', sF X st' = Some (Node n1 roots') /\ length roots' = nroot /\
                    forall ri, full (sP X st') (nth ri roots' None) [ri].
Proof.
  intros n0 roots P N st' H A Hok Lr Fr.
  assert (HI : Inv (mkS X (Some (Node n0 roots)) P N) [0]).
  { split; [exact A|]. split; [|exact Hok]. cbn [sF sP]. constructor; [exact Lr|intros o Ho; lia|constructor; apply Fr|intros o _; apply Fr]. }
  destruct (pupdate_tree_spec _ _ H HI) as (A' & I' & Hok').
  split; [exact A'|]. split; [exact Hok'|].
  destruct st' as [F' P' N']. cbn [sF sP sN] in *. inversion I' as [|? ? n1 roots' ? Lo Fl _ _ EF]. exists n1, roots'. split; [reflexivity|]. split; [exact Lo|].
  intro ri. destruct (Nat.lt_ge_cases ri nroot) as [h|h]; [apply (Fl ri h)|]. rewrite nth_overflow by lia. constructor.
Qed.
End PI.
