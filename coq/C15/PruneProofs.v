(* C15 round 2: the update walk with only flagged removals (functional model: leaves carry particle identities). *)
From Coq Require Import ZArith List Bool Lia ZifyBool Permutation Arith.
From RV Require Import Common.Num C15.Tree C15.Tree2 C15.TreeProofs C15.GravityProofs.
Import ListNotations.
Open Scope Z_scope.

Lemma perm_partition {A} (f : A -> bool) : forall l, Permutation l (filter f l ++ filter (fun x => negb (f x)) l).
Proof.
  induction l as [|a l IH]; cbn; [constructor|]. destruct (f a); cbn.
  - apply perm_skip, IH.
  - eapply Permutation_trans; [apply perm_skip, IH|]. apply Permutation_middle.
Qed.

Lemma unsnoc_n_none : forall l, unsnoc_n l = None -> l = [].
Proof. destruct l; cbn; auto. destruct (unsnoc_n l) as [[m q]|]; discriminate. Qed.
Lemma unsnoc_n_some : forall l m q, unsnoc_n l = Some (m, q) -> l = m ++ [q].
Proof.
  induction l as [|x r IH]; cbn; intros m q H; [discriminate|].
  destruct (unsnoc_n r) as [[m' q']|] eqn:E.
  - injection H as <- <-. cbn. f_equal. apply IH. reflexivity.
  - injection H as <- <-. apply unsnoc_n_none in E. subst r. reflexivity.
Qed.

(* particles[oldpos] = particles[N-1]; N-- removes exactly r *)
Lemma swap_remove_perm : forall arr r, In r arr -> Permutation arr (r :: swap_remove arr r).
Proof.
  induction arr as [|a rest IH]; intros r Hin; [destruct Hin|]. cbn [swap_remove].
  destruct (Nat.eqb a r) eqn:E.
  - apply Nat.eqb_eq in E. subst a. apply perm_skip.
    destruct (unsnoc_n rest) as [[mid q]|] eqn:U.
    + apply unsnoc_n_some in U. subst rest. apply Permutation_sym, Permutation_cons_append.
    + apply unsnoc_n_none in U. subst rest. constructor.
  - apply Nat.eqb_neq in E. destruct Hin as [e|Hin]; [congruence|].
    eapply Permutation_trans; [apply perm_skip, (IH r Hin)|]. apply perm_swap.
Qed.

Lemma remove_all_perm : forall rs arr, NoDup rs -> incl rs arr ->
  Permutation arr (rs ++ fold_left swap_remove rs arr).
Proof.
  induction rs as [|r rs IH]; intros arr ND Inc; cbn [fold_left app]; [apply Permutation_refl|].
  inversion ND as [|? ? Hn ND']; subst.
  pose proof (swap_remove_perm arr r (Inc r (or_introl eq_refl))) as P.
  assert (Inc' : incl rs (swap_remove arr r)).
  { intros x Hx. assert (In x (r :: swap_remove arr r)) by (eapply Permutation_in; [exact P|apply Inc; right; exact Hx]).
    destruct H as [<-|H]; [contradiction|exact H]. }
  eapply Permutation_trans; [exact P|]. apply perm_skip. apply IH; assumption.
Qed.

Section PruneP.
Variable u : Z.
Variable pos : nat -> P3.
Variable flagged : nat -> bool.
Notation keepf := (fun p => negb (flagged p)).
Notation prune := (prune flagged).
Definition oprune (o : option cell) : option cell := match o with None => None | Some d => prune d end.

Lemma prune_node n oct : prune (Node n oct) =
  match flat_map oleaves (map oprune oct) with
  | [] => None | [p] => Some (Leaf p) | ls => Some (Node (Z.of_nat (length ls)) (map oprune oct)) end.
Proof. reflexivity. Qed.

Lemma oleaves_prune_node n oct : oleaves (prune (Node n oct)) = flat_map oleaves (map oprune oct).
Proof. rewrite prune_node. destruct (flat_map oleaves (map oprune oct)) as [|a [|b r]] eqn:E; cbn [oleaves leaves]; try reflexivity.
  exact E. Qed.

(* the surviving leaves, in the same order *)
Lemma leaves_prune : forall t, oleaves (prune t) = filter keepf (leaves t).
Proof.
  induction t as [p|n oct IH] using cell_ind'.
  - cbn. destruct (flagged p); reflexivity.
  - rewrite oleaves_prune_node, leaves_node. induction oct as [|o oct IHo]; [reflexivity|].
    inversion IH as [|? ? Ho Hr]; subst. cbn [map flat_map]. rewrite filter_app. f_equal; [|apply IHo; exact Hr].
    destruct o as [d|]; [exact Ho|reflexivity].
Qed.

Lemma inside_child_parent : forall l' c o p, inside u l' (childc u c l' o) p -> inside u (S l') c p.
Proof.
  intros l' [[cx cy] cz] o [[px py] pz] I. unfold inside, childc in *. rewrite hw_S. unfold sg in I.
  destruct (Nat.testbit o 0), (Nat.testbit o 1), (Nat.testbit o 2); lia.
Qed.

Lemma wf_leaf_inside : forall l c t p, wf u pos l c t -> In p (leaves t) -> inside u l c (pos p).
Proof.
  induction l as [|l' IH]; intros c t p W Hp; destruct t as [q|n oct].
  - cbn in Hp. destruct Hp as [<-|[]]. exact W.
  - cbn in W. contradiction.
  - cbn in Hp. destruct Hp as [<-|[]]. rewrite wf_leaf in W. exact W.
  - rewrite wf_node_S in W. destruct W as (Lo & _ & _ & Ch). rewrite leaves_node in Hp.
    apply in_flat_map in Hp. destruct Hp as (y & Hy & Hp). destruct y as [d|]; [|destruct Hp].
    apply In_nth_error in Hy. destruct Hy as (o & Ho).
    eapply inside_child_parent. eapply IH; [apply (Ch o d Ho)|exact Hp].
Qed.

(* freeing flagged leaves + derefinement keeps the tree well formed *)
Lemma prune_wf : forall l c t, wf u pos l c t -> owf u pos l c (prune t).
Proof.
  induction l as [|l' IH]; intros c t W; destruct t as [p|n oct].
  - cbn. destruct (flagged p); [exact I|exact W].
  - cbn in W. contradiction.
  - cbn [Tree2.prune]. destruct (flagged p); [exact I|exact W].
  - pose proof W as W0. rewrite wf_node_S in W. destruct W as (Lo & _ & _ & Ch). rewrite prune_node.
    assert (Hc : forall o d', nth_error (map oprune oct) o = Some (Some d') -> wf u pos l' (childc u c l' o) d').
    { intros o d' H. rewrite nth_error_map in H. destruct (nth_error oct o) as [[d|]|] eqn:E; cbn in H; try discriminate.
      injection H as H. specialize (IH _ _ (Ch o d E)). rewrite H in IH. exact IH. }
    destruct (flat_map oleaves (map oprune oct)) as [|a [|b r]] eqn:E.
    + exact I.
    + cbn [owf]. rewrite wf_leaf.
      assert (Ha : In a (flat_map oleaves (map oprune oct))) by (rewrite E; left; reflexivity).
      apply in_flat_map in Ha. destruct Ha as (y & Hy & Ha). destruct y as [d'|]; [|destruct Ha].
      apply In_nth_error in Hy. destruct Hy as (o & Ho).
      eapply inside_child_parent. eapply wf_leaf_inside; [apply (Hc o d' Ho)|exact Ha].
    + cbn [owf]. rewrite wf_node_S. split; [rewrite map_length; exact Lo|]. split; [rewrite leaves_node, E; reflexivity|].
      split; [cbn [length]; lia|exact Hc].
Qed.

(* 'only flagged removals': with an array holding exactly the tree's particles, the walk leaves the well-formed
   tree of the survivors (same relative order of leaves) and an array that holds exactly the survivors, each once *)
Lemma flagged_removal : forall l c t arr, wf u pos l c t -> NoDup arr -> Permutation arr (leaves t) ->
  let arr' := fold_left swap_remove (filter flagged (leaves t)) arr in
  owf u pos l c (prune t) /\ oleaves (prune t) = filter keepf (leaves t) /\
  Permutation arr' (oleaves (prune t)) /\ NoDup arr' /\
  (length arr' + length (filter flagged (leaves t)) = length arr)%nat.
Proof.
  intros l c t arr W ND P arr'.
  assert (NDl : NoDup (leaves t)) by (eapply Permutation_NoDup; eassumption).
  assert (NDr : NoDup (filter flagged (leaves t))) by (apply NoDup_filter; exact NDl).
  assert (Inc : incl (filter flagged (leaves t)) arr).
  { intros x Hx. apply filter_In in Hx. eapply Permutation_in; [apply Permutation_sym; exact P|tauto]. }
  pose proof (remove_all_perm _ arr NDr Inc) as R. fold arr' in R.
  assert (P' : Permutation arr' (filter keepf (leaves t))).
  { apply Permutation_app_inv_l with (l := filter flagged (leaves t)).
    eapply Permutation_trans; [apply Permutation_sym; exact R|]. eapply Permutation_trans; [exact P|]. apply perm_partition. }
  split; [apply prune_wf; exact W|]. split; [apply leaves_prune|]. rewrite leaves_prune. split; [exact P'|]. split.
  - eapply Permutation_NoDup; [apply Permutation_sym; exact P'|]. apply NoDup_filter. exact NDl.
  - pose proof (Permutation_length R) as E. rewrite app_length in E. lia.
Qed.

(* ---- back to particle INDICES: the leaf of particle p holds its position in the new array ---- *)
Fixpoint idx (arr : list nat) (p : nat) : nat :=
  match arr with [] => 0%nat | a :: r => if Nat.eqb a p then 0%nat else S (idx r p) end.
Lemma nth_idx : forall arr p d, In p arr -> nth (idx arr p) arr d = p.
Proof.
  induction arr as [|a r IH]; intros p d H; [destruct H|]. cbn [idx]. destruct (Nat.eqb a p) eqn:E.
  - apply Nat.eqb_eq in E. exact E.
  - apply Nat.eqb_neq in E. destruct H as [e|H]; [congruence|]. cbn [nth]. apply IH. exact H.
Qed.
Lemma map_idx_seq : forall arr, NoDup arr -> map (idx arr) arr = seq 0 (length arr).
Proof.
  induction arr as [|a r IH]; intros ND; [reflexivity|]. inversion ND as [|? ? Hn ND']; subst.
  cbn [map length seq idx]. rewrite Nat.eqb_refl. f_equal. rewrite <- seq_shift, <- (IH ND'), map_map.
  apply map_ext_in. intros x Hx. destruct (Nat.eqb a x) eqn:E; [apply Nat.eqb_eq in E; subst; contradiction|reflexivity].
Qed.

Lemma leaves_relabel s : forall t, leaves (relabel s t) = map s (leaves t).
Proof.
  induction t as [p|n oct IH] using cell_ind'; [reflexivity|]. cbn [relabel]. rewrite !leaves_node.
  induction oct as [|o oct IHo]; [reflexivity|]. inversion IH as [|? ? Ho Hr]; subst. cbn [map flat_map]. rewrite map_app.
  f_equal; [|apply IHo; exact Hr]. destruct o as [d|]; [exact Ho|reflexivity].
Qed.

Lemma wf_relabel : forall pos' s l c t, (forall p, In p (leaves t) -> pos' (s p) = pos p) ->
  wf u pos l c t -> wf u pos' l c (relabel s t).
Proof.
  intros pos' s. induction l as [|l' IH]; intros c t H W; destruct t as [p|n oct].
  - cbn in *. rewrite H by (left; reflexivity). exact W.
  - cbn in W. contradiction.
  - cbn [relabel]. rewrite wf_leaf in *. rewrite H by (left; reflexivity). exact W.
  - rewrite wf_node_S in W. destruct W as (Lo & Cn & N2 & Ch).
    change (relabel s (Node n oct)) with (Node n (map (fun o => match o with None => None | Some d => Some (relabel s d) end) oct)).
    rewrite wf_node_S. split; [rewrite map_length; exact Lo|]. split.
    { change (Node n (map (fun o => match o with None => None | Some d => Some (relabel s d) end) oct)) with (relabel s (Node n oct)).
      rewrite leaves_relabel, map_length. exact Cn. }
    split; [exact N2|]. intros o d' Hd. rewrite nth_error_map in Hd.
    destruct (nth_error oct o) as [[d|]|] eqn:E; cbn in Hd; try discriminate. injection Hd as <-.
    apply IH; [|apply (Ch o d E)]. intros p Hp. apply H. rewrite leaves_node. apply in_flat_map. exists (Some d).
    split; [eapply nth_error_In; exact E|exact Hp].
Qed.

(* the leaf of every survivor holds its index in the new particle array: the re-indexed tree is well formed with
   respect to the NEW array and its leaves are exactly 0..N'-1, each once *)
Lemma flagged_removal_indices : forall l c t arr t', wf u pos l c t -> NoDup arr -> Permutation arr (leaves t) ->
  prune t = Some t' ->
  let arr' := fold_left swap_remove (filter flagged (leaves t)) arr in
  let pos' := fun i => pos (nth i arr' 0%nat) in
  wf u pos' l c (relabel (idx arr') t') /\ Permutation (leaves (relabel (idx arr') t')) (seq 0 (length arr')).
Proof.
  intros l c t arr t' W ND P E arr' pos'.
  destruct (flagged_removal l c t arr W ND P) as (W' & _ & P' & ND' & _). fold arr' in P', ND'. rewrite E in W', P'.
  cbn [owf oleaves] in W', P'. split.
  - apply wf_relabel; [|exact W']. intros p Hp. unfold pos'. rewrite nth_idx; [reflexivity|].
    eapply Permutation_in; [apply Permutation_sym; exact P'|exact Hp].
  - rewrite leaves_relabel. rewrite <- (map_idx_seq arr' ND'). apply Permutation_map, Permutation_sym. exact P'.
Qed.
End PruneP.
