(* C15: the tree update is only ever applied to a boundary-checked state.  Call orders regenerated from the source
   (Gen/TreeOrder.v, tools/translate_treeorder.py); definitions + finite check. *)
From Coq Require Import List Bool String.
From RV Require Import Gen.TreeOrder.
Import ListNotations.

(* state: have all particles been through reb_boundary_check since they last moved?
   B sets it, M (integrator half step, user callback, or the function's own edits of the particles) clears it,
   U (reb_simulation_update_tree) REQUIRES it (a re-inserted particle outside the box is refused by reb_simulation_add and
   dropped after N was decremented); the update itself moves no particle.  C = reb_collision_search, expanded. *)
Fixpoint order_ok (expandC : list tev) (checked : bool) (l : list tev) : bool :=
  match l with
  | [] => true
  | EvB :: r => order_ok expandC true r
  | EvM :: r => order_ok expandC false r
  | EvU :: r => checked && order_ok expandC checked r
  | EvC :: r => forallb (fun e => match e with EvU => checked | _ => true end) expandC && order_ok expandC checked r
  end.

(* entry state of a public function: unknown (the user may have edited particles), hence not checked;
   reb_simulation_move_to_com edits every particle itself before its two calls: entry M *)
Definition step_ok : bool := order_ok order_reb_collision_search false order_reb_simulation_step.
Definition move_to_com_ok : bool := order_ok order_reb_collision_search false (EvM :: order_reb_simulation_move_to_com).
Definition search_only_updates : bool := forallb (fun e => match e with EvU => true | _ => false end) order_reb_collision_search.
(* the encounter steps of the hybrid integrators move particles (entry M) and then search for collisions *)
Definition hybrid_ok : bool := forallb (fun s => order_ok order_reb_collision_search false (EvM :: snd s)) hybrid_search_sites.
