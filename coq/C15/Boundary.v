(* C15 model of src/boundary.c (definitions only; Num-polymorphic: binary64 instance compared bit for bit
   with reb_boundary_check, instance R carries the theorems).
     reb_boundary_check, case REB_BOUNDARY_PERIODIC:  while(x> L/2.) x -= L;  while(x< -L/2.) x += L;   per coordinate
     case REB_BOUNDARY_SHEAR: radial while-loops that also shift y by offsetp1/offsetm1 and vy by +-3/2 OMEGA Lx,
         then azimuthal and vertical periodic loops.  offsetp1/offsetm1 involve fmod: oracle arguments.
     case REB_BOUNDARY_OPEN (no tree; any N_active: since /repo 95ccee5 the unsorted removal is ONE move whatever N_active is): for(i=0;i<N;i++){ if(outside){ particles[i]=particles[N-1]; N--; i--; } }
     case REB_BOUNDARY_OPEN with a tree: the particle is only flagged (y = NaN), index and N are left alone.
   Every C while-loop carries explicit fuel; the theorems state the fuel bound under which the loop exit is the
   C loop exit (guard false) and not fuel exhaustion. *)
From Coq Require Import ZArith List Bool.
From RV Require Import Common.Num.
Import ListNotations.

Section Boundary.
Context {T : Type} (N : Num T).

Definition two : T := nofZ N 2.
(* boxsize.x/2.   and   -boxsize.x/2.  (unary minus first, as in C) *)
Definition hi (L : T) : T := ndiv N L two.
Definition lo (L : T) : T := ndiv N (nneg N L) two.

(* while(x > L/2.) x -= L; *)
Fixpoint wrap_down (fuel : nat) (L x : T) : T :=
  match fuel with
  | O => x
  | S f => if nltb N (hi L) x then wrap_down f L (nsub N x L) else x
  end.
(* while(x < -L/2.) x += L; *)
Fixpoint wrap_up (fuel : nat) (L x : T) : T :=
  match fuel with
  | O => x
  | S f => if nltb N x (lo L) then wrap_up f L (nadd N x L) else x
  end.
Definition wrap_periodic (fuel : nat) (L x : T) : T := wrap_up fuel L (wrap_down fuel L x).

(* the guard of both loops is false: this is the C loop exit *)
Definition wrapped (L x : T) : bool := negb (nltb N (hi L) x) && negb (nltb N x (lo L)).

(* one particle, periodic: (x,y,z) *)
Definition periodic_particle (fuel : nat) (bx bz_y bz : T) (p : T * T * T) : T * T * T :=
  let '(x, y, z) := p in (wrap_periodic fuel bx x, wrap_periodic fuel bz_y y, wrap_periodic fuel bz z).
Definition periodic_all (fuel : nat) (bx b_y bz : T) (ps : list (T * T * T)) : list (T * T * T) :=
  map (periodic_particle fuel bx b_y bz) ps.

(* shear, radial loops.  state (x, y, vy); dvy = 3./2.*OMEGA*boxsize.x (computed by the caller with the C
   operation order); op1/om1 = offsetp1/offsetm1 (fmod: oracle arguments). *)
Fixpoint shear_down (fuel : nat) (L op1 dvy : T) (s : T * T * T) : T * T * T :=
  match fuel with
  | O => s
  | S f => let '(x, y, vy) := s in
           if nltb N (hi L) x then shear_down f L op1 dvy (nsub N x L, nadd N y op1, nadd N vy dvy) else s
  end.
Fixpoint shear_up (fuel : nat) (L om1 dvy : T) (s : T * T * T) : T * T * T :=
  match fuel with
  | O => s
  | S f => let '(x, y, vy) := s in
           if nltb N x (lo L) then shear_up f L om1 dvy (nadd N x L, nadd N y om1, nsub N vy dvy) else s
  end.
(* particle (x,y,z,vy) -> (x,y,z,vy) *)
Definition shear_particle (fuel : nat) (bx b_y bz op1 om1 omega : T) (p : T * T * T * T) : T * T * T * T :=
  let '(x, y, z, vy) := p in
  let dvy := nmul N (nmul N (ndiv N (nofZ N 3) two) omega) bx in
  let '(x1, y1, vy1) := shear_up fuel bx om1 dvy (shear_down fuel bx op1 dvy (x, y, vy)) in
  (x1, wrap_periodic fuel b_y y1, wrap_periodic fuel bz z, vy1).

(* open boundaries: the six tests of reb_boundary_check / reb_boundary_particle_is_in_box *)
Definition outside1 (L x : T) : bool := nltb N (hi L) x || nltb N x (lo L).
Definition outside (bx b_y bz : T) (p : T * T * T) : bool :=
  let '(x, y, z) := p in outside1 bx x || outside1 b_y y || outside1 bz z.

(* the removal loop without a tree (particle order does not depend on N_active; N_active itself, clamped to N by
   reb_simulation_remove_particle, is checked by the searcher).  The array is  pre ++ rest  with i = length pre: the
   particles before index i have been examined and kept.  Removing particles[i] = p:
   reb_simulation_remove_particle(r,i,0) does N--; particles[i] = particles[N] (the LAST particle q moves into
   slot i), then the loop does i--, N-- (local) and the for-increment i++: slot i, now holding q, is examined
   next.  fuel: one unit per loop iteration (an iteration either advances i or decreases N). *)
Fixpoint unsnoc {A} (l : list A) : option (list A * A) :=
  match l with
  | [] => None
  | x :: r => match unsnoc r with None => Some ([], x) | Some (m, q) => Some (x :: m, q) end
  end.

Fixpoint check_open {A} (out : A -> bool) (fuel : nat) (pre rest : list A) : list A :=
  match fuel with
  | O => pre ++ rest
  | S f =>
      match rest with
      | [] => pre                                                   (* i >= N: loop exit *)
      | p :: rest' =>
          if out p then
            match unsnoc rest' with
            | None => pre                                           (* p was the last particle *)
            | Some (mid, q) => check_open out f pre (q :: mid)      (* last particle moved into slot i, re-examined *)
            end
          else check_open out f (pre ++ [p]) rest'
      end
  end.

(* with a tree the loop only flags: y := NaN (here: the flag function), index always advances *)
Definition check_open_tree {A} (out : A -> bool) (flag : A -> A) (arr : list A) : list A :=
  map (fun p => if out p then flag p else p) arr.

End Boundary.
