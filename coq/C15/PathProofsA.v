(* C15 round 4: paths, tget/tset algebra, leaves-with-paths under updates. *)
From Coq Require Import ZArith List Bool Lia Permutation Arith.
From RV Require Import Common.Num C15.Tree C15.TreeProofs C15.GravityProofs C15.PathModel C15.PathSpec.
Import ListNotations.
Close Scope Z_scope.
Open Scope nat_scope.

Lemma upd_same_nth {A} : forall (l : list A) i d, upd l i (nth i l d) = l.
Proof. induction l; destruct i; cbn; intros; f_equal; auto. Qed.
Lemma upd_upd_same {A} : forall (l : list A) i v w, upd (upd l i v) i w = upd l i w.
Proof. induction l; destruct i; cbn; intros; f_equal; auto. Qed.
Lemma upd_upd_comm {A} : forall (l : list A) i j v w, i <> j -> upd (upd l i v) j w = upd (upd l j w) i v.
Proof. induction l; destruct i, j; cbn; intros; try congruence; f_equal; auto. Qed.
Lemma nth_upd_same_d {A} : forall (l : list A) i v d, (i < length l)%nat -> nth i (upd l i v) d = v.
Proof. exact nth_upd_eq. Qed.

(* ---- leaves with paths ---- *)
Lemma lvc_node n oct p : lvc (Node n oct) p = lvl p oct 0.
Proof.
  cbn [lvc]. generalize 0%nat. induction oct as [|d r IH]; intros o; [reflexivity|].
  cbn [lvl]. f_equal. apply IH.
Qed.
Lemma lvo_node n oct p : lvo (Some (Node n oct)) p = lvl p oct 0.
Proof. apply lvc_node. Qed.

Lemma lvl_upd_perm : forall p (l : list (option cell)) o k v, (k < length l)%nat ->
  Permutation (lvo (nth k l None) (p ++ [o + k]) ++ lvl p (upd l k v) o) (lvo v (p ++ [o + k]) ++ lvl p l o).
Proof.
  intros p. induction l as [|d r IH]; intros o k v Hk; [cbn in Hk; lia|].
  destruct k as [|k]; cbn [nth upd lvl].
  - rewrite Nat.add_0_r. fold (lvo d (p ++ [o])). fold (lvo v (p ++ [o])). apply Permutation_app_swap_app.
  - cbn [length] in Hk. replace (o + S k)%nat with (S o + k)%nat by lia.
    eapply Permutation_trans; [apply Permutation_app_swap_app|].
    eapply Permutation_trans; [apply Permutation_app_head, (IH (S o) k v); lia|].
    apply Permutation_app_swap_app.
Qed.

(* the path s exists in t (all proper prefixes are nodes with enough children) *)
Fixpoint pathok (t : option cell) (s : path) : Prop :=
  match s with
  | [] => True
  | o :: s' => match t with
               | Some (Node _ oct) => (o < length oct)%nat /\ pathok (nth o oct None) s'
               | _ => False
               end
  end.

Lemma tget_tset_same : forall s t v, pathok t s -> tget (tset t s v) s = v.
Proof.
  induction s as [|o s IH]; intros t v H; [reflexivity|]. cbn in *.
  destruct t as [[q|n oct]|]; try contradiction. destruct H as [Ho H]. cbn. rewrite nth_upd_eq by exact Ho. apply IH. exact H.
Qed.
Lemma tset_tget : forall s t, tset t s (tget t s) = t.
Proof.
  induction s as [|o s IH]; intros t; [reflexivity|]. cbn. destruct t as [[q|n oct]|]; try reflexivity.
  rewrite IH. rewrite upd_same_nth. reflexivity.
Qed.
Lemma tset_tset : forall s t v w, tset (tset t s v) s w = tset t s w.
Proof.
  induction s as [|o s IH]; intros t v w; [reflexivity|]. cbn. destruct t as [[q|n oct]|]; try reflexivity. cbn.
  destruct (Nat.lt_ge_cases o (length oct)) as [Ho|Ho].
  - rewrite nth_upd_eq by exact Ho. rewrite IH, upd_upd_same. reflexivity.
  - assert (E : forall (l : list (option cell)) x, (length l <= o)%nat -> upd l o x = l).
    { clear. intros l. revert o. induction l; destruct o; cbn; intros; try lia; f_equal; auto. apply IHl. lia. }
    rewrite !E; try lia. reflexivity. rewrite E; lia.
Qed.
Lemma pathok_tset : forall s t v, pathok t s -> pathok (tset t s v) s.
Proof.
  induction s as [|o s IH]; intros t v H; [exact I|]. cbn in *. destruct t as [[q|n oct]|]; try contradiction.
  destruct H as [Ho H]. cbn. rewrite upd_len. split; [exact Ho|]. rewrite nth_upd_eq by exact Ho. apply IH. exact H.
Qed.
Lemma pathok_app : forall s1 s2 t, pathok t (s1 ++ s2) <-> pathok t s1 /\ pathok (tget t s1) s2.
Proof.
  induction s1 as [|o s1 IH]; intros s2 t; cbn; [tauto|]. destruct t as [[q|n oct]|]; try tauto.
  rewrite IH. tauto.
Qed.
Lemma tget_app : forall s1 s2 t, tget t (s1 ++ s2) = tget (tget t s1) s2.
Proof.
  induction s1 as [|o s1 IH]; intros s2 t; cbn; [reflexivity|]. destruct t as [[q|n oct]|]; try (destruct s2; reflexivity). apply IH.
Qed.
Lemma tget_some_pathok : forall s t c, tget t s = Some c -> pathok t s.
Proof.
  induction s as [|o s IH]; intros t c H; [exact I|]. cbn in *. destruct t as [[q|n oct]|]; try discriminate.
  split; [|eapply IH; exact H].
  destruct (Nat.lt_ge_cases o (length oct)) as [Ho|Ho]; [exact Ho|]. rewrite nth_overflow in H by exact Ho. destruct s; discriminate.
Qed.

(* replacing the subtree at s: the leaves of the old subtree go, those of the new one come, the rest stays *)
Lemma lv_tset : forall s t p0 v, pathok t s ->
  Permutation (lvo (tget t s) (p0 ++ s) ++ lvo (tset t s v) p0) (lvo v (p0 ++ s) ++ lvo t p0).
Proof.
  induction s as [|o s IH]; intros t p0 v H.
  - cbn [tget tset]. rewrite app_nil_r. apply Permutation_app_comm.
  - cbn [pathok] in H. destruct t as [[q|n oct]|]; try contradiction. destruct H as [Ho H].
    cbn [tget tset]. rewrite !lvo_node.
    set (c := nth o oct None) in *. set (c' := tset c s v).
    pose proof (lvl_upd_perm p0 oct 0 o c' Ho) as P1. cbn [Nat.add] in P1. fold c in P1.
    pose proof (IH c (p0 ++ [o]) v H) as P2. fold c' in P2. rewrite <- app_assoc in P2. cbn [app] in P2.
    set (A := lvo (tget c s) (p0 ++ o :: s)) in *. set (V := lvo v (p0 ++ o :: s)) in *.
    set (C := lvo c (p0 ++ [o])) in *. set (C' := lvo c' (p0 ++ [o])) in *.
    set (Ln := lvl p0 (upd oct o c') 0) in *. set (Lo := lvl p0 oct 0) in *.
    apply Permutation_app_inv_l with (l := C).
    eapply Permutation_trans; [apply Permutation_app_swap_app|].
    eapply Permutation_trans; [apply Permutation_app_head, P1|].
    eapply Permutation_trans; [rewrite app_assoc; apply Permutation_app_tail, P2|].
    rewrite <- app_assoc. apply Permutation_app_swap_app.
Qed.

(* membership in the leaf list <-> a leaf at that path *)
Lemma lvl_in : forall p l o r i, In (r, i) (lvl p l o) ->
  exists k, (k < length l)%nat /\ In (r, i) (lvo (nth k l None) (p ++ [o + k])).
Proof.
  intros p. induction l as [|d l IH]; intros o r i H; [destruct H|]. cbn [lvl] in H. apply in_app_or in H. destruct H as [H|H].
  - exists 0%nat. rewrite Nat.add_0_r. cbn. split; [lia|exact H].
  - destruct (IH (S o) r i H) as (k & Hk & Hin). exists (S k). cbn [nth length]. replace (o + S k)%nat with (S o + k)%nat by lia. split; [lia|exact Hin].
Qed.
Lemma lvl_in_conv : forall p l o k r i, (k < length l)%nat -> In (r, i) (lvo (nth k l None) (p ++ [o + k])) -> In (r, i) (lvl p l o).
Proof.
  intros p. induction l as [|d l IH]; intros o k r i Hk H; [cbn in Hk; lia|]. cbn [lvl]. apply in_or_app.
  destruct k as [|k].
  - left. rewrite Nat.add_0_r in H. exact H.
  - right. apply (IH (S o) k); [cbn in Hk; lia|]. replace (S o + k)%nat with (o + S k)%nat by lia. exact H.
Qed.

Lemma lv_tget : forall (t : option cell) p0 r i, In (r, i) (lvo t p0) ->
  exists s, r = p0 ++ s /\ tget t s = Some (Leaf i).
Proof.
  intros t. destruct t as [c|]; [|intros ? ? ? []].
  induction c as [q|n oct IH] using GravityProofs.cell_ind'; intros p0 r i H.
  - cbn in H. destruct H as [H|[]]. injection H as <- <-. exists []. rewrite app_nil_r. split; reflexivity.
  - rewrite lvo_node in H. apply lvl_in in H. destruct H as (k & Hk & Hin). cbn [Nat.add] in Hin.
    rewrite Forall_forall in IH. specialize (IH (nth k oct None) (nth_In _ _ Hk)).
    destruct (nth k oct None) as [d|] eqn:E; [|destruct Hin].
    destruct (IH (p0 ++ [k]) r i Hin) as (s & -> & Hs). exists (k :: s). rewrite <- app_assoc. split; [reflexivity|].
    cbn [tget]. rewrite E. exact Hs.
Qed.
Lemma tget_lv : forall s (t : option cell) p0 i, tget t s = Some (Leaf i) -> In (p0 ++ s, i) (lvo t p0).
Proof.
  induction s as [|o s IH]; intros t p0 i H.
  - cbn in H. subst t. rewrite app_nil_r. left. reflexivity.
  - cbn in H. destruct t as [[q|n oct]|]; try discriminate. rewrite lvo_node.
    assert (Ho : (o < length oct)%nat).
    { destruct (Nat.lt_ge_cases o (length oct)) as [Ho|Ho]; [exact Ho|]. rewrite nth_overflow in H by exact Ho. destruct s; discriminate. }
    apply (lvl_in_conv p0 oct 0 o); [exact Ho|]. cbn [Nat.add]. replace (p0 ++ o :: s) with ((p0 ++ [o]) ++ s) by (rewrite <- app_assoc; reflexivity).
    apply IH. exact H.
Qed.

(* two different leaf positions: neither is a prefix of the other; updates at them commute *)
Lemma tget_tset_other_leaf : forall a b (t : option cell) i j v, tget t a = Some (Leaf i) -> tget t b = Some (Leaf j) -> a <> b ->
  tget (tset t a v) b = Some (Leaf j).
Proof.
  induction a as [|x a IH]; intros b t i j v Ha Hb Hne.
  - cbn in Ha. subst t. destruct b; [congruence|]. cbn in Hb. discriminate.
  - destruct b as [|y b].
    + cbn in Hb. subst t. cbn in Ha. discriminate.
    + cbn in Ha, Hb. destruct t as [[q|n oct]|]; try discriminate. cbn [tset tget].
      destruct (Nat.eq_dec x y) as [e|ne].
      * subst y. assert (Hx : (x < length oct)%nat).
        { destruct (Nat.lt_ge_cases x (length oct)) as [Hx|Hx]; [exact Hx|]. rewrite nth_overflow in Ha by exact Hx. destruct a; discriminate. }
        rewrite nth_upd_eq by exact Hx. eapply IH; eauto. congruence.
      * rewrite nth_upd_ne by exact ne. exact Hb.
Qed.
Lemma tset_comm_leaf : forall a b (t : option cell) i j v w, tget t a = Some (Leaf i) -> tget t b = Some (Leaf j) -> a <> b ->
  tset (tset t a v) b w = tset (tset t b w) a v.
Proof.
  induction a as [|x a IH]; intros b t i j v w Ha Hb Hne.
  - cbn in Ha. subst t. destruct b; [congruence|]. cbn in Hb. discriminate.
  - destruct b as [|y b].
    + cbn in Hb. subst t. cbn in Ha. discriminate.
    + cbn in Ha, Hb. destruct t as [[q|n oct]|]; try discriminate. cbn [tset]. f_equal. f_equal.
      destruct (Nat.eq_dec x y) as [e|ne].
      * subst y. assert (Hx : (x < length oct)%nat).
        { destruct (Nat.lt_ge_cases x (length oct)) as [Hx|Hx]; [exact Hx|]. rewrite nth_overflow in Ha by exact Hx. destruct a; discriminate. }
        rewrite !nth_upd_eq by exact Hx. rewrite !upd_upd_same. f_equal. eapply IH; eauto. congruence.
      * rewrite !nth_upd_ne by (try exact ne; intro; apply ne; congruence). apply upd_upd_comm. exact ne.
Qed.

Lemma map_snd_perm_app {A B} (l1 l2 : list (A * B)) : map snd (l1 ++ l2) = map snd l1 ++ map snd l2.
Proof. apply map_app. Qed.
